//! `fpdrv` — line-protocol driver that calls the real `fpdec` crate in-process.
//!
//! One request per line on stdin, one response per line on stdout.  Every request runs inside
//! `catch_unwind`; panic messages are mapped to a small enum.  See DESIGN.md appendix A.

use std::{
    collections::hash_map::DefaultHasher,
    hash::{Hash, Hasher},
    io::{self, BufRead, Write},
    panic,
    str::FromStr,
    sync::mpsc,
};

use fpdec::{
    AsIntegerRatio, CheckedAdd, CheckedDiv, CheckedMul, CheckedRem, CheckedSub, Decimal, DivRounded,
    MulRounded, Quantize, Round, RoundingMode,
};

mod fmtgen;

thread_local! {
    static LAST_PANIC: std::cell::RefCell<String> = std::cell::RefCell::new(String::new());
}

fn classify(msg: &str) -> &'static str {
    // the library's own panics carry the Display text of a `DecimalError` variant: compare with what the crate under test prints
    // for that variant NOW (a reworded message is not a behavioural change), the literal texts are only a fallback
    let ovf = fpdec::DecimalError::InternalOverflow.to_string();
    let dz = fpdec::DecimalError::DivisionByZero.to_string();
    let nf = fpdec::DecimalError::MaxNFracDigitsExceeded.to_string();
    if (!ovf.is_empty() && msg.contains(ovf.trim_end_matches('.'))) || msg.contains("Internal representation exceeded") {
        "overflow"
    } else if (!dz.is_empty() && msg.contains(dz.trim_end_matches('.'))) || msg.contains("Division by Zero") {
        "divzero"
    } else if !nf.is_empty() && msg.contains(nf.trim_end_matches('.')) {
        "nfrac"
    } else if msg.contains("attempt to divide by zero")
        || msg.contains("remainder with a divisor of zero")
    {
        "rdivzero"
    } else if msg.contains("with overflow") {
        "arith"
    } else if msg.contains("bad-input") {
        "badinput"
    } else if msg.contains("More than MAX_N_FRAC_DIGITS") {
        "nfrac"
    } else if msg.contains("index out of bounds") || msg.contains("out of range for slice") {
        "index"
    } else if msg.contains("assertion") {
        "assert"
    } else if msg.contains("Option::unwrap()") || msg.contains("unreachable code") {
        "unwrap"
    } else {
        "other"
    }
}

fn mode_of(s: &str) -> Option<RoundingMode> {
    Some(match s {
        "05up" => RoundingMode::Round05Up,
        "ceil" => RoundingMode::RoundCeiling,
        "down" => RoundingMode::RoundDown,
        "floor" => RoundingMode::RoundFloor,
        "hdown" => RoundingMode::RoundHalfDown,
        "heven" => RoundingMode::RoundHalfEven,
        "hup" => RoundingMode::RoundHalfUp,
        "up" => RoundingMode::RoundUp,
        _ => return None,
    })
}

fn mode_name(m: RoundingMode) -> &'static str {
    match m {
        RoundingMode::Round05Up => "05up",
        RoundingMode::RoundCeiling => "ceil",
        RoundingMode::RoundDown => "down",
        RoundingMode::RoundFloor => "floor",
        RoundingMode::RoundHalfDown => "hdown",
        RoundingMode::RoundHalfEven => "heven",
        RoundingMode::RoundHalfUp => "hup",
        RoundingMode::RoundUp => "up",
    }
}

fn dec(c: &str, p: &str) -> Decimal {
    Decimal::new_raw(c.parse::<i128>().unwrap_or_else(|_| panic!("bad-input")), p.parse::<u8>().unwrap_or_else(|_| panic!("bad-input")))
}

fn show(d: Decimal) -> String {
    format!("ok {} {}", d.coefficient(), d.n_frac_digits())
}

fn show_opt(d: Option<Decimal>) -> String {
    match d {
        Some(d) => show(d),
        None => "none".to_string(),
    }
}

fn unhex(s: &str) -> Vec<u8> {
    if s == "-" {
        return vec![];
    }
    (0..s.len() / 2)
        .map(|i| u8::from_str_radix(&s[2 * i..2 * i + 2], 16).unwrap())
        .collect()
}

fn tohex(b: &[u8]) -> String {
    if b.is_empty() {
        return "-".to_string();
    }
    b.iter().map(|x| format!("{:02x}", x)).collect()
}

/// binary operator in the five operand forms
macro_rules! binop_forms {
    ($form:expr, $x:expr, $y:expr, $op:tt, $opassign:tt) => {{
        let (x, y) = ($x, $y);
        match $form {
            "vv" => x $op y,
            "rv" => &x $op y,
            "vr" => x $op &y,
            "rr" => &x $op &y,
            "as" => {
                let mut z = x;
                z $opassign y;
                z
            }
            "ar" => {
                let mut z = x;
                z $opassign &y;
                z
            }
            _ => panic!("bad form"),
        }
    }};
}

/// trait method in the four operand forms
macro_rules! meth_forms {
    ($form:expr, $x:expr, $y:expr, $tr:ident :: $m:ident $(, $n:expr)?) => {{
        let (x, y) = ($x, $y);
        match $form {
            "vv" => $tr::$m(x, y $(, $n)?),
            "rv" => $tr::$m(&x, y $(, $n)?),
            "vr" => $tr::$m(x, &y $(, $n)?),
            "rr" => $tr::$m(&x, &y $(, $n)?),
            _ => panic!("bad form"),
        }
    }};
}

/// dispatch on an integer type name
macro_rules! with_int {
    ($ty:expr, $s:expr, $i:ident => $body:expr) => {
        match $ty {
            "u8" => { let $i: u8 = $s.parse().unwrap_or_else(|_| panic!("bad-input")); $body }
            "i8" => { let $i: i8 = $s.parse().unwrap_or_else(|_| panic!("bad-input")); $body }
            "u16" => { let $i: u16 = $s.parse().unwrap_or_else(|_| panic!("bad-input")); $body }
            "i16" => { let $i: i16 = $s.parse().unwrap_or_else(|_| panic!("bad-input")); $body }
            "u32" => { let $i: u32 = $s.parse().unwrap_or_else(|_| panic!("bad-input")); $body }
            "i32" => { let $i: i32 = $s.parse().unwrap_or_else(|_| panic!("bad-input")); $body }
            "u64" => { let $i: u64 = $s.parse().unwrap_or_else(|_| panic!("bad-input")); $body }
            "i64" => { let $i: i64 = $s.parse().unwrap_or_else(|_| panic!("bad-input")); $body }
            "i128" => { let $i: i128 = $s.parse().unwrap_or_else(|_| panic!("bad-input")); $body }
            _ => panic!("bad int type"),
        }
    };
}

/// Decimal-with-integer operator, integer on the right (`pos = r`) or left (`l`)
macro_rules! int_binop {
    ($pos:expr, $form:expr, $d:expr, $i:expr, $op:tt, $opassign:tt) => {{
        let (d, i) = ($d, $i);
        if $pos == "r" {
            match $form {
                "vv" => d $op i,
                "rv" => &d $op i,
                "vr" => d $op &i,
                "rr" => &d $op &i,
                "as" => { let mut z = d; z $opassign i; z }
                "ar" => { let mut z = d; z $opassign &i; z }
                _ => panic!("bad form"),
            }
        } else {
            match $form {
                "vv" => i $op d,
                "rv" => &i $op d,
                "vr" => i $op &d,
                "rr" => &i $op &d,
                _ => panic!("bad form"),
            }
        }
    }};
}

macro_rules! int_meth {
    ($pos:expr, $form:expr, $d:expr, $i:expr, $tr:ident :: $m:ident $(, $n:expr)?) => {{
        let (d, i) = ($d, $i);
        if $pos == "r" {
            match $form {
                "vv" => $tr::$m(d, i $(, $n)?),
                "rv" => $tr::$m(&d, i $(, $n)?),
                "vr" => $tr::$m(d, &i $(, $n)?),
                "rr" => $tr::$m(&d, &i $(, $n)?),
                _ => panic!("bad form"),
            }
        } else {
            match $form {
                "vv" => $tr::$m(i, d $(, $n)?),
                "rv" => $tr::$m(&i, d $(, $n)?),
                "vr" => $tr::$m(i, &d $(, $n)?),
                "rr" => $tr::$m(&i, &d $(, $n)?),
                _ => panic!("bad form"),
            }
        }
    }};
}

fn ord_name(o: core::cmp::Ordering) -> &'static str {
    match o {
        core::cmp::Ordering::Less => "Less",
        core::cmp::Ordering::Equal => "Equal",
        core::cmp::Ordering::Greater => "Greater",
    }
}

fn opt_ord_name(o: Option<core::cmp::Ordering>) -> &'static str {
    match o {
        Some(o) => ord_name(o),
        None => "None",
    }
}

fn b(x: bool) -> &'static str {
    if x {
        "1"
    } else {
        "0"
    }
}

/// a `Hasher` that records which methods are called with which values: the observable "what is fed to the hasher"
#[derive(Default)]
struct RecordingHasher(Vec<String>);
impl Hasher for RecordingHasher {
    fn finish(&self) -> u64 { 0 }
    fn write(&mut self, bytes: &[u8]) { self.0.push(format!("bytes{}:{}", bytes.len(), tohex(bytes))); }
    fn write_u8(&mut self, i: u8) { self.0.push(format!("u8:{}", i)); }
    fn write_u16(&mut self, i: u16) { self.0.push(format!("u16:{}", i)); }
    fn write_u32(&mut self, i: u32) { self.0.push(format!("u32:{}", i)); }
    fn write_u64(&mut self, i: u64) { self.0.push(format!("u64:{}", i)); }
    fn write_u128(&mut self, i: u128) { self.0.push(format!("u128:{}", i)); }
    fn write_usize(&mut self, i: usize) { self.0.push(format!("usize:{}", i)); }
    fn write_i8(&mut self, i: i8) { self.0.push(format!("i8:{}", i)); }
    fn write_i16(&mut self, i: i16) { self.0.push(format!("i16:{}", i)); }
    fn write_i32(&mut self, i: i32) { self.0.push(format!("i32:{}", i)); }
    fn write_i64(&mut self, i: i64) { self.0.push(format!("i64:{}", i)); }
    fn write_i128(&mut self, i: i128) { self.0.push(format!("i128:{}", i)); }
    fn write_isize(&mut self, i: isize) { self.0.push(format!("isize:{}", i)); }
}

fn feed_of<T: Hash>(t: &T) -> String {
    let mut h = RecordingHasher::default();
    t.hash(&mut h);
    h.0.join(",")
}

fn hash_of<T: Hash>(t: &T) -> u64 {
    let mut h = DefaultHasher::new();
    t.hash(&mut h);
    h.finish()
}

fn int_op(op: &str, ty: &str, pos: &str, form: &str, t: &[&str]) -> String {
    // t = [a, p, i, (n)]
    let d = dec(t[0], t[1]);
    let n: u8 = if t.len() > 3 { t[3].parse().unwrap_or_else(|_| panic!("bad-input")) } else { 0 };
    with_int!(ty, t[2], i => match op {
        "iadd" => show(int_binop!(pos, form, d, i, +, +=)),
        "isub" => show(int_binop!(pos, form, d, i, -, -=)),
        "imul" => show(int_binop!(pos, form, d, i, *, *=)),
        "idiv" => show(int_binop!(pos, form, d, i, /, /=)),
        "irem" => show(int_binop!(pos, form, d, i, %, %=)),
        "icadd" => show_opt(int_meth!(pos, form, d, i, CheckedAdd::checked_add)),
        "icsub" => show_opt(int_meth!(pos, form, d, i, CheckedSub::checked_sub)),
        "icmul" => show_opt(int_meth!(pos, form, d, i, CheckedMul::checked_mul)),
        "icdiv" => show_opt(int_meth!(pos, form, d, i, CheckedDiv::checked_div)),
        "icrem" => show_opt(int_meth!(pos, form, d, i, CheckedRem::checked_rem)),
        "idivr" => show(int_meth!(pos, form, d, i, DivRounded::div_rounded, n)),
        "iquant" => show(if pos == "r" { d.quantize(i) } else { i.quantize(d) }),
        "ieq" => {
            // both `==` and `!=` must agree
            let (e, ne) = if pos == "r" { (d == i, d != i) } else { (i == d, i != d) };
            if e == ne { "inconsistent".to_string() } else { b(e).to_string() }
        }
        "icmp" => {
            let (pc, lt, le, gt, ge) = if pos == "r" {
                (d.partial_cmp(&i), d < i, d <= i, d > i, d >= i)
            } else {
                (i.partial_cmp(&d), i < d, i <= d, i > d, i >= d)
            };
            // the four operators must be consistent with partial_cmp
            let ok = match pc {
                Some(core::cmp::Ordering::Less) => lt && le && !gt && !ge,
                Some(core::cmp::Ordering::Equal) => !lt && le && !gt && ge,
                Some(core::cmp::Ordering::Greater) => !lt && !le && gt && ge,
                None => !lt && !le && !gt && !ge,
            };
            if ok { opt_ord_name(pc).to_string() } else { "inconsistent".to_string() }
        }
        _ => "bad-op".to_string(),
    })
}

fn int_int_op(op: &str, ty: &str, form: &str, t: &[&str]) -> String {
    with_int!(ty, t[0], i => {
        let j = t[1].parse().unwrap_or_else(|_| panic!("bad-input"));
        let _: &dyn std::any::Any = &i;
        // make `j` the same type as `i`
        let mut jj = i;
        #[allow(unused_assignments)]
        { jj = j; }
        match op {
            "iidivr" => {
                let n: u8 = t[2].parse().unwrap_or_else(|_| panic!("bad-input"));
                show(meth_forms!(form, i, jj, DivRounded::div_rounded, n))
            }
            "iiquant" => show(i.quantize(jj)),
            _ => "bad-op".to_string(),
        }
    })
}

fn float_err(e: fpdec::DecimalError) -> String {
    format!("err {:?}", e)
}

fn run(mode_tok: &str, t: &[&str]) -> String {
    let op = t[0];
    let _ = mode_tok;
    match op {
        "add" => show(binop_forms!(t[1], dec(t[2], t[3]), dec(t[4], t[5]), +, +=)),
        "sub" => show(binop_forms!(t[1], dec(t[2], t[3]), dec(t[4], t[5]), -, -=)),
        "mul" => show(binop_forms!(t[1], dec(t[2], t[3]), dec(t[4], t[5]), *, *=)),
        "div" => show(binop_forms!(t[1], dec(t[2], t[3]), dec(t[4], t[5]), /, /=)),
        "rem" => show(binop_forms!(t[1], dec(t[2], t[3]), dec(t[4], t[5]), %, %=)),
        "cadd" => show_opt(meth_forms!(t[1], dec(t[2], t[3]), dec(t[4], t[5]), CheckedAdd::checked_add)),
        "csub" => show_opt(meth_forms!(t[1], dec(t[2], t[3]), dec(t[4], t[5]), CheckedSub::checked_sub)),
        "cmul" => show_opt(meth_forms!(t[1], dec(t[2], t[3]), dec(t[4], t[5]), CheckedMul::checked_mul)),
        "cdiv" => show_opt(meth_forms!(t[1], dec(t[2], t[3]), dec(t[4], t[5]), CheckedDiv::checked_div)),
        "crem" => show_opt(meth_forms!(t[1], dec(t[2], t[3]), dec(t[4], t[5]), CheckedRem::checked_rem)),
        "mulr" => {
            let n: u8 = t[6].parse().unwrap_or_else(|_| panic!("bad-input"));
            show(meth_forms!(t[1], dec(t[2], t[3]), dec(t[4], t[5]), MulRounded::mul_rounded, n))
        }
        "divr" => {
            let n: u8 = t[6].parse().unwrap_or_else(|_| panic!("bad-input"));
            show(meth_forms!(t[1], dec(t[2], t[3]), dec(t[4], t[5]), DivRounded::div_rounded, n))
        }
        "quant" => show(dec(t[1], t[2]).quantize(dec(t[3], t[4]))),
        "iadd" | "isub" | "imul" | "idiv" | "irem" | "icadd" | "icsub" | "icmul" | "icdiv" | "icrem"
        | "idivr" | "iquant" | "ieq" | "icmp" => int_op(op, t[1], t[2], t[3], &t[4..]),
        "iidivr" => int_int_op(op, t[1], t[2], &t[3..]),
        "iiquant" => int_int_op(op, t[1], "vv", &t[2..]),
        "round" => show(dec(t[1], t[2]).round(t[3].parse::<i8>().unwrap_or_else(|_| panic!("bad-input")))),
        "cround" => show_opt(dec(t[1], t[2]).checked_round(t[3].parse::<i8>().unwrap_or_else(|_| panic!("bad-input")))),
        "cmp" => {
            let (x, y) = (dec(t[1], t[2]), dec(t[3], t[4]));
            let pc = x.partial_cmp(&y);
            let bits = format!(
                "{}{}{}{}{}{}",
                b(x == y), b(x != y), b(x < y), b(x <= y), b(x > y), b(x >= y)
            );
            let c = panic::catch_unwind(|| x.cmp(&y));
            let cs = match c {
                Ok(o) => ord_name(o).to_string(),
                Err(_) => format!("panic {}", classify(&LAST_PANIC.with(|m| m.borrow().clone()))),
            };
            let (mn, mx) = (x.min(y), x.max(y));
            format!(
                "{} {} {} {} {} {} {}",
                cs, opt_ord_name(pc), bits,
                mn.coefficient(), mn.n_frac_digits(), mx.coefficient(), mx.n_frac_digits()
            )
        }
        "kdivr" => {
            let m = mode_of(mode_tok).unwrap();
            let v = fpdec_core::i128_div_rounded(t[1].parse().unwrap_or_else(|_| panic!("bad-input")), t[2].parse().unwrap_or_else(|_| panic!("bad-input")), Some(m));
            format!("ok {}", v)
        }
        "kwsh" => match fpdec_core::i128_shifted_div_mod_floor(
            t[1].parse().unwrap_or_else(|_| panic!("bad-input")), t[2].parse().unwrap_or_else(|_| panic!("bad-input")), t[3].parse().unwrap_or_else(|_| panic!("bad-input"))) {
            Some((q, r)) => format!("ok {} {}", q, r),
            None => "none".to_string(),
        },
        "kw256" => match fpdec_core::i256_div_mod_floor(
            t[1].parse().unwrap_or_else(|_| panic!("bad-input")), t[2].parse().unwrap_or_else(|_| panic!("bad-input")), t[3].parse().unwrap_or_else(|_| panic!("bad-input"))) {
            Some((q, r)) => format!("ok {} {}", q, r),
            None => "none".to_string(),
        },
        "kmagn" => format!("{}", fpdec_core::i128_magnitude(t[1].parse().unwrap_or_else(|_| panic!("bad-input")))),
        "parse" => {
            let bytes = unhex(t[1]);
            match std::str::from_utf8(&bytes) {
                Err(_) => "notutf8".to_string(),
                Ok(s) => {
                    let r1 = Decimal::from_str(s);
                    let r2 = Decimal::try_from(s);
                    let r3 = Decimal::try_from(s.to_string());
                    let f = |r: Result<Decimal, fpdec::ParseDecimalError>| match r {
                        Ok(d) => show(d),
                        Err(e) => format!("err {:?}", e),
                    };
                    let (a, bb, c) = (f(r1), f(r2), f(r3));
                    if a == bb && bb == c { a } else { format!("inconsistent {} / {} / {}", a, bb, c) }
                }
            }
        }
        "s2d" => {
            let bytes = unhex(t[1]);
            match std::str::from_utf8(&bytes) {
                Err(_) => "notutf8".to_string(),
                Ok(s) => match fpdec_core::str_to_dec(s) {
                    Ok((c, e)) => format!("ok {} {}", c, e),
                    Err(e) => format!("err {:?}", e),
                },
            }
        }
        "str" => {
            let d = dec(t[1], t[2]);
            let s1 = d.to_string();
            let s2 = String::from(d);
            let mut dbg = format!("{:?}", d);
            // Debug under other Formatter flags (`{:#?}` is what `dbg!` and pretty-printed containers use): the text inside
            // `Dec!(..)` must stay the same; a variant whose inside differs is reported in place of the plain one
            fn inside(s: &str) -> Option<&str> {
                let i = s.find("Dec!(")?;
                let j = s[i + 5..].find(')')?;
                Some(&s[i + 5..i + 5 + j])
            }
            let variants = [format!("{:#?}", d), format!("{:+?}", d), format!("{:14?}", d), format!("{:.1?}", d),
                            format!("{:<08.3?}", d), format!("{:#?}", Some(d))];
            for v in variants.iter() {
                if inside(v) != inside(&dbg) {
                    dbg = v.clone();
                    break;
                }
            }
            let back = match Decimal::from_str(&s2) {
                Ok(r) => format!("ok,{},{}", r.coefficient(), r.n_frac_digits()),
                Err(e) => format!("err,{:?}", e),
            };
            format!("{} {} {} {}", tohex(s1.as_bytes()), tohex(s2.as_bytes()), tohex(dbg.as_bytes()), back)
        }
        "fmt" => {
            let d = dec(t[1], t[2]);
            tohex(fmtgen::fmt_dec(&d, t[3], t[4], t[5], t[6], t[7], t[8]).as_bytes())
        }
        "tof64" => format!("{}", f64::from(dec(t[1], t[2])).to_bits()),
        "tof32" => format!("{}", f32::from(dec(t[1], t[2])).to_bits()),
        "fromf64" => match Decimal::try_from(f64::from_bits(t[1].parse().unwrap_or_else(|_| panic!("bad-input")))) {
            Ok(d) => show(d),
            Err(e) => float_err(e),
        },
        "fromf32" => match Decimal::try_from(f32::from_bits(t[1].parse().unwrap_or_else(|_| panic!("bad-input")))) {
            Ok(d) => show(d),
            Err(e) => float_err(e),
        },
        "fromint" => with_int!(t[1], t[2], i => show(Decimal::from(i))),
        "fromu128" => match Decimal::try_from(t[1].parse::<u128>().unwrap_or_else(|_| panic!("bad-input"))) {
            Ok(d) => show(d),
            Err(e) => float_err(e),
        },
        "toint" => {
            let d = dec(t[2], t[3]);
            macro_rules! ti {
                ($t:ty) => {
                    match <$t>::try_from(d) {
                        Ok(v) => format!("ok {}", v),
                        Err(e) => format!("err {:?}", e),
                    }
                };
            }
            match t[1] {
                "u8" => ti!(u8), "i8" => ti!(i8), "u16" => ti!(u16), "i16" => ti!(i16),
                "u32" => ti!(u32), "i32" => ti!(i32), "u64" => ti!(u64), "i64" => ti!(i64),
                "u128" => ti!(u128), "i128" => ti!(i128),
                _ => "bad-op".to_string(),
            }
        }
        "unop" => {
            let d = dec(t[2], t[3]);
            match t[1] {
                "floor" => show(d.floor()),
                "ceil" => show(d.ceil()),
                "trunc" => show(d.trunc()),
                "fract" => show(d.fract()),
                "neg" => {
                    let (x, y) = (-d, -&d);
                    if x.coefficient() == y.coefficient() && x.n_frac_digits() == y.n_frac_digits() {
                        show(x)
                    } else {
                        "inconsistent".to_string()
                    }
                }
                "abs" => show(d.abs()),
                "magn" => format!("ok {}", d.magnitude()),
                "eqzero" => b(d.eq_zero()).to_string(),
                "eqone" => b(d.eq_one()).to_string(),
                "isneg" => b(d.is_negative()).to_string(),
                "ispos" => b(d.is_positive()).to_string(),
                _ => "bad-op".to_string(),
            }
        }
        "ratio" => {
            let d = dec(t[1], t[2]);
            let (n, dn) = d.as_integer_ratio();
            format!("{} {} {} {}", n, dn, d.numerator(), d.denominator())
        }
        "hash" => {
            // hash(d) == hash(ratio pair); equal values in every representation hash alike
            let d = dec(t[1], t[2]);
            let r = d.as_integer_ratio();
            let mut same = hash_of(&d) == hash_of(&r);
            let mut c = d.coefficient();
            for p in d.n_frac_digits() + 1..=18 {
                match c.checked_mul(10) {
                    Some(c2) if c2 != i128::MIN => {
                        c = c2;
                        let e = Decimal::new_raw(c, p);
                        same = same && e == d && hash_of(&e) == hash_of(&d);
                    }
                    _ => break,
                }
            }
            b(same).to_string()
        }
        "hashfeed" => {
            // the exact sequence of `Hasher` calls: must be that of the `(numerator, denominator)` pair, two `write_i128`
            let d = dec(t[1], t[2]);
            feed_of(&d)
        }
        "hasheq" => {
            let (x, y) = (dec(t[1], t[2]), dec(t[3], t[4]));
            format!("{} {}", b(x == y), b(hash_of(&x) == hash_of(&y)))
        }
        #[cfg(feature = "serde-as-str")]
        "serde" => {
            let d = dec(t[1], t[2]);
            let js = serde_json::to_string(&d).unwrap();
            let back = match serde_json::from_str::<Decimal>(&js) {
                Ok(r) => format!("ok,{},{}", r.coefficient(), r.n_frac_digits()),
                Err(_) => "err".to_string(),
            };
            format!("{} {}", tohex(js.as_bytes()), back)
        }
        #[cfg(feature = "rkyv")]
        "rkyv" => rkyv_op(t),
        #[cfg(feature = "num-traits")]
        "nt" => nt_op(t),
        _ => "bad-op".to_string(),
    }
}

#[cfg(feature = "rkyv")]
fn rkyv_op(t: &[&str]) -> String {
    use rkyv::Deserialize;
    let (x, y) = (dec(t[1], t[2]), dec(t[3], t[4]));
    let bx = rkyv::to_bytes::<_, 256>(&x).unwrap();
    let by = rkyv::to_bytes::<_, 256>(&y).unwrap();
    let ax = rkyv::check_archived_root::<Decimal>(&bx[..]).unwrap();
    let ay = rkyv::check_archived_root::<Decimal>(&by[..]).unwrap();
    let dx: Decimal = ax.deserialize(&mut rkyv::Infallible).unwrap();
    // the provided comparison operators must agree with partial_cmp in every operand combination
    let cons = |pc: Option<core::cmp::Ordering>, lt: bool, le: bool, gt: bool, ge: bool, ne: bool, eq: bool| -> bool {
        use core::cmp::Ordering::*;
        match pc {
            Some(Less) => lt && le && !gt && !ge && ne && !eq,
            Some(Equal) => !lt && le && !gt && ge && !ne && eq,
            Some(Greater) => !lt && !le && gt && ge && ne && !eq,
            None => !lt && !le && !gt && !ge,
        }
    };
    let ok = cons(ax.partial_cmp(ay), ax < ay, ax <= ay, ax > ay, ax >= ay, ax != ay, ax == ay)
        && cons(ax.partial_cmp(&y), *ax < y, *ax <= y, *ax > y, *ax >= y, *ax != y, *ax == y)
        && cons(x.partial_cmp(ay), x < *ay, x <= *ay, x > *ay, x >= *ay, x != *ay, x == *ay);
    if !ok {
        return "inconsistent".to_string();
    }
    format!(
        "{} {}{}{} {} {} {}",
        show(dx).replace(' ', ","),
        b(ax == ay), b(*ax == y), b(x == *ay),
        opt_ord_name(ax.partial_cmp(ay)),
        opt_ord_name(ax.partial_cmp(&y)),
        opt_ord_name(x.partial_cmp(ay)),
    )
}

#[cfg(feature = "num-traits")]
fn nt_op(t: &[&str]) -> String {
    use num_traits::{Num, One, Signed, Zero};
    match t[1] {
        "iszero" => b(Zero::is_zero(&dec(t[2], t[3]))).to_string(),
        "isone" => b(One::is_one(&dec(t[2], t[3]))).to_string(),
        "zero" => show(<Decimal as Zero>::zero()),
        "one" => show(<Decimal as One>::one()),
        "abs" => show(Signed::abs(&dec(t[2], t[3]))),
        "signum" => show(Signed::signum(&dec(t[2], t[3]))),
        "ispos" => b(Signed::is_positive(&dec(t[2], t[3]))).to_string(),
        "isneg" => b(Signed::is_negative(&dec(t[2], t[3]))).to_string(),
        "abssub" => show(Signed::abs_sub(&dec(t[2], t[3]), &dec(t[4], t[5]))),
        "radix" => {
            let bytes = unhex(t[3]);
            let s = std::str::from_utf8(&bytes).unwrap();
            match <Decimal as Num>::from_str_radix(s, t[2].parse().unwrap_or_else(|_| panic!("bad-input"))) {
                Ok(d) => show(d),
                Err(e) => format!("err {:?}", e),
            }
        }
        _ => "bad-op".to_string(),
    }
}

/// `threads <op>…`: ops `s<t>:<mode>`, `g<t>`, `r<t>:<c>:<p>:<n>`; each thread id is a real OS
/// thread, operations are executed strictly in the given order (turn-taking over channels).
fn run_threads(ops: &[&str]) -> String {
    use std::collections::HashMap;
    type Req = String;
    let mut workers: HashMap<String, (mpsc::Sender<Req>, mpsc::Receiver<String>)> = HashMap::new();
    let mut handles = vec![];
    let mut out = vec![];
    for op in ops {
        let kind = &op[0..1];
        let rest: Vec<&str> = op[1..].split(':').collect();
        let tid = rest[0].to_string();
        let w = workers.entry(tid.clone()).or_insert_with(|| {
            let (tx_req, rx_req) = mpsc::channel::<Req>();
            let (tx_res, rx_res) = mpsc::channel::<String>();
            let h = std::thread::spawn(move || {
                for req in rx_req {
                    let parts: Vec<&str> = req.split(':').collect();
                    let res = panic::catch_unwind(|| match parts[0] {
                        "s" => {
                            RoundingMode::set_default(mode_of(parts[2]).unwrap());
                            "-".to_string()
                        }
                        "g" => mode_name(RoundingMode::default()).to_string(),
                        // probe: five roundings that together identify the mode actually used
                        "p" => [15, 25, -15, 21, 5]
                            .iter()
                            .map(|c| Decimal::new_raw(*c, 1).round(0).coefficient().to_string())
                            .collect::<Vec<_>>()
                            .join(","),
                        "r" => show(dec(parts[2], parts[3]).round(parts[4].parse::<i8>().unwrap_or_else(|_| panic!("bad-input"))))
                            .replace(' ', ","),
                        // any request of the protocol, executed on this thread under the thread's own default mode
                        "x" => {
                            let toks: Vec<&str> = parts[2].split('_').collect();
                            run("keep", &toks).replace(' ', ",")
                        }
                        _ => "bad-op".to_string(),
                    });
                    let res = match res {
                        Ok(s) => s,
                        Err(_) => format!(
                            "panic,{}",
                            classify(&LAST_PANIC.with(|m| m.borrow().clone()))
                        ),
                    };
                    if tx_res.send(res).is_err() {
                        break;
                    }
                }
            });
            handles.push(h);
            (tx_req, rx_res)
        });
        let req = format!("{}:{}", kind, rest.join(":"));
        w.0.send(req).unwrap();
        out.push(w.1.recv().unwrap());
    }
    drop(workers);
    for h in handles {
        let _ = h.join();
    }
    out.join(" ")
}

fn main() {
    panic::set_hook(Box::new(|info| {
        let msg = if let Some(s) = info.payload().downcast_ref::<&str>() {
            s.to_string()
        } else if let Some(s) = info.payload().downcast_ref::<String>() {
            s.clone()
        } else {
            "?".to_string()
        };
        LAST_PANIC.with(|m| *m.borrow_mut() = msg);
    }));
    let stdin = io::stdin();
    let stdout = io::stdout();
    let mut out = io::BufWriter::new(stdout.lock());
    for line in stdin.lock().lines() {
        let line = line.unwrap();
        let toks: Vec<&str> = line.split_whitespace().collect();
        if toks.is_empty() {
            writeln!(out, "bad-op").unwrap();
            continue;
        }
        if toks[0] == "threads" {
            // every schedule runs in a fresh process: process-wide state that a schedule leaves behind
            // (a `static`, an atomic counter …) must not mask or fake the behaviour of the next one
            if std::env::args().any(|a| a == "--child") {
                writeln!(out, "{}", run_threads(&toks[1..])).unwrap();
            } else {
                use std::process::{Command, Stdio};
                let mut ch = Command::new(std::env::current_exe().unwrap())
                    .arg("--child")
                    .stdin(Stdio::piped())
                    .stdout(Stdio::piped())
                    .spawn()
                    .expect("spawn child");
                ch.stdin.take().unwrap().write_all(format!("{}\n", line).as_bytes()).unwrap();
                let o = ch.wait_with_output().unwrap();
                let txt = String::from_utf8_lossy(&o.stdout);
                let first = txt.lines().next().unwrap_or("panic other");
                writeln!(out, "{}", first).unwrap();
            }
            continue;
        }
        let mode = match mode_of(toks[0]) {
            Some(m) => m,
            None => {
                writeln!(out, "bad-op").unwrap();
                continue;
            }
        };
        RoundingMode::set_default(mode);
        let t = &toks[1..];
        let res = panic::catch_unwind(|| run(toks[0], t));
        match res {
            Ok(s) => writeln!(out, "{}", s).unwrap(),
            Err(_) => {
                let msg = LAST_PANIC.with(|m| m.borrow().clone());
                writeln!(out, "panic {}", classify(&msg)).unwrap()
            }
        }
    }
    out.flush().unwrap();
}
