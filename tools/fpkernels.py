#!/usr/bin/env python3
"""fpkernels: translate loop-free integer kernels of the Rust source into Lean definitions (lean/Fpdec/Gen/Kernels.lean).

A small Rust-subset front end (tokenizer, Pratt expression parser, statements, `if`/`match`, tuples, casts, method calls,
early `return`) and a Lean back end that emits code in the conventions of the hand-written model:

  * signed integers are `Int`, unsigned ones `Nat`; `bool` is `Bool`/`Prop` as Lean needs it;
  * a *plain* operator `a + b` on type T becomes an effect `let t ← <plain T> prof (a + b)` (panics iff overflow checks are on,
    else wraps) — emitted in evaluation order (A-normal form), short-circuit `&&` / `||` keep their laziness when an operand has effects;
  * `/` and `%` become `divI128` / `remI128` (panic on zero divisor and MIN / -1) — except by a literal other than 0 and -1,
    where they are the pure `Int.tdiv` / `Int.tmod` (unsigned: `/`, `%`);
  * `wrapping_rem` on i128 → `wrappingRemI128` (truncated remainder, `0` for MIN / -1, panic on a zero divisor only);
  * `checked_*` → `checkedI128`-style `Option`, `wrapping_*` → wrap, `as T` → wrap, `<<`/`>>` on unsigned → shifts with the
    shifted-out bits dropped, array indexing → `Option`-valued lookup with an index panic;
  * every function takes the build profile and returns `Outcome <ret>`.

The Lean side (Fpdec/Props/Kernels.lean) proves, per kernel, that the generated definition equals the hand-written model function
(by `rfl` where the shapes coincide, by a short lemma where the model abstracts an effect that cannot fire).  A change of an
operator, a constant, an operand, a branch or the order of evaluation in the Rust source changes the generated definition and
breaks that equality.

usage: fpkernels.py <repo> <out.lean>
"""
import os
import re
import sys
from pathlib import Path

# ----------------------------------------------------------------------------- tokenizer
TOK = re.compile(r"""
    (?P<ws>\s+|//[^\n]*|/\*.*?\*/)
  | (?P<num>0x[0-9a-fA-F_]+|0b[01_]+|\d[\d_]*)(?P<suf>(?:u8|i8|u16|i16|u32|i32|u64|i64|u128|i128|usize|isize))?
  | (?P<id>[A-Za-z_][A-Za-z0-9_]*)
  | (?P<op><<=|>>=|&&|\|\||==|!=|<=|>=|<<|>>|\+=|-=|\*=|/=|%=|&=|\|=|\^=|->|=>|::|\.\.|[-+*/%&|^!<>=(){}\[\],;:.?\#])
""", re.X | re.S)


def tokenize(src):
    out, i = [], 0
    while i < len(src):
        m = TOK.match(src, i)
        if not m:
            raise SyntaxError(f"cannot tokenize at {src[i:i+30]!r}")
        i = m.end()
        if m.group("ws"):
            continue
        if m.group("num"):
            s = m.group("num").replace("_", "")
            v = int(s, 16) if s.startswith("0x") else int(s[2:], 2) if s.startswith("0b") else int(s)
            out.append(("num", v, m.group("suf")))
        elif m.group("id"):
            out.append(("id", m.group("id"), None))
        else:
            out.append(("op", m.group("op"), None))
    out.append(("eof", None, None))
    return out


# ----------------------------------------------------------------------------- parser (AST as tuples)
INT_TYPES = {"u8", "i8", "u16", "i16", "u32", "i32", "u64", "i64", "u128", "i128", "usize", "isize"}
BINPREC = [("||",), ("&&",), ("==", "!=", "<", ">", "<=", ">="), ("|",), ("^",), ("&",), ("<<", ">>"), ("+", "-"), ("*", "/", "%")]


class P:
    def __init__(self, toks):
        self.t, self.i = toks, 0

    def peek(self, k=0):
        return self.t[self.i + k]

    def next(self):
        x = self.t[self.i]; self.i += 1; return x

    def at(self, val):
        k, v, _ = self.peek()
        return (k in ("op", "id")) and v == val

    def eat(self, val):
        if not self.at(val):
            raise SyntaxError(f"expected {val!r}, got {self.peek()} at token {self.i}")
        return self.next()

    def opt(self, val):
        if self.at(val):
            self.next(); return True
        return False

    # ---- types
    def ty(self):
        if self.opt("("):
            items = []
            while not self.at(")"):
                items.append(self.ty()); self.opt(",")
            self.eat(")")
            return ("tuple", items)
        if self.opt("&"):
            self.opt("mut")
            return self.ty()
        if self.opt("["):
            el = self.ty()
            if self.opt("]"):
                return ("slice", el)
            self.eat(";"); self.expr(); self.eat("]")
            return ("array", el)
        k, v, _ = self.next()
        if k != "id":
            raise SyntaxError(f"type expected, got {v}")
        while self.opt("::"):
            v = self.next()[1]
        if self.opt("<"):
            args = [self.ty()]
            while self.opt(","):
                args.append(self.ty())
            self.eat(">")
            return (v, *args)
        return v

    # ---- patterns
    def pat(self):
        if self.opt("("):
            items = []
            while not self.at(")"):
                items.append(self.pat()); self.opt(",")
            self.eat(")")
            return ("ptuple", items)
        if self.opt("_"):
            return ("pwild",)
        self.opt("&")                 # `&c` on a reference to a Copy value binds the value
        self.opt("mut")
        k, v, suf = self.next()
        if k == "num":
            return ("plit", v)
        path = [v]
        while self.opt("::"):
            path.append(self.next()[1])
        if self.opt("("):
            sub = self.pat(); self.eat(")")
            return ("pctor", path, sub)
        if len(path) > 1 or path[0] in ("None",):
            return ("pctor", path, None)
        return ("pvar", v)

    # ---- expressions
    def expr(self, level=0, nostruct=False):
        if level == len(BINPREC):
            return self.unary(nostruct)
        lhs = self.expr(level + 1, nostruct)
        while self.peek()[0] == "op" and self.peek()[1] in BINPREC[level]:
            op = self.next()[1]
            rhs = self.expr(level + 1, nostruct)
            lhs = ("bin", op, lhs, rhs)
        return lhs

    def unary(self, nostruct):
        # `as` binds weaker than the prefix operators: `-x as u8` is `(-x) as u8`
        e = self.prefix(nostruct)
        while self.at("as"):
            self.next()
            e = ("cast", e, self.ty())
        return e

    def prefix(self, nostruct):
        if self.opt("-"):
            return ("neg", self.prefix(nostruct))
        if self.opt("!"):
            return ("not", self.prefix(nostruct))
        if self.opt("*"):
            return self.prefix(nostruct)          # deref of a Copy value
        if self.opt("&"):
            self.opt("mut")
            return self.prefix(nostruct)
        return self.postfix(self.primary(nostruct))

    def postfix(self, e):
        while True:
            if self.opt("."):
                k, v, _ = self.next()
                if k == "num":
                    e = ("field", e, v)
                elif self.opt("("):
                    args = self.args()
                    e = ("method", e, v, args)
                else:
                    e = ("field", e, v)
            elif self.opt("["):
                ix = self.expr(); self.eat("]")
                e = ("index", e, ix)
            elif self.opt("?"):
                e = ("try", e)
            else:
                return e

    def args(self):
        out = []
        while not self.at(")"):
            a = self.expr()
            if self.opt(".."):
                a = ("rangefrom", a)
            out.append(a); self.opt(",")
        self.eat(")")
        return out

    def primary(self, nostruct):
        k, v, suf = self.peek()
        if k == "num":
            self.next(); return ("lit", v, suf)
        if k == "str":
            self.next(); return ("strlit", v)
        if self.opt("("):
            items, trailing = [], False
            while not self.at(")"):
                items.append(self.expr())
                trailing = self.opt(",")
            self.eat(")")
            if len(items) == 1 and not trailing:
                return ("paren", items[0])
            return ("tuple", items)
        if self.at("||"):
            self.next()
            return ("closure", [], self.expr())
        if self.at("|"):
            self.next()
            ps = []
            while not self.at("|"):
                ps.append(self.next()[1]); self.opt(",")
            self.eat("|")
            body = self.expr()
            if self.at("="):
                self.next()
                body = ("assignexpr", body, self.expr())
            return ("closure", ps, body)
        if self.opt("["):
            items = []
            while not self.at("]"):
                items.append(self.expr()); self.opt(",")
            self.eat("]")
            return ("arraylit", items)
        if self.at("if"):
            return self.if_expr()
        if self.at("match"):
            return self.match_expr()
        if self.at("unsafe") and self.peek(1)[1] == "{":
            self.next()
            return self.block()       # `unsafe { … }` is a block; what makes its contents defined is stated where they are translated
        if self.at("{"):
            return self.block()
        if self.at("return"):
            self.next()
            return ("return", self.expr())
        if k == "id":
            self.next()
            path = [v]
            while self.opt("::"):
                path.append(self.next()[1])
            if self.opt("("):
                return ("call", path, self.args())
            if self.at("{") and not nostruct and path[-1] in ("Decimal", "Self", "Output"):
                self.next()
                fields = []
                while not self.at("}"):
                    fn_ = self.next()[1]
                    if self.opt(":"):
                        fields.append((fn_, self.expr()))
                    else:
                        fields.append((fn_, ("path", [fn_])))
                    self.opt(",")
                self.eat("}")
                return ("struct", fields)
            if self.at("!"):   # macro call, e.g. panic!(...), debug_assert!(..), unreachable!()
                self.next(); self.eat("(")
                depth, toks = 1, []
                while depth:
                    t = self.next()
                    if t[1] == "(": depth += 1
                    elif t[1] == ")": depth -= 1
                    if depth: toks.append(t)
                return ("macro", path[0], toks)
            return ("path", path)
        raise SyntaxError(f"unexpected token {self.peek()} at {self.i}")

    def if_expr(self):
        self.eat("if")
        if self.opt("let"):
            pt = self.pat()
            self.eat("=")
            scr = self.expr(nostruct=True)
            th = self.block()
            el = None
            if self.opt("else"):
                el = self.if_expr() if self.at("if") else self.block()
            if el is None:
                el = ("block", [], None)          # statement `if let` without `else`
            return ("match", scr, [([pt], th), ([("pwild",)], el)])
        c = self.expr(nostruct=True)
        th = self.block()
        el = None
        if self.opt("else"):
            el = self.if_expr() if self.at("if") else self.block()
        return ("if", c, th, el)

    def match_expr(self):
        self.eat("match")
        scr = self.expr(nostruct=True)
        self.eat("{")
        arms = []
        while not self.at("}"):
            pats = [self.pat()]
            while self.opt("|"):
                pats.append(self.pat())
            guard = self.expr(nostruct=True) if self.opt("if") else None
            self.eat("=>")
            body = self.expr()
            self.opt(",")
            arms.append((pats, body, guard))
        self.eat("}")
        if any(g is not None for _, _, g in arms):
            return ("match", scr, self.lower_guards(arms))
        return ("match", scr, [(ps, b) for ps, b, _ in arms])

    @staticmethod
    def lower_guards(arms):
        """match on an `Option` with guarded arms -> one arm per constructor whose body is the `if` chain of the guards, in source
        order (a guard that fails falls through to the next arm that matches the same constructor)"""
        flat = [(pt, b, g) for ps, b, g in arms for pt in ps]

        def ctor_of(pt):
            if pt[0] == "pctor" and pt[1][-1] in ("None", "Some"):
                return pt[1][-1]
            if pt[0] == "pwild":
                return None
            raise SyntaxError(f"guarded match: pattern {pt}")
        binder = None
        for pt, _, _ in flat:
            if ctor_of(pt) == "Some" and pt[2] is not None and pt[2][0] == "pvar":
                if binder is not None and binder != pt[2][1]:
                    raise SyntaxError("guarded match: arms bind different names")
                binder = pt[2][1]

        def blk(b):
            return b if b[0] == "block" else ("block", [], b)

        def chain(cands):
            if not cands:
                raise SyntaxError("guarded match: not exhaustive")
            (pt, b, g), rest = cands[0], cands[1:]
            if g is None:
                return b
            return ("if", g, blk(b), blk(chain(rest)))
        out = []
        for c in ("None", "Some"):
            cands = [(pt, b, g) for pt, b, g in flat if ctor_of(pt) in (c, None)]
            pat = ("pctor", [c], None) if c == "None" else ("pctor", [c], ("pvar", binder) if binder else ("pwild",))
            out.append(([pat], chain(cands)))
        return out

    def block(self):
        self.eat("{")
        stmts, tail = [], None
        while not self.at("}"):
            if self.at("#"):           # attribute
                self.next(); self.eat("[")
                d = 1
                while d:
                    t = self.next()
                    d += (t[1] == "[") - (t[1] == "]")
                continue
            if self.at("const"):
                self.next(); name = self.next()[1]; self.eat(":"); ty = self.ty(); self.eat("=")
                e = self.expr(); self.eat(";")
                stmts.append(("const", name, ty, e)); continue
            if self.at("while") and self.peek(1)[1] == "let":
                self.next(); self.next()
                pt = self.pat(); self.eat("=")
                scr = self.expr(nostruct=True)
                b = self.block()
                stmts.append(("whilelet", pt, scr, b)); continue
            if self.at("while"):
                self.next()
                c = self.expr(nostruct=True)
                b = self.block()
                stmts.append(("while", c, b)); continue
            if self.at("let"):
                self.next()
                p = self.pat()
                ty = None
                if self.opt(":"):
                    ty = self.ty()
                if ty is not None and self.opt(";"):
                    stmts.append(("declare", p, ty)); continue      # `let x: T;` — assigned on every path later
                self.eat("=")
                e = self.expr(); self.eat(";")
                stmts.append(("let", p, ty, e)); continue
            e = self.expr()
            if self.peek()[0] == "op" and self.peek()[1] in ("=", "+=", "-=", "*=", "/=", "%=", "<<=", ">>=", "&=", "|=", "^="):
                op = self.next()[1]
                rhs = self.expr(); self.eat(";")
                stmts.append(("assign", op, e, rhs)); continue
            if self.opt(";"):
                if e[0] == "call" and e[1][-2:] == ["mem", "swap"] and len(e[2]) == 2 and all(a[0] == "path" and len(a[1]) == 1 for a in e[2]):
                    # `mem::swap(&mut a, &mut b);` on two local variables = exchange of their values
                    a, b = e[2]
                    stmts.append(("let", ("pvar", "swap_tmp"), None, a))
                    stmts.append(("assign", "=", a, b))
                    stmts.append(("assign", "=", b, ("path", ["swap_tmp"])))
                    continue
                stmts.append(("expr", e)); continue
            if self.at("}"):
                tail = e
            else:
                stmts.append(("expr", e))     # block-like expression statement (if / match without `;`)
        self.eat("}")
        return ("block", stmts, tail)


def parse_fn(src, name, occ=0, key=None):
    """returns (params [(name, type)], ret type, body AST); `occ` selects among several functions of that name in the file"""
    src = re.sub(r"//[^\n]*", "", src)
    def _byte(m):
        c = m.group(1)
        if c.startswith("\\"):
            c = {"n": "\n", "t": "\t", "r": "\r", "0": "\0", "\\": "\\", "'": "'", '"': '"'}[c[1]]
        return f"{ord(c)}_u8"
    src = re.sub(r"\bb'([^'\\\n]|\\.)'", _byte, src)              # byte literals: their value
    src = re.sub(r"'(?:[^'\\\n]|\\.)'", "0", src)                  # char literals (keeps lifetimes)
    src = re.sub(r"<'[a-z_]+>", "", src)                             # lifetime parameters / arguments
    src = re.sub(r"'[a-z_]+\b", "", src)
    strs = []

    def _str(mm):
        t = re.sub(r"\\\n\s*", "", mm.group(0)[1:-1])       # line continuation
        t = t.replace('\\"', '"').replace("\\n", "\n").replace("\\\\", "\\")
        strs.append(t)
        return f" __STR{len(strs) - 1}__ "
    src = re.sub(r'"(?:[^"\\]|\\.)*"', _str, src, flags=re.S)
    m = None
    seen = 0
    for cand in re.finditer(r"fn\s+" + re.escape(name) + r"\s*\(", src):
        nb = src.find("{", cand.end())
        if nb >= 0 and ";" not in src[cand.end():nb]:
            if seen == occ:
                m = cand
                break
            seen += 1
    if not m:
        raise KeyError(name)
    i = src.index("{", m.end())
    depth = 0
    for j in range(i, len(src)):
        depth += (src[j] == "{") - (src[j] == "}")
        if depth == 0:
            break
    toks = tokenize(src[m.start(): j + 1])
    toks = [("str", strs[int(t[1][5:-2])], None) if t[0] == "id" and re.fullmatch(r"__STR\d+__", t[1]) else t for t in toks]
    p = P(toks)
    p.eat("fn"); p.next(); p.eat("(")
    params = []
    while not p.at(")"):
        self_mut_ref = False
        if p.at("&") and p.peek(1)[1] == "self":
            p.next()
        elif p.at("&") and p.peek(1)[1] == "mut" and p.peek(2)[1] == "self":
            p.next(); self_mut_ref = True
        p.opt("mut")
        if p.at("self"):
            p.next(); params.append(("self", "Self")); p.opt(",")
            if self_mut_ref:
                MUT_PARAMS.setdefault(key or name, []).append("self")
            continue
        pn = p.next()[1]; p.eat(":")
        is_mut_ref = p.at("&") and p.peek(1)[1] == "mut"
        params.append((pn, p.ty()))
        if is_mut_ref and params[-1][1] != "Formatter":     # the formatter is only read here; what is written is the function's value
            MUT_PARAMS.setdefault(key or name, []).append(pn)
        p.opt(",")
    p.eat(")")
    ret = "()"
    if p.opt("->"):
        ret = p.ty()
    return params, ret, p.block()


# ----------------------------------------------------------------------------- macro_rules! instantiation (textual)
def _balanced(src, i, open_ch, close_ch):
    """index just after the bracket group that starts at src[i] == open_ch"""
    d = 0
    for j in range(i, len(src)):
        if src[j] == open_ch:
            d += 1
        elif src[j] == close_ch:
            d -= 1
            if d == 0:
                return j + 1
    raise SyntaxError("unbalanced")


def macro_arms(src, name):
    m = re.search(r"macro_rules!\s*" + re.escape(name) + r"\s*\{", src)
    if not m:
        raise KeyError("macro " + name)
    end = _balanced(src, m.end() - 1, "{", "}")
    body = src[m.end(): end - 1]
    arms, i = [], 0
    while True:
        j = body.find("(", i)
        if j < 0:
            break
        k = _balanced(body, j, "(", ")")
        pat = body[j + 1: k - 1]
        b0 = body.index("{", body.index("=>", k))
        b1 = _balanced(body, b0, "{", "}")
        arms.append((pat, body[b0 + 1: b1 - 1]))
        i = b1
    return arms, (m.start(), end)


def macro_invocation(src, name, k, skip):
    """argument text of the k-th invocation `name!( … )` outside the macro's own definition"""
    n = 0
    for m in re.finditer(r"\b" + re.escape(name) + r"\s*!\s*\(", src):
        if skip[0] <= m.start() < skip[1]:
            continue
        if n == k:
            e = _balanced(src, m.end() - 1, "(", ")")
            return src[m.end(): e - 1]
        n += 1
    raise KeyError(f"invocation {k} of {name}")


def macro_bind(pattern, args):
    """bindings of the `$x:ident` metavariables of a flat pattern against the invocation's tokens"""
    pt = re.findall(r"\$\w+:\w+|\w+|[^\s\w]", pattern)
    at = re.findall(r'"[^"]*"|\w+|[^\s\w]', args)
    b, j = {}, 0
    for t in pt:
        if t.startswith("$"):
            b[t.split(":")[0]] = at[j]
        elif at[j] != t:
            raise SyntaxError(f"macro pattern mismatch at {t!r} / {at[j]!r}")
        j += 1
    return b


def macro_expand(src, name, arm, inv, extra):
    """the body of arm `arm` of macro `name`, metavariables replaced by the bindings of invocation `inv` (matched against the
    first arm's flat pattern) plus `extra`; repetition markers `$( … )*` are dropped (one instance)"""
    src = re.sub(r"//[^\n]*", "", src)
    arms, span = macro_arms(src, name)
    b = macro_bind(arms[0][0], macro_invocation(src, name, inv, span)) if inv is not None else {}
    b.update(extra or {})
    body = arms[arm][1]
    body = body.replace("$(", "").replace(")*", "")
    for k in sorted(b, key=len, reverse=True):
        body = re.sub(re.escape(k) + r"\b", b[k], body)
    nostr = re.sub(r'"(?:[^"\\]|\\.)*"', '""', body, flags=re.S)
    if "$" in nostr:
        raise SyntaxError("unbound metavariable in macro body: " + nostr[nostr.index("$"): nostr.index("$") + 20])
    return body


# ----------------------------------------------------------------------------- back end
MUT_PARAMS = {"u256_idiv_u128_special": ["xh", "xl"]}     # fn name -> names of its `&mut` parameters (their final values are returned, before the declared result)
THREAD_LOCAL_CELL = "DFLT_ROUNDING_MODE"
UNIT_RET = set()    # translated functions that return no value (only the final values of their `&mut` parameters)
LOOP_FUEL = {}      # (fn name, loop index) -> fuel constant of the generated loop function


class Unsupported(Exception):
    pass


def signed(t):
    return isinstance(t, str) and t.startswith("i")


FLOAT_BITS = {"f64": "u64", "f32": "u32"}      # a float value is carried as its bit pattern


def bits(t):
    return 64 if t in ("usize", "isize") else int(t[1:])


def lean_ty(t):
    if t == "bool":
        return "Bool"
    if isinstance(t, str) and t in FLOAT_BITS:
        return "Nat"
    if isinstance(t, str) and t in INT_TYPES:
        return "Int" if signed(t) else "Nat"
    if isinstance(t, tuple) and t[0] == "tuple":
        return "(" + " × ".join(lean_ty(x) for x in t[1]) + ")"
    if isinstance(t, tuple) and t[0] == "Option":
        return f"(Option {lean_ty(t[1])})"
    if t == "RoundingMode":
        return "Mode"
    if t == "Decimal":
        return "Model.Dec"
    if t == "Ordering":
        return "Ordering"
    if t == "Formatter":
        return "Std.FmtSpec"
    if t == "()":
        return "Unit"
    if t == "HashFeed":
        return "(List Int)"         # the sequence of `write_i128` calls made on the Hasher
    if t in ("str", "AsciiDecLit", "String", "Written") or t == ("slice", "u8"):
        return "(List Nat)"         # a string / byte slice / the parser's cursor (a struct around its remaining slice): its bytes
    if isinstance(t, tuple) and t[0] == "Result":
        if len(t) > 2 and t[2] == "ParseDecimalError":
            return f"(Except Model.ParseErr {lean_ty(t[1])})"
        et = t[2] if len(t) > 2 and t[2] in ("DecimalError", "TryFromDecimalError") else "DecimalError"
        return f"(Except Rt.{et} {lean_ty(t[1])})"
    if isinstance(t, tuple) and t[0] == "Sum":
        return f"(Sum {lean_ty(t[1])} {lean_ty(t[2])})"
    raise Unsupported(f"type {t}")


ERR_NAMES = {"MaxNFracDigitsExceeded": "maxNFracDigitsExceeded", "InternalOverflow": "internalOverflow",
             "InfiniteValue": "infiniteValue", "NotANumber": "notANumber", "DivisionByZero": "divisionByZero",
             "NotAnIntValue": "notAnIntValue", "ValueOutOfRange": "valueOutOfRange"}
# methods of `Decimal` that kernels call; they are modelled by hand: name -> (result type, Lean head, monadic?)
DEC_METHODS = {"eq_zero": ("bool", "Model.eqZero", False), "eq_one": ("bool", "Model.eqOne", True),
               "is_negative": ("bool", "Model.isNegative", False), "is_positive": ("bool", "Model.isPositive", False),
               "fract": ("Decimal", "Model.fract", True)}
# methods of the parser's cursor type `AsciiDecLit` -> name of their translation
LIT_METHODS = {"is_empty": "lit_is_empty", "len": "lit_len", "skip_n": "lit_skip_n", "skip_1": "lit_skip_1", "first": "lit_first",
               "first_eq": "lit_first_eq", "skip_leading_zeroes": "lit_skip_leading_zeroes", "read_u64": "lit_read_u64",
               "read_u64_unchecked": "lit_read_u64_unchecked", "accum_coeff": "lit_accum_coeff", "accum_exp": "lit_accum_exp"}
# methods of `Decimal` that resolve to translated functions: name -> (translated function, result type)
DEC_K_METHODS = {"partial_cmp": ("decimal_partial_cmp", ("Option", "Ordering")), "abs": ("decimal_abs", "Decimal")}
STRUCT_FIELDS = {"coeff": ("i128", "coeff"), "n_frac_digits": ("u8", "nfrac")}
MODE_NAMES = {"Round05Up": ".r05up", "RoundCeiling": ".ceil", "RoundDown": ".down", "RoundFloor": ".floor",
              "RoundHalfDown": ".hdown", "RoundHalfEven": ".heven", "RoundHalfUp": ".hup", "RoundUp": ".up"}


class Emit:
    """translate one function; effects are hoisted into `let tN ← …` lines (A-normal form)"""

    def __init__(self, fname, params, ret, sigs, consts, self_ty=None):
        self.fname, self.ret, self.sigs, self.consts = fname, ret, sigs, dict(consts)
        self.env = {}
        self.self_ty = self_ty
        for n, t in params:
            self.env[n] = self_ty if t == "Self" else t
        self.tmp = 0
        self.local_consts = {}
        self.needs_tm = False

    def fresh(self):
        self.tmp += 1
        return f"t{self.tmp}"

    @staticmethod
    def unify(a, b):
        """combine the types of two branches: an untyped literal (defaulted to i32) yields to the other branch"""
        if a is None:
            return b
        if b is None:
            return a
        if isinstance(a, tuple) and isinstance(b, tuple) and a[0] == b[0] == "tuple":
            return ("tuple", [Emit.unify(x, y) for x, y in zip(a[1], b[1])])
        if a == "i32" and b != "i32":
            return b
        return a

    def branch_type(self, e):
        if e[0] == "block":
            return self.branch_type(e[2]) if (e[2] is not None) else None
        if e[0] == "if" and e[3] is not None:
            return Emit.unify(self.branch_type(e[2]), self.branch_type(e[3]))
        try:
            return self.type_of(e)
        except Unsupported:
            return None

    def wrap_ret(self, x):
        """the value a `return`/tail produces, preceded by the final values of the `&mut` parameters"""
        mp = MUT_PARAMS.get(self.fname, [])
        if not mp or getattr(self, "in_loop", False) or getattr(self, "in_value", False):
            return x
        return "(" + ", ".join(mp + ([x] if x is not None else [])) + ")"

    # ---- types of expressions (light-weight inference)
    def type_of(self, e, hint=None):
        k = e[0]
        if k == "lit":
            return e[2] or hint or "i32"
        if k == "strlit":
            return "str"
        if k == "macro" and e[1] == "format":
            return "String"
        if k == "macro" and e[1] == "write":
            return "Written"
        if k == "paren":
            return self.type_of(e[1], hint)
        if k == "path":
            n = e[1][-1]
            if len(e[1]) == 1 and n in self.env:
                return self.env[n]
            if n in self.local_consts:
                return self.local_consts[n][0]
            if n in self.consts:
                return self.consts[n][0]
            if n in MODE_NAMES:
                return "RoundingMode"
            if e[1] == ["i128", "MAX"] or e[1] == ["i128", "MIN"]:
                return "i128"
            if len(e[1]) == 2 and e[1][0] in INT_TYPES and n in ("MAX", "MIN"):
                return e[1][0]
            if len(e[1]) == 2 and e[1][0] in INT_TYPES and n == "BITS":
                return "u32"
            if len(e[1]) == 2 and e[1][0] == "Self" and n in getattr(self, "self_consts", {}):
                return self.self_consts[n][0]
            if n == "None":
                return ("Option", hint[1] if isinstance(hint, tuple) else "?")
            if len(e[1]) == 1 and n in ("true", "false"):
                return "bool"
            if n in ("Less", "Equal", "Greater") and e[1][0] == "Ordering":
                return "Ordering"
            if len(e[1]) == 2 and e[1][0] in ("Self", "Decimal") and n in ("ZERO", "ONE"):
                return "Decimal"
            raise Unsupported(f"unknown name {e[1]}")
        if k == "cast":
            return self.self_ty if e[2] == "Self" and self.self_ty else e[2]
        if k in ("neg",):
            return self.type_of(e[1], hint)
        if k == "not":
            return self.type_of(e[1], hint)
        if k == "bin":
            op = e[1]
            if op in ("==", "!=", "<", ">", "<=", ">=", "&&", "||"):
                return "bool"
            if op in ("*", "-", "+", "/") and e[2][0] != "lit":
                try:
                    if self.type_of(e[2]) == "Decimal":
                        return "Decimal"
                except Unsupported:
                    pass
            lt = self.type_of(e[2], hint) if e[2][0] != "lit" or e[2][2] else None
            if lt is None:
                lt = self.type_of(e[3], hint)
            return lt
        if k == "tuple":
            return ("tuple", [self.type_of(x) for x in e[1]])
        if k == "method":
            rt = self.type_of(e[1], hint)
            m = e[2]
            if m == "to_string":
                return "String"
            if m == "div_rounded":
                return "Decimal"
            if m == "unwrap" and isinstance(rt, tuple) and rt[0] == "Option":
                return rt[1]
            if rt == "Decimal" and m in getattr(self, "method_override", {}) and self.method_override[m][0] in self.sigs:
                return self.method_override[m][1]
            if rt == "Ordering" and m == "reverse":
                return "Ordering"
            if rt == "Decimal" and m in DEC_K_METHODS and DEC_K_METHODS[m][0] in self.sigs:
                return DEC_K_METHODS[m][1]
            if m == "as_str":
                return "str"
            if rt == "Formatter" and m == "precision":
                return ("Option", "usize")
            if rt == "Formatter" and m == "pad_integral":
                return "Written"
            if rt == "AsciiDecLit" and m in LIT_METHODS:
                r = self.sigs[LIT_METHODS[m]][1] if LIT_METHODS[m] in self.sigs else EXTERNAL[LIT_METHODS[m]][1]
                mp = MUT_PARAMS.get(LIT_METHODS[m], [])
                if mp and isinstance(r, tuple) and r[0] == "tuple":
                    return r[1][-1] if len(r[1]) > len(mp) else "()"
                return "()" if mp else r
            if rt in (("slice", "u8"), "str"):
                return {"is_empty": "bool", "len": "usize", "first": ("Option", "u8"), "get_unchecked": ("slice", "u8"),
                        "as_ref": ("slice", "u8")}[m]
            if m == "then":
                return ("Option", self.type_of(e[3][0][2]))
            if m.startswith("checked_"):
                return ("Option", rt)
            if m in ("unsigned_abs",):
                return "u" + rt[1:]
            if m in ("leading_zeros", "trailing_zeros"):
                return "u32"
            if m in ("is_negative", "is_positive"):
                return "bool"
            if m == "divmod":
                return ("tuple", [rt, rt])
            if m == "cmp":
                return "Ordering"
            if rt == "Decimal" and m in DEC_METHODS:
                return DEC_METHODS[m][0]
            if rt == "Decimal" and m == "coefficient":
                return "i128"
            if rt == "Decimal" and m == "n_frac_digits":
                return "u8"
            if m == "map":
                return ("Option", "Decimal")
            if m == "partial_cmp":
                return ("Option", "Ordering")
            if m == "to_bits" and isinstance(rt, str):
                return FLOAT_BITS[rt]
            if m in ("is_nan", "is_infinite"):
                return "bool"
            return rt
        if k == "call":
            n = e[1][-1]
            if e[1] == ["RoundingMode", "default"]:
                return "RoundingMode"
            if e[1] in (["min"], ["max"], ["cmp", "min"], ["cmp", "max"]):
                return self.type_of(e[2][0], hint)
            if n == "Some":
                return ("Option", self.type_of(e[2][0]))
            if n in ("Ok", "Err"):
                return hint
            if len(e[1]) == 2 and (e[1][0], n) in TRAIT_CALLS:
                return "Decimal"
            if n == "from_bits" and len(e[1]) == 2 and e[1][0] == "Self":
                return "u64"
            if n == "try_from" and len(e[1]) == 2:
                target = e[1][0] if e[1][0] != "Self" else self.self_ty
                st = self.type_of(e[2][0])
                return ("Result", target, "TryFromDecimalError" if st == "Decimal" else "()")
            if n == "from" and len(e[1]) == 2 and e[1][0] in INT_TYPES:
                return e[1][0]
            if n == "from" and len(e[1]) == 2 and e[1][0] in ("Self", "Decimal"):
                return "Decimal"
            if len(e[1]) == 2 and e[1][0] in INT_TYPES and re.match(r"checked_", n):
                return ("Option", e[1][0])
            if n in MUT_PARAMS and (n in self.sigs or n in EXTERNAL):
                rt = (self.sigs.get(n) or EXTERNAL[n])[1]
                return rt[1][-1] if isinstance(rt, tuple) and rt[0] == "tuple" else rt
            if e[1] == ["AsciiDecLit", "new"]:
                return "AsciiDecLit"
            if e[1] == ["Self", "from_str"] and "decimal_from_str" in self.sigs:
                return self.sigs["decimal_from_str"][1]
            if n in self.sigs:
                return self.sigs[n][1]
            if n in EXTERNAL:
                return EXTERNAL[n][1]
            raise Unsupported(f"call to unknown fn {n}")
        if k == "index":
            if e[1][0] == "path" and e[1][1][-1] in ARRAYS:
                return ARRAYS[e[1][1][-1]][0]
            at = self.type_of(e[1])
            return at[1] if isinstance(at, tuple) else "?"
        if k == "struct" and [f for f, _ in e[1]] == ["bytes"]:
            return "AsciiDecLit"
        if k == "struct":
            return "Decimal"
        if k == "field" and e[2] == "bytes":
            return ("slice", "u8")
        if k == "field":
            if isinstance(e[2], str) and e[2] in STRUCT_FIELDS:
                return STRUCT_FIELDS[e[2]][0]
            tt = self.type_of(e[1])
            if isinstance(tt, tuple) and tt[0] == "tuple":
                return tt[1][e[2]]
        if k in ("if", "block", "match"):
            if hint is not None:
                return hint
            try:
                if k == "block" and e[2] is not None and not e[1]:
                    return self.type_of(e[2])
                if k == "if" and e[2][2] is not None and not e[2][1]:
                    return self.type_of(e[2][2])
            except Unsupported:
                pass
            return hint
        if k == "try":
            tt = self.type_of(e[1])
            return tt[1]
        raise Unsupported(f"type_of {k}")

    # ---- expressions: returns (lines, leanExpr) where lines are effect bindings to emit before
    def lit(self, v, t):
        return str(v)

    def plain(self, t, inner):
        if t == "i128":
            return f"plainI128 prof ({inner})"
        if t == "u128":
            return f"plainU128 prof ({inner})"
        if t == "u8":
            return f"plainU8 prof ({inner})"
        if signed(t):
            return f"IntTy.{t}.plain prof ({inner})"
        return f"Rt.plainU {bits(t)} prof ({inner})"

    @staticmethod
    def bytes_lit(text):
        b = list(text.encode())
        return "([" + ", ".join(map(str, b)) + "] : List Nat)"

    def format_macro(self, toks):
        """`format!(fmt, args…, name = value…)` / the part of `write!` after the formatter: the bytes produced.  Placeholders handled:
        `{}` (Display of an integer or of a string) and `{:0name$}` (an integer, zero-padded to the named width, sign-aware)."""
        p = P(toks + [("eof", None, None)])
        f = p.expr()
        if f[0] == "macro" and f[1] == "concat":
            q = P(f[2] + [("eof", None, None)])
            parts = []
            while q.peek()[0] != "eof":
                a = q.expr(); q.opt(",")
                if a[0] != "strlit":
                    raise Unsupported("concat! of a non-literal")
                parts.append(a[1])
            f = ("strlit", "".join(parts))
        if f[0] != "strlit":
            raise Unsupported("format string is not a literal")
        pos, named = [], {}
        while p.opt(","):
            if p.peek()[0] == "eof":
                break
            if p.peek()[0] == "id" and p.peek(1)[1] == "=" :
                nm = p.next()[1]; p.next()
                named[nm] = p.expr()
            else:
                pos.append(p.expr())
        ls, parts, i = [], [], 0
        for lit_, ph in re.findall(r"([^{}]*)(\{[^{}]*\})?", f[1]):
            if lit_:
                parts.append(self.bytes_lit(lit_))
            if not ph:
                continue
            if i >= len(pos):
                raise Unsupported("format!: not enough arguments")
            a = pos[i]; i += 1
            if ph == "{}":
                t = self.type_of(a)
                l, x = self.ex(a, t)
                ls += l
                if t in ("str", "String"):
                    parts.append(f"({x})")
                elif isinstance(t, str) and t in INT_TYPES and signed(t):
                    parts.append(f"(Model.fmtInt ({x}))")
                elif isinstance(t, str) and t in INT_TYPES:
                    parts.append(f"(Model.fmtInt ((({x}) : Nat) : Int))")
                elif t == "Decimal":
                    raise Unsupported("format!: Display of a Decimal")
                else:
                    raise Unsupported(f"format!: Display of {t}")
                continue
            mm = re.fullmatch(r"\{:0(\w+)\$\}", ph)
            if not mm or mm.group(1) not in named:
                raise Unsupported(f"format placeholder {ph}")
            t = self.type_of(a, "i128")
            l, x = self.ex(a, t)
            lw, xw = self.ex(named[mm.group(1)], "usize")
            ls += l + lw
            cast = x if signed(t) else f"((({x}) : Nat) : Int)"
            parts.append(f"(Model.fmtZeroPadInt ({cast}) ({xw}))")
        if i != len(pos):
            raise Unsupported("format!: unused arguments")
        return ls, "(" + " ++ ".join(parts or ["([] : List Nat)"]) + ")"

    def ex(self, e, hint=None):
        k = e[0]
        if k == "lit":
            return [], str(e[1])
        if k == "strlit":
            return [], self.bytes_lit(e[1])
        if k == "macro" and e[1] == "format":
            return self.format_macro(e[2])
        if k == "macro" and e[1] == "write":
            # `write!(form, …)`: the value is what is written to the formatter (the functions translated write exactly once)
            toks = e[2]
            if not (toks and toks[0][0] == "id" and toks[1][1] == ","):
                raise Unsupported("write! target")
            return self.format_macro(toks[2:])
        if k == "paren":
            ls, x = self.ex(e[1], hint)
            return ls, f"({x})"
        if k == "path":
            n = e[1][-1]
            if len(e[1]) == 1 and n in self.env:
                return [], n
            if n in self.local_consts:
                return [], str(self.local_consts[n][1])
            if n in self.consts:
                return [], f"Gen.{self.consts[n][2]}" if self.consts[n][2] else str(self.consts[n][1])
            if n in MODE_NAMES:
                return [], "Mode" + MODE_NAMES[n]
            if len(e[1]) == 2 and e[1][0] in INT_TYPES and n == "BITS":
                return [], str(bits(e[1][0]))
            if len(e[1]) == 2 and e[1][0] == "Self" and n in getattr(self, "self_consts", {}):
                return [], str(self.self_consts[n][1])
            if e[1] == ["i128", "MAX"]:
                return [], "I128_MAX"
            if e[1] == ["i128", "MIN"]:
                return [], "I128_MIN"
            if len(e[1]) == 2 and e[1][0] in INT_TYPES and n in ("MAX", "MIN"):
                t_ = e[1][0]
                lo, hi = (-(1 << (bits(t_) - 1)), (1 << (bits(t_) - 1)) - 1) if signed(t_) else (0, (1 << bits(t_)) - 1)
                return [], str(hi if n == "MAX" else f"({lo})")
            if n == "None":
                return [], "none"
            if len(e[1]) == 1 and n in ("true", "false"):
                return [], n
            if n in ("Less", "Equal", "Greater") and e[1][0] == "Ordering":
                return [], {"Less": "Ordering.lt", "Equal": "Ordering.eq", "Greater": "Ordering.gt"}[n]
            if len(e[1]) == 2 and e[1][0] in ("Self", "Decimal") and n in ("ZERO", "ONE"):
                return [], f"Model.Dec.{n}"
            raise Unsupported(f"name {e[1]}")
        if k == "tuple":
            ls, xs = [], []
            for x in e[1]:
                l, v = self.ex(x)
                ls += l; xs.append(v)
            return ls, "(" + ", ".join(xs) + ")"
        if k == "cast":
            if e[2] == "Self" and self.self_ty:
                e = ("cast", e[1], self.self_ty)
            src_t = self.type_of(e[1], e[2])
            ls, x = self.ex(e[1], e[2] if e[2] not in FLOAT_BITS else None)
            dst = e[2]
            if src_t == dst:
                return ls, x
            if dst in FLOAT_BITS and src_t == "i128":
                # `i128 as f64` / `as f32`: assumed round-to-nearest-even (the model's `i128AsFloat`)
                return ls, f"(Model.i128AsFloat Spec.FloatFmt.{dst} ({x}))"
            if src_t == "bool":
                return ls, f"(if ({x}) = true then 1 else 0)"
            # widening unsigned → unsigned, or any value known to fit keeps its value; we always emit the wrap
            if signed(dst) and not signed(src_t):
                return ls, f"(IntTy.{dst}.cast ((({x}) : Nat) : Int))"
            if signed(dst):
                return ls, f"(IntTy.{dst}.cast ({x}))"
            if not signed(src_t) and bits(src_t) <= bits(dst):
                return ls, x
            if signed(src_t):
                return ls, f"(IntTy.{dst}.cast ({x})).toNat"
            return ls, f"(Rt.wrapU {bits(dst)} ({x}))"
        if k == "neg":
            t = self.type_of(e[1], hint)
            if e[1][0] == "lit":
                return [], f"(-{e[1][1]})"
            ls, x = self.ex(e[1], hint)
            v = self.fresh()
            if t == "i128":
                return ls + [f"let {v} ← negI128 prof ({x})"], v
            return ls + [f"let {v} ← IntTy.{t}.plain prof (-({x}))"], v
        if k == "not":
            ls, x = self.ex(e[1], hint)
            return ls, f"(!{x})"
        if k == "bin":
            return self.binop(e, hint)
        if k == "method":
            return self.method(e, hint)
        if k == "call":
            return self.call(e, hint)
        if k == "index":
            if e[1][0] == "path" and e[1][1][-1] in ARRAYS:
                ls1, a = [], ARRAYS[e[1][1][-1]][1]
            else:
                ls1, a = self.ex(e[1])
            ls2, i = self.ex(e[2], "usize")
            v = self.fresh()
            return ls1 + ls2 + [f"let {v} ← Rt.index ({a}) ({i})"], v
        if k == "struct" and [f for f, _ in e[1]] == ["bytes"]:
            return self.ex(e[1][0][1], ("slice", "u8"))        # `AsciiDecLit { bytes }`: carried as its only field
        if k == "struct":
            ls, vals = [], {}
            for fn_, fe in e[1]:
                l, x = self.ex(fe, STRUCT_FIELDS[fn_][0])
                ls += l; vals[fn_] = x
            return ls, f"(⟨{vals['coeff']}, {vals['n_frac_digits']}⟩ : Model.Dec)"
        if k == "field" and e[2] == "bytes":
            return self.ex(e[1])
        if k == "field":
            ls, x = self.ex(e[1])
            if isinstance(e[2], str) and e[2] in STRUCT_FIELDS:
                return ls, f"({x}).{STRUCT_FIELDS[e[2]][1]}"
            return ls, f"({x}).{e[2] + 1}"
        if k == "try":
            # `e?` in a function returning Option: early exit with None, written as a flat `let some v := … | pure none`
            fr = self.decl_ret if hasattr(self, "decl_ret") else self.ret
            if isinstance(fr, tuple) and fr[0] == "Result":
                # `e?` on a Result whose error type is the function's: the error is passed on unchanged
                ls, x = self.ex(e[1], None)
                v, w = self.fresh(), self.fresh()
                return ls + [f"let {w} := {x}", f"let .ok {v} := {w} | pure (Rt.errOf {w})"], v
            if not (isinstance(self.ret, tuple) and self.ret[0] == "Option"):
                raise Unsupported("`?` in a function that does not return Option")
            ls, x = self.ex(e[1], ("Option", hint))
            v = self.fresh()
            return ls + [f"let some {v} := {x} | pure none"], v
        if k == "match":
            st = self.type_of(e[1])
            ls, x = self.ex(e[1], st)
            arms = []
            for pats, body in e[2]:
                for pt in pats:
                    saved = dict(self.env)
                    self.bind_pat(pt, st)
                    lb, xb = self.ex(body, hint) if body[0] != "block" or (not body[1] and body[2] is not None) else (["@"], None)
                    if lb:
                        self.env = saved
                        return self.match_value_effects(e, st, ls, x, hint)
                    arms.append(f"| {self.pat_lean(pt, st)} => {xb}")
                    self.env = saved
            return ls, "(match " + x + " with " + " ".join(arms) + ")"
        if k == "if":
            lc, xc = self.cond(e[1])
            def val(b):
                if b[0] == "block":
                    if b[1] or b[2] is None:
                        raise Unsupported("statements inside a value-position if")
                    b = b[2]
                l, v = self.ex(b, hint)
                if l:
                    raise Unsupported("effect inside a value-position if")
                return v
            saved_tmp = self.tmp
            try:
                return lc, f"(if {xc} then {val(e[2])} else {val(e[3])})"
            except Unsupported:
                # arms with effects or statements: a monadic sub-block per arm
                self.tmp = saved_tmp
                if hint is None or e[3] is None:
                    raise
                ind = getattr(self, "cur_ind", 1) + 3
                saved_ret, self.ret = self.ret, hint
                saved_val, self.in_value = getattr(self, "in_value", False), True
                saved_decl = getattr(self, "decl_ret", None)
                self.decl_ret = hint
                try:
                    thn = self.block_term(e[2], ind, None)
                    els = self.tail_term(e[3], ind, None) if e[3][0] == "if" else self.block_term(e[3], ind, None)
                finally:
                    self.ret = saved_ret
                    self.in_value = saved_val
                    if saved_decl is None:
                        del self.decl_ret
                    else:
                        self.decl_ret = saved_decl
                v = self.fresh()
                pad = "  " * (ind - 1)
                return lc + [f"let {v} ← (if {xc} then (do\n{thn}{pad}) else (do\n{els}{pad}) : Outcome {lean_ty(hint)})"], v
        if k == "block" and not e[1] and e[2] is not None:
            return self.ex(e[2], hint)
        raise Unsupported(f"expression {k}")

    def match_value_effects(self, e, st, ls, x, hint):
        """value-position `match` whose arms have effects or statements: a monadic sub-block per arm"""
        if hint is None:
            for _, body in e[2]:
                try:
                    hint = self.type_of(body[2] if body[0] == "block" else body)
                    break
                except Unsupported:
                    continue
        if hint is None:
            raise Unsupported("type of a value-position match with effects")
        ind = getattr(self, "cur_ind", 1) + 3
        saved_ret, self.ret = self.ret, hint
        saved_val, self.in_value = getattr(self, "in_value", False), True
        saved_decl = getattr(self, "decl_ret", None)
        self.decl_ret = hint
        pad = "  " * (ind - 1)
        out = ""
        try:
            for pats, body in e[2]:
                for pt in pats:
                    saved = dict(self.env)
                    self.bind_pat(pt, st)
                    b = body if body[0] == "block" else ("block", [], body)
                    out += f"{pad}| {self.pat_lean(pt, st)} => (do\n" + self.block_term(b, ind + 1, None) + f"{pad}  )\n"
                    self.env = saved
        finally:
            self.ret = saved_ret
            self.in_value = saved_val
            if saved_decl is None:
                del self.decl_ret
            else:
                self.decl_ret = saved_decl
        v = self.fresh()
        return ls + [f"let {v} ← (match {x} with\n{out}{pad}: Outcome {lean_ty(hint)})"], v

    def binop(self, e, hint):
        _, op, a, b = e
        if op in ("&&", "||"):
            la, xa = self.ex(a, "bool")
            lb, xb = self.ex(b, "bool")
            if lb:
                # lazy right operand: its effects only happen when the left operand does not decide
                v = self.fresh()
                inner = "(do " + "; ".join(lb) + f"; pure ({xb}))"
                if op == "&&":
                    return la + [f"let {v} ← (if {xa} = true then {inner} else pure false : Outcome Bool)"], v
                return la + [f"let {v} ← (if {xa} = true then pure true else {inner} : Outcome Bool)"], v
            j = "&&" if op == "&&" else "||"
            return la, f"({xa} {j} {xb})"
        if op in ("<", ">", "<=", ">=") and self.type_of(a) == "Decimal" and "decimal_partial_cmp" in self.sigs:
            # PartialOrd on Decimals: the provided methods `lt/le/gt/ge` are defined through `partial_cmp`
            la, xa = self.ex(a, "Decimal")
            lb, xb = self.ex(b, "Decimal")
            v = self.fresh()
            want = {"<": ["lt"], "<=": ["lt", "eq"], ">": ["gt"], ">=": ["gt", "eq"]}[op]
            test = " || ".join(f"decide ({v} = some Ordering.{w})" for w in want)
            return la + lb + [f"let {v} ← K.decimal_partial_cmp prof ({xa}) ({xb})"], f"({test})"
        if op == "*" and self.type_of(a) == "Decimal":
            kb = "d" if self.type_of(b) == "Decimal" else "i"
            target = TRAIT_CALLS[("Mul", "mul")].get(("d", kb))
            if target in self.sigs:
                return self.call(("call", [target], [a, b]), hint)
        if op == "-" and self.type_of(a) == "Decimal" and "decimal_sub" in self.sigs:
            la, xa = self.ex(a, "Decimal")
            lb, xb = self.ex(b, "Decimal")
            v = self.fresh()
            return la + lb + [f"let {v} ← K.decimal_sub prof ({xa}) ({xb})"], v
        if op in ("==", "!=", "<", ">", "<=", ">="):
            ta = self.type_of(a) if not (a[0] == "lit" and not a[2]) else None
            tb = self.type_of(b, ta) if not (b[0] == "lit" and not b[2]) else ta
            ta = ta or tb
            la, xa = self.ex(a, ta)
            lb, xb = self.ex(b, ta)
            lo = {"==": "=", "!=": "≠"}.get(op, {"<=": "≤", ">=": "≥"}.get(op, op))
            return la + lb, f"decide ({xa} {lo} {xb})"
        t = self.type_of(e, hint)
        la, xa = self.ex(a, t)
        lb, xb = self.ex(b, t)
        ls = la + lb
        if op in ("+", "-", "*"):
            v = self.fresh()
            cast = "(" + xa + " : Int)" if not signed(t) else xa
            return ls + [f"let {v} ← {self.plain(t, f'{cast} {op} {xb}')}"], v
        if op in ("/", "%"):
            if b[0] == "lit" and b[1] not in (0,) or (b[0] == "path" and self.is_nonzero_const(b)):
                if signed(t):
                    f = "tdiv" if op == "/" else "tmod"
                    return ls, f"(Int.{f} ({xa}) ({xb}))"
                return ls, f"(({xa}) {op} ({xb}))"
            v = self.fresh()
            if t == "i128":
                f = "divI128" if op == "/" else "remI128"
                return ls + [f"let {v} ← {f} ({xa}) ({xb})"], v
            if not signed(t):
                f = "Rt.divU" if op == "/" else "Rt.remU"
                return ls + [f"let {v} ← {f} ({xa}) ({xb})"], v
            raise Unsupported(f"{op} on {t}")
        if op in ("&", "|", "^"):
            if signed(t) and op == "&" and b[0] == "lit" and b[1] == 1:
                return ls, f"(({xa}) % 2)"          # two's complement: x & 1 = x mod 2 (Euclidean)
            if signed(t):
                raise Unsupported("bit operation on a signed value")
            lo = {"&": "&&&", "|": "|||", "^": "^^^"}[op]
            return ls, f"(({xa}) {lo} ({xb}))"
        if op == "<<":
            if signed(t) and b[0] == "lit" and b[1] < bits(t):
                return ls, f"(IntTy.{t}.cast (({xa}) * 2 ^ {xb}))"   # shifted-out bits are dropped
            if signed(t):
                v = self.fresh()
                return ls + [f"let {v} ← Rt.shlI IntTy.{t} prof ({xa}) ({xb})"], v
            if b[0] == "lit" and b[1] < bits(t):
                return ls, f"(Rt.wrapU {bits(t)} (({xa}) <<< {xb}))"
            v = self.fresh()
            return ls + [f"let {v} ← Rt.shl {bits(t)} prof ({xa}) ({xb})"], v
        if op == ">>":
            if signed(t):
                v = self.fresh()       # arithmetic shift; overflow check on the shift amount only
                return ls + [f"let {v} ← Rt.shrI IntTy.{t} prof ({xa}) ({xb})"], v
            if b[0] == "lit" and b[1] < bits(t):
                return ls, f"(({xa}) >>> {xb})"
            v = self.fresh()
            return ls + [f"let {v} ← Rt.shr {bits(t)} prof ({xa}) ({xb})"], v
        raise Unsupported(f"operator {op}")

    def is_nonzero_const(self, e):
        n = e[1][-1]
        c = self.local_consts.get(n) or self.consts.get(n)
        return c is not None and c[1] not in (0, -1)

    def method(self, e, hint):
        _, recv, m, args = e
        if m == "map" and len(args) == 1 and args[0][0] == "closure":
            # Option::map with a pure closure
            rt = self.type_of(recv, None)
            if not (isinstance(rt, tuple) and rt[0] == "Option"):
                raise Unsupported("map on a non-Option")
            lr, xr = self.ex(recv, rt)
            _, ps, body = args[0]
            saved = dict(self.env)
            self.env[ps[0]] = rt[1]
            lb, xb = self.ex(body, hint[1] if isinstance(hint, tuple) else None)
            self.env = saved
            if lb:
                raise Unsupported("effect inside a closure")
            return lr, f"(Option.map (fun {ps[0]} => {xb}) ({xr}))"
        if m == "with" and len(args) == 1 and args[0][0] == "closure" and len(args[0][1]) == 1 and recv[0] == "path" \
                and recv[1] == [THREAD_LOCAL_CELL]:
            # access to the thread-local `RefCell`: `CELL.with(|m| *m.borrow())` reads the calling thread's cell,
            # `CELL.with(|m| *m.borrow_mut() = e)` writes it.  The cell is an explicit parameter `cell`; a function that writes
            # returns the new contents.  (No borrow can be outstanding: the closure does nothing else.)
            mv, body = args[0][1][0], args[0][2]
            if body == ("method", ("path", [mv]), "borrow", []):
                self.reads_cell = True
                return [], "cell"
            if body[0] == "assignexpr" and body[1] == ("method", ("path", [mv]), "borrow_mut", []):
                ls, x = self.ex(body[2], "RoundingMode")
                self.writes_cell = True
                return ls + [f"let cell : Mode := {x}"], "()"
            raise Unsupported("thread-local access pattern")
        if m == "then" and len(args) == 1 and args[0][0] == "closure" and not args[0][1]:
            # bool::then with a pure closure
            lr, xr = self.ex(recv, "bool")
            lb, xb = self.ex(args[0][2], hint[1] if isinstance(hint, tuple) else None)
            if lb:
                raise Unsupported("effect inside a closure")
            return lr, f"(if {xr} = true then some ({xb}) else none)"
        t = self.type_of(recv, hint)
        if t == "Decimal" and m in getattr(self, "method_override", {}) and self.method_override[m][0] in self.sigs:
            # a method that resolves to another impl than the Decimal/Decimal one (e.g. on an `ArchivedDecimal` receiver)
            return self.call(("call", [self.method_override[m][0]], [recv] + list(args)), hint)
        if t == "Ordering" and m == "reverse" and not args:
            lr, xr = self.ex(recv, t)
            return lr, f"(Ordering.swap ({xr}))"
        if m == "div_rounded" and len(args) == 2:
            kinds = ("d" if t == "Decimal" else "i", "d" if self.type_of(args[0]) == "Decimal" else "i")
            target = TRAIT_CALLS[("DivRounded", "div_rounded")].get(kinds)
            if target in self.sigs:
                return self.call(("call", [target], [recv] + list(args)), hint)
        if m == "unwrap" and not args and isinstance(t, tuple) and t[0] == "Option":
            lr, xr = self.ex(recv, t)
            v = self.fresh()
            return lr + [f"let {v} ← (match {xr} with | some v => pure v | none => Outcome.panic .unwrap : Outcome {lean_ty(t[1])})"], v
        if t == "Decimal" and m in DEC_K_METHODS and DEC_K_METHODS[m][0] in self.sigs:
            return self.call(("call", [DEC_K_METHODS[m][0]], [recv] + list(args)), hint)
        if m == "as_str" and not args and t in ("String", "str"):
            return self.ex(recv, t)
        if m == "to_string" and not args and isinstance(t, str) and t in INT_TYPES and signed(t):
            lr, xr = self.ex(recv, t)
            return lr, f"(Model.fmtInt ({xr}))"
        if t == "Formatter" and m == "precision" and not args:
            lr, xr = self.ex(recv, t)
            return lr, f"({xr}).prec"
        if t == "Formatter" and m == "pad_integral" and len(args) == 3:
            if args[1] != ("strlit", ""):
                raise Unsupported("pad_integral with a prefix")
            lr, xr = self.ex(recv, t)
            la, xa = self.ex(args[0], "bool")
            lb, xb = self.ex(args[2], "String")
            return lr + la + lb, f"(Std.padIntegral ({xr}) ({xa}) ({xb}))"
        if t == "AsciiDecLit" and m in LIT_METHODS:
            return self.call(("call", [LIT_METHODS[m]], [recv] + list(args)), hint)
        if t in (("slice", "u8"), "str"):
            lr, xr = self.ex(recv, t)
            if m == "as_ref" and not args:
                return lr, xr
            if m == "is_empty" and not args:
                return lr, f"(List.isEmpty ({xr}))"
            if m == "len" and not args:
                return lr, f"(List.length ({xr}))"
            if m == "first" and not args:
                return lr, f"(List.head? ({xr}))"
            if m == "get_unchecked" and len(args) == 1 and args[0][0] == "rangefrom":
                # undefined behaviour when the start exceeds the length; every call site is dominated by a length test
                la, xa = self.ex(args[0][1], "usize")
                return lr + la, f"(List.drop ({xa}) ({xr}))"
            raise Unsupported(f"slice method {m}")
        if t == "Decimal" and m in ("coefficient", "n_frac_digits") and not args:
            lr, xr = self.ex(recv, "Decimal")
            return lr, f"({xr}).{'coeff' if m == 'coefficient' else 'nfrac'}"
        if t == "Decimal" and m in DEC_METHODS and not args:
            lr, xr = self.ex(recv, "Decimal")
            if DEC_METHODS[m][2]:
                v = self.fresh()
                return lr + [f"let {v} ← {DEC_METHODS[m][1]} ({xr})"], v
            return lr, f"({DEC_METHODS[m][1]} ({xr}))"
        lr, xr = self.ex(recv, hint)
        ls, xs = list(lr), []
        for a in args:
            l, x = self.ex(a, t)
            ls += l; xs.append(x)
        opmap = {"add": "+", "sub": "-", "mul": "*"}
        if m.startswith("checked_") and m[8:] in opmap:
            if t != "i128":
                raise Unsupported(f"{m} on {t}")
            return ls, f"(checkedI128 ({xr} {opmap[m[8:]]} {xs[0]}))"
        if m == "wrapping_rem" and len(xs) == 1:
            if t != "i128":
                raise Unsupported(f"{m} on {t}")
            v = self.fresh()
            return ls + [f"let {v} ← wrappingRemI128 ({xr}) ({xs[0]})"], v
        if m.startswith("wrapping_") and m[9:] in opmap:
            if signed(t):
                return ls, f"(IntTy.{t}.wrap ({xr} {opmap[m[9:]]} {xs[0]}))"
            if m[9:] == "sub":
                return ls, f"(Rt.wrapU {bits(t)} (({xr}) + 2 ^ {bits(t)} - Rt.wrapU {bits(t)} ({xs[0]})))"
            return ls, f"(Rt.wrapU {bits(t)} (({xr}) {opmap[m[9:]]} ({xs[0]})))"
        if m.startswith("saturating_") and m[11:] in opmap and not signed(t):
            return ls, f"(Rt.sat {bits(t)} (({xr} : Int) {opmap[m[11:]]} {xs[0]}))"
        if m == "unsigned_abs":
            return ls, f"(Int.natAbs ({xr}))"
        if m == "cmp":
            return ls, f"(compare ({xr}) ({xs[0]}))"
        if m == "signum" and signed(t):
            return ls, f"(Int.sign ({xr}))"
        if m == "leading_zeros" and isinstance(t, str) and t in INT_TYPES and not signed(t):
            return ls, f"(leadingZeros {bits(t)} ({xr}))"
        if m == "trailing_zeros" and isinstance(t, str) and t in INT_TYPES and not signed(t):
            return ls, f"(trailingZeros {bits(t)} ({xr}))"
        if m == "trailing_zeros" and isinstance(t, str) and t in INT_TYPES and signed(t):
            return ls, f"(Rt.tzI IntTy.{t} ({xr}))"     # of the two's-complement bit pattern
        if m == "pow" and isinstance(t, str) and t in INT_TYPES and signed(t):
            v = self.fresh()
            return ls + [f"let {v} ← {self.plain(t, f'({xr}) ^ ({xs[0]})')}"], v
        if m == "pow" and isinstance(t, str) and t in INT_TYPES and not signed(t):
            v = self.fresh()
            return ls + [f"let {v} ← {self.plain(t, f'(({xr} : Nat) : Int) ^ ({xs[0]})')}"], v
        if m == "partial_cmp" and isinstance(t, str) and t in INT_TYPES:
            return ls, f"(some (compare ({xr}) ({xs[0]})))"
        if isinstance(t, str) and t in FLOAT_BITS:
            if m == "to_bits":
                return ls, xr
            if m in ("is_nan", "is_infinite"):
                return ls, f"(Rt.{t}_{m} ({xr}))"
            raise Unsupported(f"float method {m}")
        if m == "is_negative":
            return ls, f"decide ({xr} < 0)"
        if m == "is_positive":
            return ls, f"decide ({xr} > 0)"
        if m == "abs" and t == "i128":
            v = self.fresh()
            return ls + [f"let {v} ← plainI128 prof (if {xr} < 0 then -({xr}) else {xr})"], v
        if m == "neg" and t == "i128":
            v = self.fresh()
            return ls + [f"let {v} ← negI128 prof ({xr})"], v
        if m == "divmod" and "divmod" in self.sigs:
            return self.call(("call", ["divmod"], [recv] + list(args)), hint)
        if m == "divmod":
            v1, v2 = self.fresh(), self.fresh()
            return ls + [f"let {v1} ← divI128 ({xr}) ({xs[0]})", f"let {v2} ← remI128 ({xr}) ({xs[0]})"], f"({v1}, {v2})"
        raise Unsupported(f"method {m}")

    def call(self, e, hint):
        _, path, args = e
        n = path[-1]
        if len(path) == 2 and (path[0], n) in TRAIT_CALLS and len(args) >= 2:
            kinds = tuple("d" if self.type_of(a) == "Decimal" else "i" for a in args[:2])
            target = TRAIT_CALLS[(path[0], n)].get(kinds)
            if target is None:
                raise Unsupported(f"trait call {path} on {kinds}")
            ls, xs = [], []
            for a in args:
                l, x = self.ex(a, None)
                ls += l; xs.append(f"({x})")
            v = self.fresh()
            tm = ""
            if TM_NEEDED.get(target):
                self.needs_tm = True
                tm = "tm "
            return ls + [f"let {v} ← K.{target} prof {tm}" + " ".join(xs)], v
        if len(path) == 2 and path[0] in INT_TYPES and re.match(r"(checked|wrapping|saturating)_", n) and len(args) == 2:
            return self.method(("method", ("cast", args[0], path[0]) if False else args[0], n, args[1:]), hint)
        if path in (["min"], ["max"], ["cmp", "min"], ["cmp", "max"]) and len(args) == 2:
            t = self.type_of(args[0], hint)
            la, xa = self.ex(args[0], t)
            lb, xb = self.ex(args[1], t)
            return la + lb, f"({n} ({xa}) ({xb}))"
        if path == ["RoundingMode", "default"]:
            self.needs_tm = True
            return [], "tm"
        if n == "Some":
            ls, x = self.ex(args[0], hint[1] if isinstance(hint, tuple) else None)
            return ls, f"(some {x})"
        if n == "from_bits" and len(path) == 2 and path[0] == "Self":
            ls, x = self.ex(args[0], "u64")
            wb = getattr(self, "self_consts", {}).get("__from_bits_width__")
            return ls, (f"(Rt.wrapU {wb[1]} ({x}))" if wb else x)
        if n == "try_from" and len(path) == 2 and (path[0] in INT_TYPES or path[0] == "Self"):
            target = path[0] if path[0] != "Self" else self.self_ty
            st = self.type_of(args[0])
            ls, x = self.ex(args[0], st)
            if st == "Decimal" and target == "i128":
                v = self.fresh()
                return ls + [f"let {v} ← K.i128_try_from_decimal prof ({x})"], v
            if st == "u128" and target == "i128":
                return ls, f"(if ((({x}) : Nat) : Int) ≤ I128_MAX then (Except.ok ((({x}) : Nat) : Int) : Except Unit Int) else Except.error ())"
            if isinstance(st, str) and st in INT_TYPES and signed(st) and signed(target):
                # integer narrowing: `Ok` iff the value is in the target's range
                return ls, f"(if IntTy.{target}.fits ({x}) = true then (Except.ok ({x}) : Except Unit Int) else Except.error ())"
            raise Unsupported(f"try_from {st} -> {target}")
        if n == "from" and len(path) == 2 and path[0] in ("Self", "Decimal") and self.self_ty == "Decimal":
            st = self.type_of(args[0])
            ls, x = self.ex(args[0], st)
            v = self.fresh()
            return ls + [f"let {v} ← K.decimal_from_int prof ({x})"], v
        if n == "from" and len(path) == 2 and path[0] in INT_TYPES:
            st = self.type_of(args[0])
            ls, x = self.ex(args[0], st)
            if signed(path[0]) and not signed(st):
                return ls, f"((({x}) : Nat) : Int)"
            if signed(path[0]) == signed(st):
                return ls, x
            raise Unsupported("from: signed to unsigned")
        if n == "Ok":
            ls, x = self.ex(args[0], hint[1] if isinstance(hint, tuple) and hint[0] == "Result" else None)
            return ls, f"(Except.ok {x})"
        if n == "Err":
            a = args[0]
            if a[0] == "path" and len(a[1]) > 1 and a[1][0] == "ParseDecimalError":
                nm = {"Empty": "empty", "Invalid": "invalid", "FracDigitLimitExceeded": "fracLimit", "InternalOverflow": "overflow"}[a[1][-1]]
                return [], f"(Except.error Model.ParseErr.{nm})"
            if a[0] == "path" and a[1][-1] in ERR_NAMES:
                et = a[1][0] if len(a[1]) > 1 and a[1][0] in ("DecimalError", "TryFromDecimalError") else "DecimalError"
                return [], f"(Except.error Rt.{et}.{ERR_NAMES[a[1][-1]]})"
            if a[0] == "path" and len(a[1]) == 1 and a[1][0] in self.env:
                return [], f"(Except.error {a[1][0]})"
            raise Unsupported("Err of a computed value")
        if path == ["AsciiDecLit", "new"]:
            path, n = ["lit_new"], "lit_new"
        if path == ["Self", "from_str"] and self.self_ty == "Decimal" and "decimal_from_str" in self.sigs:
            path, n = ["decimal_from_str"], "decimal_from_str"
        if n not in self.sigs and n not in EXTERNAL:
            raise Unsupported(f"call {n}")
        ptys = (self.sigs.get(n) or EXTERNAL[n])[0]
        ls, xs = [], []
        for a, (pn, pt) in zip(args, ptys):
            l, x = self.ex(a, pt)
            ls += l; xs.append(f"({x})")
        v = self.fresh()
        if n in MUT_PARAMS:
            # the callee returns the final values of its `&mut` parameters first: rebind the variables passed for them
            outs = []
            for a, (pn, pt) in zip(args, ptys):
                if pn in MUT_PARAMS[n]:
                    a2 = a
                    while a2[0] == "paren":
                        a2 = a2[1]
                    if a2[0] != "path" or len(a2[1]) != 1:
                        raise Unsupported("&mut argument that is not a variable")
                    outs.append(a2[1][0])
            head = f"K.{n} prof" if n in self.sigs else EXTERNAL[n][2]
            rt = (self.sigs.get(n) or EXTERNAL[n])[1]
            has_val = not (isinstance(rt, tuple) and rt[0] == "tuple" and len(rt[1]) == len(outs)) and rt != "()" and n not in UNIT_RET
            pat = "(" + ", ".join(outs + ([v] if has_val else [])) + ")"
            return ls + [f"let {pat} ← {head} " + " ".join(xs)], (v if has_val else "()")
        if n in self.sigs:
            tm = ""
            if TM_NEEDED.get(n):
                self.needs_tm = True
                tm = "tm "
            return ls + [f"let {v} ← K.{n} prof {tm}" + " ".join(xs)], v
        if not EXTERNAL[n][3]:
            return ls, f"({EXTERNAL[n][2]} " + " ".join(xs) + ")"
        return ls + [f"let {v} ← {EXTERNAL[n][2]} " + " ".join(xs)], v

    # ---- statements / blocks (with early return: every block is translated to a term of type Outcome ret)
    def cond(self, e):
        """a condition as a Lean Prop/Bool usable in `if`"""
        ls, x = self.ex(e, "bool")
        return ls, f"{x} = true"

    def block_term(self, blk, ind, k=None):
        """translate a block whose value (tail or return) is the function result; `k` is the rest to run afterwards"""
        _, stmts, tail = blk
        return self.stmts_term(list(stmts), tail, ind, k)

    def stmts_term(self, stmts, tail, ind, k):
        pad = "  " * ind
        self.cur_ind = ind
        if not stmts:
            if tail is None:
                if k is None:
                    raise Unsupported("block without value")
                return k(ind)
            return self.tail_term(tail, ind, k)
        s, rest = stmts[0], stmts[1:]
        kind = s[0]
        if kind == "const":
            _, name, ty, e = s
            if name in ARRAYS:          # a constant table: its contents come from Gen/Consts.lean (fpextract.py)
                return self.stmts_term(rest, tail, ind, k)
            self.local_consts[name] = (ty, self.const_eval(e), None)
            return self.stmts_term(rest, tail, ind, k)
        if kind == "let" and s[3][0] == "match" and self.single_live_arm(s[3]) is not None:
            # `let p = match x { A => { …; return r }, B => e };` — only one arm produces a value: the `let` and what follows it
            # continue inside that arm
            _, p, ty, e = s
            live = self.single_live_arm(e)
            st = self.type_of(e[1])
            ls, x = self.ex(e[1], st)
            out = "".join(f"{pad}{l}\n" for l in ls) + f"{pad}match {x} with\n"
            for i, (pats, body) in enumerate(e[2]):
                for pt in pats:
                    saved = dict(self.env)
                    self.bind_pat(pt, st)
                    out += f"{pad}| {self.pat_lean(pt, st)} =>\n"
                    if i == live:
                        out += self.stmts_term([("let", p, ty, body)] + rest, tail, ind + 2, k)
                    else:
                        b = body if body[0] == "block" else ("block", [], body)
                        out += self.stmts_term(list(b[1]), b[2], ind + 2, None)
                    self.env = saved
            return out
        if kind == "let" and s[3][0] == "if" and s[3][3] is not None and self.assigned_vars(s[3]) and not self.has_return_deep(s[3]):
            # `let p = if c { …effects on variables…; v1 } else { …; v2 };` — a join point carrying the value and the variables
            _, p, ty, e = s
            vars_ = self.assigned_vars(e)
            t = ty or self.branch_type(e)
            if t is None:
                raise Unsupported("type of a value-`if` with effects")
            names = ", ".join(vars_)

            def cont(i, val):
                return "  " * i + f"pure (({val}, {names}))\n"
            cont.takes_value, cont.hint = True, t
            body = self.tail_term(e, ind + 2, cont)
            self.bind_pat(p, t)
            out = f"{pad}let ({self.pat_lean(p, t)}, {names}) ← (do\n{body}{pad}  : Outcome _)\n"
            return out + self.stmts_term(rest, tail, ind, k)
        if kind == "let":
            _, p, ty, e = s
            if ty is None and e[0] == "lit" and not e[2] and isinstance(self.ret, str) and self.ret in INT_TYPES:
                ty = self.ret
            t = ty or (self.branch_type(e) if e[0] == "if" else None) or self.type_of(e)
            if t is None and e[0] == "match":
                st = self.type_of(e[1])
                for pats_, body_ in reversed(e[2]):
                    saved = dict(self.env)
                    try:
                        self.bind_pat(pats_[0], st)
                        t = self.type_of(body_[2] if body_[0] == "block" and body_[2] is not None else body_)
                    except (Unsupported, KeyError, TypeError):
                        t = None
                    self.env = saved
                    if t is not None:
                        break
            ls, x = self.ex(e, t)
            self.bind_pat(p, t)
            out = "".join(f"{pad}{l}\n" for l in ls)
            if p[0] == "pvar" and t is not None and e[0] != "match":
                out += f"{pad}let {p[1]} : {lean_ty(t)} := {x}\n"
            else:
                out += f"{pad}let {self.pat_lean(p, t)} := {x}\n"
            return out + self.stmts_term(rest, tail, ind, k)
        if kind == "while":
            _, c, body = s
            state = [v for v in self.assigned_vars(body) if v in self.env]
            if not state:
                raise Unsupported("while loop without loop-carried variables")
            fv = [v for v in self.free_vars(c, body) if v not in state]
            self.loop_count = getattr(self, "loop_count", 0) + 1
            lname = f"{self.fname}_loop{self.loop_count}"
            fuel = LOOP_FUEL.get((self.fname, self.loop_count), 64)
            st_ty = ("tuple", [self.env[v] for v in state]) if len(state) > 1 else self.env[state[0]]
            tup = "(" + ", ".join(state) + ")" if len(state) > 1 else state[0]
            saved_ret, saved_tm, saved_env = self.ret, self.needs_tm, dict(self.env)
            self.needs_tm = False
            saved_loop, self.in_loop = getattr(self, "in_loop", False), True
            if saved_loop:
                raise Unsupported("nested loops")
            self.loop_returns = False
            self.cur_ind = 2
            lc, xc = self.cond(c)
            args = " ".join(fv)

            def rec(i):
                return "  " * i + f"{lname} prof {args + ' ' if args else ''}fuel {' '.join(state)}\n"
            btxt = self.stmts_term(self.as_stmts(body), None, 3, rec)
            if self.needs_tm:
                raise Unsupported("loop body consults the rounding mode")
            self.needs_tm, self.env = saved_tm, saved_env
            self.in_loop = saved_loop
            ps = " ".join(f"({v} : {lean_ty(self.env[v])})" for v in fv)
            fn_ret = self.decl_ret if hasattr(self, "decl_ret") else self.ret
            res_ty = ("Sum", fn_ret, st_ty) if self.loop_returns else st_ty
            fin = f"Sum.inr ({tup})" if self.loop_returns else tup
            sig = " → ".join(["Nat"] + [lean_ty(self.env[v]) for v in state] + [f"Outcome {lean_ty(res_ty)}"])
            aux = [f"/-- loop {self.loop_count} of `fn {self.fname}`: fuel-bounded recursion, state = ({', '.join(state)})" +
                   ("; `Sum.inl r` = the function returned `r` from inside the loop" if self.loop_returns else "") + " -/",
                   f"def {lname} (prof : Profile) {ps} : {sig}",
                   "  | 0, " + ", ".join("_" for _ in state) + " => Outcome.panic .other",
                   "  | fuel + 1, " + ", ".join(state) + " => do"]
            aux += ["    " + l for l in lc]
            aux += [f"    if {xc} then", btxt.rstrip("\n").replace("@@FIN@@", fin), "    else", f"      pure ({fin})", ""]
            self.aux = getattr(self, "aux", []) + ["\n".join(aux)]
            call = f"{lname} prof {args + ' ' if args else ''}{fuel} {' '.join(state)}"
            if self.loop_returns:
                v = self.fresh()
                rest_txt = self.stmts_term(rest, tail, ind + 1, k)
                return (f"{pad}let {v} ← {call}\n{pad}match {v} with\n{pad}| Sum.inl r => pure r\n"
                        f"{pad}| Sum.inr {tup} =>\n" + rest_txt)
            out = f"{pad}let {tup} ← {call}\n"
            return out + self.stmts_term(rest, tail, ind, k)
        if kind == "declare":
            if s[1][0] != "pvar":
                raise Unsupported("declaration pattern")
            self.env[s[1][1]] = s[2]
            return self.stmts_term(rest, tail, ind, k)
        if kind == "whilelet":
            return self.whilelet_stmt(s, rest, tail, ind, k)
        if kind == "assign":
            _, op, lhs, rhs = s
            if lhs[0] == "field" and lhs[2] == "bytes" and lhs[1][0] == "path":
                lhs = lhs[1]                  # the cursor is carried as its only field
            if lhs[0] != "path" or len(lhs[1]) != 1:
                raise Unsupported("assignment target")
            name = lhs[1][0]
            t = self.env[name]
            if op == "=":
                ls, x = self.ex(rhs, t)
            else:
                ls, x = self.ex(("bin", op[:-1], lhs, rhs), t)
            try:
                tyann = f" : {lean_ty(t)}"
            except Unsupported:
                tyann = ""
            out = "".join(f"{pad}{l}\n" for l in ls) + f"{pad}let {name}{tyann} := {x}\n"
            return out + self.stmts_term(rest, tail, ind, k)
        if kind == "expr":
            e = s[1]
            if e[0] == "return":
                ls, x = self.ex(e[1], self.decl_ret if hasattr(self, "decl_ret") else self.ret)
                if getattr(self, "in_loop", False):
                    self.loop_returns = True
                    return "".join(f"{pad}{l}\n" for l in ls) + f"{pad}pure (Sum.inl ({x}))\n"
                return "".join(f"{pad}{l}\n" for l in ls) + f"{pad}pure ({self.wrap_ret(x)})\n"
            if e[0] == "if" and e[3] is None and getattr(self, "in_loop", False) and \
                    e[2][0] == "block" and e[2][2] is None and e[2][1] == [("expr", ("path", ["break"]))]:
                # `if c { break; }` inside a loop: leave with the current state
                lc, xc = self.cond(e[1])
                pre = "".join(f"{pad}{l}\n" for l in lc)
                els = self.stmts_term(rest, tail, ind + 1, k)
                return pre + f"{pad}if {xc} then\n{pad}  pure (@@FIN@@)\n{pad}else\n{els}"
            if e[0] == "if" and e[3] is not None and getattr(self, "in_loop", False) and self.is_break(e[3]):
                # `if c { … } else { break; }` inside a loop: the loop goes on in the first branch only
                lc, xc = self.cond(e[1])
                pre = "".join(f"{pad}{l}\n" for l in lc)
                thn = self.stmts_term(self.as_stmts(e[2]) + rest, tail, ind + 1, k)
                return pre + f"{pad}if {xc} then\n{thn}{pad}else\n{pad}  pure (@@FIN@@)\n"
            if e[0] == "if":
                # statement `if` (no value): may assign variables or return early
                return self.if_stmt(e, rest, tail, ind, k)
            if e[0] == "block":
                if any(st[0] == "let" for st in e[1]):
                    raise Unsupported("`let` inside a nested block statement")
                return self.stmts_term(self.as_stmts(e) + rest, tail, ind, k)
            if e[0] == "path" and len(e[1]) == 1 and e[1][0] in self.env:
                return self.stmts_term(rest, tail, ind, k)          # a bare variable as a statement (`self` at the end of a `&mut Self` method)
            if e[0] in ("method", "call") and not (e[0] == "call" and e[1][-1] in MUT_PARAMS and e[1][-1] not in LIT_METHODS.values()):
                ls, _x = self.ex(e, None)                             # evaluated for its effects
                return "".join(f"{pad}{l}\n" for l in ls) + self.stmts_term(rest, tail, ind, k)
            if e[0] == "macro" and e[1] == "panic":
                return f"{pad}Outcome.panic {self.panic_kind(e[2])}\n"      # diverges: nothing after it runs
            if e[0] == "macro":
                return self.macro_stmt(e, ind) + self.stmts_term(rest, tail, ind, k)
            if e[0] == "call" and e[1][-1] in MUT_PARAMS and (e[1][-1] in self.sigs or e[1][-1] in EXTERNAL):
                # `f(&mut a, &mut b, …);` — the callee returns the final values of its `&mut` parameters
                n = e[1][-1]
                ptys = (self.sigs.get(n) or EXTERNAL[n])[0]
                ls, xs, outs = [], [], []
                for a, (pn, pt) in zip(e[2], ptys):
                    l, x = self.ex(a, pt)
                    ls += l; xs.append(f"({x})")
                    if pn in MUT_PARAMS[n]:
                        if a[0] != "path":
                            raise Unsupported("&mut argument that is not a variable")
                        outs.append(a[1][0])
                tup = "(" + ", ".join(outs) + ")" if len(outs) > 1 else outs[0]
                head = f"K.{n} prof" if n in self.sigs else EXTERNAL[n][2]
                bind = "←" if (n in self.sigs or EXTERNAL[n][3]) else ":="
                out = "".join(f"{pad}{l}\n" for l in ls) + f"{pad}let {tup} {bind} {head} " + " ".join(xs) + "\n"
                return out + self.stmts_term(rest, tail, ind, k)
            if e[0] == "match" and (rest or tail is not None) and not self.has_return_deep(e) and self.assigned_vars(e) \
                    and sum(1 for _, b in e[2] if not self.ends_diverging(b)) >= 2:
                # several arms reach the statements after the `match`: a join point carrying the variables they assign
                _, scr, arms = e
                vars_ = self.assigned_vars(e)
                tup = "(" + ", ".join(vars_) + ")" if len(vars_) > 1 else vars_[0]

                def cont(i):
                    return "  " * i + f"pure ({tup})\n"
                st = self.type_of(scr)
                ls, x = self.ex(scr, st)
                out = "".join(f"{pad}{l}\n" for l in ls) + f"{pad}let {tup} ← (match {x} with\n"
                for pats, body in arms:
                    for pt in pats:
                        saved = dict(self.env)
                        self.bind_pat(pt, st)
                        out += f"{pad}  | {self.pat_lean(pt, st)} => (do\n" + self.stmts_term(self.as_stmts(body), None, ind + 3, cont) + f"{pad}    )\n"
                        self.env = saved
                out += f"{pad}  : Outcome _)\n"
                return out + self.stmts_term(rest, tail, ind, k)
            if e[0] == "match":
                # statement `match`: arms may return early; the rest of the function follows every arm
                _, scr, arms = e
                st = self.type_of(scr)
                ls, x = self.ex(scr, st)
                out = "".join(f"{pad}{l}\n" for l in ls) + f"{pad}match {x} with\n"
                for pats, body in arms:
                    for pt in pats:
                        saved = dict(self.env)
                        self.bind_pat(pt, st)
                        if body[0] == "block":
                            arm_stmts = list(body[1]) + ([("expr", body[2])] if body[2] is not None else [])
                        else:
                            arm_stmts = [("expr", body)]
                        out += f"{pad}| {self.pat_lean(pt, st)} =>\n" + self.stmts_term(arm_stmts + rest, tail, ind + 2, k)
                        self.env = saved
                return out
            raise Unsupported(f"expression statement {e[0]}")
        raise Unsupported(kind)

    def assigned_vars(self, blk):
        """variables (already in scope) assigned anywhere inside the block, in order of first assignment"""
        out = []

        def add(n):
            if n not in out:
                out.append(n)

        def walk_calls(x):
            """receivers / arguments passed by `&mut` to translated functions anywhere inside the expression"""
            if isinstance(x, tuple) and x and x[0] == "method" and x[2] in LIT_METHODS and "self" in MUT_PARAMS.get(LIT_METHODS[x[2]], []) \
                    and x[1][0] == "path" and len(x[1][1]) == 1:
                n_ = LIT_METHODS[x[2]]
                add(x[1][1][0])
                if n_ in self.sigs:
                    for a, (pn, _) in zip(x[3], self.sigs[n_][0][1:]):
                        if pn in MUT_PARAMS.get(n_, []) and a[0] == "path":
                            add(a[1][0])
            if isinstance(x, tuple) and x and x[0] == "call" and x[1][-1] in MUT_PARAMS and x[1][-1] in self.sigs:
                for a, (pn, _) in zip(x[2], self.sigs[x[1][-1]][0]):
                    if pn in MUT_PARAMS[x[1][-1]] and a[0] == "path":
                        add(a[1][0])
            if isinstance(x, (tuple, list)):
                for y in x:
                    if isinstance(y, (tuple, list)):
                        walk_calls(y)

        def walk_expr(e):
            if not isinstance(e, tuple) or not e:
                return
            if e[0] in ("method", "call"):
                walk_calls(e)
            if e[0] == "block":
                walk_block(e)
            elif e[0] == "if":
                walk_expr(e[2])
                if e[3]:
                    walk_expr(e[3])
            elif e[0] == "match":
                for _, body in e[2]:
                    walk_expr(body)

        def walk_block(b):
            for st in b[1]:
                if st[0] == "assign" and st[2][0] == "field" and st[2][2] == "bytes" and st[2][1][0] == "path":
                    add(st[2][1][1][0])
                elif st[0] == "assign" and st[2][0] == "path":
                    walk_calls(st[3])
                    add(st[2][1][0])
                elif st[0] == "let":
                    walk_calls(st[3])
                elif st[0] == "expr":
                    walk_expr(st[1])
                elif st[0] == "while":
                    walk_block(st[2])
                elif st[0] == "whilelet":
                    walk_block(st[3])
            if b[2] is not None:
                walk_expr(b[2])
        if blk[0] == "block":
            walk_block(blk)
        else:
            walk_expr(blk)
        return out

    def free_vars(self, *asts):
        """names of variables in scope that occur in the given ASTs (order of the scope)"""
        seen = set()

        def walk(x):
            if isinstance(x, tuple) and len(x) == 2 and x[0] == "path" and isinstance(x[1], list):
                if len(x[1]) == 1:
                    seen.add(x[1][0])
                return
            if isinstance(x, (tuple, list)):
                for y in x:
                    walk(y)
        for a in asts:
            walk(a)
        return [n for n in self.env if n in seen]

    @staticmethod
    def is_break(b):
        return b[0] == "block" and ((b[1] == [("expr", ("path", ["break"]))] and b[2] is None) or (not b[1] and b[2] == ("path", ["break"])))

    @staticmethod
    def ends_diverging(b):
        """the block (or expression) ends in `return` / `panic!`"""
        if b[0] == "return" or (b[0] == "macro" and b[1] == "panic"):
            return True
        if b[0] != "block":
            return False
        last = b[2] if b[2] is not None else (b[1][-1][1] if b[1] and b[1][-1][0] == "expr" else None)
        return last is not None and (last[0] == "return" or (last[0] == "macro" and last[1] == "panic"))

    def single_live_arm(self, m):
        """index of the only arm of a `match` that does not end in `return`/`panic!`, when some other arm does; else None"""
        live = [i for i, (_, b) in enumerate(m[2]) if not self.ends_diverging(b)]
        return live[0] if len(live) == 1 and len(m[2]) > 1 else None

    def whilelet_stmt(self, s, rest, tail, ind, k):
        """`while let P = e { body }`: fuel-bounded recursion; the loop ends when the pattern does not match"""
        pad = "  " * ind
        _, pt, scr, body = s
        state = [v for v in self.assigned_vars(body) if v in self.env]
        if not state:
            raise Unsupported("while-let loop without loop-carried variables")
        fv = [v for v in self.free_vars(scr, body) if v not in state]
        self.loop_count = getattr(self, "loop_count", 0) + 1
        lname = f"{self.fname}_loop{self.loop_count}"
        fuel = LOOP_FUEL.get((self.fname, self.loop_count), 64)
        st_ty = ("tuple", [self.env[v] for v in state]) if len(state) > 1 else self.env[state[0]]
        tup = "(" + ", ".join(state) + ")" if len(state) > 1 else state[0]
        saved_tm, saved_env = self.needs_tm, dict(self.env)
        self.needs_tm = False
        if getattr(self, "in_loop", False):
            raise Unsupported("nested loops")
        self.in_loop = True
        self.loop_returns = False
        self.cur_ind = 2
        sty = self.type_of(scr)
        lc, xc = self.ex(scr, sty)
        args = " ".join(fv)

        def rec(i):
            return "  " * i + f"{lname} prof {args + ' ' if args else ''}fuel {' '.join(state)}\n"
        self.bind_pat(pt, sty)
        btxt = self.stmts_term(self.as_stmts(body), None, 4, rec)
        if self.needs_tm or self.loop_returns:
            raise Unsupported("while-let body consults the rounding mode or returns")
        self.needs_tm, self.env = saved_tm, saved_env
        self.in_loop = False
        ps = " ".join(f"({v} : {lean_ty(self.env[v])})" for v in fv)
        sig = " → ".join(["Nat"] + [lean_ty(self.env[v]) for v in state] + [f"Outcome {lean_ty(st_ty)}"])
        aux = [f"/-- loop {self.loop_count} of `fn {self.fname}` (`while let`): fuel-bounded recursion, state = ({', '.join(state)}) -/",
               f"def {lname} (prof : Profile) {ps} : {sig}",
               "  | 0, " + ", ".join("_" for _ in state) + " => Outcome.panic .other",
               "  | fuel + 1, " + ", ".join(state) + " => do"]
        aux += ["    " + l for l in lc]
        aux += [f"    match {xc} with", f"    | {self.pat_lean(pt, sty)} =>", btxt.rstrip("\n").replace("@@FIN@@", tup),
                "    | _ =>", f"      pure ({tup})", ""]
        self.aux = getattr(self, "aux", []) + ["\n".join(aux)]
        call = f"{lname} prof {args + ' ' if args else ''}{fuel} {' '.join(state)}"
        return f"{pad}let {tup} ← {call}\n" + self.stmts_term(rest, tail, ind, k)

    @staticmethod
    def as_stmts(b):
        """a block (or an `else if` expression) as a statement list; a tail `if`/`match` without `;` is a statement too"""
        if b[0] == "block":
            return list(b[1]) + ([("expr", b[2])] if b[2] is not None else [])
        return [("expr", b)]

    def has_return_deep(self, x):
        if isinstance(x, tuple) and len(x) >= 1 and x[0] == "return":
            return True
        if isinstance(x, (tuple, list)):
            return any(self.has_return_deep(y) for y in x)
        return False

    @staticmethod
    def diverges(blk):
        last = blk[2] if blk[2] is not None else (blk[1][-1][1] if blk[1] and blk[1][-1][0] == "expr" else None)
        return last is not None and last[0] == "macro" and last[1] == "panic"

    def has_return(self, blk):
        return any(s[0] == "expr" and s[1][0] == "return" for s in blk[1]) or (blk[2] is not None and blk[2][0] == "return")

    def if_stmt(self, e, rest, tail, ind, k):
        pad = "  " * ind
        _, c, th, el = e
        lc, xc = self.cond(c)
        pre = "".join(f"{pad}{l}\n" for l in lc)
        if el is None and not self.has_return(th) and not self.diverges(th) and self.has_return_deep(th):
            # a `return` somewhere inside the branch: the statements after the `if` are continued in both branches
            thn = self.stmts_term(self.as_stmts(th) + rest, tail, ind + 1, k)
            els = self.stmts_term(rest, tail, ind + 1, k)
            return pre + f"{pad}if {xc} then\n{thn}{pad}else\n{els}"
        if (self.has_return(th) or self.diverges(th)) and el is None:
            # `if c { …; return x; }` followed by the rest
            thn = self.stmts_term(list(th[1]), th[2], ind + 1, None)
            els = self.stmts_term(rest, tail, ind + 1, k)
            return pre + f"{pad}if {xc} then\n{thn}{pad}else\n{els}"
        if el is not None and el[0] == "block" and self.ends_diverging(el) and not self.ends_diverging(th):
            # `if c { … } else { …; return x }`: what follows the `if` continues the first branch only
            thn = self.stmts_term(self.as_stmts(th) + rest, tail, ind + 1, k)
            els = self.stmts_term(list(el[1]), el[2], ind + 1, None)
            return pre + f"{pad}if {xc} then\n{thn}{pad}else\n{els}"
        vars_ = self.assigned_vars(th) + ([v for v in self.assigned_vars(el) if v not in self.assigned_vars(th)] if el else [])
        if not vars_:
            raise Unsupported("statement-if without assignments")
        tup = "(" + ", ".join(vars_) + ")" if len(vars_) > 1 else vars_[0]

        def cont(i):
            return "  " * i + f"pure ({tup})\n"
        thn = self.stmts_term(self.as_stmts(th), None, ind + 2, cont)
        els = self.stmts_term(self.as_stmts(el), None, ind + 2, cont) if el else cont(ind + 2)
        body = self.stmts_term(rest, tail, ind, k)
        return pre + f"{pad}let {tup} ← (if {xc} then (do\n{thn}{pad}  ) else (do\n{els}{pad}  ) : Outcome _)\n" + body

    @staticmethod
    def panic_kind(toks):
        names = [t[1] for t in toks if t[0] == "id"]
        if "MaxNFracDigitsExceeded" in names:
            return ".nfrac"
        if "DivisionByZero" in names:
            return ".divzero"
        return ".overflow"        # `InternalOverflow` and the literal "Internal representation exceeded." message

    def macro_stmt(self, e, ind):
        pad = "  " * ind
        name = e[1]
        if name in ("debug_assert", "debug_assert_ne", "debug_assert_eq"):
            # re-parse the first argument(s) as expression(s)
            toks = e[2] + [("eof", None, None)]
            p = P(toks)
            a = p.expr()
            if name == "debug_assert":
                ls, x = self.ex(a, "bool")
            else:
                p.eat(","); b = p.expr()
                ls, x = self.ex(("bin", "!=" if name.endswith("ne") else "==", a, b), "bool")
            return "".join(f"{pad}{l}\n" for l in ls) + f"{pad}debugAssert prof ({x})\n"
        if name in ("assert", "assert_ne", "assert_eq"):
            toks = e[2] + [("eof", None, None)]
            p = P(toks)
            a = p.expr()
            if name == "assert":
                ls, x = self.ex(a, "bool")
            else:
                p.eat(","); b = p.expr()
                ls, x = self.ex(("bin", "!=" if name.endswith("ne") else "==", a, b), "bool")
            return "".join(f"{pad}{l}\n" for l in ls) + f"{pad}Fpdec.assert ({x})\n"
        raise Unsupported(f"macro {name}")

    def tail_term(self, e, ind, k):
        pad = "  " * ind
        self.cur_ind = ind
        if e[0] == "if":
            _, c, th, el = e
            lc, xc = self.cond(c)
            pre = "".join(f"{pad}{l}\n" for l in lc)
            thn = self.block_term(th, ind + 1, k)
            els = self.tail_term(el, ind + 1, k) if el[0] in ("if", "match") else self.block_term(el, ind + 1, k)
            return pre + f"{pad}if {xc} then\n{thn}{pad}else\n{els}"
        if e[0] == "match":
            return self.match_term(e, ind, k)
        if e[0] == "block":
            return self.block_term(e, ind, k)
        if e[0] == "return":
            e = e[1]
        if e[0] == "macro" and e[1] == "panic":
            return f"{pad}Outcome.panic {self.panic_kind(e[2])}\n"
        if e[0] == "macro" and e[1] == "unreachable":
            return f"{pad}Outcome.panic .unwrap\n"
        if k is not None and getattr(k, "takes_value", False):
            ls, x = self.ex(e, k.hint)
            return "".join(f"{pad}{l}\n" for l in ls) + k(ind, x)
        ls, x = self.ex(e, self.decl_ret if hasattr(self, "decl_ret") and not getattr(self, "in_loop", False) else self.ret)
        out = "".join(f"{pad}{l}\n" for l in ls)
        if k is not None:
            raise Unsupported("value tail with continuation")
        return out + f"{pad}pure ({self.wrap_ret(x)})\n"

    def match_term(self, e, ind, k):
        pad = "  " * ind
        _, scr, arms = e
        st = self.type_of(scr)
        ls, x = self.ex(scr, st)
        out = "".join(f"{pad}{l}\n" for l in ls) + f"{pad}match {x} with\n"
        for pats, body in arms:
            for p in pats:
                saved = dict(self.env)
                out += f"{pad}| {self.pat_lean(p, st)} =>\n"
                self.bind_pat(p, st)
                if body[0] in ("block", "if", "match"):
                    out += self.tail_term(body, ind + 2, k)
                else:
                    out += self.tail_term(body, ind + 2, k)
                self.env = saved
        return out

    def pat_lean(self, p, t):
        if p[0] == "pvar":
            return p[1]
        if p[0] == "pwild":
            return "_"
        if p[0] == "plit":
            return str(p[1])
        if p[0] == "ptuple":
            return "(" + ", ".join(self.pat_lean(x, tt) for x, tt in zip(p[1], t[1])) + ")"
        if p[0] == "pctor":
            n = p[1][-1]
            if n == "None":
                return "none"
            if n == "Some":
                return f"some {self.pat_lean(p[2], t[1])}"
            if n == "Ok":
                return f".ok {self.pat_lean(p[2], t[1])}"
            if n == "Err":
                if p[2] is not None and p[2][0] == "pvar":
                    return f".error {p[2][1]}"
                return ".error _" if p[2] is None or p[2][0] == "pwild" else f".error {self.pat_lean(p[2], t[2])}"
            if n in MODE_NAMES:
                return MODE_NAMES[n]
            if n in ("Less", "Equal", "Greater"):
                return {"Less": ".lt", "Equal": ".eq", "Greater": ".gt"}[n]
        raise Unsupported(f"pattern {p}")

    def bind_pat(self, p, t):
        if p[0] == "pvar":
            self.env[p[1]] = t
        elif p[0] == "ptuple":
            for x, tt in zip(p[1], t[1]):
                self.bind_pat(x, tt)
        elif p[0] == "pctor" and p[2] is not None and p[1][-1] == "Err":
            if p[2][0] == "pvar":
                self.env[p[2][1]] = "error"
        elif p[0] == "pctor" and p[2] is not None:
            self.bind_pat(p[2], t[1])

    def const_eval(self, e):
        k = e[0]
        if k == "lit":
            return e[1]
        if k == "paren":
            return self.const_eval(e[1])
        if k == "bin":
            a, b = self.const_eval(e[2]), self.const_eval(e[3])
            if e[1] == "/" and a >= 0 and b > 0:
                return a // b
            return {"+": a + b, "-": a - b, "*": a * b, "<<": a << b}[e[1]]
        if k == "path" and len(e[1]) == 2 and e[1][0] in INT_TYPES and e[1][1] == "MAX":
            return ((1 << (bits(e[1][0]) - 1)) - 1) if signed(e[1][0]) else ((1 << bits(e[1][0])) - 1)
        if k == "path":
            n = e[1][-1]
            c = self.local_consts.get(n) or self.consts.get(n)
            if c:
                return c[1]
        raise Unsupported("const expression")


# ----------------------------------------------------------------------------- driver
GROUP_IMPORTS = {"KQuant": ["Fpdec.Gen.KDecOps", "Fpdec.Gen.KIntOps", "Fpdec.Model.Decimal"], "KNumTraits": ["Fpdec.Gen.KCmp", "Fpdec.Gen.KAddSub", "Fpdec.Gen.KDecUnops", "Fpdec.Gen.KIntConv", "Fpdec.Gen.KFromStr", "Fpdec.Model.Decimal"], "KMisc": ["Fpdec.Gen.KCmp", "Fpdec.Gen.KFromStr", "Fpdec.Gen.KIntoFloat", "Fpdec.Model.Float"], "KTls": [], "KFormat": ["Fpdec.Gen.KDivRounded", "Fpdec.Gen.Consts", "Fpdec.Model.Format"], "KParse": ["Fpdec.Gen.KSwar", "Fpdec.Gen.Consts", "Fpdec.Model.Parser"], "KMagn": ["Fpdec.Gen.KLog", "Fpdec.Gen.Consts", "Fpdec.Model.Decimal"], "KRatio": ["Fpdec.Gen.KPow", "Fpdec.Model.Decimal"], "KRkyv": ["Fpdec.Gen.KPow", "Fpdec.Model.Decimal"], "KHash": ["Fpdec.Gen.KRatio", "Fpdec.Model.Ratio"], "KForward2": ["Fpdec.Gen.KIntOps", "Fpdec.Gen.KCmp", "Fpdec.Model.Decimal"], "KPow": ["Fpdec.Gen.Consts"], "KDivRounded": ["Fpdec.Gen.KRound", "Fpdec.Gen.KPow", "Fpdec.Model.Core"],
                 "KDecDiv": ["Fpdec.Gen.KDivRounded"], "KDecMul": ["Fpdec.Gen.KDivRounded", "Fpdec.Model.Decimal"], "KNorm": [], "KFromStr": ["Fpdec.Gen.KPow", "Fpdec.Gen.Consts", "Fpdec.Model.Parser"], "KIntoFloat": ["Fpdec.Gen.Consts", "Fpdec.Model.Decimal"], "KIntOps": ["Fpdec.Gen.KDecDiv", "Fpdec.Gen.KNorm", "Fpdec.Gen.Consts", "Fpdec.Model.Decimal"], "KForward": ["Fpdec.Gen.KAddSub", "Fpdec.Gen.KDecOps"], "KIntConv": ["Fpdec.Gen.KPow", "Fpdec.Model.Decimal"], "KCmp": ["Fpdec.Gen.KPow", "Fpdec.Model.Decimal"], "KAddSub": ["Fpdec.Gen.KPow", "Fpdec.Model.Decimal"], "KDecUnops": ["Fpdec.Gen.KUnops", "Fpdec.Gen.KPow", "Fpdec.Model.Decimal"], "KDecOps": ["Fpdec.Gen.KDecDiv", "Fpdec.Gen.KDecMul", "Fpdec.Gen.KNorm", "Fpdec.Gen.Consts", "Fpdec.Model.Decimal"],
                 "KDecRound": ["Fpdec.Gen.KDivRounded", "Fpdec.Model.Decimal"],
                 "KFloat": ["Fpdec.Gen.KNorm", "Fpdec.Gen.Consts", "Fpdec.Model.Core", "Fpdec.Model.Decimal"], "KRem": ["Fpdec.Gen.KPow"], "KDecRem": ["Fpdec.Gen.KRem", "Fpdec.Model.Decimal"],
                 "KWideDiv": ["Fpdec.Gen.KWide", "Fpdec.Gen.KPow", "Fpdec.Gen.Consts", "Fpdec.Model.Core"]}
# translated functions that only the listed groups call in their translated form; elsewhere the call goes to the hand-written model
# function of the EXTERNAL table (its tie theorem shows the two agree on the i128 range)
CALL_SCOPE = {"i128_magnitude": {"KMagn"}, "str_to_dec": {"KParse"}}
LOOP_FUEL.update({("lit_skip_leading_zeroes", 1): 2 ** 64, ("lit_accum_coeff", 1): 2 ** 64, ("lit_accum_coeff", 2): 2 ** 64,
                  ("lit_accum_exp", 1): 2 ** 64,
                  ("gcd_special", 1): 600, ("normalize", 1): 256, ("approx_rational", 1): 32, ("rem", 1): 256,
                  ("u256_idiv_u128_special_k", 1): 340282366920938463463374607431768211457,
                  ("u256_idiv_u128_special_k", 2): 340282366920938463463374607431768211457})
KERNELS = [
    # (group, file, fn name, self type for trait methods)
    ("KPow", "fpdec-core/src/powers_of_ten.rs", "ten_pow", None),
    ("KPow", "fpdec-core/src/powers_of_ten.rs", "checked_ten_pow", None),
    ("KPow", "fpdec-core/src/powers_of_ten.rs", "mul_pow_ten", None),
    ("KPow", "fpdec-core/src/powers_of_ten.rs", "checked_mul_pow_ten", None),
    ("KPow", "fpdec-core/src/lib.rs", "checked_adjust_coeffs", None),
    ("KRound", "fpdec-core/src/lib.rs", "i128_div_mod_floor", None),
    ("KRound", "fpdec-core/src/rounding.rs", "round_quot", None),
    ("KTls", "fpdec-core/src/rounding.rs", "default", "RoundingMode", {"as": "rounding_mode_default", "cell": "r"}),
    ("KTls", "fpdec-core/src/rounding.rs", "set_default", "RoundingMode", {"as": "rounding_mode_set_default", "cell": "rw"}),
    ("KDivRounded", "fpdec-core/src/rounding.rs", "i128_div_rounded", None),
    ("KDivRounded", "fpdec-core/src/rounding.rs", "i128_shifted_div_rounded", None),
    ("KDivRounded", "fpdec-core/src/rounding.rs", "i128_mul_div_ten_pow_rounded", None),
    ("KDecDiv", "src/binops/div_rounded.rs", "checked_div_rounded", None),
    ("KDecMul", "src/binops/mul_rounded.rs", "checked_mul_rounded", None),
    ("KNorm", "src/lib.rs", "normalize", None),
    ("KIntConv", "src/from_int.rs", "from", "Decimal", {"as": "decimal_from_int", "macro": ("impl_from_int", 1, 0, {"$t": "i64"})}),
    ("KIntConv", "src/from_int.rs", "try_from", "Decimal", {"as": "decimal_try_from_u128"}),
    ("KIntConv", "src/into_int.rs", "try_from", "i128", {"as": "i128_try_from_decimal", "err": "TryFromDecimalError"}),
    ("KIntConv", "src/into_int.rs", "try_from", "i64",
     {"as": "i64_try_from_decimal", "err": "TryFromDecimalError", "macro": ("impl_int_from_dec", 1, 0, {"$t": "i64"})}),
    ("KCmp", "src/binops/cmp.rs", "eq", "Decimal", {"as": "decimal_eq", "macro": ("impl_partial_eq", 0, 0, None)}),
    ("KCmp", "src/binops/cmp.rs", "partial_cmp", "Decimal", {"as": "decimal_partial_cmp", "macro": ("impl_partial_ord", 0, 0, None)}),
    ("KCmp", "src/binops/cmp.rs", "eq", "Decimal", {"as": "decimal_eq_uint", "macro": ("impl_decimal_eq_uint", 1, 0, {"$t": "u64"})}),
    ("KCmp", "src/binops/cmp.rs", "eq", "Decimal", {"as": "decimal_eq_sint", "macro": ("impl_decimal_eq_signed_int", 1, 0, {"$t": "i64"})}),
    ("KCmp", "src/binops/cmp.rs", "partial_cmp", "Decimal", {"as": "decimal_cmp_sint", "macro": ("impl_decimal_cmp_signed_int", 1, 0, {"$t": "i64"})}),
    ("KCmp", "src/binops/cmp.rs", "partial_cmp", "i64", {"as": "sint_cmp_decimal", "macro": ("impl_signed_int_cmp_decimal", 1, 0, {"$t": "i64"})}),
    ("KCmp", "src/binops/cmp.rs", "partial_cmp", "Decimal", {"as": "decimal_cmp_uint", "macro": ("impl_decimal_cmp_uint", 1, 0, {"$t": "u64"})}),
    ("KCmp", "src/binops/cmp.rs", "partial_cmp", "u64", {"as": "uint_cmp_decimal", "macro": ("impl_uint_cmp_decimal", 1, 0, {"$t": "u64"})}),
    ("KCmp", "src/binops/cmp.rs", "eq_zero", "Decimal", {"macro": ("impl_basics", 0, 0, None), "as": "decimal_eq_zero"}),
    ("KCmp", "src/binops/cmp.rs", "eq_one", "Decimal", {"macro": ("impl_basics", 0, 0, None), "as": "decimal_eq_one"}),
    ("KCmp", "src/binops/cmp.rs", "is_negative", "Decimal", {"macro": ("impl_basics", 0, 0, None), "as": "decimal_is_negative"}),
    ("KCmp", "src/binops/cmp.rs", "is_positive", "Decimal", {"macro": ("impl_basics", 0, 0, None), "as": "decimal_is_positive"}),
    ("KMagn", "fpdec-core/src/lib.rs", "i128_magnitude", None),
    ("KMagn", "src/lib.rs", "new_raw", "Decimal", {"as": "decimal_new_raw"}),
    ("KMagn", "src/lib.rs", "magnitude", "Decimal", {"as": "decimal_magnitude"}),
    ("KAddSub", "src/binops/add_sub.rs", "coeff_or_panic", None),
    ("KAddSub", "src/binops/add_sub.rs", "$method", "Decimal", {"as": "decimal_add", "macro": ("impl_add_sub_decimal", 0, 0, None)}),
    ("KAddSub", "src/binops/add_sub.rs", "$method", "Decimal", {"as": "decimal_sub", "macro": ("impl_add_sub_decimal", 0, 1, None)}),
    ("KAddSub", "src/binops/add_sub.rs", "$method", "Decimal",
     {"as": "decimal_add_int", "macro": ("impl_add_sub_decimal_and_int", 1, 0, {"$t": "i64"}), "occ": 0, "ret": "Decimal"}),
    ("KAddSub", "src/binops/add_sub.rs", "$method", "i64",
     {"as": "int_add_decimal", "macro": ("impl_add_sub_decimal_and_int", 1, 0, {"$t": "i64"}), "occ": 1, "ret": "Decimal"}),
    ("KAddSub", "src/binops/add_sub.rs", "$method", "Decimal",
     {"as": "decimal_sub_int", "macro": ("impl_add_sub_decimal_and_int", 1, 1, {"$t": "i64"}), "occ": 0, "ret": "Decimal"}),
    ("KAddSub", "src/binops/add_sub.rs", "$method", "i64",
     {"as": "int_sub_decimal", "macro": ("impl_add_sub_decimal_and_int", 1, 1, {"$t": "i64"}), "occ": 1, "ret": "Decimal"}),
    ("KAddSub", "src/binops/checked_add_sub.rs", "$method", "Decimal",
     {"as": "decimal_checked_add", "macro": ("impl_checked_add_sub_decimal", 0, 0, None), "ret": ("Option", "Decimal")}),
    ("KAddSub", "src/binops/checked_add_sub.rs", "$method", "Decimal",
     {"as": "decimal_checked_sub", "macro": ("impl_checked_add_sub_decimal", 0, 1, None), "ret": ("Option", "Decimal")}),
    ("KDecUnops", "src/unops.rs", "neg", "Decimal", {"as": "decimal_neg", "occ": 0}),
    ("KDecUnops", "src/unops.rs", "neg", "Decimal", {"as": "decimal_ref_neg", "occ": 1, "ret": "Decimal"}),
    ("KDecUnops", "src/unops.rs", "abs", "Decimal", {"as": "decimal_abs"}),
    ("KDecUnops", "src/unops.rs", "floor", "Decimal", {"as": "decimal_floor"}),
    ("KDecUnops", "src/unops.rs", "ceil", "Decimal", {"as": "decimal_ceil"}),
    ("KDecUnops", "src/unops.rs", "trunc", "Decimal", {"as": "decimal_trunc"}),
    ("KDecUnops", "src/unops.rs", "fract", "Decimal", {"as": "decimal_fract"}),
    ("KDecOps", "src/binops/mul.rs", "mul", "Decimal", {"as": "decimal_mul"}),
    ("KDecOps", "src/binops/checked_mul.rs", "checked_mul", "Decimal", {"as": "decimal_checked_mul", "ret": ("Option", "Decimal")}),
    ("KDecOps", "src/binops/mul_rounded.rs", "mul_rounded", "Decimal", {"as": "decimal_mul_rounded"}),
    ("KDecOps", "src/binops/div.rs", "div", "Decimal", {"as": "decimal_div"}),
    ("KDecOps", "src/binops/checked_div.rs", "checked_div", "Decimal", {"as": "decimal_checked_div", "ret": ("Option", "Decimal")}),
    ("KDecOps", "src/binops/div_rounded.rs", "div_rounded", "Decimal", {"as": "decimal_div_rounded"}),
    ("KDecRound", "src/round.rs", "round", "Decimal", {"as": "decimal_round"}),
    ("KDecRound", "src/round.rs", "checked_round", "Decimal", {"as": "decimal_checked_round"}),
    ("KFloat", "src/from_float.rs", "approx_rational", None),
    ("KRem", "src/binops/rem.rs", "rem", None),
    ("KDecRem", "src/binops/rem.rs", "rem", "Decimal", {"occ": 1, "as": "decimal_rem"}),
    ("KDecRem", "src/binops/checked_rem.rs", "checked_rem", "Decimal", {"as": "decimal_checked_rem", "ret": ("Option", "Decimal")}),
    ("KRatio", "src/as_integer_ratio.rs", "gcd_special", None),
    ("KRatio", "src/as_integer_ratio.rs", "as_integer_ratio", "Decimal", {"occ": 1, "as": "decimal_as_integer_ratio"}),
    ("KRatio", "src/as_integer_ratio.rs", "numerator", "Decimal", {"occ": 1, "as": "decimal_numerator"}),
    ("KRatio", "src/as_integer_ratio.rs", "denominator", "Decimal", {"occ": 1, "as": "decimal_denominator"}),
    ("KDecRem", "src/binops/rem.rs", "rem", "Decimal", {"as": "decimal_rem_int", "macro": ("impl_rem_decimal_and_int", 1, 0, {"$t": "i64"}), "occ": 0, "ret": "Decimal"}),
    ("KDecRem", "src/binops/rem.rs", "rem", "i64", {"as": "int_rem_decimal", "macro": ("impl_rem_decimal_and_int", 1, 0, {"$t": "i64"}), "occ": 1, "ret": "Decimal"}),
    ("KDecRem", "src/binops/checked_rem.rs", "checked_rem", "Decimal", {"as": "decimal_checked_rem_int", "macro": ("impl_checked_rem_decimal_and_int", 1, 0, {"$t": "i64"}), "occ": 0, "ret": ("Option", "Decimal")}),
    ("KDecRem", "src/binops/checked_rem.rs", "checked_rem", "i64", {"as": "int_checked_rem_decimal", "macro": ("impl_checked_rem_decimal_and_int", 1, 0, {"$t": "i64"}), "occ": 1, "ret": ("Option", "Decimal")}),
    ("KAddSub", "src/binops/checked_add_sub.rs", "$method", "Decimal",
     {"as": "decimal_checked_add_int", "macro": ("impl_checked_add_sub_decimal_and_int", 1, 0, {"$t": "i64"}), "occ": 0, "ret": ("Option", "Decimal")}),
    ("KAddSub", "src/binops/checked_add_sub.rs", "$method", "i64",
     {"as": "int_checked_add_decimal", "macro": ("impl_checked_add_sub_decimal_and_int", 1, 0, {"$t": "i64"}), "occ": 1, "ret": ("Option", "Decimal")}),
    ("KAddSub", "src/binops/checked_add_sub.rs", "$method", "Decimal",
     {"as": "decimal_checked_sub_int", "macro": ("impl_checked_add_sub_decimal_and_int", 1, 1, {"$t": "i64"}), "occ": 0, "ret": ("Option", "Decimal")}),
    ("KAddSub", "src/binops/checked_add_sub.rs", "$method", "i64",
     {"as": "int_checked_sub_decimal", "macro": ("impl_checked_add_sub_decimal_and_int", 1, 1, {"$t": "i64"}), "occ": 1, "ret": ("Option", "Decimal")}),
    ("KFloat", "src/from_float.rs", "f64_decode", None),
    ("KFloat", "src/from_float.rs", "f32_decode", None),
    ("KFloat", "src/from_float.rs", "try_from", "Decimal", {"occ": 0, "as": "try_from_f32"}),
    ("KFloat", "src/from_float.rs", "try_from", "Decimal", {"occ": 1, "as": "try_from_f64"}),
    ("KWide", "fpdec-core/src/lib.rs", "u128_hi", None),
    ("KWide", "fpdec-core/src/lib.rs", "u128_lo", None),
    ("KWide", "fpdec-core/src/lib.rs", "u128_mul_u128", None),
    ("KWideDiv", "fpdec-core/src/lib.rs", "u128_msb", None),
    ("KWideDiv", "fpdec-core/src/lib.rs", "u256_idiv_u64", None),
    ("KWideDiv", "fpdec-core/src/lib.rs", "u256_idiv_u128_special", None, {"as": "u256_idiv_u128_special_k"}),
    ("KWideDiv", "fpdec-core/src/lib.rs", "u256_idiv_u128", None),
    ("KWideDiv", "fpdec-core/src/lib.rs", "i128_shifted_div_mod_floor", None, {"as": "i128_shifted_div_mod_floor_k"}),
    ("KWideDiv", "fpdec-core/src/lib.rs", "i256_div_mod_floor", None, {"as": "i256_div_mod_floor_k"}),
    ("KLog", "fpdec-core/src/lib.rs", "less_than_5", None),
    ("KLog", "fpdec-core/src/lib.rs", "u32", None),
    ("KLog", "fpdec-core/src/lib.rs", "u64", None),
    ("KLog", "fpdec-core/src/lib.rs", "u128", None),
    ("KSwar", "fpdec-core/src/parser.rs", "chunk_contains_8_digits", None),
    ("KSwar", "fpdec-core/src/parser.rs", "chunk_to_u64", None),
    ("KUnops", "src/unops.rs", "divmod", "i128"),
    ("KUnops", "src/unops.rs", "div_floor", "i128"),
    ("KUnops", "src/unops.rs", "div_ceil", "i128"),
    ("KIntOps", "src/binops/mul.rs", "mul", "Decimal",
     {"as": "decimal_mul_int", "macro": ("impl_mul_decimal_and_int", 1, None, {"$t": "i64"}), "occ": 0, "ret": "Decimal"}),
    ("KIntOps", "src/binops/mul.rs", "mul", "i64",
     {"as": "int_mul_decimal", "macro": ("impl_mul_decimal_and_int", 1, None, {"$t": "i64"}), "occ": 1, "ret": "Decimal"}),
    ("KIntOps", "src/binops/checked_mul.rs", "checked_mul", "Decimal",
     {"as": "decimal_checked_mul_int", "macro": ("impl_checked_mul_decimal_and_int", 1, None, {"$t": "i64"}), "occ": 0, "ret": ("Option", "Decimal")}),
    ("KIntOps", "src/binops/checked_mul.rs", "checked_mul", "i64",
     {"as": "int_checked_mul_decimal", "macro": ("impl_checked_mul_decimal_and_int", 1, None, {"$t": "i64"}), "occ": 1, "ret": ("Option", "Decimal")}),
    ("KIntOps", "src/binops/div.rs", "div", "Decimal",
     {"as": "decimal_div_int", "macro": ("impl_div_decimal_and_int", 1, None, {"$t": "i64"}), "occ": 0, "ret": "Decimal"}),
    ("KIntOps", "src/binops/div.rs", "div", "i64",
     {"as": "int_div_decimal", "macro": ("impl_div_decimal_and_int", 1, None, {"$t": "i64"}), "occ": 1, "ret": "Decimal"}),
    ("KIntOps", "src/binops/checked_div.rs", "checked_div", "Decimal",
     {"as": "decimal_checked_div_int", "macro": ("impl_div_decimal_and_int", 1, None, {"$t": "i64"}), "occ": 0, "ret": ("Option", "Decimal")}),
    ("KIntOps", "src/binops/checked_div.rs", "checked_div", "i64",
     {"as": "int_checked_div_decimal", "macro": ("impl_div_decimal_and_int", 1, None, {"$t": "i64"}), "occ": 1, "ret": ("Option", "Decimal")}),
    ("KIntOps", "src/binops/div_rounded.rs", "div_rounded", "Decimal",
     {"as": "decimal_div_rounded_int", "macro": ("impl_div_rounded_decimal_and_int", 1, None, {"$t": "i64"}), "occ": 0, "ret": "Decimal"}),
    ("KIntOps", "src/binops/div_rounded.rs", "div_rounded", "i64",
     {"as": "int_div_rounded_decimal", "macro": ("impl_div_rounded_decimal_and_int", 1, None, {"$t": "i64"}), "occ": 4, "ret": "Decimal"}),
    ("KIntOps", "src/binops/div_rounded.rs", "div_rounded", "i64",
     {"as": "int_div_rounded_int", "macro": ("impl_div_rounded_int_and_int", 1, None, {"$t": "i64"}), "occ": 0, "ret": "Decimal"}),
    ("KIntoFloat", "src/into_float.rs", "n_signif_bits", None),
    ("KIntoFloat", "src/into_float.rs", "from_decimal", "u64",
     {"as": "f32_from_decimal", "ret": "u64",
      "self_consts": "float:f32"}),
    ("KIntoFloat", "src/into_float.rs", "from_decimal", "u64",
     {"as": "f64_from_decimal", "ret": "u64", "self_consts": "float:f64"}),
    ("KParse", "fpdec-core/src/parser.rs", "new", "AsciiDecLit", {"as": "lit_new"}),
    ("KParse", "fpdec-core/src/parser.rs", "is_empty", "AsciiDecLit", {"as": "lit_is_empty"}),
    ("KParse", "fpdec-core/src/parser.rs", "len", "AsciiDecLit", {"as": "lit_len"}),
    ("KParse", "fpdec-core/src/parser.rs", "skip_n", "AsciiDecLit", {"as": "lit_skip_n", "ret": "()"}),
    ("KParse", "fpdec-core/src/parser.rs", "skip_1", "AsciiDecLit", {"as": "lit_skip_1", "ret": "()"}),
    ("KParse", "fpdec-core/src/parser.rs", "first", "AsciiDecLit", {"as": "lit_first"}),
    ("KParse", "fpdec-core/src/parser.rs", "first_eq", "AsciiDecLit", {"as": "lit_first_eq"}),
    ("KParse", "fpdec-core/src/parser.rs", "skip_leading_zeroes", "AsciiDecLit", {"as": "lit_skip_leading_zeroes", "ret": "()"}),
    ("KParse", "fpdec-core/src/parser.rs", "read_u64", "AsciiDecLit", {"as": "lit_read_u64"}),
    ("KParse", "fpdec-core/src/parser.rs", "accum_coeff", "AsciiDecLit", {"as": "lit_accum_coeff"}),
    ("KParse", "fpdec-core/src/parser.rs", "accum_exp", "AsciiDecLit", {"as": "lit_accum_exp"}),
    ("KParse", "fpdec-core/src/parser.rs", "str_to_dec", None, {"err": "ParseDecimalError"}),
    ("KMisc", "src/binops/cmp.rs", "cmp", "Decimal", {"as": "decimal_cmp"}),
    ("KMisc", "src/lib.rs", "default", "Decimal", {"as": "decimal_default"}),
    ("KMisc", "src/from_str.rs", "try_from", "Decimal", {"as": "decimal_try_from_str", "err": "ParseDecimalError", "occ": 0,
                                                          "ret": ("Result", "Decimal", "ParseDecimalError")}),
    ("KMisc", "src/from_str.rs", "try_from", "Decimal", {"as": "decimal_try_from_string", "err": "ParseDecimalError", "occ": 1,
                                                          "ret": ("Result", "Decimal", "ParseDecimalError")}),
    ("KMisc", "src/into_float.rs", "from", "f64", {"as": "f64_from", "occ": 0, "ret": "u64",
                                                    "rewrite": [(r"(impl From<Decimal> for f64 \{.*?)<Self as Float>::from_decimal\(d\)", r"\1f64_from_decimal(d)")]}),
    ("KMisc", "src/into_float.rs", "from", "f32", {"as": "f32_from", "occ": 1, "ret": "u64",
                                                    "rewrite": [(r"(impl From<Decimal> for f32 \{.*?)<Self as Float>::from_decimal\(d\)", r"\1f32_from_decimal(d)")]}),
    ("KNumTraits", "src/num_traits.rs", "zero", "Decimal", {"as": "nt_zero"}),
    ("KNumTraits", "src/num_traits.rs", "is_zero", "Decimal", {"as": "nt_is_zero"}),
    ("KNumTraits", "src/num_traits.rs", "one", "Decimal", {"as": "nt_one"}),
    ("KNumTraits", "src/num_traits.rs", "is_one", "Decimal", {"as": "nt_is_one"}),
    ("KNumTraits", "src/num_traits.rs", "from_str_radix", "Decimal", {"as": "nt_from_str_radix", "err": "ParseDecimalError",
                                                                     "ret": ("Result", "Decimal", "ParseDecimalError")}),
    ("KNumTraits", "src/num_traits.rs", "abs", "Decimal", {"as": "nt_abs"}),
    ("KNumTraits", "src/num_traits.rs", "abs_sub", "Decimal", {"as": "nt_abs_sub"}),
    ("KNumTraits", "src/num_traits.rs", "signum", "Decimal", {"as": "nt_signum"}),
    ("KNumTraits", "src/num_traits.rs", "is_positive", "Decimal", {"as": "nt_is_positive"}),
    ("KNumTraits", "src/num_traits.rs", "is_negative", "Decimal", {"as": "nt_is_negative"}),
    ("KQuant", "src/quantize.rs", "quantize", "Decimal", {"as": "quantize_dec_dec", "occ": 0, "generics": {"Q": "Decimal"}, "ret": "Decimal"}),
    ("KQuant", "src/quantize.rs", "quantize", "Decimal", {"as": "quantize_dec_int", "occ": 0, "generics": {"Q": "i64"}, "ret": "Decimal"}),
    ("KQuant", "src/quantize.rs", "quantize", "i64", {"as": "quantize_int_dec", "occ": 0, "generics": {"Q": "Decimal"}, "ret": "Decimal"}),
    ("KQuant", "src/quantize.rs", "quantize", "i64", {"as": "quantize_int_int", "occ": 0, "generics": {"Q": "i64"}, "ret": "Decimal"}),
    ("KFormat", "src/format.rs", "from", "String", {"as": "string_from_decimal"}),
    ("KFormat", "src/format.rs", "fmt", "Decimal", {"as": "decimal_debug_fmt", "macro": ("impl_debug", 0, 0, None), "ret": "Written"}),
    ("KFormat", "src/format.rs", "fmt", "Decimal", {"as": "decimal_display_fmt", "ret": "Written", "occ": 1}),
    ("KFromStr", "src/from_str.rs", "from_str", "Decimal", {"as": "decimal_from_str", "err": "ParseDecimalError",
                                                             "ret": ("Result", "Decimal", "ParseDecimalError")}),
    ("KFromStr", "fpdec-macros/src/lib.rs", "Dec", None, {"as": "dec_fold", "err": "ParseDecimalError", "rewrite": [
        # the proc macro seen as a function of the literal text (after `TokenStream::to_string` and the sign-blank fix-up):
        # a panic is "does not compile" = Err, the emitted `Decimal::new_raw(#coeff, #n_frac_digits)` is the Ok value
        (r"pub fn Dec\(input: TokenStream\) -> TokenStream \{", "pub fn Dec(src: &str) -> Result<(i128, u8), ParseDecimalError> {"),
        (r"let mut src = input\.to_string\(\);", ""),
        (r"if src\.starts_with\('-'\) \|\| src\.starts_with\('\+'\) \{\s*let n_ws = src\[1\.\.\]\.len\(\) - src\[1\.\.\]\.trim_start\(\)\.len\(\);\s*"
         r"src\.replace_range\(1\.\.1 \+ n_ws, \"\"\);\s*\}", ""),
        (r"Err\(e\) => panic!\(\"\{\}\", e\),", "Err(e) => Err(e),"),
        (r"panic!\(\"\{\}\", (ParseDecimalError::\w+)\);?", r"return Err(\1);"),
        (r"None => return Err\((ParseDecimalError::\w+)\);,", r"None => { return Err(\1); }"),
        (r"quote!\(\s*Decimal::new_raw\(#coeff, #n_frac_digits\)\s*\)\s*\.into\(\)", "Ok((coeff, n_frac_digits))"),
    ]}),
    ("KForward", "src/binops/mod.rs", "$method", "Decimal",
     {"as": "ref_add_val", "macro": ("forward_ref_binop", 0, None, {"$imp": "Add", "$method": "add"}), "occ": 0, "ret": "Decimal"}),
    ("KForward", "src/binops/mod.rs", "$method", "Decimal",
     {"as": "val_add_ref", "macro": ("forward_ref_binop", 0, None, {"$imp": "Add", "$method": "add"}), "occ": 1, "ret": "Decimal"}),
    ("KForward", "src/binops/mod.rs", "$method", "Decimal",
     {"as": "ref_add_ref", "macro": ("forward_ref_binop", 0, None, {"$imp": "Add", "$method": "add"}), "occ": 2, "ret": "Decimal"}),
    ("KForward", "src/binops/mod.rs", "$method", "Decimal",
     {"as": "ref_mulr_val", "macro": ("forward_ref_binop_rounded", 0, None, {"$imp": "MulRounded", "$method": "mul_rounded"}), "occ": 0}),
    ("KForward", "src/binops/mod.rs", "$method", "Decimal",
     {"as": "val_mulr_ref", "macro": ("forward_ref_binop_rounded", 0, None, {"$imp": "MulRounded", "$method": "mul_rounded"}), "occ": 1}),
    ("KForward", "src/binops/mod.rs", "$method", "Decimal",
     {"as": "ref_mulr_ref", "macro": ("forward_ref_binop_rounded", 0, None, {"$imp": "MulRounded", "$method": "mul_rounded"}), "occ": 2}),
    ("KForward", "src/binops/mod.rs", "$method", "Decimal",
     {"as": "ref_add_int", "macro": ("forward_ref_binop_decimal_int", 1, None, {"$imp": "Add", "$method": "add", "$t": "i64"}), "occ": 0, "ret": "Decimal"}),
    ("KForward", "src/binops/mod.rs", "$method", "Decimal",
     {"as": "val_add_refint", "macro": ("forward_ref_binop_decimal_int", 1, None, {"$imp": "Add", "$method": "add", "$t": "i64"}), "occ": 1, "ret": "Decimal"}),
    ("KForward", "src/binops/mod.rs", "$method", "Decimal",
     {"as": "ref_add_refint", "macro": ("forward_ref_binop_decimal_int", 1, None, {"$imp": "Add", "$method": "add", "$t": "i64"}), "occ": 2, "ret": "Decimal"}),
    ("KForward", "src/binops/mod.rs", "$method", "i64",
     {"as": "refint_add_val", "macro": ("forward_ref_binop_decimal_int", 1, None, {"$imp": "Add", "$method": "add", "$t": "i64"}), "occ": 3, "ret": "Decimal"}),
    ("KForward", "src/binops/mod.rs", "$method", "i64",
     {"as": "int_add_ref", "macro": ("forward_ref_binop_decimal_int", 1, None, {"$imp": "Add", "$method": "add", "$t": "i64"}), "occ": 4, "ret": "Decimal"}),
    ("KForward", "src/binops/mod.rs", "$method", "i64",
     {"as": "refint_add_ref", "macro": ("forward_ref_binop_decimal_int", 1, None, {"$imp": "Add", "$method": "add", "$t": "i64"}), "occ": 5, "ret": "Decimal"}),
    ("KForward", "src/binops/mod.rs", "$method", "Decimal",
     {"as": "add_assign", "macro": ("forward_op_assign", 0, None, {"$imp": "AddAssign", "$method": "add_assign", "$base_imp": "Add", "$base_method": "add", "T": "Decimal"}), "occ": 0}),
    ("KRkyv", "src/binops/cmp.rs", "eq", "Decimal", {"as": "archived_eq_archived", "macro": ("impl_partial_eq", 0, 1, None), "generics": {"ArchivedDecimal": "Decimal"}}),
    ("KRkyv", "src/binops/cmp.rs", "eq", "Decimal", {"as": "archived_eq_decimal", "macro": ("impl_partial_eq", 0, 2, None), "generics": {"ArchivedDecimal": "Decimal"}}),
    ("KRkyv", "src/binops/cmp.rs", "eq", "Decimal", {"as": "decimal_eq_archived", "occ": 1, "generics": {"ArchivedDecimal": "Decimal"}, "methods": {"eq": ("archived_eq_decimal", "bool")}}),
    ("KRkyv", "src/binops/cmp.rs", "partial_cmp", "Decimal", {"as": "archived_cmp_archived", "macro": ("impl_partial_ord", 0, 1, None), "generics": {"ArchivedDecimal": "Decimal"}}),
    ("KRkyv", "src/binops/cmp.rs", "partial_cmp", "Decimal", {"as": "archived_cmp_decimal", "macro": ("impl_partial_ord", 0, 2, None), "generics": {"ArchivedDecimal": "Decimal"}}),
    ("KRkyv", "src/binops/cmp.rs", "partial_cmp", "Decimal", {"as": "decimal_cmp_archived", "occ": 1, "generics": {"ArchivedDecimal": "Decimal"}, "methods": {"partial_cmp": ("archived_cmp_decimal", ("Option", "Ordering"))}}),
    ("KRkyv", "src/binops/cmp.rs", "cmp", "Decimal", {"as": "archived_ord_cmp", "occ": 1, "methods": {"partial_cmp": ("archived_cmp_archived", ("Option", "Ordering"))}}),
    ("KRkyv", "src/binops/cmp.rs", "eq_zero", "Decimal", {"macro": ("impl_basics", 0, 1, None), "as": "archived_eq_zero"}),
    ("KRkyv", "src/binops/cmp.rs", "eq_one", "Decimal", {"macro": ("impl_basics", 0, 1, None), "as": "archived_eq_one"}),
    ("KRkyv", "src/binops/cmp.rs", "is_negative", "Decimal", {"macro": ("impl_basics", 0, 1, None), "as": "archived_is_negative"}),
    ("KRkyv", "src/binops/cmp.rs", "is_positive", "Decimal", {"macro": ("impl_basics", 0, 1, None), "as": "archived_is_positive"}),
    ("KRkyv", "src/lib.rs", "coefficient", "Decimal", {"as": "decimal_coefficient", "occ": 0}),
    ("KRkyv", "src/lib.rs", "n_frac_digits", "Decimal", {"as": "decimal_n_frac_digits", "occ": 0}),
    ("KRkyv", "src/lib.rs", "coefficient", "Decimal", {"as": "archived_coefficient", "occ": 1}),
    ("KRkyv", "src/lib.rs", "n_frac_digits", "Decimal", {"as": "archived_n_frac_digits", "occ": 1}),
    # `Archive::resolve` (features rkyv + packed) writes the two fields through raw pointers into the output place; read as the
    # function "which ArchivedDecimal is written": the two written expressions are kept, everything else must match literally
    ("KRkyv", "src/lib.rs", "resolve", "Decimal", {"as": "decimal_resolve", "rewrite": [
        (r"unsafe fn resolve\(\s*&self,\s*_: usize,\s*_: Self::Resolver,\s*out: \*mut Self::Archived,?\s*\) \{\s*"
         r"core::ptr::addr_of_mut!\(\(\*out\)\.coeff\)\s*\.write_unaligned\(([^;]*?)\);\s*"
         r"core::ptr::addr_of_mut!\(\(\*out\)\.n_frac_digits\)\s*\.write_unaligned\(([^;]*?)\);\s*\}",
         r"fn resolve(&self) -> Decimal { Decimal { coeff: \1, n_frac_digits: \2 } }")]}),
    ("KRkyv", "src/lib.rs", "serialize", "Decimal", {"as": "decimal_serialize", "ret": ("Result", "()", "DecimalError"), "rewrite": [
        (r"fn serialize\(&self, _: &mut S\) -> Result<Self::Resolver, S::Error>", "fn serialize(&self) -> Result<(), DecimalError>")]}),
    ("KRkyv", "src/lib.rs", "deserialize", "Decimal", {"as": "archived_deserialize", "ret": ("Result", "Decimal", "DecimalError"), "rewrite": [
        (r"fn deserialize\(&self, _: &mut D\) -> Result<Decimal, D::Error>", "fn deserialize(&self) -> Result<Decimal, DecimalError>")]}),
    # `impl Hash`: read as the function "what is fed to the Hasher"; `(a, b).hash(state)` of a pair of i128 is `write_i128(a)`
    # followed by `write_i128(b)` (std's impls for tuples and integers), the primitive `Rt.hashFeedPair`
    ("KHash", "src/lib.rs", "hash", "Decimal", {"as": "decimal_hash", "methods": {"as_integer_ratio": ("decimal_as_integer_ratio", ("tuple", ["i128", "i128"]))}, "rewrite": [
        (r"fn hash<H: Hasher>\(&self, state: &mut H\) \{\s*([^;]*?)\.hash\(state\);\s*\}", r"fn hash(&self) -> HashFeed { hash_feed_pair(\1) }")]}),
    # the reference forms of `div_rounded` with an integer operand (hand-written forwarders inside the two macros of div_rounded.rs)
    ("KForward2", "src/binops/div_rounded.rs", "div_rounded", "Decimal",
     {"as": "refdec_divr_int", "macro": ("impl_div_rounded_decimal_and_int", 1, None, {"$t": "i64"}), "occ": 1, "ret": "Decimal"}),
    ("KForward2", "src/binops/div_rounded.rs", "div_rounded", "Decimal",
     {"as": "dec_divr_refint", "macro": ("impl_div_rounded_decimal_and_int", 1, None, {"$t": "i64"}), "occ": 2, "ret": "Decimal"}),
    ("KForward2", "src/binops/div_rounded.rs", "div_rounded", "Decimal",
     {"as": "refdec_divr_refint", "macro": ("impl_div_rounded_decimal_and_int", 1, None, {"$t": "i64"}), "occ": 3, "ret": "Decimal"}),
    ("KForward2", "src/binops/div_rounded.rs", "div_rounded", "i64",
     {"as": "refint_divr_dec", "macro": ("impl_div_rounded_decimal_and_int", 1, None, {"$t": "i64"}), "occ": 5, "ret": "Decimal"}),
    ("KForward2", "src/binops/div_rounded.rs", "div_rounded", "i64",
     {"as": "int_divr_refdec", "macro": ("impl_div_rounded_decimal_and_int", 1, None, {"$t": "i64"}), "occ": 6, "ret": "Decimal"}),
    ("KForward2", "src/binops/div_rounded.rs", "div_rounded", "i64",
     {"as": "refint_divr_refdec", "macro": ("impl_div_rounded_decimal_and_int", 1, None, {"$t": "i64"}), "occ": 7, "ret": "Decimal"}),
    ("KForward2", "src/binops/div_rounded.rs", "div_rounded", "i64",
     {"as": "refint_divr_int", "macro": ("impl_div_rounded_int_and_int", 1, None, {"$t": "i64"}), "occ": 1, "ret": "Decimal"}),
    ("KForward2", "src/binops/div_rounded.rs", "div_rounded", "i64",
     {"as": "int_divr_refint", "macro": ("impl_div_rounded_int_and_int", 1, None, {"$t": "i64"}), "occ": 2, "ret": "Decimal"}),
    ("KForward2", "src/binops/div_rounded.rs", "div_rounded", "i64",
     {"as": "refint_divr_refint", "macro": ("impl_div_rounded_int_and_int", 1, None, {"$t": "i64"}), "occ": 3, "ret": "Decimal"}),
    # `int == Decimal` forwards to `Decimal == int` with the operands exchanged
    ("KForward2", "src/binops/cmp.rs", "eq", "i64", {"as": "sint_eq_decimal", "macro": ("impl_int_eq_decimal", 1, None, {"$t": "i64"})}),
]

# functions that generated code may call but that are modelled by hand: params, return type, Lean head (with its fixed arguments)
EXTERNAL = {
    # name: (params, return type, Lean head, monadic?)
    "i128_shifted_div_mod_floor": ([("x", "i128"), ("p", "u8"), ("y", "i128")], ("Option", ("tuple", ["i128", "i128"])),
                                   "Model.i128ShiftedDivModFloor prof", True),
    "i256_div_mod_floor": ([("x1", "i128"), ("x2", "i128"), ("y", "i128")], ("Option", ("tuple", ["i128", "i128"])),
                           "Model.i256DivModFloor prof", True),
    "i128_magnitude": ([("i", "i128")], "u8", "Model.i128Magnitude", False),
    "hash_feed_pair": ([("p", ("tuple", ["i128", "i128"]))], "HashFeed", "Rt.hashFeedPair", False),
    # `u64::from_le(ptr::read_unaligned(bytes.as_ptr() as *const u64))`: the little-endian value of the first eight bytes (its
    # debug assertion `len >= 8` and its pointer read are dominated by the length test in `read_u64`, the only caller)
    "lit_read_u64_unchecked": ([("self", "AsciiDecLit")], "u64", "Rt.readU64LE", False),
    "str_to_dec": ([("lit", "str")], ("Result", ("tuple", ["i128", "isize"]), "ParseDecimalError"), "Model.strToDec prof", True),
    "u256_idiv_u128_special": ([("xh", "u128"), ("xl", "u128"), ("y", "u128")], ("tuple", ["u128", "u128", "u128"]),
                               "Model.u256IdivU128Special prof", True),
}
# named constants the kernels refer to: (type, value placeholder, Lean name in Gen/Consts.lean — regenerated by fpextract.py)
GLOBAL_CONSTS = {
    "*": {"MAX_N_FRAC_DIGITS": ("u8", None, "MAX_N_FRAC_DIGITS")},
    "src/from_float.rs": {"MAGN_I128_MAX": ("u8", None, "FROM_FLT_MAGN_I128_MAX")},
}
# constant tables (element type, Lean name — generated by tools/fpextract.py from the same source)
ARRAYS = {"POWERS_OF_10": ("i128", "Gen.POWERS_OF_10"), "IDX_MAP": ("u8", "Gen.MSB_IDX_MAP"),
          "MASK_EXTRA_BITS": ("u128", "Gen.FLT_MASK_EXTRA_BITS")}
TM_NEEDED = {}


# `Trait::method(a, b)` on Decimal / integer operands: which translated kernel implements it
TRAIT_CALLS = {
    ("Add", "add"): {("d", "d"): "decimal_add", ("d", "i"): "decimal_add_int", ("i", "d"): "int_add_decimal"},
    ("Sub", "sub"): {("d", "d"): "decimal_sub", ("d", "i"): "decimal_sub_int", ("i", "d"): "int_sub_decimal"},
    ("Mul", "mul"): {("d", "d"): "decimal_mul", ("d", "i"): "decimal_mul_int", ("i", "d"): "int_mul_decimal"},
    ("Div", "div"): {("d", "d"): "decimal_div"},
    ("Rem", "rem"): {("d", "d"): "decimal_rem"},
    ("PartialEq", "eq"): {("d", "d"): "decimal_eq", ("d", "i"): "decimal_eq_sint"},
    ("MulRounded", "mul_rounded"): {("d", "d"): "decimal_mul_rounded"},
    ("DivRounded", "div_rounded"): {("d", "d"): "decimal_div_rounded", ("d", "i"): "decimal_div_rounded_int",
                                    ("i", "d"): "int_div_rounded_decimal", ("i", "i"): "int_div_rounded_int"},
}
ERR_TYPE = ["DecimalError"]      # what `Self::Error` stands for in the function being parsed


STD_FLOAT_CONSTS = {"f64": {"MANTISSA_DIGITS": 53, "MAX_EXP": 1024, "BITS": 64}, "f32": {"MANTISSA_DIGITS": 24, "MAX_EXP": 128, "BITS": 32}}


def float_self_consts(src, ty):
    """the associated constants of `impl Float for <ty>` (src/into_float.rs), evaluated from the source text with std's values of
    `MANTISSA_DIGITS` / `MAX_EXP`, and the width `from_bits` truncates the pattern to (`bits as u32` for f32)"""
    src = re.sub(r"//[^\n]*", "", src)
    m = re.search(r"impl Float for " + ty + r" \{(.*?)\n\}", src, re.S)
    if not m:
        raise KeyError("impl Float for " + ty)
    body = m.group(1)
    out = {"BITS": ("u32", STD_FLOAT_CONSTS[ty]["BITS"])}
    for name, cty, expr in re.findall(r"const (\w+): (\w+) = ([^;]+);", body):
        mm = re.fullmatch(r"\s*Self::(\w+)\s*(?:([+-])\s*(\d+))?\s*", expr)
        if not mm or mm.group(1) not in STD_FLOAT_CONSTS[ty]:
            raise SyntaxError(f"constant expression of {ty}::{name}: {expr.strip()}")
        v = STD_FLOAT_CONSTS[ty][mm.group(1)]
        if mm.group(2):
            v = v + int(mm.group(3)) if mm.group(2) == "+" else v - int(mm.group(3))
        out[name] = (cty, v)
    fb = re.search(r"fn from_bits\(bits: u64\) -> Self \{\s*Self::from_bits\(bits(?: as (u\d+))?\)\s*\}", body)
    if not fb:
        raise SyntaxError(f"from_bits of {ty}")
    if fb.group(1):
        out["__from_bits_width__"] = ("u32", int(fb.group(1)[1:]))
    for need in ("FRACTION_BITS", "EXP_BIAS"):
        if need not in out:
            raise KeyError(f"{ty}::{need}")
    return out


def translate(repo):
    """returns {group: lean text}"""
    repo = Path(repo)
    srcs, sigs, parsed = {}, {}, {}

    def sub(t, selfty):
        if t == "Self":
            return selfty
        if t == "Error":
            return ERR_TYPE[0]
        if t == "Output":
            return selfty
        if isinstance(t, tuple) and t[0] == "tuple":
            return ("tuple", [sub(x, selfty) for x in t[1]])
        if isinstance(t, tuple):
            return (t[0], *[sub(x, selfty) for x in t[1:]])
        return t
    failed = {}
    entries = []
    for ent in KERNELS:
        g, f, fname, selfty = ent[:4]
        opts = ent[4] if len(ent) > 4 else {}
        entries.append((g, f, fname, selfty, opts, opts.get("as", fname)))
    for g, f, fname, selfty, opts, name in entries:
        try:
            if f not in srcs:
                srcs[f] = (repo / f).read_text()
            text = srcs[f]
            for pat_, rep_ in opts.get("rewrite", []):
                text, n_sub = re.subn(pat_, rep_, text, flags=re.S)
                if n_sub == 0:
                    raise SyntaxError(f"source rewrite did not apply: {pat_[:40]}")
            if "macro" in opts:
                mname, marm, minv, mextra = opts["macro"]
                text = macro_expand(text, mname, marm, minv, mextra)
                if fname.startswith("$"):
                    clean = re.sub(r"//[^\n]*", "", srcs[f])
                    binds = dict(mextra or {})
                    if minv is not None:
                        arms_, span_ = macro_arms(clean, mname)
                        binds = {**macro_bind(arms_[0][0], macro_invocation(clean, mname, minv, span_)), **binds}
                    fname = binds[fname]
            params, ret, body = parse_fn(text, fname, opts.get("occ", 0), name)
            ERR_TYPE[0] = opts.get("err", "DecimalError")
            gen_ = opts.get("generics", {})
            params = [(n, gen_.get(sub(t, selfty), sub(t, selfty))) for n, t in params]
            if "cell" in opts:
                # the function accesses the thread-local cell: it becomes an explicit first parameter (and, when written, a result)
                params = [("cell", "RoundingMode")] + params
                if opts["cell"] == "rw":
                    MUT_PARAMS.setdefault(name, []).append("cell")
            ret = opts["ret"] if "ret" in opts else sub(ret, selfty)
            parsed[name] = (params, ret, body, selfty)
            sigs[name] = (params, ret, None)
            if ret == "()":
                UNIT_RET.add(name)
        except Exception as e:                      # noqa: BLE001 — any failure becomes a stub whose tie cannot be proved
            failed[name] = f"{type(e).__name__}: {e}"
    groups = {}

    def header(g):
        return groups.setdefault(g, [
            "import Fpdec.Gen.Rt"] + [f"import {m}" for m in GROUP_IMPORTS.get(g, [])] + ["",
            f"/-! GENERATED by tools/fpkernels.py from /repo — do not edit.  Mechanical translation of Rust kernels (group {g}). -/",
            "", "namespace Fpdec.Gen.K", "open Fpdec", ""])
    for g, f, fname, selfty, opts, name in entries:
        out = header(g)
        lines = None
        if name not in failed:
            try:
                params, ret, body, _ = parsed[name]
                mp = MUT_PARAMS.get(name, [])
                eff_ret = ret
                kfin = None
                if mp:
                    mtys = [t for n_, t in params if n_ in mp]
                    eff_ret = ("tuple", mtys + ([ret] if ret != "()" else []))
                    if len(eff_ret[1]) == 1:
                        eff_ret = eff_ret[1][0]
                    if ret == "()":
                        kfin = (lambda i, mp=mp: "  " * i + "pure ((" + ", ".join(mp) + "))\n")
                vis = {k: v for k, v in sigs.items() if k not in CALL_SCOPE or g in CALL_SCOPE[k]}
                em = Emit(name, params, eff_ret, vis, {**GLOBAL_CONSTS["*"], **GLOBAL_CONSTS.get(f, {})}, selfty)
                sc = opts.get("self_consts", {})
                if isinstance(sc, str) and sc.startswith("float:"):
                    sc = float_self_consts(srcs[f], sc[6:])
                em.self_consts = sc
                em.method_override = opts.get("methods", {})
                em.decl_ret = ret
                if kfin is not None and body[2] is not None and body[2][0] in ("path", "method", "call"):
                    body = ("block", Emit.as_stmts(body), None)      # no value: the tail expression is evaluated for its effects
                term = em.block_term(body, 1, kfin)
                ret = eff_ret
                sigs[name] = (params, eff_ret, None)
                ps = " ".join(f"({n} : {lean_ty(t)})" for n, t in params)
                tmarg = "(tm : Mode) " if em.needs_tm else ""
                TM_NEEDED[name] = em.needs_tm
                lines = list(getattr(em, "aux", [])) + [f"/-- {f}: `fn {fname}`" + (f" (occurrence {opts['occ'] + 1} in the file)" if "occ" in opts else "") + " -/",
                         f"def {name} (prof : Profile) {tmarg}{ps} : Outcome {lean_ty(ret)} := do",
                         term.rstrip("\n"), ""]
            except Exception as e:                  # noqa: BLE001
                failed[name] = f"{type(e).__name__}: {e}"
                if os.environ.get("FPK_DEBUG"):
                    import traceback; traceback.print_exc()
        if lines is None:
            # outside the translated subset: a stub of the wrong type, so that the tie theorem of this kernel fails to check
            why = failed[name].replace("-/", "- /")
            lines = [f"/-- {f}: `fn {name}` — NOT TRANSLATABLE ({why}) -/", f"def {name} : Unit := ()", ""]
            print(f"fpkernels: {name}: outside the translated subset: {failed[name]}", file=sys.stderr)
        out += lines
    return {g: "\n".join(o + ["end Fpdec.Gen.K"]) + "\n" for g, o in groups.items()}


def main():
    repo, outdir = sys.argv[1], Path(sys.argv[2])
    texts = translate(repo)
    ch = []
    for g, txt in texts.items():
        outp = outdir / f"{g}.lean"
        if not outp.exists() or outp.read_text() != txt:
            outp.write_text(txt)
            ch.append(g)
    print("fpkernels: updated " + ", ".join(ch) if ch else "fpkernels: unchanged")


if __name__ == "__main__":
    main()
