#!/bin/sh
# usage: seedverify.sh Cnn  — verify both seeded changes of one property in its scratch worktree /tmp/mut/Cnn
P=$1
B=${MUTBASE:-/tmp/mut}
W=$B/$P
export CARGO_NET_OFFLINE=true
for k in m1 m2; do
  D=$B/$P.out/$k
  [ -f $D/patch.diff ] || { echo "$P $k: no patch"; continue; }
  cd $W && git checkout -q -- . && git clean -fdq -e target
  # demo on the clean tree
  cp $D/demo.rs tests/demo_$k.rs
  # profile / feature flags exactly as the recorded demo command has them
  extra=$(python3 -c "import json,re,sys; c=json.load(open(sys.argv[1])).get('demo_cmd',''); print(' '.join(re.findall(r'--release|--features [\\w,-]+', c)))" $D/meta.json)
  cargo test --offline $extra --test demo_$k >$B/$P.out/$k/clean.log 2>&1; c0=$?
  git apply $D/patch.diff || { echo "$P $k: patch does not apply"; rm -f tests/demo_$k.rs; continue; }
  cargo test --offline $extra --test demo_$k >$B/$P.out/$k/mut.log 2>&1; c1=$?
  rm -f tests/demo_$k.rs
  cargo test --workspace --no-fail-fast --offline >$B/$P.out/$k/suite.log 2>&1; c2=$?
  np=$(grep -E "^test result: ok" $B/$P.out/$k/suite.log | awk '{s+=$4} END {print s}')
  echo "$P $k: demo_clean_rc=$c0 demo_mut_rc=$c1 suite_rc=$c2 suite_passed=$np release=$extra"
  git checkout -q -- . && git clean -fdq -e target
done
