#!/bin/sh
# Run the registered checks against every seeded change (seeded/<id>/patch.diff).
# usage: tools/seedrun.sh [repo] [ids…]   — repo defaults to $VP_RUN_REPO or /repo; the patch is applied, the checks of the
# broken property (+ C20 for profile-related ones) run in quick tier, and the patch is reverted straight afterwards.
cd "$(dirname "$0")/.." || exit 2
REPO=${1:-${VP_RUN_REPO:-/repo}}
[ $# -gt 0 ] && shift
export FPDEC_REPO=$REPO
# evidence of runs on a modified tree goes next to their logs, never into the committed evidence/
export VERIF_EVIDENCE_DIR=$(pwd)/seedresults/evidence
mkdir -p seedresults
IDS=${*:-$(ls seeded)}
[ -x lean/.lake/build/bin/fpmodel ] || ./setup.sh > seedresults/setup.log 2>&1
for id in $IDS; do
  prop=${id%%-*}
  git -C "$REPO" checkout -q -- . 2>/dev/null
  if ! git -C "$REPO" apply "$(pwd)/seeded/$id/patch.diff"; then echo "$id: patch does not apply" | tee seedresults/$id.txt; continue; fi
  ./check $prop quick > seedresults/$id.log 2>&1; rc=$?
  v=$(grep -c '^VIOLATION' seedresults/$id.log)
  nf=$(grep -c 'no-failing-input-found' seedresults/$id.log)
  echo "$id: check=$prop rc=$rc violation_lines=$v no_failing_input=$nf $(grep -E '^\[done\]' seedresults/$id.log)" | tee seedresults/$id.txt
  git -C "$REPO" checkout -q -- .
done
# leave the Gen files of the unchanged tree behind
python3 tools/fpextract.py "$REPO" lean/Fpdec/Gen/Consts.lean >/dev/null; python3 tools/fpsites.py "$REPO" lean/Fpdec/Gen/Sites.lean >/dev/null; python3 tools/fpkernels.py "$REPO" lean/Fpdec/Gen >/dev/null
ls seedresults/*.txt | grep -v SUMMARY | xargs cat > seedresults/SUMMARY.tmp; mv seedresults/SUMMARY.tmp seedresults/SUMMARY.txt
