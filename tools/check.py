#!/usr/bin/env python3
"""Orchestrator: ./check <Cnn> quick|thorough   |   ./check <Cnn> --replay <file>

For one property:
  1. re-extract Gen/*.lean from /repo's working tree (translator tie),
  2. lake build the property's theorem module + the model driver; audit axioms,
  3. rebuild the Rust driver `fpdrv` against /repo's working tree,
  4. generate vectors (corpus first), run implementation and model, compare
        impl vs model  (correspondence tie)   and   impl vs spec  (the property itself),
  5. decide, write evidence/<id>.json, print VIOLATION / KNOWN-FINDING lines.
Exit 0: property held on everything explored and all proof obligations checked; exit 1 otherwise.
"""
import hashlib
import json
import os
import re
import shutil
import subprocess
import sys
import time
from pathlib import Path

ROOT = Path(__file__).resolve().parent.parent
REPO = Path(os.environ.get("FPDEC_REPO", "/repo"))
LEAN = ROOT / "lean"
HARNESS = ROOT / "harness"
WORK = ROOT / "work"
sys.path.insert(0, str(ROOT / "tools"))
import gen  # noqa: E402

ALLOWED_AXIOMS = {"propext", "Classical.choice", "Quot.sound"}
ENV = dict(os.environ, CARGO_NET_OFFLINE="true", CARGO_TERM_COLOR="never")

# --------------------------------------------------------------------------- configuration per property
P = {
    "C01": dict(n=(20000, 400000), profiles=(["dev"], ["dev", "release"])),
    "C02": dict(n=(20000, 400000), profiles=(["dev"], ["dev", "release"])),
    "C03": dict(n=(20000, 400000), profiles=(["dev"], ["dev", "release"])),
    "C04": dict(n=(30000, 500000), profiles=(["dev"], ["dev", "release"])),
    "C05": dict(n=(20000, 400000), profiles=(["dev"], ["dev", "release"])),
    "C06": dict(n=(40000, 1000000), profiles=(["dev"], ["dev", "release"])),
    "C07": dict(n=(20000, 300000), profiles=(["dev"], ["dev"]), feature_runs=(["serde-as-str"], ["serde-as-str"])),
    "C08": dict(n=(30000, 400000), profiles=(["dev"], ["dev"]), feature_runs=(["rkyv"], ["rkyv", "rkyv,packed"])),
    "C09": dict(n=(20000, 300000), profiles=(["dev"], ["dev"])),
    "C10": dict(n=(20000, 400000), profiles=(["dev"], ["dev", "release"])),
    "C11": dict(n=(30000, 500000), profiles=(["dev"], ["dev"])),
    "C12": dict(n=(30000, 1000000), profiles=(["dev"], ["dev", "release"])),
    "C13": dict(n=(30000, 1000000), profiles=(["dev"], ["dev", "release"])),
    "C14": dict(n=(20000, 200000), profiles=(["dev"], ["dev"])),
    "C15": dict(n=(20000, 200000), profiles=(["dev"], ["dev"]), feature_runs=(["num-traits"], ["num-traits"])),
    "C16": dict(n=(40000, 1000000), profiles=(["dev"], ["dev", "release"])),
    "C17": dict(n=(20000, 300000), profiles=(["dev"], ["dev"])),
    "C18": dict(n=(600, 6000), profiles=(["dev"], ["dev"])),
    "C19": dict(n=(2000, 50000), profiles=(["dev"], ["dev", "release"])),
    "C20": dict(n=(30000, 300000), profiles=(["dev", "release"],
                                             ["dev", "release", "oc1da0o0", "oc0da1o0", "oc1da0o3", "oc0da1o3", "oc1da1o3", "oc0da0o0"]),
                feature_runs=([], ["packed"])),
}

PROFILE_FLAGS = {
    # name: (cargo args, RUSTFLAGS, model profile argument)
    "dev": ([], "", "oc=1,da=1"),
    "release": (["--release"], "", "oc=0,da=0"),
    "oc1da0o0": ([], "-C overflow-checks=on -C debug-assertions=off", "oc=1,da=0"),
    "oc0da1o0": ([], "-C overflow-checks=off -C debug-assertions=on", "oc=0,da=1"),
    "oc0da0o0": ([], "-C overflow-checks=off -C debug-assertions=off", "oc=0,da=0"),
    "oc1da0o3": (["--release"], "-C overflow-checks=on -C debug-assertions=off", "oc=1,da=0"),
    "oc0da1o3": (["--release"], "-C overflow-checks=off -C debug-assertions=on", "oc=0,da=1"),
    "oc1da1o3": (["--release"], "-C overflow-checks=on -C debug-assertions=on", "oc=1,da=1"),
}


def sh(cmd, cwd=None, env=None, timeout=None, stdin=None, stdout=None):
    return subprocess.run(cmd, cwd=cwd, env=env or ENV, timeout=timeout, stdin=stdin, stdout=stdout,
                          stderr=subprocess.STDOUT if stdout is None else subprocess.PIPE, text=True,
                          **({} if stdout is not None else {"capture_output": False, "stdout": subprocess.PIPE}))


def fresh_target(tdir, release, features, env, cwd=None):
    """cargo decides by modification times whether the path dependency /repo has to be rebuilt; a tree whose *content* differs from
    what the artifacts in this target directory were built from (restored copy, checkout with odd timestamps, artifacts carried
    over from elsewhere) must never be served from a stale build: a content hash per target directory, `cargo clean -p` on change.
    Returns (stamp file, digest) — the caller writes the stamp after a successful build."""
    h = hashlib.sha256()
    for f in sorted(list(REPO.glob("src/**/*.rs")) + list(REPO.glob("fpdec-core/src/**/*.rs")) + list(REPO.glob("fpdec-macros/src/**/*.rs"))
                    + list(REPO.glob("**/Cargo.toml")) + [HARNESS / "src/main.rs", HARNESS / "src/fmtgen.rs"]):
        if "/target" in str(f):
            continue
        h.update(str(f).encode()); h.update(f.read_bytes())
    stamp = tdir / f".verif-src-{'release' if release else 'debug'}-{features.replace(',', '+') or 'default'}.sha256"
    if tdir.exists() and (not stamp.exists() or stamp.read_text() != h.hexdigest()):
        subprocess.run(["cargo", "clean", "--offline", "--target-dir", str(tdir), "-p", "fpdec", "-p", "fpdec-core", "-p", "fpdec-macros"]
                       + (["--release"] if release else []), cwd=cwd or HARNESS, capture_output=True, text=True, env=env)
    return stamp, h.hexdigest()


class Run:
    def __init__(self, prop, tier, seed):
        self.prop, self.tier, self.seed = prop, tier, seed
        self.t0 = time.time()
        self.log = []
        self.violations = []       # (kind, request, impl, expected, profile)
        self.known_hits = {}
        self.broken_obligations = []   # names / descriptions of proof obligations or ties that no longer check
        self.theorems = []
        self.evals = 0
        self.nontrivial = set()
        self.sig_hist = {}
        self.samples = []
        self.profiles_run = []
        self.features_run = []
        self.assumptions = []
        self.extra = {}
        WORK.mkdir(exist_ok=True)
        self.wd = WORK / prop
        self.wd.mkdir(exist_ok=True)

    def say(self, *a):
        msg = " ".join(str(x) for x in a)
        self.log.append(msg)
        print(msg, flush=True)

    # ------------------------------------------------------------------ 1. translator
    def extract(self):
        out = LEAN / "Fpdec/Gen/Consts.lean"
        r = subprocess.run([sys.executable, str(ROOT / "tools/fpextract.py"), str(REPO), str(out)],
                           capture_output=True, text=True)
        self.say("[extract]", (r.stdout + r.stderr).strip())
        if r.returncode != 0:
            self.broken_obligations.append("translator: " + r.stderr.strip())
            # keep the last generated file so that the search can still run
        r2 = subprocess.run([sys.executable, str(ROOT / "tools/fpsites.py"), str(REPO), str(LEAN / "Fpdec/Gen/Sites.lean")],
                            capture_output=True, text=True)
        self.say("[sites]", (r2.stdout + r2.stderr).strip())
        if r2.returncode != 0:
            self.broken_obligations.append("translator(sites): " + r2.stderr.strip())
        # expression-level translation of the arithmetic kernels (a kernel outside the translated subset becomes a stub whose
        # tie theorem fails, so the failure surfaces as a broken proof obligation of the properties that use the kernel)
        r3 = subprocess.run([sys.executable, str(ROOT / "tools/fpkernels.py"), str(REPO), str(LEAN / "Fpdec/Gen")],
                            capture_output=True, text=True)
        self.say("[kernels]", (r3.stdout + r3.stderr).strip())
        if r3.returncode != 0:
            self.broken_obligations.append("translator(kernels): " + r3.stderr.strip()[-400:])

    # ------------------------------------------------------------------ 2. proofs
    def lean_build(self):
        mod = f"Fpdec.Props.{self.prop}"
        t = time.time()
        r = subprocess.run(["lake", "build", mod, "fpmodel"], cwd=LEAN, capture_output=True, text=True, env=ENV)
        out = r.stdout + r.stderr
        (self.wd / "lake.log").write_text(out)
        self.say(f"[lake] build {mod} fpmodel rc={r.returncode} ({time.time() - t:.1f}s)")
        if r.returncode != 0:
            errs = re.findall(r"error: ([^\n]*)", out)
            bad_mods = re.findall(r"✖ \[\d+/\d+\] Building (\S+)", out)
            self.broken_obligations.append(f"lake build {mod}: modules {bad_mods}: " + "; ".join(errs[:6]))
            self.model_ok = (LEAN / ".lake/build/bin/fpmodel").exists() and "Main" not in bad_mods and not any(
                m.startswith("Fpdec.Model") or m.startswith("Fpdec.Spec") or m.startswith("Fpdec.Gen") for m in bad_mods)
            if not self.model_ok:
                # rebuild the driver alone to see whether the model itself still compiles
                r3 = subprocess.run(["lake", "build", "fpmodel"], cwd=LEAN, capture_output=True, text=True, env=ENV)
                self.model_ok = r3.returncode == 0
            return False
        self.model_ok = True
        return True

    def audit(self):
        """#print axioms for every theorem of the property's namespace; grep for forbidden constructs"""
        mod = f"Fpdec.Props.{self.prop}"
        src = f"""import Lean
import {mod}
open Lean Elab Command in
#eval show CommandElabM Unit from do
  let env ← getEnv
  let ns := `Fpdec.Props.{self.prop}
  for (n, ci) in env.constants.toList do
    if ns.isPrefixOf n && !n.isInternal then
      match ci with
      | .thmInfo _ =>
        let ax ← liftCoreM (collectAxioms n)
        IO.println s!"THEOREM {{n}} {{ax.toList}}"
      | _ => pure ()
"""
        f = self.wd / "audit.lean"
        f.write_text(src)
        r = subprocess.run(["lake", "env", "lean", str(f)], cwd=LEAN, capture_output=True, text=True, env=ENV)
        out = r.stdout + r.stderr
        thms = re.findall(r"THEOREM (\S+) \[(.*?)\]", out)
        if r.returncode != 0 or not thms:
            self.broken_obligations.append("axiom audit failed: " + out[:300])
            return
        bad = []
        for name, axs in thms:
            axl = [a.strip() for a in axs.split(",") if a.strip()]
            extra = [a for a in axl if a not in ALLOWED_AXIOMS]
            self.theorems.append({"name": name, "axioms": axl})
            if extra:
                bad.append(f"{name} uses {extra}")
        if bad:
            self.broken_obligations.append("axioms outside the allow-list: " + "; ".join(bad))
        # textual audit of the whole Lean tree
        forbidden = re.compile(r"\b(sorry|admit|native_decide|implemented_by|bv_decide)\b|^\s*axiom\s|^\s*unsafe\s|maxHeartbeats 0", re.M)
        hits = []
        for p in list((LEAN / "Fpdec").rglob("*.lean")):
            txt = re.sub(r"/-.*?-/", "", p.read_text(), flags=re.S)
            txt = re.sub(r"--[^\n]*", "", txt)
            for m in forbidden.finditer(txt):
                hits.append(f"{p.relative_to(LEAN)}: {m.group(0).strip()}")
        if hits:
            self.broken_obligations.append("forbidden constructs: " + "; ".join(hits[:10]))
        self.say(f"[audit] {len(thms)} theorems in {mod}, axioms ok={not bad}, forbidden constructs={len(hits)}")
        if self.tier == "thorough":
            # independent re-check of the compiled property module (and what it imports from this project) by leanchecker
            t = time.time()
            r = subprocess.run(["lake", "env", "leanchecker", mod], cwd=LEAN, capture_output=True, text=True, env=ENV)
            self.extra["leanchecker"] = {"module": mod, "rc": r.returncode, "seconds": round(time.time() - t, 1)}
            self.say(f"[leanchecker] {mod} rc={r.returncode} ({time.time() - t:.1f}s)")
            if r.returncode != 0:
                self.broken_obligations.append("leanchecker rejects " + mod + ": " + (r.stdout + r.stderr)[-300:])

    # ------------------------------------------------------------------ 3. driver builds
    def cargo_build(self, profile, features=""):
        args, rustflags, _ = PROFILE_FLAGS[profile]
        tdir = HARNESS / ("target" if not rustflags else f"target-{profile}")
        cmd = ["cargo", "build", "--offline", "--target-dir", str(tdir)] + args
        if features:
            cmd += ["--features", features]
        env = dict(ENV)
        if rustflags:
            env["RUSTFLAGS"] = rustflags
        if not (HARNESS / "Cargo.lock").exists() and (REPO / "Cargo.lock").exists():
            shutil.copy(REPO / "Cargo.lock", HARNESS / "Cargo.lock")
        toml = (HARNESS / "Cargo.toml.in").read_text().replace("@REPO@", str(REPO))
        if not (HARNESS / "Cargo.toml").exists() or (HARNESS / "Cargo.toml").read_text() != toml:
            (HARNESS / "Cargo.toml").write_text(toml)
        stamp, digest = fresh_target(tdir, "--release" in args, features, env)
        t = time.time()
        r = subprocess.run(cmd, cwd=HARNESS, capture_output=True, text=True, env=env)
        if r.returncode == 0:
            tdir.mkdir(parents=True, exist_ok=True)
            stamp.write_text(digest)
        self.say(f"[cargo] {profile} features='{features}' rc={r.returncode} ({time.time() - t:.1f}s)")
        if r.returncode != 0:
            (self.wd / f"cargo-{profile}.log").write_text(r.stdout + r.stderr)
            self.broken_obligations.append(f"harness build failed ({profile}, features={features}): " +
                                           "; ".join(re.findall(r"error[^\n]*", r.stderr)[:4]))
            return None
        sub = "release" if "--release" in args else "debug"
        exe = tdir / sub / "fpdrv"
        # features change the binary in place: copy it aside
        dst = self.wd / f"fpdrv-{profile}-{features.replace(',', '+') or 'default'}"
        shutil.copy(exe, dst)
        return dst

    # ------------------------------------------------------------------ 4. vectors
    def vectors(self, n, extra_lines=()):
        g = gen.G(self.seed)
        lines = []
        corpus = ROOT / "corpus" / f"{self.prop}.txt"
        if corpus.exists():
            lines += [l for l in corpus.read_text().split("\n") if l.strip() and not l.startswith("#")]
        self.n_corpus = len(lines)
        lines += list(extra_lines)
        if self.prop in gen.GENERATORS:
            import random
            # about one request in twelve is followed at once by its "siblings" (same call again, other mode, other representation
            # of the same value, related conversion, extended text): a call must not depend on the calls made before it
            lines += gen.with_siblings(list(gen.GENERATORS[self.prop](g, n)), random.Random(self.seed + 11))
        return lines

    # ------------------------------------------------------------------ 5. run + compare
    @staticmethod
    def match(spec, out):
        if spec in ("-", "*"):
            return True
        for alt in spec.split("|"):
            if alt == out or alt == "*":
                return True
            if alt == "panic:ovf" and out in ("panic overflow", "panic arith"):
                return True
            if alt == "panic:any" and out.startswith("panic"):
                return True
            if " " in alt and "*" in alt:
                # field-wise wildcard ("0 *": first field fixed, second unconstrained)
                fa, fo = alt.split(" "), out.split(" ")
                if len(fa) == len(fo) and all(x == "*" or x == y for x, y in zip(fa, fo)):
                    return True
        return False

    def run_pair(self, exe, model_prof, lines, tag):
        fin = self.wd / f"req-{tag}.txt"
        fin.write_text("\n".join(lines) + "\n")
        t = time.time()
        with open(fin) as i, open(self.wd / f"impl-{tag}.txt", "w") as o:
            r1 = subprocess.run([str(exe)], stdin=i, stdout=o, stderr=subprocess.PIPE, text=True)
        with open(fin) as i, open(self.wd / f"model-{tag}.txt", "w") as o:
            r2 = subprocess.run([str(LEAN / ".lake/build/bin/fpmodel"), model_prof], stdin=i, stdout=o,
                                stderr=subprocess.PIPE, text=True)
        impl = (self.wd / f"impl-{tag}.txt").read_text().split("\n")[:-1]
        model = (self.wd / f"model-{tag}.txt").read_text().split("\n")[:-1]
        self.say(f"[run] {tag}: {len(lines)} requests, impl rc={r1.returncode}, model rc={r2.returncode} ({time.time() - t:.1f}s)")
        if r1.returncode != 0 or len(impl) != len(lines):
            self.violations.append(("driver-abort", lines[len(impl)] if len(impl) < len(lines) else "?", f"rc={r1.returncode} {r1.stderr[-200:]}",
                                    "a response for every request (the process died: abort / UB / stack overflow)", tag))
            lines = lines[: len(impl)]
        if r2.returncode != 0 or len(model) < len(lines):
            self.broken_obligations.append(f"model driver aborted after {len(model)} requests ({tag})")
            lines = lines[: len(model)]
        return impl, [m.split("\t") + ["", ""] for m in model]

    def compare(self, lines, impl, model, tag, count=True):
        for req, out, m in zip(lines, impl, model):
            mout, spec, sig = m[0], m[1], m[2]
            if count:
                self.evals += 1
                key = req.split(" ", 2)[1] + ":" + sig
                self.sig_hist[key] = self.sig_hist.get(key, 0) + 1
                if (sig or req.startswith('threads')) and not self.trivial(req, out):
                    self.nontrivial.add(req)
            if out == "panic badinput" or mout == "bad-op" or (req.startswith("threads") and "panic,badinput" in out):
                # a request outside the protocol's domain (generator slip): counted, never a verdict
                self.extra["bad_requests"] = self.extra.get("bad_requests", 0) + 1
                continue
            if req.startswith("threads"):
                # one observation per schedule step; each step's spec may list alternatives (fields use `,` for ` `)
                fo, fs, fm = out.split(" "), spec.split(" "), mout.split(" ")
                ok = len(fo) == len(fs)
                if ok:
                    steps = req.split(" ")[1:]
                    for st, a, b in zip(steps, fo, fs):
                        if self.match(b.replace(",", " "), a.replace(",", " ")):
                            continue
                        # a step that is a generic request `x<t>:<request>`: the open known findings apply to it as to the plain request
                        kf = None
                        if st.startswith("x") and ":" in st:
                            kf = self.known("heven " + st.split(":", 1)[1].replace("_", " "), a.replace(",", " "))
                        if kf:
                            self.known_hits[kf["id"]] = self.known_hits.get(kf["id"], 0) + 1
                        else:
                            ok = False
                if not ok:
                    self.violations.append(("impl∉spec", req, out, spec, tag))
                elif out != mout:
                    self.violations.append(("impl≠model", req, out, mout, tag))
                continue
            if not self.match(spec, out):
                kf = self.known(req, out)
                if kf:
                    self.known_hits[kf["id"]] = self.known_hits.get(kf["id"], 0) + 1
                else:
                    self.violations.append(("impl∉spec", req, out, spec, tag))
            elif out != mout:
                self.violations.append(("impl≠model", req, out, mout, tag))

    @staticmethod
    def trivial(req, out):
        """trivial = the fast path nobody doubts: an `ok` result from operands with equal scales and small coefficients"""
        t = req.split()
        ints = [x for x in t if re.fullmatch(r"-?\d+", x)]
        big = any(len(x.lstrip("-")) > 9 for x in ints)
        return out.startswith("ok") and not big and not out.startswith("ok -") and len(set(ints)) <= 2

    # ------------------------------------------------------------------ known findings
    def load_known(self):
        f = ROOT / "known_findings.json"
        self.kf = json.loads(f.read_text())["findings"] if f.exists() else []

    def known(self, req, out):
        t = req.split()
        for k in self.kf:
            if k.get("status") != "open" or self.prop not in k["properties"]:
                continue
            m = k["match"]
            if "ops" in m:
                # a class given by the operation and one literal operand (e.g. the integer i128::MIN in a division)
                if t[1] in m["ops"] and m["token"] in t[2:]:
                    return k
                continue
            for c in [m] + list(m.get("also", [])):
                if t[1] != c["op"] or len(t) <= c["n_index"]:
                    continue
                try:
                    nn = int(t[c["n_index"]])
                except ValueError:
                    continue
                if not (c["n_min"] <= nn <= c["n_max"]):
                    continue
                if "token" in c and t[c["token_index"]] != c["token"]:
                    continue
                if ("impl_exact" in c and out == c["impl_exact"]) or ("impl_prefix" in c and out.startswith(c["impl_prefix"])):
                    return k
        return None

    # ------------------------------------------------------------------ shrinking
    def shrink(self, exe, model_prof, req, kind):
        """greedy shrink of integer tokens while the same kind of disagreement persists"""
        def failing(r):
            try:
                o = subprocess.run([str(exe)], input=r + "\n", capture_output=True, text=True, timeout=10).stdout.strip()
                m = subprocess.run([str(LEAN / ".lake/build/bin/fpmodel"), model_prof], input=r + "\n", capture_output=True,
                                   text=True, timeout=10).stdout.rstrip("\n").split("\t")
            except Exception:
                return False
            if len(m) < 2 or o == "" or o == "bad-op" or m[0] == "bad-op" or o.startswith("panic badinput"):
                return False
            if kind == "impl∉spec":
                return not self.match(m[1], o) and not self.known(r, o)
            return o != m[0]
        cur = req
        deadline = time.time() + 20
        improved = True
        while improved and time.time() < deadline:
            improved = False
            toks = cur.split()
            for i, tk in enumerate(toks):
                if not re.fullmatch(r"-?\d+", tk) or i < 2:
                    continue
                v = int(tk)
                for cand in (0, 1, -1, v // 10, v // 2, v - 1 if v > 0 else v + 1):
                    if cand == v or abs(cand) >= abs(v) and cand != 0:
                        continue
                    t2 = toks[:i] + [str(cand)] + toks[i + 1:]
                    r2 = " ".join(t2)
                    if failing(r2):
                        cur, toks, improved = r2, t2, True
                        break
                if time.time() > deadline:
                    break
        return cur

    # ------------------------------------------------------------------ evidence + verdict
    def finish(self):
        wall = time.time() - self.t0
        evdir = Path(os.environ.get("VERIF_EVIDENCE_DIR") or (ROOT / "evidence"))
        evdir.mkdir(parents=True, exist_ok=True)
        (ROOT / "replays").mkdir(exist_ok=True)
        for k in self.kf:
            if k.get("status") == "open" and self.prop in k["properties"] and self.known_hits.get(k["id"]):
                print(f"KNOWN-FINDING: property={self.prop} {k['id']}: {k['what']} ({self.known_hits[k['id']]} inputs of that class in this run)")
        n_obl = len(self.theorems) + getattr(self, "n_ties", 0)
        broken = len(self.broken_obligations)
        status_violation = bool(self.violations) or broken > 0
        replay = None
        if status_violation:
            spec_v = [v for v in self.violations if v[0] in ("impl∉spec", "driver-abort")]
            replay = ROOT / "replays" / f"{self.prop}-{self.seed}-{int(self.t0)}.txt"
            with open(replay, "w") as f:
                f.write(f"# property {self.prop} tier {self.tier} seed {self.seed}\n")
                for b in self.broken_obligations:
                    f.write(f"# BROKEN-OBLIGATION {b}\n")
                spec_v = [v for v in spec_v if v[4] == "miri"] + [v for v in spec_v if v[4] != "miri"]
                other_v = [v for v in self.violations if v[0] not in ("impl∉spec", "driver-abort")]
                for kind, req, out, exp, tag in (spec_v + other_v)[:200]:
                    f.write(f"# {kind} build={tag} impl=[{out}] expected=[{exp}]\n{req}\n")
            if spec_v:
                print(f"VIOLATION property={self.prop} replay={replay}")
            else:
                print(f"VIOLATION property={self.prop} replay={replay} no-failing-input-found")
        ev = {
            "property_id": self.prop, "tier": self.tier, "seed": self.seed, "level": "proof",
            "coverage": {
                "obligations": max(1, n_obl + broken), "discharged": max(0, n_obl) if n_obl else 0,
                "checker_cmd": f"cd /verif/lean && lake build Fpdec.Props.{self.prop} && lake env lean <audit: collectAxioms on every theorem of Fpdec.Props.{self.prop}>",
                "trusted_base": ["Lean 4.33.0 kernel", "axioms: propext, Classical.choice, Quot.sound (allow-list checked per theorem)",
                                 "tools/fpextract.py + tools/fpsites.py + tools/fpkernels.py (translator: constants, tables, token skeleton of every file, "
                                 "expression-level translation of the arithmetic kernels with tie theorems)",
                                 "correspondence check fpdrv (real crate, in-process) vs fpmodel (compiled Lean model)",
                                 "rustc/std semantics of the items listed in DESIGN.md section 2.2 as modelled"],
                "theorems": self.theorems,
                "broken_obligations": self.broken_obligations,
                "evaluations": self.evals, "distinct_nontrivial": len(self.nontrivial),
                "rule": "requests from tools/gen.py (corpus first, then structured random + constructed classes, one PRNG seeded by VERIF_SEED); "
                        "a request is non-trivial unless it is an `ok` result from small, sign-free operands; distinct = distinct request lines",
                "samples": self.samples[:12],
                "signature_histogram_top": dict(sorted(self.sig_hist.items(), key=lambda kv: -kv[1])[:40]),
                "distinct_signatures": len(self.sig_hist),
                "profiles": self.profiles_run, "features": self.features_run,
                "known_finding_hits": self.known_hits,
                **self.extra,
            },
            "assumptions": self.assumptions + ["the hand-written Lean model is tied to the code by the regenerated Gen/*.lean and by the differential run of this check"],
            "wall_s": round(wall, 2),
            "violations": len(self.violations) + broken,
        }
        (evdir / f"{self.prop}.json").write_text(json.dumps(ev, indent=1))
        self.say(f"[done] {self.prop} {self.tier}: evaluations={self.evals} nontrivial={len(self.nontrivial)} theorems={len(self.theorems)} "
                 f"broken={broken} violations={len(self.violations)} wall={wall:.1f}s")
        return 1 if status_violation else 0


# --------------------------------------------------------------------------- C18: literals through rustc
def c18_literals(g, n):
    r = g.r
    lits = ["0", "1", "-1", "+1", "1.5", "-1.5", "1e5", "1E5", "1e+5", "1e-5", "5.", "0.5", "00.50", "1_000", "0x10", "1e001",
            "0e99", "0e39", "-0e40", "1e38", "1e39", "0.1e39", "17e37", "18e37", "170141183460469231731687303715884105727",
            "170141183460469231731687303715884105728", "-170141183460469231731687303715884105727",
            "-170141183460469231731687303715884105728", "-0170141183460469231731687303715884105728",
            "0.000000000000000001", "0.0000000000000000001", "1.000000000000000000", "1.0000000000000000000",
            "440282366920938463463374607431768211456", "3402823669209384634633746074317682114567", "0.0e40", "000E+40",
            "0.0000000000000000000000000000000000000001e22", "1e0", "1.e5" if False else "1.0e5", "12345678.12345678", "1234567812345678"]
    lits = [l for l in lits if l]
    # zeros in every spelling (scale of a zero literal must survive: 0.00 has two fractional digits)
    lits += ["0.0", "0.00", "-0.0", "+0.000", "0.000e1", "0.00e-3", "0e-5", "0e5", "0.000000000000000000", "0.0000000000000000000",
             "00.0e0", "-0e-18", "0e-19", "0.0e-17", "0.0e-18", "000", "0.0E+2", "0.00E2", "0.000e3", "0.000e4"]
    # coefficient·10^e around the i128 limit and around the limits of the narrower integers a fast path may cast through
    MAXI = 2 ** 127 - 1
    for e in range(1, 39):
        for c in {MAXI // 10 ** e, MAXI // 10 ** e + 1}:
            lits.append(f"{c}e{e}")
    for e in (18, 19, 20, 28, 29, 9, 10):
        for c in (2 ** 64 - 1, 2 ** 64, 2 ** 63, 2 ** 63 - 1, 2 ** 32 - 1, 2 ** 32, 18000000000000000000, 17014118346046923174,
                  17014118346046923173):
            lits.append(f"{c}e{e}")
            lits.append(f"-{c}e{e}")
            sc = str(c)
            j = r.randrange(1, len(sc))
            lits.append(f"{sc[:-j]}.{sc[-j:]}e{e + j}")
    # long but harmless literals (leading zeros, fractional zeros compensated by the exponent): longer than any "maximal" literal
    for _ in range(12):
        ip = "0" * r.randrange(25, 60) + str(r.randrange(1, 10 ** r.randrange(1, 15)))
        fz = r.randrange(20, 45)
        e = r.randrange(fz - 18 if fz > 18 else 0, fz + 3)
        lits.append(r.choice(["", "-"]) + ip + "." + g.digits(r.randrange(0, 4)) + "0" * fz + f"e{e}")
    # the same, signed and well beyond 80 characters: `TokenStream::to_string` separates sign and number by a LINE BREAK then (D15)
    for _ in range(8):
        ip = "0" * r.randrange(50, 95) + str(r.randrange(1, 10 ** r.randrange(1, 15)))
        fz = r.randrange(0, 30)
        e = r.randrange(fz - 18 if fz > 18 else 0, fz + 3)
        lits.insert(42, r.choice(["-", "-", "+"]) + ip + "." + g.digits(r.randrange(0, 4)) + "0" * fz + (f"e{e}" if e else ""))
    if len(lits) > n:
        head = lits[:50]
        rest = lits[50:]
        r.shuffle(rest)
        lits = head + rest[: max(0, n - 50)]
    while len(lits) < n:
        sign = r.choice(["", "", "-", "+"])
        if r.random() < 0.08:    # a zero with random fraction digits and exponent
            e = r.randrange(-30, 45)
            lits.append(sign + "0" * r.randrange(1, 3) + ("." + "0" * r.randrange(0, 22) if r.random() < 0.8 else "") +
                        (f"e{e}" if r.random() < 0.6 else ""))
            if lits[-1].endswith(".") : lits[-1] += "0"
            continue
        if r.random() < 0.1:     # coefficient near MAX / 10^e, or a u64-sized coefficient with a two-digit exponent
            e = r.randrange(1, 39)
            c = r.choice([MAXI // 10 ** e + r.randrange(-2, 3), r.randrange(2 ** 63, 2 ** 64), r.randrange(MAXI // 10 ** e, 10 * MAXI // 10 ** e + 2)])
            sc = str(max(1, c))
            j = r.randrange(0, len(sc))
            lits.append(sign + (sc if j == 0 else f"{sc[:-j]}.{sc[-j:]}") + f"e{e + j}")
            continue
        ip = g.digits(r.randrange(1, 41)) if r.random() < 0.85 else str(r.choice([2 ** 127, 2 ** 127 - 1, 10 ** 38, 2 ** 128]) + r.randrange(-2, 3))
        if r.random() < 0.3:
            ip = ip.lstrip("0") or "0"
        fp = ""
        if r.random() < 0.6:
            fp = "." + g.digits(r.randrange(0, 24))
        ex = ""
        if r.random() < 0.5:
            e = r.randrange(-40, 41)
            ex = r.choice("eE") + (r.choice(["", "+"]) if e >= 0 else "-") + ("0" * r.randrange(0, 2)) + str(abs(e))
        if fp == "." and ex:
            fp = ".0"
        lits.append(sign + ip + fp + ex)
    return lits


def run_c18(run, n):
    """Dec!(lit) through rustc vs Decimal::from_str(lit) (real crate) vs model (macroFold / fromStr)"""
    g = gen.G(run.seed)
    lits = c18_literals(g, n)
    crate = run.wd / "litprog"
    (crate / "src").mkdir(parents=True, exist_ok=True)
    (crate / "Cargo.toml").write_text(f"""[package]
name = "litprog"
version = "0.1.0"
edition = "2021"
[dependencies]
fpdec = {{ path = "{REPO}" }}
[workspace]
""")
    shutil.copy(REPO / "Cargo.lock" if (REPO / "Cargo.lock").exists() else HARNESS / "Cargo.lock", crate / "Cargo.lock")

    # signed literals are also written the way a formatter / another macro may hand them over: sign and number as two tokens with
    # white space or a comment in between (`Dec!(- 17.5)`); the value must be that of the unspaced text
    seps = {}
    for idx, l in enumerate(lits):
        # a long literal after a separated sign makes `TokenStream::to_string` break the line between the two tokens (D15): long
        # signed literals are always written with a separator
        if l and l[0] in "+-" and len(l) > 1 and (g.r.random() < 0.35 or len(l) >= 60):
            seps[idx] = g.r.choice([" ", " ", "  ", " /* sign */ ", "\t"])      # (no line break here: one item per source line)

    def write_prog(items):
        body = ["use fpdec::{Dec, Decimal};", "fn main() {"]
        for idx, lit in items:
            if idx in seps:
                lit = lit[0] + seps[idx] + lit[1:]
            # a `const` item: the macro's expansion must be a constant expression (C18: "compiles to a constant")
            body.append(f"    {{ const D: Decimal = Dec!({lit}); println!(\"{idx} {{}} {{}}\", D.coefficient(), D.n_frac_digits()); }}")
        body.append("}")
        (crate / "src/main.rs").write_text("\n".join(body) + "\n")

    items = list(enumerate(lits))
    write_prog(items)
    lit_stamp, lit_digest = fresh_target(HARNESS / "target-lit", False, "", ENV, cwd=crate)
    t = time.time()
    r = subprocess.run(["cargo", "build", "--offline", "--message-format=json", "--target-dir", str(HARNESS / "target-lit")],
                       cwd=crate, capture_output=True, text=True, env=ENV)
    rejected = set()
    (run.wd / "lit-first-run.json").write_text(r.stdout)
    shutil.copy(crate / "src/main.rs", run.wd / "lit-first-main.rs")
    for line in r.stdout.split("\n"):
        if not line.startswith("{"):
            continue
        try:
            m = json.loads(line)
        except Exception:
            continue
        if m.get("reason") == "compiler-message" and m["message"].get("level") == "error":
            for sp in m["message"].get("spans", []):
                if sp.get("file_name", "").endswith("main.rs"):
                    ln = sp["line_start"]
                    rejected.add(ln - 3)  # line 3 is item 0
    run.say(f"[c18] first rustc run: {len(rejected)} of {len(items)} literals rejected ({time.time() - t:.1f}s)")
    accepted = [(i, l) for i, l in items if i not in rejected]
    write_prog(accepted)
    r = subprocess.run(["cargo", "run", "--offline", "--quiet", "--target-dir", str(HARNESS / "target-lit")], cwd=crate,
                       capture_output=True, text=True, env=ENV)
    macro_out = {}
    if r.returncode == 0:
        (HARNESS / "target-lit").mkdir(parents=True, exist_ok=True)
        lit_stamp.write_text(lit_digest)
    if r.returncode != 0:
        run.broken_obligations.append("C18: second rustc run (accepted literals only) failed: " + r.stderr[-300:])
    for line in r.stdout.split("\n"):
        t3 = line.split()
        if len(t3) == 3:
            macro_out[int(t3[0])] = f"ok {t3[1]} {t3[2]}"
    # from_str on the real crate + model
    exe = run.cargo_build("dev")
    reqs = [f"heven parse {gen.G.hx(l)}" for l in lits]
    impl, model = run.run_pair(exe, "oc=1,da=1", reqs, "c18-parse")
    run.compare(reqs, impl, model, "dev")
    # model of the macro on the two stringifications of a signed literal
    mreqs = []
    for l in lits:
        mreqs.append(f"heven macrofold {gen.G.hx(l)}")
        if l[0] in "+-":
            mreqs.append(f"heven macrofold {gen.G.hx(l[0] + ' ' + l[1:])}")
            mreqs.append(f"heven macrofold {gen.G.hx(l[0] + chr(10) + l[1:])}")
    with open(run.wd / "mreq.txt", "w") as f:
        f.write("\n".join(mreqs) + "\n")
    mo = subprocess.run([str(LEAN / ".lake/build/bin/fpmodel"), "dev"], stdin=open(run.wd / "mreq.txt"), capture_output=True, text=True).stdout.split("\n")
    mi = 0
    for idx, l in enumerate(lits):
        fs = impl[idx] if idx < len(impl) else "?"
        mac = macro_out.get(idx, "reject" if idx in rejected else "missing")
        exp = fs if fs.startswith("ok") else "reject"
        run.evals += 1
        if exp != "reject" or any(ch in l for ch in "eE."):
            run.nontrivial.add(l)
        if mac != exp:
            run.violations.append(("impl∉spec", f"Dec!({l})", mac, f"from_str: {fs}", "dev"))
        k = 3 if l[0] in "+-" else 1
        for j in range(k):
            mm = mo[mi + j].split("\t")[0]
            mexp = mm if mm.startswith("ok") else "reject"
            if mexp != mac:
                run.violations.append(("impl≠model", f"Dec!({l}) / macrofold variant {j}", mac, mm, "dev"))
        mi += k
    run.samples += [f"Dec!({l}) -> {macro_out.get(i, 'reject')}" for i, l in items[:8]]
    run.extra["literals"] = len(lits)
    run.extra["literals_with_separated_sign"] = len(seps)
    run.extra["literals_rejected_by_rustc"] = len(rejected)
    run.assumptions.append("rustc's lexer and TokenStream::to_string are exercised, not modelled")


# --------------------------------------------------------------------------- main flows
def run_miri(run, lines, limit):
    """C06 / C18: the parser entry points under Miri (debug assertions off, so that a `debug_assert!` in front of an unsafe read does
    not hide what an optimised build would do).  Literals come from this run's own `parse` requests (short ones first: the 8-byte
    windows of the SWAR loop end inside or at the end of the string).  Undefined behaviour on a literal is a violation of the clause
    "no input makes the parser read outside the string"; the replay entry is the `parse` request, tagged build=miri."""
    lits, seen = [], set()
    for l in lines:
        t = l.split()
        if len(t) == 3 and t[1] == "parse" and t[2] not in seen:
            seen.add(t[2])
            try:
                b = b"" if t[2] == "-" else bytes.fromhex(t[2])
                b.decode("utf-8")
            except (ValueError, UnicodeDecodeError):
                continue
            lits.append((t[2], b))
    lits.sort(key=lambda x: (len(x[1]) > 40, 0))
    short = [x for x in lits if len(x[1]) <= 40]
    lits = short[:limit] + [x for x in lits if len(x[1]) > 40][: max(0, limit // 10)]
    # constructed: digit runs of every length 0..26 alone, after a sign, before a point / an exponent (window boundaries)
    for n in range(0, 27):
        for pre, post in (("", ""), ("-", ""), ("", "."), ("", "e1"), ("0.", ""), ("", ".5e-1")):
            b = (pre + "1234567890123456789012345678"[:n] + post).encode()
            lits.append((b.hex() or "-", b))
    crate = HARNESS / "miri"
    toml = (crate / "Cargo.toml.in").read_text().replace("@REPO@", str(REPO))
    if not (crate / "Cargo.toml").exists() or (crate / "Cargo.toml").read_text() != toml:
        (crate / "Cargo.toml").write_text(toml)
    shutil.copy(REPO / "Cargo.lock" if (REPO / "Cargo.lock").exists() else HARNESS / "Cargo.lock", crate / "Cargo.lock")
    env = dict(ENV)
    env["RUSTFLAGS"] = "-C debug-assertions=off"
    start, found, t0 = 0, 0, time.time()
    while start < len(lits) and found < 3:
        body = ", ".join('b"' + "".join(f"\\x{c:02x}" for c in b) + '"' for _, b in lits[start:])
        (crate / "src/lits.rs").write_text(f"static LITS: &[&[u8]] = &[{body}];\n")
        r = subprocess.run(["cargo", "+nightly", "miri", "run", "--offline", "--target-dir", str(HARNESS / "target-miri")], cwd=crate,
                           capture_output=True, text=True, env=env)
        last = -1
        for ln in r.stdout.split("\n"):
            if ln.startswith("L "):
                last = int(ln[2:])
        if "DONE" in r.stdout and r.returncode == 0:
            break
        if "Undefined Behavior" in r.stderr and last >= 0:
            hx = lits[start + last][0]
            what = re.search(r"error: Undefined Behavior: ([^\n]*)", r.stderr)
            run.violations.append(("impl∉spec", f"heven parse {hx}", "undefined behaviour under Miri: " + (what.group(1) if what else "?"),
                                   "no read outside the string (C06)", "miri"))
            found += 1
            start = start + last + 1
            continue
        # Miri itself could not be run (nightly toolchain missing, …): the search is skipped and the evidence says so — never an alarm;
        # a crate that does not compile is reported by the ordinary harness build
        run.extra["miri_error"] = (r.stderr.strip().split("\n") or ["?"])[-1][:200]
        run.say("[miri] could not run: " + run.extra["miri_error"])
        break
    run.extra["miri_literals"] = len(lits)
    run.extra["miri_ub_found"] = found
    run.say(f"[miri] {len(lits)} literals, undefined behaviour on {found} ({time.time() - t0:.1f}s)")


# properties whose statement is "… under the thread's current rounding mode": their requests also run inside thread schedules
THREAD_MIX_PROPS = ("C02", "C03", "C04", "C05", "C11", "C16")
THREAD_MIX_N = (120, 1500, 1500)       # schedules: quick, thorough, after a broken obligation


def run_check(prop, tier, seed):
    run = Run(prop, tier, seed)
    run.load_known()
    cfg = P[prop]
    ti = 0 if tier == "quick" else 1
    n = cfg["n"][ti]
    run.extract()
    proofs_ok = run.lean_build()
    if proofs_ok:
        run.audit()
    if not run.model_ok:
        run.say("[fatal] the model driver does not build: cannot search")
        return run.finish()
    escalate = 10 if (run.broken_obligations and tier == "quick") else 1
    if prop == "C18":
        run_c18(run, n)
        return run.finish()
    extra = []
    if prop == "C19":
        extra = list(gen.G(seed).c19_exhaustive(3 if tier == "quick" else 4))
        run.extra["exhaustive_schedules"] = len(extra)
    lines = run.vectors(n * escalate, extra)
    if prop in THREAD_MIX_PROPS:
        # "under the thread's current rounding mode": the property's own requests on concurrently running OS threads, each under the
        # mode that thread set last (model: the thread's cell; spec: that mode, HalfEven for a thread that never set one)
        k = THREAD_MIX_N[2] if run.broken_obligations else THREAD_MIX_N[ti]
        tm = list(gen.G(seed + 3).thread_mix(lambda m: gen.GENERATORS[prop](gen.G(seed + 4), m), k))
        run.extra["thread_mix_schedules"] = len(tm)
        lines = lines + tm
    run.samples = lines[run.n_corpus: run.n_corpus + 6] + lines[-6:]
    profiles = cfg["profiles"][ti]
    if run.broken_obligations:
        # a proof or tie is broken: search every profile the thorough tier knows (wrap-around shows only without overflow checks)
        profiles = list(dict.fromkeys(list(profiles) + list(cfg["profiles"][1]) + ["release"]))
    outputs = {}
    exes = {}
    first = None
    profiles = list(profiles)
    pi = 0
    while pi < len(profiles):
        prof = profiles[pi]
        pi += 1
        exe = run.cargo_build(prof)
        if exe is None:
            continue
        impl, model = run.run_pair(exe, PROFILE_FLAGS[prof][2], lines, prof)
        run.compare(lines, impl, model, prof, count=(first is None))
        outputs[prof] = impl
        run.profiles_run.append(prof)
        exes[prof] = (exe, PROFILE_FLAGS[prof][2])
        if first is None:
            first = (exe, PROFILE_FLAGS[prof][2])
            if run.violations and not run.broken_obligations:
                # the implementation left the model (the correspondence tie is broken) although every proof still checks:
                # look at the other profiles as well — a plain operator only differs from a checked one without overflow checks
                for extra_prof in list(cfg["profiles"][1]) + ["release"]:
                    if extra_prof not in profiles:
                        profiles.append(extra_prof)
    if prop == "C20" and len(outputs) > 1:
        base = profiles[0]
        for prof, impl in outputs.items():
            if prof == base:
                continue
            for req, a, b in zip(lines, outputs[base], impl):
                if a != b:
                    kf = run.known(req, b)
                    if kf:
                        run.known_hits[kf["id"]] = run.known_hits.get(kf["id"], 0) + 1
                    else:
                        run.violations.append(("impl∉spec", req, f"{prof}: {b}", f"same as {base}: {a}", prof))
    feature_runs = list(cfg.get("feature_runs", ([], []))[ti])
    if run.broken_obligations or run.violations:
        # a broken obligation / a mismatch: also the feature combinations only the thorough tier builds (e.g. rkyv together with packed)
        feature_runs = list(dict.fromkeys(feature_runs + list(cfg.get("feature_runs", ([], []))[1])))
    for feats in feature_runs:
        exe = run.cargo_build("dev", feats)
        if exe is None:
            continue
        g = gen.G(seed + 1)
        if "rkyv" in feats:
            fl = list(g.c08(n // 3, rk=True))
        elif feats == "serde-as-str":
            fl = list(g.c07(n // 3, op="serde"))
        elif feats == "num-traits":
            fl = list(g.c15(n // 3, nt=True))
        elif feats == "packed":
            fl = lines
        else:
            fl = []
        impl, model = run.run_pair(exe, "oc=1,da=1", fl, "feat-" + feats.replace(",", "+"))
        run.compare(fl, impl, model, "dev+" + feats)
        if feats == "packed" and "dev" in outputs:
            for req, a, b in zip(lines, outputs["dev"], impl):
                if a != b:
                    run.violations.append(("impl∉spec", req, f"packed: {b}", f"same as default layout: {a}", "dev+packed"))
        run.features_run.append(feats)
    if prop == "C06" and (tier == "thorough" or run.broken_obligations or run.violations or os.environ.get("VERIF_MIRI") == "1"):
        run_miri(run, lines, 1500 if tier == "thorough" else 300)
    # shrink the first few failures
    if run.violations and first:
        shrunk = []
        spec_first = sorted(run.violations, key=lambda v: 0 if v[0] == "impl∉spec" else 1)
        for v in spec_first[:3]:
            if v[0] in ("impl∉spec", "impl≠model") and not v[1].startswith("Dec!") and not v[1].startswith("threads") and v[4] != "miri":
                ex = exes.get(v[4], first)
                s = run.shrink(ex[0], ex[1], v[1], v[0])
                if s != v[1]:
                    shrunk.append((v[0] + "(shrunk)", s, "?", "?", v[4]))
        run.violations = shrunk + run.violations
    return run.finish()


def replay(prop, path):
    run = Run(prop, "quick", 0)
    run.load_known()
    run.extract()
    run.lean_build()
    reqs = [l for l in Path(path).read_text().split("\n") if l.strip() and not l.startswith("#")]
    obl = [l for l in Path(path).read_text().split("\n") if l.startswith("# BROKEN-OBLIGATION")]
    for o in obl:
        print(o)
    bad = 0
    # each request is replayed under the build it was recorded with (`# … build=<profile>` precedes it)
    tagged, tag = [], "dev"
    for l in Path(path).read_text().split("\n"):
        m = re.match(r"# .*\bbuild=([A-Za-z0-9_+-]+)", l)
        if m:
            tag = m.group(1)
        elif l.strip() and not l.startswith("#"):
            tagged.append((tag if (tag in PROFILE_FLAGS or tag == "miri") else "dev", l))
            tag = "dev"
    if reqs and not reqs[0].startswith("Dec!"):
        miri_lines = [l for t, l in tagged if t == "miri"]
        if miri_lines:
            n0 = len(run.violations)
            run_miri(run, miri_lines, len(miri_lines))
            for v in run.violations[n0:]:
                print(f"FAIL [miri] {v[1]}\n      {v[2]}")
            bad += len(run.violations) - n0
        for prof in list(dict.fromkeys(t for t, _ in tagged if t != "miri")):
            sub = [l for t, l in tagged if t == prof]
            exe = run.cargo_build(prof)
            impl, model = run.run_pair(exe, PROFILE_FLAGS[prof][2], sub, "replay-" + prof)
            for r, i, m in zip(sub, impl, model):
                # the verdict is the one of the check itself (per-step matching of schedules, open known findings)
                n0, k0 = len(run.violations), sum(run.known_hits.values())
                run.compare([r], [i], [m], prof, count=False)
                ok = len(run.violations) == n0
                kn = " (open known finding)" if sum(run.known_hits.values()) > k0 else ""
                print(("ok   " if ok else "FAIL ") + f"[{prof}] {r}{kn}\n      impl=[{i}] model=[{m[0]}] spec=[{m[1]}]")
                bad += 0 if ok else 1
    if run.broken_obligations:
        for b in run.broken_obligations:
            print("BROKEN-OBLIGATION", b)
        bad += 1
    if bad:
        print(f"VIOLATION property={prop} replay={path}")
        return 1
    return 0


def main():
    if len(sys.argv) < 3:
        print(__doc__)
        return 2
    prop = sys.argv[1]
    if sys.argv[2] == "--replay":
        return replay(prop, sys.argv[3])
    tier = os.environ.get("VERIF_TIER") or sys.argv[2]
    tier = tier if tier in ("quick", "thorough") else sys.argv[2]
    if tier not in ("quick", "thorough"):
        print(f"usage: check <id> quick|thorough | --replay <file>   (unknown tier {tier!r})", file=sys.stderr)
        return 2
    seed = int(os.environ.get("VERIF_SEED", "20260929"))
    return run_check(prop, tier, seed)


if __name__ == "__main__":
    sys.exit(main())
