#!/usr/bin/env python3
"""mksites: write lean/Fpdec/Props/Cnn_Sites.lean — for every property the list of source files whose code the operations of the
property execute (directly or through the helpers they call).  Each listed file contributes one obligation
`Gen.sites_<file> = Pinned.sites_<file>` (regenerated skeleton = skeleton the model was written against).

The lists are deliberately generous: a behaviour-relevant token change in any file a property depends on must break an
obligation of that property (a seeded change in `cmp.rs` broke hash/equality agreement without touching C09's original anchors).
"""
import re
import sys
from pathlib import Path

CORE, POW, RND, PARSER = "fpdec-core/src/lib.rs", "fpdec-core/src/powers_of_ten.rs", "fpdec-core/src/rounding.rs", "fpdec-core/src/parser.rs"
MACROS, LIB = "fpdec-macros/src/lib.rs", "src/lib.rs"
B = "src/binops/"
BIN_ALL = [B + f for f in ("mod.rs", "add_sub.rs", "checked_add_sub.rs", "mul.rs", "checked_mul.rs", "mul_rounded.rs", "div.rs",
                           "checked_div.rs", "div_rounded.rs", "rem.rs", "checked_rem.rs", "cmp.rs")]
ALL = [CORE, POW, RND, PARSER, MACROS, LIB, "src/round.rs", "src/unops.rs", "src/quantize.rs", "src/format.rs", "src/from_str.rs",
       "src/from_int.rs", "src/into_int.rs", "src/from_float.rs", "src/into_float.rs", "src/as_integer_ratio.rs",
       "src/num_traits.rs"] + BIN_ALL

ANCHORS = {
    "C01": [CORE, POW, LIB, B + "mod.rs", B + "add_sub.rs", B + "checked_add_sub.rs", B + "cmp.rs"],
    "C02": [CORE, POW, RND, LIB, B + "mod.rs", B + "mul.rs", B + "checked_mul.rs", B + "mul_rounded.rs", B + "cmp.rs"],
    "C03": [CORE, POW, RND, LIB, B + "mod.rs", B + "div.rs", B + "checked_div.rs", B + "div_rounded.rs", B + "cmp.rs"],
    "C04": [CORE, POW, RND, LIB, B + "mod.rs", B + "mul_rounded.rs", B + "div_rounded.rs", B + "checked_mul.rs", B + "checked_div.rs",
            "src/quantize.rs", B + "cmp.rs"],
    "C05": [CORE, POW, RND, LIB, "src/round.rs", B + "cmp.rs"],
    "C06": [PARSER, POW, LIB, "src/from_str.rs"],
    "C07": [PARSER, POW, RND, CORE, LIB, "src/from_str.rs", "src/format.rs"],
    "C08": [CORE, POW, LIB, B + "cmp.rs"],
    "C09": [CORE, POW, LIB, "src/as_integer_ratio.rs", B + "cmp.rs"],
    "C10": [CORE, POW, LIB, B + "mod.rs", B + "rem.rs", B + "checked_rem.rs", B + "cmp.rs"],
    "C11": [CORE, POW, RND, LIB, "src/format.rs"],
    "C12": [CORE, POW, LIB, "src/into_float.rs"],
    "C13": [CORE, POW, LIB, "src/from_float.rs"],
    "C14": [CORE, POW, LIB, "src/from_int.rs", "src/into_int.rs"],
    "C15": [CORE, POW, LIB, "src/unops.rs", "src/num_traits.rs", B + "cmp.rs"],
    "C16": [CORE, POW, RND, LIB, B + "mul.rs", B + "checked_mul.rs", B + "mul_rounded.rs", B + "div.rs", B + "checked_div.rs",
            B + "div_rounded.rs", "src/quantize.rs"],
    "C17": [CORE, POW, RND, LIB, "src/quantize.rs", "src/round.rs"] + BIN_ALL,
    "C18": [MACROS, PARSER, POW, LIB, "src/from_str.rs"],
    "C19": [RND, CORE, POW, LIB, "src/round.rs", "src/quantize.rs", "src/format.rs", B + "mul.rs", B + "checked_mul.rs",
            B + "mul_rounded.rs", B + "div.rs", B + "checked_div.rs", B + "div_rounded.rs"],
    "C20": ALL,
}


def ident(path):
    return "sites_" + re.sub(r"[^a-zA-Z0-9]", "_", path.replace(".rs", ""))


def main():
    out = Path(sys.argv[1])
    for prop, files in ANCHORS.items():
        L = ["import Fpdec.Gen.Sites", "import Fpdec.Model.Pinned", "",
             f"/-! Site ties for {prop} (written by tools/mksites.py): the flavour skeleton of every source file the property's operations",
             "execute, as regenerated from /repo on this run, equals the skeleton the model was written against. -/", "",
             f"namespace Fpdec.Props.{prop}", ""]
        for f in dict.fromkeys(files):
            i = ident(f)
            L.append(f"theorem tie_{i} : Gen.{i} = Pinned.{i} := by decide +kernel")
        L += ["", f"end Fpdec.Props.{prop}", ""]
        (out / f"{prop}_Sites.lean").write_text("\n".join(L))
    print("mksites: wrote", len(ANCHORS), "files")


if __name__ == "__main__":
    main()
