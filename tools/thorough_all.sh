#!/bin/sh
# run the thorough tier of every property once (used to validate the thorough commands; not part of any check)
cd "$(dirname "$0")/.." || exit 2
[ -x lean/.lake/build/bin/fpmodel ] || ./setup.sh > thorough-setup.log 2>&1
for p in C01 C02 C03 C04 C05 C06 C07 C08 C09 C10 C11 C12 C13 C14 C15 C16 C17 C18 C19 C20; do
  ./check $p thorough > thorough-$p.log 2>&1; echo "$p rc=$? $(tail -1 thorough-$p.log)"
done
