#!/usr/bin/env python3
"""Write MANIFEST.json from the per-property table below (kept next to the checks so that it stays current)."""
import json
from pathlib import Path
ROOT = Path(__file__).resolve().parent.parent
props = [json.loads(l) for l in open(ROOT / "properties.jsonl")]
TB = ("Trusted: Lean 4.33 kernel (axioms propext, Classical.choice, Quot.sound only; audited per theorem on every run, leanchecker in the "
      "thorough tier); the translators tools/fpextract.py (constants/tables), tools/fpsites.py (token skeleton of every file the property's "
      "operations execute, incl. called names and macro metavariables) and tools/fpkernels.py (expression-level translation of 189 functions "
      "into Lean, each with a proved tie `Gen.K.f = Model.f`, vocabulary in lean/Fpdec/Gen/Rt.lean) — all re-run on /repo on every check; the "
      "correspondence run fpdrv (real crate) vs fpmodel (compiled Lean model) that ties the remaining hand-written model functions to the "
      "code; rustc/std semantics of the modelled items (DESIGN.md sections 2.2 and 3).")
T = {}
def t(pid, text, note, tech):
    T[pid] = (text, note, tech)

COMMON = (" The model is tied to the current source on every run: constants/tables are re-extracted (Gen/Consts.lean); the token skeleton of "
          "every file the property's operations execute is re-extracted and proved equal to the pinned one (Gen/Sites.lean, tie_sites_*); the "
          "functions listed for this property in DESIGN.md 0.5 are re-translated from the Rust text into Lean (Gen/K*.lean) and proved equal to "
          "the model functions the theorems are about (kernel_* theorems); and the real crate and the compiled model answer the same "
          "structured request stream (impl vs model = tie, impl vs spec = property). A broken obligation or a model mismatch starts a search "
          "over all build profiles for a concrete failing input.")
TECH = "Lean 4 theorems (model ⊑ spec for all inputs, all profiles) + regenerated translator ties + differential correspondence"
D = {
 "C01": "add_sub_spec / checked_add_sub_spec / add_sub_int_spec / checked_add_sub_int_spec / add_sub_value: for ALL operands of the domain + - checked_add checked_sub (Decimal and integer bodies) return exactly the aligned exact sum with max(p,q) digits or the overflow signal (panic / None), never another panic; no profile dependence (no plain arithmetic left).",
 "C02": "mul_spec / checked_mul_spec / mul_int_spec / checked_mul_int_spec / checkedMulRounded_spec: zero/one short cuts, exact product with p+q digits for p+q<=18, else the exact product rounded once to 18 digits under the thread mode on both the 128-bit and the 256-bit path, overflow exactly when the result does not fit; the 256-bit helper's specification is proved in C16.",
 "C03": "div_spec / checked_div_spec / div_dec_int_spec / div_int_dec_spec / normalize_spec: the exact quotient rounded once to 18 digits (kernel theorem of C04 with n=18), trailing zeros stripped exactly, divisor-one and zero short cuts, zero divisor -> panic/None, overflow only when the rounded quotient does not fit; the integer divisor ranges over every value of its type including i128::MIN (repaired defect D13), an integer dividend i128::MIN is covered by the correspondence run only.",
 "C04": "checkedDivRounded_spec (all four scaling branches; the repaired divisor-scaled branch via specRound_two_step), div_rounded_spec + guarded integer shapes, mul_rounded_spec, four quantize theorems; the unguarded int/int shape is proved for n<=18 only (div_rounded_int_int_partial) with the Lean witness of the open known finding D8.",
 "C05": "kernel_spec (i128_div_rounded = Spec.specRoundQ for all 8 modes, all in-range n, d != 0), spec_table (the spec agrees with Python-decimal outcomes on the complete class grid), round_spec / checked_round_spec for every Decimal of the domain and every n : i8 including the far-negative shortcut.",
 "C06": "from_str_spec: for EVERY byte string shorter than 2^56 bytes Decimal::from_str agrees with the reference grammar parser (unbounded integers), value and digit count exact, Err otherwise, Empty only for the empty string, never a panic; SWAR lemmas proved without bv_decide; saturating accumulation; exponent saturation never changes the verdict. The clause 'never reads outside the string' is carried by the translated length guards in front of the two unsafe reads and, as search for a failing input, by running the parser entry points under Miri (cargo +nightly miri, debug assertions off, every literal in an allocation of exactly its length): thorough tier always, quick tier after a broken obligation or mismatch.",
 "C07": "string_from_spec / to_string_spec / debug_spec (one canonical text Spec.render), render_parses_back, roundtrip (from_str(to_string(d)) = Ok(d) with identical coefficient and digit count, via C06); serde_glue + serde_roundtrip: the serde-as-str attributes of struct Decimal are re-extracted (derive with into/try_from String, no hand-written impl) and the translated try_from(String::from(d)) is Ok(d); serde's own code only exercised (feature build in the correspondence run).",
 "C08": "partial_cmp_spec / cmp_spec / eq_spec and the integer shapes: comparison of the exact values also when scale alignment overflows; value_order_refl/antisymm/trans/eq_iff; rkyv_roundtrip / rkyv_eq_spec / rkyv_cmp_spec / rkyv_mixed_spec / rkyv_ord_never_panics / rkyv_layout: the translated ArchivedDecimal impls (==, partial_cmp, Ord, mixed forms, Archive::resolve and Deserialize of the packed layout) make archive∘deserialise the identity and compare by exact value; rkyv's own code (derive, check_bytes) only exercised (feature builds rkyv and rkyv,packed).",
 "C09": "gcd_special_spec (Stein loop terminates within its fuel and returns gcd(|n|,10^e)), as_integer_ratio_spec, ratio_is_reduced (d>0, coprime, same value), ratio_of_equal_values, hash_of_equal_values (equal values feed the same words to any Hasher), kernel_hash_spec (the same for the translated impl Hash; the exact Hasher call sequence is also an observable of the correspondence run).",
 "C10": "rem_core_spec (all scale cases incl. the digit loop), rem_spec / checked_rem_spec / integer shapes, tmod_is_the_remainder (uniqueness of the truncated remainder); the overflow signal is allowed exactly where the statement allows it; integer operands range over the whole i128 range in both positions (rem_min_by_minus_one: the repaired D14).",
 "C11": "display_spec: for every flag/width/precision combination, every mode and profile, Display equals Spec.displaySpec (canonical text of d rounded to min(P,18) digits, zero-extended, sign from d, std padding); Formatter::pad_integral is a transcription shared by model and spec (assumed, exercised).",
 "C12": "into_float_spec (the model of f64::from / f32::from returns exactly Spec.intoFloat for every Decimal of the domain) and rne_is_nearest (that pattern is the nearest float among all bit patterns, even significand on ties); i128 as fN is assumed round-to-nearest-even.",
 "C13": "try_from_float_spec: for EVERY bit pattern of f64/f32 and every build profile Decimal::try_from returns InfiniteValue / NotANumber for the non-finite patterns, else the exact rational value of the pattern rounded half-even to 18 fractional digits with trailing zeros removed, or InternalOverflow when that coefficient exceeds i128 (at exactly -2^127: either); try_from_float_total (never panics); heven_nearest + normalizeSpec_value + from_float_nearest (the returned Decimal is within half a unit of the 18th digit of the exact value, the even one on a tie, no trailing fractional zero); from_float_integral (integral floats convert exactly).",
 "C14": "into_int_spec for the ten integer types (Ok iff integral and in range, NotAnIntValue iff not integral whatever the range, else ValueOutOfRange), spec_meaning, from_int_spec, try_from_u128_spec.",
 "C15": "floor/ceil/trunc/fract/neg/abs_spec, value_properties (the statement's inequalities), i128_magnitude_spec (the log10 bit trick equals floor(log10) for every 128-bit value; table below 100000 by kernel evaluation), magnitude_spec (0 for every zero), predicates_spec; num-traits forwarders only exercised (feature build).",
 "C16": "u128_mul_u128_spec, u256_idiv_u64_spec, u256_idiv_u128_special_spec (Knuth algorithm D incl. both correction loops), u256_idiv_u128_spec, i256_div_mod_floor_spec, i128_shifted_div_mod_floor_spec (x*y = q*m + r with 0 <= r < m, None iff the quotient exceeds i128), wide_mul / wide_div discharge the wide-path hypotheses of C02-C04, so mul/mul_rounded/div/checked_div/div_rounded/quantize_correct hold unconditionally; kernel ties: the translated u128_mul_u128, round_quot, i128_div_mod_floor and the two wide *_rounded wrappers equal the model.",
 "C17": "add_sub_int_eq / checked_add_sub_int_eq (integer bodies literally equal the Decimal body on Decimal::from(i)), same_expectation_* (both shapes satisfy one expectation; determined: a deterministic expectation fixes value-or-panic), same_cmp, mul_int_vs_decimal (the documented exception, both directions); reference/assign forwarders: macro definitions and invocations are part of the skeleton tie and every generated impl is called by the correspondence run.",
 "C18": "macro_fold_eq: the folding part of Dec! computes exactly Decimal::from_str on the same text (value, digit count, error kind) for every source string; the token path (lexer, TokenStream::to_string) is exercised by compiling generated Dec!(<lit>) programs with rustc and comparing with from_str.",
 "C19": "isolation: in the state-machine model (storage class and initial value read from the source) after ANY schedule thread t sees the mode it set last, else RoundHalfEven; a process-wide static would make the theorem false. thread_local! at run time is exercised by replaying schedules (exhaustive short ones + random) on real OS threads, each in a fresh process.",
 "C20": "*_profile_indep (operations equal to a profile-free value), *_same_obs (operations characterised by a deterministic expectation give the same value or both panic in any two profiles), add_overflow_never_silent; operations without any profile parameter are tied by the skeleton (checked_* sites). opt-level and repr(packed) are exercised by multi-profile builds whose outputs are diffed.",
}
for pid, text in D.items():
    t(pid, text + COMMON, TB, TECH)
checks = []
for p in props:
    pid = p["id"]
    text, note, tech = T[pid]
    checks.append({
        "property_id": pid,
        "quick_cmd": f"./check {pid} quick",
        "thorough_cmd": f"./check {pid} thorough",
        "evidence_file": f"/verif/evidence/{pid}.json",
        "replay_cmd_template": f"./check {pid} --replay {{path}}",
        "engine": "lean4-model",
        "level_claimed": {"category": "proof", "text": text, "design_ref": f"DESIGN.md section 6, {pid}"},
        "level_note": note,
        "technique": tech,
    })
m = {
    "version": 1,
    "setup_cmd": "./setup.sh",
    "hooks": {"guard": "fpdec_verif", "enable": "no hooks needed: everything observed is public or doc-hidden public API (new_raw, fpdec_core helpers)",
              "baseline_off_cmd": "cd /repo && cargo test --workspace --no-fail-fast --offline", "source_commits": [], "add_only": True},
    "engines": [{"name": "lean4-model", "path": "/verif/lean", "serves_properties": [p["id"] for p in props],
                 "kind_free_text": "Lean 4 executable model + spec + theorems; Rust line-protocol harness; Python orchestrator"}],
    "checks": checks,
    "not_applicable": [],
    "notes": "16 genuine defects were repaired in /repo as separate `fix:` commits (known_findings.json, DESIGN.md section 4); one open known finding (D8 int/int).",
}
json.dump(m, open(ROOT / "MANIFEST.json", "w"), indent=1)
print("MANIFEST.json written:", len(checks), "checks")
