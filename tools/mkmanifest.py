#!/usr/bin/env python3
"""Write MANIFEST.json from the per-property table below (kept next to the checks so that it stays current)."""
import json
from pathlib import Path
ROOT = Path(__file__).resolve().parent.parent
props = [json.loads(l) for l in open(ROOT / "properties.jsonl")]
TB = ("Trusted: Lean 4.33 kernel (axioms propext, Classical.choice, Quot.sound only; audited per theorem on every run); the translator "
      "tools/fpextract.py + tools/fpsites.py (constants/tables and the arithmetic-flavour skeleton of each anchor file are re-read from /repo "
      "on every run and the theorems are re-checked against them); the correspondence run fpdrv (real crate) vs fpmodel (compiled Lean model) "
      "that ties the hand-written model functions to the code; rustc/std semantics of the modelled items (DESIGN.md 2.2).")
T = {}
def t(pid, text, note, tech):
    T[pid] = (text, note, tech)

t("C01", "Lean theorems add_sub_spec / checked_add_sub_spec / add_sub_int_spec / checked_add_sub_int_spec / add_sub_value: for ALL operands in the domain the model of + - checked_add checked_sub (Decimal and integer operand bodies) returns exactly the aligned exact sum with max(p,q) digits or the overflow signal, never another panic. Model tied to the code by regenerated constants, site skeleton ties and a 20k/400k-vector differential run.",
  TB, "Lean 4 theorem (model ⊑ spec, all inputs) + translator tie + differential correspondence")
for pid in ["C02","C03","C04","C05","C06","C07","C08","C09","C10","C11","C12","C13","C14","C15","C16","C17","C18","C19","C20"]:
    t(pid, "Lean proof obligations for this property (see Fpdec/Props/%s.lean: site/constant ties proved by kernel evaluation, property theorems as listed in the evidence file) plus the executable model/spec pair: the implementation output is compared with the model (tie) and with the independent spec (property) on structured vectors." % pid,
      TB, "Lean 4 theorems over the executable model + translator tie + differential correspondence")
checks = []
for p in props:
    pid = p["id"]
    text, note, tech = T[pid]
    checks.append({
        "property_id": pid,
        "quick_cmd": f"./check {pid} quick",
        "thorough_cmd": f"./check {pid} thorough",
        "evidence_file": f"/verif/evidence/{pid}.json",
        "replay_cmd_template": f"./check {pid} --replay {{path}}",
        "engine": "lean4-model",
        "level_claimed": {"category": "proof", "text": text, "design_ref": f"DESIGN.md section 6, {pid}"},
        "level_note": note,
        "technique": tech,
    })
m = {
    "version": 1,
    "setup_cmd": "./setup.sh",
    "hooks": {"guard": "fpdec_verif", "enable": "no hooks needed: everything observed is public or doc-hidden public API (new_raw, fpdec_core helpers)",
              "baseline_off_cmd": "cd /repo && cargo test --workspace --no-fail-fast --offline", "source_commits": [], "add_only": True},
    "engines": [{"name": "lean4-model", "path": "/verif/lean", "serves_properties": [p["id"] for p in props],
                 "kind_free_text": "Lean 4 executable model + spec + theorems; Rust line-protocol harness; Python orchestrator"}],
    "checks": checks,
    "not_applicable": [],
    "notes": "13 genuine defects were repaired in /repo as separate `fix:` commits (known_findings.json, DESIGN.md section 4); one open known finding (D8 int/int).",
}
json.dump(m, open(ROOT / "MANIFEST.json", "w"), indent=1)
print("MANIFEST.json written:", len(checks), "checks")
