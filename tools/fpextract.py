#!/usr/bin/env python3
"""fpextract: regenerate lean/Fpdec/Gen/Consts.lean from /repo's *current* source.

Every constant and table that the Lean model (and therefore every theorem) depends on is read from the
Rust files on each run; the model refers to `Gen.*`, never to a literal.  A constant that can no longer be
found is reported (exit code 2, name on stderr) — the caller treats that as a broken tie.

usage: fpextract.py <repo> <out.lean>      (writes only when the content changes, so lake's cache stays warm)
"""
import re
import sys
from pathlib import Path


class Missing(Exception):
    pass


def num(s):
    s = s.replace("_", "").strip()
    for suf in ("u128", "i128", "u64", "u32", "u8", "isize", "usize", "i8", "i16"):
        if s.endswith(suf):
            s = s[: -len(suf)]
    if s.startswith("0x"):
        return int(s, 16)
    if s.startswith("0b"):
        return int(s, 2)
    return int(s)


def find(pattern, text, what, flags=re.S):
    m = re.search(pattern, text, flags)
    if not m:
        raise Missing(what)
    return m


def fn_body(text, name):
    """source text of `fn name(...) {...}` (brace matched)"""
    m = re.search(r"fn\s+" + re.escape(name) + r"\s*(<[^>]*>)?\s*\(", text)
    if not m:
        raise Missing("fn " + name)
    i = text.index("{", m.end())
    depth = 0
    for j in range(i, len(text)):
        if text[j] == "{":
            depth += 1
        elif text[j] == "}":
            depth -= 1
            if depth == 0:
                return text[i : j + 1]
    raise Missing("fn body " + name)


def extract(repo):
    repo = Path(repo)
    core = (repo / "fpdec-core/src/lib.rs").read_text()
    pot = (repo / "fpdec-core/src/powers_of_ten.rs").read_text()
    rnd = (repo / "fpdec-core/src/rounding.rs").read_text()
    prs = (repo / "fpdec-core/src/parser.rs").read_text()
    fstr = (repo / "src/from_str.rs").read_text()
    mac = (repo / "fpdec-macros/src/lib.rs").read_text()
    rounds = (repo / "src/round.rs").read_text()
    intof = (repo / "src/into_float.rs").read_text()
    fromf = (repo / "src/from_float.rs").read_text()
    c = {}
    m = find(r"const POWERS_OF_10: \[i128; (\d+)\] = \[(.*?)\];", pot, "POWERS_OF_10")
    tbl = [num(x) for x in m.group(2).split(",") if x.strip()]
    if len(tbl) != int(m.group(1)):
        raise Missing("POWERS_OF_10 length")
    c["POWERS_OF_10"] = tbl
    c["CHECKED_TEN_POW_LIMIT"] = num(find(r"if n > (\w+)\s*\{\s*None", fn_body(pot, "checked_ten_pow"), "checked_ten_pow limit").group(1))
    c["MAX_N_FRAC_DIGITS"] = num(find(r"pub const MAX_N_FRAC_DIGITS: u8 = (\w+);", core, "MAX_N_FRAC_DIGITS").group(1))
    b = fn_body(core, "u8")
    def cexpr(body, name):
        m = find(r"const " + name + r": u32 = ([^;]+);", body, name)
        e = m.group(1).replace("_", "")
        parts = [p.strip() for p in e.split("-")]
        v = num(parts[0])
        for p in parts[1:]:
            v -= num(p)
        return v
    c["LOG_U8_C1"], c["LOG_U8_C2"] = cexpr(b, "C1"), cexpr(b, "C2")
    if not re.search(r"\(\(val \+ C1\) & \(val \+ C2\)\) >> 8", b):
        raise Missing("fn u8 expression")
    b = fn_body(core, "less_than_5")
    for i in range(1, 5):
        c[f"LOG_LT5_C{i}"] = cexpr(b, f"C{i}")
    if not re.search(r"\(\(\(val \+ C1\) & \(val \+ C2\)\) \^ \(\(val \+ C3\) & \(val \+ C4\)\)\) >> 17", b):
        raise Missing("fn less_than_5 expression")
    b = fn_body(core, "u32")
    c["LOG_U32_T"] = num(find(r"if val >= ([\d_]+)", b, "u32 threshold").group(1))
    b = fn_body(core, "u64")
    t = re.findall(r"if val >= ([\d_]+)", b)
    if len(t) != 2:
        raise Missing("u64 thresholds")
    c["LOG_U64_T1"], c["LOG_U64_T2"] = num(t[0]), num(t[1])
    b = fn_body(core, "u128")
    t = re.findall(r"if val >= ([\d_]+)", b)
    if len(t) != 2:
        raise Missing("u128 thresholds")
    c["LOG_U128_T1"], c["LOG_U128_T2"] = num(t[0]), num(t[1])
    m = find(r"const IDX_MAP: \[u8; 16\] =\s*\[(.*?)\];", fn_body(core, "u128_msb"), "IDX_MAP")
    c["MSB_IDX_MAP"] = [num(x) for x in m.group(1).split(",") if x.strip()]
    b = fn_body(prs, "chunk_contains_8_digits")
    c["SWAR_SUB"] = num(find(r"wrapping_sub\((0x[0-9a-f]+)\)", b, "SWAR_SUB").group(1))
    c["SWAR_ADD"] = num(find(r"wrapping_add\((0x[0-9a-f]+)\)", b, "SWAR_ADD").group(1))
    c["SWAR_HI"] = num(find(r"& (0x[0-9a-f]+) == 0", b, "SWAR_HI").group(1))
    b = fn_body(prs, "chunk_to_u64")
    hx = re.findall(r"0x[0-9a-f]+", b)
    muls = re.findall(r"wrapping_mul\((\d+)\)", b)
    if muls != ["10", "100", "10000"] or len(hx) != 7:
        raise Missing("chunk_to_u64 shape")
    c["SWAR_M1"], c["SWAR_M2"], c["SWAR_M3"], c["SWAR_M4"] = num(hx[0]), num(hx[1]), num(hx[3]), num(hx[5])
    if num(hx[2]) != c["SWAR_M2"] or num(hx[4]) != c["SWAR_M3"] or num(hx[6]) != c["SWAR_M4"]:
        raise Missing("chunk_to_u64 masks")
    b = fn_body(prs, "accum_coeff")
    c["PARSE_CHUNK_MUL"] = num(find(r"saturating_mul\((\d+)\)", b, "PARSE_CHUNK_MUL").group(1))
    b = fn_body(prs, "accum_exp")
    c["EXP_LIMIT_DIV"] = num(find(r"const EXP_LIMIT: isize = isize::MAX / (\d+);", b, "EXP_LIMIT").group(1))
    b = fn_body(fstr, "from_str")
    c["FROM_STR_MAX_EXP"] = num(find(r"if exponent > (\d+)", b, "from_str max exp").group(1))
    mm = num(find(r"if exponent > (\d+)", mac, "Dec! max exp").group(1))
    if mm != c["FROM_STR_MAX_EXP"]:
        raise Missing("Dec! / from_str exponent limits differ")
    sh = re.findall(r"self\.n_frac_digits as i8 - (\d+)", rounds)
    if len(sh) != 2 or sh[0] != sh[1]:
        raise Missing("round shortcut bound")
    c["ROUND_MAX_SHIFT"] = num(sh[0])
    sd = re.findall(r"i128_div_rounded\(self\.coeff\.signum\(\), (\d+), None\)", rounds)
    if len(sd) != 2 or sd[0] != sd[1]:
        raise Missing("round signum divisor")
    c["ROUND_SIGNUM_DIVISOR"] = num(sd[0])
    b = fn_body(intof, "from_decimal")
    c["FLT_EXTRA_BITS"] = num(find(r"const EXTRA_BITS: u32 = (\d+);", b, "EXTRA_BITS").group(1))
    m = find(r"const MASK_EXTRA_BITS: \[u128; 2\] = \[(.*?)\];", b, "MASK_EXTRA_BITS")
    c["FLT_MASK_EXTRA_BITS"] = [num(x) for x in m.group(1).split(",") if x.strip()]
    c["FLT_TIE"] = num(find(r"const TIE: u32 = (\d+);", b, "TIE").group(1))
    c["FROM_FLT_MIN_EXP"] = -num(find(r"if exponent < -(\d+)", fn_body(fromf, "try_from"), "from_float min exp").group(1))
    mins = re.findall(r"if exponent < -(\d+)", fromf)
    if len(set(mins)) != 1:
        raise Missing("from_float min exp differs between f32/f64")
    c["FROM_FLT_MAGN_I128_MAX"] = num(find(r"const MAGN_I128_MAX: u8 = (\d+);", fromf, "from_float MAGN").group(1))
    # float decoding constants
    b = fn_body(fromf, "f64_decode")
    m = find(r"\(\(bits >> (\d+)\) & (0x[0-9a-f]+)\) as i16.*?assert_ne!\(biased_exp, (0x[0-9a-f]+)\).*?bits & (0x[0-9a-f]+);.*?fraction \| (0x[0-9a-f]+),.*?biased_exp - (\d+) - (\d+),", b, "f64_decode")
    c["F64_DECODE"] = [num(x) for x in m.groups()]
    sb = find(r"\(bits >> (\d+)\) as u8", b, "f64 sign shift").group(1)
    c["F64_DECODE"].append(num(sb))
    b = fn_body(fromf, "f32_decode")
    m = find(r"\(\(bits >> (\d+)\) & (0x[0-9a-f]+)\) as i16.*?assert_ne!\(biased_exp, (0x[0-9a-f]+)\).*?\(bits & (0x[0-9a-f]+)\) as u64;.*?fraction \| (0x[0-9a-f]+),.*?biased_exp - (\d+) - (\d+),", b, "f32_decode")
    c["F32_DECODE"] = [num(x) for x in m.groups()]
    sb = find(r"\(bits >> (\d+)\) as u8", b, "f32 sign shift").group(1)
    c["F32_DECODE"].append(num(sb))
    # rounding mode storage
    std_part = rnd
    tl = re.search(r"thread_local!\(\s*static DFLT_ROUNDING_MODE: RefCell<RoundingMode> =\s*RefCell::new\(RoundingMode::(\w+)\)", std_part)
    if tl:
        c["DFLT_MODE_THREAD_LOCAL"] = True
        c["DFLT_MODE_INIT"] = tl.group(1)
    else:
        st = find(r'#\[cfg\(feature = "std"\)\]\s*static\s+(?:mut\s+)?DFLT_ROUNDING_MODE[^=]*=\s*[^;]*RoundingMode::(\w+)', std_part, "DFLT_ROUNDING_MODE")
        c["DFLT_MODE_THREAD_LOCAL"] = False
        c["DFLT_MODE_INIT"] = st.group(1)
    # the `Decimal` struct: its fields and the feature-gated glue attached to it by attributes
    libs = (repo / "src/lib.rs").read_text()
    m = find(r"((?:\s*(?://[^\n]*|#\[(?:[^\[\]]|\[[^\]]*\])*\])\s*)*)pub struct Decimal \{(.*?)\n\}", libs, "struct Decimal")
    attrs, fields = re.sub(r"//[^\n]*", "", m.group(1)), m.group(2)
    c["DECIMAL_FIELDS"] = re.findall(r"^\s*(?:pub(?:\([a-z]+\))?\s+)?(\w+):\s*([\w:<>]+),", fields, re.M)
    sa = find(r'#\[cfg_attr\(\s*feature = "serde-as-str",(.*?)\)\]', attrs, "serde-as-str attribute of Decimal").group(1)
    c["SERDE_DERIVES"] = re.findall(r"serde::(\w+)", find(r"derive\(([^)]*)\)", sa, "serde derive").group(1))
    c["SERDE_INTO"] = find(r'serde\(\s*into = "(\w+)"\s*\)', sa, "serde(into)").group(1)
    c["SERDE_TRY_FROM"] = find(r'serde\(\s*try_from = "(\w+)"\s*\)', sa, "serde(try_from)").group(1)
    c["SERDE_OTHER_ATTRS"] = len(re.findall(r"\bserde\(", sa)) - 2
    # hand-written serde impls anywhere in the crate would bypass the derive
    allsrc = "".join(p_.read_text() for p_ in sorted((repo / "src").rglob("*.rs")))
    c["SERDE_MANUAL_IMPLS"] = len(re.findall(r"impl\b[^{;]*\b(?:Serialize|Deserialize)\b[^{;]*\bfor\s+Decimal\b", re.sub(r"//[^\n]*", "", allsrc))) \
        - len(re.findall(r"impl\b[^{;]*\brkyv::(?:Serialize|Deserialize)\b[^{;]*\bfor\s+Decimal\b", re.sub(r"//[^\n]*", "", allsrc)))
    ra = find(r'#\[cfg_attr\(\s*all\(feature = "rkyv", not\(feature = "packed"\)\),(.*?)\)\]\s*#\[cfg_attr\(feature = "packed"', attrs, "rkyv attribute of Decimal").group(1)
    c["RKYV_DERIVES"] = re.findall(r"rkyv::(\w+)", find(r"derive\(([^)]*)\)", ra, "rkyv derive").group(1))
    # the associated constants of `Decimal` (ZERO, ONE, …, MAX, MIN, DELTA): name, coefficient, fractional digits
    def cval(e):
        e = e.strip().replace("_i128", "").replace("_u8", "")
        if e == "MAX_N_FRAC_DIGITS":
            return c["MAX_N_FRAC_DIGITS"]
        mm = re.fullmatch(r"(i128::MAX|i128::MIN|-?[\d_]+)(?:\s*([+-])\s*([\d_]+))?", e)
        if not mm:
            raise Missing("constant expression " + e)
        v = {"i128::MAX": 2 ** 127 - 1, "i128::MIN": -(2 ** 127)}.get(mm.group(1))
        if v is None:
            v = int(mm.group(1).replace("_", ""))
        if mm.group(2):
            v = v + int(mm.group(3).replace("_", "")) if mm.group(2) == "+" else v - int(mm.group(3).replace("_", ""))
        return v
    dc = re.findall(r"pub const (\w+): Self = Self \{\s*coeff: ([^,]+),\s*n_frac_digits: ([^,]+),\s*\};", re.sub(r"//[^\n]*", "", libs))
    if not dc:
        raise Missing("associated constants of Decimal")
    c["DECIMAL_CONSTS"] = [(n_, cval(a_), cval(b_)) for n_, a_, b_ in dc]
    m = find(r'#\[cfg\(all\(feature = "rkyv", feature = "packed"\)\)\]\s*#\[derive\(Copy, Clone\)\]\s*#\[repr\(C, packed\)\]\s*pub struct ArchivedDecimal \{(.*?)\n\}', libs, "struct ArchivedDecimal (packed)")
    c["ARCHIVED_FIELDS"] = re.findall(r"^\s*(?:pub(?:\([a-z]+\))?\s+)?(\w+):\s*([\w:<>]+),", m.group(1), re.M)
    m = find(r"pub enum RoundingMode \{(.*?)\n\}", rnd, "enum RoundingMode")
    c["ROUNDING_MODE_VARIANTS"] = re.findall(r"^\s*(Round\w+),", m.group(1), re.M)
    return c


def lean_list(xs, per=6):
    return ", ".join(str(x) for x in xs)


def render(c):
    L = []
    L.append("/-! GENERATED by tools/fpextract.py from /repo — do not edit.  Constants and tables read from the Rust source. -/")
    L.append("namespace Fpdec.Gen")
    L.append("")
    L.append("/-- fpdec-core/src/powers_of_ten.rs `POWERS_OF_10` -/")
    L.append("def POWERS_OF_10 : Array Int := #[" + lean_list(c["POWERS_OF_10"]) + "]")
    def nat(name, doc=None):
        if doc:
            L.append(f"/-- {doc} -/")
        L.append(f"def {name} : Nat := {c[name]}")
    nat("CHECKED_TEN_POW_LIMIT", "`checked_ten_pow`: `if n > LIMIT { None }`")
    nat("MAX_N_FRAC_DIGITS")
    nat("LOG_U8_C1", "log10 bit trick, `fn u8`"); nat("LOG_U8_C2")
    nat("LOG_LT5_C1", "`fn less_than_5`"); nat("LOG_LT5_C2"); nat("LOG_LT5_C3"); nat("LOG_LT5_C4")
    nat("LOG_U32_T"); nat("LOG_U64_T1"); nat("LOG_U64_T2"); nat("LOG_U128_T1"); nat("LOG_U128_T2")
    L.append("def MSB_IDX_MAP : Array Nat := #[" + lean_list(c["MSB_IDX_MAP"]) + "]")
    nat("SWAR_SUB", "parser SWAR constants"); nat("SWAR_ADD"); nat("SWAR_HI"); nat("SWAR_M1"); nat("SWAR_M2"); nat("SWAR_M3"); nat("SWAR_M4")
    nat("PARSE_CHUNK_MUL")
    nat("EXP_LIMIT_DIV", "`EXP_LIMIT = isize::MAX / EXP_LIMIT_DIV`")
    nat("FROM_STR_MAX_EXP", "from_str / Dec!: `exponent > FROM_STR_MAX_EXP`")
    nat("ROUND_MAX_SHIFT", "round.rs: shortcut for `n < p - ROUND_MAX_SHIFT`"); nat("ROUND_SIGNUM_DIVISOR")
    nat("FLT_EXTRA_BITS", "into_float.rs")
    L.append("def FLT_MASK_EXTRA_BITS : Array Nat := #[" + lean_list(c["FLT_MASK_EXTRA_BITS"]) + "]")
    nat("FLT_TIE")
    L.append("/-- from_float.rs -/")
    L.append(f"def FROM_FLT_MIN_EXP : Int := {c['FROM_FLT_MIN_EXP']}")
    nat("FROM_FLT_MAGN_I128_MAX")
    L.append("/-- `f64_decode`: exponent shift, exponent mask, NaN/inf exponent, fraction mask, integer bit, bias, fraction shift, sign shift -/")
    L.append("def F64_DECODE : Array Nat := #[" + lean_list(c["F64_DECODE"]) + "]")
    L.append("def F32_DECODE : Array Nat := #[" + lean_list(c["F32_DECODE"]) + "]")
    L.append("/-- default rounding mode: storage class (`true` = `thread_local!`) and initial variant -/")
    L.append(f"def DFLT_MODE_THREAD_LOCAL : Bool := {'true' if c['DFLT_MODE_THREAD_LOCAL'] else 'false'}")
    L.append(f"def DFLT_MODE_INIT : String := \"{c['DFLT_MODE_INIT']}\"")
    L.append("/-- the `Decimal` struct and its feature-gated glue (src/lib.rs): fields, serde-as-str attributes, rkyv derives, packed mirror -/")
    def pairs(xs):
        return "[" + ", ".join(f'("{a}", "{b}")' for a, b in xs) + "]"
    def strs(xs):
        return "[" + ", ".join(f'"{a}"' for a in xs) + "]"
    L.append(f"def DECIMAL_FIELDS : List (String × String) := {pairs(c['DECIMAL_FIELDS'])}")
    L.append(f"def ARCHIVED_FIELDS : List (String × String) := {pairs(c['ARCHIVED_FIELDS'])}")
    L.append(f"def SERDE_DERIVES : List String := {strs(c['SERDE_DERIVES'])}")
    L.append(f"def SERDE_INTO : String := \"{c['SERDE_INTO']}\"")
    L.append(f"def SERDE_TRY_FROM : String := \"{c['SERDE_TRY_FROM']}\"")
    L.append(f"def SERDE_OTHER_ATTRS : Nat := {c['SERDE_OTHER_ATTRS']}")
    L.append(f"def SERDE_MANUAL_IMPLS : Nat := {c['SERDE_MANUAL_IMPLS']}")
    L.append("def DECIMAL_CONSTS : List (String × Int × Nat) := [" + ", ".join(f'("{n_}", {a_}, {b_})' for n_, a_, b_ in c["DECIMAL_CONSTS"]) + "]")
    L.append(f"def RKYV_DERIVES : List String := {strs(c['RKYV_DERIVES'])}")
    L.append("def ROUNDING_MODE_VARIANTS : List String := [" + ", ".join(f'"{v}"' for v in c["ROUNDING_MODE_VARIANTS"]) + "]")
    L.append("")
    L.append("end Fpdec.Gen")
    return "\n".join(L) + "\n"


def main():
    repo, out = sys.argv[1], Path(sys.argv[2])
    try:
        c = extract(repo)
    except Missing as e:
        print(f"fpextract: cannot find {e}", file=sys.stderr)
        sys.exit(2)
    txt = render(c)
    if not out.exists() or out.read_text() != txt:
        out.write_text(txt)
        print("fpextract: updated", out)
    else:
        print("fpextract: unchanged")


if __name__ == "__main__":
    main()
