#!/usr/bin/env python3
"""fpsites: regenerate lean/Fpdec/Gen/Sites.lean — the ordered *flavour skeleton* of every source file.

For the non-test part of each Rust file the ordered list of arithmetic / safety relevant tokens is emitted as a
list of small codes: which operations are `checked_*`, `wrapping_*`, `saturating_*`, plain `+ - * << / %`, casts
(`as T`), `debug_assert!`, `assert!`, `panic!`, `unsafe`, `get_unchecked`, `unwrap`, comparison constants … in source order.
The Lean side pins the skeleton the model was written against (`Fpdec/Model/Pinned.lean`); each property's theorem
file proves `Gen.sites_<file> = Pinned.sites_<file>` by `decide` for the files that anchor the property.  A change
such as `checked_add → +`, a dropped `debug_assert!`, or `saturating_mul → wrapping_mul` breaks that obligation even
when no dev-profile run can observe it.

usage: fpsites.py <repo> <out.lean> [--pin <pinned.lean>]
"""
import re
import sys
from pathlib import Path

FILES = [
    "fpdec-core/src/lib.rs", "fpdec-core/src/powers_of_ten.rs", "fpdec-core/src/rounding.rs", "fpdec-core/src/parser.rs",
    "fpdec-macros/src/lib.rs",
    "src/lib.rs", "src/round.rs", "src/unops.rs", "src/quantize.rs", "src/format.rs", "src/from_str.rs", "src/from_int.rs",
    "src/into_int.rs", "src/from_float.rs", "src/into_float.rs", "src/as_integer_ratio.rs", "src/num_traits.rs",
    "src/binops/mod.rs", "src/binops/add_sub.rs", "src/binops/checked_add_sub.rs", "src/binops/mul.rs",
    "src/binops/checked_mul.rs", "src/binops/mul_rounded.rs", "src/binops/div.rs", "src/binops/checked_div.rs",
    "src/binops/div_rounded.rs", "src/binops/rem.rs", "src/binops/checked_rem.rs", "src/binops/cmp.rs",
]

# token classes, in priority order (first match wins at a position)
TOKENS = [
    (1, r"\bchecked_add\b"), (2, r"\bchecked_sub\b"), (3, r"\bchecked_mul\b"), (4, r"\bchecked_(?:neg|div|rem|pow|abs|shl|shr)\b"),
    (5, r"\bwrapping_\w+\b"), (6, r"\bsaturating_\w+\b"), (7, r"\boverflowing_\w+\b"), (8, r"\bunchecked_\w+\b"),
    (9, r"\bdebug_assert\w*!"), (10, r"\bassert\w*!"), (11, r"\bpanic!"), (12, r"\bunreachable!"),
    (13, r"\.unwrap\(\)"), (14, r"\.expect\("), (15, r"\bget_unchecked\b"), (16, r"\bread_unaligned\b"), (17, r"\bunsafe\b"),
    (18, r"\bchecked_mul_pow_ten\b"), (19, r"\bmul_pow_ten\b"), (20, r"\bchecked_ten_pow\b"), (21, r"\bten_pow\b"),
    (22, r"\bi128_div_rounded\b"), (23, r"\bi128_shifted_div_rounded\b"), (24, r"\bi128_mul_div_ten_pow_rounded\b"),
    (25, r"\bi128_div_mod_floor\b"), (26, r"\bi128_shifted_div_mod_floor\b"), (27, r"\bi256_div_mod_floor\b"),
    (28, r"\bround_quot\b"), (29, r"\bchecked_adjust_coeffs\b"), (30, r"\bchecked_div_rounded\b"), (31, r"\bchecked_mul_rounded\b"),
    (32, r"\bnormalize\b"), (33, r"\bunsigned_abs\b"), (34, r"\.abs\(\)"), (35, r"\.neg\(\)"), (36, r"\.signum\(\)"),
    (37, r"\bthread_local!"), (38, r"\bstatic\b"), (39, r"\bRefCell\b"), (40, r"\.pow\("),
    (41, r"\bleading_zeros\b"), (42, r"\btrailing_zeros\b"), (43, r"\bis_negative\b"), (44, r"\bis_positive\b"),
    (45, r"\beq_zero\b"), (46, r"\beq_one\b"), (47, r"\bfract\b"), (48, r"\bfrom_bits\b|\bto_bits\b"),
    (50, r"\bas (?:u8|i8|u16|i16|u32|i32|u64|i64|u128|i128|usize|isize|f32|f64|Self)\b"),
    (51, r"<<="), (52, r">>="), (53, r"\+="), (54, r"-="), (55, r"\*="), (56, r"/="), (57, r"%="), (58, r"\|="), (59, r"&="),
    (60, r"<<"), (61, r">>"), (62, r"=="), (63, r"!="), (64, r"<="), (65, r">="), (66, r"&&"), (67, r"\|\|"),
    (68, r"(?<![=<>!+\-*/%&|^])=(?!=)"),
    (70, r"->"), (71, r"=>"),
    (72, r"\+"), (73, r"-"), (74, r"\*"), (75, r"/"), (76, r"%"), (77, r"&"), (78, r"\|"), (79, r"\^"), (80, r"<"), (81, r">"), (82, r"!"),
    (90, r"\bif\b"), (91, r"\belse\b"), (92, r"\bmatch\b"), (93, r"\bwhile\b"), (94, r"\breturn\b"), (95, r"\bbreak\b"),
    (96, r"\bNone\b"), (97, r"\bSome\b"), (98, r"\bOk\b"), (99, r"\bErr\b"), (100, r"\?"),
    (101, r"\bOrdering::Less\b"), (102, r"\bOrdering::Equal\b"), (103, r"\bOrdering::Greater\b"),
    (104, r"\bRound(?:05Up|Ceiling|Down|Floor|HalfDown|HalfEven|HalfUp|Up)\b"),
    (105, r"\bInternalOverflow\b"), (106, r"\bDivisionByZero\b"), (107, r"\bMaxNFracDigitsExceeded\b"), (108, r"\bInvalid\b"),
    (109, r"\bFracDigitLimitExceeded\b"), (110, r"\bEmpty\b"), (111, r"\bNotAnIntValue\b"), (112, r"\bValueOutOfRange\b"),
    (113, r"\bInfiniteValue\b"), (114, r"\bNotANumber\b"), (115, r"\bMAX_N_FRAC_DIGITS\b"), (116, r"\bZERO\b"), (117, r"\bONE\b"),
]
# numeric literals are encoded as 1000 + value mod 9000 so that changed bounds show up
NUM = re.compile(r"\b(0x[0-9a-fA-F_]+|0b[01_]+|\d[\d_]*)(?:_?(?:u8|i8|u16|i16|u32|i32|u64|i64|u128|i128|usize|isize))?\b")
# macro invocations / definitions by name (forwarders of the operand forms, impl generators): code 200 + crc32(name) % 700
MACRO = re.compile(r"\b(?:forward_\w+|impl_\w+|macro_rules)\s*!")
# every other name that is *called* or selected — function / method / macro names (identifier before `(`), path segments after
# `::`, and macro metavariables `$name` — by hash: 10000 + crc32(name) % 50000 (calls, path segments), 60000 + crc32 % 5000 (metavariables).
# Local variable names are deliberately not part of the skeleton (renaming one changes nothing).
CALL = r"\b[A-Za-z_][A-Za-z0-9_]*(?=\s*\()|(?<=::)[A-Za-z_][A-Za-z0-9_]*"
META = r"\$[A-Za-z_][A-Za-z0-9_]*"
MASTER = re.compile("(?P<mac>" + MACRO.pattern + ")|" + "|".join(f"(?P<t{c}>{p})" for c, p in TOKENS) +
                    "|(?P<meta>" + META + ")|(?P<call>" + CALL + ")|(?P<num>" + NUM.pattern + ")")


def strip_tests_and_comments(src):
    lines = src.split("\n")
    out = []
    k = 0
    n = len(lines)
    while k < n:
        if lines[k].strip() == "#[cfg(test)]":
            j = k + 1
            while j < n and not lines[j].lstrip().startswith("mod "):
                j += 1
            depth, started = 0, False
            while j < n:
                depth += lines[j].count("{") - lines[j].count("}")
                started = started or "{" in lines[j]
                j += 1
                if started and depth == 0:
                    break
            while out and out[-1].strip().startswith("#[cfg(feature"):
                out.pop()
            k = j
            continue
        out.append(lines[k])
        k += 1
    txt = "\n".join(out)
    txt = re.sub(r"//[^\n]*", "", txt)
    txt = re.sub(r"/\*.*?\*/", "", txt, flags=re.S)
    txt = re.sub(r'"(?:[^"\\]|\\.)*"', '""', txt)          # string literals
    txt = re.sub(r"#!?\[[^\]]*\]", "", txt)                # attributes
    txt = re.sub(r"\bb?'(?:[^'\\]|\\.)'", "0", txt)        # char literals (keep lifetimes)
    return txt


def skeleton(src):
    txt = strip_tests_and_comments(src)
    codes = []
    for m in MASTER.finditer(txt):
        if m.group("mac"):
            import zlib
            name = re.sub(r"\s*!$", "", m.group("mac"))
            codes.append(200 + zlib.crc32(name.encode()) % 700)
        elif m.group("meta"):
            import zlib
            codes.append(60000 + zlib.crc32(m.group("meta").encode()) % 5000)
        elif m.group("call"):
            import zlib
            codes.append(10000 + zlib.crc32(m.group("call").encode()) % 50000)
        elif m.lastgroup == "num" or m.group("num"):
            s = m.group("num")
            s2 = re.sub(r"_?(u8|i8|u16|i16|u32|i32|u64|i64|u128|i128|usize|isize)$", "", s).replace("_", "")
            try:
                v = int(s2, 16) if s2.startswith("0x") else int(s2, 2) if s2.startswith("0b") else int(s2)
            except ValueError:
                v = 0
            codes.append(1000 + v % 9000)
        else:
            codes.append(int(m.lastgroup[1:]))
    return codes


def ident(path):
    return "sites_" + re.sub(r"[^a-zA-Z0-9]", "_", path.replace(".rs", ""))


def render(repo, namespace):
    L = [f"/-! GENERATED by tools/fpsites.py — flavour skeleton of the Rust sources (namespace {namespace}). -/",
         f"namespace {namespace}", ""]
    for f in FILES:
        p = Path(repo) / f
        if not p.exists():
            raise FileNotFoundError(f)
        codes = skeleton(p.read_text())
        L.append(f"/-- {f}: {len(codes)} tokens -/")
        L.append(f"def {ident(f)} : List Nat := [" + ", ".join(map(str, codes)) + "]")
    L += ["", f"end {namespace}"]
    return "\n".join(L) + "\n"


def main():
    repo, out = sys.argv[1], Path(sys.argv[2])
    ns = "Fpdec.Gen"
    if len(sys.argv) > 3 and sys.argv[3] == "--pin":
        ns = "Fpdec.Pinned"
    try:
        txt = render(repo, ns)
    except FileNotFoundError as e:
        print(f"fpsites: source file missing: {e}", file=sys.stderr)
        sys.exit(2)
    if not out.exists() or out.read_text() != txt:
        out.write_text(txt)
        print("fpsites: updated", out)
    else:
        print("fpsites: unchanged")


if __name__ == "__main__":
    main()
