#!/usr/bin/env python3
"""Request generators for the correspondence check (one PRNG, seeded by the caller).

Structured, mostly-valid inputs: coefficients from boundary-rich pools, all 19 scales, all 8 modes,
constructed classes (ties, exact quotients, i128 edges, wide intermediates, near-miss literals).
Each generator yields request lines of the protocol in DESIGN.md appendix A.
"""
import random

MAX = 2**127 - 1
MODES = ["05up", "ceil", "down", "floor", "hdown", "heven", "hup", "up"]
FORMS4 = ["vv", "rv", "vr", "rr"]
FORMS5 = FORMS4 + ["as", "ar"]       # `x op= y` and `x op= &y`
INT_TYPES = {
    "u8": (0, 2**8 - 1), "i8": (-2**7, 2**7 - 1), "u16": (0, 2**16 - 1), "i16": (-2**15, 2**15 - 1),
    "u32": (0, 2**32 - 1), "i32": (-2**31, 2**31 - 1), "u64": (0, 2**64 - 1), "i64": (-2**63, 2**63 - 1),
    "i128": (-MAX - 1, MAX),
}


class G:
    def __init__(self, seed):
        self.r = random.Random(seed)

    # ---------------------------------------------------------------- pools
    def clamp(self, c):
        return max(-MAX, min(MAX, c))

    def coeff(self):
        r = self.r
        k = r.randrange(14)
        if k == 0:
            c = r.choice([0, 1, -1, 2, -2, 5, -5, 10, -10])
        elif k == 1:
            c = 10 ** r.randrange(0, 39) + r.choice([-1, 0, 0, 1])
        elif k == 2:
            c = 2 ** r.randrange(0, 127) + r.choice([-2, -1, 0, 1, 2])
        elif k == 3:
            c = MAX - r.randrange(0, 1000)
        elif k == 4:
            c = MAX // 10 ** r.randrange(0, 39) + r.choice([-1, 0, 1])
        elif k == 5:
            c = r.randrange(1, 10 ** r.randrange(1, 20)) * 10 ** r.randrange(0, 19)
        elif k == 6:
            c = r.randrange(0, 10000)
        elif k == 7:
            c = 5 * 10 ** r.randrange(0, 38) + r.choice([-1, 0, 0, 1])
        elif k == 8:
            c = 2 ** 64 * r.randrange(1, 2 ** 40) + r.choice([-1, 0, 1])
        elif k == 9:
            # limits of the narrower machine integers (fast paths cast through them), possibly scaled
            c = 2 ** r.choice([7, 8, 15, 16, 31, 32, 53, 63, 63, 64, 64, 96, 126]) + r.choice([-1, 0, 0, 1])
            if r.random() < 0.3:
                c *= 10 ** r.randrange(1, 19)
        else:
            c = r.getrandbits(r.randrange(1, 128))
        c = self.clamp(c)
        if r.random() < 0.45:
            c = -c
        return c

    def scale(self):
        r = self.r
        return r.choice([0, 0, 18, 18, 1, 17, 9]) if r.random() < 0.35 else r.randrange(0, 19)

    def dec(self):
        if self.r.random() < 0.04:
            return 0, self.r.randrange(0, 19)      # non-normalised zero
        return self.coeff(), self.scale()

    def mode(self):
        return self.r.choice(MODES)

    def small(self):
        return self.r.choice([1, -1]) * self.r.randrange(0, 3000)

    def int_of(self, ty):
        lo, hi = INT_TYPES[ty]
        r = self.r
        k = r.randrange(8)
        if k == 0:
            v = r.choice([lo, hi, lo + 1, hi - 1, 0, 1])
        elif k == 1:
            v = r.choice([0, 1, 2, 3, 5, 7, 10, 100, -1, -2, -3, -10])
        elif k == 2:
            v = self.coeff()
        elif k == 3:
            v = 10 ** r.randrange(0, 39) * r.choice([1, -1])
        else:
            v = r.randrange(lo, hi + 1)
        return max(lo, min(hi, v))

    def same_value_pair(self):
        """two representations of one value"""
        c, p = self.dec()
        q = self.r.randrange(0, 19)
        if q >= p and abs(c) * 10 ** (q - p) <= MAX:
            return (c, p), (c * 10 ** (q - p), q)
        return (c, p), (c, p)

    def wrap_pair(self):
        """(a, p), (b, q): scaling a to q digits overflows an i128 and wraps (mod 2^128) exactly onto b — or next to it"""
        r = self.r
        for _ in range(50):
            k = r.randrange(1, 19)
            p = r.randrange(0, 19 - k)
            a = r.choice([2 ** r.randrange(100, 127) + r.randrange(0, 4), self.coeff(), r.randrange(MAX // 10 ** k + 1, MAX)])
            a = self.clamp(a) * r.choice([1, -1])
            if abs(a) * 10 ** k <= MAX:
                continue
            w = (a * 10 ** k + 2 ** 127) % 2 ** 128 - 2 ** 127
            if abs(w) <= MAX:
                b = self.clamp(w + r.choice([0, 0, 0, 1, -1]))
                pair = ((a, p), (b, p + k))
                return pair if r.random() < 0.5 else (pair[1], pair[0])
        return self.dec(), self.dec()

    # ---------------------------------------------------------------- C01
    def c01(self, n):
        r = self.r
        for _ in range(n):
            k = r.randrange(10)
            op = r.choice(["add", "sub", "cadd", "csub"])
            if k < 5:
                (a, p), (b, q) = self.dec(), self.dec()
                if k == 0:  # sum exactly at / beyond the i128 edge after alignment
                    m = max(p, q)
                    tgt = r.choice([MAX, MAX + 1, -MAX - 1, -MAX - 2, MAX - 1, -MAX])
                    a = self.clamp(a // 10 ** (m - p) if m > p else a)
                    a2 = a * 10 ** (m - p)
                    b2 = tgt - a2 if op in ("add", "cadd") else a2 - tgt
                    if q == m and abs(b2) <= MAX:
                        b = b2
                form = r.choice(FORMS5 if op in ("add", "sub") else FORMS4)
                yield f"{self.mode()} {op} {form} {a} {p} {b} {q}"
            else:
                ty = r.choice(list(INT_TYPES))
                pos = r.choice("lr")
                forms = FORMS5 if (op in ("add", "sub") and pos == "r") else FORMS4
                a, p = self.dec()
                i = self.int_of(ty)
                if k == 5:  # at the edge
                    lo, hi = INT_TYPES[ty]
                    i = r.choice([lo, hi])
                    a = r.choice([MAX, -MAX, MAX - abs(i) if abs(i) < MAX else 0, a])
                elif k == 7 and r.random() < 0.5:
                    # the integer re-expressed with p digits overflows, although the exact sum would fit: must be the overflow signal
                    ty = "i128"
                    p = r.randrange(1, 19)
                    sg = r.choice([1, -1])
                    i = sg * (MAX // 10 ** p + 1 + r.randrange(0, 1000))
                    t = r.randrange(0, 10 ** p)
                    sub = op in ("sub", "csub")
                    # pos r: a op i ; pos l: i op a — choose a so that the exact result is small
                    if pos == "r":
                        a = (i * 10 ** p + sg * t) if sub else -(i * 10 ** p) + sg * t
                    else:
                        a = (i * 10 ** p - sg * t) if sub else -(i * 10 ** p) + sg * t
                    a = self.clamp(a)
                elif k == 6:  # exact result exactly at / one beyond the i128 limits (-2^127 is still an i128)
                    tgt = r.choice([-MAX - 1, -MAX - 2, MAX, MAX + 1, -MAX])
                    i = max(INT_TYPES[ty][0], min(INT_TYPES[ty][1], r.choice([1, -1, 2, -2, 7, -7, i])))
                    p = 0 if r.random() < 0.6 else p
                    s10 = i * 10 ** p
                    sub = op in ("sub", "csub")
                    # pos l: i op a ; pos r: a op i
                    if pos == "l":
                        a = (s10 - tgt) if sub else (tgt - s10)
                    else:
                        a = (tgt + s10) if sub else (tgt - s10)
                    if abs(a) > MAX: a = self.clamp(a)
                yield f"{self.mode()} i{op} {ty} {pos} {r.choice(forms)} {a} {p} {i}"

    # ---------------------------------------------------------------- C02
    def tie_product(self, s):
        """a, b with a*b ≡ 5·10^(s-1) (mod 10^s)"""
        r = self.r
        j = r.randrange(0, s)
        b = 5 * 10 ** j
        a = (2 * r.randrange(0, 10 ** r.randrange(1, 12)) + 1) * 10 ** (s - 1 - j)
        while abs(a) > MAX:
            a //= 10
        return a, b

    def c02(self, n):
        r = self.r
        for _ in range(n):
            if r.random() < 0.04:
                yield self.wide_boundary()
                continue
            k = r.randrange(12)
            op = r.choice(["mul", "mul", "cmul"])
            if k < 8:
                (a, p), (b, q) = self.dec(), self.dec()
                if k == 0 and p + q > 18:  # ties on the rounded path
                    a, b = self.tie_product(p + q - 18)
                    a *= r.choice([1, -1]); b *= r.choice([1, -1])
                elif k == 1:  # operands equal to one / zero in any scale
                    if r.random() < 0.5: a = r.choice([10 ** p, 0])
                    else: b = r.choice([10 ** q, 0])
                elif k == 2:  # product straddling 2^127
                    b = r.choice([1, -1]) * r.randrange(1, 10 ** r.randrange(1, 19))
                    a = (MAX + r.randrange(-3, 4) * abs(b)) // b
                    a = self.clamp(a)
                elif k == 3 and p + q > 18:  # wide product, exact multiple of 10^shift, any sign
                    s = p + q - 18
                    a = self.clamp(r.randrange(1, 10 ** 20) * 10 ** s) * r.choice([1, -1])
                    b = r.randrange(10 ** 18, 10 ** 20) * r.choice([1, -1])
                elif k == 4 and p + q > 18:  # rounded result near the edge
                    s = p + q - 18
                    b = r.randrange(1, 10 ** min(s + 2, 30)) * r.choice([1, -1])
                    a = self.clamp((MAX * 10 ** s + r.randrange(-2, 3) * 10 ** s // 2) // b)
                form = r.choice(FORMS5 if op == "mul" else FORMS4)
                yield f"{self.mode()} {op} {form} {a} {p} {b} {q}"
            else:
                ty = r.choice(list(INT_TYPES))
                pos = r.choice("lr")
                iop = r.choice(["imul", "icmul"])
                forms = FORMS5 if (iop == "imul" and pos == "r") else FORMS4
                a, p = self.dec()
                i = self.int_of(ty)
                if k == 8 and i != 0:
                    a = self.clamp((MAX + r.randrange(-2, 3) * abs(i)) // i)
                yield f"{self.mode()} {iop} {ty} {pos} {r.choice(forms)} {a} {p} {i}"

    # ---------------------------------------------------------------- C03
    def c03(self, n):
        r = self.r
        for _ in range(n):
            if r.random() < 0.04:
                yield self.wide_boundary()
                continue
            k = r.randrange(12)
            op = r.choice(["div", "div", "cdiv"])
            if k < 8:
                (a, p), (b, q) = self.dec(), self.dec()
                if k == 0:  # small operands: ties and exact quotients are frequent
                    a, b = self.small(), r.choice([1, 2, 3, 4, 5, 6, 7, 8, 16, 25, 32, 64, 125, 3000, -2, -4, -8, -5])
                    a *= 10 ** r.randrange(0, 3)
                elif k == 1:  # tie in the 19th digit: x = (2k+1)·10^e, y = 2·10^t
                    t = r.randrange(0, 19)
                    e = t + 1 - 19 - q + p
                    if e >= 0:
                        a = self.clamp((2 * r.randrange(0, 10 ** 10) + 1) * 10 ** e) * r.choice([1, -1])
                        b = 2 * 10 ** t * r.choice([1, -1])
                elif k == 2:  # exact quotient on the wide path, every sign pattern (D10 class)
                    b = r.choice([1, -1]) * 10 ** r.randrange(15, 25) * r.choice([1, 2, 4, 5, 8])
                    a = self.clamp(b * r.randrange(1, 10 ** 12)) * r.choice([1, -1])
                    p = q = 0
                elif k == 3:  # quotient coefficient around ±(2^127-1)
                    b = r.randrange(1, 10 ** r.randrange(1, 19))
                    sh = 18 + q - p
                    num = (MAX + r.randrange(-2, 3)) * b
                    a = self.clamp(num // 10 ** sh if sh >= 0 else num * 10 ** -sh)
                    a += r.randrange(-1, 2)
                    a = self.clamp(a) * r.choice([1, -1])
                elif k == 4:  # divisor one / zero in any scale
                    b = r.choice([10 ** q, 0, -(10 ** q)])
                elif k == 5:  # large divisor (> 2^64), wide path
                    b = r.choice([1, -1]) * r.randrange(2 ** 64, 2 ** 126)
                form = r.choice(FORMS5 if op == "div" else FORMS4)
                yield f"{self.mode()} {op} {form} {a} {p} {b} {q}"
            else:
                ty = r.choice(list(INT_TYPES))
                pos = r.choice("lr")
                iop = r.choice(["idiv", "icdiv"])
                forms = FORMS5 if (iop == "idiv" and pos == "r") else FORMS4
                a, p = self.dec()
                i = self.int_of(ty)
                if k == 8:
                    i = r.choice([0, 1, 2, 3, 5, 7]) if INT_TYPES[ty][0] == 0 else r.choice([0, 1, -1, 2, -3, 7])
                if k == 9 and pos == "l":
                    a = r.choice([10 ** p, 0, a])
                yield f"{self.mode()} {iop} {ty} {pos} {r.choice(forms)} {a} {p} {i}"

    # ---------------------------------------------------------------- C04
    def nfd(self):
        r = self.r
        return r.randrange(0, 19) if r.random() < 0.9 else r.choice([19, 20, 37, 38, 39, 40, 100, 237, 238, 255])

    def c04(self, n):
        r = self.r
        for _ in range(n):
            if r.random() < 0.04:
                yield self.wide_boundary()
                continue
            k = r.randrange(16)
            if r.random() < 0.03:
                # the integer dividend at a limit of its type (i128::MIN included) by ±1, ±2, ±3 as Decimal (any scale) or as integer,
                # few result digits: `i128::MIN / -1` is the one machine division that overflows (must be an overflow signal)
                ty = r.choice(list(INT_TYPES)); lo_, hi_ = INT_TYPES[ty]
                i = r.choice([lo_, lo_, hi_, lo_ + 1]); nn = r.choice([0, 0, 0, 1, 2, 18])
                if r.random() < 0.5:
                    j = max(lo_, min(hi_, r.choice([-1, -1, 1, -2, 3])))
                    yield f"{self.mode()} iidivr {ty} {r.choice(FORMS4)} {i} {j} {nn}"
                else:
                    q = r.choice([0, 0, 0, 1, 5, 18]); b = r.choice([-1, -1, 1, -2, 3, -(10 ** q)])
                    op = r.choice(["idivr", "idivr", "iquant"])
                    if op == "idivr":
                        yield f"{self.mode()} idivr {ty} l {r.choice(FORMS4)} {b} {q} {i} {nn}"
                    else:
                        yield f"{self.mode()} iquant {ty} l vv {b} {q} {i}"
                continue
            if k < 4:  # mul_rounded
                (a, p), (b, q) = self.dec(), self.dec()
                nn = self.nfd()
                if k == 0 and nn < p + q and nn <= 18:
                    a, b = self.tie_product(p + q - nn)
                    a *= r.choice([1, -1]); b *= r.choice([1, -1])
                elif k == 1:
                    a, b = self.small(), self.small()
                yield f"{self.mode()} mulr {r.choice(FORMS4)} {a} {p} {b} {q} {nn}"
            elif k < 9:  # div_rounded Decimal/Decimal
                (a, p), (b, q) = self.dec(), self.dec()
                nn = self.nfd()
                if k == 4:  # divisor-scaled branch where truncation of the first quotient matters (D7 class)
                    nn = r.randrange(0, max(1, p - q)) if p > q else 0
                    s = p - nn - q
                    if s > 0:
                        b = r.randrange(2, 10 ** r.randrange(1, 6)) * r.choice([1, -1])
                        kq = r.randrange(0, 10 ** 6)
                        rr = r.randrange(1, abs(b))
                        a = self.clamp(abs(b) * (kq * 10 ** s + 5 * 10 ** (s - 1)) + rr) * r.choice([1, -1])
                elif k == 5:
                    a, b = self.small(), r.choice([1, 2, 3, 4, 5, 6, 7, 8, 16, 25, 40, 125, -2, -3, -8])
                elif k == 6:  # wide path
                    nn = r.randrange(10, 19)
                    b = r.choice([1, -1]) * r.randrange(1, 2 ** 100)
                yield f"{self.mode()} divr {r.choice(FORMS4)} {a} {p} {b} {q} {nn}"
            elif k < 11:  # quantize
                (a, p), (b, q) = self.dec(), self.dec()
                if k == 9:
                    a, b = self.small() * 10 ** r.randrange(0, 4), r.choice([1, 2, 5, 25, 50, 3, 7, -2, -5, 0])
                if r.random() < 0.6:
                    yield f"{self.mode()} quant {a} {p} {b} {q}"
                else:
                    ty = r.choice(list(INT_TYPES)); pos = r.choice("lr")
                    i = self.int_of(ty)
                    if r.random() < 0.5:
                        i = max(INT_TYPES[ty][0], min(INT_TYPES[ty][1], r.choice([1, 2, 3, 5, 7, 10, 100, -2, -3, 0])))
                    yield f"{self.mode()} iquant {ty} {pos} vv {a} {p} {i}"
            elif k < 14:  # Decimal/int, int/Decimal
                ty = r.choice(list(INT_TYPES)); pos = r.choice("lr")
                a, p = self.dec(); i = self.int_of(ty)
                if k == 11:
                    a = self.small() * 10 ** r.randrange(0, 3)
                    i = max(INT_TYPES[ty][0], min(INT_TYPES[ty][1], r.choice([1, 2, 3, 4, 5, 7, 8, 0, -2, -3, -8])))
                yield f"{self.mode()} idivr {ty} {pos} {r.choice(FORMS4)} {a} {p} {i} {self.nfd()}"
            else:  # int/int
                ty = r.choice(list(INT_TYPES))
                i, j = self.int_of(ty), self.int_of(ty)
                if k == 14:
                    lo, hi = INT_TYPES[ty]
                    i = max(lo, min(hi, self.small())); j = max(lo, min(hi, r.choice([1, 2, 3, 4, 7, 8, 0, -3, -8])))
                if r.random() < 0.85:
                    yield f"{self.mode()} iidivr {ty} {r.choice(FORMS4)} {i} {j} {self.nfd()}"
                else:
                    yield f"{self.mode()} iiquant {ty} {i} {j}"

    # ---------------------------------------------------------------- C05
    def c05_grid(self):
        """the full class grid of the integer rounding kernel: sign × last digit × remainder class × mode"""
        for m in MODES:
            for sign in (1, -1):
                for digit in range(10):
                    for d, rems in ((4, (0, 1, 2, 3)), (7, (0, 3, 4)), (10, (0, 4, 5, 6))):
                        for rem in rems:
                            n = sign * ((30 + digit) * d + rem)
                            yield f"{m} kdivr {n} {d}"
                            yield f"{m} kdivr {-n} {-d}"

    def c05(self, n):
        r = self.r
        yield from self.c05_grid()
        for _ in range(n):
            k = r.randrange(8)
            a, p = self.dec()
            nn = r.randrange(-128, 128) if r.random() < 0.3 else r.randrange(-40, 20)
            if k == 0:  # coefficients k·10^s + {0, 1, 5·10^(s-1) ± 1, 10^s - 1}
                s = r.randrange(1, 20)
                base = r.randrange(0, 10 ** 8) * 10 ** s
                a = self.clamp(base + r.choice([0, 1, 5 * 10 ** (s - 1) - 1, 5 * 10 ** (s - 1), 5 * 10 ** (s - 1) + 1, 10 ** s - 1]))
                a *= r.choice([1, -1])
                nn = p - s
                if not -128 <= nn <= 127: nn = 0
            elif k == 1:  # far negative (shift > 38) and around it
                nn = p - r.choice([37, 38, 39, 40, 56])
                a = r.choice([a, 1, -1, 0, MAX, -MAX, 6 * 10 ** 37, -6 * 10 ** 37, 12 * 10 ** 37])
            elif k == 2:  # overflow on shifting back
                nn = -r.randrange(1, 39)
                a = r.choice([MAX, -MAX, 5 * 10 ** 37, 10 ** 38 - 1, a])
            if k == 3:
                yield f"{self.mode()} kdivr {a} {self.coeff() or 1}"
            else:
                yield f"{self.mode()} {r.choice(['round', 'cround'])} {a} {p} {nn}"

    # ---------------------------------------------------------------- C06
    @staticmethod
    def hx(s):
        b = s if isinstance(s, bytes) else s.encode()
        return b.hex() if b else "-"

    def digits(self, n):
        return "".join(self.r.choice("0123456789") for _ in range(n))

    def literal(self):
        r = self.r
        k = r.randrange(12)
        sign = r.choice(["", "", "+", "-"])
        if k == 0:  # around powers of two / ten boundaries
            v = r.choice([2 ** 127, 2 ** 128, 10 ** 38, 2 ** 127 * r.randrange(1, 30), 2 ** 128 * r.randrange(1, 30),
                          2 ** 128 + 10 ** 38, 2 ** 256, 10 ** 39]) + r.randrange(-2, 3)
            s = str(v)
            if r.random() < 0.5:
                cut = r.randrange(0, len(s) + 1)
                s = s[:cut] + "." + s[cut:]
            body = s
        elif k == 1:  # long digit strings
            body = self.digits(r.randrange(1, 81))
            if r.random() < 0.6:
                cut = r.randrange(0, len(body) + 1)
                body = body[:cut] + "." + body[cut:]
        elif k == 2:  # leading zeros in integer part / fraction
            body = "0" * r.randrange(0, 45) + self.digits(r.randrange(0, 5))
            if r.random() < 0.7:
                body += "." + "0" * r.randrange(0, 45) + self.digits(r.randrange(0, 6))
        elif k == 3:  # exactly at the 18 fractional digit limit
            f = r.choice([17, 18, 19, 20])
            body = self.digits(r.randrange(0, 21)) + "." + self.digits(f)
        elif k == 4:  # the limits of i128 themselves, as plain integers a fast path may hand to `i128::from_str`: -2^127 is an i128
            #               but not a Decimal coefficient
            sign = r.choice(["-", "-", "", "+"])
            body = "0" * r.choice([0, 0, 0, 1, 5]) + str(r.choice([2 ** 127, 2 ** 127, 2 ** 127 - 1, 2 ** 127 + 1]))
            if r.random() < 0.8:
                return sign + body
            body += r.choice([".", ".0", ""])
        else:
            ip = self.digits(r.randrange(0, 22)) if r.random() < 0.9 else ""
            fp = "." + self.digits(r.randrange(0, 22)) if r.random() < 0.6 else ""
            body = ip + fp
        exp = ""
        if r.random() < 0.5:
            e = r.choice([r.randrange(-45, 46), r.randrange(-20, 21), r.choice([38, 39, 99, 100, 101, -18, -19, 0])])
            es = str(abs(e))
            if r.random() < 0.2: es = "0" * r.randrange(1, 4) + es
            if r.random() < 0.05: es = self.digits(r.randrange(3, 30))
            exp = r.choice("eE") + (r.choice(["", "+"]) if e >= 0 else "-") + es
        return sign + body + exp

    def c06(self, n):
        r = self.r
        fixed = ["", "0", "-0", "+0", "0.", ".0", ".", "0e5", "0.e3", "00e1", "1e+", "1e-", "1e", "e5", "1e001", "0e99",
                 "-0e99", "0.0000000000000000000000000000000000000001e22", "440282366920938463463374607431768211456",
                 "170141183460469231731687303715884105727", "170141183460469231731687303715884105728",
                 "-170141183460469231731687303715884105727", "-170141183460469231731687303715884105728",
                 "1e38", "1e39", "17e37", "18e37", "0.1e39", "1.5", "1.5e1", "1.5e-17", "1.5e-18", " 1", "1 ", "1_0",
                 "+-1", "--1", "1..2", "1.2.3", "1e1e1", "１", "1e5.", "0x10", "inf", "nan", "1E+0005", "-.5", "+.5e-17",
                 "0.000000000000000000", "0.0000000000000000000", "3402823669209384634633746074317682114567",
                 "1.25e-99999999999999999999", "1e99999999999999999999", "0e99999999999999999999",
                 "12345678", "123456789", "1234567812345678", "12345678.12345678", "1234567.12345678e1"]
        for s in fixed:
            yield f"heven parse {self.hx(s)}"
            yield f"heven s2d {self.hx(s)}"
        for _ in range(n):
            k = r.randrange(11)
            if k == 9 and r.random() < 0.3:
                # exponent next to isize::MAX, isize::MAX/10, isize::MAX/100 (the saturation limit) with 0..25 fractional digits
                base = r.choice([2 ** 63 - 1, (2 ** 63 - 1) // 10, (2 ** 63 - 1) // 100, 2 ** 63, 2 ** 64])
                e = base + r.randrange(-12, 13)
                fd = r.randrange(0, 26)
                s = r.choice(["", "-", "+"]) + r.choice(["0", "1", "12", "0"]) + ("." + "0" * r.randrange(0, fd + 1) + self.digits(1) if fd else "")
                s = s[: s.find(".") + 1 + fd] if "." in s else s
                s += r.choice("eE") + r.choice(["-", "-", "+", ""]) + str(e)
                yield f"heven {r.choice(['parse', 's2d'])} {self.hx(s)}"
                continue
            if k == 8 and r.random() < 0.4:
                # a valid literal with white space or a line end before / after it (never accepted, by no entry point)
                s = self.literal()
                ws = r.choice(["\n", "\r\n", "\r", "\n\n", " ", "\t", "\x0b", "\x0c"])
                s = s + ws if r.random() < 0.7 else ws + s
                yield f"heven parse {self.hx(s)}"
                continue
            if k == 7 and r.random() < 0.4:
                # long but harmless literals: leading zeros, trailing fractional zeros compensated by the exponent (60..130 bytes)
                ip = "0" * r.randrange(20, 60) + (self.digits(r.randrange(1, 20)).lstrip("0") or "1")
                fz = r.randrange(0, 45)
                fp = ("." + self.digits(r.randrange(0, 6)) + "0" * fz) if r.random() < 0.8 else ""
                ex = r.choice("eE") + r.choice(["", "+"]) + str(r.randrange(0, 25)) if r.random() < 0.6 else ""
                s = r.choice(["", "-", "+"]) + ip + fp + ex
                yield f"heven {r.choice(['parse', 's2d'])} {self.hx(s)}"
                continue
            if k == 10:
                # a long digit run (the 8-byte SWAR window applies) with one byte replaced by a neighbour of '0'..'9' in ASCII
                # ('/' and ':' ';' '<' '=' '>' '?'), or by a byte that differs from a digit in one bit
                d = self.digits(r.randrange(8, 30))
                i = r.randrange(len(d))
                ch = r.choice("/:;<=>?/:" + "\x10\x20 pqrstuvwxy@ABCDEFGHI\x7f")
                d = d[:i] + ch + d[i + 1:]
                form = r.randrange(4)
                s = d if form == 0 else ("0." + d if form == 1 else (self.digits(r.randrange(1, 12)) + "." + d if form == 2
                                                                  else r.choice("+-") + d))
                yield f"heven {r.choice(['parse', 's2d'])} {self.hx(s)}"
                continue
            if k < 6:
                s = self.literal()
            elif k < 8:  # single-byte mutation of a valid literal
                s = self.literal()
                if s:
                    i = r.randrange(len(s))
                    m = r.randrange(3)
                    ch = r.choice("0123456789.eE+- _x/:;<=>?")
                    s = s[:i] + (ch + s[i:] if m == 0 else s[i + 1:] if m == 1 else ch + s[i + 1:])
            elif k == 8:  # raw bytes (valid utf-8 by construction: ascii + a few multibyte chars)
                s = "".join(r.choice("0123456789.eE+-\x00\x7f aé０१") for _ in range(r.randrange(0, 20)))
            else:
                s = self.digits(r.randrange(1, 9) * 8 + r.randrange(0, 3))  # exercises the 8-digit chunk loop
                if r.random() < 0.5:
                    i = r.randrange(len(s)); s = s[:i] + "." + s[i:]
            yield f"heven {r.choice(['parse', 'parse', 's2d'])} {self.hx(s)}"

    # ---------------------------------------------------------------- C07
    def c07(self, n, op="str"):
        r = self.r
        for c, p in [(0, 0), (0, 5), (0, 18), (MAX, 0), (-MAX, 0), (MAX, 18), (-MAX, 18), (-5, 1), (5, 18), (-1, 18),
                     (10 ** 18, 18), (-10 ** 18, 18), (10 ** 17, 18), (1, 1)]:
            yield f"heven {op} {c} {p}"
        for _ in range(n):
            a, p = self.dec()
            if r.random() < 0.3:  # values in (-1, 1) with leading fraction zeros
                a = r.choice([1, -1]) * r.randrange(0, 10 ** r.randrange(0, p + 1))
            yield f"{self.mode()} {op} {a} {p}"

    # ---------------------------------------------------------------- C08
    def c08(self, n, rk=False):
        r = self.r
        for _ in range(n):
            k = r.randrange(10)
            if k < 6 or rk:
                if k == 0:
                    (a, p), (b, q) = self.same_value_pair()
                elif k == 1:  # alignment overflow
                    a = r.choice([MAX, -MAX, MAX - 1, MAX // 10 + r.randrange(-1, 2)]); p = r.randrange(0, 10)
                    b = r.choice([MAX, -MAX, MAX - 1, self.coeff()]); q = r.randrange(p, 19)
                    if r.random() < 0.5: (a, p), (b, q) = (b, q), (a, p)
                elif k == 2:  # neighbours
                    (a, p), (b, q) = self.same_value_pair()
                    b = self.clamp(b + r.choice([-1, 1]))
                elif k == 3:  # alignment overflow that wraps onto the other coefficient
                    (a, p), (b, q) = self.wrap_pair()
                else:
                    (a, p), (b, q) = self.dec(), self.dec()
                yield f"heven {'rkyv' if rk else 'cmp'} {a} {p} {b} {q}"
            else:
                ty = r.choice(list(INT_TYPES)); pos = r.choice("lr")
                a, p = self.dec(); i = self.int_of(ty)
                if k == 6 and r.random() < 0.35 and ty != "i128":
                    # the Decimal is integral and congruent to the integer modulo 2^bits of its type, but outside the type's range
                    # (a narrowing cast of the Decimal's integral part would call them equal)
                    bits_ = {"u8": 8, "i8": 8, "u16": 16, "i16": 16, "u32": 32, "i32": 32, "u64": 64, "i64": 64}[ty]
                    v = i + r.choice([1, -1, 2, 3, -2]) * 2 ** bits_
                    p = r.choice([0, 0, 1, 3, 9])
                    a = v * 10 ** p
                elif k == 6:  # equal values
                    if abs(i) * 10 ** p <= MAX: a = i * 10 ** p
                elif k == 7:  # scaling the int overflows
                    i = max(INT_TYPES[ty][0], min(INT_TYPES[ty][1], r.choice([1, -1]) * 10 ** r.randrange(18, 39)))
                    p = r.randrange(1, 19)
                elif k == 8:  # scaling the int overflows and wraps (mod 2^128) exactly onto the coefficient
                    ty = "i128"
                    for _ in range(20):
                        p = r.randrange(1, 19)
                        i = r.choice([1, -1]) * r.choice([2 ** r.randrange(100, 127) + r.randrange(0, 3), r.randrange(MAX // 10 ** p + 1, MAX)])
                        w = (i * 10 ** p + 2 ** 127) % 2 ** 128 - 2 ** 127
                        if abs(w) <= MAX and abs(i) <= MAX:
                            a = w + r.choice([0, 0, 0, 1, -1]); a = self.clamp(a)
                            break
                yield f"heven {r.choice(['ieq', 'icmp'])} {ty} {pos} vv {a} {p} {i}"

    # ---------------------------------------------------------------- C09
    def c09(self, n):
        r = self.r
        for _ in range(n):
            k = r.randrange(6)
            a, p = self.dec()
            if k == 0:  # 2^i·5^j·k
                a = self.clamp(2 ** r.randrange(0, 60) * 5 ** r.randrange(0, 27) * r.randrange(1, 1000)) * r.choice([1, -1])
            elif k == 1:
                a = self.clamp(2 ** 64 + r.choice([5, 9, 25, 125, 1])) * r.choice([1, -1])
            elif k == 2:
                a = r.choice([1, -1]) * r.choice([5, 15, 25, 50, 125, 1125, 2827095, 5 ** 18, 5 ** 27])
            op = r.choice(["ratio", "ratio", "hash", "hashfeed"])
            if op in ("hash", "hashfeed") or r.random() < 0.7:
                yield f"heven {op} {a} {p}"
            else:
                kk = r.randrange(4)
                if kk == 0:      # different values that a wrapping comparison would call equal
                    (a, p), (b, q) = self.wrap_pair()
                elif kk == 1 and r.random() < 0.5:
                    # a coefficient at the i128 limit against an operand whose scale-up overflows: a comparison that clamps the
                    # overflowing side to the limit would call them equal (values, ratios and hashes differ)
                    p = r.randrange(1, 19); q = r.randrange(0, p)
                    a = r.choice([MAX, MAX, -MAX, MAX - 1])
                    b = r.choice([MAX, MAX, -MAX, MAX // 10 ** (p - q) + 1 + r.randrange(0, 10 ** 6), self.clamp(r.randrange(MAX // 10, MAX))])
                    if r.random() < 0.5: (a, p), (b, q) = (b, q), (a, p)
                elif kk == 1:    # arbitrary pair
                    (a, p), (b, q) = self.dec(), self.dec()
                else:
                    (a, p), (b, q) = self.same_value_pair()
                yield f"heven hasheq {a} {p} {b} {q}"

    # ---------------------------------------------------------------- C10
    def c10(self, n):
        r = self.r
        for _ in range(n):
            k = r.randrange(12)
            op = r.choice(["rem", "rem", "crem"])
            if k < 8:
                (a, p), (b, q) = self.dec(), self.dec()
                if k == 0:  # dividend needs up-scaling beyond i128
                    p = r.randrange(0, 10); q = r.randrange(p + 1, 19)
                    a = r.choice([MAX, -MAX, self.clamp(MAX // 10 ** r.randrange(0, q - p + 1) + r.randrange(-1, 2))])
                    b = r.choice([self.coeff(), MAX // 10 + r.randrange(-2, 3), MAX // 10 + 10 ** 20, 3, 7, 10 ** 19 + 1])
                elif k == 1:  # divisor-side overflow
                    q = r.randrange(0, 10); p = r.randrange(q + 1, 19)
                    b = r.choice([MAX, -MAX, 10 ** 37, -(10 ** 37), 12 * 10 ** 34, MAX // 10 ** (p - q) + r.randrange(-1, 2)])
                    a = r.choice([MAX, -MAX, a, MAX - 10 ** 38])
                elif k == 2:
                    a, b = self.small(), self.small()
                elif k == 3:
                    b = r.choice([10 ** q, -(10 ** q), 0])
                    if r.random() < 0.5:
                        # any power of ten as divisor (a short cut "take the trailing digits" is tempting), dividends with 38 / 39 digits
                        b = r.choice([1, -1]) * 10 ** r.randrange(0, 39)
                        a = r.choice([a, MAX, -MAX, 10 ** 38, 10 ** 38 + r.randrange(0, 10 ** 20), MAX - r.randrange(0, 10 ** 30)])
                elif k == 4:  # limits of the narrower machine integers against ±1 and other tiny divisors (MIN % -1 traps)
                    w = r.choice([7, 15, 31, 63, 63, 63, 64, 32])
                    a = r.choice([-(2 ** w), 2 ** w, -(2 ** w) + 1, 2 ** w - 1, -(2 ** w) - 1])
                    b = r.choice([-1, -1, 1, -2, 3, -3])
                    q = p if r.random() < 0.7 else q
                form = r.choice(FORMS5 if op == "rem" else FORMS4)
                yield f"{self.mode()} {op} {form} {a} {p} {b} {q}"
            else:
                ty = r.choice(list(INT_TYPES)); pos = r.choice("lr")
                iop = "i" + op
                forms = FORMS5 if (iop == "irem" and pos == "r") else FORMS4
                a, p = self.dec(); i = self.int_of(ty)
                if k == 8:
                    i = max(INT_TYPES[ty][0], min(INT_TYPES[ty][1], r.choice([0, 1, 2, 3, 7, -1, -3, 10 ** 35])))
                elif k == 9:
                    # the integer at a limit of its type (i128::MIN included) against a Decimal whose coefficient is ±1, ±2, ±3 or
                    # which equals ±one: `MIN % -1` traps of the machine remainder, at every scale (D14)
                    lo_, hi_ = INT_TYPES[ty]
                    i = r.choice([lo_, lo_, hi_, lo_ + 1])
                    a = r.choice([-1, -1, 1, -2, 3, -(10 ** p), 10 ** p])
                yield f"{self.mode()} {iop} {ty} {pos} {r.choice(forms)} {a} {p} {i}"

    # ---------------------------------------------------------------- C11
    def c11(self, n):
        r = self.r
        for _ in range(n):
            a, p = self.dec()
            k = r.randrange(6)
            if k == 0:  # carries: 9.99…
                a = self.clamp(10 ** r.randrange(1, 30) - r.randrange(1, 6)) * r.choice([1, -1])
            elif k == 1:  # rounds to zero with a negative sign
                a = -r.randrange(0, 10 ** r.randrange(0, p + 1))
            elif k == 2:
                a = self.small()
            fill, align = r.choice([("-", "-"), ("-", "<"), ("-", "^"), ("-", ">"), ("42", "<"), ("42", "^"), ("42", ">"),
                                    ("35", ">"), ("35", "^")])
            plus = r.choice(["-", "-", "+"]); zero = r.choice(["-", "-", "0"])
            width = "-" if r.random() < 0.3 else str(r.randrange(0, 61))
            prec = "-" if r.random() < 0.25 else str(r.randrange(0, 41) if r.random() < 0.5 else r.randrange(0, p + 2))
            yield f"{self.mode()} fmt {a} {p} {fill} {align} {plus} {zero} {width} {prec}"

    # ---------------------------------------------------------------- C12
    def float_midpoint(self, fb):
        """a decimal sitting exactly on / next to a midpoint between two adjacent floats"""
        r = self.r
        e = r.randrange(-19, 60 if fb == 52 else 100)  # value ≈ 2^e · M
        M = r.getrandbits(fb) | (1 << fb)              # fb+1 bit significand
        num = 2 * M + 1                                 # odd ⇒ midpoint of M and M+1 at one more bit
        ex = e - 1
        # value = num · 2^ex ; need ≤ 18 fractional digits: 2^ex with ex ≥ -18 has ≤ 18 digits
        if ex >= 0:
            c, p = num * 2 ** ex, 0
        else:
            if -ex > 18: return None
            c, p = num * 5 ** (-ex), -ex
        if p < 18 and r.random() < 0.5:
            k = r.randrange(0, 18 - p + 1); c *= 10 ** k; p += k
        c += r.choice([-1, 0, 0, 1])
        if abs(c) > MAX: return None
        return c * r.choice([1, -1]), p

    def c12(self, n):
        r = self.r
        for c, p in [(0, 0), (0, 5), (1, 0), (-1, 0), (1, 18), (MAX, 0), (MAX, 18), (-MAX, 18), (99999999999999999, 17),
                     (99999999, 8), (5400485801696777, 14), (9007199254740993, 0), (900719925474099175, 2), (167772155, 1)]:
            yield f"heven tof64 {c} {p}"
            yield f"heven tof32 {c} {p}"
        for _ in range(n):
            k = r.randrange(6)
            fb = r.choice([52, 23])
            op = "tof64" if fb == 52 else "tof32"
            if k < 3:
                m = self.float_midpoint(fb)
                if m is None: continue
                a, p = m
            elif k == 3:  # significand all ones (carry into the exponent)
                a = (2 ** (fb + 1) - 1) * 2 ** r.randrange(0, 40) + r.randrange(0, 3); p = self.scale()
                a = self.clamp(a) * r.choice([1, -1])
            else:
                a, p = self.dec()
            yield f"{self.mode()} {op} {a} {p}"

    # ---------------------------------------------------------------- C13
    def float_binades(self):
        """every binade of both formats (all exponent fields), with the smallest, the largest and a random significand, both signs:
        an off-by-one in any exponent guard of the conversion shows up here"""
        r = self.r
        for fb, eb, op in ((52, 11, "fromf64"), (23, 8, "fromf32")):
            for be in range(0, 2 ** eb - 1):
                for frac in (0, (1 << fb) - 1, r.getrandbits(fb)):
                    sign = r.getrandbits(1)
                    yield f"{self.mode()} {op} {(sign << (fb + eb)) | (be << fb) | frac}"

    def c13(self, n):
        r = self.r
        yield from self.float_binades()
        specials64 = [0, 1 << 63, 0x7ff0000000000000, 0xfff0000000000000, 0x7ff8000000000000, 0x7ff0000000000001, 1,
                      0x000fffffffffffff, 0x0010000000000000, 0x3ff0000000000000, 0x47e0000000000000,
                      0x47dfffffffffffff, 0xc7e0000000000000, 0x7fefffffffffffff]
        for b in specials64: yield f"{self.mode()} fromf64 {b}"
        specials32 = [0, 1 << 31, 0x7f800000, 0xff800000, 0x7fc00000, 1, 0x007fffff, 0x00800000, 0x3f800000, 0x7f000000,
                      0x7effffff, 0xff000000, 0x7f7fffff]
        for b in specials32: yield f"{self.mode()} fromf32 {b}"
        for _ in range(n):
            k = r.randrange(8)
            if r.random() < 0.55:
                fb, eb, bias, op = 52, 11, 1023, "fromf64"
            else:
                fb, eb, bias, op = 23, 8, 127, "fromf32"
            if k == 0 and r.random() < 0.5:
                # the floats around a midpoint (m + 1/2)·10^-18 of the result grid, m from 0 to 10^17 (tiny values included)
                import struct
                from fractions import Fraction
                m = r.choice([0, 1, 2, 7, 12345, r.randrange(0, 10 ** r.randrange(1, 18))])
                x = float(Fraction(2 * m + 1, 2 * 10 ** 18))
                if fb == 52:
                    bits = struct.unpack("<Q", struct.pack("<d", x))[0] + r.randrange(-3, 4)
                else:
                    bits = struct.unpack("<I", struct.pack("<f", x))[0] + r.randrange(-3, 4)
                bits = max(0, bits)
            elif k == 0:
                bits = r.getrandbits(fb + eb + 1)
            elif k in (1, 2):  # odd multiples of 2^-j, j = 19..60: exact ties / near ties at the 18th digit
                j = r.randrange(19, 61)
                odd = 2 * r.randrange(0, 2 ** r.randrange(1, fb)) + 1
                # value = odd / 2^j (+ small integer part) → bits
                ip = r.randrange(0, 1000) if r.random() < 0.3 else 0
                num = odd + ip * 2 ** j
                e = num.bit_length() - 1
                if e > fb: continue
                frac = (num << (fb - e)) & ((1 << fb) - 1)
                be = e - j + bias
                if not 0 < be < 2 ** eb - 1: continue
                bits = (be << fb) | frac
            elif k == 3:  # around the i128 limit
                be = bias + r.choice([125, 126, 127, 128, 120])
                bits = (be << fb) | r.getrandbits(fb)
            elif k == 4:  # tiny (exponent < -126 and around)
                be = r.randrange(0, bias - 55)
                bits = (be << fb) | r.getrandbits(fb)
            elif k == 5:  # around 0.5e-18 … 2^-60
                be = bias + r.randrange(-64, -56)
                bits = (be << fb) | r.getrandbits(fb)
            else:  # integral values
                be = bias + r.randrange(0, 127)
                bits = (be << fb) | (r.getrandbits(fb) & ~((1 << r.randrange(0, fb)) - 1))
            if r.random() < 0.4: bits |= 1 << (fb + eb)
            yield f"{self.mode()} {op} {bits}"

    # ---------------------------------------------------------------- C14
    def c14(self, n):
        r = self.r
        types10 = list(INT_TYPES) + ["u128"]
        for _ in range(n):
            k = r.randrange(8)
            if k == 0:
                ty = r.choice(list(INT_TYPES))
                yield f"heven fromint {ty} {self.int_of(ty)}"
            elif k == 1:
                yield f"heven fromu128 {r.choice([0, MAX, MAX + 1, 2 ** 128 - 1, r.getrandbits(128), r.getrandbits(127)])}"
            else:
                ty = r.choice(types10)
                lo, hi = INT_TYPES.get(ty, (0, 2 ** 128 - 1))
                a, p = self.dec()
                if k < 5:  # integral values with trailing zeros at the type's limits
                    v = r.choice([lo, hi, lo - 1, hi + 1, 0, 1, -1, self.int_of(ty) if ty != "u128" else r.getrandbits(100)])
                    p = r.randrange(0, 19)
                    if abs(v) * 10 ** p <= MAX: a = v * 10 ** p
                    else: p = 0; a = self.clamp(v)
                elif k == 5:  # exactly ±1 written with trailing zeros
                    a = r.choice([1, -1]) * 10 ** p
                yield f"heven toint {ty} {a} {p}"

    # ---------------------------------------------------------------- C15
    def c15(self, n, nt=False):
        r = self.r
        names = ["floor", "ceil", "trunc", "fract", "neg", "abs", "magn", "eqzero", "eqone", "isneg", "ispos"]
        for kk in range(0, 39):
            for d in (-1, 0, 1):
                for p in (0, 3, 18):
                    yield f"heven unop magn {self.clamp(10 ** kk + d)} {p}"
        for _ in range(n):
            a, p = self.dec()
            k = r.randrange(6)
            if k == 0: a = 0
            elif k == 1: a = r.choice([1, -1]) * 10 ** p * r.randrange(0, 100)
            elif k == 2: a = r.choice([10 ** p, -(10 ** p), 10 ** p + 1, 10 ** p - 1])
            if nt:
                nm = r.choice(["iszero", "isone", "abs", "signum", "ispos", "isneg", "abssub", "radix", "zero", "one"])
                if nm == "abssub":
                    b, q = self.dec()
                    if r.random() < 0.3: (a, p), (b, q) = self.same_value_pair()
                    yield f"heven nt abssub {a} {p} {b} {q}"
                elif nm == "radix":
                    yield f"heven nt radix {r.choice([10, 10, 2, 16, 0, 36])} {self.hx(self.literal())}"
                elif nm in ("zero", "one"):
                    yield f"heven nt {nm}"
                else:
                    yield f"heven nt {nm} {a} {p}"
            else:
                yield f"heven unop {r.choice(names)} {a} {p}"

    # ---------------------------------------------------------------- C16
    def wide_boundary(self):
        """public-operator requests whose wide-path floor quotient sits at ±(2^127 - 1), ±2^127 or next to them, with a remainder
        that the mode may round up (the increment overflows) or down"""
        r = self.r
        if r.random() < 0.2:
            return self.knuth_corner(raw=False)
        if r.random() < 0.2:
            return self.knuth_limb(raw=False)
        if r.random() < 0.15:
            # quotient at 2^128: the upper 128 bits of dividend·10^p equal the divisor exactly (or differ by one)
            pw = r.randrange(20, 37)
            d = r.choice([r.randrange(2 ** 64, 10 ** pw // 2), r.randrange(2, 2 ** 64), 10 ** r.randrange(1, pw - 1)])
            d = min(d, 10 ** pw // 2 - 1)
            hi = d + r.choice([0, 0, 0, 1, -1])
            a = -(-(hi * 2 ** 128) // 10 ** pw)            # ceil
            if a > MAX:
                a = MAX
            sa, sd = r.choice([(1, 1), (1, 1), (-1, 1), (1, -1), (-1, -1)])
            s2 = r.randrange(pw - 18, 19)
            nn = pw - s2
            if r.random() < 0.5 and nn == 18:
                return f"{self.mode()} {r.choice(['div', 'cdiv'])} vv {sa * a} 0 {sd * d} {s2}"
            return f"{self.mode()} divr vv {sa * a} 0 {sd * d} {s2} {nn}"
        T = r.choice([MAX, MAX, MAX, MAX + 1, MAX - 1])
        if r.random() < 0.5:
            # division: a·10^p = T·d + rem, 0 <= rem < d < 10^p
            for _ in range(200):
                pw = r.randrange(1, 19)
                d = r.randrange(max(2, 10 ** pw // 3), 10 ** pw)
                rem = (-T * d) % 10 ** pw
                if rem < d and (rem > 0 or r.random() < 0.1):
                    break
            else:
                pw, d, rem = 1, 9, 7
                T = MAX
            a = (T * d + rem) // 10 ** pw
            if a > MAX:
                a = MAX
            sa, sd = r.choice([(1, 1), (1, 1), (-1, 1), (1, -1), (-1, -1)])
            s1 = r.randrange(0, 19)
            # n + s2 - s1 = pw
            tot = pw + s1
            nn = r.randrange(max(0, tot - 18), min(18, tot) + 1)
            s2 = tot - nn
            if r.random() < 0.25 and 0 <= 18 + s2 - s1:   # through `/` and checked_div when 18 + s2 - s1 = pw can be arranged
                s2 = r.randrange(0, 19); s1 = 18 + s2 - pw
                if 0 <= s1 <= 18:
                    return f"{self.mode()} {r.choice(['div', 'cdiv'])} vv {sa * a} {s1} {sd * d} {s2}"
                s1 = r.randrange(0, 19); tot = pw + s1
                nn = r.randrange(max(0, tot - 18), min(18, tot) + 1); s2 = tot - nn
            return f"{self.mode()} divr vv {sa * a} {s1} {sd * d} {s2} {nn}"
        # multiplication: x·y = T·10^p + rem, 0 <= rem < 10^p
        for _ in range(200):
            pw = r.randrange(1, 19)
            x = r.randrange(10 ** pw, 4 * 10 ** pw)
            y = (T * 10 ** pw) // x + 1
            rem = x * y - T * 10 ** pw
            if 0 < rem < 10 ** pw and y <= MAX:
                break
        else:
            pw, x, y = 1, 5 * (2 ** 64 - 1), 2 ** 64 + 1
        sx, sy = r.choice([(1, 1), (1, 1), (-1, 1), (1, -1), (-1, -1)])
        if r.random() < 0.5:
            x, y = y, x
            sx, sy = sy, sx
        s1 = r.randrange(0, 19)
        # s1 + s2 - n = pw
        s2 = r.randrange(max(0, pw - s1), 19)
        nn = s1 + s2 - pw
        if nn < 0 or nn > 18:
            s1, s2, nn = 18, pw, 18
        if nn == 18 and r.random() < 0.5:
            return f"{self.mode()} {r.choice(['mul', 'cmul'])} vv {sx * x} {s1} {sy * y} {s2}"
        return f"{self.mode()} mulr vv {sx * x} {s1} {sy * y} {s2} {nn}"

    def knuth_limb(self, raw=False):
        """operands x, p, y whose 256-bit dividend x·10^p, divided by y >= 2^64, makes the FIRST quotient-digit estimate of Knuth's
        algorithm D exactly one too large, with the deciding comparison `qhat·yn0 > rhat·B + xn1` true only because of the limb xn1:
        with T = qhat·yn0 - rhat·B (0 < T < B) the dividend's third limb xn1 is below T and its lowest limb xn0 is at or above T — a
        test that looked at another limb (or at none) would keep the estimate.  Free low bits are chosen so that the dividend is a
        multiple of 10^p."""
        r = self.r
        B = 2 ** 64
        for _ in range(60):
            s = r.randrange(1, 6)                               # normalisation shift of the divisor (y < 2^127)
            p = r.randrange(20, 37)
            yn1 = r.randrange(2 ** 63, B)
            yn0 = (r.randrange(2 ** 62, B) >> s) << s
            y = ((yn1 << 64) | yn0) >> s
            qmax = min(yn1, (10 ** p << (s - 1)) // yn1) - 2
            if qmax < 4:
                continue
            qhat = r.randrange(max(2, qmax // 1024), qmax)
            rhat = (qhat * yn0) // B
            T = qhat * yn0 - rhat * B
            if not (0 < T < B) or rhat >= yn1:
                continue
            hi = qhat * yn1 + rhat
            M = (10 ** p) << s
            base = (-(hi << 128)) % M
            L = None
            for _ in range(400):
                cand = base + r.randrange(0, max(1, (2 ** 128 - base) // M)) * M
                if cand >= 2 ** 128:
                    continue
                xn1, xn0 = cand >> 64, cand & (B - 1)
                if xn1 < T <= xn0:
                    L = cand
                    break
            if L is None:
                continue
            d = ((hi << 128) | L) >> s
            if d % 10 ** p:
                continue
            x = d // 10 ** p
            if x > MAX or y > MAX or x == 0:
                continue
            sx, sy = r.choice([(1, 1), (1, 1), (-1, 1), (1, -1), (-1, -1)])
            if raw:
                return f"heven kwsh {sx * x} {p} {sy * y}"
            nn = r.randrange(max(0, p - 18), 19)
            s2 = r.randrange(max(0, p - nn), 19)
            s1 = nn + s2 - p
            if not (0 <= s1 <= 18):
                continue
            if nn == 18 and r.random() < 0.5:
                return f"{self.mode()} {r.choice(['div', 'cdiv'])} vv {sx * x} {s1} {sy * y} {s2}"
            return f"{self.mode()} divr vv {sx * x} {s1} {sy * y} {s2} {nn}"
        return self.knuth_corner(raw)

    def knuth_corner(self, raw=False):
        """operands x, p, y whose 256-bit dividend x·10^p, divided by y >= 2^64, takes the first quotient-digit estimate of
        Knuth's algorithm D through exactly one correction that lands the running remainder on 2^64 (the loop's exit test
        `rhat >= B`): the normalised divisor's top digit is 2^64 - c, and the top 128 bits of the normalised dividend are
        q1·yn1 + c.  Returned as the raw helper call (`kwsh`) or as a public `div_rounded` with matching scales."""
        r = self.r
        B = 2 ** 64
        for _ in range(50):
            s = r.randrange(3, 40)                              # normalisation shift of the divisor
            c = r.randrange(1, 2 ** r.randrange(1, 20))
            yn1 = B - c
            yn0 = (r.randrange(2 ** 63, B) >> s) << s
            y = ((yn1 << 64) | yn0) >> s
            q1 = r.randrange(2 ** 40, 2 ** r.randrange(50, 60))
            xn32 = q1 * yn1 + c
            p = r.randrange(20, 37)
            if 10 ** p > 2 ** (128 - s):
                continue
            hi = xn32 << (128 - s)
            m = (-hi) % 10 ** p
            k_max = (2 ** (128 - s) - 1 - m) // 10 ** p
            m += r.randrange(0, k_max + 1) * 10 ** p
            d = hi + m
            x = d // 10 ** p
            if x > MAX or y > MAX:
                continue
            sx, sy = r.choice([(1, 1), (1, 1), (-1, 1), (1, -1), (-1, -1)])
            if raw:
                return f"heven kwsh {sx * x} {p} {sy * y}"
            # public form: Decimal(x, s1).div_rounded(Decimal(y, s2), n) shifts by n + s2 - s1 = p
            nn = r.randrange(max(0, p - 18), 19)
            s2 = r.randrange(max(0, p - nn), 19)
            s1 = nn + s2 - p
            if not (0 <= s1 <= 18):
                continue
            if nn == 18 and r.random() < 0.5:
                return f"{self.mode()} {r.choice(['div', 'cdiv'])} vv {sx * x} {s1} {sy * y} {s2}"
            return f"{self.mode()} divr vv {sx * x} {s1} {sy * y} {s2} {nn}"
        return self.wide_boundary()

    def c16(self, n):
        r = self.r
        B = 2 ** 64
        for _ in range(n):
            k = r.randrange(13)
            if k == 12:
                yield (self.knuth_corner(raw=True) if r.random() < 0.5 else self.knuth_limb(raw=True)) if r.random() < 0.5 else self.wide_boundary()
                continue
            if k < 5:  # a·10^k / m through the doc-hidden helper
                x = self.coeff(); kk = r.randrange(0, 39); y = abs(self.coeff()) or 1
                if k == 0:  # exact division, divisor > 2^64
                    y = r.randrange(B, 2 ** 120); q = r.randrange(1, 2 ** 100)
                    # choose x·10^kk = q·y  ⇒  build from factors of 10^kk
                    kk = r.randrange(0, 39); y = 5 ** kk * r.choice([1, 2, 4, 8]) ; x = self.clamp(r.randrange(1, 2 ** 60) << r.randrange(0, 60))
                elif k == 1:  # quotient-digit estimate too large: y1 = 2^63, y0 near 2^64
                    y = (2 ** 63 << 64) | (B - r.randrange(1, 1000))
                    y >>= r.randrange(1, 60)
                    y = max(y, B + 1)
                elif k == 2:  # divisor below 2^64
                    y = r.randrange(1, B)
                elif k == 3:  # high word below/above divisor
                    y = r.randrange(B, 2 ** 127)
                    x = r.choice([MAX, -MAX, x])
                if r.random() < 0.3: y = -y
                yield f"heven kwsh {x} {kk} {y}"
            elif k < 9:  # a·b / m
                a, b = self.coeff(), self.coeff()
                m = abs(self.coeff()) or 1
                if k == 5:  # exact, any sign
                    m = r.choice([10 ** r.randrange(1, 39), r.randrange(B, 2 ** 126)])
                    a = self.clamp(m * r.randrange(1, 1000)) * r.choice([1, -1])
                elif k == 6:  # estimate too large by 1 or 2
                    m = ((2 ** 63 << 64) | (B - r.randrange(1, 4))) >> r.randrange(1, 40)
                    qq = r.randrange(B - 4, B); rr = r.randrange(0, m)
                    tot = qq * m + rr
                    a = r.randrange(2 ** 100, 2 ** 127)
                    b = self.clamp(tot // a)
                elif k == 7:  # quotient around 2^127
                    m = r.randrange(1, 2 ** 126)
                    a = MAX - r.randrange(0, 3); b = m + r.randrange(-2, 3)
                yield f"heven kw256 {a} {b} {m}"
            elif k == 11 and r.random() < 0.5:
                # the integer divisor i128::MIN — magnitude 2^127, the one divisor that needs no normalisation shift — under a dividend
                # that takes the 256-bit path (coefficient · 10^18 does not fit), through the public operators
                a = self.clamp(r.randrange(2 ** 64, 2 ** 127)) * r.choice([1, -1]); p = r.randrange(0, 19)
                op = r.choice(["idiv", "icdiv", "idivr"])
                if op == "idivr":
                    yield f"{self.mode()} idivr i128 r vv {a} {p} {-MAX - 1} {r.randrange(max(0, p - 1), 19)}"
                else:
                    yield f"{self.mode()} {op} i128 r vv {a} {p} {-MAX - 1}"
            else:  # through the public operators on the wide path
                p = r.randrange(10, 19); q = r.randrange(10, 19)
                a = self.clamp(r.randrange(2 ** 90, 2 ** 127)) * r.choice([1, -1])
                b = self.clamp(r.randrange(2 ** 40, 2 ** 100)) * r.choice([1, -1])
                if k == 9:  # exact product multiple
                    s = p + q - 18
                    a = self.clamp(r.randrange(1, 10 ** 20) * 10 ** s) * r.choice([1, -1])
                    b = r.randrange(10 ** 18, 10 ** 20) * r.choice([1, -1])
                op = r.choice(["mul", "div", "cdiv", "mulr", "divr"])
                if op in ("mulr", "divr"):
                    yield f"{self.mode()} {op} vv {a} {p} {b} {q} {r.randrange(0, 19)}"
                else:
                    if op != "mul" and r.random() < 0.5:  # x/x, exact
                        b, q = a, p
                    yield f"{self.mode()} {op} vv {a} {p} {b} {q}"

    # ---------------------------------------------------------------- C17
    def c17(self, n):
        """every generated impl at least once, then random cells; int operand vs Decimal::from(int)"""
        r = self.r
        ops_r5 = ["iadd", "isub", "imul", "idiv", "irem"]
        ops4 = ["icadd", "icsub", "icmul", "icdiv", "icrem"]
        def vec():
            a, p = self.dec()
            if r.random() < 0.5: a = self.small() * 10 ** r.randrange(0, 3)
            return a, p
        for ty in INT_TYPES:
            for pos in "lr":
                for op in ops_r5 + ops4:
                    forms = FORMS5 if (op in ops_r5 and pos == "r") else FORMS4
                    for f in forms:
                        a, p = vec(); i = self.int_of(ty)
                        yield f"{self.mode()} {op} {ty} {pos} {f} {a} {p} {i}"
                for f in FORMS4:
                    a, p = vec(); i = self.int_of(ty)
                    yield f"{self.mode()} idivr {ty} {pos} {f} {a} {p} {i} {r.randrange(0, 19)}"
                a, p = vec(); i = self.int_of(ty)
                yield f"{self.mode()} iquant {ty} {pos} vv {a} {p} {i}"
                yield f"heven ieq {ty} {pos} vv {a} {p} {i}"
                yield f"heven icmp {ty} {pos} vv {a} {p} {i}"
            for f in FORMS4:
                yield f"{self.mode()} iidivr {ty} {f} {self.int_of(ty)} {self.int_of(ty)} {r.randrange(0, 19)}"
        for op in ["add", "sub", "mul", "div", "rem"]:
            for f in FORMS5:
                (a, p), (b, q) = vec(), vec()
                yield f"{self.mode()} {op} {f} {a} {p} {b} {q}"
        for op in ["cadd", "csub", "cmul", "cdiv", "crem"]:
            for f in FORMS4:
                (a, p), (b, q) = vec(), vec()
                yield f"{self.mode()} {op} {f} {a} {p} {b} {q}"
        for op in ["mulr", "divr"]:
            for f in FORMS4:
                (a, p), (b, q) = vec(), vec()
                yield f"{self.mode()} {op} {f} {a} {p} {b} {q} {r.randrange(0, 19)}"
        gens = [self.c01, self.c02, self.c03, self.c04, self.c10, self.c08]
        per = max(1, n // len(gens))
        pair = {"iadd": "add", "isub": "sub", "imul": "mul", "idiv": "div", "irem": "rem", "icadd": "cadd", "icsub": "csub",
                "icmul": "cmul", "icdiv": "cdiv", "icrem": "crem"}
        for g in gens:
            for line in g(per * 3):
                if " i" in line:
                    yield line
                    t = line.split()
                    # the same operation with Decimal::from(i) in the integer's position
                    if t[1] in pair and len(t) == 8:
                        md, op, ty, pos, form, a, p, i = t
                        f = form if form not in ("as", "ar") else "vv"
                        if pos == "r":
                            yield f"{md} {pair[op]} {f} {a} {p} {i} 0"
                        else:
                            yield f"{md} {pair[op]} {f} {i} 0 {a} {p}"
                    elif t[1] == "idivr" and len(t) == 9:
                        md, op, ty, pos, form, a, p, i, nn = t
                        if pos == "r":
                            yield f"{md} divr {form} {a} {p} {i} 0 {nn}"
                        else:
                            yield f"{md} divr {form} {i} 0 {a} {p} {nn}"

    # ---------------------------------------------------------------- C19
    def mode_sensitive(self):
        """a request (no mode token, tokens joined by `_`) whose result depends on the rounding mode in effect:
        every operation family that consults the thread's default mode, in each of its branches"""
        r = self.r
        k = r.randrange(17)
        if k >= 15:
            # 256-bit division whose divisor exceeds 2^126 and whose remainder is exactly 1 (or divisor - 1): under Up / Ceiling /
            # 05Up the tiny excess decides the last digit, under the nearest modes it never does
            y = 2 ** 126 + r.randrange(1, 2 ** 20) * 10 + r.choice([3, 5, 7, 9])      # odd and (2^126 ≡ 4 mod 5) not a multiple of 5: invertible modulo 10^pw
            pw = r.randrange(1, 3)
            rem = r.choice([1, 1, 1, y - 1])
            qq = (-rem * pow(y, -1, 10 ** pw)) % 10 ** pw + 10 ** pw * r.randrange(0, 3)     # qq·y + rem ≡ 0 (mod 10^pw)
            x = (qq * y + rem) // 10 ** pw
            if x > MAX or x == 0:
                x = (((-rem * pow(y, -1, 10 ** pw)) % 10 ** pw) * y + rem) // 10 ** pw
            sgn = r.choice([1, 1, -1])
            return f"divr_vv_{sgn * x}_0_{y}_0_{pw}"
        if k == 14:
            # a product that needs the 256-bit path and is an exact multiple of 10^shift: no mode may change it
            j1, j2 = r.randrange(10, 19), r.randrange(10, 19)
            a1 = r.choice([1, 2, 3, 5, 7, 4]) * 10 ** r.randrange(19, 22) * r.choice([1, -1])
            a2 = r.choice([1, 3, 5, 9]) * 10 ** r.randrange(18, 21) * r.choice([1, -1])
            nn = r.randrange(max(0, j1 + j2 - 36), min(18, j1 + j2) + 1)
            if r.random() < 0.5:
                return f"mulr_vv_{a1}_{j1}_{a2}_{j2}_{nn}"
            return f"{r.choice(['mul', 'cmul'])}_vv_{a1}_{j1}_{a2}_{j2}"
        if k >= 12:
            # the 256-bit paths of div_rounded / mul_rounded / `/` / `*` under the thread's mode
            if k == 12:
                req = self.wide_boundary()
            else:
                y = r.choice([2 ** 126 + r.randrange(1, 50), r.randrange(2 ** 100, 2 ** 127), r.randrange(2 ** 64, 2 ** 100)])
                qq = r.randrange(1, 100); rem = r.choice([1, 1, 2, y - 1, y // 2, y // 2 + 1, r.randrange(0, y)])
                pw = r.randrange(1, 3)
                x = self.clamp((qq * y + rem) // 10 ** pw)
                req = f"m divr vv {x} 0 {y} 0 {pw}"
            return "_".join(req.split()[1:])
        a = r.choice([1, -1]) * r.choice([10001, 10005, 15, 25, 35, 1, 2, 7, 29, 3, 12345, 10501, r.randrange(1, 10 ** 6)])
        b = r.choice([1, -1]) * r.choice([3, 7, 6, 9, 11, 300, 13, r.randrange(2, 1000)])
        if k == 0:     # div_rounded, dividend has more digits than result + divisor (second division by 10^shift)
            req = f"divr vv {a} {r.randrange(3, 8)} {b} 0 {r.randrange(0, 3)}"
        elif k == 1:   # div_rounded, dividend scaled up
            req = f"divr vv {a} 0 {b} {r.randrange(0, 3)} {r.randrange(1, 19)}"
        elif k == 2:   # div_rounded, equal scales
            p = r.randrange(0, 5); n = r.randrange(0, 5); q = max(0, p - n)
            req = f"divr vv {a} {q + n} {b} {q} {n}"
        elif k == 3:
            req = f"mulr vv {a} {r.randrange(1, 6)} {b} {r.randrange(1, 6)} {r.randrange(0, 2)}"
        elif k == 4:
            req = f"quant {a} {r.randrange(2, 6)} {b} {r.randrange(0, 2)}"
        elif k == 5:
            req = f"{r.choice(['div', 'cdiv'])} vv {a} {r.randrange(0, 4)} {b} {r.randrange(0, 4)}"
        elif k == 6:   # product with more than 18 fractional digits
            req = f"{r.choice(['mul', 'cmul'])} vv {a} {r.randrange(10, 19)} {b} {r.randrange(10, 19)}"
        elif k == 7:   # round, also far below the value (result is 0 or ±10^-n depending on the mode)
            req = f"{r.choice(['round', 'cround'])} {a} {r.randrange(1, 6)} {r.choice([0, 0, 1, -1, -5, -37, -38])}"
        elif k == 8:
            req = f"fmt {a} {r.randrange(2, 7)} - - - - - {r.randrange(0, 2)}"
        elif k == 9:
            ty = r.choice(["i32", "u8", "i64", "i128"]); i = abs(b) % 100 + 2
            req = f"idivr {ty} r vv {a} {r.randrange(3, 8)} {i} {r.randrange(0, 3)}"
        elif k == 10:
            ty = r.choice(["i32", "u8", "i64", "i128"]); i = abs(b) % 100 + 2
            req = f"iquant {ty} r vv {a} {r.randrange(1, 6)} {i}"
        else:
            ty = r.choice(["i32", "u16", "i64"]); i = abs(b) % 100 + 2
            req = f"iidivr {ty} vv {abs(a) % 30000} {i} {r.randrange(0, 6)}"
        return req.replace(" ", "_")

    def c19_exhaustive(self, steps):
        """all schedules of `steps` operations over 2 threads with the op alphabet below"""
        import itertools
        alphabet = ["s1:up", "s1:down", "s1:heven", "s2:floor", "s2:heven", "g1", "g2", "p1", "p2"]
        if steps >= 4:      # thorough tier: also one mode-sensitive division per thread in the alphabet
            alphabet += ["x1:divr_vv_10001_4_3_0_2", "x2:round_3_1_-38"]
        for L in range(1, steps + 1):
            for combo in itertools.product(alphabet, repeat=L):
                yield "threads " + " ".join(combo)

    def c19(self, n):
        r = self.r
        for _ in range(n):
            nt = r.randrange(1, 5)
            ops = []
            for _ in range(r.randrange(1, 14)):
                t = r.randrange(1, nt + 1)
                k = r.randrange(6)
                if k == 0: ops.append(f"s{t}:{r.choice(MODES + ['heven', 'heven'])}")
                elif k == 1: ops.append(f"g{t}")
                elif k == 3: ops.append(f"p{t}")
                elif k >= 4: ops.append(f"x{t}:{self.mode_sensitive()}")
                else:
                    c = r.choice([25, -25, 15, -15, 21, -21, 29, 35, -35, 5, -5, 1, -1, self.small()])
                    ops.append(f"r{t}:{c}:1:0")
            yield "threads " + " ".join(ops)

    def thread_mix(self, reqs, n):
        """schedules over 2-4 OS threads whose operations are requests of ANOTHER property's generator (`reqs(k)` yields k request
        lines; their mode token is dropped — the thread's own default mode applies), interleaved with `set_default` calls (also
        redundant ones back to HalfEven on threads that never changed their mode) and reads of the default"""
        r = self.r
        pool = [l for l in reqs(max(60, 3 * n)) if not l.startswith("threads") and not l.startswith("Dec!")]
        # raw calls of the doc-hidden helpers take their mode as an explicit argument (the request's mode token): not thread-dependent
        pool = [l for l in pool if len(l.split()) > 2 and "_" not in l and not l.split()[1].startswith("k")]
        if not pool:
            return
        for _ in range(n):
            nt = r.randrange(2, 5)
            ops = []
            for _ in range(r.randrange(3, 12)):
                t = r.randrange(1, nt + 1)
                k = r.randrange(7)
                if k == 0:
                    ops.append(f"s{t}:{r.choice(MODES + ['heven', 'heven', 'heven'])}")
                elif k == 1:
                    ops.append(r.choice([f"g{t}", f"p{t}"]))
                else:
                    ops.append(f"x{t}:" + "_".join(r.choice(pool).split()[1:]))
            yield "threads " + " ".join(ops)

    # ---------------------------------------------------------------- C20
    def c20(self, n):
        """overflow-edge heavy mix over every operation family"""
        r = self.r
        per = max(1, n // 15)
        yield from self.float_binades()
        for g in (self.c01, self.c02, self.c03, self.c04, self.c05, self.c10, self.c15, self.c07, self.c11, self.c08,
                  self.c14, self.c09, self.c16, self.c12, self.c06):
            cnt = 0
            for line in g(per):
                if line.split()[1] in ("kwsh", "kw256", "kdivr", "kmagn"):
                    continue        # doc-hidden helpers called directly (also outside their contract): not public operations
                yield line
                cnt += 1
                if cnt >= per * 2: break
        # explicit overflow edges
        for _ in range(per):
            a = r.choice([MAX, -MAX, MAX - 1, MAX // 2 + 1, MAX // 10 + 1])
            p = self.scale()
            ty = r.choice(list(INT_TYPES)); i = self.int_of(ty)
            op = r.choice(["iadd", "isub", "imul"])
            yield f"{self.mode()} {op} {ty} {r.choice('lr')} vv {a} {p} {i}"
            yield f"{self.mode()} {r.choice(['add', 'sub', 'mul'])} vv {a} {p} {r.choice([MAX, -MAX, 1, 2, 10 ** 18])} {self.scale()}"
            yield f"{self.mode()} round {a} {p} {-r.randrange(1, 39)}"


# ---------------------------------------------------------------------------------------------------------------------------------
# request sequences: a library call must not depend on the calls made before it (a memo / cache / lazily initialised static keyed by
# too little would make it).  `siblings(line)` yields requests that are "almost the same call" — to be issued right after `line` on the
# same thread: the same request again, the same under another thread mode, the same value in another representation (trailing zeros),
# the related conversion (f64 <-> f32), an equal-length / extended text for the parsers.
DEC_PAIR_POS = {  # op -> positions of (coefficient, fractional digits) token pairs
    "add": [3, 5], "sub": [3, 5], "mul": [3, 5], "div": [3, 5], "rem": [3, 5], "cadd": [3, 5], "csub": [3, 5], "cmul": [3, 5],
    "cdiv": [3, 5], "crem": [3, 5], "mulr": [3, 5], "divr": [3, 5], "cmp": [2, 4], "quant": [2, 4], "rkyv": [2, 4], "hasheq": [2, 4],
    "round": [2], "cround": [2], "str": [2], "fmt": [2], "tof64": [2], "tof32": [2], "ratio": [2], "hash": [2], "hashfeed": [2],
    "toint": [3], "unop": [3], "serde": [2],
    "iadd": [5], "isub": [5], "imul": [5], "idiv": [5], "irem": [5], "icadd": [5], "icsub": [5], "icmul": [5], "icdiv": [5],
    "icrem": [5], "idivr": [5], "iquant": [5], "ieq": [5], "icmp": [5],
}


def siblings(line, r):
    t = line.split()
    if len(t) < 3 or t[0] == "threads" or line.startswith("Dec!"):
        return
    op = t[1]
    yield line                                                  # the same call again
    if t[0] in MODES:
        yield " ".join([r.choice([m for m in MODES if m != t[0]])] + t[1:])     # … under another mode of the same thread
    for pos in DEC_PAIR_POS.get(op, []):
        try:
            a, p_ = int(t[pos]), int(t[pos + 1])
        except (ValueError, IndexError):
            continue
        k = r.randrange(1, 4)
        if p_ + k <= 18 and abs(a) * 10 ** k <= MAX:            # the same value written with k more trailing zeros
            u = list(t); u[pos], u[pos + 1] = str(a * 10 ** k), str(p_ + k)
            yield " ".join(u)
        if p_ >= 1 and a % 10 == 0:                             # … or with one less
            u = list(t); u[pos], u[pos + 1] = str(a // 10), str(p_ - 1)
            yield " ".join(u)
    if op in ("tof64", "tof32"):
        yield " ".join([t[0], "tof32" if op == "tof64" else "tof64"] + t[2:])
    if op == "fromf32" and len(t) == 3:
        yield f"{t[0]} fromf64 {t[2]}"                          # the f64 with the same (zero-extended) bit pattern
    if op == "fromf64" and len(t) == 3 and t[2].isdigit() and int(t[2]) < 2 ** 32:
        yield f"{t[0]} fromf32 {t[2]}"
    if op in ("parse", "macrofold") and len(t) == 3 and t[2] != "-":
        hx = t[2]
        yield f"{t[0]} {op} {hx}00"                             # the text followed by a NUL byte
        yield f"{t[0]} {op} {hx}20"                             # … by a blank
        last = int(hx[-2:], 16)
        if 0x30 <= last <= 0x39:                                # another text of the same length (same allocation size)
            yield f"{t[0]} {op} {hx[:-2]}{0x30 + (last - 0x30 + 1) % 10:02x}"


def with_siblings(lines, r, frac=0.08):
    out = []
    for l in lines:
        out.append(l)
        if r.random() < frac:
            out.extend(siblings(l, r))
    return out


GENERATORS = {
    "C01": lambda g, n: g.c01(n), "C02": lambda g, n: g.c02(n), "C03": lambda g, n: g.c03(n),
    "C04": lambda g, n: g.c04(n), "C05": lambda g, n: g.c05(n), "C06": lambda g, n: g.c06(n),
    "C07": lambda g, n: g.c07(n), "C08": lambda g, n: g.c08(n), "C09": lambda g, n: g.c09(n),
    "C10": lambda g, n: g.c10(n), "C11": lambda g, n: g.c11(n), "C12": lambda g, n: g.c12(n),
    "C13": lambda g, n: g.c13(n), "C14": lambda g, n: g.c14(n), "C15": lambda g, n: g.c15(n),
    "C16": lambda g, n: g.c16(n), "C17": lambda g, n: g.c17(n), "C19": lambda g, n: g.c19(n),
    "C20": lambda g, n: g.c20(n),
}

if __name__ == "__main__":
    import sys
    prop, n, seed = sys.argv[1], int(sys.argv[2]), int(sys.argv[3])
    for line in GENERATORS[prop](G(seed), n):
        print(line)
