import Fpdec.Model.Core
import Fpdec.Model.Rounding
import Fpdec.Model.Decimal
import Fpdec.Model.Parser
import Fpdec.Model.Format
import Fpdec.Model.Ratio
import Fpdec.Model.Float
import Fpdec.Model.Threads
import Fpdec.Spec.Arith
import Fpdec.Spec.Text
import Fpdec.Spec.Float
import Fpdec.Std

/-!
# `fpmodel` — line-protocol driver for the executable model and spec

stdin: one request per line (`<profile>` is given on the command line: `dev` or `release`, or
`oc=<0|1>,da=<0|1>`).  stdout: `<model output> TAB <spec: allowed outputs> TAB <signature>`.
Spec column: alternatives separated by `|`; `panic:ovf` = overflow-signal panic (`overflow`/`arith`),
`panic:any` = any panic, `err:any` = any error kind, `*` = unconstrained, `-` = no spec for this request
(the request only ties the model to the code).
-/

open Fpdec Fpdec.Model Fpdec.Std

def hexVal (c : Char) : Nat :=
  if '0' ≤ c ∧ c ≤ '9' then c.toNat - 48
  else if 'a' ≤ c ∧ c ≤ 'f' then c.toNat - 87
  else if 'A' ≤ c ∧ c ≤ 'F' then c.toNat - 55 else 0

def unhex (s : String) : List Nat :=
  if s = "-" then [] else
  let rec go : List Char → List Nat
    | a :: b :: r => (hexVal a * 16 + hexVal b) :: go r
    | _ => []
  go s.toList

def hexDigit (n : Nat) : Char := if n < 10 then Char.ofNat (48 + n) else Char.ofNat (87 + n)
def tohex (bs : List Nat) : String :=
  if bs.isEmpty then "-" else String.ofList (bs.flatMap fun b => [hexDigit (b / 16), hexDigit (b % 16)])

def showDec (d : Dec) : String := s!"ok {d.coeff} {d.nfrac}"
def showPanic (k : PanicKind) : String := "panic " ++ k.toString

def showOutDec : Outcome Dec → String
  | .ok d => showDec d
  | .panic k => showPanic k

def showOutOptDec : Outcome (Option Dec) → String
  | .ok (some d) => showDec d
  | .ok none => "none"
  | .panic k => showPanic k

def showOrd : Ordering → String
  | .lt => "Less" | .eq => "Equal" | .gt => "Greater"
def showOptOrd : Option Ordering → String
  | some o => showOrd o | none => "None"
def b2s (b : Bool) : String := if b then "1" else "0"

/-- spec column for an operator (panicking) form -/
def expOp : Spec.Exp → String
  | .val c p => s!"ok {c} {p}"
  | .ovf => "panic:ovf"
  | .valOrOvf c p => s!"ok {c} {p}|panic:ovf"
  | .divzero => "panic divzero"
  | .nfrac => "panic:any"
  | .none => "none"
  | .any => "*"

/-- spec column for a checked form -/
def expChecked : Spec.Exp → String
  | .val c p => s!"ok {c} {p}"
  | .ovf => "none"
  | .valOrOvf c p => s!"ok {c} {p}|none"
  | .divzero => "none"
  | .nfrac => "panic:any"
  | .none => "none"
  | .any => "*"

def sgn (x : Int) : String := if x < 0 then "-" else if x = 0 then "0" else "+"
def rel (p q : Nat) : String := if p < q then "<" else if p = q then "=" else ">"
def kindOf (s : String) : String := (s.splitOn " ").headD ""

/-- rounding class of `n/d`: exact, below half, tie, above half -/
def rclass (n d : Int) : String :=
  if d = 0 then "z" else
  let (n, d) := if d < 0 then (-n, -d) else (n, d)
  let r := n % d
  if r = 0 then "x" else if 2 * r < d then "l" else if 2 * r = d then "t" else "h"

structure Ctx where
  prof : Profile
  tm : Mode

def parseInt (s : String) : Int := s.toInt?.getD 0
def parseNat (s : String) : Nat := s.toNat?.getD 0

def intTyOf (s : String) : IntTy := (IntTy.ofName? s).getD IntTy.i128

/-- signature helper for multiplicative ops -/
def wideTag (x : Int) : String := if fitsI128 x then "n" else "w"

def handleBin (ctx : Ctx) (op : String) (a : Int) (p : Nat) (b : Int) (q : Nat) : String × String × String :=
  let x : Dec := ⟨a, p⟩
  let y : Dec := ⟨b, q⟩
  let base := s!"{rel p q}{sgn a}{sgn b}"
  match op with
  | "add" => (showOutDec (addSub false x y), expOp (Spec.addSub false a p b q), base)
  | "sub" => (showOutDec (addSub true x y), expOp (Spec.addSub true a p b q), base)
  | "cadd" => (showOutOptDec (.ok (checkedAddSub false x y)), expChecked (Spec.addSub false a p b q), base)
  | "csub" => (showOutOptDec (.ok (checkedAddSub true x y)), expChecked (Spec.addSub true a p b q), base)
  | "mul" =>
    let sh := p + q - 18
    (showOutDec (mul ctx.prof ctx.tm x y), expOp (Spec.mul ctx.tm a p b q),
      base ++ wideTag (a * b) ++ (if p + q > 18 then rclass (a * b) (10 ^ sh) else "e"))
  | "cmul" => (showOutOptDec (checkedMul ctx.prof x y), expChecked (Spec.checkedMul a p b q), base ++ wideTag (a * b))
  | "div" =>
    let zd := decide (b = 0)
    let r := if zd then .ok none else (do
      if eqZero x then pure (some Dec.ZERO)
      else if ← eqOne y then pure (some x)
      else divCore ctx.prof ctx.tm a p b q)
    (showOutDec (opOfChecked zd r), expOp (Spec.div ctx.tm a p b q),
      base ++ wideTag (a * 10 ^ (18 + q - p)) ++ rclass (a * 10 ^ (18 + q)) (b * 10 ^ p))
  | "cdiv" =>
    (showOutOptDec (checkedDiv ctx.prof ctx.tm x y), expChecked (Spec.div ctx.tm a p b q),
      base ++ wideTag (a * 10 ^ (18 + q - p)) ++ rclass (a * 10 ^ (18 + q)) (b * 10 ^ p))
  | "rem" =>
    let zd := decide (b = 0)
    (showOutDec (opOfChecked zd (remDecDec x y)), expOp (Spec.rem a p b q),
      base ++ wideTag (a * 10 ^ (q - p)) ++ wideTag (b * 10 ^ (p - q)))
  | "crem" =>
    let zd := decide (b = 0)
    (showOutOptDec (checkedOfChecked zd (remDecDec x y)), expChecked (Spec.rem a p b q),
      base ++ wideTag (a * 10 ^ (q - p)) ++ wideTag (b * 10 ^ (p - q)))
  | "quant" => (showOutDec (quantize ctx.prof ctx.tm x y), expOp (Spec.quantize ctx.tm false a p b q),
      base ++ rclass (a * 10 ^ q) (b * 10 ^ p))
  | _ => ("bad-op", "-", "")

def handleBinN (ctx : Ctx) (op : String) (a : Int) (p : Nat) (b : Int) (q : Nat) (n : Nat) :
    String × String × String :=
  let x : Dec := ⟨a, p⟩
  let y : Dec := ⟨b, q⟩
  let base := s!"{rel p q}{sgn a}{sgn b}"
  match op with
  | "mulr" => (showOutDec (mulRounded ctx.prof ctx.tm x y n), expOp (Spec.mulRounded ctx.tm a p b q n),
      base ++ wideTag (a * b) ++ rel n (p + q) ++ (if n < p + q then rclass (a * b) (10 ^ (p + q - n)) else "e"))
  | "divr" => (showOutDec (divRounded ctx.prof ctx.tm x y n), expOp (Spec.divRounded ctx.tm a p b q n),
      base ++ rel p (n + q) ++ wideTag (a * 10 ^ (n + q - p)) ++ rclass (a * 10 ^ (n + q)) (b * 10 ^ p))
  | _ => ("bad-op", "-", "")

/-- integer-operand forms: `pos = "l"`: `int op Decimal`, `"r"`: `Decimal op int` -/
def handleInt (ctx : Ctx) (op : String) (ty : String) (pos : String) (a : Int) (p : Nat) (i : Int) (n : Nat) :
    String × String × String :=
  let d : Dec := ⟨a, p⟩
  let t := intTyOf ty
  let left := pos = "l"
  let base := s!"{ty}{pos}{sgn a}{sgn i}{if p = 0 then "0" else "p"}"
  -- spec: the same operation with `Decimal::from(i)` in that position
  let sp2 (f : Int → Nat → Int → Nat → Spec.Exp) : Spec.Exp := if left then f i 0 a p else f a p i 0
  match op with
  | "add" => (showOutDec (addSubInt false left d i), expOp (sp2 (Spec.addSub false)), base)
  | "sub" => (showOutDec (addSubInt true left d i), expOp (sp2 (Spec.addSub true)), base)
  | "cadd" => (showOutOptDec (.ok (checkedAddSubInt false left d i)), expChecked (sp2 (Spec.addSub false)), base)
  | "csub" => (showOutOptDec (.ok (checkedAddSubInt true left d i)), expChecked (sp2 (Spec.addSub true)), base)
  | "mul" => (showOutDec (mulInt d i), expOp (Spec.mulInt a p i), base)
  | "cmul" => (showOutOptDec (.ok (checkedMulInt d i)), expChecked (Spec.mulInt a p i), base)
  | "div" =>
    let zd := if left then eqZero d else decide (i = 0)
    let r := if zd then .ok none else (if left then divIntDec ctx.prof ctx.tm i d else divDecInt ctx.prof ctx.tm d i)
    (showOutDec (opOfChecked zd r), expOp (sp2 (Spec.div ctx.tm)), base)
  | "cdiv" =>
    let zd := if left then eqZero d else decide (i = 0)
    let r := if zd then .ok none else (if left then divIntDec ctx.prof ctx.tm i d else divDecInt ctx.prof ctx.tm d i)
    (showOutOptDec (checkedOfChecked zd r), expChecked (sp2 (Spec.div ctx.tm)), base)
  | "rem" =>
    let zd := if left then eqZero d else decide (i = 0)
    let r := if zd then .ok none else (if left then remIntDec i d else remDecInt d i)
    (showOutDec (opOfChecked zd r), expOp (sp2 Spec.rem), base)
  | "crem" =>
    let zd := if left then eqZero d else decide (i = 0)
    let r := if zd then .ok none else (if left then remIntDec i d else remDecInt d i)
    (showOutOptDec (checkedOfChecked zd r), expChecked (sp2 Spec.rem), base)
  | "divr" =>
    let r := if left then divRoundedIntDec ctx.prof ctx.tm i d n else divRoundedDecInt ctx.prof ctx.tm d i n
    (showOutDec r, expOp (if left then Spec.divRounded ctx.tm i 0 a p n else Spec.divRounded ctx.tm a p i 0 n),
      base ++ (if n > 18 then "N" else "n"))
  | "quant" =>
    let r := if left then quantizeIntDec ctx.prof ctx.tm i d else quantizeDecInt ctx.prof ctx.tm d i
    (showOutDec r, expOp (if left then Spec.quantize ctx.tm false i 0 a p else Spec.quantize ctx.tm true a p i 0), base)
  | "eq" =>
    -- `int == Decimal` forwards to `Decimal == int`
    let m := decEqInt t.signed d i
    (b2s m, b2s (Spec.cmp a p i 0 == .eq), base)
  | "cmp" =>
    let m := if left then partialCmpIntDec t.signed i d else partialCmpDecInt t.signed d i
    let s := if left then Spec.cmp i 0 a p else Spec.cmp a p i 0
    (showOptOrd m, showOrd s, base)
  | _ => ("bad-op", "-", "")

def showExceptParse : Outcome (Except ParseErr Dec) → String
  | .panic k => showPanic k
  | .ok (.error e) => "err " ++ e.toString
  | .ok (.ok d) => showDec d

def specParse (s : List Nat) : String :=
  match Spec.parseSpec s with
  | .ok c p => s!"ok {c} {p}"
  | .empty => "err Empty"
  | .bad => "err InternalOverflow|err Invalid|err FracDigitLimitExceeded"

def parseFmtSpec (toks : List String) : FmtSpec :=
  match toks with
  | [fill, align, plus, zero, width, prec] =>
    { fill := if fill = "-" then 32 else parseNat fill
      align := match align with | "<" => 1 | "^" => 2 | ">" => 3 | _ => 0
      plus := plus = "+"
      zero := zero = "0"
      width := if width = "-" then none else some (parseNat width)
      prec := if prec = "-" then none else some (parseNat prec) }
  | _ => {}

def specDisplay (tm : Mode) (f : FmtSpec) (a : Int) (p : Nat) : List Nat := Spec.displaySpec tm f a p

def showFloatErr : FloatErr → String
  | .infinite => "InfiniteValue" | .nan => "NotANumber" | .overflow => "InternalOverflow"

def specFromFloat (f : Spec.FloatFmt) (bits : Nat) : String :=
  match Spec.fromFloat f bits with
  | .infinite => "err InfiniteValue"
  | .nan => "err NotANumber"
  | .overflow => "err InternalOverflow"
  | .val c k => s!"ok {c} {k}"
  | .valOrOvf c k => s!"ok {c} {k}|err InternalOverflow"

def specIntoFloat (f : Spec.FloatFmt) (a : Int) (p : Nat) : String := toString (Spec.intoFloat f a p)

def showObs : ThreadObs → String
  | .none => "-"
  | .mode m => m.toString
  | .dec r => (showOutDec r).replace " " ","
  | .probe rs => ",".intercalate (rs.map fun r => match r with | .ok d => toString d.coeff | .panic k => "panic:" ++ k.toString)

/-- `threads` request: ops separated by `;`: `s<t>:<mode>`, `g<t>`, `r<t>:<c>:<p>:<n>` -/
def parseThreadOp (s : String) : Option ThreadOp :=
  let kind := s.take 1
  let rest := (s.drop 1).toString.splitOn ":"
  match kind.toString, rest with
  | "s", [t, m] => (Mode.ofString? m).map fun m => ThreadOp.set (parseNat t) m
  | "g", [t] => some (ThreadOp.get (parseNat t))
  | "p", [t] => some (ThreadOp.probe (parseNat t))
  | "r", [t, c, p, n] => some (ThreadOp.round (parseNat t) (parseInt c) (parseNat p) (parseInt n))
  | _, _ => none

/-- spec for a schedule: each thread sees the mode it set last (else HalfEven) -/
def specSchedule (ops : List ThreadOp) : List String :=
  let rec go (hist : List (Nat × Mode)) : List ThreadOp → List String
    | [] => []
    | .set t m :: r => "-" :: go ((t, m) :: hist) r
    | .get t :: r =>
      ((hist.find? (fun e => e.1 = t)).map (·.2) |>.getD Mode.heven).toString :: go hist r
    | .round t c p n :: r =>
      let m := (hist.find? (fun e => e.1 = t)).map (·.2) |>.getD Mode.heven
      ((expOp (Spec.round m c p n)).replace " " ",") :: go hist r
    | .probe t :: r =>
      let m := (hist.find? (fun e => e.1 = t)).map (·.2) |>.getD Mode.heven
      (",".intercalate ([15, 25, -15, 21, 5].map fun (c : Int) => toString (Spec.specRound m c 10))) :: go hist r
  go [] ops

def handleNt (ctx : Ctx) (toks : List String) : String × String × String :=
  match toks with
  | "nt" :: name :: args =>
    let d2 (l : List String) : Dec := match l with | a :: p :: _ => ⟨parseInt a, parseNat p⟩ | _ => Dec.ZERO
    match name with
    | "iszero" => let d := d2 args; (b2s (eqZero d), b2s (d.coeff = 0), "")
    | "isone" => let d := d2 args
      (match eqOne d with | .ok v => b2s v | .panic k => showPanic k, b2s (d.coeff = 10 ^ d.nfrac), "")
    | "zero" => (showDec Dec.ZERO, "ok 0 0", "")
    | "one" => (showDec Dec.ONE, "ok 1 0", "")
    | "abs" => let d := d2 args; (showOutDec (abs ctx.prof d), s!"ok {d.coeff.natAbs} {d.nfrac}", "")
    | "signum" => let d := d2 args; (showDec (fromInt (Int.sign d.coeff)), s!"ok {Int.sign d.coeff} 0", "")
    | "ispos" => let d := d2 args; (b2s (isPositive d), b2s (d.coeff > 0), "")
    | "isneg" => let d := d2 args; (b2s (isNegative d), b2s (d.coeff < 0), "")
    | "abssub" =>
      match args with
      | [a, p, b, q] =>
        let x : Dec := ⟨parseInt a, parseNat p⟩
        let y : Dec := ⟨parseInt b, parseNat q⟩
        let le := match partialCmp x y with | some .lt => true | some .eq => true | _ => false
        let so := Spec.cmp x.coeff x.nfrac y.coeff y.nfrac
        (if le then showDec Dec.ZERO else showOutDec (addSub true x y),
          if so != .gt then "ok 0 0" else expOp (Spec.addSub true x.coeff x.nfrac y.coeff y.nfrac), "")
      | _ => ("bad-op", "-", "")
    | "radix" =>
      match args with
      | [r, h] =>
        let s := unhex h
        if parseNat r ≠ 10 then ("err Invalid", "err Invalid", "")
        else (showExceptParse (fromStr ctx.prof s), specParse s, "")
      | _ => ("bad-op", "-", "")
    | _ => ("bad-op", "-", "")
  | _ => ("bad-op", "-", "")

/-- spec of one schedule step given the (thread, mode) history so far -/
def specSchedule' (hist : List (Nat × Mode)) : ThreadOp → String
  | .set _ _ => "-"
  | .get t => ((hist.find? (fun e => e.1 = t)).map (·.2) |>.getD Mode.heven).toString
  | .round t c p n =>
    let m := (hist.find? (fun e => e.1 = t)).map (·.2) |>.getD Mode.heven
    (expOp (Spec.round m c p n)).replace " " ","
  | .probe t =>
    let m := (hist.find? (fun e => e.1 = t)).map (·.2) |>.getD Mode.heven
    ",".intercalate ([15, 25, -15, 21, 5].map fun (c : Int) => toString (Spec.specRound m c 10))

/-- `threads` request.  Besides the ops of `parseThreadOp` a schedule may contain `x<t>:<request>` (tokens joined by `_`): any
    request of the protocol, executed on thread `t` under that thread's own default mode.  Model: the thread's cell of the world;
    spec: the mode the thread set last (else HalfEven). -/
def handleThreads (ctx : Ctx) (h : Ctx → List String → String × String × String) (ops : List String) :
    String × String × String :=
  let rec go (w : World) (hist : List (Nat × Mode)) : List String → Option (List String × List String)
    | [] => some ([], [])
    | o :: rest =>
      if o.take 1 == "x" then
        match (o.drop 1).toString.splitOn ":" with
        | [t, req] =>
          let t := parseNat t
          let toks := req.splitOn "_"
          let m := (h { ctx with tm := w.default t } toks).1
          let sm := (hist.find? (fun e => e.1 = t)).map (·.2) |>.getD Mode.heven
          let sp := (h { ctx with tm := sm } toks).2.1
          (go w hist rest).map fun (ms, ss) => (m.replace " " "," :: ms, sp.replace " " "," :: ss)
        | _ => none
      else
        match parseThreadOp o with
        | none => none
        | some op =>
          let (w', obs) := threadStep ctx.prof w op
          let hist' := match op with | .set t m => (t, m) :: hist | _ => hist
          let sp := specSchedule' hist op
          (go w' hist' rest).map fun (ms, ss) => (showObs obs :: ms, sp :: ss)
  match go [] [] ops with
  | none => ("bad-op", "-", "")
  | some (ms, ss) => (" ".intercalate ms, " ".intercalate ss, "")

def handleOp (ctx : Ctx) (toks : List String) : String × String × String :=
  if toks.head? = some "nt" then handleNt ctx toks else
  let binOps := ["add", "sub", "mul", "div", "rem", "cadd", "csub", "cmul", "cdiv", "crem"]
  let intOps := ["iadd", "isub", "imul", "idiv", "irem", "icadd", "icsub", "icmul", "icdiv", "icrem", "iquant",
    "ieq", "icmp"]
  match toks with
  | [op, _form, a, p, b, q] =>
    if binOps.contains op then handleBin ctx op (parseInt a) (parseNat p) (parseInt b) (parseNat q)
    else if op = "iidivr" then
      -- iidivr T form i j n
      let (i, j, n) := (parseInt p, parseInt b, parseNat q)
      (showOutDec (divRoundedIntInt ctx.prof ctx.tm i j n), expOp (Spec.divRounded ctx.tm i 0 j 0 n),
        s!"{sgn i}{sgn j}{if n > 18 then "N" else "n"}{rclass (i * 10 ^ n) j}")
    else ("bad-op", "-", "")
  | [op, t1, t2, t3, t4, t5, t6] =>
    if op = "mulr" ∨ op = "divr" then
      handleBinN ctx op (parseInt t2) (parseNat t3) (parseInt t4) (parseNat t5) (parseNat t6)
    else if intOps.contains op then
      -- i<op> T pos form a p i
      handleInt ctx (op.drop 1).toString t1 t2 (parseInt t4) (parseNat t5) (parseInt t6) 0
    else ("bad-op", "-", "")
  | ["idivr", ty, pos, _form, a, p, i, n] =>
    handleInt ctx "divr" ty pos (parseInt a) (parseNat p) (parseInt i) (parseNat n)
  | ["quant", a, p, b, q] => handleBin ctx "quant" (parseInt a) (parseNat p) (parseInt b) (parseNat q)
  | ["iiquant", _ty, i, j] =>
    let (i, j) := (parseInt i, parseInt j)
    (showOutDec (quantizeIntInt ctx.prof ctx.tm i j), expOp (Spec.quantize ctx.tm true i 0 j 0), s!"{sgn i}{sgn j}")
  | ["round", a, p, n] =>
    let (a, p, n) := (parseInt a, parseNat p, parseInt n)
    (showOutDec (round ctx.prof ctx.tm ⟨a, p⟩ n), expOp (Spec.round ctx.tm a p n),
      s!"{sgn a}{if n ≥ p then "id" else if (p : Int) - n > 38 then "far" else if n < 0 then "neg" else "pos"}" ++
        (if n < p then rclass a (10 ^ ((p : Int) - n).toNat) else ""))
  | ["cround", a, p, n] =>
    let (a, p, n) := (parseInt a, parseNat p, parseInt n)
    (showOutOptDec (checkedRound ctx.prof ctx.tm ⟨a, p⟩ n), expChecked (Spec.round ctx.tm a p n),
      s!"{sgn a}{if n ≥ p then "id" else if (p : Int) - n > 38 then "far" else if n < 0 then "neg" else "pos"}" ++
        (if n < p then rclass a (10 ^ ((p : Int) - n).toNat) else ""))
  | ["cmp", a, p, b, q] =>
    let (a, p, b, q) := (parseInt a, parseNat p, parseInt b, parseNat q)
    let x : Dec := ⟨a, p⟩
    let y : Dec := ⟨b, q⟩
    let pc := partialCmp x y
    let bits (o : Option Ordering) : String :=
      b2s (decimalEq x y) ++ b2s (!decimalEq x y) ++ b2s (o == some .lt) ++ b2s (o == some .lt || o == some .eq) ++
        b2s (o == some .gt) ++ b2s (o == some .gt || o == some .eq)
    let c := cmp x y
    let (mn, mx) := match c with
      | .ok .gt => (y, x)
      | _ => (x, y)
    let so := Spec.cmp a p b q
    let sbits := b2s (so == .eq) ++ b2s (so != .eq) ++ b2s (so == .lt) ++ b2s (so != .gt) ++ b2s (so == .gt) ++
      b2s (so != .lt)
    let (smn, smx) := if so == .gt then (y, x) else (x, y)
    ((match c with | .ok o => showOrd o | .panic k => showPanic k) ++ " " ++ showOptOrd pc ++ " " ++ bits pc ++
        s!" {mn.coeff} {mn.nfrac} {mx.coeff} {mx.nfrac}",
      showOrd so ++ " " ++ showOrd so ++ " " ++ sbits ++ s!" {smn.coeff} {smn.nfrac} {smx.coeff} {smx.nfrac}",
      s!"{rel p q}{sgn a}{sgn b}" ++ (match checkedAdjustCoeffs a p b q with
        | (some _, some _) => "n" | (none, some _) => "L" | (some _, none) => "R" | _ => "B") ++ showOrd so)
  | ["kdivr", n, d] =>
    let (n, d) := (parseInt n, parseInt d)
    (match i128DivRounded ctx.prof ctx.tm n d (some ctx.tm) with | .ok v => s!"ok {v}" | .panic k => showPanic k,
      if d = 0 then "panic rdivzero" else s!"ok {Spec.specRoundQ ctx.tm n d}", s!"{sgn n}{sgn d}{rclass n d}")
  | ["kwsh", x, k, y] =>
    let (x, k, y) := (parseInt x, parseNat k, parseInt y)
    let m := i128ShiftedDivModFloor ctx.prof x k y
    let sp :=
      if y ≤ 0 then "-" else
      let n := x * 10 ^ k
      let q := n / y
      if Spec.fits q && Spec.fits (n.natAbs / y.natAbs) then s!"ok {q} {n % y}"
      else if Spec.fits (n.natAbs / y.natAbs) then "*" else "none"
    (match m with | .ok (some (q, r)) => s!"ok {q} {r}" | .ok none => "none" | .panic k => showPanic k, sp,
      s!"{sgn x}{sgn y}{if y.natAbs < 2 ^ 64 then "s" else "l"}{if (x * 10 ^ k) % y = 0 then "x" else "r"}")
  | ["kw256", a, b, m] =>
    let (a, b, m) := (parseInt a, parseInt b, parseInt m)
    let r := i256DivModFloor ctx.prof a b m
    let sp :=
      if m ≤ 0 then "-" else
      let n := a * b
      if Spec.fits (n.natAbs / m.natAbs) then s!"ok {n / m} {n % m}" else "none"
    (match r with | .ok (some (q, r)) => s!"ok {q} {r}" | .ok none => "none" | .panic k => showPanic k, sp,
      s!"{sgn a}{sgn b}{if m.natAbs < 2 ^ 64 then "s" else "l"}{if (a * b) % m = 0 then "x" else "r"}")
  | ["kmagn", i] =>
    let i := parseInt i
    (toString (i128Magnitude i), if i = 0 then "0" else toString (Spec.ilog10 64 i.natAbs), "")
  | ["parse", h] =>
    let s := unhex h
    (showExceptParse (fromStr ctx.prof s), specParse s,
      match Spec.parseSpec s with | .ok _ _ => "ok" | .empty => "empty" | .bad => "bad")
  | ["s2d", h] =>
    let s := unhex h
    (match strToDec ctx.prof s with
      | .panic k => showPanic k
      | .ok (.error e) => "err " ++ e.toString
      | .ok (.ok (c, e)) => s!"ok {c} {e}", "-", "")
  | ["macrofold", h] =>
    let s := unhex h
    (showExceptParse (macroFold ctx.prof s), specParse (macroStripBlank s), "")
  | ["str", a, p] =>
    let (a, p) := (parseInt a, parseNat p)
    let d : Dec := ⟨a, p⟩
    let s1 := display ctx.prof ctx.tm {} d
    let s2 := toStringDec ctx.prof d
    let s3 := debugDec ctx.prof d
    let sh : Outcome (List Nat) → String
      | .ok l => tohex l
      | .panic k => "panic:" ++ k.toString
    let r := Spec.render a p
    (sh s1 ++ " " ++ sh s2 ++ " " ++ sh s3 ++ " " ++
        (match s2 with | .ok l => (showExceptParse (fromStr ctx.prof l)).replace " " "," | .panic _ => "-"),
      tohex r ++ " " ++ tohex r ++ " " ++ tohex ([68, 101, 99, 33, 40] ++ r ++ [41]) ++ s!" ok,{a},{p}",
      s!"{sgn a}{if p = 0 then "0" else "p"}{if a.natAbs < 10 ^ p then "f" else "i"}")
  | "fmt" :: a :: p :: rest =>
    let (a, p) := (parseInt a, parseNat p)
    let f := parseFmtSpec rest
    (match display ctx.prof ctx.tm f ⟨a, p⟩ with | .ok l => tohex l | .panic k => showPanic k,
      tohex (specDisplay ctx.tm f a p),
      s!"{sgn a}" ++ (match f.prec with | none => "d" | some pr => rel (min pr 18) p) ++
        (match f.width with | none => "-" | some _ => "w") ++ toString f.align ++ b2s f.plus ++ b2s f.zero)
  | ["tof64", a, p] =>
    let (a, p) := (parseInt a, parseNat p)
    (match intoFloat ctx.prof .f64 ⟨a, p⟩ with | .ok b => toString b | .panic k => showPanic k,
      specIntoFloat .f64 a p, s!"{sgn a}{if p = 0 ∨ a = 0 then "i" else "f"}")
  | ["tof32", a, p] =>
    let (a, p) := (parseInt a, parseNat p)
    (match intoFloat ctx.prof .f32 ⟨a, p⟩ with | .ok b => toString b | .panic k => showPanic k,
      specIntoFloat .f32 a p, s!"{sgn a}{if p = 0 ∨ a = 0 then "i" else "f"}")
  | ["fromf64", b] =>
    let b := parseNat b
    (match tryFromFloat ctx.prof .f64 b with
      | .ok (.ok d) => showDec d | .ok (.error e) => "err " ++ showFloatErr e | .panic k => showPanic k,
      specFromFloat .f64 b, kindOf (specFromFloat .f64 b))
  | ["fromf32", b] =>
    let b := parseNat b
    (match tryFromFloat ctx.prof .f32 b with
      | .ok (.ok d) => showDec d | .ok (.error e) => "err " ++ showFloatErr e | .panic k => showPanic k,
      specFromFloat .f32 b, kindOf (specFromFloat .f32 b))
  | ["fromint", _ty, i] => let i := parseInt i; (showDec (fromInt i), s!"ok {i} 0", "")
  | ["fromu128", i] =>
    let i := parseNat i
    (match tryFromU128 i with | some d => showDec d | none => "err InternalOverflow",
      if (i : Int) ≤ 2 ^ 127 - 1 then s!"ok {i} 0" else "err InternalOverflow", "")
  | ["toint", ty, a, p] =>
    let (a, p) := (parseInt a, parseNat p)
    let t := if ty = "u128" then IntTy.u128 else intTyOf ty
    (match intoInt t ⟨a, p⟩ with
      | .ok (.ok v) => s!"ok {v}" | .ok (.error .notAnInt) => "err NotAnIntValue"
      | .ok (.error .outOfRange) => "err ValueOutOfRange" | .panic k => showPanic k,
      match Spec.intoInt t a p with
      | .ok v => s!"ok {v}" | .error false => "err NotAnIntValue" | .error true => "err ValueOutOfRange",
      ty ++ (match Spec.intoInt t a p with | .ok _ => "ok" | .error false => "nai" | .error true => "oor"))
  | ["unop", name, a, p] =>
    let (a, p) := (parseInt a, parseNat p)
    let d : Dec := ⟨a, p⟩
    let pr (x : Int × Nat) : String := s!"ok {x.1} {x.2}"
    let base := s!"{sgn a}{if p = 0 then "0" else "p"}{if a % 10 ^ p = 0 then "i" else "f"}"
    match name with
    | "floor" => (showOutDec (floor ctx.prof d), pr (Spec.floor a p), base)
    | "ceil" => (showOutDec (ceil ctx.prof d), pr (Spec.ceil a p), base)
    | "trunc" => (showOutDec (trunc d), pr (Spec.trunc a p), base)
    | "fract" => (showOutDec (fract d), pr (Spec.fract a p), base)
    | "neg" => (showOutDec (neg ctx.prof d), s!"ok {-a} {p}", base)
    | "abs" => (showOutDec (abs ctx.prof d), s!"ok {a.natAbs} {p}", base)
    | "magn" => (match magnitude ctx.prof d with | .ok v => s!"ok {v}" | .panic k => showPanic k,
        s!"ok {Spec.magnitude a p}", base)
    | "eqzero" => (b2s (eqZero d), b2s (a = 0), base)
    | "eqone" => (match eqOne d with | .ok b => b2s b | .panic k => showPanic k, b2s (a = 10 ^ p), base)
    | "isneg" => (b2s (isNegative d), b2s (a < 0), base)
    | "ispos" => (b2s (isPositive d), b2s (a > 0), base)
    | _ => ("bad-op", "-", "")
  | ["ratio", a, p] =>
    let (a, p) := (parseInt a, parseNat p)
    let d : Dec := ⟨a, p⟩
    let sh (x : Outcome Int) : String := match x with | .ok v => toString v | .panic k => "panic:" ++ k.toString
    let (n, dn) := Spec.ratio a p
    ((match asIntegerRatio ctx.prof d with | .ok (x, y) => s!"{x} {y}" | .panic k => s!"panic:{k.toString} -") ++
        " " ++ sh (numerator ctx.prof d) ++ " " ++ sh (denominator ctx.prof d),
      s!"{n} {dn} {n} {dn}", s!"{sgn a}{if p = 0 then "0" else "p"}{if Int.gcd a (10 ^ p) = 1 then "c" else "r"}")
  | ["hashfeed", a, p] =>
    let (a, p) := (parseInt a, parseNat p)
    let d : Dec := ⟨a, p⟩
    let (n, dn) := Spec.ratio a p
    ((match hashFeed ctx.prof d with
      | .ok ws => ",".intercalate (ws.map fun w => s!"i128:{w}")
      | .panic k => s!"panic:{k.toString}"),
      s!"i128:{n},i128:{dn}", s!"{sgn a}{if p = 0 then "0" else "p"}")
  | ["hash", a, p] =>
    let (a, p) := (parseInt a, parseNat p)
    let d : Dec := ⟨a, p⟩
    let r0 := asIntegerRatio ctx.prof d
    -- every representation of the same value with more fractional digits feeds the same pair
    let rec go (fuel : Nat) (c : Int) (k : Nat) (acc : Bool) : Bool :=
      match fuel with
      | 0 => acc
      | fuel + 1 =>
        if k > 18 then acc else
        match checkedI128 (c * 10) with
        | some c2 =>
          if c2 = I128_MIN then acc else
          let e : Dec := ⟨c2, k⟩
          go fuel c2 (k + 1) (acc && decimalEq e d && (asIntegerRatio ctx.prof e == r0))
        | none => acc
    let ok := r0.isOk && go 19 a (p + 1) true
    (b2s ok, "1", s!"{sgn a}{if p = 0 then "0" else "p"}")
  | ["hasheq", a, p, b, q] =>
    let (a, p, b, q) := (parseInt a, parseNat p, parseInt b, parseNat q)
    let x : Dec := ⟨a, p⟩
    let y : Dec := ⟨b, q⟩
    let e := Spec.cmp a p b q == .eq
    (b2s (decimalEq x y) ++ " " ++ b2s (asIntegerRatio ctx.prof x == asIntegerRatio ctx.prof y),
      b2s e ++ " " ++ (if e then "1" else "*"), b2s e)
  | ["serde", a, p] =>
    let (a, p) := (parseInt a, parseNat p)
    let d : Dec := ⟨a, p⟩
    let r := Spec.render a p
    (match toStringDec ctx.prof d with
      | .ok l => tohex ([34] ++ l ++ [34]) ++ " " ++ (showExceptParse (fromStr ctx.prof l)).replace " " ","
      | .panic k => showPanic k,
      tohex ([34] ++ r ++ [34]) ++ s!" ok,{a},{p}", "")
  | ["rkyv", a, p, b, q] =>
    let (a, p, b, q) := (parseInt a, parseNat p, parseInt b, parseNat q)
    let x : Dec := ⟨a, p⟩
    let y : Dec := ⟨b, q⟩
    let e := decimalEq x y
    let c := showOptOrd (partialCmp x y)
    let so := Spec.cmp a p b q
    (s!"ok,{a},{p} {b2s e}{b2s e}{b2s e} {c} {c} {c}",
      s!"ok,{a},{p} {b2s (so == .eq)}{b2s (so == .eq)}{b2s (so == .eq)} {showOrd so} {showOrd so} {showOrd so}", "")
  | _ => ("bad-op", "-", "")

def handle (ctx : Ctx) (toks : List String) : String × String × String :=
  if toks.head? = some "threads" then handleThreads ctx handleOp toks.tail else handleOp ctx toks

def profileOf (s : String) : Profile :=
  match s with
  | "dev" => Profile.dev
  | "release" => Profile.release
  | _ =>
    let oc := (s.splitOn "oc=1").length > 1
    let da := (s.splitOn "da=1").length > 1
    ⟨oc, da⟩

partial def loop (prof : Profile) (h : IO.FS.Stream) (out : IO.FS.Stream) : IO Unit := do
  let line ← h.getLine
  if line.isEmpty then return ()
  let toks := (line.trimAscii.toString.splitOn " ").filter (· ≠ "")
  match toks with
  | [] => out.putStrLn "bad-op\t-\t"
  | "threads" :: _ =>
    let (m, s, g) := handle ⟨prof, .heven⟩ toks
    out.putStrLn (m ++ "\t" ++ s ++ "\t" ++ g)
  | md :: rest =>
    match Mode.ofString? md with
    | none => out.putStrLn "bad-op\t-\t"
    | some tm =>
      let (m, s, g) := handle ⟨prof, tm⟩ rest
      out.putStrLn (m ++ "\t" ++ s ++ "\t" ++ g)
  loop prof h out

def main (args : List String) : IO Unit := do
  let prof := profileOf (args.headD "dev")
  let stdin ← IO.getStdin
  let stdout ← IO.getStdout
  loop prof stdin stdout
