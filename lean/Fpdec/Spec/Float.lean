import Fpdec.Prim
import Fpdec.Spec.Arith

/-!
# Spec: IEEE-754 binary formats, round-to-nearest-even of a positive rational

Independent of the implementation's algorithm: the exponent is found from the definition
`2^e ≤ num/den < 2^(e+1)` and the significand by half-even rounding of the exact quotient.
-/

namespace Fpdec.Spec

/-- half-even rounding of `n/d` (`d > 0`) to a natural number -/
def rhe (n d : Nat) : Nat :=
  let fl := n / d
  let r := n % d
  if 2 * r > d then fl + 1 else if 2 * r < d then fl else (if fl % 2 = 0 then fl else fl + 1)

/-- `⌊log2 (num/den)⌋` for `num, den > 0` -/
def floorLog2Ratio (num den : Nat) : Int :=
  let e0 : Int := (num.log2 : Int) - (den.log2 : Int)
  -- `2^e0 ≤ num/den` ?
  let le : Bool := if e0 ≥ 0 then decide (den * 2 ^ e0.toNat ≤ num) else decide (den ≤ num * 2 ^ (-e0).toNat)
  if le then e0 else e0 - 1

/-- binary float format: fraction bits and exponent bias -/
structure FloatFmt where
  fracBits : Nat
  expBits : Nat
deriving Repr

def FloatFmt.f64 : FloatFmt := ⟨52, 11⟩
def FloatFmt.f32 : FloatFmt := ⟨23, 8⟩
def FloatFmt.bias (f : FloatFmt) : Int := 2 ^ (f.expBits - 1) - 1
def FloatFmt.bits (f : FloatFmt) : Nat := 1 + f.expBits + f.fracBits

/-- bit pattern (sign bit clear) of the float nearest to `num/den > 0`, ties to even;
    normal range only (callers stay inside: `10^-18 ≤ value < 2^127`), subnormals not needed. -/
def rneBits (f : FloatFmt) (num den : Nat) : Nat :=
  let e := floorLog2Ratio num den
  let sh : Int := e - f.fracBits
  let m := if sh ≥ 0 then rhe num (den * 2 ^ sh.toNat) else rhe (num * 2 ^ (-sh).toNat) den
  -- carry into the exponent when the significand rounds up to 2^(fracBits+1)
  let (m, e) := if m = 2 ^ (f.fracBits + 1) then (2 ^ f.fracBits, e + 1) else (m, e)
  ((e + f.bias).toNat <<< f.fracBits) + (m - 2 ^ f.fracBits)

/-- exact value `(num, den)` of a finite positive bit pattern (sign cleared) -/
def decodeBits (f : FloatFmt) (bits : Nat) : Nat × Nat :=
  let frac := bits % 2 ^ f.fracBits
  let be := (bits >>> f.fracBits) % 2 ^ f.expBits
  if be = 0 then
    -- subnormal: frac · 2^(1 - bias - fracBits)
    (frac, 2 ^ (f.bias + f.fracBits - 1).toNat)
  else
    let e : Int := be - f.bias - f.fracBits
    if e ≥ 0 then ((frac + 2 ^ f.fracBits) * 2 ^ e.toNat, 1) else (frac + 2 ^ f.fracBits, 2 ^ (-e).toNat)

/-- C12: bit pattern of `f64::from(d)` / `f32::from(d)` for the decimal `a / 10^p` -/
def intoFloat (f : FloatFmt) (a : Int) (p : Nat) : Nat :=
  if a = 0 then 0 else rneBits f a.natAbs (10 ^ p) ||| ((if a < 0 then 1 else 0) <<< (f.bits - 1))

/-- what `Decimal::try_from(float)` may return -/
inductive FromFloatExp
  | infinite | nan | overflow
  | val (c : Int) (p : Nat)
  /-- exactly `-2^127`: value or overflow -/
  | valOrOvf (c : Int) (p : Nat)
deriving Repr, DecidableEq

/-- C13: the exact value of the float rounded half-even to 18 fractional digits, trailing zeros removed -/
def fromFloat (f : FloatFmt) (bits : Nat) : FromFloatExp :=
  let be := (bits >>> f.fracBits) % 2 ^ f.expBits
  let frac := bits % 2 ^ f.fracBits
  let neg := (bits >>> (f.bits - 1)) % 2 = 1
  if be = 2 ^ f.expBits - 1 then (if frac = 0 then .infinite else .nan) else
  let (num, den) := decodeBits f (bits % 2 ^ (f.bits - 1))
  let n : Int := if neg then -(num : Int) else num
  let r := specRound .heven (n * 10 ^ 18) den
  let (c, k) := normalizeSpec 19 r 18
  if c = -(2 : Int) ^ 127 then .valOrOvf c k
  else if fits c then .val c k
  else .overflow

end Fpdec.Spec
