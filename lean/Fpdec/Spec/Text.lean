import Fpdec.Prim
import Fpdec.Std
import Fpdec.Spec.Arith

/-!
# Spec: canonical text of a decimal (C07, C11) and the literal grammar (C06, C18)

Independent of the implementation: digits come from core's `Nat.toDigits`; the reference parser
reads one character at a time with unbounded integers and decides representability at the end.
-/

namespace Fpdec.Spec
open Fpdec

def digitsOf (n : Nat) : List Nat := (Nat.toDigits 10 n).map (fun c => c.toNat)

/-- `[-]int[.frac]` with exactly `p` fractional digits, no leading zeros in the integer part -/
def render (a : Int) (p : Nat) : List Nat :=
  let m := a.natAbs
  let ip := digitsOf (m / 10 ^ p)
  let fp := digitsOf (m % 10 ^ p)
  (if a < 0 then [45] else []) ++ ip ++
    (if p > 0 then [46] ++ List.replicate (p - fp.length) 48 ++ fp else [])

/-- magnitude text with `prec` fractional digits (no sign), `c ≥ 0` already scaled to `prec` -/
def renderAbs (c : Nat) (prec : Nat) : List Nat := render c prec

def isDig (c : Nat) : Bool := decide (48 ≤ c) && decide (c ≤ 57)

def spanDigits : List Nat → List Nat × List Nat
  | [] => ([], [])
  | c :: cs => if isDig c then let (d, r) := spanDigits cs; (c :: d, r) else ([], c :: cs)

def digitsVal (ds : List Nat) : Nat := ds.foldl (fun acc c => acc * 10 + (c - 48)) 0

def optSign : List Nat → Bool × List Nat
  | 45 :: cs => (true, cs)
  | 43 :: cs => (false, cs)
  | cs => (false, cs)

/-- result of the reference parser: `ok (c, p)`, `empty`, or `bad` (any other error) -/
inductive ParseRes | ok (c : Int) (p : Nat) | empty | bad
deriving Repr, DecidableEq, Inhabited

/-- the literal grammar of C06:
    `[+|-](digits[.digits*] | .digits)[(e|E)[+|-]digits]` -/
def parseSpec (s : List Nat) : ParseRes :=
  if s.isEmpty then .empty else
  let (neg, s) := optSign s
  let (ip, s) := spanDigits s
  let (fp, s, hasPoint) :=
    match s with
    | 46 :: r => let (f, r') := spanDigits r; (f, r', true)
    | _ => ([], s, false)
  -- mantissa: digits[.digits*] or .digits
  if ip.isEmpty ∧ fp.isEmpty then .bad else
  let _ := hasPoint
  let expPart : Option (Int × List Nat) :=
    match s with
    | c :: r =>
      if c = 101 ∨ c = 69 then
        let (eneg, r) := optSign r
        let (ed, r') := spanDigits r
        if ed.isEmpty then none else some ((if eneg then -(digitsVal ed : Int) else digitsVal ed), r')
      else some (0, c :: r)
    | [] => some (0, [])
  match expPart with
  | none => .bad
  | some (e, rest) =>
    if !rest.isEmpty then .bad else
    let D : Nat := digitsVal (ip ++ fp)
    let f : Int := fp.length
    let sgn (c : Nat) : Int := if neg then -(c : Int) else c
    if e ≥ f then
      -- integer-valued: coefficient D·10^(e-f), no fractional digits
      if D = 0 then .ok 0 0
      else if e - f > 38 then .bad
      else
        let C := D * 10 ^ (e - f).toNat
        if (C : Int) ≤ (2 : Int) ^ 127 - 1 then .ok (sgn C) 0 else .bad
    else
      let nf := f - e
      if nf > 18 then .bad
      else if (D : Int) ≤ (2 : Int) ^ 127 - 1 then .ok (sgn D) nf.toNat else .bad

/-- C11: `format!("{:…}", d)`: the canonical text of `d` rounded (mode `tm`) to `min(P, 18)` fractional digits
    (`P` absent: d's own digits; zero-extended when `P` exceeds them), sign from `d`, padded by std's rule -/
def displaySpec (tm : Mode) (f : Std.FmtSpec) (a : Int) (p : Nat) : List Nat :=
  let prec := match f.prec with | some pr => min pr 18 | none => p
  let c : Int := if prec ≥ p then a * 10 ^ (prec - p) else specRound tm a (10 ^ (p - prec))
  let body := render c.natAbs prec
  Std.padIntegral f (decide (a ≥ 0)) body

end Fpdec.Spec
