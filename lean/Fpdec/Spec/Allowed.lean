import Fpdec.Spec.Arith

/-!
# Spec: which observable outcome an operation may have

`allowedOp` / `allowedChecked` relate the expectation computed from the exact arithmetic
(`Spec.Exp`) to an `Outcome`; they are decidable and are also what the correspondence check
applies to the implementation's output (there in textual form).
-/

namespace Fpdec.Spec
open Fpdec

/-- panics that count as "overflow signal" for an operator -/
def isOvfPanic (k : PanicKind) : Bool := k == .overflow || k == .arith

/-- operator forms: a value or a panic -/
def allowedOp : Exp → Outcome (Int × Nat) → Bool
  | .val c p, .ok r => r == (c, p)
  | .ovf, .panic k => isOvfPanic k
  | .valOrOvf c p, .ok r => r == (c, p)
  | .valOrOvf _ _, .panic k => isOvfPanic k
  | .divzero, .panic k => k == .divzero
  | .nfrac, .panic _ => true
  | .any, _ => true
  | _, _ => false

/-- checked forms: `Some`, `None`, and never a panic (except for the rejected `n > 18`) -/
def allowedChecked : Exp → Outcome (Option (Int × Nat)) → Bool
  | .val c p, .ok (some r) => r == (c, p)
  | .ovf, .ok none => true
  | .valOrOvf c p, .ok (some r) => r == (c, p)
  | .valOrOvf _ _, .ok none => true
  | .divzero, .ok none => true
  | .none, .ok none => true
  | .nfrac, .panic _ => true
  | .any, _ => true
  | _, _ => false

end Fpdec.Spec
