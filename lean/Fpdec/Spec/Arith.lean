import Fpdec.Prim

/-!
# Spec: exact decimal arithmetic, the eight rounding rules, and what each operation must return

Written from the properties (C01–C05, C08, C10, C14, C15), not from the implementation:
everything is "compute the exact integer/rational result, then say which outcomes are allowed".
A decimal is a pair `(c, p)` standing for `c / 10^p`.
-/

namespace Fpdec.Spec
open Fpdec

/-- the i128 coefficient range -/
def fits (x : Int) : Bool := decide (-(2 : Int) ^ 127 ≤ x) && decide (x ≤ (2 : Int) ^ 127 - 1)

/-- Round the rational `n/d` (`d > 0`) to an integer under mode `m`
    (Python `decimal` semantics: ROUND_05UP, CEILING, DOWN, FLOOR, HALF_DOWN, HALF_EVEN, HALF_UP, UP). -/
def specRound (m : Mode) (n d : Int) : Int :=
  let fl := n / d            -- floor (d > 0)
  let r := n % d             -- 0 ≤ r < d
  if r = 0 then fl else
  let tz := if n ≥ 0 then fl else fl + 1   -- towards zero
  let az := if n ≥ 0 then fl + 1 else fl   -- away from zero
  match m with
  | .ceil => fl + 1
  | .floor => fl
  | .down => tz
  | .up => az
  | .r05up => if tz % 5 = 0 then az else tz
  | .hup => if 2 * r > d then fl + 1 else if 2 * r < d then fl else az
  | .hdown => if 2 * r > d then fl + 1 else if 2 * r < d then fl else tz
  | .heven => if 2 * r > d then fl + 1 else if 2 * r < d then fl else (if fl % 2 = 0 then fl else fl + 1)

/-- `specRound` for a divisor of either sign (`d ≠ 0`) -/
def specRoundQ (m : Mode) (n d : Int) : Int :=
  if d < 0 then specRound m (-n) (-d) else specRound m n d

/-- What an operation may return. -/
inductive Exp
  /-- exactly this decimal -/
  | val (c : Int) (p : Nat)
  /-- overflow signal (panic for operators, `None` for checked variants) -/
  | ovf
  /-- this decimal or the overflow signal (the statement leaves both open) -/
  | valOrOvf (c : Int) (p : Nat)
  /-- division-by-zero signal -/
  | divzero
  /-- `n > 18` rejected (any panic) -/
  | nfrac
  /-- `None` because the operation is not defined there (checked_mul with p+q > 18) -/
  | none
  /-- unconstrained corner (documented where used) -/
  | any
deriving Repr, DecidableEq, Inhabited

/-- value when the coefficient fits, else overflow; the coefficient `-2^127` is not a
    `Decimal` in the property's domain: either outcome is accepted there -/
def valFit (c : Int) (p : Nat) : Exp :=
  if c = -(2 : Int) ^ 127 then .valOrOvf c p else if fits c then .val c p else .ovf

/-- sharp i128 version (add/sub/mul-by-int return `-2^127` when that is the exact result) -/
def valFitSharp (c : Int) (p : Nat) : Exp := if fits c then .val c p else .ovf

def isOne (c : Int) (p : Nat) : Bool := c = (10 : Int) ^ p

/-- strip trailing fractional zeros; a zero becomes `(0, 0)` -/
def normalizeSpec : Nat → Int → Nat → Int × Nat
  | 0, c, p => (c, p)
  | fuel + 1, c, p =>
    if c = 0 then (0, 0)
    else if p > 0 ∧ c % 10 = 0 then normalizeSpec fuel (c / 10) (p - 1) else (c, p)

/-! ### C01 -/
def addSub (sub : Bool) (a : Int) (p : Nat) (b : Int) (q : Nat) : Exp :=
  let m := max p q
  let a' := a * (10 : Int) ^ (m - p)
  let b' := b * (10 : Int) ^ (m - q)
  let s := if sub then a' - b' else a' + b'
  if fits a' && fits b' && fits s then .val s m else .ovf

/-! ### C02 -/
def mul (md : Mode) (a : Int) (p : Nat) (b : Int) (q : Nat) : Exp :=
  if a = 0 ∨ b = 0 then .val 0 0
  else if isOne b q then .val a p
  else if isOne a p then .val b q
  else if p + q ≤ 18 then valFitSharp (a * b) (p + q)
  else valFit (specRound md (a * b) ((10 : Int) ^ (p + q - 18))) 18

def checkedMul (a : Int) (p : Nat) (b : Int) (q : Nat) : Exp :=
  if a = 0 ∨ b = 0 then .val 0 0
  else if isOne b q then .val a p
  else if isOne a p then .val b q
  else if p + q > 18 then .none
  else valFitSharp (a * b) (p + q)

def mulInt (a : Int) (p : Nat) (i : Int) : Exp := valFitSharp (a * i) p

/-! ### C03 -/
def div (md : Mode) (a : Int) (p : Nat) (b : Int) (q : Nat) : Exp :=
  if b = 0 then .divzero
  else if a = 0 then .val 0 0
  else if isOne b q then .val a p
  else
    let r := specRoundQ md (a * (10 : Int) ^ (18 + q)) (b * (10 : Int) ^ p)
    match valFit r 18 with
    | .val c n => let (c, n) := normalizeSpec 19 c n; .val c n
    | .valOrOvf c n => let (c, n) := normalizeSpec 19 c n; .valOrOvf c n
    | e => e

/-- integer / Decimal: a divisor equal to one returns `(i, 0)` -/
def divIntDec (md : Mode) (i : Int) (b : Int) (q : Nat) : Exp := div md i 0 b q

/-! ### C04 -/
def divRounded (md : Mode) (a : Int) (p : Nat) (b : Int) (q : Nat) (n : Nat) : Exp :=
  if n > 18 then .nfrac
  else if b = 0 then .divzero
  else if a = 0 then .val 0 0
  else valFit (specRoundQ md (a * (10 : Int) ^ (n + q)) (b * (10 : Int) ^ p)) n

def mulRounded (md : Mode) (a : Int) (p : Nat) (b : Int) (q : Nat) (n : Nat) : Exp :=
  if n > 18 then .nfrac
  else if a = 0 ∨ b = 0 then .val 0 0
  else if n ≥ p + q then valFitSharp (a * b) (p + q)
  else valFit (specRound md (a * b) ((10 : Int) ^ (p + q - n))) n

/-- `x.quantize(q)`: `k·q` with `k` = the quotient rounded to an integer under the mode; the
    representation is that of the product `k * q` (C02 rules) -/
def quantize (md : Mode) (intQuant : Bool) (a : Int) (p : Nat) (b : Int) (q : Nat) : Exp :=
  match divRounded md a p b q 0 with
  | .val k _ => if intQuant then mulInt k 0 b else mul md k 0 b q
  | .valOrOvf _ _ => .any   -- quotient exactly -2^127: outside the property's domain
  | e => e

/-! ### C05 -/
def round (md : Mode) (a : Int) (p : Nat) (n : Int) : Exp :=
  if n ≥ p then .val a p
  else
    let k := specRound md a ((10 : Int) ^ ((p : Int) - n).toNat)
    if n ≥ 0 then valFit k n.toNat
    else if k = 0 then .val 0 0
    else valFit (k * (10 : Int) ^ (-n).toNat) 0

/-! ### C10 -/
def rem (a : Int) (p : Nat) (b : Int) (q : Nat) : Exp :=
  if b = 0 then .divzero
  else if a = 0 then .val 0 0
  else
    let m := max p q
    let A := a * (10 : Int) ^ (m - p)
    let B := b * (10 : Int) ^ (m - q)
    let r := A.tmod B
    -- a divisor equal to one: the fractional part of `x`, in x's own scale
    if isOne b q then (if p = 0 then .val 0 0 else .val (a.tmod ((10 : Int) ^ p)) p)
    else if p < q ∧ !fits A then .valOrOvf r m else .val r m

/-! ### C08 -/
def cmp (a : Int) (p : Nat) (b : Int) (q : Nat) : Ordering :=
  compare (a * (10 : Int) ^ q) (b * (10 : Int) ^ p)

/-! ### C15 -/
def floor (a : Int) (p : Nat) : Int × Nat := (a / (10 : Int) ^ p, 0)
def ceil (a : Int) (p : Nat) : Int × Nat := (-((-a) / (10 : Int) ^ p), 0)
def trunc (a : Int) (p : Nat) : Int × Nat := (a.tdiv ((10 : Int) ^ p), 0)
def fract (a : Int) (p : Nat) : Int × Nat := if p = 0 then (0, 0) else (a.tmod ((10 : Int) ^ p), p)

/-- number of decimal digits minus one of a positive natural number -/
def ilog10 : Nat → Nat → Nat
  | 0, _ => 0
  | fuel + 1, n => if n < 10 then 0 else 1 + ilog10 fuel (n / 10)

def magnitude (a : Int) (p : Nat) : Int := if a = 0 then 0 else (ilog10 64 a.natAbs : Int) - p

/-! ### C09 -/
def ratio (a : Int) (p : Nat) : Int × Int :=
  let d : Int := (10 : Int) ^ p
  let g : Int := Int.gcd a d
  (a / g, d / g)

/-! ### C14 -/
/-- `T::try_from(d)`: `Ok v`, not an integer, or out of range -/
def intoInt (t : IntTy) (a : Int) (p : Nat) : Except Bool Int :=
  let d : Int := (10 : Int) ^ p
  if a % d ≠ 0 then .error false           -- NotAnIntValue
  else if t.fits (a / d) then .ok (a / d)
  else .error true                          -- ValueOutOfRange

end Fpdec.Spec
