import Fpdec.Prim

/-!
# Run-time vocabulary of the generated kernels (`Gen/K*.lean`)

Hand-written, not generated: the handful of primitives that `tools/fpkernels.py` emits for Rust operations that have no direct
counterpart in `Prim.lean`.
-/

namespace Fpdec.Rt

/-- plain operator on an unsigned type of the given width (value carried as `Nat`) -/
def plainU (bits : Nat) (prof : Profile) (x : Int) : Outcome Nat :=
  if 0 ≤ x ∧ x < (2 : Int) ^ bits then .ok x.toNat
  else if prof.oc then .panic .arith else .ok (x % (2 : Int) ^ bits).toNat

/-- `fpdec::DecimalError` -/
inductive DecimalError
  | maxNFracDigitsExceeded | internalOverflow | infiniteValue | notANumber | divisionByZero
deriving Repr, DecidableEq

/-- `fpdec::TryFromDecimalError` -/
inductive TryFromDecimalError
  | notAnIntValue | valueOutOfRange
deriving Repr, DecidableEq

/-- the error of a failed `Result` carried over to another `Ok` type (the `?` operator; only used on a value known to be `Err`) -/
def errOf {ε α β} [Inhabited ε] : Except ε α → Except ε β
  | .error e => .error e
  | .ok _ => .error default

/-- truncation to an unsigned type of the given width (`as uN`, `wrapping_*`, bits shifted out by `<<`) -/
def wrapU (bits : Nat) (x : Nat) : Nat := x % 2 ^ bits

/-- saturating unsigned operation -/
def sat (bits : Nat) (x : Int) : Nat :=
  if x < 0 then 0 else if x < (2 : Int) ^ bits then x.toNat else 2 ^ bits - 1

/-- `a[i]` -/
def index {α} (a : Array α) (i : Nat) : Outcome α :=
  match a[i]? with
  | some v => .ok v
  | none => .panic .index

/-- `x << n` on an unsigned type: overflow check on the shift amount only, shifted-out bits are dropped -/
def shl (bits : Nat) (prof : Profile) (x n : Nat) : Outcome Nat :=
  if n ≥ bits then (if prof.oc then .panic .arith else .ok ((x <<< (n % bits)) % 2 ^ bits)) else .ok ((x <<< n) % 2 ^ bits)

def shr (bits : Nat) (prof : Profile) (x n : Nat) : Outcome Nat :=
  if n ≥ bits then (if prof.oc then .panic .arith else .ok (x >>> (n % bits))) else .ok (x >>> n)

/-- `x << n` on a signed type: overflow check on the shift amount only (masked without it), shifted-out bits are dropped -/
def shlI (ty : IntTy) (prof : Profile) (x : Int) (n : Nat) : Outcome Int :=
  if n ≥ ty.bits then (if prof.oc then .panic .arith else .ok (ty.cast (x * 2 ^ (n % ty.bits)))) else .ok (ty.cast (x * 2 ^ n))

/-- `x >> n` on a signed type: arithmetic shift (floor division by `2^n`); overflow check on the shift amount only -/
def shrI (ty : IntTy) (prof : Profile) (x : Int) (n : Nat) : Outcome Int :=
  if n ≥ ty.bits then (if prof.oc then .panic .arith else .ok (x >>> (n % ty.bits))) else .ok (x >>> n)

/-- `trailing_zeros` of a signed value: of its two's-complement bit pattern -/
def tzI (ty : IntTy) (x : Int) : Nat := trailingZeros ty.bits (x % 2 ^ ty.bits).toNat

/-- `f64::is_infinite`, `f64::is_nan`, `f32::…` on the bit pattern (IEEE 754 binary64 / binary32 encodings) -/
def f64_is_infinite (b : Nat) : Bool := b % 2 ^ 63 == 0x7ff0000000000000
def f64_is_nan (b : Nat) : Bool := b % 2 ^ 63 > 0x7ff0000000000000
def f32_is_infinite (b : Nat) : Bool := b % 2 ^ 31 == 0x7f800000
def f32_is_nan (b : Nat) : Bool := b % 2 ^ 31 > 0x7f800000

/-- little-endian value of the first eight bytes of a slice (`u64::from_le(ptr::read_unaligned(..))`) -/
def readU64LE (s : List Nat) : Nat := (s.take 8).foldr (fun b acc => b + 256 * acc) 0

/-- `(a, b).hash(state)` for a pair of `i128`: std's `Hash` for tuples hashes the components in order, and `i128::hash` is one
`Hasher::write_i128` call — the sequence of words fed to the Hasher -/
def hashFeedPair (p : Int × Int) : List Int := [p.1, p.2]

def divU (x y : Nat) : Outcome Nat := if y = 0 then .panic .rdivzero else .ok (x / y)
def remU (x y : Nat) : Outcome Nat := if y = 0 then .panic .rdivzero else .ok (x % y)

end Fpdec.Rt
