/-!
# Primitive layer

Fixed-width integer semantics of Rust as used by `fpdec`: values are carried as `Int`/`Nat`
and every operation is "compute in ℤ, then check / wrap".  `Profile` carries the two rustc
switches that change observable behaviour (`-C overflow-checks`, `-C debug-assertions`).
No Mathlib imports: this file is linked into the `fpmodel` executable.
-/

namespace Fpdec

/-- rustc switches that change what a *plain* arithmetic operator does. -/
structure Profile where
  /-- `-C overflow-checks` (on in `dev`, off in `release`) -/
  oc : Bool
  /-- `-C debug-assertions` (on in `dev`, off in `release`) -/
  da : Bool
deriving Repr, DecidableEq, Inhabited

def Profile.dev : Profile := ⟨true, true⟩
def Profile.release : Profile := ⟨false, false⟩

/-- Classes of panics that the line protocol distinguishes. -/
inductive PanicKind
  /-- `panic!("{}", DecimalError::InternalOverflow)` / "Internal representation exceeded." -/
  | overflow
  /-- rustc overflow check: "attempt to add/subtract/multiply/negate/shift … with overflow",
      also `MIN / -1` -/
  | arith
  /-- `DecimalError::DivisionByZero` -/
  | divzero
  /-- rustc "attempt to divide by zero" / "… remainder with a divisor of zero" -/
  | rdivzero
  /-- `DecimalError::MaxNFracDigitsExceeded` -/
  | nfrac
  /-- slice / array index out of bounds -/
  | index
  /-- `assert!`, `debug_assert!`, `assert_ne!` … -/
  | assert
  /-- `Option::unwrap` on `None`, `unreachable!` -/
  | unwrap
  | other
deriving Repr, DecidableEq, Inhabited

def PanicKind.toString : PanicKind → String
  | .overflow => "overflow" | .arith => "arith" | .divzero => "divzero" | .rdivzero => "rdivzero"
  | .nfrac => "nfrac" | .index => "index" | .assert => "assert" | .unwrap => "unwrap" | .other => "other"

/-- Result of running a Rust function: a value or a panic. -/
inductive Outcome (α : Type) where
  | ok (a : α)
  | panic (k : PanicKind)
deriving Repr, DecidableEq, Inhabited

namespace Outcome

@[inline] def bind {α β} (x : Outcome α) (f : α → Outcome β) : Outcome β :=
  match x with
  | .ok a => f a
  | .panic k => .panic k

instance : Monad Outcome where
  pure := .ok
  bind := Outcome.bind

@[simp] theorem bind_ok {α β} (a : α) (f : α → Outcome β) : (Outcome.ok a >>= f) = f a := rfl
@[simp] theorem bind_panic {α β} (k : PanicKind) (f : α → Outcome β) :
    (Outcome.panic k >>= f) = .panic k := rfl
@[simp] theorem pure_eq {α} (a : α) : (pure a : Outcome α) = .ok a := rfl
@[simp] theorem map_ok {α β} (f : α → β) (a : α) : f <$> (Outcome.ok a) = .ok (f a) := rfl
@[simp] theorem map_panic {α β} (f : α → β) (k : PanicKind) :
    f <$> (Outcome.panic k : Outcome α) = .panic k := rfl

def isOk {α} : Outcome α → Bool
  | .ok _ => true
  | .panic _ => false

/-- `Option` → `Outcome`, panicking with `k` on `none` (the `match … None => panic!(…)` idiom). -/
def ofOption {α} (k : PanicKind) : Option α → Outcome α
  | some a => .ok a
  | none => .panic k

@[simp] theorem ofOption_some {α} (k : PanicKind) (a : α) : ofOption k (some a) = .ok a := rfl
@[simp] theorem ofOption_none {α} (k : PanicKind) : ofOption k (none : Option α) = .panic k := rfl

end Outcome

/-- A Rust primitive integer type. -/
structure IntTy where
  signed : Bool
  bits : Nat
deriving Repr, DecidableEq, Inhabited

namespace IntTy
def u8 : IntTy := ⟨false, 8⟩
def u16 : IntTy := ⟨false, 16⟩
def u32 : IntTy := ⟨false, 32⟩
def u64 : IntTy := ⟨false, 64⟩
def u128 : IntTy := ⟨false, 128⟩
def usize : IntTy := ⟨false, 64⟩
def i8 : IntTy := ⟨true, 8⟩
def i16 : IntTy := ⟨true, 16⟩
def i32 : IntTy := ⟨true, 32⟩
def i64 : IntTy := ⟨true, 64⟩
def i128 : IntTy := ⟨true, 128⟩
def isize : IntTy := ⟨true, 64⟩

def min (t : IntTy) : Int := if t.signed then -((2 : Int) ^ (t.bits - 1)) else 0
def max (t : IntTy) : Int := if t.signed then (2 : Int) ^ (t.bits - 1) - 1 else (2 : Int) ^ t.bits - 1
def fits (t : IntTy) (x : Int) : Bool := decide (t.min ≤ x) && decide (x ≤ t.max)
/-- two's complement wrap-around into the type's range -/
def wrap (t : IntTy) (x : Int) : Int :=
  if t.signed then (x + (2 : Int) ^ (t.bits - 1)) % (2 : Int) ^ t.bits - (2 : Int) ^ (t.bits - 1)
  else x % (2 : Int) ^ t.bits

def name (t : IntTy) : String := (if t.signed then "i" else "u") ++ toString t.bits

def ofName? : String → Option IntTy
  | "u8" => some u8 | "u16" => some u16 | "u32" => some u32 | "u64" => some u64 | "u128" => some u128
  | "i8" => some i8 | "i16" => some i16 | "i32" => some i32 | "i64" => some i64 | "i128" => some i128
  | _ => none

/-- a *plain* operator result `x` (computed in ℤ): panics iff overflow checks are on, else wraps -/
def plain (t : IntTy) (prof : Profile) (x : Int) : Outcome Int :=
  if t.fits x then .ok x else if prof.oc then .panic .arith else .ok (t.wrap x)

/-- `checked_*` -/
def checked (t : IntTy) (x : Int) : Option Int := if t.fits x then some x else none

/-- `as` cast between integer types -/
def cast (t : IntTy) (x : Int) : Int := t.wrap x

end IntTy

/-! ### `i128`, the coefficient type, spelled out so that `omega` sees literals -/

def I128_MAX : Int := 170141183460469231731687303715884105727
def I128_MIN : Int := -170141183460469231731687303715884105728
def U128_MOD : Nat := 340282366920938463463374607431768211456
def U64_MOD : Nat := 18446744073709551616

/-- `x` is representable as an `i128` -/
def fitsI128 (x : Int) : Bool := decide (I128_MIN ≤ x) && decide (x ≤ I128_MAX)
def wrapI128 (x : Int) : Int := (x + 170141183460469231731687303715884105728) % 340282366920938463463374607431768211456
  - 170141183460469231731687303715884105728
/-- plain `i128` operator -/
def plainI128 (prof : Profile) (x : Int) : Outcome Int :=
  if fitsI128 x then .ok x else if prof.oc then .panic .arith else .ok (wrapI128 x)
/-- `i128::checked_*` -/
def checkedI128 (x : Int) : Option Int := if fitsI128 x then some x else none

/-- plain `u128` operator on naturals (a negative intermediate is passed as `none`) -/
def plainU128 (prof : Profile) (x : Int) : Outcome Nat :=
  if 0 ≤ x ∧ x < 340282366920938463463374607431768211456 then .ok x.toNat
  else if prof.oc then .panic .arith else .ok (x % 340282366920938463463374607431768211456).toNat
def wrapU128 (x : Nat) : Nat := x % 340282366920938463463374607431768211456
def plainU8 (prof : Profile) (x : Int) : Outcome Nat :=
  if 0 ≤ x ∧ x < 256 then .ok x.toNat else if prof.oc then .panic .arith else .ok (x % 256).toNat

/-- Rust `/` on `i128` (truncating; panics on zero divisor and on `MIN / -1` in every profile) -/
def divI128 (x y : Int) : Outcome Int :=
  if y = 0 then .panic .rdivzero
  else if x = I128_MIN ∧ y = -1 then .panic .arith
  else .ok (x.tdiv y)
/-- Rust `%` on `i128` -/
def remI128 (x y : Int) : Outcome Int :=
  if y = 0 then .panic .rdivzero
  else if x = I128_MIN ∧ y = -1 then .panic .arith
  else .ok (x.tmod y)
/-- `i128::wrapping_rem`: the truncated remainder; the one pair `(i128::MIN, -1)` on which `%` panics gives `0`, which is also
    the mathematical value (`Int.tmod`), so nothing wraps visibly.  A zero divisor panics like `%`. -/
def wrappingRemI128 (x y : Int) : Outcome Int :=
  if y = 0 then .panic .rdivzero
  else .ok (x.tmod y)
/-- unary minus on `i128` (plain) -/
def negI128 (prof : Profile) (x : Int) : Outcome Int := plainI128 prof (-x)

/-- `debug_assert!(c)` -/
def debugAssert (prof : Profile) (c : Bool) : Outcome Unit :=
  if prof.da && !c then .panic .assert else .ok ()
/-- `assert!(c)` -/
def assert (c : Bool) : Outcome Unit := if c then .ok () else .panic .assert

/-- The eight rounding modes (`fpdec_core::RoundingMode`). -/
inductive Mode
  | r05up | ceil | down | floor | hdown | heven | hup | up
deriving Repr, DecidableEq, Inhabited

def Mode.all : List Mode := [.r05up, .ceil, .down, .floor, .hdown, .heven, .hup, .up]

def Mode.toString : Mode → String
  | .r05up => "05up" | .ceil => "ceil" | .down => "down" | .floor => "floor"
  | .hdown => "hdown" | .heven => "heven" | .hup => "hup" | .up => "up"

def Mode.ofString? : String → Option Mode
  | "05up" => some .r05up | "ceil" => some .ceil | "down" => some .down | "floor" => some .floor
  | "hdown" => some .hdown | "heven" => some .heven | "hup" => some .hup | "up" => some .up
  | _ => none

/-- count of leading zeros of a `bits`-wide unsigned value -/
def leadingZeros (bits : Nat) (v : Nat) : Nat := bits - v.log2 - (if v = 0 then 0 else 1)
/-- `trailing_zeros` (value must be non-zero to be meaningful; `bits` for zero) -/
def trailingZeros (bits : Nat) (v : Nat) : Nat :=
  if v = 0 then bits else
  let rec go (fuel v acc : Nat) : Nat :=
    match fuel with
    | 0 => acc
    | fuel + 1 => if v % 2 = 1 then acc else go fuel (v / 2) (acc + 1)
  go bits v 0

end Fpdec
