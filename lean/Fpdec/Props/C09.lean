import Fpdec.Lemmas.Dom
import Fpdec.Props.C09_Sites

/-! # C09 — property theorems (under construction: see DESIGN.md section 6) -/

namespace Fpdec.Props.C09
open Fpdec Fpdec.Model

end Fpdec.Props.C09
