import Fpdec.Kernels.Cmp
import Fpdec.Kernels.Ratio
import Fpdec.Kernels.Rkyv
import Fpdec.Lemmas.RatioL
import Fpdec.Lemmas.Cmp
import Fpdec.Props.C09_Sites

/-!
# C09 — Hash agrees with equality; as_integer_ratio is the reduced fraction

* `gcd_special_spec`: the specialised Stein gcd returns `gcd(|numer|, 10^e)`; its loop terminates within the
  fuel for every 128-bit operand; nothing inside panics, in any profile.
* `as_integer_ratio_spec`: `as_integer_ratio`, `numerator`, `denominator` return `Spec.ratio`.
* `ratio_reduced`: that pair has a positive denominator, is coprime and has the value of the Decimal — it is THE
  reduced fraction.
* `ratio_congr`, `hash_congr`: equal values in any two representations give the same pair, hence `Hash` feeds
  the same two words to the hasher as the pair itself does: equal Decimals hash identically for every `Hasher`.
-/

namespace Fpdec.Props.C09
open Fpdec Fpdec.Model

theorem gcd_special_spec (prof : Profile) (numer : Int) (e : Nat) (hn : I128_MIN < numer ∧ numer ≤ I128_MAX)
    (hn0 : numer ≠ 0) (he : e ≤ 18) : gcdSpecial prof numer e = .ok (Int.gcd numer ((10 : Int) ^ e) : Int) :=
  gcdSpecial_spec prof numer e hn hn0 he

theorem as_integer_ratio_spec (prof : Profile) (d : Dec) (hd : Dom d) :
    asIntegerRatio prof d = .ok (Spec.ratio d.coeff d.nfrac) ∧
    numerator prof d = .ok (Spec.ratio d.coeff d.nfrac).1 ∧ denominator prof d = .ok (Spec.ratio d.coeff d.nfrac).2 :=
  asIntegerRatio_spec prof d hd

theorem ratio_is_reduced (a : Int) (p : Nat) :
    0 < (Spec.ratio a p).2 ∧ Int.gcd (Spec.ratio a p).1 (Spec.ratio a p).2 = 1 ∧
    (Spec.ratio a p).1 * (10 : Int) ^ p = a * (Spec.ratio a p).2 :=
  ratio_reduced a p

theorem ratio_of_equal_values (a : Int) (p : Nat) (b : Int) (q : Nat) (h : Spec.cmp a p b q = .eq) :
    Spec.ratio a p = Spec.ratio b q :=
  ratio_congr a p b q h

/-- equal values feed identical words to any hasher, namely those of the reduced pair -/
theorem hash_of_equal_values (prof : Profile) (x y : Dec) (hx : Dom x) (hy : Dom y)
    (h : Spec.cmp x.coeff x.nfrac y.coeff y.nfrac = .eq) :
    hashFeed prof x = hashFeed prof y ∧
    hashFeed prof x = .ok [(Spec.ratio x.coeff x.nfrac).1, (Spec.ratio x.coeff x.nfrac).2] :=
  hash_congr prof x y hx hy h

/-! ### non-vacuity -/
example : asIntegerRatio Profile.dev ⟨-50, 2⟩ = .ok (-1, 2) ∧ asIntegerRatio Profile.dev ⟨-5, 1⟩ = .ok (-1, 2) := by decide
example : Spec.cmp 34 1 3400 3 = .eq := by decide

/-! ### translated kernels
The Lean definitions `Gen.K.*` are regenerated from the Rust source on every run by `tools/fpkernels.py` (expression-level
translation).  These theorems tie them to the hand-written model the property theorems above are about: a change of the Rust
kernel that changes its translation breaks them. -/
/-- `impl PartialEq<Decimal> for Decimal` / `impl PartialOrd<Decimal> for Decimal`, as translated on this run -/
theorem kernel_decimal_eq (prof : Profile) (x y : Dec) (hp : x.nfrac < 256) (hq : y.nfrac < 256) :
    Gen.K.decimal_eq prof x y = .ok (decimalEq x y) := Kernels.decimal_eq_eq prof x y hp hq

/-- `gcd_special` (Stein's loop on `i128`) and `Decimal::as_integer_ratio` / `numerator` / `denominator`, as translated on this run;
    the hypothesis excludes only the coefficient `i128::MIN`, which is outside the property's domain -/
theorem kernel_gcd_special (prof : Profile) (numer : Int) (e : Nat) (hn : I128_MIN < numer ∧ numer ≤ I128_MAX) :
    Gen.K.gcd_special prof numer e = gcdSpecial prof numer e := Kernels.gcd_special_eq prof numer e hn
theorem kernel_decimal_as_integer_ratio (prof : Profile) (d : Dec) (hc : I128_MIN < d.coeff ∧ d.coeff ≤ I128_MAX) :
    Gen.K.decimal_as_integer_ratio prof d = asIntegerRatio prof d := Kernels.decimal_as_integer_ratio_eq prof d hc
theorem kernel_decimal_numerator (prof : Profile) (d : Dec) (hc : I128_MIN < d.coeff ∧ d.coeff ≤ I128_MAX) :
    Gen.K.decimal_numerator prof d = numerator prof d := Kernels.decimal_numerator_eq prof d hc
theorem kernel_decimal_denominator (prof : Profile) (d : Dec) (hc : I128_MIN < d.coeff ∧ d.coeff ≤ I128_MAX) :
    Gen.K.decimal_denominator prof d = denominator prof d := Kernels.decimal_denominator_eq prof d hc
/-- end to end: the translated `as_integer_ratio` returns the reduced fraction on the property's whole domain -/
theorem kernel_as_integer_ratio_spec (prof : Profile) (d : Dec) (hd : Dom d) :
    Gen.K.decimal_as_integer_ratio prof d = .ok (Spec.ratio d.coeff d.nfrac) := by
  rw [Kernels.decimal_as_integer_ratio_eq prof d ⟨hd.1, hd.2.1⟩]
  exact (as_integer_ratio_spec prof d hd).1

/-- `impl Hash for Decimal` as translated on this run (read as "what is fed to the Hasher"; a pair of `i128` feeds its two
    components with `write_i128`, `Rt.hashFeedPair`) is the model's `hashFeed` -/
theorem kernel_decimal_hash (prof : Profile) (d : Dec) (hc : I128_MIN < d.coeff ∧ d.coeff ≤ I128_MAX) :
    Gen.K.decimal_hash prof d = hashFeed prof d := Kernels.decimal_hash_eq prof d hc
/-- end to end: the translated `hash` of two equal values feeds the same words to any Hasher — those of the reduced pair -/
theorem kernel_hash_spec (prof : Profile) (x y : Dec) (hx : Dom x) (hy : Dom y)
    (h : Spec.cmp x.coeff x.nfrac y.coeff y.nfrac = .eq) :
    Gen.K.decimal_hash prof x = Gen.K.decimal_hash prof y ∧
    Gen.K.decimal_hash prof x = .ok [(Spec.ratio x.coeff x.nfrac).1, (Spec.ratio x.coeff x.nfrac).2] := by
  rw [Kernels.decimal_hash_eq prof x ⟨hx.1, hx.2.1⟩, Kernels.decimal_hash_eq prof y ⟨hy.1, hy.2.1⟩]
  exact hash_congr prof x y hx hy h

/-! ### algebraic laws -/

/-- `Decimal::from(i).as_integer_ratio() = (i, 1)` for every integer `i` and every profile (nothing is computed) -/
theorem ratio_of_int (prof : Profile) (i : Int) :
    asIntegerRatio prof (fromInt i) = .ok (i, 1) ∧ numerator prof (fromInt i) = .ok i ∧ denominator prof (fromInt i) = .ok 1 := by
  unfold asIntegerRatio numerator denominator fromInt
  simp

/-- the same for every Decimal without fractional digits and for every zero -/
theorem ratio_of_integral (prof : Profile) (d : Dec) (h : d.nfrac = 0 ∨ d.coeff = 0) : asIntegerRatio prof d = .ok (d.coeff, 1) := by
  unfold asIntegerRatio
  simp [h]

/-- model level: what `as_integer_ratio` returns is the reduced fraction of the value — `numerator · 10^p = coeff · denominator`,
    positive denominator, coprime — and `numerator` / `denominator` are its components -/
theorem as_integer_ratio_reduced (prof : Profile) (d : Dec) (hd : Dom d) :
    ∃ n dn : Int, asIntegerRatio prof d = .ok (n, dn) ∧ numerator prof d = .ok n ∧ denominator prof d = .ok dn ∧
      n * (10 : Int) ^ d.nfrac = d.coeff * dn ∧ 0 < dn ∧ Int.gcd n dn = 1 := by
  obtain ⟨h1, h2, h3⟩ := as_integer_ratio_spec prof d hd
  obtain ⟨r1, r2, r3⟩ := ratio_is_reduced d.coeff d.nfrac
  exact ⟨_, _, h1, h2, h3, r3, r1, r2⟩

/-- two Decimals of equal value have the same `as_integer_ratio` (any two representations) -/
theorem as_integer_ratio_of_equal_values (prof : Profile) (x y : Dec) (hx : Dom x) (hy : Dom y)
    (h : Spec.cmp x.coeff x.nfrac y.coeff y.nfrac = .eq) : asIntegerRatio prof x = asIntegerRatio prof y := by
  rw [(as_integer_ratio_spec prof x hx).1, (as_integer_ratio_spec prof y hy).1, ratio_of_equal_values _ _ _ _ h]

example : asIntegerRatio Profile.dev (fromInt (-7)) = .ok (-7, 1) ∧ asIntegerRatio Profile.release (fromInt I128_MIN) = .ok (I128_MIN, 1) ∧
    asIntegerRatio Profile.dev ⟨0, 5⟩ = .ok (0, 1) ∧ asIntegerRatio Profile.dev ⟨-50, 2⟩ = .ok (-1, 2) ∧
    (-1 : Int) * 10 ^ 2 = -50 * 2 ∧ asIntegerRatio Profile.dev ⟨340, 2⟩ = asIntegerRatio Profile.dev ⟨34, 1⟩ := by decide

/-- conversely to `ratio_of_equal_values`: the reduced fraction determines the value (arbitrary integers and scales) -/
theorem equal_values_of_ratio (a : Int) (p : Nat) (b : Int) (q : Nat) (h : Spec.ratio a p = Spec.ratio b q) :
    Spec.cmp a p b q = .eq := by
  obtain ⟨d1, _, v1⟩ := ratio_is_reduced a p
  obtain ⟨_, _, v2⟩ := ratio_is_reduced b q
  rw [← h] at v2
  rw [spec_cmp_eq_iff]
  generalize (Spec.ratio a p).1 = n at v1 v2
  generalize (Spec.ratio a p).2 = d at d1 v1 v2
  generalize (10 : Int) ^ p = P at v1 v2 ⊢
  generalize (10 : Int) ^ q = Q at v1 v2 ⊢
  -- n * P = a * d, n * Q = b * d ⊢ a * Q = b * P
  have e : a * Q * d = b * P * d := by
    calc a * Q * d = (a * d) * Q := by ring
      _ = (n * P) * Q := by rw [v1]
      _ = (n * Q) * P := by ring
      _ = (b * d) * P := by rw [v2]
      _ = b * P * d := by ring
  exact Int.eq_of_mul_eq_mul_right (Int.ne_of_gt d1) e

/-- `Spec.ratio` is a complete invariant of the value -/
theorem ratio_eq_iff_equal_values (a : Int) (p : Nat) (b : Int) (q : Nat) :
    Spec.ratio a p = Spec.ratio b q ↔ Spec.cmp a p b q = .eq :=
  ⟨equal_values_of_ratio a p b q, ratio_of_equal_values a p b q⟩

/-- conversely to `as_integer_ratio_of_equal_values`: two Decimals of the domain with the same `as_integer_ratio` (in whatever
    profiles) have the same value -/
theorem equal_values_of_as_integer_ratio (prof prof' : Profile) (x y : Dec) (hx : Dom x) (hy : Dom y)
    (h : asIntegerRatio prof x = asIntegerRatio prof' y) : Spec.cmp x.coeff x.nfrac y.coeff y.nfrac = .eq := by
  rw [(as_integer_ratio_spec prof x hx).1, (as_integer_ratio_spec prof' y hy).1] at h
  injection h with h
  exact equal_values_of_ratio _ _ _ _ h

/-- `as_integer_ratio` agrees exactly on the Decimals of equal value -/
theorem as_integer_ratio_eq_iff (prof : Profile) (x y : Dec) (hx : Dom x) (hy : Dom y) :
    asIntegerRatio prof x = asIntegerRatio prof y ↔ Spec.cmp x.coeff x.nfrac y.coeff y.nfrac = .eq :=
  ⟨equal_values_of_as_integer_ratio prof prof x y hx hy, as_integer_ratio_of_equal_values prof x y hx hy⟩

/-- the same for `Hash`: the words fed to the hasher are the same exactly for equal values (the feed itself is collision-free) -/
theorem hash_feed_eq_iff (prof : Profile) (x y : Dec) (hx : Dom x) (hy : Dom y) :
    hashFeed prof x = hashFeed prof y ↔ Spec.cmp x.coeff x.nfrac y.coeff y.nfrac = .eq := by
  constructor
  · intro h
    rw [(hash_of_equal_values prof x x hx hx (spec_cmp_refl _ _)).2,
      (hash_of_equal_values prof y y hy hy (spec_cmp_refl _ _)).2] at h
    injection h with h
    injection h with h1 h
    injection h with h2 _
    exact equal_values_of_ratio _ _ _ _ (Prod.ext h1 h2)
  · intro h; exact (hash_of_equal_values prof x y hx hy h).1

example : asIntegerRatio Profile.dev ⟨340, 2⟩ ≠ asIntegerRatio Profile.dev ⟨35, 1⟩ ∧ Spec.cmp 340 2 35 1 ≠ .eq ∧
    Spec.ratio 340 2 = Spec.ratio 34 1 ∧ Spec.cmp 340 2 34 1 = .eq ∧
    hashFeed Profile.dev ⟨340, 2⟩ ≠ hashFeed Profile.dev ⟨35, 1⟩ := by decide

end Fpdec.Props.C09
