import Fpdec.Lemmas.Dom
import Fpdec.Props.C17_Sites

/-! # C17 — property theorems (under construction: see DESIGN.md section 6) -/

namespace Fpdec.Props.C17
open Fpdec Fpdec.Model

end Fpdec.Props.C17
