import Fpdec.Gen.Sites
import Fpdec.Model.Pinned

/-! Site ties for C14 (written by tools/mksites.py): the flavour skeleton of every source file the property's operations
execute, as regenerated from /repo on this run, equals the skeleton the model was written against. -/

namespace Fpdec.Props.C14

theorem tie_sites_fpdec_core_src_lib : Gen.sites_fpdec_core_src_lib = Pinned.sites_fpdec_core_src_lib := by decide +kernel
theorem tie_sites_fpdec_core_src_powers_of_ten : Gen.sites_fpdec_core_src_powers_of_ten = Pinned.sites_fpdec_core_src_powers_of_ten := by decide +kernel
theorem tie_sites_src_lib : Gen.sites_src_lib = Pinned.sites_src_lib := by decide +kernel
theorem tie_sites_src_from_int : Gen.sites_src_from_int = Pinned.sites_src_from_int := by decide +kernel
theorem tie_sites_src_into_int : Gen.sites_src_into_int = Pinned.sites_src_into_int := by decide +kernel

end Fpdec.Props.C14
