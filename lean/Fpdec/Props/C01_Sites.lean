import Fpdec.Gen.Sites
import Fpdec.Model.Pinned

/-! Site ties for C01: the flavour skeleton of each anchor file, as regenerated from /repo on this run,
equals the skeleton the model was written against. -/

namespace Fpdec.Props.C01

theorem tie_sites_src_binops_add_sub : Gen.sites_src_binops_add_sub = Pinned.sites_src_binops_add_sub := by decide +kernel
theorem tie_sites_src_binops_checked_add_sub : Gen.sites_src_binops_checked_add_sub = Pinned.sites_src_binops_checked_add_sub := by decide +kernel
theorem tie_sites_fpdec_core_src_powers_of_ten : Gen.sites_fpdec_core_src_powers_of_ten = Pinned.sites_fpdec_core_src_powers_of_ten := by decide +kernel
theorem tie_sites_src_binops_mod : Gen.sites_src_binops_mod = Pinned.sites_src_binops_mod := by decide +kernel

end Fpdec.Props.C01
