import Fpdec.Gen.Sites
import Fpdec.Model.Pinned

/-! Site ties for C19 (written by tools/mksites.py): the flavour skeleton of every source file the property's operations
execute, as regenerated from /repo on this run, equals the skeleton the model was written against. -/

namespace Fpdec.Props.C19

theorem tie_sites_fpdec_core_src_rounding : Gen.sites_fpdec_core_src_rounding = Pinned.sites_fpdec_core_src_rounding := by decide +kernel
theorem tie_sites_fpdec_core_src_lib : Gen.sites_fpdec_core_src_lib = Pinned.sites_fpdec_core_src_lib := by decide +kernel
theorem tie_sites_fpdec_core_src_powers_of_ten : Gen.sites_fpdec_core_src_powers_of_ten = Pinned.sites_fpdec_core_src_powers_of_ten := by decide +kernel
theorem tie_sites_src_lib : Gen.sites_src_lib = Pinned.sites_src_lib := by decide +kernel
theorem tie_sites_src_round : Gen.sites_src_round = Pinned.sites_src_round := by decide +kernel
theorem tie_sites_src_quantize : Gen.sites_src_quantize = Pinned.sites_src_quantize := by decide +kernel
theorem tie_sites_src_format : Gen.sites_src_format = Pinned.sites_src_format := by decide +kernel
theorem tie_sites_src_binops_mul : Gen.sites_src_binops_mul = Pinned.sites_src_binops_mul := by decide +kernel
theorem tie_sites_src_binops_checked_mul : Gen.sites_src_binops_checked_mul = Pinned.sites_src_binops_checked_mul := by decide +kernel
theorem tie_sites_src_binops_mul_rounded : Gen.sites_src_binops_mul_rounded = Pinned.sites_src_binops_mul_rounded := by decide +kernel
theorem tie_sites_src_binops_div : Gen.sites_src_binops_div = Pinned.sites_src_binops_div := by decide +kernel
theorem tie_sites_src_binops_checked_div : Gen.sites_src_binops_checked_div = Pinned.sites_src_binops_checked_div := by decide +kernel
theorem tie_sites_src_binops_div_rounded : Gen.sites_src_binops_div_rounded = Pinned.sites_src_binops_div_rounded := by decide +kernel

end Fpdec.Props.C19
