import Fpdec.Gen.Sites
import Fpdec.Model.Pinned

/-! Site ties for C19: the flavour skeleton of each anchor file, as regenerated from /repo on this run,
equals the skeleton the model was written against. -/

namespace Fpdec.Props.C19

theorem tie_sites_fpdec_core_src_rounding : Gen.sites_fpdec_core_src_rounding = Pinned.sites_fpdec_core_src_rounding := by decide +kernel

end Fpdec.Props.C19
