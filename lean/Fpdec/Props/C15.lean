import Fpdec.Kernels.Consts
import Fpdec.Kernels.DecUnops
import Fpdec.Kernels.Log
import Fpdec.Kernels.NumTraits
import Fpdec.Kernels.Magn
import Fpdec.Kernels.Cmp
import Fpdec.Kernels.Unops
import Fpdec.Lemmas.Unary
import Fpdec.Props.C15_Sites

/-!
# C15 — floor, ceil, trunc, fract, abs, neg, magnitude and sign predicates are exact

* `floor_spec`, `ceil_spec`, `trunc_spec`, `fract_spec`, `neg_spec`, `abs_spec`: the unary operations return the exact values
  (`Spec.floor` …) for every Decimal of the domain and every profile; `value_properties`: those specs satisfy the statement's
  inequalities — `floor(d) ≤ d < floor(d)+1`, `ceil(d)-1 < d ≤ ceil(d)`, `trunc` towards zero, `trunc + fract = d` with `fract`
  carrying d's sign and scale.
* `magnitude_spec`: `magnitude()` is `⌊log10 |d|⌋` (position of the most significant digit) and `0` for every zero value; it rests on
  `i128_magnitude_spec`: the branch-free log10 bit trick with the four magic constants (read from the source) is `⌊log10⌋` for EVERY
  128-bit value — `lessThan5` by kernel evaluation of the complete table below 100000, the reductions by arithmetic.
* `predicates_spec`: `eq_zero`, `eq_one`, `is_negative`, `is_positive` reflect the value irrespective of the representation.
num-traits: `Zero/One/Signed/Num` for `Decimal` are one-line forwarders to these functions (`is_zero = eq_zero`, `abs`, `signum =
from(coeff.signum())`, `abs_sub = if self <= other {0} else {self - other}`, `from_str_radix` = `from_str` for radix 10); they are
exercised by the correspondence run with the feature enabled against the same model functions, not separately modelled.
-/

namespace Fpdec.Props.C15
open Fpdec Fpdec.Model

theorem floor_spec (prof : Profile) (d : Dec) (hd : Dom d) :
    floor prof d = .ok ⟨(Spec.floor d.coeff d.nfrac).1, 0⟩ := Fpdec.floor_spec prof d hd
theorem ceil_spec (prof : Profile) (d : Dec) (hd : Dom d) :
    ceil prof d = .ok ⟨(Spec.ceil d.coeff d.nfrac).1, 0⟩ := Fpdec.ceil_spec prof d hd
theorem trunc_spec (d : Dec) (hd : Dom d) : trunc d = .ok ⟨(Spec.trunc d.coeff d.nfrac).1, 0⟩ := Fpdec.trunc_spec d hd
theorem fract_spec (d : Dec) (hd : Dom d) :
    fract d = .ok ⟨(Spec.fract d.coeff d.nfrac).1, (Spec.fract d.coeff d.nfrac).2⟩ := Fpdec.fract_spec d hd
theorem neg_spec (prof : Profile) (d : Dec) (hd : Dom d) : neg prof d = .ok ⟨-d.coeff, d.nfrac⟩ := Fpdec.neg_spec prof d hd
theorem abs_spec (prof : Profile) (d : Dec) (hd : Dom d) : abs prof d = .ok ⟨d.coeff.natAbs, d.nfrac⟩ :=
  Fpdec.abs_spec prof d hd

theorem value_properties (a : Int) (p : Nat) :
    (Spec.floor a p).1 * (10 : Int) ^ p ≤ a ∧ a < ((Spec.floor a p).1 + 1) * (10 : Int) ^ p ∧
    ((Spec.ceil a p).1 - 1) * (10 : Int) ^ p < a ∧ a ≤ (Spec.ceil a p).1 * (10 : Int) ^ p ∧
    (Spec.trunc a p).1 * (10 : Int) ^ p + a.tmod ((10 : Int) ^ p) = a ∧
    ((Spec.trunc a p).1.natAbs * 10 ^ p ≤ a.natAbs) ∧
    (a.tmod ((10 : Int) ^ p) = 0 ∨ (0 < a.tmod ((10 : Int) ^ p) ∧ 0 < a) ∨ (a.tmod ((10 : Int) ^ p) < 0 ∧ a < 0)) :=
  floor_ceil_trunc_props a p

theorem i128_magnitude_spec (i : Int) (hi : I128_MIN ≤ i ∧ i ≤ I128_MAX) :
    i128Magnitude i = if i = 0 then 0 else Spec.ilog10 64 i.natAbs := i128Magnitude_spec i hi

theorem ilog10_is_floor_log10 (n : Nat) (h0 : 0 < n) (h : n < 10 ^ 39) :
    10 ^ (Spec.ilog10 64 n) ≤ n ∧ n < 10 ^ (Spec.ilog10 64 n + 1) := ilog10_spec n h0 h

theorem magnitude_spec (prof : Profile) (d : Dec) (hd : Dom d) :
    magnitude prof d = .ok (Spec.magnitude d.coeff d.nfrac) := Fpdec.magnitude_spec prof d hd

theorem predicates_spec (d : Dec) (hd : Dom d) :
    eqZero d = decide (d.coeff = 0) ∧ eqOne d = .ok (decide (d.coeff = (10 : Int) ^ d.nfrac)) ∧
    isNegative d = decide (d.coeff < 0) ∧ isPositive d = decide (d.coeff > 0) := Fpdec.predicates_spec d hd

/-! ### non-vacuity -/
example : magnitude Profile.dev ⟨0, 3⟩ = .ok 0 ∧ magnitude Profile.dev ⟨123, 5⟩ = .ok (-3) := by decide
example : floor Profile.dev ⟨-25, 1⟩ = .ok ⟨-3, 0⟩ ∧ ceil Profile.dev ⟨-25, 1⟩ = .ok ⟨-2, 0⟩ ∧ ceil Profile.dev ⟨0, 2⟩ = .ok ⟨0, 0⟩ := by
  decide

/-! ### translated kernels
The Lean definitions `Gen.K.*` are regenerated from the Rust source on every run by `tools/fpkernels.py` (expression-level
translation).  These theorems tie them to the hand-written model the property theorems above are about: a change of the Rust
kernel that changes its translation breaks them. -/
theorem kernel_div_floor (prof : Profile) (x y : Int) : Gen.K.div_floor prof x y = divFloorI128 prof x y :=
  Kernels.div_floor_eq prof x y
theorem kernel_div_ceil (prof : Profile) (x y : Int) : Gen.K.div_ceil prof x y = divCeilI128 prof x y :=
  Kernels.div_ceil_eq prof x y
/-- the magnitude kernel: no `u32` addition in it can overflow, in any profile -/
theorem kernel_log10_u128 (prof : Profile) (val : Nat) (h : val < 340282366920938463463374607431768211456) :
    Gen.K.u128 prof val = .ok (log10U128 val) := Kernels.u128_eq prof val h

/-- the unary operations of unops.rs, as translated on this run -/
theorem kernel_decimal_neg (prof : Profile) (d : Dec) : Gen.K.decimal_neg prof d = neg prof d := Kernels.decimal_neg_eq prof d
theorem kernel_decimal_ref_neg (prof : Profile) (d : Dec) : Gen.K.decimal_ref_neg prof d = neg prof d :=
  Kernels.decimal_ref_neg_eq prof d
theorem kernel_decimal_abs (prof : Profile) (d : Dec) : Gen.K.decimal_abs prof d = abs prof d := Kernels.decimal_abs_eq prof d
theorem kernel_decimal_floor (prof : Profile) (d : Dec) : Gen.K.decimal_floor prof d = floor prof d :=
  Kernels.decimal_floor_eq prof d
theorem kernel_decimal_ceil (prof : Profile) (d : Dec) : Gen.K.decimal_ceil prof d = ceil prof d := Kernels.decimal_ceil_eq prof d
theorem kernel_decimal_trunc (prof : Profile) (d : Dec) : Gen.K.decimal_trunc prof d = trunc d := Kernels.decimal_trunc_eq prof d
theorem kernel_decimal_fract (prof : Profile) (d : Dec) : Gen.K.decimal_fract prof d = fract d := Kernels.decimal_fract_eq prof d

/-- `i128_magnitude`, `Decimal::magnitude`, `Decimal::new_raw` and the sign / zero / one predicates, as translated on this run -/
theorem kernel_i128_magnitude (prof : Profile) (i : Int) (h : I128_MIN ≤ i ∧ i ≤ I128_MAX) :
    Gen.K.i128_magnitude prof i = .ok (i128Magnitude i) := Kernels.i128_magnitude_eq prof i h
theorem kernel_decimal_magnitude (prof : Profile) (d : Dec) (h : I128_MIN ≤ d.coeff ∧ d.coeff ≤ I128_MAX) :
    Gen.K.decimal_magnitude prof d = magnitude prof d := Kernels.decimal_magnitude_eq prof d h
theorem kernel_decimal_new_raw (prof : Profile) (c : Int) (n : Nat) :
    Gen.K.decimal_new_raw prof c n = (if prof.da = true ∧ ¬ n ≤ 18 then .panic .assert else .ok ⟨c, n⟩) :=
  Kernels.decimal_new_raw_eq prof c n
theorem kernel_decimal_eq_zero (prof : Profile) (d : Dec) : Gen.K.decimal_eq_zero prof d = .ok (eqZero d) :=
  Kernels.decimal_eq_zero_eq prof d
theorem kernel_decimal_eq_one (prof : Profile) (d : Dec) : Gen.K.decimal_eq_one prof d = eqOne d :=
  Kernels.decimal_eq_one_eq prof d
theorem kernel_decimal_is_negative (prof : Profile) (d : Dec) : Gen.K.decimal_is_negative prof d = .ok (isNegative d) :=
  Kernels.decimal_is_negative_eq prof d
theorem kernel_decimal_is_positive (prof : Profile) (d : Dec) : Gen.K.decimal_is_positive prof d = .ok (isPositive d) :=
  Kernels.decimal_is_positive_eq prof d

/-- the `num-traits` forwarders (`Zero`, `One`, `Num::from_str_radix`, `Signed`; feature `num-traits`), as translated on this run: each is
    the inherent operation it forwards to -/
theorem kernel_nt_zero (prof : Profile) : Gen.K.nt_zero prof = .ok Dec.ZERO := Kernels.nt_zero_eq prof
theorem kernel_nt_one (prof : Profile) : Gen.K.nt_one prof = .ok Dec.ONE := Kernels.nt_one_eq prof
theorem kernel_nt_is_zero (prof : Profile) (d : Dec) : Gen.K.nt_is_zero prof d = .ok (eqZero d) := Kernels.nt_is_zero_eq prof d
theorem kernel_nt_is_one (prof : Profile) (d : Dec) : Gen.K.nt_is_one prof d = eqOne d := Kernels.nt_is_one_eq prof d
theorem kernel_nt_abs (prof : Profile) (d : Dec) : Gen.K.nt_abs prof d = abs prof d := Kernels.nt_abs_eq prof d
theorem kernel_nt_signum (prof : Profile) (d : Dec) : Gen.K.nt_signum prof d = .ok (fromInt (Int.sign d.coeff)) :=
  Kernels.nt_signum_eq prof d
theorem kernel_nt_is_positive (prof : Profile) (d : Dec) : Gen.K.nt_is_positive prof d = .ok (isPositive d) :=
  Kernels.nt_is_positive_eq prof d
theorem kernel_nt_is_negative (prof : Profile) (d : Dec) : Gen.K.nt_is_negative prof d = .ok (isNegative d) :=
  Kernels.nt_is_negative_eq prof d
theorem kernel_nt_from_str_radix (prof : Profile) (s : List Nat) (radix : Nat) :
    Gen.K.nt_from_str_radix prof s radix = (if radix ≠ 10 then .ok (.error .invalid) else fromStr prof s) :=
  Kernels.nt_from_str_radix_eq prof s radix
theorem kernel_nt_abs_sub (prof : Profile) (x y : Dec) (hp : x.nfrac < 256) (hq : y.nfrac < 256) :
    Gen.K.nt_abs_sub prof x y =
      (if partialCmp x y = some .lt ∨ partialCmp x y = some .eq then .ok Dec.ZERO else addSub true x y) :=
  Kernels.nt_abs_sub_eq prof x y hp hq

/-- the associated constants of `Decimal` as extracted from src/lib.rs on this run are the model's (`ZERO`/`ONE` are what the
    translated kernels return for `Self::ZERO` / `Self::ONE`; `MIN ..= MAX` with at most `DELTA`'s digits is the domain `Dom`) -/
theorem decimal_consts :
    Gen.DECIMAL_CONSTS =
      [("ZERO", Dec.ZERO.coeff, Dec.ZERO.nfrac), ("ONE", Dec.ONE.coeff, Dec.ONE.nfrac),
       ("NEG_ONE", Dec.NEG_ONE.coeff, Dec.NEG_ONE.nfrac), ("TWO", Dec.TWO.coeff, Dec.TWO.nfrac),
       ("TEN", Dec.TEN.coeff, Dec.TEN.nfrac), ("MAX", Dec.MAX.coeff, Dec.MAX.nfrac), ("MIN", Dec.MIN.coeff, Dec.MIN.nfrac),
       ("DELTA", Dec.DELTA.coeff, Dec.DELTA.nfrac)] := Kernels.decimal_consts_tie
theorem dom_is_min_max (d : Dec) :
    (Dec.MIN.coeff ≤ d.coeff ∧ d.coeff ≤ Dec.MAX.coeff ∧ d.nfrac ≤ Dec.DELTA.nfrac) ↔ Dom d := Kernels.dom_is_min_max d

/-! ### algebraic laws
Model-level corollaries: equalities of `Outcome` values (a composition `f x >>= g` panics when either step does). -/

private theorem dom_neg {x : Dec} (hx : Dom x) : Dom ⟨-x.coeff, x.nfrac⟩ := by
  obtain ⟨h1, h2, h3⟩ := hx
  refine ⟨?_, ?_, h3⟩ <;> simp only <;> unfold I128_MIN I128_MAX at * <;> omega

/-- `-(-x) = x` on the domain (no negation overflows there) -/
theorem neg_involutive (prof : Profile) (x : Dec) (hx : Dom x) : (neg prof x >>= neg prof) = .ok x := by
  have hn := dom_neg hx
  rw [neg_spec prof x hx, Outcome.bind_ok, neg_spec prof _ hn]
  simp

/-- `abs` is idempotent -/
theorem abs_idempotent (prof : Profile) (x : Dec) (hx : Dom x) : (abs prof x >>= abs prof) = abs prof x := by
  have hn : Dom ⟨x.coeff.natAbs, x.nfrac⟩ := by
    obtain ⟨h1, h2, h3⟩ := hx
    refine ⟨?_, ?_, h3⟩ <;> simp only <;> unfold I128_MIN I128_MAX at * <;> omega
  rw [abs_spec prof x hx, Outcome.bind_ok, abs_spec prof _ hn]
  simp

/-- `|-x| = |x|` -/
theorem abs_neg (prof : Profile) (x : Dec) (hx : Dom x) : (neg prof x >>= abs prof) = abs prof x := by
  have hn := dom_neg hx
  rw [neg_spec prof x hx, Outcome.bind_ok, abs_spec prof _ hn, abs_spec prof x hx]
  simp

/-- `floor`, `ceil` and `trunc` are idempotent — for EVERY operand: a result has no fractional digits and is returned as it is -/
theorem floor_idempotent (prof : Profile) (x : Dec) : (floor prof x >>= floor prof) = floor prof x := by
  obtain ⟨c, n⟩ := x
  cases n with
  | zero => rfl
  | succ n =>
    unfold floor
    simp only
    cases tenPow (n + 1) with
    | panic k => rfl
    | ok t =>
      simp only [Outcome.bind_ok]
      generalize divFloorI128 prof c t = r
      cases r <;> rfl

theorem ceil_idempotent (prof : Profile) (x : Dec) : (ceil prof x >>= ceil prof) = ceil prof x := by
  obtain ⟨c, n⟩ := x
  cases n with
  | zero => rfl
  | succ n =>
    unfold ceil
    simp only
    cases tenPow (n + 1) with
    | panic k => rfl
    | ok t =>
      simp only [Outcome.bind_ok]
      generalize divCeilI128 prof c t = r
      cases r <;> rfl

theorem trunc_idempotent (x : Dec) : (trunc x >>= trunc) = trunc x := by
  obtain ⟨c, n⟩ := x
  cases n with
  | zero => rfl
  | succ n =>
    unfold trunc
    simp only
    cases tenPow (n + 1) with
    | panic k => rfl
    | ok t =>
      simp only [Outcome.bind_ok]
      generalize divI128 c t = r
      cases r <;> rfl

/-- the floor quotient of a domain coefficient by a power of ten is a domain coefficient -/
private theorem dom_floor {c : Int} (n : Nat) (h1 : I128_MIN < c) (h2 : c ≤ I128_MAX) :
    Dom ⟨c / (10 : Int) ^ n, 0⟩ := by
  have hf : fitsI128 c = true := by rw [fitsI128_iff]; omega
  have hb := ediv_fits_pos hf (pow10_pos n)
  refine ⟨?_, hb.2, by simp⟩
  simp only
  by_cases hc : 0 ≤ c
  · have := Int.ediv_nonneg hc (Int.le_of_lt (pow10_pos n)); unfold I128_MIN; omega
  · have := ediv_ge_of_neg (x := c) (by omega) (pow10_pos n); omega

/-- `ceil x = -floor(-x)`, as outcomes -/
theorem ceil_eq_neg_floor_neg (prof : Profile) (x : Dec) (hx : Dom x) :
    ceil prof x = (neg prof x >>= floor prof >>= neg prof) := by
  have hn := dom_neg hx
  have hfl : Dom ⟨-x.coeff / (10 : Int) ^ x.nfrac, 0⟩ := dom_floor x.nfrac hn.1 hn.2.1
  rw [ceil_spec prof x hx, neg_spec prof x hx, Outcome.bind_ok, floor_spec prof _ hn, Outcome.bind_ok]
  simp only [Spec.ceil, Spec.floor]
  rw [neg_spec prof _ hfl]

/-- `floor x = -ceil(-x)`, as outcomes -/
theorem floor_eq_neg_ceil_neg (prof : Profile) (x : Dec) (hx : Dom x) :
    floor prof x = (neg prof x >>= ceil prof >>= neg prof) := by
  have hn := dom_neg hx
  have hfl := dom_floor x.nfrac hx.1 hx.2.1
  have hc : Dom ⟨-(x.coeff / (10 : Int) ^ x.nfrac), 0⟩ := dom_neg hfl
  rw [floor_spec prof x hx, neg_spec prof x hx, Outcome.bind_ok, ceil_spec prof _ hn, Outcome.bind_ok]
  simp only [Spec.ceil, Spec.floor, Int.neg_neg]
  rw [neg_spec prof _ hc]
  simp

/-- `trunc x + fract x = x`: the sum (model of `+`, C01) is exact, never overflows and has `x`'s representation -/
theorem trunc_add_fract (x : Dec) (hx : Dom x) :
    (trunc x >>= fun t => fract x >>= fun f => addSub false t f) = .ok x := by
  rw [trunc_spec x hx, fract_spec x hx]
  obtain ⟨c, n⟩ := x
  have hf := hx.fits
  obtain ⟨h1, h2, h3⟩ := hx
  simp only at h1 h2 h3 hf
  simp only [Outcome.bind_ok, Spec.trunc, Spec.fract]
  by_cases hn : n = 0
  · subst hn
    simp [addSub, checkedI128_some hf, coeffOrPanic]
  · have hc : compare 0 n = Ordering.lt := Nat.compare_eq_lt.mpr (by omega)
    obtain ⟨-, -, -, -, e1, e2, -⟩ := value_properties c n
    simp only [Spec.trunc] at e1 e2
    have hq : fitsI128 (c.tdiv ((10 : Int) ^ n) * (10 : Int) ^ n) = true := by
      have : (c.tdiv ((10 : Int) ^ n) * (10 : Int) ^ n).natAbs ≤ c.natAbs := by
        rw [Int.natAbs_mul, Int.natAbs_pow]; exact e2
      rw [fitsI128_iff]; unfold I128_MIN I128_MAX at *; omega
    simp only [hn, if_false, addSub, hc, Nat.sub_zero, Bool.false_eq_true]
    rw [mulPowTen_eq _ n (by omega), checkedI128_some hq]
    simp only [Outcome.ofOption_some, Outcome.bind_ok, e1, checkedI128_some hf, coeffOrPanic, Outcome.pure_eq]

example : (neg Profile.dev ⟨-25, 1⟩ >>= neg Profile.dev) = .ok ⟨-25, 1⟩ ∧
    (abs Profile.dev ⟨-25, 1⟩ >>= abs Profile.dev) = .ok ⟨25, 1⟩ ∧ (neg Profile.dev ⟨25, 1⟩ >>= abs Profile.dev) = .ok ⟨25, 1⟩ := by
  decide
-- outside the domain the involution fails: `-i128::MIN` panics with overflow checks and wraps to itself without
example : (neg Profile.dev ⟨I128_MIN, 0⟩ >>= neg Profile.dev) = .panic .arith ∧
    (neg Profile.release ⟨I128_MIN, 0⟩ >>= neg Profile.release) = .ok ⟨I128_MIN, 0⟩ := by decide
example : (floor Profile.dev ⟨-25, 1⟩ >>= floor Profile.dev) = .ok ⟨-3, 0⟩ ∧ (ceil Profile.dev ⟨-25, 1⟩ >>= ceil Profile.dev) = .ok ⟨-2, 0⟩ ∧
    (trunc ⟨-25, 1⟩ >>= trunc) = .ok ⟨-2, 0⟩ ∧ (floor Profile.dev ⟨1, 39⟩ >>= floor Profile.dev) = .panic .index := by decide
example : ceil Profile.release ⟨2501, 3⟩ = .ok ⟨3, 0⟩ ∧
    (neg Profile.release ⟨2501, 3⟩ >>= floor Profile.release >>= neg Profile.release) = .ok ⟨3, 0⟩ ∧
    floor Profile.release ⟨-2501, 3⟩ = .ok ⟨-3, 0⟩ ∧
    (neg Profile.release ⟨-2501, 3⟩ >>= ceil Profile.release >>= neg Profile.release) = .ok ⟨-3, 0⟩ := by decide
example : trunc ⟨-2575, 2⟩ = .ok ⟨-25, 0⟩ ∧ fract ⟨-2575, 2⟩ = .ok ⟨-75, 2⟩ ∧ addSub false ⟨-25, 0⟩ ⟨-75, 2⟩ = .ok ⟨-2575, 2⟩ := by decide

end Fpdec.Props.C15
