import Fpdec.Lemmas.Dom
import Fpdec.Props.C15_Sites

/-! # C15 — property theorems (under construction: see DESIGN.md section 6) -/

namespace Fpdec.Props.C15
open Fpdec Fpdec.Model

end Fpdec.Props.C15
