import Fpdec.Kernels.Quant
import Fpdec.Kernels.IntOps
import Fpdec.Kernels.DecOps
import Fpdec.Kernels.DecMul
import Fpdec.Kernels.WideFits
import Fpdec.Lemmas.Scale
import Fpdec.Lemmas.IntTy
import Fpdec.Props.C02
import Fpdec.Props.C04_Sites

/-!
# C04 — mul_rounded, div_rounded and quantize round the exact result once, per mode

* `checkedDivRounded_spec`: the shared kernel `checked_div_rounded(a, p, b, q, n)` returns the exact quotient
  `a·10^(n+q) / (b·10^p)` rounded ONCE under the thread mode — in all four scaling branches: equal scales, dividend scaled
  (narrow), dividend scaled through the 256-bit path, and divisor scaled (the repaired branch, `specRound_two_step`).
  The dividend `a` ranges over the WHOLE i128 range (an integer operand may be `i128::MIN`); the one excluded pair is
  `i128::MIN / -1` without scaling of the dividend, where the plain `/` panics (`checkedDivRounded_min_neg_one`): the exact
  quotient `2^127` is not an i128, the spec expects the overflow signal and the operator forms accept that panic as such
  (`div_rounded_body_full`); `checked_div` never gets there (its dividend is scaled by `10^18`, which goes the 256-bit way).
* `div_rounded_spec` and the integer-operand shapes; `n > 18` is rejected for the three guarded shapes; the
  unguarded integer/integer shape is the open finding D8 (`div_rounded_int_int_partial`, witness below).
* `mul_rounded_spec`, `quantize_spec`.
The wide paths are relative to `C02.WideMul` / `WideDiv` (specifications of the 256-bit helpers, discharged in `Props/C16.lean`).
-/

namespace Fpdec.Props.C04
open Fpdec Fpdec.Model

/-- specification of `i128_shifted_div_mod_floor` (proved in `Lemmas/Wide.lean`, C16): for a positive divisor the floor quotient and
    the non-negative remainder; for a negative divisor (live after the D13 repair) the same floor quotient, written with the negated
    operands, and a remainder with the sign of the divisor -/
def WideDiv : Prop :=
  (∀ (prof : Profile) (x : Int) (p : Nat) (y : Int), (I128_MIN ≤ x ∧ x ≤ I128_MAX) → p ≤ 38 → (0 < y ∧ y ≤ I128_MAX) →
    i128ShiftedDivModFloor prof x p y =
      .ok (if ((x * 10 ^ p).natAbs / y.natAbs : Nat) ≤ I128_MAX.toNat then some ((x * 10 ^ p) / y, (x * 10 ^ p) % y) else none)) ∧
  (∀ (prof : Profile) (x : Int) (p : Nat) (y : Int), (I128_MIN ≤ x ∧ x ≤ I128_MAX) → p ≤ 38 → (I128_MIN ≤ y ∧ y < 0) →
    i128ShiftedDivModFloor prof x p y =
      .ok (if ((x * 10 ^ p).natAbs / y.natAbs : Nat) ≤ I128_MAX.toNat
        then some ((-(x * 10 ^ p)) / (-y), -((-(x * 10 ^ p)) % (-y))) else none))

/-- a coefficient result seen as a decimal with `n` fractional digits -/
def outOptInt (n : Nat) (r : Outcome (Option Int)) : Outcome (Option (Int × Nat)) :=
  match r with
  | .ok (some c) => .ok (some (c, n))
  | .ok none => .ok none
  | .panic k => .panic k

def specDivCore (tm : Mode) (a : Int) (p : Nat) (b : Int) (q n : Nat) : Spec.Exp :=
  Spec.valFit (Spec.specRoundQ tm (a * (10 : Int) ^ (n + q)) (b * (10 : Int) ^ p)) n

theorem specRoundQ_pos (m : Mode) (n d : Int) (hd : 0 < d) : Spec.specRoundQ m n d = Spec.specRound m n d := by
  unfold Spec.specRoundQ
  have : ¬ d < 0 := by omega
  simp [this]

theorem specRoundQ_neg (m : Mode) (n d : Int) (hd : d < 0) : Spec.specRoundQ m n d = Spec.specRound m (-n) (-d) := by
  unfold Spec.specRoundQ
  simp [hd]

/-- sign-normalised operands: `(a', b')` with `b' > 0` and the same quotient -/
theorem specRoundQ_norm (m : Mode) (n d : Int) (hd : d ≠ 0) :
    Spec.specRoundQ m n d = Spec.specRound m (if d < 0 then -n else n) (if d < 0 then -d else d) := by
  by_cases h : d < 0
  · simp only [h, if_true]; exact specRoundQ_neg m n d h
  · simp only [h, if_false]; exact specRoundQ_pos m n d (by omega)

theorem pow_split (k j : Nat) (h : j ≤ k) : (10 : Int) ^ k = (10 : Int) ^ (k - j) * (10 : Int) ^ j := by
  rw [← Int.pow_add]; congr 1; omega

/-- the continuation of the divisor-scaled branch after the sign-normalised floor division; the sign-normalised dividend ranges over
    `i128::MIN ..= 2^127` (`2^127 = -i128::MIN` for a negative divisor other than `-1`) -/
theorem gt_tail_full (prof : Profile) (tm : Mode) (a' b' : Int) (n s : Nat)
    (ha' : I128_MIN ≤ a' ∧ a' ≤ I128_MAX + 1) (hb' : 0 < b' ∧ b' ≤ I128_MAX + 1) (hs : 1 ≤ s ∧ s ≤ 18)
    (hc : a' = I128_MAX + 1 → 2 ≤ b') :
    Spec.allowedChecked (Spec.valFit (Spec.specRound tm a' (b' * (10 : Int) ^ s)) n)
      (outOptInt n (do
        let t ← tenPow s
        if (a' / b', a' % b').2 = 0 then do
          let c ← i128DivRounded prof tm (a' / b', a' % b').1 t none
          pure (some c)
        else do
          let q2 ← plainI128 prof (2 * (a' / b', a' % b').1)
          let q2 ← plainI128 prof (q2 + 1)
          let t2 ← plainI128 prof (2 * t)
          let c ← i128DivRounded prof tm q2 t2 none
          pure (some c))) = true := by
  have hts := pow10_pos s
  rw [tenPow_ok _ (by omega)]
  simp only [Outcome.bind_ok]
  have hq1 := Int.emod_nonneg a' (Int.ne_of_gt hb'.1)
  have hq2 := Int.emod_lt_of_pos a' hb'.1
  have hq3 := Int.mul_ediv_add_emod a' b'
  -- |a'/b'| ≤ |a'|, and ≤ 2^126 when a' = 2^127 (then b' ≥ 2)
  have hqf : I128_MIN ≤ a' / b' ∧ a' / b' ≤ I128_MAX := by
    unfold I128_MIN I128_MAX at *
    constructor
    · by_cases hxn : 0 ≤ a'
      · have := Int.ediv_nonneg hxn (Int.le_of_lt hb'.1); omega
      · have := ediv_ge_of_neg (x := a') (by omega) hb'.1; omega
    · by_cases hxn : 0 ≤ a'
      · by_cases hb2 : 2 ≤ b'
        · have h0 := Int.ediv_nonneg hxn (Int.le_of_lt hb'.1)
          have : 2 * (a' / b') ≤ b' * (a' / b') := Int.mul_le_mul_of_nonneg_right hb2 h0
          omega
        · have := Int.ediv_le_self b' hxn; omega
      · have := Int.ediv_neg_of_neg_of_pos (show a' < 0 by omega) hb'.1; omega
  have hpl : (10 : Int) ^ s ≤ I128_MAX := C02.pow10_le_max' (by omega)
  by_cases hrem : a' % b' = 0
  · simp only [hrem, if_true]
    rw [i128DivRounded_pos prof tm none _ _ (by rw [fitsI128_iff]; omega) hts hpl]
    simp only [Outcome.bind_ok, Option.getD_none, outOptInt]
    have hab : a' = a' / b' * b' := by rw [hrem] at hq3; rw [Int.mul_comm]; omega
    have := specRound_exact_step tm (a' / b') b' ((10 : Int) ^ s) hb'.1 hts
    rw [← hab] at this
    rw [← this]
    exact valFit_some _ _ (specRound_fits tm _ _ hqf hts)
  · simp only [hrem, if_false]
    -- rem ≠ 0 ⇒ b' ≥ 2 ⇒ |quot| ≤ 2^126: the doubled operands fit
    have hb2 : 2 ≤ b' := by omega
    have hq126 : -85070591730234615865843651857942052864 ≤ a' / b' ∧ a' / b' ≤ 85070591730234615865843651857942052863 := by
      unfold I128_MIN I128_MAX at *
      constructor
      · by_cases hxn : 0 ≤ a'
        · have := Int.ediv_nonneg hxn (Int.le_of_lt hb'.1); omega
        · have hneg := Int.ediv_neg_of_neg_of_pos (show a' < 0 by omega) hb'.1
          have h5 : b' * (a' / b' + 1) ≤ 2 * (a' / b' + 1) := Int.mul_le_mul_of_nonpos_right hb2 (by omega)
          have e5 : b' * (a' / b' + 1) = b' * (a' / b') + b' := by rw [Int.mul_add, Int.mul_one]
          omega
      · by_cases hxn : 0 ≤ a'
        · have h0 := Int.ediv_nonneg hxn (Int.le_of_lt hb'.1)
          have : 2 * (a' / b') ≤ b' * (a' / b') := Int.mul_le_mul_of_nonneg_right hb2 h0
          omega
        · have := Int.ediv_neg_of_neg_of_pos (show a' < 0 by omega) hb'.1; omega
    have ht18 : (10 : Int) ^ s ≤ (10 : Int) ^ 18 := pow10_mono (by omega)
    have h1018 : (10 : Int) ^ 18 = 1000000000000000000 := by decide
    have f1 : fitsI128 (2 * (a' / b')) = true := by rw [fitsI128_iff]; unfold I128_MIN I128_MAX; omega
    have f2 : fitsI128 (2 * (a' / b') + 1) = true := by rw [fitsI128_iff]; unfold I128_MIN I128_MAX; omega
    have f3 : fitsI128 (2 * (10 : Int) ^ s) = true := by rw [fitsI128_iff]; unfold I128_MIN I128_MAX; omega
    simp only [plainI128_ok prof f1, plainI128_ok prof f2, plainI128_ok prof f3, Outcome.bind_ok]
    rw [i128DivRounded_pos prof tm none _ _ f2 (by omega) (by unfold I128_MAX; omega)]
    simp only [Outcome.bind_ok, Option.getD_none, outOptInt]
    have heven : (10 : Int) ^ s % 2 = 0 := by
      have : (10 : Int) ^ s = 10 * (10 : Int) ^ (s - 1) := by
        rw [← Int.pow_succ']; congr 1; omega
      rw [this]; omega
    rw [specRound_two_step tm a' b' _ hb'.1 hts heven hrem]
    apply valFit_some
    rw [← specRound_two_step tm a' b' _ hb'.1 hts heven hrem]
    exact specRound_fits tm _ _ ((fitsI128_iff _).mp f2) (by omega)

/-- `gt_tail_full` for a sign-normalised dividend inside the i128 range -/
theorem gt_tail (prof : Profile) (tm : Mode) (a' b' : Int) (n s : Nat)
    (ha' : I128_MIN ≤ a' ∧ a' ≤ I128_MAX) (hb' : 0 < b' ∧ b' ≤ I128_MAX + 1) (hs : 1 ≤ s ∧ s ≤ 18) :
    Spec.allowedChecked (Spec.valFit (Spec.specRound tm a' (b' * (10 : Int) ^ s)) n)
      (outOptInt n (do
        let t ← tenPow s
        if (a' / b', a' % b').2 = 0 then do
          let c ← i128DivRounded prof tm (a' / b', a' % b').1 t none
          pure (some c)
        else do
          let q2 ← plainI128 prof (2 * (a' / b', a' % b').1)
          let q2 ← plainI128 prof (q2 + 1)
          let t2 ← plainI128 prof (2 * t)
          let c ← i128DivRounded prof tm q2 t2 none
          pure (some c))) = true :=
  gt_tail_full prof tm a' b' n s ⟨ha'.1, by omega⟩ hb' hs (by omega)

/-- the one pair of i128 operands whose exact quotient `2^127` is not an i128: when the dividend `i128::MIN` does not have to be
    scaled, `i128::MIN / -1` is evaluated by the plain operator and panics in every profile (Rust's behaviour) -/
theorem checkedDivRounded_min_neg_one (prof : Profile) (tm : Mode) (p q n : Nat) (h : n + q ≤ p) (hnq : n + q ≤ 255) :
    checkedDivRounded prof tm I128_MIN p (-1) q n = .panic .arith := by
  unfold checkedDivRounded
  rw [plainU8_ok prof (x := (n : Int) + (q : Int)) (by omega) (by omega)]
  have hnq' : ((n : Int) + (q : Int)).toNat = n + q := by omega
  simp only [Outcome.bind_ok, hnq']
  rcases Nat.eq_or_lt_of_le h with heq | hgt
  · have hc : compare p (n + q) = .eq := by rw [heq]; simp
    simp only [hc]
    rw [i128DivRounded_min_neg_one]
    rfl
  · have hc : compare p (n + q) = .gt := Nat.compare_eq_gt.mpr hgt
    simp only [hc]
    rw [i128DivModFloor_min_neg_one]
    rfl

/-- `checked_div_rounded(a, p, b, q, n)` for EVERY i128 dividend `a` (`i128::MIN` included: an integer operand) except the pair
    `(i128::MIN, -1)` without scaling of the dividend (`checkedDivRounded_min_neg_one`) -/
theorem checkedDivRounded_spec (hw : WideDiv) (prof : Profile) (tm : Mode) (a : Int) (p : Nat) (b : Int) (q n : Nat)
    (ha : I128_MIN ≤ a ∧ a ≤ I128_MAX) (hb : I128_MIN ≤ b ∧ b ≤ I128_MAX) (hb0 : b ≠ 0)
    (hp : p ≤ 18) (hq : q ≤ 18) (hn : n ≤ 18) (hc1 : ¬ (a = I128_MIN ∧ b = -1 ∧ n + q ≤ p)) :
    Spec.allowedChecked (specDivCore tm a p b q n) (outOptInt n (checkedDivRounded prof tm a p b q n)) = true := by
  unfold checkedDivRounded specDivCore
  rw [plainU8_ok prof (x := (n : Int) + (q : Int)) (by omega) (by omega)]
  have hnq : ((n : Int) + (q : Int)).toNat = n + q := by omega
  simp only [Outcome.bind_ok, hnq]
  have hpp := pow10_pos p
  rcases Nat.lt_trichotomy p (n + q) with hlt | heq | hgt
  · -- dividend must be scaled
    have hc : compare p (n + q) = .lt := Nat.compare_eq_lt.mpr hlt
    simp only [hc]
    have hs38 : n + q - p ≤ 38 := by omega
    -- spec: cancel 10^p
    have hspec : Spec.specRoundQ tm (a * (10 : Int) ^ (n + q)) (b * (10 : Int) ^ p) =
        Spec.specRoundQ tm (a * (10 : Int) ^ (n + q - p)) b := by
      rw [pow_split (n + q) p (by omega), ← Int.mul_assoc]
      exact specRoundQ_scale tm _ b _ hb0 hpp
    rw [hspec, checkedMulPowTen_eq a (n + q - p) hs38]
    cases hh : fitsI128 (a * (10 : Int) ^ (n + q - p))
    · -- wide path
      rw [checkedI128_none hh]
      simp only []
      unfold i128ShiftedDivRounded
      rw [specRoundQ_norm tm _ b hb0]
      by_cases hneg : b < 0
      · simp only [hneg, if_true]
        rw [hw.2 prof a (n + q - p) b ha hs38 ⟨hb.1, hneg⟩]
        simp only [Outcome.bind_ok]
        have key := wide_tail_abs tm (-(a * (10 : Int) ^ (n + q - p))) (-b) n (by omega) (by unfold I128_MAX I128_MIN at *; omega)
        rw [Int.natAbs_neg, Int.natAbs_neg] at key
        by_cases ht : ((a * (10 : Int) ^ (n + q - p)).natAbs / b.natAbs : Nat) ≤ I128_MAX.toNat
        · simp only [ht, if_true, Option.bind_some] at key ⊢
          rw [Int.natAbs_neg]
          cases hr : roundQuot tm (-(a * 10 ^ (n + q - p)) / -b) (-(a * 10 ^ (n + q - p)) % -b).natAbs b.natAbs none with
          | none => rw [hr] at key; simpa [outOptInt] using key
          | some c => rw [hr] at key; simpa [outOptInt] using key
        · simp only [ht, if_false, Option.bind_none] at key ⊢
          simpa [outOptInt] using key
      · simp only [hneg, if_false]
        rw [hw.1 prof a (n + q - p) b ha hs38 (by omega)]
        simp only [Outcome.bind_ok]
        have key := wide_tail_abs tm (a * (10 : Int) ^ (n + q - p)) b n (by omega) (by omega)
        by_cases ht : ((a * (10 : Int) ^ (n + q - p)).natAbs / b.natAbs : Nat) ≤ I128_MAX.toNat
        · simp only [ht, if_true, Option.bind_some] at key ⊢
          cases hr : roundQuot tm (a * 10 ^ (n + q - p) / b) (a * 10 ^ (n + q - p) % b).natAbs b.natAbs none with
          | none => rw [hr] at key; simpa [outOptInt] using key
          | some c => rw [hr] at key; simpa [outOptInt] using key
        · simp only [ht, if_false, Option.bind_none] at key ⊢
          simpa [outOptInt] using key
    · -- narrow path: the scaled dividend fits
      rw [checkedI128_some hh]
      simp only []
      by_cases hmin : a * (10 : Int) ^ (n + q - p) = I128_MIN
      · -- dividend exactly i128::MIN: only reachable with a positive divisor … or it would overflow on negation
        by_cases hneg : b < 0
        · -- `-divident` overflows: panic in dev, wrap in release — excluded: cannot happen, the product is a multiple of 10
          exfalso
          have hk : 1 ≤ n + q - p := by omega
          have : (10 : Int) ^ (n + q - p) = 10 * (10 : Int) ^ (n + q - p - 1) := by
            rw [← Int.pow_succ']; congr 1; omega
          rw [this] at hmin
          have e : a * (10 * (10 : Int) ^ (n + q - p - 1)) = 10 * (a * (10 : Int) ^ (n + q - p - 1)) := by ring
          rw [e] at hmin
          unfold I128_MIN at hmin
          omega
        · rw [i128DivRounded_pos prof tm none _ b hh (by omega) hb.2]
          simp only [Outcome.bind_ok, Option.getD_none, outOptInt]
          rw [specRoundQ_pos tm _ b (by omega)]
          exact valFit_some _ _ (specRound_fits tm _ b ((fitsI128_iff _).mp hh) (by omega))
      · have hrange : I128_MIN < a * (10 : Int) ^ (n + q - p) ∧ a * (10 : Int) ^ (n + q - p) ≤ I128_MAX := by
          have := (fitsI128_iff _).mp hh; omega
        rw [i128DivRounded_spec prof tm none _ b hrange hb hb0]
        simp only [Outcome.bind_ok, Option.getD_none, outOptInt]
        rw [specRoundQ_norm tm _ b hb0]
        apply valFit_some
        apply specRound_fits
        · unfold I128_MIN I128_MAX at *; split <;> omega
        · split <;> omega
  · -- equal scales
    have hc : compare p (n + q) = .eq := by rw [heq]; simp
    simp only [hc]
    rw [i128DivRounded_spec_full prof tm none a b ha hb hb0 (fun h => hc1 ⟨h.1, h.2, by omega⟩)]
    simp only [Outcome.bind_ok, Option.getD_none, outOptInt]
    have hspec : Spec.specRoundQ tm (a * (10 : Int) ^ (n + q)) (b * (10 : Int) ^ p) = Spec.specRoundQ tm a b := by
      rw [← heq]; exact specRoundQ_scale tm a b _ hb0 hpp
    rw [hspec, specRoundQ_norm tm a b hb0]
    apply valFit_some
    apply specRound_fits_abs
    · unfold I128_MIN I128_MAX at *; split <;> omega
    · split <;> omega
    · intro h
      have hb1 : b ≠ -1 := fun h1 => hc1 ⟨by unfold I128_MIN I128_MAX at *; split at h <;> omega, h1, by omega⟩
      unfold I128_MIN I128_MAX at *; split at h <;> split <;> omega
  · -- divisor must be scaled: floor-divide first, then round once (repaired branch)
    have hc : compare p (n + q) = .gt := Nat.compare_eq_gt.mpr hgt
    simp only [hc]
    have hs : 1 ≤ p - (n + q) ∧ p - (n + q) ≤ 18 := by omega
    have hts := pow10_pos (p - (n + q))
    -- spec: cancel 10^(n+q)
    have hspec : Spec.specRoundQ tm (a * (10 : Int) ^ (n + q)) (b * (10 : Int) ^ p) =
        Spec.specRoundQ tm a (b * (10 : Int) ^ (p - (n + q))) := by
      rw [pow_split p (n + q) (by omega), ← Int.mul_assoc]
      exact specRoundQ_scale tm a _ _ (by
        intro h; rcases Int.mul_eq_zero.mp h with h | h
        · exact hb0 h
        · omega) (pow10_pos _)
    rw [hspec]
    by_cases hneg : b < 0
    · have hb1 : a = I128_MIN → b ≠ -1 := fun h0 h1 => hc1 ⟨h0, h1, by omega⟩
      rw [i128DivModFloor_neg_full prof a b ha hneg hb.1 (fun h => hb1 h.1 h.2)]
      simp only [Outcome.bind_ok]
      have hsp : Spec.specRoundQ tm a (b * (10 : Int) ^ (p - (n + q))) =
          Spec.specRound tm (-a) (-b * (10 : Int) ^ (p - (n + q))) := by
        have : b * (10 : Int) ^ (p - (n + q)) < 0 := Int.mul_neg_of_neg_of_pos hneg hts
        rw [specRoundQ_neg tm a _ this, Int.neg_mul]
      rw [hsp]
      have hz : (-(-a % -b) = 0) ↔ (-a % -b = 0) := by omega
      have key := gt_tail_full prof tm (-a) (-b) n (p - (n + q)) (by unfold I128_MIN I128_MAX at *; omega)
        (by unfold I128_MIN I128_MAX at *; omega) hs
        (fun h => by have := hb1 (by unfold I128_MIN I128_MAX at *; omega); omega)
      simp only [hz] at key ⊢
      exact key
    · have f1 : fitsI128 a = true := by rw [fitsI128_iff]; omega
      rw [i128DivModFloor_pos prof a b f1 (by omega) hb.2]
      simp only [Outcome.bind_ok]
      have hsp : Spec.specRoundQ tm a (b * (10 : Int) ^ (p - (n + q))) =
          Spec.specRound tm a (b * (10 : Int) ^ (p - (n + q))) := by
        have : 0 < b * (10 : Int) ^ (p - (n + q)) := Int.mul_pos (by omega) hts
        exact specRoundQ_pos tm a _ this
      rw [hsp]
      exact gt_tail prof tm a b n (p - (n + q)) ha ⟨by omega, by omega⟩ hs

theorem specDivCore_shape (tm : Mode) (a : Int) (p : Nat) (b : Int) (q n : Nat) :
    specDivCore tm a p b q n ≠ .divzero ∧ specDivCore tm a p b q n ≠ .none ∧ specDivCore tm a p b q n ≠ .nfrac :=
  valFit_shape _ _

/-- from the kernel's `Option<i128>` to the operator result `Decimal { coeff, n }` or the overflow panic -/
theorem op_of_kernel (e : Spec.Exp) (n : Nat) (r : Outcome (Option Int))
    (h : Spec.allowedChecked e (outOptInt n r) = true) (hn : e ≠ .divzero) (hnn : e ≠ .none) (hnf : e ≠ .nfrac) :
    Spec.allowedOp e (outPair (match r with
      | .ok (some c) => .ok ⟨c, n⟩
      | .ok none => .panic .overflow
      | .panic k => .panic k)) = true := by
  cases r with
  | panic k => cases e <;> simp [Spec.allowedChecked, Spec.allowedOp, outOptInt] at h hn hnn hnf ⊢
  | ok o =>
    cases o with
    | none => cases e <;> simp [Spec.allowedChecked, Spec.allowedOp, Spec.isOvfPanic, outOptInt] at h hn hnn hnf ⊢
    | some v => cases e <;> simp [Spec.allowedChecked, Spec.allowedOp, outOptInt] at h hn hnn hnf ⊢ <;> exact h

/-- the exact quotient of `i128::MIN / -1` at equal scales is `2^127`: the spec expects the overflow signal -/
theorem specDivCore_min_neg_one (tm : Mode) (q n : Nat) : specDivCore tm I128_MIN (n + q) (-1) q n = .ovf := by
  unfold specDivCore
  rw [specRoundQ_scale tm I128_MIN (-1) _ (by decide) (pow10_pos _)]
  have e : Spec.specRoundQ tm I128_MIN (-1) = 170141183460469231731687303715884105728 := by
    cases tm <;> decide
  rw [e, valFit_eq, if_neg (by decide), if_neg (by decide)]

/-- the common body of the four `div_rounded` shapes after the guards, for EVERY i128 dividend: the operator form accepts the
    `i128::MIN / -1` panic as the overflow signal the spec expects there (`2^127` is not representable); only the combination
    "dividend `i128::MIN` with more fractional digits than `n + q`" is outside (not a `Decimal`, and an integer has `p = 0`) -/
theorem div_rounded_body_full (hw : WideDiv) (prof : Profile) (tm : Mode) (a : Int) (p : Nat) (b : Int) (q n : Nat)
    (ha : I128_MIN ≤ a ∧ a ≤ I128_MAX) (hb : I128_MIN ≤ b ∧ b ≤ I128_MAX) (hb0 : b ≠ 0)
    (hp : p ≤ 18) (hq : q ≤ 18) (hn : n ≤ 18) (hc : ¬ (a = I128_MIN ∧ b = -1 ∧ n + q < p)) :
    Spec.allowedOp (specDivCore tm a p b q n) (outPair (do
      match ← checkedDivRounded prof tm a p b q n with
      | some c => pure ⟨c, n⟩
      | none => Outcome.panic PanicKind.overflow)) = true := by
  by_cases hcorner : a = I128_MIN ∧ b = -1 ∧ n + q ≤ p
  · obtain ⟨h1, h2, h3⟩ := hcorner
    have hpe : p = n + q := by omega
    subst h1; subst h2; subst hpe
    rw [checkedDivRounded_min_neg_one prof tm (n + q) q n (Nat.le_refl _) (by omega), specDivCore_min_neg_one]
    rfl
  · have hk := checkedDivRounded_spec hw prof tm a p b q n ha hb hb0 hp hq hn hcorner
    obtain ⟨s1, s2, s3⟩ := specDivCore_shape tm a p b q n
    generalize checkedDivRounded prof tm a p b q n = r at hk ⊢
    have := op_of_kernel _ n r hk s1 s2 s3
    cases r with
    | panic k => exact this
    | ok o => cases o <;> exact this

/-- `div_rounded_body_full` for a dividend of the Decimal coefficient range -/
theorem div_rounded_body (hw : WideDiv) (prof : Profile) (tm : Mode) (a : Int) (p : Nat) (b : Int) (q n : Nat)
    (ha : I128_MIN < a ∧ a ≤ I128_MAX) (hb : I128_MIN ≤ b ∧ b ≤ I128_MAX) (hb0 : b ≠ 0)
    (hp : p ≤ 18) (hq : q ≤ 18) (hn : n ≤ 18) :
    Spec.allowedOp (specDivCore tm a p b q n) (outPair (do
      match ← checkedDivRounded prof tm a p b q n with
      | some c => pure ⟨c, n⟩
      | none => Outcome.panic PanicKind.overflow)) = true :=
  div_rounded_body_full hw prof tm a p b q n ⟨Int.le_of_lt ha.1, ha.2⟩ hb hb0 hp hq hn (fun h => by omega)

/-- `Decimal.div_rounded(Decimal, n)` for every `n : u8` -/
theorem div_rounded_spec (hw : WideDiv) (prof : Profile) (tm : Mode) (x y : Dec) (n : Nat) (hx : Dom x) (hy : Dom y) :
    Spec.allowedOp (Spec.divRounded tm x.coeff x.nfrac y.coeff y.nfrac n) (outPair (divRounded prof tm x y n)) = true := by
  obtain ⟨a, p⟩ := x
  obtain ⟨b, q⟩ := y
  unfold divRounded Spec.divRounded
  simp only [max_nfrac, eqZero]
  by_cases hn : n > 18
  · simp [hn, Spec.allowedOp]
  · simp only [hn, if_false]
    by_cases hb0 : b = 0
    · simp [hb0, Spec.allowedOp]
    · simp only [hb0, decide_false, Bool.false_eq_true, if_false]
      by_cases ha0 : a = 0
      · simp [ha0, Spec.allowedOp, Dec.ZERO]
      · simp only [ha0, decide_false, Bool.false_eq_true, if_false]
        exact div_rounded_body hw prof tm a p b q n ⟨hx.1, hx.2.1⟩ ⟨Int.le_of_lt hy.1, hy.2.1⟩ hb0 hx.2.2 hy.2.2 (by omega)

/-- `Decimal.div_rounded(int, n)` (guarded since the D8 repair); `i` any value of the 9 integer types, `i128::MIN` included (D13 repair) -/
theorem div_rounded_dec_int_spec (hw : WideDiv) (prof : Profile) (tm : Mode) (x : Dec) (i : Int) (n : Nat) (hx : Dom x)
    (hi : I128_MIN ≤ i ∧ i ≤ I128_MAX) :
    Spec.allowedOp (Spec.divRounded tm x.coeff x.nfrac i 0 n) (outPair (divRoundedDecInt prof tm x i n)) = true := by
  obtain ⟨a, p⟩ := x
  unfold divRoundedDecInt Spec.divRounded
  simp only [max_nfrac, eqZero]
  by_cases hn : n > 18
  · simp [hn, Spec.allowedOp]
  · simp only [hn, if_false]
    by_cases hb0 : i = 0
    · simp [hb0, Spec.allowedOp]
    · simp only [hb0, if_false]
      by_cases ha0 : a = 0
      · simp [ha0, Spec.allowedOp, Dec.ZERO]
      · simp only [ha0, decide_false, Bool.false_eq_true, if_false]
        exact div_rounded_body hw prof tm a p i 0 n ⟨hx.1, hx.2.1⟩ hi hb0 hx.2.2 (by omega) (by omega)

/-- `int.div_rounded(Decimal, n)` (guarded since the D8 repair) -/
theorem div_rounded_int_dec_spec (hw : WideDiv) (prof : Profile) (tm : Mode) (i : Int) (y : Dec) (n : Nat) (hy : Dom y)
    (hi : I128_MIN ≤ i ∧ i ≤ I128_MAX) :
    Spec.allowedOp (Spec.divRounded tm i 0 y.coeff y.nfrac n) (outPair (divRoundedIntDec prof tm i y n)) = true := by
  obtain ⟨b, q⟩ := y
  unfold divRoundedIntDec Spec.divRounded
  simp only [max_nfrac, eqZero]
  by_cases hn : n > 18
  · simp [hn, Spec.allowedOp]
  · simp only [hn, if_false]
    by_cases hb0 : b = 0
    · simp [hb0, Spec.allowedOp]
    · simp only [hb0, decide_false, Bool.false_eq_true, if_false]
      by_cases ha0 : i = 0
      · simp [ha0, Spec.allowedOp, Dec.ZERO]
      · simp only [ha0, if_false]
        exact div_rounded_body_full hw prof tm i 0 b q n hi ⟨Int.le_of_lt hy.1, hy.2.1⟩ hb0 (by omega) hy.2.2 (by omega)
          (fun h => by omega)

/- FULL STATEMENT (false for the current code — open finding D8):
     ∀ n, allowedOp (Spec.divRounded tm i 0 j 0 n) (outPair (divRoundedIntInt prof tm i j n))
   `impl DivRounded<$t> for $t` has no `n > 18` guard and cannot get one: the repository's own test
   `div_rounded_int_by_int_tests::test_u64` asserts a result with 32 fractional digits. -/

/-- `int.div_rounded(int, n)` restricted to `n ≤ 18` -/
theorem div_rounded_int_int_partial (hw : WideDiv) (prof : Profile) (tm : Mode) (i j : Int) (n : Nat) (hn : n ≤ 18)
    (hi : I128_MIN ≤ i ∧ i ≤ I128_MAX) (hj : I128_MIN ≤ j ∧ j ≤ I128_MAX) :
    Spec.allowedOp (Spec.divRounded tm i 0 j 0 n) (outPair (divRoundedIntInt prof tm i j n)) = true := by
  unfold divRoundedIntInt Spec.divRounded
  have hn' : ¬ n > 18 := by omega
  simp only [hn', if_false]
  by_cases hb0 : j = 0
  · simp [hb0, Spec.allowedOp]
  · simp only [hb0, if_false]
    by_cases ha0 : i = 0
    · simp [ha0, Spec.allowedOp, Dec.ZERO]
    · simp only [ha0, if_false]
      exact div_rounded_body_full hw prof tm i 0 j 0 n hi hj hb0 (by omega) (by omega) hn (fun h => by omega)

/-- witness of the open finding: `1u64.div_rounded(3u64, 19)` returns 19 fractional digits instead of panicking -/
theorem div_rounded_int_n19_witness :
    divRoundedIntInt Profile.dev .heven 1 3 19 = .ok ⟨3333333333333333333, 19⟩ ∧
    Spec.allowedOp (Spec.divRounded .heven 1 0 3 0 19) (outPair (divRoundedIntInt Profile.dev .heven 1 3 19)) = false := by
  decide

/-- `x.mul_rounded(y, n)` -/
theorem mul_rounded_spec (hw : C02.WideMul) (prof : Profile) (tm : Mode) (x y : Dec) (n : Nat) (hx : Dom x) (hy : Dom y) :
    Spec.allowedOp (Spec.mulRounded tm x.coeff x.nfrac y.coeff y.nfrac n) (outPair (mulRounded prof tm x y n)) = true := by
  by_cases hn : n > 18
  · unfold mulRounded Spec.mulRounded
    rw [max_nfrac]
    simp only [hn, if_true]
    rfl
  · have hcore := C02.checkedMulRounded_spec hw prof tm x y n hx hy (by omega)
    obtain ⟨s1, s2, s3⟩ := C02.specMulCore_shape tm x.coeff x.nfrac y.coeff y.nfrac n
    have hop := allowedOp_of_checked _ _ hcore s1 s2 s3
    obtain ⟨a, p⟩ := x
    obtain ⟨b, q⟩ := y
    unfold mulRounded Spec.mulRounded
    simp only [max_nfrac, hn, if_false, eqZero]
    by_cases h0 : a = 0 ∨ b = 0
    · have : (decide (a = 0) || decide (b = 0)) = true := by simpa using h0
      simp [h0, this, Spec.allowedOp, Dec.ZERO]
    · have : (decide (a = 0) || decide (b = 0)) = false := by simpa using h0
      simp only [h0, this, if_false, Bool.false_eq_true]
      unfold C02.specMulCore at hop
      cases hcm : checkedMulRounded prof tm ⟨a, p⟩ ⟨b, q⟩ n with
      | panic k => rw [hcm] at hop; simpa [panicOnNone] using hop
      | ok o =>
        cases o with
        | none => rw [hcm] at hop; simpa [panicOnNone] using hop
        | some r => rw [hcm] at hop; simpa [panicOnNone] using hop

/-- a `.val` expectation of `valFit` is a coefficient of the Decimal domain -/
theorem valFit_val_dom (c : Int) (p : Nat) (c' : Int) (p' : Nat) (h : Spec.valFit c p = .val c' p') :
    I128_MIN < c' ∧ c' ≤ I128_MAX ∧ p' = p := by
  rw [valFit_eq] at h
  by_cases h1 : c = I128_MIN
  · simp [h1] at h
  · by_cases h2 : fitsI128 c = true
    · simp only [h1, h2, if_false, if_true, Spec.Exp.val.injEq] at h
      obtain ⟨e1, e2⟩ := h
      subst e1; subst e2
      rw [fitsI128_iff] at h2
      exact ⟨by omega, h2.2, rfl⟩
    · simp [h1, h2] at h

theorem divRounded_val_dom (tm : Mode) (a : Int) (p : Nat) (b : Int) (q : Nat) (c : Int) (p' : Nat)
    (h : Spec.divRounded tm a p b q 0 = .val c p') : I128_MIN < c ∧ c ≤ I128_MAX ∧ p' = 0 := by
  unfold Spec.divRounded at h
  simp only [show ¬ (0 > 18) by omega, if_false] at h
  split at h
  · simp at h
  · split at h
    · simp only [Spec.Exp.val.injEq] at h
      obtain ⟨e1, e2⟩ := h
      subst e1; subst e2
      unfold I128_MIN I128_MAX; omega
    · exact valFit_val_dom _ _ _ _ h

/-- the second step of `Spec.quantize` as a function of the first step's expectation -/
def quantExp (E : Int → Spec.Exp) : Spec.Exp → Spec.Exp
  | .val k _ => E k
  | .valOrOvf _ _ => .any
  | e => e

theorem spec_quantize_eq (tm : Mode) (intQuant : Bool) (a : Int) (p : Nat) (b : Int) (q : Nat) :
    Spec.quantize tm intQuant a p b q =
      quantExp (fun k => if intQuant then Spec.mulInt k 0 b else Spec.mul tm k 0 b q) (Spec.divRounded tm a p b q 0) := by
  unfold Spec.quantize quantExp
  cases Spec.divRounded tm a p b q 0 <;> rfl

/-- every `quantize`: an allowed `div_rounded(…, 0)` outcome followed by the multiplication `K` -/
theorem quantize_glue (e : Spec.Exp) (r : Outcome Dec) (h : Spec.allowedOp e (outPair r) = true)
    (K : Dec → Outcome Dec) (E : Int → Spec.Exp)
    (hK : ∀ k : Int, I128_MIN < k ∧ k ≤ I128_MAX → Spec.allowedOp (E k) (outPair (K ⟨k, 0⟩)) = true)
    (hv : ∀ c p, e = .val c p → I128_MIN < c ∧ c ≤ I128_MAX ∧ p = 0) :
    Spec.allowedOp (quantExp E e) (outPair (r >>= K)) = true := by
  unfold quantExp
  cases e with
  | val c p =>
    obtain ⟨hc0, hc1, hp⟩ := hv c p rfl
    subst hp
    cases r with
    | panic k => simp [Spec.allowedOp] at h
    | ok d =>
      simp only [outPair_ok, Spec.allowedOp, beq_iff_eq, Prod.mk.injEq] at h
      obtain ⟨d1, d2⟩ := d
      simp only at h
      obtain ⟨h1, h2⟩ := h
      subst h1; subst h2
      simp only [Outcome.bind_ok]
      exact hK d1 ⟨hc0, hc1⟩
  | ovf =>
    cases r with
    | panic k => simpa [Spec.allowedOp] using h
    | ok d => simp [Spec.allowedOp] at h
  | valOrOvf c p => simp [Spec.allowedOp]
  | divzero =>
    cases r with
    | panic k => simpa [Spec.allowedOp] using h
    | ok d => simp [Spec.allowedOp] at h
  | nfrac =>
    cases r with
    | panic k => simp [Spec.allowedOp]
    | ok d => simp [Spec.allowedOp] at h
  | none => simp [Spec.allowedOp] at h
  | any => simp [Spec.allowedOp]

/-- `x.quantize(q)` for two Decimals: `k·q` with `k = round_mode(x/q)`, represented as the product `k * q` -/
theorem quantize_spec (hwm : C02.WideMul) (hwd : WideDiv) (prof : Profile) (tm : Mode) (x q : Dec) (hx : Dom x) (hq : Dom q) :
    Spec.allowedOp (Spec.quantize tm false x.coeff x.nfrac q.coeff q.nfrac) (outPair (quantize prof tm x q)) = true := by
  rw [spec_quantize_eq]
  unfold quantize
  simp only [Bool.false_eq_true, if_false]
  exact quantize_glue _ _ (div_rounded_spec hwd prof tm x q 0 hx hq) (fun r => mul prof tm r q)
    (fun k => Spec.mul tm k 0 q.coeff q.nfrac)
    (fun k hk => C02.mul_spec hwm prof tm ⟨k, 0⟩ q ⟨hk.1, hk.2, Nat.zero_le _⟩ hq)
    (fun c p h => divRounded_val_dom tm _ _ _ _ c p h)

/-- `Decimal.quantize(int)` -/
theorem quantize_dec_int_spec (hwd : WideDiv) (prof : Profile) (tm : Mode) (x : Dec) (i : Int) (hx : Dom x)
    (hi : I128_MIN ≤ i ∧ i ≤ I128_MAX) :
    Spec.allowedOp (Spec.quantize tm true x.coeff x.nfrac i 0) (outPair (quantizeDecInt prof tm x i)) = true := by
  rw [spec_quantize_eq]
  unfold quantizeDecInt
  simp only [if_true]
  exact quantize_glue _ _ (div_rounded_dec_int_spec hwd prof tm x i 0 hx hi) (fun r => mulInt r i)
    (fun k => Spec.mulInt k 0 i)
    (fun k _ => C02.mul_int_spec ⟨k, 0⟩ i)
    (fun c p h => divRounded_val_dom tm _ _ _ _ c p h)

/-- `int.quantize(Decimal)` -/
theorem quantize_int_dec_spec (hwm : C02.WideMul) (hwd : WideDiv) (prof : Profile) (tm : Mode) (i : Int) (q : Dec) (hq : Dom q)
    (hi : I128_MIN ≤ i ∧ i ≤ I128_MAX) :
    Spec.allowedOp (Spec.quantize tm false i 0 q.coeff q.nfrac) (outPair (quantizeIntDec prof tm i q)) = true := by
  rw [spec_quantize_eq]
  unfold quantizeIntDec
  simp only [Bool.false_eq_true, if_false]
  exact quantize_glue _ _ (div_rounded_int_dec_spec hwd prof tm i q 0 hq hi) (fun r => mul prof tm r q)
    (fun k => Spec.mul tm k 0 q.coeff q.nfrac)
    (fun k hk => C02.mul_spec hwm prof tm ⟨k, 0⟩ q ⟨hk.1, hk.2, Nat.zero_le _⟩ hq)
    (fun c p h => divRounded_val_dom tm _ _ _ _ c p h)

/-- `int.quantize(int)` (`n = 0`, so the missing guard of the int/int shape is irrelevant here) -/
theorem quantize_int_int_spec (hwd : WideDiv) (prof : Profile) (tm : Mode) (i j : Int)
    (hi : I128_MIN ≤ i ∧ i ≤ I128_MAX) (hj : I128_MIN ≤ j ∧ j ≤ I128_MAX) :
    Spec.allowedOp (Spec.quantize tm true i 0 j 0) (outPair (quantizeIntInt prof tm i j)) = true := by
  rw [spec_quantize_eq]
  unfold quantizeIntInt
  simp only [if_true]
  exact quantize_glue _ _ (div_rounded_int_int_partial hwd prof tm i j 0 (by omega) hi hj) (fun r => mulInt r j)
    (fun k => Spec.mulInt k 0 j)
    (fun k _ => C02.mul_int_spec ⟨k, 0⟩ j)
    (fun c p h => divRounded_val_dom tm _ _ _ _ c p h)

/-! ### non-vacuity -/
example : divRounded Profile.dev .heven ⟨51, 2⟩ ⟨2, 0⟩ 1 = .ok ⟨3, 1⟩ := by decide          -- 0.51 / 2 @1 = 0.3 (was 0.2: D7)
example : divRounded Profile.dev .up ⟨41, 2⟩ ⟨2, 0⟩ 1 = .ok ⟨3, 1⟩ := by decide
example : divRoundedDecInt Profile.release .heven ⟨1, 0⟩ 3 19 = .panic .nfrac := by decide   -- D8 repaired shape
-- D13 repaired: the divisor `i128::MIN` (dev used to panic, release returned `0.1`)
example : divRoundedDecInt Profile.dev .up ⟨1515, 1⟩ I128_MIN 1 = .ok ⟨-1, 1⟩ := by decide
example : divRoundedDecInt Profile.release .up ⟨1515, 1⟩ I128_MIN 1 = .ok ⟨-1, 1⟩ := by decide
example : mulRounded Profile.dev .hup ⟨15, 1⟩ ⟨15, 1⟩ 1 = .ok ⟨23, 1⟩ := by decide
-- the dividend `i128::MIN` (an integer operand): narrow path, wide path, and the one pair whose exact quotient `2^127` overflows
-- (`i128::MIN / -1` panics in `i128_div_mod_floor`; the spec expects the overflow signal there)
example : divRoundedIntDec Profile.dev .heven I128_MIN ⟨-3, 0⟩ 0 = .ok ⟨56713727820156410577229101238628035243, 0⟩ ∧
    Spec.allowedOp (Spec.divRounded .heven I128_MIN 0 (-3) 0 0) (outPair (divRoundedIntDec Profile.dev .heven I128_MIN ⟨-3, 0⟩ 0)) = true := by
  decide
example : divRoundedIntDec Profile.release .hup I128_MIN ⟨I128_MIN + 1, 0⟩ 1 = .ok ⟨10, 1⟩ ∧
    Spec.allowedOp (Spec.divRounded .hup I128_MIN 0 (I128_MIN + 1) 0 1)
      (outPair (divRoundedIntDec Profile.release .hup I128_MIN ⟨I128_MIN + 1, 0⟩ 1)) = true := by
  decide
example : divRoundedIntDec Profile.dev .heven I128_MIN ⟨-1, 0⟩ 0 = .panic .arith ∧
    Spec.divRounded .heven I128_MIN 0 (-1) 0 0 = .ovf ∧
    Spec.allowedOp (Spec.divRounded .heven I128_MIN 0 (-1) 0 0) (outPair (divRoundedIntDec Profile.dev .heven I128_MIN ⟨-1, 0⟩ 0)) = true := by
  decide
example : divRoundedIntInt Profile.dev .heven I128_MIN (-2) 0 = .ok ⟨85070591730234615865843651857942052864, 0⟩ ∧
    Spec.allowedOp (Spec.divRounded .heven I128_MIN 0 (-2) 0 0) (outPair (divRoundedIntInt Profile.dev .heven I128_MIN (-2) 0)) = true := by
  decide
example : divRoundedIntInt Profile.release .heven I128_MIN (-1) 0 = .panic .arith ∧
    Spec.allowedOp (Spec.divRounded .heven I128_MIN 0 (-1) 0 0) (outPair (divRoundedIntInt Profile.release .heven I128_MIN (-1) 0)) = true := by
  decide
example : checkedDivRounded Profile.dev .heven I128_MIN 0 (-1) 0 0 = .panic .arith ∧
    checkedDivRounded Profile.dev .heven I128_MIN 0 (-1) 0 1 = .ok none := by decide
example : quantizeIntDec Profile.dev .heven I128_MIN ⟨-25, 1⟩ = .panic .overflow ∧
    Spec.allowedOp (Spec.quantize .heven false I128_MIN 0 (-25) 1) (outPair (quantizeIntDec Profile.dev .heven I128_MIN ⟨-25, 1⟩)) = true := by
  decide
example : quantizeIntDec Profile.dev .heven I128_MIN ⟨I128_MAX, 0⟩ = .ok ⟨-I128_MAX, 0⟩ ∧
    Spec.allowedOp (Spec.quantize .heven false I128_MIN 0 I128_MAX 0) (outPair (quantizeIntDec Profile.dev .heven I128_MIN ⟨I128_MAX, 0⟩)) = true := by
  decide
example : quantizeIntInt Profile.dev .heven I128_MIN 4 = .ok ⟨I128_MIN, 0⟩ ∧
    Spec.allowedOp (Spec.quantize .heven true I128_MIN 0 4 0) (outPair (quantizeIntInt Profile.dev .heven I128_MIN 4)) = true := by
  decide

/-! ### translated kernels
The Lean definitions `Gen.K.*` are regenerated from the Rust source on every run by `tools/fpkernels.py` (expression-level
translation).  These theorems tie them to the hand-written model the property theorems above are about: a change of the Rust
kernel that changes its translation breaks them. -/
theorem kernel_ten_pow (prof : Profile) (n : Nat) : Gen.K.ten_pow prof n = tenPow n := Kernels.ten_pow_eq prof n
theorem kernel_mul_pow_ten (prof : Profile) (val : Int) (n : Nat) : Gen.K.mul_pow_ten prof val n = mulPowTen val n :=
  Kernels.mul_pow_ten_eq prof val n
theorem kernel_checked_mul_pow_ten (prof : Profile) (val : Int) (n : Nat) :
    Gen.K.checked_mul_pow_ten prof val n = .ok (checkedMulPowTen val n) := Kernels.checked_mul_pow_ten_eq prof val n
theorem kernel_i128_div_rounded (prof : Profile) (tm : Mode) (a b : Int) (mode : Option Mode) (ha : fitsI128 a = true) :
    Gen.K.i128_div_rounded prof tm a b mode = i128DivRounded prof tm a b mode :=
  Kernels.i128_div_rounded_eq prof tm a b mode ha
theorem kernel_i128_shifted_div_rounded (prof : Profile) (tm : Mode) (a : Int) (p : Nat) (b : Int) (mode : Option Mode) :
    Gen.K.i128_shifted_div_rounded prof tm a p b mode = i128ShiftedDivRounded prof tm a p b mode :=
  Kernels.i128_shifted_div_rounded_eq' prof tm a p b mode
theorem kernel_i128_mul_div_ten_pow_rounded (prof : Profile) (tm : Mode) (x y : Int) (p : Nat) (mode : Option Mode) :
    Gen.K.i128_mul_div_ten_pow_rounded prof tm x y p mode = i128MulDivTenPowRounded prof tm x y p mode :=
  Kernels.i128_mul_div_ten_pow_rounded_eq' prof tm x y p mode

theorem kernel_checked_mul_rounded (prof : Profile) (tm : Mode) (x y : Dec) (n : Nat) (hn : n < 256) :
    Gen.K.checked_mul_rounded prof tm x y n = checkedMulRounded prof tm x y n :=
  Kernels.checked_mul_rounded_eq prof tm x y n hn
theorem kernel_checked_div_rounded (prof : Profile) (tm : Mode) (a : Int) (p : Nat) (b : Int) (q n : Nat)
    (ha : fitsI128 a = true) (hp : p ≤ 38) :
    Gen.K.checked_div_rounded prof tm a p b q n = checkedDivRounded prof tm a p b q n :=
  Kernels.checked_div_rounded_eq prof tm a p b q n ha hp

/-- the Decimal-by-Decimal operator bodies of mul.rs, checked_mul.rs and mul_rounded.rs, as translated on this run -/
theorem kernel_decimal_mul (prof : Profile) (tm : Mode) (x y : Dec) : Gen.K.decimal_mul prof tm x y = mul prof tm x y :=
  Kernels.decimal_mul_eq prof tm x y
theorem kernel_decimal_checked_mul (prof : Profile) (x y : Dec) : Gen.K.decimal_checked_mul prof x y = checkedMul prof x y :=
  Kernels.decimal_checked_mul_eq prof x y
theorem kernel_decimal_mul_rounded (prof : Profile) (tm : Mode) (x y : Dec) (n : Nat) (hn : n < 256) :
    Gen.K.decimal_mul_rounded prof tm x y n = mulRounded prof tm x y n := Kernels.decimal_mul_rounded_eq prof tm x y n hn
/-- the Decimal-by-Decimal operator bodies of div.rs, checked_div.rs and div_rounded.rs, as translated on this run -/
theorem kernel_decimal_div (prof : Profile) (tm : Mode) (x y : Dec) (hx : fitsI128 x.coeff = true) (hp : x.nfrac ≤ 38) :
    Gen.K.decimal_div prof tm x y = div prof tm x y := Kernels.decimal_div_eq prof tm x y hx hp
theorem kernel_decimal_checked_div (prof : Profile) (tm : Mode) (x y : Dec) (hx : fitsI128 x.coeff = true) (hp : x.nfrac ≤ 38) :
    Gen.K.decimal_checked_div prof tm x y = checkedDiv prof tm x y := Kernels.decimal_checked_div_eq prof tm x y hx hp
theorem kernel_decimal_div_rounded (prof : Profile) (tm : Mode) (x y : Dec) (n : Nat) (hx : fitsI128 x.coeff = true)
    (hp : x.nfrac ≤ 38) :
    Gen.K.decimal_div_rounded prof tm x y n = divRounded prof tm x y n := Kernels.decimal_div_rounded_eq prof tm x y n hx hp

/-- the integer forms of `/` and `checked_div` (both operand orders), as translated on this run -/
theorem kernel_decimal_div_int (prof : Profile) (tm : Mode) (d : Dec) (i : Int) (hd : fitsI128 d.coeff = true) (hp : d.nfrac ≤ 38) :
    Gen.K.decimal_div_int prof tm d i = opOfChecked (i = 0) (divDecInt prof tm d i) :=
  Kernels.decimal_div_int_eq prof tm d i hd hp
theorem kernel_decimal_checked_div_int (prof : Profile) (tm : Mode) (d : Dec) (i : Int) (hd : fitsI128 d.coeff = true)
    (hp : d.nfrac ≤ 38) :
    Gen.K.decimal_checked_div_int prof tm d i = checkedOfChecked (i = 0) (divDecInt prof tm d i) :=
  Kernels.decimal_checked_div_int_eq prof tm d i hd hp
theorem kernel_int_div_decimal (prof : Profile) (tm : Mode) (i : Int) (d : Dec) (hi : fitsI128 i = true) :
    Gen.K.int_div_decimal prof tm i d = opOfChecked (eqZero d) (divIntDec prof tm i d) :=
  Kernels.int_div_decimal_eq prof tm i d hi
theorem kernel_int_checked_div_decimal (prof : Profile) (tm : Mode) (i : Int) (d : Dec) (hi : fitsI128 i = true) :
    Gen.K.int_checked_div_decimal prof tm i d = checkedOfChecked (eqZero d) (divIntDec prof tm i d) :=
  Kernels.int_checked_div_decimal_eq prof tm i d hi

/-- the integer forms of `div_rounded` (Decimal/int, int/Decimal, int/int), as translated on this run; the int/int body has no
    `n_frac_digits` guard — the open finding D8 is visible in the translation itself -/
theorem kernel_decimal_div_rounded_int (prof : Profile) (tm : Mode) (d : Dec) (i : Int) (n : Nat) (hd : fitsI128 d.coeff = true)
    (hp : d.nfrac ≤ 38) :
    Gen.K.decimal_div_rounded_int prof tm d i n = divRoundedDecInt prof tm d i n :=
  Kernels.decimal_div_rounded_int_eq prof tm d i n hd hp
theorem kernel_int_div_rounded_decimal (prof : Profile) (tm : Mode) (i : Int) (d : Dec) (n : Nat) (hi : fitsI128 i = true) :
    Gen.K.int_div_rounded_decimal prof tm i d n = divRoundedIntDec prof tm i d n :=
  Kernels.int_div_rounded_decimal_eq prof tm i d n hi
theorem kernel_int_div_rounded_int (prof : Profile) (tm : Mode) (i j : Int) (n : Nat) (hi : fitsI128 i = true) :
    Gen.K.int_div_rounded_int prof tm i j n = divRoundedIntInt prof tm i j n :=
  Kernels.int_div_rounded_int_eq prof tm i j n hi

/-- the generic `Quantize::quantize` (`self.div_rounded(quant, 0) * quant`), instantiated for the four operand shapes -/
theorem kernel_quantize_dec_dec (prof : Profile) (tm : Mode) (x q : Dec) (hx : fitsI128 x.coeff = true) (hp : x.nfrac ≤ 38) :
    Gen.K.quantize_dec_dec prof tm x q = quantize prof tm x q := Kernels.quantize_dec_dec_eq prof tm x q hx hp
theorem kernel_quantize_dec_int (prof : Profile) (tm : Mode) (x : Dec) (i : Int) (hx : fitsI128 x.coeff = true) (hp : x.nfrac ≤ 38) :
    Gen.K.quantize_dec_int prof tm x i = quantizeDecInt prof tm x i := Kernels.quantize_dec_int_eq prof tm x i hx hp
theorem kernel_quantize_int_dec (prof : Profile) (tm : Mode) (i : Int) (q : Dec) (hi : fitsI128 i = true) :
    Gen.K.quantize_int_dec prof tm i q = quantizeIntDec prof tm i q := Kernels.quantize_int_dec_eq prof tm i q hi
theorem kernel_quantize_int_int (prof : Profile) (tm : Mode) (i j : Int) (hi : fitsI128 i = true) :
    Gen.K.quantize_int_int prof tm i j = quantizeIntInt prof tm i j := Kernels.quantize_int_int_eq prof tm i j hi

/-! ### algebraic laws: `div_rounded` by one, `quantize` -/

/-- every representation of one is a Decimal of the domain -/
theorem dom_of_one (y : Dec) (hq : y.nfrac ≤ 18) (hy : y.coeff = (10 : Int) ^ y.nfrac) : Dom y := by
  have h1 := pow10_pos y.nfrac
  have h2 := C02.pow10_le_max' (k := y.nfrac) (by omega)
  refine ⟨?_, ?_, hq⟩ <;> rw [hy] <;> unfold I128_MIN at * <;> omega

/-- the expectation for `x.div_rounded(one, n)` with `n ≥ p`: `x` re-expressed with `n` fractional digits -/
private theorem spec_div_rounded_one (tm : Mode) (a : Int) (p : Nat) (b : Int) (q n : Nat) (hb : b = (10 : Int) ^ q)
    (ha0 : a ≠ 0) (hn : p ≤ n) (hn18 : n ≤ 18) :
    Spec.divRounded tm a p b q n = Spec.valFit (a * (10 : Int) ^ (n - p)) n := by
  have hb0 : b ≠ 0 := by rw [hb]; exact Int.ne_of_gt (pow10_pos q)
  have hd : b * (10 : Int) ^ p ≠ 0 := Int.mul_ne_zero hb0 (Int.ne_of_gt (pow10_pos p))
  have e : a * (10 : Int) ^ (n + q) = a * (10 : Int) ^ (n - p) * (b * (10 : Int) ^ p) := by
    have : n + q = (n - p) + (q + p) := by omega
    rw [hb, this, Int.pow_add, Int.pow_add]; ring
  unfold Spec.divRounded
  simp only [show ¬ n > 18 by omega, hb0, ha0, if_false]
  rw [e, specRoundQ_exact_mul tm _ _ hd]

/-- `x.div_rounded(1, n)` with `n ≥ p` (every representation of one as divisor, every mode and profile): `x` re-expressed with
    `n` fractional digits — the same value — whenever that coefficient fits an i128 … -/
theorem div_rounded_one (hw : WideDiv) (prof : Profile) (tm : Mode) (x y : Dec) (n : Nat) (hx : Dom x) (hq : y.nfrac ≤ 18)
    (hy : y.coeff = (10 : Int) ^ y.nfrac) (h0 : x.coeff ≠ 0) (hn : x.nfrac ≤ n) (hn18 : n ≤ 18)
    (hf : fitsI128 (x.coeff * (10 : Int) ^ (n - x.nfrac)) = true) :
    divRounded prof tm x y n = .ok ⟨x.coeff * (10 : Int) ^ (n - x.nfrac), n⟩ := by
  have hs := div_rounded_spec hw prof tm x y n hx (dom_of_one y hq hy)
  rw [spec_div_rounded_one tm _ _ _ _ n hy h0 hn hn18] at hs
  have hm : x.coeff * (10 : Int) ^ (n - x.nfrac) ≠ I128_MIN := by
    by_cases hnp : n - x.nfrac = 0
    · rw [hnp, Int.pow_zero, Int.mul_one]; exact Int.ne_of_gt hx.1
    · exact mul_pow10_ne_min _ _ (by omega)
  rw [valFit_of_fits n hm hf] at hs
  exact ok_of_allowed_val hs

/-- … and an overflow signal (never a wrong value) when it does not -/
theorem div_rounded_one_overflow (hw : WideDiv) (prof : Profile) (tm : Mode) (x y : Dec) (n : Nat) (hx : Dom x) (hq : y.nfrac ≤ 18)
    (hy : y.coeff = (10 : Int) ^ y.nfrac) (h0 : x.coeff ≠ 0) (hn : x.nfrac ≤ n) (hn18 : n ≤ 18)
    (hf : fitsI128 (x.coeff * (10 : Int) ^ (n - x.nfrac)) = false) :
    ∃ k, divRounded prof tm x y n = .panic k ∧ Spec.isOvfPanic k = true := by
  have hs := div_rounded_spec hw prof tm x y n hx (dom_of_one y hq hy)
  rw [spec_div_rounded_one tm _ _ _ _ n hy h0 hn hn18, valFit_of_unfit n hf] at hs
  cases hr : divRounded prof tm x y n with
  | ok d => rw [hr] at hs; simp [Spec.allowedOp] at hs
  | panic k => rw [hr] at hs; exact ⟨k, rfl, by simpa [Spec.allowedOp] using hs⟩

/-- in particular any result of `x.div_rounded(Decimal::ONE, n)`, `n ≥ p`, has the value of `x` (a zero `x` gives `Decimal::ZERO`) -/
theorem div_rounded_ONE_value (hw : WideDiv) (prof : Profile) (tm : Mode) (x r : Dec) (n : Nat) (hx : Dom x)
    (hn : x.nfrac ≤ n) (hn18 : n ≤ 18) (h : divRounded prof tm x Dec.ONE n = .ok r) :
    r.coeff * (10 : Int) ^ x.nfrac = x.coeff * (10 : Int) ^ r.nfrac ∧ (x.coeff ≠ 0 → r.nfrac = n) := by
  by_cases h0 : x.coeff = 0
  · have : divRounded prof tm x Dec.ONE n = .ok Dec.ZERO := by
      unfold divRounded
      simp [eqZero, h0, max_nfrac, show ¬ n > 18 by omega, Dec.ONE]
    rw [this] at h
    cases h
    simp [Dec.ZERO, h0]
  · cases hf : fitsI128 (x.coeff * (10 : Int) ^ (n - x.nfrac))
    · obtain ⟨k, hk, -⟩ := div_rounded_one_overflow hw prof tm x Dec.ONE n hx (by decide) (by decide) h0 hn hn18 hf
      rw [hk] at h; cases h
    · rw [div_rounded_one hw prof tm x Dec.ONE n hx (by decide) (by decide) h0 hn hn18 hf] at h
      cases h
      refine ⟨?_, fun _ => rfl⟩
      simp only
      rw [Int.mul_assoc, ← Int.pow_add]
      congr 2
      omega

example : divRounded Profile.dev .heven ⟨-25, 1⟩ Dec.ONE 3 = .ok ⟨-2500, 3⟩ ∧ divRounded Profile.dev .up ⟨-25, 1⟩ ⟨100, 2⟩ 1 = .ok ⟨-25, 1⟩ ∧
    divRounded Profile.release .floor ⟨0, 5⟩ Dec.ONE 7 = .ok ⟨0, 0⟩ ∧
    divRounded Profile.release .floor Dec.MAX Dec.ONE 1 = .panic .overflow := by decide

/-- the integer `k` of `x.quantize(q) = k·q`: the exact quotient `x / q` rounded to an integer under the mode -/
def quantQuot (tm : Mode) (x q : Dec) : Int :=
  Spec.specRoundQ tm (x.coeff * (10 : Int) ^ q.nfrac) (q.coeff * (10 : Int) ^ x.nfrac)

/-- `quantize` is its two steps -/
theorem quantize_steps (prof : Profile) (tm : Mode) (x q r : Dec) (h : quantize prof tm x q = .ok r) :
    ∃ r1, divRounded prof tm x q 0 = .ok r1 ∧ mul prof tm r1 q = .ok r := by
  unfold quantize at h
  cases h1 : divRounded prof tm x q 0 with
  | panic k => rw [h1] at h; cases h
  | ok r1 => rw [h1] at h; exact ⟨r1, rfl, h⟩

/-- the first step returns the integer `quantQuot` (with no fractional digits); the quantum is not zero -/
theorem quantize_quot (hwd : WideDiv) (prof : Profile) (tm : Mode) (x q r1 : Dec) (hx : Dom x) (hq : Dom q)
    (h : divRounded prof tm x q 0 = .ok r1) :
    q.coeff ≠ 0 ∧ r1 = ⟨quantQuot tm x q, 0⟩ ∧ fitsI128 (quantQuot tm x q) = true := by
  have hs := div_rounded_spec hwd prof tm x q 0 hx hq
  rw [h] at hs
  unfold Spec.divRounded at hs
  simp only [show ¬ 0 > 18 by omega, if_false, Nat.zero_add, outPair_ok] at hs
  by_cases hb0 : q.coeff = 0
  · simp [hb0, Spec.allowedOp] at hs
  · simp only [hb0, if_false] at hs
    refine ⟨hb0, ?_⟩
    have hd : q.coeff * (10 : Int) ^ x.nfrac ≠ 0 := Int.mul_ne_zero hb0 (Int.ne_of_gt (pow10_pos _))
    by_cases ha0 : x.coeff = 0
    · have hk : quantQuot tm x q = 0 := by
        have := specRoundQ_exact_mul tm 0 _ hd
        unfold quantQuot
        rw [ha0]
        simpa using this
      simp only [ha0, if_true] at hs
      obtain ⟨c, n⟩ := r1
      simp [Spec.allowedOp] at hs
      rw [hk, hs.1, hs.2]
      exact ⟨rfl, by decide⟩
    · simp only [ha0, if_false] at hs
      obtain ⟨c, n⟩ := r1
      obtain ⟨e1, e2, hf⟩ := of_valFit_ok hs
      unfold quantQuot
      simp only at e1 e2
      exact ⟨by rw [e1, e2], hf⟩

/-- `x.quantize(q)` is an integer multiple of `q`, and which one: as values `r = k·q` with `k = quantQuot` — over the integers,
    `r.coeff · 10^(q.nfrac) = k · q.coeff · 10^(r.nfrac)` (every mode and profile) -/
theorem quantize_multiple (hwd : WideDiv) (prof : Profile) (tm : Mode) (x q r : Dec) (hx : Dom x) (hq : Dom q)
    (h : quantize prof tm x q = .ok r) :
    r.coeff * (10 : Int) ^ q.nfrac = quantQuot tm x q * q.coeff * (10 : Int) ^ r.nfrac := by
  obtain ⟨r1, h1, h2⟩ := quantize_steps prof tm x q r h
  obtain ⟨-, e1, -⟩ := quantize_quot hwd prof tm x q r1 hx hq h1
  subst e1
  have := C02.mul_exact_value prof tm ⟨quantQuot tm x q, 0⟩ q r (by simp) hq.2.2 (by have := hq.2.2; simp; omega) h2
  simpa using this

/-- the rounded quotient of a coefficient of the domain by a positive divisor is not `i128::MIN` -/
private theorem specRound_gt_min (tm : Mode) (a d : Int) (ha : I128_MIN < a) (hd : 0 < d) : I128_MIN < Spec.specRound tm a d := by
  have h := (specRound_range tm a d hd).1
  have : I128_MIN < a / d := by
    by_cases h0 : 0 ≤ a
    · have := Int.ediv_nonneg h0 (Int.le_of_lt hd); unfold I128_MIN; omega
    · have := ediv_ge_of_neg (x := a) (by omega) hd; omega
  omega

/-- for a quantum `10^j / 10^qn` the quotient is never `i128::MIN` -/
private theorem quot_ne_min (tm : Mode) (a : Int) (p qn j : Nat) (ha : I128_MIN < a) :
    Spec.specRoundQ tm (a * (10 : Int) ^ qn) ((10 : Int) ^ j * (10 : Int) ^ p) ≠ I128_MIN := by
  have hd : (10 : Int) ^ j * (10 : Int) ^ p ≠ 0 := Int.ne_of_gt (Int.mul_pos (pow10_pos _) (pow10_pos _))
  by_cases hc : j + p ≤ qn
  · have e : a * (10 : Int) ^ qn = a * (10 : Int) ^ (qn - (j + p)) * ((10 : Int) ^ j * (10 : Int) ^ p) := by
      have : qn = (qn - (j + p)) + (j + p) := by omega
      rw [← Int.pow_add, Int.mul_assoc, ← Int.pow_add, ← this]
    rw [e, specRoundQ_exact_mul tm _ _ hd]
    by_cases h0 : qn - (j + p) = 0
    · rw [h0, Int.pow_zero, Int.mul_one]; exact Int.ne_of_gt ha
    · exact mul_pow10_ne_min _ _ (by omega)
  · have e : (10 : Int) ^ j * (10 : Int) ^ p = (10 : Int) ^ (j + p - qn) * (10 : Int) ^ qn := by
      rw [← Int.pow_add, ← Int.pow_add]; congr 1; omega
    rw [e, specRoundQ_scale tm a _ _ (Int.ne_of_gt (pow10_pos _)) (pow10_pos _), specRoundQ_pos tm a _ (pow10_pos _)]
    exact Int.ne_of_gt (specRound_gt_min tm a _ ha (pow10_pos _))

/-- dividing an exact multiple `k·q` (any i128 coefficient, `i128::MIN` included) by `q` to zero digits gives `k` back -/
private theorem divRounded_exact (hw : WideDiv) (prof : Profile) (tm : Mode) (r q : Dec) (k : Int)
    (hr : I128_MIN ≤ r.coeff ∧ r.coeff ≤ I128_MAX) (hrn : r.nfrac ≤ 18) (hq : Dom q) (hb0 : q.coeff ≠ 0)
    (hk : I128_MIN < k ∧ k ≤ I128_MAX) (he : r.coeff * (10 : Int) ^ q.nfrac = k * q.coeff * (10 : Int) ^ r.nfrac)
    (hc : ¬ (r.coeff = I128_MIN ∧ q.coeff = -1 ∧ q.nfrac < r.nfrac)) :
    divRounded prof tm r q 0 = .ok ⟨k, 0⟩ := by
  obtain ⟨c, rn⟩ := r
  obtain ⟨b, qn⟩ := q
  simp only at hr hrn hb0 he hc
  unfold divRounded
  simp only [max_nfrac, eqZero, show ¬ 0 > 18 by omega, if_false, hb0, decide_false, Bool.false_eq_true]
  by_cases hc0 : c = 0
  · have : k = 0 := by
      rw [hc0, Int.zero_mul] at he
      have h10 := pow10_pos rn
      rcases Int.mul_eq_zero.mp he.symm with h | h
      · rcases Int.mul_eq_zero.mp h with h | h
        · exact h
        · exact absurd h hb0
      · omega
    simp [hc0, this, Dec.ZERO]
  · simp only [hc0, decide_false, Bool.false_eq_true, if_false]
    have hbody := div_rounded_body_full hw prof tm c rn b qn 0 hr ⟨Int.le_of_lt hq.1, hq.2.1⟩ hb0 hrn hq.2.2 (by omega)
      (fun h => hc ⟨h.1, h.2.1, by omega⟩)
    have hd : b * (10 : Int) ^ rn ≠ 0 := Int.mul_ne_zero hb0 (Int.ne_of_gt (pow10_pos _))
    have e : c * (10 : Int) ^ (0 + qn) = k * (b * (10 : Int) ^ rn) := by
      rw [Nat.zero_add, he, Int.mul_assoc]
    unfold specDivCore at hbody
    rw [e, specRoundQ_exact_mul tm _ _ hd,
      valFit_of_fits 0 (Int.ne_of_gt hk.1) (by rw [fitsI128_iff]; omega)] at hbody
    exact ok_of_allowed_val hbody

/-- `quantize` is idempotent, value AND representation: a result of `x.quantize(q)` is returned unchanged by `.quantize(q)`
    (every mode and profile; the result may have the coefficient `i128::MIN`, see the example — the law holds there too) -/
theorem quantize_idempotent (hwd : WideDiv) (prof : Profile) (tm : Mode) (x q r : Dec) (hx : Dom x) (hq : Dom q)
    (h : quantize prof tm x q = .ok r) : quantize prof tm r q = .ok r := by
  obtain ⟨r1, h1, h2⟩ := quantize_steps prof tm x q r h
  obtain ⟨hb0, e1, hkf⟩ := quantize_quot hwd prof tm x q r1 hx hq h1
  subst e1
  have hmult := quantize_multiple hwd prof tm x q r hx hq h
  have hq18 := hq.2.2
  have hcases := C02.mul_exact_cases prof tm ⟨quantQuot tm x q, 0⟩ q r (by simp) hq18 (by simp; omega) h2
  simp only at hcases
  have hkr := (fitsI128_iff _).mp hkf
  -- the facts `divRounded_exact` needs, case by case
  have key : (I128_MIN ≤ r.coeff ∧ r.coeff ≤ I128_MAX) ∧ r.nfrac ≤ 18 ∧ quantQuot tm x q ≠ I128_MIN ∧
      ¬ (r.coeff = I128_MIN ∧ q.coeff = -1 ∧ q.nfrac < r.nfrac) := by
    rcases hcases with ⟨rfl, h0⟩ | ⟨rfl, hone⟩ | ⟨rfl, hk1⟩ | ⟨rfl, hf⟩
    · have hk0 : quantQuot tm x q = 0 := h0.resolve_right hb0
      refine ⟨by decide, by decide, ?_, fun hh => absurd hh.1 (by decide)⟩
      rw [hk0]; decide
    · have hne : quantQuot tm x q ≠ I128_MIN := by
        unfold quantQuot; rw [hone]
        exact quot_ne_min tm x.coeff x.nfrac q.nfrac q.nfrac hx.1
      refine ⟨hkr, by simp, hne, ?_⟩
      intro hh
      have := pow10_pos q.nfrac
      omega
    · refine ⟨⟨Int.le_of_lt hq.1, hq.2.1⟩, hq18, by rw [hk1]; decide, ?_⟩
      intro hh; have := hq.1; omega
    · have hfr := (fitsI128_iff _).mp hf
      refine ⟨hfr, by simp; omega, ?_, by simp⟩
      intro hmin
      -- `i128::MIN · b` fits only for `b = 1` (`b ≠ 0`)
      have hb1 : q.coeff = 1 := by
        rw [hmin] at hfr
        unfold I128_MIN I128_MAX at hfr
        omega
      have := quot_ne_min tm x.coeff x.nfrac q.nfrac 0 hx.1
      unfold quantQuot at hmin
      rw [hb1] at hmin
      rw [Int.pow_zero] at this
      exact this hmin
  obtain ⟨hr, hrn, hkne, hc⟩ := key
  have h3 := divRounded_exact hwd prof tm r q (quantQuot tm x q) hr hrn hq hb0 ⟨by omega, hkr.2⟩ hmult hc
  unfold quantize
  rw [h3]
  exact h2

/-- the same as an equality of outcomes: quantizing twice is quantizing once -/
theorem quantize_quantize (hwd : WideDiv) (prof : Profile) (tm : Mode) (x q : Dec) (hx : Dom x) (hq : Dom q) :
    (quantize prof tm x q >>= fun r => quantize prof tm r q) = quantize prof tm x q := by
  cases h : quantize prof tm x q with
  | panic k => rfl
  | ok r => exact quantize_idempotent hwd prof tm x q r hx hq h

example : quantize Profile.dev .heven ⟨-1234, 2⟩ ⟨25, 2⟩ = .ok ⟨-1225, 2⟩ ∧ quantize Profile.dev .heven ⟨-1225, 2⟩ ⟨25, 2⟩ = .ok ⟨-1225, 2⟩ ∧
    quantQuot .heven ⟨-1234, 2⟩ ⟨25, 2⟩ = -49 ∧ (-1225 : Int) * 10 ^ 2 = -49 * 25 * 10 ^ 2 ∧
    quantize Profile.release .up ⟨1234, 3⟩ ⟨100, 2⟩ = .ok ⟨2, 0⟩ ∧ quantize Profile.release .up ⟨2, 0⟩ ⟨100, 2⟩ = .ok ⟨2, 0⟩ ∧
    quantize Profile.dev .floor ⟨15, 1⟩ ⟨-7, 1⟩ = .ok ⟨21, 1⟩ ∧ quantize Profile.dev .floor ⟨21, 1⟩ ⟨-7, 1⟩ = .ok ⟨21, 1⟩ := by decide
-- a result outside the Decimal domain: the coefficient `i128::MIN` — idempotence still holds
example : quantize Profile.dev .floor ⟨I128_MIN + 1, 0⟩ ⟨2, 0⟩ = .ok ⟨I128_MIN, 0⟩ ∧
    quantize Profile.dev .floor ⟨I128_MIN, 0⟩ ⟨2, 0⟩ = .ok ⟨I128_MIN, 0⟩ := by decide

end Fpdec.Props.C04
