import Fpdec.Lemmas.Dom
import Fpdec.Props.C04_Sites

/-! # C04 — property theorems (under construction: see DESIGN.md section 6) -/

namespace Fpdec.Props.C04
open Fpdec Fpdec.Model

end Fpdec.Props.C04
