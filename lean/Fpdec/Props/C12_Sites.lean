import Fpdec.Gen.Sites
import Fpdec.Model.Pinned

/-! Site ties for C12: the flavour skeleton of each anchor file, as regenerated from /repo on this run,
equals the skeleton the model was written against. -/

namespace Fpdec.Props.C12

theorem tie_sites_src_into_float : Gen.sites_src_into_float = Pinned.sites_src_into_float := by decide +kernel

end Fpdec.Props.C12
