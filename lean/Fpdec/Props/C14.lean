import Fpdec.Kernels.Consts
import Fpdec.Kernels.IntConv
import Fpdec.Lemmas.Unary
import Fpdec.Lemmas.Cmp
import Fpdec.Props.C14_Sites

/-!
# C14 — Integer conversions are exact and total with precise error kinds

* `from_int_spec`, `try_from_u128_spec`: `Decimal::from(i)` is `(i, 0)`; `try_from(u128)` fails with `InternalOverflow` exactly
  above `i128::MAX`.
* `into_int_spec`: `T::try_from(d)` for the ten primitive integer types returns `Ok v` exactly when the value of `d` is the integer
  `v ∈ T` (also when written with trailing fractional zeros), `NotAnIntValue` exactly when the value is not integral — whatever its
  range — and `ValueOutOfRange` otherwise; `spec_meaning` says what the spec means without reference to the code.
No function here takes a build-profile argument.
-/

namespace Fpdec.Props.C14
open Fpdec Fpdec.Model

theorem from_int_spec (i : Int) : fromInt i = ⟨i, 0⟩ := rfl

theorem try_from_u128_spec (i : Nat) :
    tryFromU128 i = if (i : Int) ≤ I128_MAX then some ⟨i, 0⟩ else none := tryFromU128_spec i

theorem into_int_spec (t : IntTy) (ht : IsTargetTy t) (d : Dec) (hd : Dom d) :
    intoInt t d = .ok (match Spec.intoInt t d.coeff d.nfrac with
      | .ok v => .ok v
      | .error false => .error .notAnInt
      | .error true => .error .outOfRange) := intoInt_spec t ht d hd

theorem spec_meaning (t : IntTy) (a : Int) (p : Nat) :
    (∀ v, Spec.intoInt t a p = .ok v ↔ (a = v * (10 : Int) ^ p ∧ t.fits v = true)) ∧
    (Spec.intoInt t a p = .error false ↔ ¬ ∃ v : Int, a = v * (10 : Int) ^ p) := spec_intoInt_meaning t a p

/-! ### non-vacuity -/
example : intoInt IntTy.i128 ⟨100, 2⟩ = .ok (.ok 1) ∧ intoInt IntTy.u8 ⟨25600, 2⟩ = .ok (.error .outOfRange) := by decide
example : intoInt IntTy.u128 ⟨-15, 1⟩ = .ok (.error .notAnInt) ∧ intoInt IntTy.u128 ⟨-10, 1⟩ = .ok (.error .outOfRange) := by
  decide

/-! ### translated kernels
The Lean definitions `Gen.K.*` are regenerated from the Rust source on every run by `tools/fpkernels.py` (expression-level
translation).  These theorems tie them to the hand-written model the property theorems above are about: a change of the Rust
kernel that changes its translation breaks them. -/
/-- the integer conversions of into_int.rs and from_int.rs (macro bodies instantiated at `i64`), as translated on this run -/
theorem kernel_i128_try_from_decimal (prof : Profile) (d : Dec) :
    Gen.K.i128_try_from_decimal prof d = Kernels.intoResult <$> intoI128 d := Kernels.i128_try_from_decimal_eq prof d
theorem kernel_int_try_from_decimal (prof : Profile) (d : Dec) :
    Gen.K.i64_try_from_decimal prof d = Kernels.intoResult <$> intoInt IntTy.i64 d := Kernels.i64_try_from_decimal_eq prof d
theorem kernel_decimal_from_int (prof : Profile) (i : Int) : Gen.K.decimal_from_int prof i = .ok (fromInt i) :=
  Kernels.decimal_from_int_eq prof i
theorem kernel_decimal_try_from_u128 (prof : Profile) (i : Nat) :
    Gen.K.decimal_try_from_u128 prof i =
      .ok (match tryFromU128 i with | some d => .ok d | none => .error .internalOverflow) :=
  Kernels.decimal_try_from_u128_eq prof i

/-- the associated constants of `Decimal` as extracted from src/lib.rs on this run are the model's (`ZERO`/`ONE` are what the
    translated kernels return for `Self::ZERO` / `Self::ONE`; `MIN ..= MAX` with at most `DELTA`'s digits is the domain `Dom`) -/
theorem decimal_consts :
    Gen.DECIMAL_CONSTS =
      [("ZERO", Dec.ZERO.coeff, Dec.ZERO.nfrac), ("ONE", Dec.ONE.coeff, Dec.ONE.nfrac),
       ("NEG_ONE", Dec.NEG_ONE.coeff, Dec.NEG_ONE.nfrac), ("TWO", Dec.TWO.coeff, Dec.TWO.nfrac),
       ("TEN", Dec.TEN.coeff, Dec.TEN.nfrac), ("MAX", Dec.MAX.coeff, Dec.MAX.nfrac), ("MIN", Dec.MIN.coeff, Dec.MIN.nfrac),
       ("DELTA", Dec.DELTA.coeff, Dec.DELTA.nfrac)] := Kernels.decimal_consts_tie
theorem dom_is_min_max (d : Dec) :
    (Dec.MIN.coeff ≤ d.coeff ∧ d.coeff ≤ Dec.MAX.coeff ∧ d.nfrac ≤ Dec.DELTA.nfrac) ↔ Dom d := Kernels.dom_is_min_max d

/-! ### algebraic laws
Model-level corollaries about the model functions themselves. -/

/-- integer round trip: `T::try_from(Decimal::from(i)) = Ok(i)` for every integer `i` of the type `T` — any integer type
    descriptor, in particular the nine types with `From<T> for Decimal` (u8 … u64, i8 … i128) -/
theorem int_round_trip (t : IntTy) (i : Int) (hi : t.fits i = true) : intoInt t (fromInt i) = .ok (.ok i) := by
  unfold intoInt intoI128 fromInt
  simp [hi]

/-- … and a value that is not in the target type is rejected with `ValueOutOfRange` (conversion to a narrower type) -/
theorem int_round_trip_out_of_range (t : IntTy) (i : Int) (hi : t.fits i = false) :
    intoInt t (fromInt i) = .ok (.error .outOfRange) := by
  unfold intoInt intoI128 fromInt
  simp [hi]

/-- `u128` (fallible in both directions): `u128::try_from(Decimal::try_from(i)?) = Ok(i)`; the first step fails exactly above
    `i128::MAX` -/
theorem u128_round_trip (i : Nat) (hi : (i : Int) < 340282366920938463463374607431768211456) :
    (tryFromU128 i).map (intoInt IntTy.u128) = if (i : Int) ≤ I128_MAX then some (.ok (.ok (i : Int))) else none := by
  have hf : IntTy.u128.fits (i : Int) = true := by
    have e : (2 : Int) ^ 128 = 340282366920938463463374607431768211456 := by decide
    simp only [IntTy.fits, IntTy.min, IntTy.max, IntTy.u128, Bool.false_eq_true, if_false, e]
    simp; omega
  unfold tryFromU128
  split
  · simp only [Option.map_some]
    exact congrArg some (int_round_trip IntTy.u128 i hf)
  · rfl

example : intoInt IntTy.i8 (fromInt (-128)) = .ok (.ok (-128)) ∧ intoInt IntTy.u64 (fromInt 18446744073709551615) = .ok (.ok 18446744073709551615) ∧
    intoInt IntTy.i128 (fromInt I128_MIN) = .ok (.ok I128_MIN) ∧ intoInt IntTy.u8 (fromInt 256) = .ok (.error .outOfRange) := by decide
example : (tryFromU128 12345678901234567890123).map (intoInt IntTy.u128) = some (.ok (.ok 12345678901234567890123)) ∧
    tryFromU128 (2 ^ 127) = none := by decide

/-- the specification of `T::try_from(d)` depends only on the value `a / 10^p` of the Decimal, not on its representation -/
theorem spec_into_int_of_equal_values (t : IntTy) (a : Int) (p : Nat) (b : Int) (q : Nat) (h : Spec.cmp a p b q = .eq) :
    Spec.intoInt t a p = Spec.intoInt t b q := by
  rw [spec_cmp_eq_iff] at h
  have hP : (0 : Int) < (10 : Int) ^ p := tenPow_pos p
  have hQ : (0 : Int) < (10 : Int) ^ q := tenPow_pos q
  unfold Spec.intoInt
  simp only
  generalize (10 : Int) ^ p = P at h hP
  generalize (10 : Int) ^ q = Q at h hQ
  have key : ∀ (a b P Q v : Int), 0 < P → a * Q = b * P → a = v * P → b = v * Q := by
    intro a b P Q v hP h hv
    subst hv
    have e : v * Q * P = b * P := by rw [← h]; ring
    exact (Int.eq_of_mul_eq_mul_right (Int.ne_of_gt hP) e).symm
  by_cases hr : a % P = 0
  · have hv : a = a / P * P := (Int.ediv_mul_cancel_of_emod_eq_zero hr).symm
    have hb : b = a / P * Q := key a b P Q _ hP h hv
    generalize a / P = v at hv hb
    subst hv hb
    simp [Int.mul_emod_left, Int.mul_ediv_cancel v (Int.ne_of_gt hQ)]
  · have hr' : b % Q ≠ 0 := by
      intro hb
      have hv : b = b / Q * Q := (Int.ediv_mul_cancel_of_emod_eq_zero hb).symm
      have ha : a = b / Q * P := key b a Q P _ hQ h.symm hv
      apply hr; rw [ha]; exact Int.mul_emod_left _ _
    simp [hr, hr']

/-- `T::try_from(d)` depends only on the value: two Decimals of the domain with the same value (any two representations, e.g.
    `(a, p)` and `(a·10^k, p+k)`) give the same result — the same integer or the same error kind — for every target type -/
theorem into_int_of_equal_values (t : IntTy) (ht : IsTargetTy t) (x y : Dec) (hx : Dom x) (hy : Dom y)
    (h : Spec.cmp x.coeff x.nfrac y.coeff y.nfrac = .eq) : intoInt t x = intoInt t y := by
  rw [into_int_spec t ht x hx, into_int_spec t ht y hy, spec_into_int_of_equal_values t _ _ _ _ h]

/-- … in particular trailing fractional zeros do not matter -/
theorem into_int_scaled (t : IntTy) (ht : IsTargetTy t) (a : Int) (p k : Nat) (hx : Dom ⟨a, p⟩)
    (hy : Dom ⟨a * (10 : Int) ^ k, p + k⟩) : intoInt t ⟨a * (10 : Int) ^ k, p + k⟩ = intoInt t ⟨a, p⟩ := by
  apply into_int_of_equal_values t ht _ _ hy hx
  rw [spec_cmp_eq_iff]
  show a * (10 : Int) ^ k * (10 : Int) ^ p = a * (10 : Int) ^ (p + k)
  rw [Int.pow_add]; ring

example : intoInt IntTy.i16 ⟨1200, 2⟩ = intoInt IntTy.i16 ⟨12, 0⟩ ∧ intoInt IntTy.u8 ⟨-3000, 3⟩ = intoInt IntTy.u8 ⟨-3, 0⟩ ∧
    intoInt IntTy.i64 ⟨150, 2⟩ = intoInt IntTy.i64 ⟨15, 1⟩ ∧ intoInt IntTy.i64 ⟨15, 1⟩ = .ok (.error .notAnInt) ∧
    Spec.cmp 1200 2 12 0 = .eq := by decide

end Fpdec.Props.C14
