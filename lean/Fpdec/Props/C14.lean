import Fpdec.Lemmas.Dom
import Fpdec.Props.C14_Sites

/-! # C14 — property theorems (under construction: see DESIGN.md section 6) -/

namespace Fpdec.Props.C14
open Fpdec Fpdec.Model

end Fpdec.Props.C14
