import Fpdec.Lemmas.Unary
import Fpdec.Props.C14_Sites

/-!
# C14 — Integer conversions are exact and total with precise error kinds

* `from_int_spec`, `try_from_u128_spec`: `Decimal::from(i)` is `(i, 0)`; `try_from(u128)` fails with `InternalOverflow` exactly
  above `i128::MAX`.
* `into_int_spec`: `T::try_from(d)` for the ten primitive integer types returns `Ok v` exactly when the value of `d` is the integer
  `v ∈ T` (also when written with trailing fractional zeros), `NotAnIntValue` exactly when the value is not integral — whatever its
  range — and `ValueOutOfRange` otherwise; `spec_meaning` says what the spec means without reference to the code.
No function here takes a build-profile argument.
-/

namespace Fpdec.Props.C14
open Fpdec Fpdec.Model

theorem from_int_spec (i : Int) : fromInt i = ⟨i, 0⟩ := rfl

theorem try_from_u128_spec (i : Nat) :
    tryFromU128 i = if (i : Int) ≤ I128_MAX then some ⟨i, 0⟩ else none := tryFromU128_spec i

theorem into_int_spec (t : IntTy) (ht : IsTargetTy t) (d : Dec) (hd : Dom d) :
    intoInt t d = .ok (match Spec.intoInt t d.coeff d.nfrac with
      | .ok v => .ok v
      | .error false => .error .notAnInt
      | .error true => .error .outOfRange) := intoInt_spec t ht d hd

theorem spec_meaning (t : IntTy) (a : Int) (p : Nat) :
    (∀ v, Spec.intoInt t a p = .ok v ↔ (a = v * (10 : Int) ^ p ∧ t.fits v = true)) ∧
    (Spec.intoInt t a p = .error false ↔ ¬ ∃ v : Int, a = v * (10 : Int) ^ p) := spec_intoInt_meaning t a p

/-! ### non-vacuity -/
example : intoInt IntTy.i128 ⟨100, 2⟩ = .ok (.ok 1) ∧ intoInt IntTy.u8 ⟨25600, 2⟩ = .ok (.error .outOfRange) := by decide
example : intoInt IntTy.u128 ⟨-15, 1⟩ = .ok (.error .notAnInt) ∧ intoInt IntTy.u128 ⟨-10, 1⟩ = .ok (.error .outOfRange) := by
  decide

end Fpdec.Props.C14
