import Fpdec.Kernels.Consts
import Fpdec.Kernels.AddSub
import Fpdec.Kernels.Pow
import Fpdec.Lemmas.Dom
import Fpdec.Props.C01_Sites

/-!
# C01 — Addition and subtraction are exact or signal overflow

`x ± y` carries `max p q` fractional digits and the exact aligned sum; the operators panic with the
overflow message and the checked variants return `None` exactly when an aligned operand or the sum leaves
the i128 range; nothing else ever panics.  The integer-operand bodies (written separately in the macro
`impl_add_sub_decimal_and_int`) compute the same function as the Decimal body on `Decimal::from(i)`.
All statements hold for every build profile: no profile argument occurs in these functions at all
(every arithmetic site is `checked_*`), which is C20 for `+ - += -=`.
-/

namespace Fpdec.Props.C01
open Fpdec Fpdec.Model

private theorem cmp_lt {p q : Nat} (h : p < q) : compare p q = .lt := Nat.compare_eq_lt.mpr h
private theorem cmp_gt {p q : Nat} (h : q < p) : compare p q = .gt := Nat.compare_eq_gt.mpr h

/-- `+` and `-` on two Decimals (all reference forms and `+=`/`-=` forward to this body) -/
theorem add_sub_spec (sub : Bool) (x y : Dec) (hx : Dom x) (hy : Dom y) :
    Spec.allowedOp (Spec.addSub sub x.coeff x.nfrac y.coeff y.nfrac) (outPair (addSub sub x y)) = true := by
  obtain ⟨a, p⟩ := x
  obtain ⟨b, q⟩ := y
  have hxf := hx.fits
  have hyf := hy.fits
  simp only [Dom] at hx hy
  simp only at hxf hyf
  unfold Spec.addSub addSub
  simp only [spec_fits_eq]
  rcases Nat.lt_trichotomy p q with h | h | h
  · have hm : max p q = q := by omega
    simp only [cmp_lt h, hm, Nat.sub_self, Int.pow_zero, Int.mul_one, mulPowTen_eq a (q - p) (by omega), hyf,
      Bool.and_true]
    cases h1 : fitsI128 (a * 10 ^ (q - p))
    · simp [checkedI128_none h1, Spec.allowedOp, Spec.isOvfPanic]
    · simp only [checkedI128_some h1, Outcome.ofOption_some, Outcome.bind_ok, coeffOrPanic, Bool.true_and]
      cases sub <;> simp only [if_true, if_false, Bool.false_eq_true] <;>
        (split <;> rename_i h2 <;>
          first
          | simp [checkedI128_some h2, Spec.allowedOp]
          | (have h3 := Bool.not_eq_true _ |>.mp h2; simp [checkedI128_none h3, Spec.allowedOp, Spec.isOvfPanic]))
  · subst h
    have hc : compare p p = .eq := by simp
    simp only [hc, Nat.max_self, Nat.sub_self, Int.pow_zero, Int.mul_one, hxf, hyf, Bool.true_and, coeffOrPanic]
    cases sub <;> simp only [if_true, if_false, Bool.false_eq_true] <;>
      (split <;> rename_i h2 <;>
        first
        | simp [checkedI128_some h2, Spec.allowedOp]
        | (have h3 := Bool.not_eq_true _ |>.mp h2; simp [checkedI128_none h3, Spec.allowedOp, Spec.isOvfPanic]))
  · have hm : max p q = p := by omega
    simp only [cmp_gt h, hm, Nat.sub_self, Int.pow_zero, Int.mul_one, mulPowTen_eq b (p - q) (by omega), hxf,
      Bool.true_and]
    cases h1 : fitsI128 (b * 10 ^ (p - q))
    · simp [checkedI128_none h1, Spec.allowedOp, Spec.isOvfPanic]
    · simp only [checkedI128_some h1, Outcome.ofOption_some, Outcome.bind_ok, coeffOrPanic, Bool.true_and]
      cases sub <;> simp only [if_true, if_false, Bool.false_eq_true] <;>
        (split <;> rename_i h2 <;>
          first
          | simp [checkedI128_some h2, Spec.allowedOp]
          | (have h3 := Bool.not_eq_true _ |>.mp h2; simp [checkedI128_none h3, Spec.allowedOp, Spec.isOvfPanic]))

/-- closing step shared by all shapes: the last checked operation decides between value and overflow -/
private theorem tail_op (s : Int) (m : Nat) :
    Spec.allowedOp (if fitsI128 s = true then Spec.Exp.val s m else Spec.Exp.ovf)
      (outPair (coeffOrPanic (checkedI128 s) >>= fun c => pure ⟨c, m⟩)) = true := by
  cases h : fitsI128 s
  · simp [checkedI128_none h, coeffOrPanic, Spec.allowedOp, Spec.isOvfPanic]
  · simp [checkedI128_some h, coeffOrPanic, Spec.allowedOp]

private theorem tail_checked (s : Int) (m : Nat) :
    Spec.allowedChecked (if fitsI128 s = true then Spec.Exp.val s m else Spec.Exp.ovf)
      (outOptPair (.ok (checkedI128 s >>= fun c => pure ⟨c, m⟩))) = true := by
  cases h : fitsI128 s
  · simp [checkedI128_none h, Spec.allowedChecked]
  · simp [checkedI128_some h, Spec.allowedChecked]

/-- `checked_add` / `checked_sub` on two Decimals: `Some(exact)` or `None`, never a panic -/
theorem checked_add_sub_spec (sub : Bool) (x y : Dec) (hx : Dom x) (hy : Dom y) :
    Spec.allowedChecked (Spec.addSub sub x.coeff x.nfrac y.coeff y.nfrac)
      (outOptPair (.ok (checkedAddSub sub x y))) = true := by
  obtain ⟨a, p⟩ := x
  obtain ⟨b, q⟩ := y
  have hxf := hx.fits
  have hyf := hy.fits
  simp only [Dom] at hx hy
  simp only at hxf hyf
  unfold Spec.addSub checkedAddSub
  simp only [spec_fits_eq]
  rcases Nat.lt_trichotomy p q with h | h | h
  · have hm : max p q = q := by omega
    simp only [cmp_lt h, hm, Nat.sub_self, Int.pow_zero, Int.mul_one, checkedMulPowTen_eq a (q - p) (by omega), hyf,
      Bool.and_true]
    cases h1 : fitsI128 (a * 10 ^ (q - p))
    · simp [checkedI128_none h1, Spec.allowedChecked]
    · simp only [checkedI128_some h1, Bool.true_and, Option.bind_eq_bind, Option.bind_some]
      cases sub <;> simp only [if_true, if_false, Bool.false_eq_true] <;> exact tail_checked _ _
  · subst h
    have hc : compare p p = .eq := by simp
    simp only [hc, Nat.max_self, Nat.sub_self, Int.pow_zero, Int.mul_one, hxf, hyf, Bool.true_and]
    cases sub <;> simp only [if_true, if_false, Bool.false_eq_true] <;> exact tail_checked _ _
  · have hm : max p q = p := by omega
    simp only [cmp_gt h, hm, Nat.sub_self, Int.pow_zero, Int.mul_one, checkedMulPowTen_eq b (p - q) (by omega), hxf,
      Bool.true_and]
    cases h1 : fitsI128 (b * 10 ^ (p - q))
    · simp [checkedI128_none h1, Spec.allowedChecked]
    · simp only [checkedI128_some h1, Bool.true_and, Option.bind_eq_bind, Option.bind_some]
      cases sub <;> simp only [if_true, if_false, Bool.false_eq_true] <;> exact tail_checked _ _

/-- the expectation for an integer operand: the same operation with `Decimal::from(i)` in that position -/
def specInt (sub intLeft : Bool) (d : Dec) (i : Int) : Spec.Exp :=
  if intLeft then Spec.addSub sub i 0 d.coeff d.nfrac else Spec.addSub sub d.coeff d.nfrac i 0

/-- `Decimal ± int` and `int ± Decimal` (9 integer types: every value of them is an `i128`) -/
theorem add_sub_int_spec (sub intLeft : Bool) (d : Dec) (i : Int) (hd : Dom d) (hi : fitsI128 i = true) :
    Spec.allowedOp (specInt sub intLeft d i) (outPair (addSubInt sub intLeft d i)) = true := by
  obtain ⟨a, p⟩ := d
  have hdf := hd.fits
  simp only [Dom] at hd
  simp only at hdf
  unfold specInt Spec.addSub addSubInt
  simp only [spec_fits_eq]
  by_cases hp : p = 0
  · subst hp
    simp only [Nat.max_self, Nat.sub_self, Int.pow_zero, Int.mul_one, hdf, hi, Bool.true_and, if_true]
    cases intLeft <;> cases sub <;> simp only [if_true, if_false, Bool.false_eq_true] <;> exact tail_op _ _
  · have hm1 : max 0 p = p := by omega
    have hm2 : max p 0 = p := by omega
    simp only [hp, if_false, hm1, hm2, Nat.sub_self, Nat.sub_zero, Int.pow_zero, Int.mul_one,
      mulPowTen_eq i p (by omega), hdf, Bool.true_and, Bool.and_true]
    cases h1 : fitsI128 (i * 10 ^ p)
    · cases intLeft <;> simp [checkedI128_none h1, Spec.allowedOp, Spec.isOvfPanic]
    · simp only [checkedI128_some h1, Outcome.ofOption_some, Outcome.bind_ok, Bool.true_and]
      cases intLeft <;> cases sub <;> simp only [if_true, if_false, Bool.false_eq_true] <;> exact tail_op _ _

/-- `checked_add` / `checked_sub` with an integer operand on either side -/
theorem checked_add_sub_int_spec (sub intLeft : Bool) (d : Dec) (i : Int) (hd : Dom d) (hi : fitsI128 i = true) :
    Spec.allowedChecked (specInt sub intLeft d i) (outOptPair (.ok (checkedAddSubInt sub intLeft d i))) = true := by
  obtain ⟨a, p⟩ := d
  have hdf := hd.fits
  simp only [Dom] at hd
  simp only at hdf
  unfold specInt Spec.addSub checkedAddSubInt
  simp only [spec_fits_eq]
  by_cases hp : p = 0
  · subst hp
    simp only [Nat.max_self, Nat.sub_self, Int.pow_zero, Int.mul_one, hdf, hi, Bool.true_and, if_true]
    cases intLeft <;> cases sub <;> simp only [if_true, if_false, Bool.false_eq_true] <;> exact tail_checked _ _
  · have hm1 : max 0 p = p := by omega
    have hm2 : max p 0 = p := by omega
    simp only [hp, if_false, hm1, hm2, Nat.sub_self, Nat.sub_zero, Int.pow_zero, Int.mul_one,
      checkedMulPowTen_eq i p (by omega), hdf, Bool.true_and, Bool.and_true]
    cases h1 : fitsI128 (i * 10 ^ p)
    · cases intLeft <;> simp [checkedI128_none h1, Spec.allowedChecked]
    · simp only [checkedI128_some h1, Bool.true_and, Option.bind_eq_bind, Option.bind_some]
      cases intLeft <;> cases sub <;> simp only [if_true, if_false, Bool.false_eq_true] <;> exact tail_checked _ _

/-- the result, when there is one, has exactly the value `x ± y` (stated without fractions:
    both sides scaled to `max p q` digits) and carries `max p q` fractional digits -/
theorem add_sub_value (sub : Bool) (x y r : Dec) (hx : Dom x) (hy : Dom y) (h : addSub sub x y = .ok r) :
    r.nfrac = max x.nfrac y.nfrac ∧
    r.coeff = (if sub then x.coeff * 10 ^ (r.nfrac - x.nfrac) - y.coeff * 10 ^ (r.nfrac - y.nfrac)
               else x.coeff * 10 ^ (r.nfrac - x.nfrac) + y.coeff * 10 ^ (r.nfrac - y.nfrac)) := by
  have hs := add_sub_spec sub x y hx hy
  rw [h] at hs
  have key : ∀ (c : Bool) (s : Int) (m : Nat),
      Spec.allowedOp (if c = true then Spec.Exp.val s m else Spec.Exp.ovf) (.ok (r.coeff, r.nfrac)) = true →
      r.coeff = s ∧ r.nfrac = m := by
    intro c s m hh
    cases c
    · simp [Spec.allowedOp] at hh
    · simpa [Spec.allowedOp] using hh
  unfold Spec.addSub at hs
  simp only [outPair_ok] at hs
  obtain ⟨h1, h2⟩ := key _ _ _ hs
  refine ⟨h2, ?_⟩
  rw [h1, h2]

/-! ### non-vacuity: the hypotheses are satisfiable and every branch of the spec is hit -/
example : Dom ⟨15, 1⟩ ∧ Dom ⟨25, 2⟩ ∧ addSub false ⟨15, 1⟩ ⟨25, 2⟩ = .ok ⟨175, 2⟩ := by decide
example : Dom Dec.MAX ∧ Dom Dec.ONE ∧ addSub false Dec.MAX Dec.ONE = .panic .overflow ∧
    checkedAddSub false Dec.MAX Dec.ONE = none := by decide
example : addSub true ⟨I128_MAX, 0⟩ ⟨1, 18⟩ = .panic .overflow := by decide
example : addSubInt true true ⟨I128_MAX, 0⟩ (-1) = .ok ⟨I128_MIN, 0⟩ := by decide

/-! ### translated kernels
The Lean definitions `Gen.K.*` are regenerated from the Rust source on every run by `tools/fpkernels.py` (expression-level
translation).  These theorems tie them to the hand-written model the property theorems above are about: a change of the Rust
kernel that changes its translation breaks them. -/
theorem kernel_ten_pow (prof : Profile) (n : Nat) : Gen.K.ten_pow prof n = tenPow n := Kernels.ten_pow_eq prof n
theorem kernel_mul_pow_ten (prof : Profile) (val : Int) (n : Nat) : Gen.K.mul_pow_ten prof val n = mulPowTen val n :=
  Kernels.mul_pow_ten_eq prof val n
theorem kernel_checked_mul_pow_ten (prof : Profile) (val : Int) (n : Nat) :
    Gen.K.checked_mul_pow_ten prof val n = .ok (checkedMulPowTen val n) := Kernels.checked_mul_pow_ten_eq prof val n
theorem kernel_checked_adjust_coeffs (prof : Profile) (x : Int) (p : Nat) (y : Int) (q : Nat) (hp : p < 256) (hq : q < 256) :
    Gen.K.checked_adjust_coeffs prof x p y q = .ok (checkedAdjustCoeffs x p y q) :=
  Kernels.checked_adjust_coeffs_eq prof x p y q hp hq

/-- `Decimal ± Decimal` (operator and checked bodies, instantiated from the `macro_rules!` definitions with the arguments of their
    invocations) and the integer forms `Decimal ± int`, `int ± Decimal`, as translated on this run -/
theorem kernel_add_sub (prof : Profile) (sub : Bool) (x y : Dec) (hp : x.nfrac < 256) (hq : y.nfrac < 256) :
    (if sub then Gen.K.decimal_sub prof x y else Gen.K.decimal_add prof x y) = addSub sub x y :=
  Kernels.add_sub_eq prof sub x y hp hq
theorem kernel_checked_add_sub (prof : Profile) (sub : Bool) (x y : Dec) (hp : x.nfrac < 256) (hq : y.nfrac < 256) :
    (if sub then Gen.K.decimal_checked_sub prof x y else Gen.K.decimal_checked_add prof x y) = .ok (checkedAddSub sub x y) :=
  Kernels.checked_add_sub_eq prof sub x y hp hq
theorem kernel_add_sub_dec_int (prof : Profile) (sub : Bool) (d : Dec) (i : Int) :
    (if sub then Gen.K.decimal_sub_int prof d i else Gen.K.decimal_add_int prof d i) = addSubInt sub false d i :=
  Kernels.add_sub_dec_int_eq prof sub d i
theorem kernel_add_sub_int_dec (prof : Profile) (sub : Bool) (d : Dec) (i : Int) :
    (if sub then Gen.K.int_sub_decimal prof i d else Gen.K.int_add_decimal prof i d) = addSubInt sub true d i :=
  Kernels.add_sub_int_dec_eq prof sub d i

/-- the integer forms of `checked_add` / `checked_sub` in both operand orders (macro bodies instantiated with `i64`) -/
theorem kernel_decimal_checked_add_int (prof : Profile) (d : Dec) (i : Int) :
    Gen.K.decimal_checked_add_int prof d i = .ok (checkedAddSubInt false false d i) := Kernels.decimal_checked_add_int_eq prof d i
theorem kernel_decimal_checked_sub_int (prof : Profile) (d : Dec) (i : Int) :
    Gen.K.decimal_checked_sub_int prof d i = .ok (checkedAddSubInt true false d i) := Kernels.decimal_checked_sub_int_eq prof d i
theorem kernel_int_checked_add_decimal (prof : Profile) (i : Int) (d : Dec) :
    Gen.K.int_checked_add_decimal prof i d = .ok (checkedAddSubInt false true d i) := Kernels.int_checked_add_decimal_eq prof i d
theorem kernel_int_checked_sub_decimal (prof : Profile) (i : Int) (d : Dec) :
    Gen.K.int_checked_sub_decimal prof i d = .ok (checkedAddSubInt true true d i) := Kernels.int_checked_sub_decimal_eq prof i d

/-- the associated constants of `Decimal` as extracted from src/lib.rs on this run are the model's (`ZERO`/`ONE` are what the
    translated kernels return for `Self::ZERO` / `Self::ONE`; `MIN ..= MAX` with at most `DELTA`'s digits is the domain `Dom`) -/
theorem decimal_consts :
    Gen.DECIMAL_CONSTS =
      [("ZERO", Dec.ZERO.coeff, Dec.ZERO.nfrac), ("ONE", Dec.ONE.coeff, Dec.ONE.nfrac),
       ("NEG_ONE", Dec.NEG_ONE.coeff, Dec.NEG_ONE.nfrac), ("TWO", Dec.TWO.coeff, Dec.TWO.nfrac),
       ("TEN", Dec.TEN.coeff, Dec.TEN.nfrac), ("MAX", Dec.MAX.coeff, Dec.MAX.nfrac), ("MIN", Dec.MIN.coeff, Dec.MIN.nfrac),
       ("DELTA", Dec.DELTA.coeff, Dec.DELTA.nfrac)] := Kernels.decimal_consts_tie
theorem dom_is_min_max (d : Dec) :
    (Dec.MIN.coeff ≤ d.coeff ∧ d.coeff ≤ Dec.MAX.coeff ∧ d.nfrac ≤ Dec.DELTA.nfrac) ↔ Dom d := Kernels.dom_is_min_max d

/-! ### algebraic laws
Model-level corollaries: equalities of `Outcome` values, so the two sides also panic together (and with the same panic kind). -/

/-- `x + y = y + x`, as outcomes (same value and representation, or the same panic); no domain restriction is needed -/
theorem add_commutes (x y : Dec) : addSub false x y = addSub false y x := by
  obtain ⟨a, p⟩ := x
  obtain ⟨b, q⟩ := y
  unfold addSub
  rcases Nat.lt_trichotomy p q with h | h | h
  · simp only [cmp_lt h, cmp_gt h, Bool.false_eq_true, if_false]
    cases mulPowTen a (q - p) with
    | panic k => rfl
    | ok c => simp only [Outcome.bind_ok, Int.add_comm]
  · subst h
    have hc : compare p p = .eq := by simp
    simp only [hc, Bool.false_eq_true, if_false, Int.add_comm]
  · simp only [cmp_lt h, cmp_gt h, Bool.false_eq_true, if_false]
    cases mulPowTen b (p - q) with
    | panic k => rfl
    | ok c => simp only [Outcome.bind_ok, Int.add_comm]

/-- `2^127` is not a multiple of ten: scaling by at least one digit never produces `±2^127`, so negating the scaled operand
    and scaling the negated operand overflow together -/
private theorem fits_neg_scaled (b : Int) (k : Nat) (hk : 0 < k) :
    fitsI128 (-(b * (10 : Int) ^ k)) = fitsI128 (b * (10 : Int) ^ k) := by
  obtain ⟨j, rfl⟩ : ∃ j, k = j + 1 := ⟨k - 1, by omega⟩
  have e : b * (10 : Int) ^ (j + 1) = 10 * (b * (10 : Int) ^ j) := by
    rw [Int.pow_succ, Int.mul_comm ((10 : Int) ^ j) 10, Int.mul_left_comm]
  rw [e]
  generalize b * (10 : Int) ^ j = m
  unfold fitsI128 I128_MIN I128_MAX
  by_cases h1 : 10 * m ≤ 170141183460469231731687303715884105727 <;>
    by_cases h2 : -170141183460469231731687303715884105728 ≤ 10 * m <;>
    simp [h1, h2] <;> omega

/-- `x - y = x + (-y)`, as outcomes (the negation of a `Dom` operand cannot overflow) -/
theorem sub_eq_add_neg (x y : Dec) (hx : Dom x) (hy : Dom y) :
    addSub true x y = addSub false x ⟨-y.coeff, y.nfrac⟩ := by
  obtain ⟨a, p⟩ := x
  obtain ⟨b, q⟩ := y
  simp only [Dom] at hx hy
  unfold addSub
  simp only [if_true, Bool.false_eq_true, if_false]
  rcases Nat.lt_trichotomy p q with h | h | h
  · simp only [cmp_lt h]
    cases mulPowTen a (q - p) with
    | panic k => rfl
    | ok c => simp only [Outcome.bind_ok, Int.sub_eq_add_neg]
  · subst h
    have hc : compare p p = .eq := by simp
    simp only [hc, Int.sub_eq_add_neg]
  · simp only [cmp_gt h]
    rw [mulPowTen_eq b (p - q) (by omega), mulPowTen_eq (-b) (p - q) (by omega), Int.neg_mul]
    have hf := fits_neg_scaled b (p - q) (by omega)
    cases h1 : fitsI128 (b * (10 : Int) ^ (p - q))
    · rw [h1] at hf
      simp [checkedI128_none h1, checkedI128_none hf]
    · rw [h1] at hf
      simp only [checkedI128_some h1, checkedI128_some hf, Outcome.ofOption_some, Outcome.bind_ok, Int.sub_eq_add_neg]

/-- adding a zero: the result is `x` re-expressed with `max` digits, or the overflow panic when that rescaling leaves the i128
    range (`q - p` is the truncated subtraction: no rescaling when the zero has no more digits than `x`) -/
theorem add_zero_general (x : Dec) (q : Nat) (hx : Dom x) (hq : q ≤ 18) :
    addSub false x ⟨0, q⟩ = (mulPowTen x.coeff (q - x.nfrac) >>= fun c => pure ⟨c, max x.nfrac q⟩) := by
  obtain ⟨a, p⟩ := x
  have hf := hx.fits
  simp only [Dom] at hx
  simp only at hf
  unfold addSub
  simp only [Bool.false_eq_true, if_false]
  rcases Nat.lt_trichotomy p q with h | h | h
  · have hm : max p q = q := by omega
    simp only [cmp_lt h, hm]
    rw [mulPowTen_eq a (q - p) (by omega)]
    cases h1 : fitsI128 (a * (10 : Int) ^ (q - p))
    · simp [checkedI128_none h1]
    · simp [checkedI128_some h1, coeffOrPanic]
  · subst h
    have hc : compare p p = .eq := by simp
    have h1 : fitsI128 (a * (10 : Int) ^ (p - p)) = true := by simpa using hf
    rw [mulPowTen_eq a (p - p) (by omega)]
    simp only [hc, Int.add_zero, checkedI128_some hf, checkedI128_some h1, coeffOrPanic, Outcome.ofOption_some,
      Outcome.bind_ok, Nat.max_self]
    simp
  · have hm : max p q = p := by omega
    have hz : q - p = 0 := by omega
    have h0 : fitsI128 (0 * (10 : Int) ^ (p - q)) = true := by simp [fitsI128, I128_MIN, I128_MAX]
    have h1 : fitsI128 (a * (10 : Int) ^ 0) = true := by simpa using hf
    rw [hz, mulPowTen_eq a 0 (by omega), mulPowTen_eq 0 (p - q) (by omega)]
    simp only [cmp_gt h, hm, checkedI128_some h0, checkedI128_some h1, Outcome.ofOption_some, Outcome.bind_ok]
    simp [checkedI128_some hf, coeffOrPanic]

/-- adding a zero that has no more fractional digits than `x` is the identity (value and representation) -/
theorem add_zero_right (x y : Dec) (hx : Dom x) (h0 : y.coeff = 0) (hq : y.nfrac ≤ x.nfrac) : addSub false x y = .ok x := by
  obtain ⟨b, q⟩ := y
  simp only at h0 hq
  subst h0
  have hf := hx.fits
  have hq18 : q ≤ 18 := by have := hx.2.2; omega
  rw [add_zero_general x q hx hq18]
  have hz : q - x.nfrac = 0 := by omega
  have hm : max x.nfrac q = x.nfrac := by omega
  have h1 : fitsI128 (x.coeff * (10 : Int) ^ 0) = true := by simpa using hf
  rw [hz, hm, mulPowTen_eq _ 0 (by omega), checkedI128_some h1]
  simp

/-- `0 + x` likewise (by commutativity) -/
theorem add_zero_left (x y : Dec) (hx : Dom x) (h0 : y.coeff = 0) (hq : y.nfrac ≤ x.nfrac) : addSub false y x = .ok x := by
  rw [add_commutes]; exact add_zero_right x y hx h0 hq

/-- `x - x` is the zero with `x`'s number of fractional digits, for every `x` -/
theorem sub_self_zero (x : Dec) : addSub true x x = .ok ⟨0, x.nfrac⟩ := by
  have hc : compare x.nfrac x.nfrac = .eq := by simp
  have h0 : fitsI128 0 = true := by decide
  unfold addSub
  simp only [hc, if_true, Int.sub_self, checkedI128_some h0, coeffOrPanic, Outcome.ofOption_some, Outcome.bind_ok,
    Outcome.pure_eq]

example : addSub false ⟨15, 1⟩ ⟨-2575, 3⟩ = .ok ⟨-1075, 3⟩ ∧ addSub false ⟨-2575, 3⟩ ⟨15, 1⟩ = .ok ⟨-1075, 3⟩ := by decide
example : addSub false ⟨I128_MAX, 0⟩ ⟨1, 1⟩ = .panic .overflow ∧ addSub false ⟨1, 1⟩ ⟨I128_MAX, 0⟩ = .panic .overflow := by decide
example : addSub true ⟨15, 3⟩ ⟨-25, 1⟩ = .ok ⟨2515, 3⟩ ∧ addSub false ⟨15, 3⟩ ⟨25, 1⟩ = .ok ⟨2515, 3⟩ := by decide
example : addSub false ⟨-15, 3⟩ ⟨0, 1⟩ = .ok ⟨-15, 3⟩ ∧ addSub false ⟨-15, 1⟩ ⟨0, 3⟩ = .ok ⟨-1500, 3⟩ ∧
    addSub false ⟨I128_MAX, 0⟩ ⟨0, 1⟩ = .panic .overflow := by decide
example : addSub true ⟨-2575, 3⟩ ⟨-2575, 3⟩ = .ok ⟨0, 3⟩ ∧ addSub true ⟨I128_MIN, 40⟩ ⟨I128_MIN, 40⟩ = .ok ⟨0, 40⟩ := by decide

/-! ### algebraic laws: the checked variants agree with the operators
`checked_add` / `checked_sub` never panic (they are `Option`-valued in the model: no panicking site occurs in them); the operator is
the checked variant with `None` turned into the overflow panic.  The only hypothesis is that no scaling exponent leaves the table
of powers of ten (at most 38; `Dom` gives at most 18) — past it the operator panics with an index panic and the checked variant
returns `None`. -/

/-- `x ± y` is `x.checked_add(y)` / `x.checked_sub(y)` with `None` replaced by the overflow panic -/
theorem add_sub_eq_checked (sub : Bool) (x y : Dec) (hp : x.nfrac ≤ 38) (hq : y.nfrac ≤ 38) :
    addSub sub x y = Outcome.ofOption .overflow (checkedAddSub sub x y) := by
  obtain ⟨a, p⟩ := x
  obtain ⟨b, q⟩ := y
  simp only at hp hq
  unfold addSub checkedAddSub
  rcases Nat.lt_trichotomy p q with h | h | h
  · simp only [cmp_lt h]
    rw [mulPowTen_eq a (q - p) (by omega), checkedMulPowTen_eq a (q - p) (by omega)]
    cases checkedI128 (a * (10 : Int) ^ (q - p)) with
    | none => rfl
    | some c =>
      simp only [Outcome.ofOption_some, Outcome.bind_ok, Option.bind_eq_bind, Option.bind_some, coeffOrPanic]
      cases checkedI128 (if sub = true then c - b else c + b) <;> rfl
  · subst h
    have hc : compare p p = .eq := by simp
    simp only [hc, coeffOrPanic]
    cases checkedI128 (if sub = true then a - b else a + b) <;> rfl
  · simp only [cmp_gt h]
    rw [mulPowTen_eq b (p - q) (by omega), checkedMulPowTen_eq b (p - q) (by omega)]
    cases checkedI128 (b * (10 : Int) ^ (p - q)) with
    | none => rfl
    | some c =>
      simp only [Outcome.ofOption_some, Outcome.bind_ok, Option.bind_eq_bind, Option.bind_some, coeffOrPanic]
      cases checkedI128 (if sub = true then a - c else a + c) <;> rfl

/-- `Some(r)` exactly when the operator returns `r` -/
theorem checked_add_sub_some_iff (sub : Bool) (x y r : Dec) (hx : Dom x) (hy : Dom y) :
    checkedAddSub sub x y = some r ↔ addSub sub x y = .ok r := by
  rw [add_sub_eq_checked sub x y (by have := hx.2.2; omega) (by have := hy.2.2; omega), ofOption_eq_ok_iff]

/-- `None` exactly when the operator panics, and the panic is the overflow panic -/
theorem checked_add_sub_none_iff (sub : Bool) (x y : Dec) (hx : Dom x) (hy : Dom y) :
    checkedAddSub sub x y = none ↔ addSub sub x y = .panic .overflow := by
  rw [add_sub_eq_checked sub x y (by have := hx.2.2; omega) (by have := hy.2.2; omega), ofOption_eq_panic_iff]
  simp

/-- `+` / `-` on Decimals of the domain raise no other panic than the overflow panic -/
theorem add_sub_panic_kind (sub : Bool) (x y : Dec) (k : PanicKind) (hx : Dom x) (hy : Dom y)
    (h : addSub sub x y = .panic k) : k = .overflow := by
  rw [add_sub_eq_checked sub x y (by have := hx.2.2; omega) (by have := hy.2.2; omega), ofOption_eq_panic_iff] at h
  exact h.2

/-- the integer shapes (`Decimal ± int`, `int ± Decimal`, 9 integer types) against their checked variants -/
theorem add_sub_int_eq_checked (sub intLeft : Bool) (d : Dec) (i : Int) (hp : d.nfrac ≤ 38) :
    addSubInt sub intLeft d i = Outcome.ofOption .overflow (checkedAddSubInt sub intLeft d i) := by
  obtain ⟨a, p⟩ := d
  simp only at hp
  unfold addSubInt checkedAddSubInt
  by_cases h0 : p = 0
  · subst h0
    simp only [if_true, coeffOrPanic]
    cases checkedI128 (if intLeft = true then (if sub = true then i - a else i + a) else (if sub = true then a - i else a + i)) <;> rfl
  · simp only [h0, if_false]
    rw [mulPowTen_eq i p hp, checkedMulPowTen_eq i p hp]
    cases checkedI128 (i * (10 : Int) ^ p) with
    | none => rfl
    | some c =>
      simp only [Outcome.ofOption_some, Outcome.bind_ok, Option.bind_eq_bind, Option.bind_some, coeffOrPanic]
      cases checkedI128 (if intLeft = true then (if sub = true then c - a else c + a) else (if sub = true then a - c else a + c)) <;> rfl

theorem checked_add_sub_int_some_iff (sub intLeft : Bool) (d r : Dec) (i : Int) (hd : Dom d) :
    checkedAddSubInt sub intLeft d i = some r ↔ addSubInt sub intLeft d i = .ok r := by
  rw [add_sub_int_eq_checked sub intLeft d i (by have := hd.2.2; omega), ofOption_eq_ok_iff]

theorem checked_add_sub_int_none_iff (sub intLeft : Bool) (d : Dec) (i : Int) (hd : Dom d) :
    checkedAddSubInt sub intLeft d i = none ↔ addSubInt sub intLeft d i = .panic .overflow := by
  rw [add_sub_int_eq_checked sub intLeft d i (by have := hd.2.2; omega), ofOption_eq_panic_iff]
  simp

theorem add_sub_int_panic_kind (sub intLeft : Bool) (d : Dec) (i : Int) (k : PanicKind) (hd : Dom d)
    (h : addSubInt sub intLeft d i = .panic k) : k = .overflow := by
  rw [add_sub_int_eq_checked sub intLeft d i (by have := hd.2.2; omega), ofOption_eq_panic_iff] at h
  exact h.2

example : checkedAddSub false ⟨15, 1⟩ ⟨25, 2⟩ = some ⟨175, 2⟩ ∧ addSub false ⟨15, 1⟩ ⟨25, 2⟩ = .ok ⟨175, 2⟩ ∧
    checkedAddSub true ⟨I128_MIN + 1, 0⟩ ⟨1, 0⟩ = some ⟨I128_MIN, 0⟩ ∧ addSub true ⟨I128_MIN + 1, 0⟩ ⟨1, 0⟩ = .ok ⟨I128_MIN, 0⟩ ∧
    checkedAddSub true ⟨I128_MIN + 1, 0⟩ ⟨2, 0⟩ = none ∧ addSub true ⟨I128_MIN + 1, 0⟩ ⟨2, 0⟩ = .panic .overflow ∧
    checkedAddSubInt true true ⟨5, 1⟩ 3 = some ⟨25, 1⟩ ∧ addSubInt true true ⟨5, 1⟩ 3 = .ok ⟨25, 1⟩ ∧
    checkedAddSubInt false false ⟨5, 1⟩ I128_MAX = none ∧ addSubInt false false ⟨5, 1⟩ I128_MAX = .panic .overflow := by decide
-- outside the hypothesis (a scaling exponent past the table of powers): index panic against `None`
example : addSub false ⟨1, 39⟩ ⟨1, 0⟩ = .panic .index ∧ checkedAddSub false ⟨1, 39⟩ ⟨1, 0⟩ = none := by decide

end Fpdec.Props.C01
