import Fpdec.Kernels.WideSpecial
import Fpdec.Kernels.WideDiv
import Fpdec.Kernels.WideFits
import Fpdec.Kernels.Wide
import Fpdec.Kernels.Round
import Fpdec.Lemmas.Wide
import Fpdec.Props.C03
import Fpdec.Props.C16_Sites

/-!
# C16 — Results stay correct when intermediates exceed 128 bits

* The underlying wide operations, for EVERY profile (no plain operation inside overflows, no debug assertion fails):
  `u128_mul_u128_spec` (`hi·2^128 + lo = x·y`), `u256_idiv_u64_spec`, `u256_idiv_u128_special_spec` (Knuth's algorithm D,
  4 digits by 2, base 2^64: normalisation loses no bits, both quotient digits are exact after the correction loop — the add-back
  step is PROVED unnecessary, not assumed —, the wrapping subtractions equal the true partial remainders), `u256_idiv_u128_spec`,
  `i256_div_mod_floor_spec`, `i128_shifted_div_mod_floor_spec`: `a·b = q·m + r` resp. `a·10^k = q·m + r` with `0 ≤ r < m` (floor
  quotient, every sign combination, exact divisions included) for every positive `m`, and `None` exactly when the truncated
  quotient exceeds `i128::MAX`.
* `wide_mul`, `wide_div` discharge the hypotheses `C02.WideMul` / `C04.WideDiv`, which gives the UNCONDITIONAL statements about
  `*`, `/`, `mul_rounded`, `div_rounded`, `quantize` below: whenever a product of coefficients or a scaled dividend does not fit
  128 bits, the result is still exactly the correctly rounded value if that is representable, and the overflow signal otherwise.
-/

namespace Fpdec.Props.C16
open Fpdec Fpdec.Model

theorem u128_mul_u128_spec (prof : Profile) (x y : Nat) (hx : x < U128_MOD) (hy : y < U128_MOD) :
    ∃ rh rl, u128MulU128 prof x y = .ok (rh, rl) ∧ rh * U128_MOD + rl = x * y ∧ rh < U128_MOD ∧ rl < U128_MOD :=
  u128MulU128_spec prof x y hx hy

theorem u256_idiv_u64_spec (prof : Profile) (xh xl y : Nat) (hxh : xh < U128_MOD) (hxl : xl < U128_MOD)
    (hy0 : 0 < y) (hy : y < U64_MOD) :
    ∃ qh ql r, u256IdivU64 prof xh xl y = .ok (qh, ql, r) ∧
      qh * U128_MOD + ql = (xh * U128_MOD + xl) / y ∧ r = (xh * U128_MOD + xl) % y ∧ qh < U128_MOD ∧ ql < U128_MOD :=
  u256IdivU64_spec prof xh xl y hxh hxl hy0 hy

theorem u256_idiv_u128_special_spec (prof : Profile) (xh xl y : Nat) (hy : U64_MOD ≤ y) (hy2 : y < U128_MOD)
    (hxh : xh < y) (hxl : xl < U128_MOD) :
    ∃ ql r, u256IdivU128Special prof xh xl y = .ok (0, ql, r) ∧
      ql = (xh * U128_MOD + xl) / y ∧ r = (xh * U128_MOD + xl) % y ∧ ql < U128_MOD :=
  u256IdivU128Special_spec prof xh xl y hy hy2 hxh hxl

theorem u256_idiv_u128_spec (prof : Profile) (xh xl y : Nat) (hxh : xh < U128_MOD) (hxl : xl < U128_MOD)
    (hy0 : 0 < y) (hy : y < U128_MOD) :
    ∃ qh ql r, u256IdivU128 prof xh xl y = .ok (qh, ql, r) ∧
      qh * U128_MOD + ql = (xh * U128_MOD + xl) / y ∧ r = (xh * U128_MOD + xl) % y ∧ qh < U128_MOD ∧ ql < U128_MOD :=
  u256IdivU128_spec prof xh xl y hxh hxl hy0 hy

theorem i256_div_mod_floor_spec (prof : Profile) (x1 x2 y : Int)
    (h1 : I128_MIN < x1 ∧ x1 ≤ I128_MAX) (h2 : I128_MIN < x2 ∧ x2 ≤ I128_MAX) (hy : 0 < y ∧ y ≤ I128_MAX) :
    i256DivModFloor prof x1 x2 y =
      .ok (if ((x1 * x2).natAbs / y.natAbs : Nat) ≤ I128_MAX.toNat then some ((x1 * x2) / y, (x1 * x2) % y) else none) :=
  i256DivModFloor_spec prof x1 x2 y h1 h2 hy

theorem i128_shifted_div_mod_floor_spec (prof : Profile) (x : Int) (p : Nat) (y : Int)
    (h1 : I128_MIN ≤ x ∧ x ≤ I128_MAX) (hp : p ≤ 38) (hy : 0 < y ∧ y ≤ I128_MAX) :
    i128ShiftedDivModFloor prof x p y =
      .ok (if ((x * 10 ^ p).natAbs / y.natAbs : Nat) ≤ I128_MAX.toNat then some ((x * 10 ^ p) / y, (x * 10 ^ p) % y) else none) :=
  i128ShiftedDivModFloor_spec prof x p y h1 hp hy

/-- the floor quotient/remainder pair returned satisfies the statement's identity -/
theorem floor_identity (N m : Int) (hm : 0 < m) : N = (N / m) * m + N % m ∧ 0 ≤ N % m ∧ N % m < m := by
  refine ⟨?_, Int.emod_nonneg N (Int.ne_of_gt hm), Int.emod_lt_of_pos N hm⟩
  have := Int.mul_ediv_add_emod N m
  rw [Int.mul_comm] at this
  omega

theorem wide_mul : C02.WideMul := fun prof x1 x2 y h1 h2 hy => i256DivModFloor_spec prof x1 x2 y h1 h2 hy
theorem wide_div : C04.WideDiv :=
  ⟨fun prof x p y h1 hp hy => i128ShiftedDivModFloor_spec prof x p y h1 hp hy,
   fun prof x p y h1 hp hy => i128ShiftedDivModFloor_spec_neg prof x p y h1 hp hy⟩

/-! ### unconditional statements for the operations that use the wide paths -/

theorem mul_correct (prof : Profile) (tm : Mode) (x y : Dec) (hx : Dom x) (hy : Dom y) :
    Spec.allowedOp (Spec.mul tm x.coeff x.nfrac y.coeff y.nfrac) (outPair (mul prof tm x y)) = true :=
  C02.mul_spec wide_mul prof tm x y hx hy

theorem mul_rounded_correct (prof : Profile) (tm : Mode) (x y : Dec) (n : Nat) (hx : Dom x) (hy : Dom y) :
    Spec.allowedOp (Spec.mulRounded tm x.coeff x.nfrac y.coeff y.nfrac n) (outPair (mulRounded prof tm x y n)) = true :=
  C04.mul_rounded_spec wide_mul prof tm x y n hx hy

theorem div_correct (prof : Profile) (tm : Mode) (x y : Dec) (hx : Dom x) (hy : Dom y) :
    Spec.allowedOp (Spec.div tm x.coeff x.nfrac y.coeff y.nfrac) (outPair (div prof tm x y)) = true :=
  C03.div_spec wide_div prof tm x y hx hy

theorem checked_div_correct (prof : Profile) (tm : Mode) (x y : Dec) (hx : Dom x) (hy : Dom y) :
    Spec.allowedChecked (Spec.div tm x.coeff x.nfrac y.coeff y.nfrac) (outOptPair (checkedDiv prof tm x y)) = true :=
  C03.checked_div_spec wide_div prof tm x y hx hy

theorem div_rounded_correct (prof : Profile) (tm : Mode) (x y : Dec) (n : Nat) (hx : Dom x) (hy : Dom y) :
    Spec.allowedOp (Spec.divRounded tm x.coeff x.nfrac y.coeff y.nfrac n) (outPair (divRounded prof tm x y n)) = true :=
  C04.div_rounded_spec wide_div prof tm x y n hx hy

theorem quantize_correct (prof : Profile) (tm : Mode) (x q : Dec) (hx : Dom x) (hq : Dom q) :
    Spec.allowedOp (Spec.quantize tm false x.coeff x.nfrac q.coeff q.nfrac) (outPair (quantize prof tm x q)) = true :=
  C04.quantize_spec wide_mul wide_div prof tm x q hx hq

/-! ### non-vacuity: the hypotheses are satisfiable; exact negative quotient on the wide path (former defect D10) -/
example : i256DivModFloor Profile.dev (-6) 0 7 = .ok (some (0, 0)) := by
  rw [i256DivModFloor_spec Profile.dev (-6) 0 7 (by decide) (by decide) (by decide)]; decide
example : i128ShiftedDivModFloor Profile.release (-1000000000000000000000000000000) 18 100000000000000000000 =
    .ok (some (-10000000000000000000000000000, 0)) := by
  rw [i128ShiftedDivModFloor_spec Profile.release _ 18 _ (by decide) (by decide) (by decide)]; decide
-- the dividend `i128::MIN` (an integer operand) on the wide path, both divisor signs
example : i128ShiftedDivModFloor Profile.dev I128_MIN 2 7000 = .ok (some (-2430588335149560453309818624512630082, 1200)) := by
  rw [i128ShiftedDivModFloor_spec Profile.dev _ 2 _ (by decide) (by decide) (by decide)]; decide
example : i128ShiftedDivModFloor Profile.release I128_MIN 1 (-30) = .ok (some (56713727820156410577229101238628035242, -20)) := by
  rw [i128ShiftedDivModFloor_spec_neg Profile.release _ 1 _ (by decide) (by decide) (by decide)]; decide
example : Dom ⟨-1000000000000000000000000000000, 0⟩ ∧ Dom ⟨100000000000000000000, 0⟩ ∧
    Spec.div .floor (-1000000000000000000000000000000) 0 100000000000000000000 0 = .val (-10000000000) 0 := by decide

/-! ### translated kernels
The Lean definitions `Gen.K.*` are regenerated from the Rust source on every run by `tools/fpkernels.py` (expression-level
translation).  These theorems tie them to the hand-written model the property theorems above are about: a change of the Rust
kernel that changes its translation breaks them. -/
theorem kernel_i128_div_mod_floor (prof : Profile) (x y : Int) :
    Gen.K.i128_div_mod_floor prof x y = i128DivModFloor prof x y := Kernels.i128_div_mod_floor_eq prof x y
theorem kernel_round_quot (prof : Profile) (tm : Mode) (quot : Int) (rem divisor : Nat) (mode : Option Mode)
    (hq : fitsI128 quot = true) :
    Gen.K.round_quot prof tm quot rem divisor mode = .ok (roundQuot tm quot rem divisor mode) :=
  Kernels.round_quot_eq prof tm quot rem divisor mode hq
theorem kernel_u128_mul_u128 (prof : Profile) (x y : Nat) :
    Gen.K.u128_mul_u128 prof x y = u128MulU128 prof x y := Kernels.u128_mul_u128_eq prof x y

theorem kernel_i128_shifted_div_rounded (prof : Profile) (tm : Mode) (a : Int) (p : Nat) (b : Int) (mode : Option Mode) :
    Gen.K.i128_shifted_div_rounded prof tm a p b mode = i128ShiftedDivRounded prof tm a p b mode :=
  Kernels.i128_shifted_div_rounded_eq' prof tm a p b mode
theorem kernel_i128_mul_div_ten_pow_rounded (prof : Profile) (tm : Mode) (x y : Int) (p : Nat) (mode : Option Mode) :
    Gen.K.i128_mul_div_ten_pow_rounded prof tm x y p mode = i128MulDivTenPowRounded prof tm x y p mode :=
  Kernels.i128_mul_div_ten_pow_rounded_eq' prof tm x y p mode

theorem kernel_u128_msb (prof : Profile) (i : Nat) (hi : i < 340282366920938463463374607431768211456) :
    Gen.K.u128_msb prof i = u128Msb prof i := Kernels.u128_msb_eq prof i hi
theorem kernel_u256_idiv_u64 (prof : Profile) (xh xl y : Nat) :
    Gen.K.u256_idiv_u64 prof xh xl y = u256IdivU64 prof xh xl y := Kernels.u256_idiv_u64_eq prof xh xl y
theorem kernel_u256_idiv_u128 (prof : Profile) (xh xl y : Nat) :
    Gen.K.u256_idiv_u128 prof xh xl y = u256IdivU128 prof xh xl y := Kernels.u256_idiv_u128_eq prof xh xl y
/-- the signed wrappers with their sign fix-up, as translated from the source on this run -/
theorem kernel_i128_shifted_div_mod_floor (prof : Profile) (x : Int) (p : Nat) (y : Int) :
    Gen.K.i128_shifted_div_mod_floor_k prof x p y = i128ShiftedDivModFloor prof x p y :=
  Kernels.i128_shifted_div_mod_floor_eq prof x p y
theorem kernel_i256_div_mod_floor (prof : Profile) (x1 x2 y : Int) :
    Gen.K.i256_div_mod_floor_k prof x1 x2 y = i256DivModFloor prof x1 x2 y := Kernels.i256_div_mod_floor_eq prof x1 x2 y

/-- Knuth's algorithm D (`u256_idiv_u128_special`) with both correction loops, as translated from the source on this run -/
theorem kernel_u256_idiv_u128_special (prof : Profile) (xh xl y : Nat) (hy0 : 0 < y)
    (hy : y < 340282366920938463463374607431768211456) (hxl : xl < 340282366920938463463374607431768211456) :
    Gen.K.u256_idiv_u128_special_k prof xh xl y = u256IdivU128Special prof xh xl y :=
  Kernels.u256_idiv_u128_special_eq prof xh xl y hy0 hy hxl

/-! ### algebraic laws
The unconditional form of `C02.mul_commutes` (the wide path discharged by `wide_mul`). -/

/-- `x * y = y * x`, as outcomes, unless both operands are representations of one with different numbers of fractional digits
    (then each product is its left operand: `C02.mul_ones`) -/
theorem mul_commutes (prof : Profile) (tm : Mode) (x y : Dec) (hx : Dom x) (hy : Dom y)
    (h11 : x.coeff = (10 : Int) ^ x.nfrac → y.coeff = (10 : Int) ^ y.nfrac → x.nfrac = y.nfrac) :
    mul prof tm x y = mul prof tm y x := C02.mul_commutes wide_mul prof tm x y hx hy h11

-- a product that takes the wide path (the exact product does not fit an i128), in both orders
example : mul Profile.dev .heven ⟨I128_MAX, 18⟩ ⟨-5, 1⟩ = .ok ⟨-85070591730234615865843651857942052864, 18⟩ ∧
    mul Profile.dev .heven ⟨-5, 1⟩ ⟨I128_MAX, 18⟩ = .ok ⟨-85070591730234615865843651857942052864, 18⟩ := by decide

end Fpdec.Props.C16
