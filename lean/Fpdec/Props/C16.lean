import Fpdec.Lemmas.Dom
import Fpdec.Props.C16_Sites

/-! # C16 — property theorems (under construction: see DESIGN.md section 6) -/

namespace Fpdec.Props.C16
open Fpdec Fpdec.Model

end Fpdec.Props.C16
