import Fpdec.Kernels.Consts
import Fpdec.Props.C05
import Fpdec.Props.C06
import Fpdec.Props.C07
import Fpdec.Props.C09
import Fpdec.Props.C11
import Fpdec.Props.C12
import Fpdec.Props.C15
import Fpdec.Props.C16
import Fpdec.Props.C17
import Fpdec.Props.C20_Sites

/-!
# C20 — Results do not depend on the build profile; overflow is never silent

The model carries the two rustc switches that change what plain arithmetic does (`Profile.oc` = overflow-checks, `Profile.da` =
debug-assertions): a plain operator wraps or panics, a `debug_assert!` exists or not.  Three groups of operations:

1. **No profile parameter at all** (`+ - += -=`, `checked_add/sub`, `Decimal * int`, `checked_mul(int)`, `%`, `checked_rem`, all
   comparisons, integer conversions): every arithmetic site of their model is `checked_*` (or `/`, `%`, which behave the same in
   every profile).  That these sites are still `checked_*` in the source is what the site ties (`tie_sites_*`) re-check on every run —
   `checked_add → +` breaks the tie even though no dev-profile run could observe it.
2. **Equal to a profile-free value** (`floor ceil trunc fract neg abs magnitude`, `to_string`, `Display`, `Debug`, `f64/f32::from`,
   `as_integer_ratio`, `gcd`, `i128_div_rounded`): `*_profile_indep` — immediate from the `∀ prof` equalities of C05 … C15.
3. **Characterised by a deterministic expectation** (`round`, `checked_round`, `*`, `/`, `mul_rounded`, `div_rounded`, `quantize`,
   `from_str`): `*_same_obs` — for any two profiles both outcomes satisfy the same `Spec.Exp`; unless that expectation is the
   boundary case `valOrOvf`/`any` (exact result coefficient `-2^127`, outside the Decimal domain) it determines "same value, or both
   panic" / "same `Option`".  PARTIAL at exactly that boundary.
Not expressible in the model (exercised by the correspondence run, which builds the driver in up to 8 profile combinations plus the
`packed` feature and diffs the outputs line by line): opt-level, `repr(packed)`.
-/

namespace Fpdec.Props.C20
open Fpdec Fpdec.Model
open C17 (Determined SameObs determined determined_checked)

/-! ## group 2 -/
theorem kernel_profile_indep (p1 p2 : Profile) (tm : Mode) (mode : Option Mode) (n d : Int)
    (hn : I128_MIN < n ∧ n ≤ I128_MAX) (hd : I128_MIN ≤ d ∧ d ≤ I128_MAX) (hd0 : d ≠ 0) :
    i128DivRounded p1 tm n d mode = i128DivRounded p2 tm n d mode := by
  rw [C05.kernel_spec p1 tm mode n d hn hd hd0, C05.kernel_spec p2 tm mode n d hn hd hd0]

theorem unary_profile_indep (p1 p2 : Profile) (d : Dec) (hd : Dom d) :
    floor p1 d = floor p2 d ∧ ceil p1 d = ceil p2 d ∧ neg p1 d = neg p2 d ∧ abs p1 d = abs p2 d ∧
    magnitude p1 d = magnitude p2 d := by
  refine ⟨?_, ?_, ?_, ?_, ?_⟩
  · rw [C15.floor_spec p1 d hd, C15.floor_spec p2 d hd]
  · rw [C15.ceil_spec p1 d hd, C15.ceil_spec p2 d hd]
  · rw [C15.neg_spec p1 d hd, C15.neg_spec p2 d hd]
  · rw [C15.abs_spec p1 d hd, C15.abs_spec p2 d hd]
  · rw [C15.magnitude_spec p1 d hd, C15.magnitude_spec p2 d hd]

theorem text_profile_indep (p1 p2 : Profile) (tm : Mode) (f : Std.FmtSpec) (d : Dec) (hd : Dom d) :
    toStringDec p1 d = toStringDec p2 d ∧ debugDec p1 d = debugDec p2 d ∧ display p1 tm f d = display p2 tm f d := by
  refine ⟨?_, ?_, ?_⟩
  · rw [C07.string_from_spec p1 d hd, C07.string_from_spec p2 d hd]
  · rw [C07.debug_spec p1 d hd, C07.debug_spec p2 d hd]
  · rw [C11.display_spec p1 tm f d hd, C11.display_spec p2 tm f d hd]

theorem into_float_profile_indep (p1 p2 : Profile) (f : Spec.FloatFmt) (hf : f = Spec.FloatFmt.f64 ∨ f = Spec.FloatFmt.f32)
    (d : Dec) (hd : Dom d) : intoFloat p1 f d = intoFloat p2 f d := by
  rw [C12.into_float_spec p1 f hf d hd, C12.into_float_spec p2 f hf d hd]

theorem ratio_profile_indep (p1 p2 : Profile) (d : Dec) (hd : Dom d) :
    asIntegerRatio p1 d = asIntegerRatio p2 d ∧ hashFeed p1 d = hashFeed p2 d := by
  obtain ⟨h1, _, _⟩ := C09.as_integer_ratio_spec p1 d hd
  obtain ⟨h2, _, _⟩ := C09.as_integer_ratio_spec p2 d hd
  refine ⟨by rw [h1, h2], ?_⟩
  unfold hashFeed; rw [h1, h2]

/-! ## group 3 -/
theorem round_same_obs (p1 p2 : Profile) (tm : Mode) (d : Dec) (n : Int) (hd : Dom d) (hn : -128 ≤ n ∧ n ≤ 127)
    (hdet : Determined (Spec.round tm d.coeff d.nfrac n)) :
    SameObs (outPair (round p1 tm d n)) (outPair (round p2 tm d n)) ∧
    outOptPair (checkedRound p1 tm d n) = outOptPair (checkedRound p2 tm d n) :=
  ⟨determined _ hdet _ _ (C05.round_spec p1 tm d n hd hn) (C05.round_spec p2 tm d n hd hn),
   determined_checked _ hdet (C05.round_exp_shape tm d.coeff d.nfrac n).2.2 _ _
     (C05.checked_round_spec p1 tm d n hd hn) (C05.checked_round_spec p2 tm d n hd hn)⟩

theorem mul_same_obs (p1 p2 : Profile) (tm : Mode) (x y : Dec) (hx : Dom x) (hy : Dom y)
    (hdet : Determined (Spec.mul tm x.coeff x.nfrac y.coeff y.nfrac)) :
    SameObs (outPair (mul p1 tm x y)) (outPair (mul p2 tm x y)) :=
  determined _ hdet _ _ (C02.mul_spec C16.wide_mul p1 tm x y hx hy) (C02.mul_spec C16.wide_mul p2 tm x y hx hy)

theorem div_same_obs (p1 p2 : Profile) (tm : Mode) (x y : Dec) (hx : Dom x) (hy : Dom y)
    (hdet : Determined (Spec.div tm x.coeff x.nfrac y.coeff y.nfrac)) :
    SameObs (outPair (div p1 tm x y)) (outPair (div p2 tm x y)) :=
  determined _ hdet _ _ (C03.div_spec C16.wide_div p1 tm x y hx hy) (C03.div_spec C16.wide_div p2 tm x y hx hy)

theorem div_rounded_same_obs (p1 p2 : Profile) (tm : Mode) (x y : Dec) (n : Nat) (hx : Dom x) (hy : Dom y)
    (hdet : Determined (Spec.divRounded tm x.coeff x.nfrac y.coeff y.nfrac n)) :
    SameObs (outPair (divRounded p1 tm x y n)) (outPair (divRounded p2 tm x y n)) :=
  determined _ hdet _ _ (C04.div_rounded_spec C16.wide_div p1 tm x y n hx hy) (C04.div_rounded_spec C16.wide_div p2 tm x y n hx hy)

theorem mul_rounded_same_obs (p1 p2 : Profile) (tm : Mode) (x y : Dec) (n : Nat) (hx : Dom x) (hy : Dom y)
    (hdet : Determined (Spec.mulRounded tm x.coeff x.nfrac y.coeff y.nfrac n)) :
    SameObs (outPair (mulRounded p1 tm x y n)) (outPair (mulRounded p2 tm x y n)) :=
  determined _ hdet _ _ (C04.mul_rounded_spec C16.wide_mul p1 tm x y n hx hy) (C04.mul_rounded_spec C16.wide_mul p2 tm x y n hx hy)

theorem quantize_same_obs (p1 p2 : Profile) (tm : Mode) (x q : Dec) (hx : Dom x) (hq : Dom q)
    (hdet : Determined (Spec.quantize tm false x.coeff x.nfrac q.coeff q.nfrac)) :
    SameObs (outPair (quantize p1 tm x q)) (outPair (quantize p2 tm x q)) :=
  determined _ hdet _ _ (C04.quantize_spec C16.wide_mul C16.wide_div p1 tm x q hx hq) (C04.quantize_spec C16.wide_mul C16.wide_div p2 tm x q hx hq)

/-- `from_str`: the same accept/reject verdict and the same value in every profile -/
theorem from_str_same_obs (p1 p2 : Profile) (s : List Nat) (hb : ∀ c ∈ s, c < 256) (hlen : s.length < 2 ^ 56) :
    match fromStr p1 s, fromStr p2 s with
    | .ok (.ok d1), .ok (.ok d2) => d1 = d2
    | .ok (.error _), .ok (.error _) => True
    | _, _ => False := by
  have h1 := C06.from_str_spec p1 s hb hlen
  have h2 := C06.from_str_spec p2 s hb hlen
  cases hp : Spec.parseSpec s <;> rw [hp] at h1 h2 <;>
    cases hr1 : fromStr p1 s <;> cases hr2 : fromStr p2 s <;> rw [hr1] at h1 <;> rw [hr2] at h2 <;>
    (try (rename_i a b; cases a <;> cases b)) <;> simp_all

/-- overflow is never silent: whenever the exact result of `+` does not fit, EVERY profile panics (no wrapped value) -/
theorem add_overflow_never_silent (sub : Bool) (x y : Dec) (hx : Dom x) (hy : Dom y)
    (h : Spec.addSub sub x.coeff x.nfrac y.coeff y.nfrac = .ovf) : ∃ k, addSub sub x y = .panic k := by
  have hs := C01.add_sub_spec sub x y hx hy
  rw [h] at hs
  cases hr : addSub sub x y with
  | panic k => exact ⟨k, rfl⟩
  | ok d => rw [hr] at hs; simp [Spec.allowedOp] at hs

/-! ### non-vacuity: the former release-profile wrap-arounds (D11) now panic in every profile -/
example : addSub false Dec.MAX Dec.ONE = .panic .overflow ∧ mulInt Dec.MAX 2 = .panic .overflow ∧
    round Profile.release .heven Dec.MAX (-1) = .panic .overflow ∧ round Profile.dev .heven Dec.MAX (-1) = .panic .overflow := by
  decide

/-- the associated constants of `Decimal` as extracted from src/lib.rs on this run are the model's (`ZERO`/`ONE` are what the
    translated kernels return for `Self::ZERO` / `Self::ONE`; `MIN ..= MAX` with at most `DELTA`'s digits is the domain `Dom`) -/
theorem decimal_consts :
    Gen.DECIMAL_CONSTS =
      [("ZERO", Dec.ZERO.coeff, Dec.ZERO.nfrac), ("ONE", Dec.ONE.coeff, Dec.ONE.nfrac),
       ("NEG_ONE", Dec.NEG_ONE.coeff, Dec.NEG_ONE.nfrac), ("TWO", Dec.TWO.coeff, Dec.TWO.nfrac),
       ("TEN", Dec.TEN.coeff, Dec.TEN.nfrac), ("MAX", Dec.MAX.coeff, Dec.MAX.nfrac), ("MIN", Dec.MIN.coeff, Dec.MIN.nfrac),
       ("DELTA", Dec.DELTA.coeff, Dec.DELTA.nfrac)] := Kernels.decimal_consts_tie
theorem dom_is_min_max (d : Dec) :
    (Dec.MIN.coeff ≤ d.coeff ∧ d.coeff ≤ Dec.MAX.coeff ∧ d.nfrac ≤ Dec.DELTA.nfrac) ↔ Dom d := Kernels.dom_is_min_max d

end Fpdec.Props.C20
