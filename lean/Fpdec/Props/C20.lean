import Fpdec.Lemmas.Dom
import Fpdec.Props.C20_Sites

/-! # C20 — property theorems (under construction: see DESIGN.md section 6) -/

namespace Fpdec.Props.C20
open Fpdec Fpdec.Model

end Fpdec.Props.C20
