import Fpdec.Kernels.Consts
import Fpdec.Kernels.Misc
import Fpdec.Kernels.FromStr
import Fpdec.Kernels.Parse
import Fpdec.Kernels.Swar
import Fpdec.Lemmas.Parse
import Fpdec.Props.C06_Sites

/-!
# C06 — Parsing accepts exactly the literal grammar and never yields a wrong value

`from_str_spec`: for EVERY byte string shorter than 2^56 bytes, `Decimal::from_str` (same function behind
`TryFrom<&str>` / `TryFrom<String>`) returns `Ok(d)` exactly when the reference parser `Spec.parseSpec` — one character at a
time, unbounded integers, representability decided at the end — accepts, and then `d` has precisely the literal's digits as
coefficient and `max(0, fraction length − exponent)` fractional digits; every other string gives `Err`, `Empty` only for the
empty string; no panic, in any build profile.  Ingredients (all proved, no `bv_decide`): the two SWAR tricks
(`swar_digit_test`, `swar_to_u64`), the saturating accumulation (`accum_coeff_spec`), exponent saturation never changing the verdict.

Domain restriction: `s.length < 2^56`.  The exponent accumulator saturates at `isize::MAX / 100`; a literal whose *fraction*
had more digits than that could compensate a saturated exponent.  Such a string (> 64 PiB) cannot exist in an address space.
Not modelled: the `unsafe` slice operations are represented by the pattern matches that dominate them (`first()` returned
`Some`, `len() >= 8`), so out-of-bounds reads are excluded by construction of the model and by the correspondence run (which
would crash or diverge), not by a theorem about pointers.
-/

namespace Fpdec.Props.C06
open Fpdec Fpdec.Model

theorem swar_digit_test (bs : List Nat) (hlen : bs.length = 8) (hb : ∀ c ∈ bs, c < 256) :
    chunkContains8Digits (leBytes bs) = true ↔ ∀ c ∈ bs, Spec.isDig c = true :=
  chunkContains8Digits_iff bs hlen hb

theorem swar_to_u64 (bs : List Nat) (hlen : bs.length = 8) (hd : ∀ c ∈ bs, Spec.isDig c = true) :
    chunkToU64 (leBytes bs) = Spec.digitsVal bs :=
  chunkToU64_val bs hlen hd

theorem accum_coeff_spec (c : Nat) (s : List Nat) (hb : ∀ x ∈ s, x < 256) (hc : c < U128_MOD) :
    accumCoeff c s =
      (Nat.min (c * 10 ^ (Spec.spanDigits s).1.length + Spec.digitsVal (Spec.spanDigits s).1) (U128_MOD - 1),
       (Spec.spanDigits s).2, (Spec.spanDigits s).1.length) :=
  accumCoeff_spec c s hb hc

/-- the parser against the grammar -/
theorem from_str_spec (prof : Profile) (s : List Nat) (hb : ∀ c ∈ s, c < 256) (hlen : s.length < 2 ^ 56) :
    match Spec.parseSpec s, fromStr prof s with
    | .ok c p, .ok (.ok d) => d = ⟨c, p⟩
    | .empty, .ok (.error e) => e = ParseErr.empty
    | .bad, .ok (.error e) => e ≠ ParseErr.empty
    | _, _ => False :=
  fromStr_spec prof s hb hlen

/-- no input makes the parser panic (corollary) -/
theorem from_str_never_panics (prof : Profile) (s : List Nat) (hb : ∀ c ∈ s, c < 256) (hlen : s.length < 2 ^ 56) :
    ∃ r, fromStr prof s = .ok r := by
  have h := fromStr_spec prof s hb hlen
  cases hr : fromStr prof s with
  | ok r => exact ⟨r, rfl⟩
  | panic k =>
    rw [hr] at h
    cases hp : Spec.parseSpec s <;> rw [hp] at h <;> exact absurd h (by simp)

/-! ### non-vacuity: former defects D1–D5 are now theorems' instances -/
example : Spec.parseSpec [49, 101, 48, 48, 49] = .ok 10 0 ∧ fromStr Profile.dev [49, 101, 48, 48, 49] = .ok (.ok ⟨10, 0⟩) := by
  decide   -- "1e001"

/-! ### translated kernels
The Lean definitions `Gen.K.*` are regenerated from the Rust source on every run by `tools/fpkernels.py` (expression-level
translation).  These theorems tie them to the hand-written model the property theorems above are about: a change of the Rust
kernel that changes its translation breaks them. -/
theorem kernel_chunk_contains_8_digits (prof : Profile) (c : Nat) :
    Gen.K.chunk_contains_8_digits prof c = .ok (chunkContains8Digits c) := Kernels.chunk_contains_8_digits_eq prof c
theorem kernel_chunk_to_u64 (prof : Profile) (c : Nat) :
    Gen.K.chunk_to_u64 prof c = .ok (chunkToU64 c) := Kernels.chunk_to_u64_eq prof c

/-- `impl FromStr for Decimal` (everything after the parser call), as translated on this run -/
theorem kernel_decimal_from_str (prof : Profile) (lit : List Nat) : Gen.K.decimal_from_str prof lit = fromStr prof lit :=
  Kernels.decimal_from_str_eq prof lit

/-- the parser itself (`fpdec-core/src/parser.rs`: cursor methods, `skip_leading_zeroes`, `accum_coeff`, `accum_exp` — `while` and
    `while let` loops as fuel-bounded recursion — and `str_to_dec`), as translated on this run; the only hypothesis is Rust's own
    bound on the length of a slice -/
theorem kernel_lit_skip_leading_zeroes (prof : Profile) (s : List Nat) (h : s.length < 2 ^ 64) :
    Gen.K.lit_skip_leading_zeroes prof s = .ok (skipLeadingZeroes s) := Kernels.lit_skip_leading_zeroes_eq prof s h
theorem kernel_lit_accum_coeff (prof : Profile) (s : List Nat) (coeff : Nat) (h : s.length < 2 ^ 64) :
    Gen.K.lit_accum_coeff prof s coeff = .ok ((accumCoeff coeff s).2.1, (accumCoeff coeff s).1, (accumCoeff coeff s).2.2) :=
  Kernels.lit_accum_coeff_eq prof s coeff h
theorem kernel_lit_accum_exp (prof : Profile) (s : List Nat) (exp : Int) (h : s.length < 2 ^ 64) :
    Gen.K.lit_accum_exp prof s exp = .ok ((accumExp exp s).2, (accumExp exp s).1, s.length - (accumExp exp s).2.length) :=
  Kernels.lit_accum_exp_eq prof s exp h
theorem kernel_str_to_dec (prof : Profile) (lit : List Nat) (h : lit.length < 2 ^ 63) :
    Gen.K.str_to_dec prof lit = strToDec prof lit := Kernels.str_to_dec_eq prof lit h

/-- `TryFrom<&str>` / `TryFrom<String>` forward to `from_str` -/
theorem kernel_decimal_try_from_str (prof : Profile) (lit : List Nat) :
    Gen.K.decimal_try_from_str prof lit = fromStr prof lit := Kernels.decimal_try_from_str_eq prof lit
theorem kernel_decimal_try_from_string (prof : Profile) (lit : List Nat) :
    Gen.K.decimal_try_from_string prof lit = fromStr prof lit := Kernels.decimal_try_from_string_eq prof lit

/-- the associated constants of `Decimal` as extracted from src/lib.rs on this run are the model's (`ZERO`/`ONE` are what the
    translated kernels return for `Self::ZERO` / `Self::ONE`; `MIN ..= MAX` with at most `DELTA`'s digits is the domain `Dom`) -/
theorem decimal_consts :
    Gen.DECIMAL_CONSTS =
      [("ZERO", Dec.ZERO.coeff, Dec.ZERO.nfrac), ("ONE", Dec.ONE.coeff, Dec.ONE.nfrac),
       ("NEG_ONE", Dec.NEG_ONE.coeff, Dec.NEG_ONE.nfrac), ("TWO", Dec.TWO.coeff, Dec.TWO.nfrac),
       ("TEN", Dec.TEN.coeff, Dec.TEN.nfrac), ("MAX", Dec.MAX.coeff, Dec.MAX.nfrac), ("MIN", Dec.MIN.coeff, Dec.MIN.nfrac),
       ("DELTA", Dec.DELTA.coeff, Dec.DELTA.nfrac)] := Kernels.decimal_consts_tie
theorem dom_is_min_max (d : Dec) :
    (Dec.MIN.coeff ≤ d.coeff ∧ d.coeff ≤ Dec.MAX.coeff ∧ d.nfrac ≤ Dec.DELTA.nfrac) ↔ Dom d := Kernels.dom_is_min_max d

/-! ### algebraic laws
Laws of the parser, proved on the reference grammar `Spec.parseSpec` and transferred with `from_str_spec` (so: for every literal
shorter than 2^56 bytes, every profile).  `from_str_spec` fixes the result up to the *kind* of a non-`Empty` error, hence laws that
are transferred say "same value / both rejected / both `Empty`" (`SameVerdict`); `from_str_plus` is proved on the model and is a plain
equation. -/

/-! #### transfer: the model's verdict is a function of the reference parser's -/
theorem from_str_ok_iff (prof : Profile) (s : List Nat) (hb : ∀ c ∈ s, c < 256) (hlen : s.length < 2 ^ 56) (d : Dec) :
    fromStr prof s = .ok (.ok d) ↔ Spec.parseSpec s = .ok d.coeff d.nfrac := by
  have h := from_str_spec prof s hb hlen
  cases hp : Spec.parseSpec s <;> cases hr : fromStr prof s with
  | panic k => rw [hp, hr] at h; exact absurd h (by simp)
  | ok r =>
    cases r with
    | error e => rw [hp, hr] at h; simp_all
    | ok x =>
      rw [hp, hr] at h
      first
        | (simp at h; subst h; cases d; simp [Dec.mk.injEq])
        | (simp at h)

theorem from_str_err_iff (prof : Profile) (s : List Nat) (hb : ∀ c ∈ s, c < 256) (hlen : s.length < 2 ^ 56) :
    (∃ e, fromStr prof s = .ok (.error e)) ↔ (Spec.parseSpec s = .bad ∨ Spec.parseSpec s = .empty) := by
  have h := from_str_spec prof s hb hlen
  cases hp : Spec.parseSpec s <;> cases hr : fromStr prof s with
  | panic k => rw [hp, hr] at h; exact absurd h (by simp)
  | ok r =>
    cases r with
    | error e => rw [hp, hr] at h; simp_all
    | ok x => rw [hp, hr] at h; simp_all

theorem from_str_empty_iff (prof : Profile) (s : List Nat) (hb : ∀ c ∈ s, c < 256) (hlen : s.length < 2 ^ 56) :
    fromStr prof s = .ok (.error .empty) ↔ Spec.parseSpec s = .empty := by
  have h := from_str_spec prof s hb hlen
  cases hp : Spec.parseSpec s <;> cases hr : fromStr prof s with
  | panic k => rw [hp, hr] at h; exact absurd h (by simp)
  | ok r =>
    cases r with
    | error e => rw [hp, hr] at h; simp_all
    | ok x => rw [hp, hr] at h; simp_all

/-- same accepted value, rejected together, `Empty` together -/
def SameVerdict (prof : Profile) (s t : List Nat) : Prop :=
  (∀ d, fromStr prof s = .ok (.ok d) ↔ fromStr prof t = .ok (.ok d)) ∧
  ((∃ e, fromStr prof s = .ok (.error e)) ↔ (∃ e, fromStr prof t = .ok (.error e))) ∧
  (fromStr prof s = .ok (.error .empty) ↔ fromStr prof t = .ok (.error .empty))

theorem sameVerdict_of_parseSpec_eq (prof : Profile) (s t : List Nat)
    (hbs : ∀ c ∈ s, c < 256) (hls : s.length < 2 ^ 56) (hbt : ∀ c ∈ t, c < 256) (hlt : t.length < 2 ^ 56)
    (h : Spec.parseSpec s = Spec.parseSpec t) : SameVerdict prof s t := by
  refine ⟨fun d => ?_, ?_, ?_⟩
  · rw [from_str_ok_iff prof s hbs hls, from_str_ok_iff prof t hbt hlt, h]
  · rw [from_str_err_iff prof s hbs hls, from_str_err_iff prof t hbt hlt, h]
  · rw [from_str_empty_iff prof s hbs hls, from_str_empty_iff prof t hbt hlt, h]

/-! #### reference-parser lemmas -/
def negRes : Spec.ParseRes → Spec.ParseRes
  | .ok c p => .ok (-c) p
  | r => r

theorem optSign_nosign (c : Nat) (s : List Nat) (h45 : c ≠ 45) (h43 : c ≠ 43) :
    Spec.optSign (c :: s) = (false, c :: s) := by
  unfold Spec.optSign
  split
  · simp_all
  · simp_all
  · rfl

theorem parseSpec_empty_iff (s : List Nat) : Spec.parseSpec s = .empty ↔ s = [] := by
  constructor
  · intro h
    cases s with
    | nil => rfl
    | cons c cs =>
      exfalso
      unfold Spec.parseSpec at h
      simp only [List.isEmpty_cons] at h
      repeat' split at h
      all_goals simp_all
  · intro h; subst h; rfl

theorem parseSpec_minus (c : Nat) (s : List Nat) (h45 : c ≠ 45) (h43 : c ≠ 43) :
    Spec.parseSpec (45 :: c :: s) = negRes (Spec.parseSpec (c :: s)) := by
  have h1 : Spec.optSign (45 :: c :: s) = (true, c :: s) := rfl
  unfold Spec.parseSpec
  rw [h1, optSign_nosign c s h45 h43]
  simp only [List.isEmpty_cons]
  repeat' split
  all_goals simp_all [negRes]

theorem optSign_digit (c : Nat) (s : List Nat) (hd : Spec.isDig c = true) :
    Spec.optSign (c :: s) = (false, c :: s) := by
  unfold Spec.optSign
  split
  · simp [Spec.isDig] at hd; simp_all
  · simp [Spec.isDig] at hd; simp_all
  · rfl

theorem digitsVal_zero_cons (ds : List Nat) : Spec.digitsVal (48 :: ds) = Spec.digitsVal ds := by
  simp [Spec.digitsVal]

theorem parseSpec_leading_zero (d : Nat) (s : List Nat) (hd : Spec.isDig d = true) :
    Spec.parseSpec (48 :: d :: s) = Spec.parseSpec (d :: s) := by
  have h0 : Spec.isDig 48 = true := by decide
  unfold Spec.parseSpec
  rw [optSign_digit 48 _ h0, optSign_digit d s hd]
  have hs : Spec.spanDigits (48 :: d :: s) = (48 :: (Spec.spanDigits (d :: s)).1, (Spec.spanDigits (d :: s)).2) := by
    conv => lhs; unfold Spec.spanDigits
    simp [h0]
  have hs2 : Spec.spanDigits (d :: s) = (d :: (Spec.spanDigits s).1, (Spec.spanDigits s).2) := by
    conv => lhs; unfold Spec.spanDigits
    simp [hd]
  simp only [List.isEmpty_cons, hs, hs2, List.cons_append, digitsVal_zero_cons]

/-- `e` ↦ `E`, every other byte unchanged -/
def upperE (c : Nat) : Nat := if c = 101 then 69 else c

/-- the exponent part and the final decision of `Spec.parseSpec`, given sign, integer digits, fraction digits, rest -/
def expSpec (neg : Bool) (ip fp s : List Nat) : Spec.ParseRes :=
  if ip.isEmpty ∧ fp.isEmpty then .bad else
  let expPart : Option (Int × List Nat) :=
    match s with
    | c :: r =>
      if c = 101 ∨ c = 69 then
        let (eneg, r) := Spec.optSign r
        let (ed, r') := Spec.spanDigits r
        if ed.isEmpty then none else some ((if eneg then -(Spec.digitsVal ed : Int) else Spec.digitsVal ed), r')
      else some (0, c :: r)
    | [] => some (0, [])
  match expPart with
  | none => .bad
  | some (e, rest) =>
    if !rest.isEmpty then .bad else
    let D : Nat := Spec.digitsVal (ip ++ fp)
    let f : Int := fp.length
    let sgn (c : Nat) : Int := if neg then -(c : Int) else c
    if e ≥ f then
      if D = 0 then .ok 0 0
      else if e - f > 38 then .bad
      else
        let C := D * 10 ^ (e - f).toNat
        if (C : Int) ≤ (2 : Int) ^ 127 - 1 then .ok (sgn C) 0 else .bad
    else
      let nf := f - e
      if nf > 18 then .bad
      else if (D : Int) ≤ (2 : Int) ^ 127 - 1 then .ok (sgn D) nf.toNat else .bad

def fracSpec (neg : Bool) (ip s : List Nat) : Spec.ParseRes :=
  let (fp, s, _) : List Nat × List Nat × Bool :=
    match s with
    | 46 :: r => let (f, r') := Spec.spanDigits r; (f, r', true)
    | _ => ([], s, false)
  expSpec neg ip fp s

theorem fracSpec_point (neg : Bool) (ip r : List Nat) :
    fracSpec neg ip (46 :: r) = expSpec neg ip (Spec.spanDigits r).1 (Spec.spanDigits r).2 := rfl

theorem fracSpec_nopoint (neg : Bool) (ip : List Nat) (c : Nat) (r : List Nat) (h : c ≠ 46) :
    fracSpec neg ip (c :: r) = expSpec neg ip [] (c :: r) := by
  unfold fracSpec
  split
  rename_i heq
  split at heq
  · simp_all
  · cases heq; rfl

theorem parseSpec_stages (s : List Nat) :
    Spec.parseSpec s =
      if s.isEmpty then .empty
      else fracSpec (Spec.optSign s).1 (Spec.spanDigits (Spec.optSign s).2).1 (Spec.spanDigits (Spec.optSign s).2).2 := rfl

theorem isDig_upperE (c : Nat) : Spec.isDig (upperE c) = Spec.isDig c := by
  unfold upperE; split
  · subst_vars; decide
  · rfl

theorem upperE_of_isDig (c : Nat) (h : Spec.isDig c = true) : upperE c = c := by
  unfold upperE; split
  · subst_vars; exact absurd h (by decide)
  · rfl

theorem spanDigits_upperE (s : List Nat) :
    Spec.spanDigits (s.map upperE) = ((Spec.spanDigits s).1, (Spec.spanDigits s).2.map upperE) := by
  induction s with
  | nil => rfl
  | cons c cs ih =>
    simp only [List.map_cons]
    unfold Spec.spanDigits
    rw [isDig_upperE]
    by_cases h : Spec.isDig c = true
    · simp [h, ih, upperE_of_isDig c h]
    · simp [h]

theorem optSign_upperE (s : List Nat) :
    Spec.optSign (s.map upperE) = ((Spec.optSign s).1, (Spec.optSign s).2.map upperE) := by
  cases s with
  | nil => rfl
  | cons c cs =>
    by_cases h45 : c = 45
    · subst h45; rfl
    · by_cases h43 : c = 43
      · subst h43; rfl
      · have h1 : upperE c ≠ 45 := by unfold upperE; split <;> omega
        have h2 : upperE c ≠ 43 := by unfold upperE; split <;> omega
        simp only [List.map_cons]
        rw [optSign_nosign _ _ h1 h2, optSign_nosign _ _ h45 h43]
        rfl

theorem expSpec_upperE (neg : Bool) (ip fp s : List Nat) :
    expSpec neg ip fp (s.map upperE) = expSpec neg ip fp s := by
  cases s with
  | nil => rfl
  | cons c r =>
    have hc : (upperE c = 101 ∨ upperE c = 69) ↔ (c = 101 ∨ c = 69) := by unfold upperE; split <;> omega
    unfold expSpec
    simp only [List.map_cons, hc, optSign_upperE, spanDigits_upperE]
    by_cases h : c = 101 ∨ c = 69
    · by_cases he : (Spec.spanDigits (Spec.optSign r).2).1 = []
      · simp [h, he]
      · simp [h, he]
    · simp [h]

theorem fracSpec_upperE (neg : Bool) (ip s : List Nat) :
    fracSpec neg ip (s.map upperE) = fracSpec neg ip s := by
  cases s with
  | nil => rfl
  | cons c r =>
    by_cases h : c = 46
    · subst h
      show fracSpec neg ip (46 :: r.map upperE) = _
      simp only [fracSpec_point, spanDigits_upperE, expSpec_upperE]
    · have h1 : upperE c ≠ 46 := by unfold upperE; split <;> omega
      simp only [List.map_cons]
      rw [fracSpec_nopoint _ _ _ _ h1, fracSpec_nopoint _ _ _ _ h, ← List.map_cons, expSpec_upperE]

theorem parseSpec_upperE (s : List Nat) : Spec.parseSpec (s.map upperE) = Spec.parseSpec s := by
  rw [parseSpec_stages, parseSpec_stages]
  simp only [optSign_upperE, spanDigits_upperE, fracSpec_upperE, List.isEmpty_map]

/-! #### the laws -/

/-- law 1: an explicit `+` in front of a non-empty literal that does not itself start with a sign is irrelevant — a plain
    equation of the model (same value, same error kind, any length).  False for the empty literal and for a signed one (below). -/
theorem from_str_plus (prof : Profile) (c : Nat) (s : List Nat) (h45 : c ≠ 45) (h43 : c ≠ 43) :
    fromStr prof (43 :: c :: s) = fromStr prof (c :: s) := by
  have : takeSign (43 :: c :: s) = takeSign (c :: s) := by simp [takeSign, h45, h43]
  unfold fromStr strToDec
  rw [this]

example : fromStr Profile.dev [43, 49, 46, 53] = fromStr Profile.dev [49, 46, 53] := by decide   -- "+1.5" / "1.5"
/-- counter-examples of the unrestricted statement: "+" is `Invalid` but "" is `Empty`; "+-1" is rejected but "-1" is accepted -/
example : fromStr Profile.dev [43] ≠ fromStr Profile.dev [] := by decide
example : fromStr Profile.dev [43, 45, 49] ≠ fromStr Profile.dev [45, 49] := by decide

/-- law 2 (values): a `-` in front of an unsigned literal negates the coefficient and keeps the fractional digits — and only so -/
theorem from_str_minus (prof : Profile) (c : Nat) (s : List Nat) (h45 : c ≠ 45) (h43 : c ≠ 43)
    (hb : ∀ x ∈ 45 :: c :: s, x < 256) (hlen : (45 :: c :: s).length < 2 ^ 56) (d : Dec) :
    fromStr prof (45 :: c :: s) = .ok (.ok ⟨-d.coeff, d.nfrac⟩) ↔ fromStr prof (c :: s) = .ok (.ok d) := by
  have hb' : ∀ x ∈ c :: s, x < 256 := fun x hx => hb x (List.mem_cons_of_mem _ hx)
  have hlen' : (c :: s).length < 2 ^ 56 := by simp only [List.length_cons] at hlen ⊢; omega
  rw [from_str_ok_iff prof _ hb hlen, from_str_ok_iff prof _ hb' hlen', parseSpec_minus c s h45 h43]
  cases Spec.parseSpec (c :: s) <;> simp [negRes]

/-- law 2 (direction asked for) -/
theorem from_str_minus_ok (prof : Profile) (c : Nat) (s : List Nat) (h45 : c ≠ 45) (h43 : c ≠ 43)
    (hb : ∀ x ∈ 45 :: c :: s, x < 256) (hlen : (45 :: c :: s).length < 2 ^ 56) (d : Dec)
    (h : fromStr prof (c :: s) = .ok (.ok d)) : fromStr prof (45 :: c :: s) = .ok (.ok ⟨-d.coeff, d.nfrac⟩) :=
  (from_str_minus prof c s h45 h43 hb hlen d).mpr h

/-- law 2 (errors): rejected with `-` exactly when rejected without, and never as `Empty`.  (The *kind* of a non-`Empty` error is
    not fixed by the grammar, so it is not part of a law derived from `from_str_spec`.) -/
theorem from_str_minus_err (prof : Profile) (c : Nat) (s : List Nat) (h45 : c ≠ 45) (h43 : c ≠ 43)
    (hb : ∀ x ∈ 45 :: c :: s, x < 256) (hlen : (45 :: c :: s).length < 2 ^ 56) :
    ((∃ e, fromStr prof (45 :: c :: s) = .ok (.error e)) ↔ (∃ e, fromStr prof (c :: s) = .ok (.error e))) ∧
    fromStr prof (45 :: c :: s) ≠ .ok (.error .empty) ∧ fromStr prof (c :: s) ≠ .ok (.error .empty) := by
  have hb' : ∀ x ∈ c :: s, x < 256 := fun x hx => hb x (List.mem_cons_of_mem _ hx)
  have hlen' : (c :: s).length < 2 ^ 56 := by simp only [List.length_cons] at hlen ⊢; omega
  refine ⟨?_, ?_, ?_⟩
  · rw [from_str_err_iff prof _ hb hlen, from_str_err_iff prof _ hb' hlen', parseSpec_minus c s h45 h43]
    cases Spec.parseSpec (c :: s) <;> simp [negRes]
  · rw [Ne, from_str_empty_iff prof _ hb hlen, parseSpec_empty_iff]; simp
  · rw [Ne, from_str_empty_iff prof _ hb' hlen', parseSpec_empty_iff]; simp

example : fromStr Profile.dev [49, 46, 53] = .ok (.ok ⟨15, 1⟩) ∧ fromStr Profile.dev [45, 49, 46, 53] = .ok (.ok ⟨-15, 1⟩) := by
  decide   -- "1.5" / "-1.5"
/-- on a sample the error kind is the same too ("1e" / "-1e": `Invalid`) -/
example : fromStr Profile.dev [49, 101] = .ok (.error .invalid) ∧ fromStr Profile.dev [45, 49, 101] = .ok (.error .invalid) := by
  decide
/-- counter-example for a literal that already has a sign: "-1" is −1 but "--1" is not 1 -/
example : fromStr Profile.dev [45, 49] = .ok (.ok ⟨-1, 0⟩) ∧ fromStr Profile.dev [45, 45, 49] ≠ .ok (.ok ⟨1, 0⟩) := by decide

/-- law 3: the exponent marker is case-insensitive — replacing every `e` of a literal by `E` changes nothing -/
theorem from_str_exp_marker_case (prof : Profile) (s : List Nat) (hb : ∀ c ∈ s, c < 256) (hlen : s.length < 2 ^ 56) :
    SameVerdict prof (s.map upperE) s := by
  apply sameVerdict_of_parseSpec_eq prof _ _ _ _ hb hlen (parseSpec_upperE s)
  · intro c hc
    rw [List.mem_map] at hc
    obtain ⟨a, ha, rfl⟩ := hc
    have := hb a ha
    unfold upperE; split <;> omega
  · rw [List.length_map]; exact hlen

/-- law 3 for a literal with exactly one `e` -/
theorem from_str_exp_marker_case_one (prof : Profile) (pre post : List Nat)
    (hpre : 101 ∉ pre) (hpost : 101 ∉ post)
    (hb : ∀ c ∈ pre ++ 101 :: post, c < 256) (hlen : (pre ++ 101 :: post).length < 2 ^ 56) :
    SameVerdict prof (pre ++ 69 :: post) (pre ++ 101 :: post) := by
  have hid : ∀ l : List Nat, 101 ∉ l → l.map upperE = l := by
    intro l hl
    induction l with
    | nil => rfl
    | cons a l ih =>
      simp only [List.mem_cons, not_or] at hl
      have ha : upperE a = a := by unfold upperE; split <;> omega
      rw [List.map_cons, ha, ih hl.2]
  have h := from_str_exp_marker_case prof (pre ++ 101 :: post) hb hlen
  rw [List.map_append, List.map_cons, hid pre hpre, hid post hpost] at h
  exact h

example : fromStr Profile.dev [49, 46, 53, 69, 45, 50] = .ok (.ok ⟨15, 3⟩) ∧
    fromStr Profile.dev [49, 46, 53, 101, 45, 50] = .ok (.ok ⟨15, 3⟩) := by decide   -- "1.5E-2" / "1.5e-2"

/-- law 4: a zero in front of a digit is irrelevant -/
theorem from_str_leading_zero (prof : Profile) (d : Nat) (s : List Nat) (hd : Spec.isDig d = true)
    (hb : ∀ x ∈ 48 :: d :: s, x < 256) (hlen : (48 :: d :: s).length < 2 ^ 56) :
    SameVerdict prof (48 :: d :: s) (d :: s) := by
  have hb' : ∀ x ∈ d :: s, x < 256 := fun x hx => hb x (List.mem_cons_of_mem _ hx)
  have hlen' : (d :: s).length < 2 ^ 56 := by simp only [List.length_cons] at hlen ⊢; omega
  exact sameVerdict_of_parseSpec_eq prof _ _ hb hlen hb' hlen' (parseSpec_leading_zero d s hd)

example : fromStr Profile.dev [48, 55, 46, 50] = fromStr Profile.dev [55, 46, 50] := by decide   -- "07.2" / "7.2"
/-- a zero in front of a non-digit does matter: "0.5" is accepted, ".5" too, but "0e1" is 0 while "e1" is rejected -/
example : fromStr Profile.dev [48, 101, 49] = .ok (.ok ⟨0, 0⟩) ∧ fromStr Profile.dev [101, 49] = .ok (.error .invalid) := by decide

/-- law 5: the empty string is the only input with error kind `Empty` -/
theorem from_str_empty_only (prof : Profile) (s : List Nat) (hb : ∀ c ∈ s, c < 256) (hlen : s.length < 2 ^ 56) :
    fromStr prof s = .ok (.error .empty) ↔ s = [] := by
  rw [from_str_empty_iff prof s hb hlen, parseSpec_empty_iff]

example : fromStr Profile.dev [] = .ok (.error .empty) ∧ fromStr Profile.dev [43] = .ok (.error .invalid) ∧
    fromStr Profile.dev [32] = .ok (.error .invalid) := by decide

end Fpdec.Props.C06
