import Fpdec.Kernels.Consts
import Fpdec.Kernels.Misc
import Fpdec.Kernels.FromStr
import Fpdec.Kernels.Parse
import Fpdec.Kernels.Swar
import Fpdec.Lemmas.Parse
import Fpdec.Props.C06_Sites

/-!
# C06 — Parsing accepts exactly the literal grammar and never yields a wrong value

`from_str_spec`: for EVERY byte string shorter than 2^56 bytes, `Decimal::from_str` (same function behind
`TryFrom<&str>` / `TryFrom<String>`) returns `Ok(d)` exactly when the reference parser `Spec.parseSpec` — one character at a
time, unbounded integers, representability decided at the end — accepts, and then `d` has precisely the literal's digits as
coefficient and `max(0, fraction length − exponent)` fractional digits; every other string gives `Err`, `Empty` only for the
empty string; no panic, in any build profile.  Ingredients (all proved, no `bv_decide`): the two SWAR tricks
(`swar_digit_test`, `swar_to_u64`), the saturating accumulation (`accum_coeff_spec`), exponent saturation never changing the verdict.

Domain restriction: `s.length < 2^56`.  The exponent accumulator saturates at `isize::MAX / 100`; a literal whose *fraction*
had more digits than that could compensate a saturated exponent.  Such a string (> 64 PiB) cannot exist in an address space.
Not modelled: the `unsafe` slice operations are represented by the pattern matches that dominate them (`first()` returned
`Some`, `len() >= 8`), so out-of-bounds reads are excluded by construction of the model and by the correspondence run (which
would crash or diverge), not by a theorem about pointers.
-/

namespace Fpdec.Props.C06
open Fpdec Fpdec.Model

theorem swar_digit_test (bs : List Nat) (hlen : bs.length = 8) (hb : ∀ c ∈ bs, c < 256) :
    chunkContains8Digits (leBytes bs) = true ↔ ∀ c ∈ bs, Spec.isDig c = true :=
  chunkContains8Digits_iff bs hlen hb

theorem swar_to_u64 (bs : List Nat) (hlen : bs.length = 8) (hd : ∀ c ∈ bs, Spec.isDig c = true) :
    chunkToU64 (leBytes bs) = Spec.digitsVal bs :=
  chunkToU64_val bs hlen hd

theorem accum_coeff_spec (c : Nat) (s : List Nat) (hb : ∀ x ∈ s, x < 256) (hc : c < U128_MOD) :
    accumCoeff c s =
      (Nat.min (c * 10 ^ (Spec.spanDigits s).1.length + Spec.digitsVal (Spec.spanDigits s).1) (U128_MOD - 1),
       (Spec.spanDigits s).2, (Spec.spanDigits s).1.length) :=
  accumCoeff_spec c s hb hc

/-- the parser against the grammar -/
theorem from_str_spec (prof : Profile) (s : List Nat) (hb : ∀ c ∈ s, c < 256) (hlen : s.length < 2 ^ 56) :
    match Spec.parseSpec s, fromStr prof s with
    | .ok c p, .ok (.ok d) => d = ⟨c, p⟩
    | .empty, .ok (.error e) => e = ParseErr.empty
    | .bad, .ok (.error e) => e ≠ ParseErr.empty
    | _, _ => False :=
  fromStr_spec prof s hb hlen

/-- no input makes the parser panic (corollary) -/
theorem from_str_never_panics (prof : Profile) (s : List Nat) (hb : ∀ c ∈ s, c < 256) (hlen : s.length < 2 ^ 56) :
    ∃ r, fromStr prof s = .ok r := by
  have h := fromStr_spec prof s hb hlen
  cases hr : fromStr prof s with
  | ok r => exact ⟨r, rfl⟩
  | panic k =>
    rw [hr] at h
    cases hp : Spec.parseSpec s <;> rw [hp] at h <;> exact absurd h (by simp)

/-! ### non-vacuity: former defects D1–D5 are now theorems' instances -/
example : Spec.parseSpec [49, 101, 48, 48, 49] = .ok 10 0 ∧ fromStr Profile.dev [49, 101, 48, 48, 49] = .ok (.ok ⟨10, 0⟩) := by
  decide   -- "1e001"

/-! ### translated kernels
The Lean definitions `Gen.K.*` are regenerated from the Rust source on every run by `tools/fpkernels.py` (expression-level
translation).  These theorems tie them to the hand-written model the property theorems above are about: a change of the Rust
kernel that changes its translation breaks them. -/
theorem kernel_chunk_contains_8_digits (prof : Profile) (c : Nat) :
    Gen.K.chunk_contains_8_digits prof c = .ok (chunkContains8Digits c) := Kernels.chunk_contains_8_digits_eq prof c
theorem kernel_chunk_to_u64 (prof : Profile) (c : Nat) :
    Gen.K.chunk_to_u64 prof c = .ok (chunkToU64 c) := Kernels.chunk_to_u64_eq prof c

/-- `impl FromStr for Decimal` (everything after the parser call), as translated on this run -/
theorem kernel_decimal_from_str (prof : Profile) (lit : List Nat) : Gen.K.decimal_from_str prof lit = fromStr prof lit :=
  Kernels.decimal_from_str_eq prof lit

/-- the parser itself (`fpdec-core/src/parser.rs`: cursor methods, `skip_leading_zeroes`, `accum_coeff`, `accum_exp` — `while` and
    `while let` loops as fuel-bounded recursion — and `str_to_dec`), as translated on this run; the only hypothesis is Rust's own
    bound on the length of a slice -/
theorem kernel_lit_skip_leading_zeroes (prof : Profile) (s : List Nat) (h : s.length < 2 ^ 64) :
    Gen.K.lit_skip_leading_zeroes prof s = .ok (skipLeadingZeroes s) := Kernels.lit_skip_leading_zeroes_eq prof s h
theorem kernel_lit_accum_coeff (prof : Profile) (s : List Nat) (coeff : Nat) (h : s.length < 2 ^ 64) :
    Gen.K.lit_accum_coeff prof s coeff = .ok ((accumCoeff coeff s).2.1, (accumCoeff coeff s).1, (accumCoeff coeff s).2.2) :=
  Kernels.lit_accum_coeff_eq prof s coeff h
theorem kernel_lit_accum_exp (prof : Profile) (s : List Nat) (exp : Int) (h : s.length < 2 ^ 64) :
    Gen.K.lit_accum_exp prof s exp = .ok ((accumExp exp s).2, (accumExp exp s).1, s.length - (accumExp exp s).2.length) :=
  Kernels.lit_accum_exp_eq prof s exp h
theorem kernel_str_to_dec (prof : Profile) (lit : List Nat) (h : lit.length < 2 ^ 63) :
    Gen.K.str_to_dec prof lit = strToDec prof lit := Kernels.str_to_dec_eq prof lit h

/-- `TryFrom<&str>` / `TryFrom<String>` forward to `from_str` -/
theorem kernel_decimal_try_from_str (prof : Profile) (lit : List Nat) :
    Gen.K.decimal_try_from_str prof lit = fromStr prof lit := Kernels.decimal_try_from_str_eq prof lit
theorem kernel_decimal_try_from_string (prof : Profile) (lit : List Nat) :
    Gen.K.decimal_try_from_string prof lit = fromStr prof lit := Kernels.decimal_try_from_string_eq prof lit

/-- the associated constants of `Decimal` as extracted from src/lib.rs on this run are the model's (`ZERO`/`ONE` are what the
    translated kernels return for `Self::ZERO` / `Self::ONE`; `MIN ..= MAX` with at most `DELTA`'s digits is the domain `Dom`) -/
theorem decimal_consts :
    Gen.DECIMAL_CONSTS =
      [("ZERO", Dec.ZERO.coeff, Dec.ZERO.nfrac), ("ONE", Dec.ONE.coeff, Dec.ONE.nfrac),
       ("NEG_ONE", Dec.NEG_ONE.coeff, Dec.NEG_ONE.nfrac), ("TWO", Dec.TWO.coeff, Dec.TWO.nfrac),
       ("TEN", Dec.TEN.coeff, Dec.TEN.nfrac), ("MAX", Dec.MAX.coeff, Dec.MAX.nfrac), ("MIN", Dec.MIN.coeff, Dec.MIN.nfrac),
       ("DELTA", Dec.DELTA.coeff, Dec.DELTA.nfrac)] := Kernels.decimal_consts_tie
theorem dom_is_min_max (d : Dec) :
    (Dec.MIN.coeff ≤ d.coeff ∧ d.coeff ≤ Dec.MAX.coeff ∧ d.nfrac ≤ Dec.DELTA.nfrac) ↔ Dom d := Kernels.dom_is_min_max d

end Fpdec.Props.C06
