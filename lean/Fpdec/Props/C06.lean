import Fpdec.Lemmas.Dom
import Fpdec.Props.C06_Sites

/-! # C06 — property theorems (under construction: see DESIGN.md section 6) -/

namespace Fpdec.Props.C06
open Fpdec Fpdec.Model

end Fpdec.Props.C06
