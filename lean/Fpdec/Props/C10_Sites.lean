import Fpdec.Gen.Sites
import Fpdec.Model.Pinned

/-! Site ties for C10 (written by tools/mksites.py): the flavour skeleton of every source file the property's operations
execute, as regenerated from /repo on this run, equals the skeleton the model was written against. -/

namespace Fpdec.Props.C10

theorem tie_sites_fpdec_core_src_lib : Gen.sites_fpdec_core_src_lib = Pinned.sites_fpdec_core_src_lib := by decide +kernel
theorem tie_sites_fpdec_core_src_powers_of_ten : Gen.sites_fpdec_core_src_powers_of_ten = Pinned.sites_fpdec_core_src_powers_of_ten := by decide +kernel
theorem tie_sites_src_lib : Gen.sites_src_lib = Pinned.sites_src_lib := by decide +kernel
theorem tie_sites_src_binops_mod : Gen.sites_src_binops_mod = Pinned.sites_src_binops_mod := by decide +kernel
theorem tie_sites_src_binops_rem : Gen.sites_src_binops_rem = Pinned.sites_src_binops_rem := by decide +kernel
theorem tie_sites_src_binops_checked_rem : Gen.sites_src_binops_checked_rem = Pinned.sites_src_binops_checked_rem := by decide +kernel
theorem tie_sites_src_binops_cmp : Gen.sites_src_binops_cmp = Pinned.sites_src_binops_cmp := by decide +kernel

end Fpdec.Props.C10
