import Fpdec.Kernels.Norm
import Fpdec.Props.C04
import Fpdec.Props.C03_Sites

/-!
# C03 — Division yields the quotient correctly rounded to 18 fractional digits

`div_spec`, `checked_div_spec` and the integer-operand shapes: for all operands of the domain, all eight thread modes and every
build profile, `x / y` is the exact rational quotient rounded ONCE to 18 fractional digits (`C04.checkedDivRounded_spec` with
`n = 18`), returned with trailing fractional zeros removed (`normalize_spec`: exactly the trailing zeros, zero becomes `(0, 0)`);
a divisor equal to one returns the dividend unchanged, a zero dividend gives `0`; a zero divisor panics / yields `None`; the only
other failure is the overflow signal when the rounded quotient scaled by 10^18 does not fit an i128.
Relative to `C04.WideDiv` for the 256-bit path (discharged in `Props/C16.lean`).
-/

namespace Fpdec.Props.C03
open Fpdec Fpdec.Model

/-- the loop of `normalize` against the spec's digit stripping -/
theorem normalize_go_eq : ∀ (f : Nat) (c : Int) (n : Nat), c ≠ 0 → n ≤ f →
    normalize.go f c n = Spec.normalizeSpec (f + 1) c n := by
  intro f
  induction f with
  | zero =>
    intro c n hc hn
    have : n = 0 := by omega
    subst this
    simp [normalize.go, Spec.normalizeSpec, hc]
  | succ f ih =>
    intro c n hc hn
    unfold normalize.go Spec.normalizeSpec
    simp only [hc, if_false]
    have ht : c.tmod 10 = 0 ↔ c % 10 = 0 := tmod_zero_iff c 10
    by_cases h : c % 10 = 0 ∧ n > 0
    · have h1 : c.tmod 10 = 0 ∧ n > 0 := ⟨ht.mpr h.1, h.2⟩
      have h2 : n > 0 ∧ c % 10 = 0 := ⟨h.2, h.1⟩
      simp only [h1, h2, and_self, if_true]
      have hdiv : c.tdiv 10 = c / 10 := by
        rw [Int.tdiv_eq_ediv]
        have : (10 : Int) ∣ c := Int.dvd_of_emod_eq_zero h.1
        simp [this]
      rw [hdiv]
      have hc10 : c / 10 ≠ 0 := by omega
      exact ih (c / 10) (n - 1) hc10 (by omega)
    · have h1 : ¬ (c.tmod 10 = 0 ∧ n > 0) := fun hh => h ⟨ht.mp hh.1, hh.2⟩
      have h2 : ¬ (n > 0 ∧ c % 10 = 0) := fun hh => h ⟨hh.2, hh.1⟩
      simp only [h1, h2, if_false]

/-- `normalize` strips exactly the trailing zeros (18-digit input) -/
theorem normalize_spec (c : Int) : normalize c 18 = Spec.normalizeSpec 19 c 18 := by
  unfold normalize
  by_cases hc : c = 0
  · subst hc; simp [Spec.normalizeSpec]
  · simp only [hc, if_false]
    exact normalize_go_eq 18 c 18 hc (by omega)

/-- what `Spec.div` does after the short cuts -/
def specDivTail (tm : Mode) (a : Int) (p : Nat) (b : Int) (q : Nat) : Spec.Exp :=
  match C04.specDivCore tm a p b q 18 with
  | .val c n => let (c, n) := Spec.normalizeSpec 19 c n; .val c n
  | .valOrOvf c n => let (c, n) := Spec.normalizeSpec 19 c n; .valOrOvf c n
  | e => e

theorem specDivCore_val18 (tm : Mode) (a : Int) (p : Nat) (b : Int) (q : Nat) (c : Int) (n : Nat) :
    (C04.specDivCore tm a p b q 18 = .val c n → n = 18) ∧ (C04.specDivCore tm a p b q 18 = .valOrOvf c n → n = 18) := by
  unfold C04.specDivCore
  rw [valFit_eq]
  constructor <;> intro h <;> (split at h <;> [skip; split at h]) <;> simp at h <;> omega

/-- `divCore` (kernel with n = 18, then normalize), for EVERY i128 dividend (`i128::MIN` included: an integer operand, `p = 0`);
    the side condition excludes `i128::MIN` with 18 fractional digits over `-1` — not a `Decimal` — where the dividend would not be
    scaled and `i128::MIN / -1` is evaluated (`C04.checkedDivRounded_min_neg_one`) -/
theorem divCore_spec_full (hw : C04.WideDiv) (prof : Profile) (tm : Mode) (a : Int) (p : Nat) (b : Int) (q : Nat)
    (ha : I128_MIN ≤ a ∧ a ≤ I128_MAX) (hb : I128_MIN ≤ b ∧ b ≤ I128_MAX) (hb0 : b ≠ 0) (hp : p ≤ 18) (hq : q ≤ 18)
    (hc : ¬ (a = I128_MIN ∧ b = -1 ∧ 18 + q ≤ p)) :
    Spec.allowedChecked (specDivTail tm a p b q) (outOptPair (divCore prof tm a p b q)) = true := by
  have hk := C04.checkedDivRounded_spec hw prof tm a p b q 18 ha hb hb0 hp hq (by omega) hc
  unfold divCore specDivTail
  simp only [max_nfrac]
  generalize C04.specDivCore tm a p b q 18 = e at hk ⊢
  cases hr : checkedDivRounded prof tm a p b q 18 with
  | panic k => rw [hr] at hk; cases e <;> simp [C04.outOptInt, Spec.allowedChecked] at hk ⊢
  | ok o =>
    rw [hr] at hk
    cases o with
    | none => cases e <;> simp [C04.outOptInt, Spec.allowedChecked] at hk ⊢
    | some c =>
      simp only [Outcome.bind_ok]
      rw [normalize_spec c]
      cases e with
      | val c' n' =>
        simp only [C04.outOptInt, Spec.allowedChecked, beq_iff_eq, Prod.mk.injEq] at hk
        obtain ⟨h1, h2⟩ := hk
        subst h1; subst h2
        simp [Spec.allowedChecked]
      | valOrOvf c' n' =>
        simp only [C04.outOptInt, Spec.allowedChecked, beq_iff_eq, Prod.mk.injEq] at hk
        obtain ⟨h1, h2⟩ := hk
        subst h1; subst h2
        simp [Spec.allowedChecked]
      | ovf => simp [C04.outOptInt, Spec.allowedChecked] at hk
      | divzero => simp [C04.outOptInt, Spec.allowedChecked] at hk
      | nfrac => simp [C04.outOptInt, Spec.allowedChecked] at hk
      | none => simp [C04.outOptInt, Spec.allowedChecked] at hk
      | any => simp [Spec.allowedChecked]

/-- `divCore_spec_full` for a dividend of the Decimal coefficient range -/
theorem divCore_spec (hw : C04.WideDiv) (prof : Profile) (tm : Mode) (a : Int) (p : Nat) (b : Int) (q : Nat)
    (ha : I128_MIN < a ∧ a ≤ I128_MAX) (hb : I128_MIN ≤ b ∧ b ≤ I128_MAX) (hb0 : b ≠ 0) (hp : p ≤ 18) (hq : q ≤ 18) :
    Spec.allowedChecked (specDivTail tm a p b q) (outOptPair (divCore prof tm a p b q)) = true :=
  divCore_spec_full hw prof tm a p b q ⟨Int.le_of_lt ha.1, ha.2⟩ hb hb0 hp hq (fun h => by omega)

theorem spec_div_tail (tm : Mode) (a : Int) (p : Nat) (b : Int) (q : Nat) (hb : b ≠ 0) (ha : a ≠ 0)
    (h1 : ¬ b = (10 : Int) ^ q) : Spec.div tm a p b q = specDivTail tm a p b q := by
  unfold Spec.div specDivTail C04.specDivCore
  simp only [hb, ha, if_false, C02.isOne_eq, h1, decide_false, Bool.false_eq_true]
  cases Spec.valFit (Spec.specRoundQ tm (a * 10 ^ (18 + q)) (b * 10 ^ p)) 18 <;> rfl

theorem specDivTail_shape (tm : Mode) (a : Int) (p : Nat) (b : Int) (q : Nat) :
    specDivTail tm a p b q ≠ .divzero ∧ specDivTail tm a p b q ≠ .none ∧ specDivTail tm a p b q ≠ .nfrac := by
  unfold specDivTail
  obtain ⟨s1, s2, s3⟩ := C04.specDivCore_shape tm a p b q 18
  cases h : C04.specDivCore tm a p b q 18 <;> simp_all

/-- `x / y` on two Decimals (all reference forms and `/=` forward to this body) -/
theorem div_spec (hw : C04.WideDiv) (prof : Profile) (tm : Mode) (x y : Dec) (hx : Dom x) (hy : Dom y) :
    Spec.allowedOp (Spec.div tm x.coeff x.nfrac y.coeff y.nfrac) (outPair (div prof tm x y)) = true := by
  obtain ⟨a, p⟩ := x
  obtain ⟨b, q⟩ := y
  unfold div
  simp only [eqZero]
  by_cases hb0 : b = 0
  · simp [hb0, Spec.div, Spec.allowedOp]
  · simp only [hb0, decide_false, Bool.false_eq_true, if_false]
    by_cases ha0 : a = 0
    · simp [ha0, hb0, Spec.div, Spec.allowedOp, Dec.ZERO]
    · simp only [ha0, decide_false, Bool.false_eq_true, if_false]
      rw [C02.eqOne_eq ⟨b, q⟩ hy.2.2]
      simp only [Outcome.bind_ok]
      by_cases h1 : b = (10 : Int) ^ q
      · simp [h1, ha0, Spec.div, C02.isOne_eq, Spec.allowedOp]
      · simp only [h1, decide_false, Bool.false_eq_true, if_false]
        rw [spec_div_tail tm a p b q hb0 ha0 h1]
        have hk := divCore_spec hw prof tm a p b q ⟨hx.1, hx.2.1⟩ ⟨Int.le_of_lt hy.1, hy.2.1⟩ hb0 hx.2.2 hy.2.2
        obtain ⟨s1, s2, s3⟩ := specDivTail_shape tm a p b q
        have hop := allowedOp_of_checked _ _ hk s1 s2 s3
        generalize divCore prof tm a p b q = r at hop ⊢
        cases r with
        | panic k => simpa [panicOnNone] using hop
        | ok o => cases o <;> simpa [panicOnNone] using hop

/-- `x.checked_div(y)`: `None` for a zero divisor or overflow, never a panic -/
theorem checked_div_spec (hw : C04.WideDiv) (prof : Profile) (tm : Mode) (x y : Dec) (hx : Dom x) (hy : Dom y) :
    Spec.allowedChecked (Spec.div tm x.coeff x.nfrac y.coeff y.nfrac) (outOptPair (checkedDiv prof tm x y)) = true := by
  obtain ⟨a, p⟩ := x
  obtain ⟨b, q⟩ := y
  unfold checkedDiv
  simp only [eqZero]
  by_cases hb0 : b = 0
  · simp [hb0, Spec.div, Spec.allowedChecked]
  · simp only [hb0, decide_false, Bool.false_eq_true, if_false]
    by_cases ha0 : a = 0
    · simp [ha0, hb0, Spec.div, Spec.allowedChecked, Dec.ZERO]
    · simp only [ha0, decide_false, Bool.false_eq_true, if_false]
      rw [C02.eqOne_eq ⟨b, q⟩ hy.2.2]
      simp only [Outcome.bind_ok]
      by_cases h1 : b = (10 : Int) ^ q
      · simp [h1, ha0, Spec.div, C02.isOne_eq, Spec.allowedChecked]
      · simp only [h1, decide_false, Bool.false_eq_true, if_false]
        rw [spec_div_tail tm a p b q hb0 ha0 h1]
        exact divCore_spec hw prof tm a p b q ⟨hx.1, hx.2.1⟩ ⟨Int.le_of_lt hy.1, hy.2.1⟩ hb0 hx.2.2 hy.2.2

/-- `Decimal / int` and `Decimal.checked_div(int)` after the zero-divisor test (`i ≠ 0`): same as with `Decimal::from(i)` -/
theorem div_dec_int_spec (hw : C04.WideDiv) (prof : Profile) (tm : Mode) (x : Dec) (i : Int) (hx : Dom x)
    (hi : I128_MIN ≤ i ∧ i ≤ I128_MAX) (hi0 : i ≠ 0) :
    Spec.allowedChecked (Spec.div tm x.coeff x.nfrac i 0) (outOptPair (divDecInt prof tm x i)) = true := by
  obtain ⟨a, p⟩ := x
  unfold divDecInt
  simp only [eqZero]
  by_cases ha0 : a = 0
  · simp [ha0, hi0, Spec.div, Spec.allowedChecked, Dec.ZERO]
  · simp only [ha0, decide_false, Bool.false_eq_true, if_false]
    by_cases h1 : i = 1
    · simp [h1, ha0, Spec.div, C02.isOne_eq, Spec.allowedChecked]
    · simp only [h1, if_false]
      have h1' : ¬ i = (10 : Int) ^ 0 := by simpa using h1
      rw [spec_div_tail tm a p i 0 hi0 ha0 h1']
      exact divCore_spec hw prof tm a p i 0 ⟨hx.1, hx.2.1⟩ hi hi0 hx.2.2 (by omega)

/-- `int / Decimal` and `int.checked_div(Decimal)` after the zero-divisor test; `i` any value of the 9 integer types, `i128::MIN`
    included (its scaling by `10^18` always goes through the 256-bit path, so `i128::MIN / -1` is never evaluated: `None` / overflow panic) -/
theorem div_int_dec_spec (hw : C04.WideDiv) (prof : Profile) (tm : Mode) (i : Int) (y : Dec) (hy : Dom y)
    (hi : I128_MIN ≤ i ∧ i ≤ I128_MAX) (hy0 : y.coeff ≠ 0) :
    Spec.allowedChecked (Spec.div tm i 0 y.coeff y.nfrac) (outOptPair (divIntDec prof tm i y)) = true := by
  obtain ⟨b, q⟩ := y
  simp only at hy0
  unfold divIntDec
  by_cases ha0 : i = 0
  · simp [ha0, hy0, Spec.div, Spec.allowedChecked, Dec.ZERO]
  · simp only [ha0, if_false]
    rw [C02.eqOne_eq ⟨b, q⟩ hy.2.2]
    simp only [Outcome.bind_ok]
    by_cases h1 : b = (10 : Int) ^ q
    · simp [h1, ha0, Spec.div, C02.isOne_eq, Spec.allowedChecked]
    · simp only [h1, decide_false, Bool.false_eq_true, if_false]
      rw [spec_div_tail tm i 0 b q hy0 ha0 h1]
      exact divCore_spec_full hw prof tm i 0 b q hi ⟨Int.le_of_lt hy.1, hy.2.1⟩ hy0 (by omega) hy.2.2 (fun h => by omega)

/-! ### non-vacuity -/
example : div Profile.dev .heven ⟨1, 0⟩ ⟨3, 0⟩ = .ok ⟨333333333333333333, 18⟩ := by decide
example : div Profile.dev .heven ⟨10, 1⟩ ⟨4, 0⟩ = .ok ⟨25, 2⟩ := by decide                      -- trailing zeros removed
example : div Profile.dev .heven ⟨1, 0⟩ ⟨0, 5⟩ = .panic .divzero ∧ checkedDiv Profile.dev .heven ⟨1, 0⟩ ⟨0, 5⟩ = .ok none := by
  decide
-- the dividend `i128::MIN` (an integer operand): the quotient `2^127` by `-1` does not fit — `None`, never the `i128::MIN / -1` panic
example : divIntDec Profile.dev .heven I128_MIN ⟨-1, 0⟩ = .ok none ∧
    Spec.allowedChecked (Spec.div .heven I128_MIN 0 (-1) 0) (outOptPair (divIntDec Profile.dev .heven I128_MIN ⟨-1, 0⟩)) = true := by
  decide
example : divIntDec Profile.release .heven I128_MIN ⟨-10000000000000000000, 0⟩ = .ok (some ⟨17014118346046923173168730371588410573, 18⟩) ∧
    Spec.allowedChecked (Spec.div .heven I128_MIN 0 (-10000000000000000000) 0)
      (outOptPair (divIntDec Profile.release .heven I128_MIN ⟨-10000000000000000000, 0⟩)) = true := by
  decide
example : divIntDec Profile.dev .heven I128_MIN ⟨I128_MIN + 1, 0⟩ = .ok (some ⟨1, 0⟩) := by decide

/-! ### translated kernels
The Lean definitions `Gen.K.*` are regenerated from the Rust source on every run by `tools/fpkernels.py` (expression-level
translation).  These theorems tie them to the hand-written model the property theorems above are about: a change of the Rust
kernel that changes its translation breaks them. -/
theorem kernel_normalize (prof : Profile) (c : Int) (n : Nat) (hn : n < 256) :
    Gen.K.normalize prof c n = .ok (normalize c n) := Kernels.normalize_eq prof c n hn

/-! ### algebraic laws: `checked_div` against `/` -/

/-- `x / y` is `x.checked_div(y)` read as an operator: a zero divisor panics with the division-by-zero panic, `None` otherwise
    becomes the overflow panic (all operands, modes, profiles) -/
theorem div_eq_checked (prof : Profile) (tm : Mode) (x y : Dec) :
    div prof tm x y = opOfChecked (eqZero y) (checkedDiv prof tm x y) := by
  unfold div checkedDiv opOfChecked
  cases hy : eqZero y
  · simp only [Bool.false_eq_true, if_false]
    cases hx : eqZero x
    · simp only [Bool.false_eq_true, if_false]
      cases eqOne y with
      | panic k => rfl
      | ok b =>
        cases b
        · simp only [Outcome.bind_ok, Bool.false_eq_true, if_false]
          cases divCore prof tm x.coeff x.nfrac y.coeff y.nfrac with
          | panic k => rfl
          | ok o => cases o <;> rfl
        · rfl
    · rfl
  · rfl

/-- a zero divisor: `None` -/
theorem checked_div_zero_divisor (prof : Profile) (tm : Mode) (x y : Dec) (hy : eqZero y = true) :
    checkedDiv prof tm x y = .ok none := by
  unfold checkedDiv
  simp [hy]

private theorem spec_div_ne_any (tm : Mode) (a : Int) (p : Nat) (b : Int) (q : Nat) :
    Spec.div tm a p b q ≠ .any ∧ Spec.div tm a p b q ≠ .nfrac := by
  unfold Spec.div
  simp only []
  have h1 := valFit_ne_any (Spec.specRoundQ tm (a * 10 ^ (18 + q)) (b * 10 ^ p)) 18
  have h2 := (valFit_shape (Spec.specRoundQ tm (a * 10 ^ (18 + q)) (b * 10 ^ p)) 18).2.2
  generalize Spec.valFit (Spec.specRoundQ tm (a * 10 ^ (18 + q)) (b * 10 ^ p)) 18 = e at h1 h2
  constructor <;> (repeat' split) <;> simp_all

/-- `checked_div` never panics on the domain -/
theorem checked_div_no_panic (hw : C04.WideDiv) (prof : Profile) (tm : Mode) (x y : Dec) (hx : Dom x) (hy : Dom y) :
    ∃ o, checkedDiv prof tm x y = .ok o :=
  allowedChecked_no_panic _ _ (checked_div_spec hw prof tm x y hx hy) (spec_div_ne_any tm _ _ _ _).2 (spec_div_ne_any tm _ _ _ _).1

/-- `Some(r)` exactly when `x / y` returns `r` (no hypothesis) -/
theorem checked_div_some_iff (prof : Profile) (tm : Mode) (x y r : Dec) :
    checkedDiv prof tm x y = .ok (some r) ↔ div prof tm x y = .ok r := by
  rw [div_eq_checked, opOfChecked_eq_ok_iff]
  constructor
  · intro h
    refine ⟨?_, h⟩
    cases hy : eqZero y
    · rfl
    · rw [checked_div_zero_divisor prof tm x y hy] at h
      simp at h
  · exact fun h => h.2

/-- `None` exactly when `x / y` panics — with the division-by-zero panic or the overflow panic -/
theorem checked_div_none_iff (hw : C04.WideDiv) (prof : Profile) (tm : Mode) (x y : Dec) (hx : Dom x) (hy : Dom y) :
    checkedDiv prof tm x y = .ok none ↔ (div prof tm x y = .panic .divzero ∨ div prof tm x y = .panic .overflow) := by
  have hnp := checked_div_no_panic hw prof tm x y hx hy
  rw [div_eq_checked, ← checked_none_iff_op_panic _ _ (fun _ => hnp), checkedOfChecked_eq_none_iff]
  constructor
  · exact fun h => Or.inr h
  · rintro (h | h)
    · exact checked_div_zero_divisor prof tm x y h
    · exact h

/-- the division-by-zero panic exactly for a zero divisor … -/
theorem div_divzero_iff (hw : C04.WideDiv) (prof : Profile) (tm : Mode) (x y : Dec) (hx : Dom x) (hy : Dom y) :
    div prof tm x y = .panic .divzero ↔ y.coeff = 0 := by
  rw [div_eq_checked, op_divzero_iff _ _ (fun _ => checked_div_no_panic hw prof tm x y hx hy)]
  simp [eqZero]

/-- … and no other panic than these two -/
theorem div_panic_kind (hw : C04.WideDiv) (prof : Profile) (tm : Mode) (x y : Dec) (k : PanicKind) (hx : Dom x) (hy : Dom y)
    (h : div prof tm x y = .panic k) : k = .divzero ∨ k = .overflow := by
  rw [div_eq_checked] at h
  exact op_panic_kind _ _ k (fun _ => checked_div_no_panic hw prof tm x y hx hy) h

/-- the integer shapes share one body between operator (`opOfChecked z body`) and checked variant (`checkedOfChecked z body`;
    `C04.kernel_decimal_div_int` … tie both to the source): `Decimal / int`, `i` any i128 value … -/
theorem div_dec_int_body_no_panic (hw : C04.WideDiv) (prof : Profile) (tm : Mode) (x : Dec) (i : Int) (hx : Dom x)
    (hi : I128_MIN ≤ i ∧ i ≤ I128_MAX) (hi0 : decide (i = 0) = false) : ∃ o, divDecInt prof tm x i = .ok o := by
  have hi0' : i ≠ 0 := by simpa using hi0
  exact allowedChecked_no_panic _ _ (div_dec_int_spec hw prof tm x i hx hi hi0') (spec_div_ne_any tm _ _ _ _).2
    (spec_div_ne_any tm _ _ _ _).1

theorem checked_div_dec_int_none_iff (hw : C04.WideDiv) (prof : Profile) (tm : Mode) (x : Dec) (i : Int) (hx : Dom x)
    (hi : I128_MIN ≤ i ∧ i ≤ I128_MAX) :
    checkedOfChecked (decide (i = 0)) (divDecInt prof tm x i) = .ok none ↔
      (opOfChecked (decide (i = 0)) (divDecInt prof tm x i) = .panic .divzero ∨
        opOfChecked (decide (i = 0)) (divDecInt prof tm x i) = .panic .overflow) :=
  checked_none_iff_op_panic _ _ (div_dec_int_body_no_panic hw prof tm x i hx hi)

/-- … and `int / Decimal` (`i128::MIN` included); `Some(r)` exactly when the operator returns `r` is `checked_some_iff_op_ok` -/
theorem div_int_dec_body_no_panic (hw : C04.WideDiv) (prof : Profile) (tm : Mode) (i : Int) (y : Dec) (hy : Dom y)
    (hi : I128_MIN ≤ i ∧ i ≤ I128_MAX) (hy0 : eqZero y = false) : ∃ o, divIntDec prof tm i y = .ok o := by
  have hy0' : y.coeff ≠ 0 := by simpa [eqZero] using hy0
  exact allowedChecked_no_panic _ _ (div_int_dec_spec hw prof tm i y hy hi hy0') (spec_div_ne_any tm _ _ _ _).2
    (spec_div_ne_any tm _ _ _ _).1

theorem checked_div_int_dec_none_iff (hw : C04.WideDiv) (prof : Profile) (tm : Mode) (i : Int) (y : Dec) (hy : Dom y)
    (hi : I128_MIN ≤ i ∧ i ≤ I128_MAX) :
    checkedOfChecked (eqZero y) (divIntDec prof tm i y) = .ok none ↔
      (opOfChecked (eqZero y) (divIntDec prof tm i y) = .panic .divzero ∨
        opOfChecked (eqZero y) (divIntDec prof tm i y) = .panic .overflow) :=
  checked_none_iff_op_panic _ _ (div_int_dec_body_no_panic hw prof tm i y hy hi)

example : checkedDiv Profile.dev .heven ⟨10, 1⟩ ⟨4, 0⟩ = .ok (some ⟨25, 2⟩) ∧ div Profile.dev .heven ⟨10, 1⟩ ⟨4, 0⟩ = .ok ⟨25, 2⟩ ∧
    checkedDiv Profile.dev .heven ⟨1, 0⟩ ⟨0, 5⟩ = .ok none ∧ div Profile.dev .heven ⟨1, 0⟩ ⟨0, 5⟩ = .panic .divzero ∧
    checkedDiv Profile.release .heven Dec.MAX ⟨5, 1⟩ = .ok none ∧ div Profile.release .heven Dec.MAX ⟨5, 1⟩ = .panic .overflow := by
  decide

/-! ### algebraic laws: one, zero, `x / x` -/

/-- `x / 1`, for every representation of one as divisor: the dividend UNCHANGED (value and representation) — except that every zero
    dividend is returned as `Decimal::ZERO` (the zero test comes first); every `x` -/
theorem div_one_right (prof : Profile) (tm : Mode) (x y : Dec) (hq : y.nfrac ≤ 18) (hy : y.coeff = (10 : Int) ^ y.nfrac) :
    div prof tm x y = .ok (if x.coeff = 0 then Dec.ZERO else x) := by
  unfold div
  simp only [eqZero]
  rw [C02.eqOne_eq y hq]
  by_cases h0 : x.coeff = 0 <;> simp [h0, hy]

theorem div_by_ONE (prof : Profile) (tm : Mode) (x : Dec) : div prof tm x Dec.ONE = .ok (if x.coeff = 0 then Dec.ZERO else x) :=
  div_one_right prof tm x Dec.ONE (by decide) (by decide)

/-- `0 / y = Decimal::ZERO` for every representation of zero and every non-zero `y` (nothing else is evaluated);
    with a zero divisor the division-by-zero panic wins -/
theorem zero_div (prof : Profile) (tm : Mode) (x y : Dec) (hx : x.coeff = 0) (hy : y.coeff ≠ 0) :
    div prof tm x y = .ok Dec.ZERO := by
  unfold div
  simp [eqZero, hx, hy]

theorem div_by_zero (prof : Profile) (tm : Mode) (x y : Dec) (hy : y.coeff = 0) : div prof tm x y = .panic .divzero := by
  unfold div
  simp [eqZero, hy]

/-- `x / x` for a non-zero `x` of the domain: `Decimal::ONE` — in every mode and profile, through the 256-bit path for large
    coefficients — except that a representation of one is returned unchanged by the divisor-equals-one short cut (`1.0 / 1.0 = 1.0`) -/
theorem div_self_one (hw : C04.WideDiv) (prof : Profile) (tm : Mode) (x : Dec) (hx : Dom x) (h0 : x.coeff ≠ 0) :
    div prof tm x x = .ok (if x.coeff = (10 : Int) ^ x.nfrac then x else Dec.ONE) := by
  by_cases hone : x.coeff = (10 : Int) ^ x.nfrac
  · rw [div_one_right prof tm x x hx.2.2 hone, if_neg h0, if_pos hone]
  · have hs := div_spec hw prof tm x x hx hx
    have e : Spec.div tm x.coeff x.nfrac x.coeff x.nfrac = .val 1 0 := by
      unfold Spec.div
      simp only [h0, if_false, C02.isOne_eq, hone, decide_false, Bool.false_eq_true]
      have e1 : x.coeff * (10 : Int) ^ (18 + x.nfrac) = (10 : Int) ^ 18 * (x.coeff * (10 : Int) ^ x.nfrac) := by
        rw [Int.pow_add]; ring
      have hd : x.coeff * (10 : Int) ^ x.nfrac ≠ 0 := Int.mul_ne_zero h0 (Int.ne_of_gt (pow10_pos _))
      rw [e1, specRoundQ_exact_mul tm _ _ hd]
      decide
    rw [e] at hs
    simp only [hone, if_false]
    exact ok_of_allowed_val hs

/-- the value of `x / x` is one in both cases: the result is a representation of one -/
theorem div_self_value (hw : C04.WideDiv) (prof : Profile) (tm : Mode) (x : Dec) (hx : Dom x) (h0 : x.coeff ≠ 0) :
    ∃ r, div prof tm x x = .ok r ∧ r.coeff = (10 : Int) ^ r.nfrac := by
  rw [div_self_one hw prof tm x hx h0]
  by_cases hone : x.coeff = (10 : Int) ^ x.nfrac
  · exact ⟨x, by simp [hone], hone⟩
  · exact ⟨Dec.ONE, by simp [hone], by decide⟩

example : div Profile.dev .up ⟨-25, 1⟩ Dec.ONE = .ok ⟨-25, 1⟩ ∧ div Profile.dev .up ⟨-2500, 3⟩ ⟨100, 2⟩ = .ok ⟨-2500, 3⟩ ∧
    div Profile.dev .up ⟨0, 3⟩ Dec.ONE = .ok ⟨0, 0⟩ ∧ div Profile.release .floor ⟨0, 7⟩ ⟨-3, 1⟩ = .ok ⟨0, 0⟩ ∧
    div Profile.release .floor ⟨0, 7⟩ ⟨0, 1⟩ = .panic .divzero := by decide
example : div Profile.dev .heven ⟨-25, 1⟩ ⟨-25, 1⟩ = .ok ⟨1, 0⟩ ∧ div Profile.release .r05up Dec.MAX Dec.MAX = .ok ⟨1, 0⟩ ∧
    div Profile.dev .ceil ⟨I128_MIN + 1, 18⟩ ⟨I128_MIN + 1, 18⟩ = .ok ⟨1, 0⟩ ∧
    div Profile.dev .heven ⟨100, 2⟩ ⟨100, 2⟩ = .ok ⟨100, 2⟩ := by decide

end Fpdec.Props.C03
