import Fpdec.Lemmas.Dom
import Fpdec.Props.C03_Sites

/-! # C03 — property theorems (under construction: see DESIGN.md section 6) -/

namespace Fpdec.Props.C03
open Fpdec Fpdec.Model

end Fpdec.Props.C03
