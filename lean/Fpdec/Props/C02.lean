import Fpdec.Kernels.IntOps
import Fpdec.Kernels.DecOps
import Fpdec.Kernels.DecMul
import Fpdec.Kernels.WideFits
import Fpdec.Kernels.Wide
import Fpdec.Kernels.Round
import Fpdec.Lemmas.WideRound
import Fpdec.Lemmas.IntTy
import Fpdec.Props.C02_Sites

/-!
# C02 — Multiplication is exact up to 18 digits, else correctly rounded

`mul_spec`, `checked_mul_spec`, `mul_int_spec`, `checked_mul_int_spec`: for ALL operands of the domain, all eight thread
modes and every build profile the model of `*`, `checked_mul` and the integer-operand forms returns what `Spec.mul` /
`Spec.checkedMul` / `Spec.mulInt` allow: zero / one short cuts, the exact product with `p+q` digits when `p+q ≤ 18`,
else the exact product rounded once to 18 digits (narrow path `i128_div_rounded` and wide path
`i256_div_mod_floor` + `round_quot`), overflow signalled exactly when the result coefficient does not fit.

The wide path is proved relative to `WideMul` (the specification of `i256_div_mod_floor`, see C16); `Props/C16.lean`
discharges it.
-/

namespace Fpdec.Props.C02
open Fpdec Fpdec.Model

/-- specification of `i256_div_mod_floor` for a positive divisor (proved in `Lemmas/Wide.lean`, C16) -/
def WideMul : Prop :=
  ∀ (prof : Profile) (x1 x2 y : Int), (I128_MIN < x1 ∧ x1 ≤ I128_MAX) → (I128_MIN < x2 ∧ x2 ≤ I128_MAX) →
    (0 < y ∧ y ≤ I128_MAX) →
    i256DivModFloor prof x1 x2 y =
      .ok (if ((x1 * x2).natAbs / y.natAbs : Nat) ≤ I128_MAX.toNat then some ((x1 * x2) / y, (x1 * x2) % y) else none)

theorem eqOne_eq (d : Dec) (h : d.nfrac ≤ 18) : eqOne d = .ok (decide (d.coeff = (10 : Int) ^ d.nfrac)) := by
  unfold eqOne
  rw [tenPow_ok _ (by omega)]
  rfl

theorem isOne_eq (c : Int) (p : Nat) : Spec.isOne c p = decide (c = (10 : Int) ^ p) := rfl

/-- the rounding core shared by `*` and `mul_rounded` -/
def specMulCore (tm : Mode) (a : Int) (p : Nat) (b : Int) (q : Nat) (n : Nat) : Spec.Exp :=
  if n ≥ p + q then Spec.valFitSharp (a * b) (p + q)
  else Spec.valFit (Spec.specRound tm (a * b) ((10 : Int) ^ (p + q - n))) n

theorem pow10_le_max' {k : Nat} (h : k ≤ 38) : (10 : Int) ^ k ≤ I128_MAX := by
  have h38 : (10 : Int) ^ 38 ≤ I128_MAX := by decide
  have : (10 : Int) ^ k ≤ (10 : Int) ^ 38 := pow10_mono h
  omega

/-- `checked_mul_rounded(x, y, n)` for `n ≤ 18` -/
theorem checkedMulRounded_spec (hw : WideMul) (prof : Profile) (tm : Mode) (x y : Dec) (n : Nat)
    (hx : Dom x) (hy : Dom y) (hn : n ≤ 18) :
    Spec.allowedChecked (specMulCore tm x.coeff x.nfrac y.coeff y.nfrac n)
      (outOptPair (checkedMulRounded prof tm x y n)) = true := by
  obtain ⟨a, p⟩ := x
  obtain ⟨b, q⟩ := y
  obtain ⟨ha0, ha1, hp⟩ := hx
  obtain ⟨hb0, hb1, hq⟩ := hy
  simp only at ha0 ha1 hp hb0 hb1 hq
  unfold checkedMulRounded specMulCore
  simp only []
  rw [plainU8_ok prof (x := (p : Int) + (q : Int)) (by omega) (by omega)]
  have hpq : ((p : Int) + (q : Int)).toNat = p + q := by omega
  simp only [Outcome.bind_ok, hpq]
  by_cases h1 : n ≥ p + q
  · simp only [h1, if_true]
    unfold Spec.valFitSharp
    rw [spec_fits_eq]
    cases hh : fitsI128 (a * b)
    · simp [checkedI128_none hh, Spec.allowedChecked]
    · simp [checkedI128_some hh, Spec.allowedChecked]
  · simp only [h1, if_false]
    have hsh : p + q - n ≤ 38 := by omega
    have hpw := pow10_pos (p + q - n)
    have hpl := pow10_le_max' hsh
    cases hh : fitsI128 (a * b)
    · -- wide path
      rw [checkedI128_none hh]
      simp only []
      unfold i128MulDivTenPowRounded
      rw [tenPow_ok _ hsh]
      simp only [Outcome.bind_ok]
      rw [hw prof a b ((10 : Int) ^ (p + q - n)) ⟨ha0, ha1⟩ ⟨hb0, hb1⟩ ⟨hpw, hpl⟩]
      simp only [Outcome.bind_ok]
      have key := wide_tail tm (a * b) ((10 : Int) ^ (p + q - n)) n hpw hpl
      by_cases ht : ((a * b).natAbs / ((10 : Int) ^ (p + q - n)).natAbs : Nat) ≤ I128_MAX.toNat
      · simp only [ht, if_true, Option.bind_some] at key ⊢
        cases hr : roundQuot tm (a * b / 10 ^ (p + q - n)) (IntTy.u128.cast (a * b % 10 ^ (p + q - n))).toNat
            (IntTy.u128.cast (10 ^ (p + q - n))).toNat none with
        | none => rw [hr] at key; simpa using key
        | some c => rw [hr] at key; simpa using key
      · simp only [ht, if_false, Option.bind_none] at key ⊢
        simpa using key
    · -- narrow path
      rw [checkedI128_some hh]
      simp only []
      rw [tenPow_ok _ hsh]
      simp only [Outcome.bind_ok]
      rw [i128DivRounded_pos prof tm none (a * b) ((10 : Int) ^ (p + q - n)) hh hpw hpl]
      simp only [Outcome.bind_ok, Option.getD_none]
      have hf := specRound_fits tm (a * b) ((10 : Int) ^ (p + q - n)) ((fitsI128_iff _).mp hh) hpw
      exact valFit_some _ _ hf

theorem valFitSharp_shape (c : Int) (p : Nat) :
    Spec.valFitSharp c p ≠ .divzero ∧ Spec.valFitSharp c p ≠ .none ∧ Spec.valFitSharp c p ≠ .nfrac := by
  unfold Spec.valFitSharp
  cases Spec.fits c <;> simp

theorem specMulCore_shape (tm : Mode) (a : Int) (p : Nat) (b : Int) (q n : Nat) :
    specMulCore tm a p b q n ≠ .divzero ∧ specMulCore tm a p b q n ≠ .none ∧ specMulCore tm a p b q n ≠ .nfrac := by
  unfold specMulCore
  split
  · exact valFitSharp_shape _ _
  · exact valFit_shape _ _

/-- `x * y` (all reference forms and `*=` forward to this body) -/
theorem mul_spec (hw : WideMul) (prof : Profile) (tm : Mode) (x y : Dec) (hx : Dom x) (hy : Dom y) :
    Spec.allowedOp (Spec.mul tm x.coeff x.nfrac y.coeff y.nfrac) (outPair (mul prof tm x y)) = true := by
  have hcore := checkedMulRounded_spec hw prof tm x y 18 hx hy (by omega)
  obtain ⟨s1, s2, s3⟩ := specMulCore_shape tm x.coeff x.nfrac y.coeff y.nfrac 18
  have hop := allowedOp_of_checked _ _ hcore s1 s2 s3
  obtain ⟨a, p⟩ := x
  obtain ⟨b, q⟩ := y
  have hp : p ≤ 18 := hx.2.2
  have hq : q ≤ 18 := hy.2.2
  unfold mul Spec.mul
  simp only [eqZero, max_nfrac]
  by_cases h0 : a = 0 ∨ b = 0
  · have : (decide (a = 0) || decide (b = 0)) = true := by simpa using h0
    simp [h0, this, Spec.allowedOp, Dec.ZERO]
  · have : (decide (a = 0) || decide (b = 0)) = false := by simpa using h0
    simp only [h0, this, if_false, Bool.false_eq_true]
    rw [eqOne_eq ⟨b, q⟩ hq, isOne_eq, isOne_eq]
    simp only [Outcome.bind_ok]
    by_cases h1 : b = (10 : Int) ^ q
    · simp [h1, Spec.allowedOp]
    · simp only [h1, decide_false, Bool.false_eq_true, if_false]
      rw [eqOne_eq ⟨a, p⟩ hp]
      simp only [Outcome.bind_ok]
      by_cases h2 : a = (10 : Int) ^ p
      · simp [h2, Spec.allowedOp]
      · simp only [h2, decide_false, Bool.false_eq_true, if_false]
        have hspec : (if p + q ≤ 18 then Spec.valFitSharp (a * b) (p + q)
            else Spec.valFit (Spec.specRound tm (a * b) (10 ^ (p + q - 18))) 18) = specMulCore tm a p b q 18 := by
          unfold specMulCore
          by_cases h3 : p + q ≤ 18
          · have h3' : 18 ≥ p + q := h3
            simp [h3, h3']
          · have h3' : ¬ 18 ≥ p + q := h3
            simp [h3, h3']
        rw [hspec]
        cases hcm : checkedMulRounded prof tm ⟨a, p⟩ ⟨b, q⟩ 18 with
        | panic k => rw [hcm] at hop; simpa [panicOnNone] using hop
        | ok o =>
          cases o with
          | none => rw [hcm] at hop; simpa [panicOnNone] using hop
          | some r => rw [hcm] at hop; simpa [panicOnNone] using hop

/-- `checked_mul`: exact product or `None`; `None` also for `p + q > 18`; never rounded, never a panic -/
theorem checked_mul_spec (prof : Profile) (x y : Dec) (hx : Dom x) (hy : Dom y) :
    Spec.allowedChecked (Spec.checkedMul x.coeff x.nfrac y.coeff y.nfrac) (outOptPair (checkedMul prof x y)) = true := by
  obtain ⟨a, p⟩ := x
  obtain ⟨b, q⟩ := y
  have hp : p ≤ 18 := hx.2.2
  have hq : q ≤ 18 := hy.2.2
  unfold checkedMul Spec.checkedMul
  simp only [eqZero, max_nfrac]
  by_cases h0 : a = 0 ∨ b = 0
  · have : (decide (a = 0) || decide (b = 0)) = true := by simpa using h0
    simp [h0, this, Spec.allowedChecked, Dec.ZERO]
  · have : (decide (a = 0) || decide (b = 0)) = false := by simpa using h0
    simp only [h0, this, if_false, Bool.false_eq_true]
    rw [eqOne_eq ⟨b, q⟩ hq, isOne_eq, isOne_eq]
    simp only [Outcome.bind_ok]
    by_cases h1 : b = (10 : Int) ^ q
    · simp [h1, Spec.allowedChecked]
    · simp only [h1, decide_false, Bool.false_eq_true, if_false]
      rw [eqOne_eq ⟨a, p⟩ hp]
      simp only [Outcome.bind_ok]
      by_cases h2 : a = (10 : Int) ^ p
      · simp [h2, Spec.allowedChecked]
      · simp only [h2, decide_false, Bool.false_eq_true, if_false]
        rw [plainU8_ok prof (x := (p : Int) + (q : Int)) (by omega) (by omega)]
        have hpq : ((p : Int) + (q : Int)).toNat = p + q := by omega
        simp only [Outcome.bind_ok, hpq]
        by_cases h3 : p + q > 18
        · simp [h3, Spec.allowedChecked]
        · simp only [h3, if_false]
          unfold Spec.valFitSharp
          rw [spec_fits_eq]
          cases hh : fitsI128 (a * b)
          · simp [checkedI128_none hh, Spec.allowedChecked]
          · simp [checkedI128_some hh, Spec.allowedChecked]

/-- Decimal × integer (either position, 9 integer types): exact, the Decimal's scale, overflow iff it does not fit -/
theorem mul_int_spec (d : Dec) (i : Int) :
    Spec.allowedOp (Spec.mulInt d.coeff d.nfrac i) (outPair (mulInt d i)) = true := by
  unfold mulInt Spec.mulInt Spec.valFitSharp
  rw [spec_fits_eq]
  cases hh : fitsI128 (d.coeff * i)
  · simp [checkedI128_none hh, Spec.allowedOp, Spec.isOvfPanic]
  · simp [checkedI128_some hh, Spec.allowedOp]

theorem checked_mul_int_spec (d : Dec) (i : Int) :
    Spec.allowedChecked (Spec.mulInt d.coeff d.nfrac i) (outOptPair (.ok (checkedMulInt d i))) = true := by
  unfold checkedMulInt Spec.mulInt Spec.valFitSharp
  rw [spec_fits_eq]
  cases hh : fitsI128 (d.coeff * i)
  · simp [checkedI128_none hh, Spec.allowedChecked]
  · simp [checkedI128_some hh, Spec.allowedChecked]

/-! ### non-vacuity -/
example : mul Profile.dev .heven ⟨15, 1⟩ ⟨25, 2⟩ = .ok ⟨375, 3⟩ := by decide
example : mul Profile.release .heven ⟨1000000000000000005, 18⟩ ⟨15, 1⟩ = .ok ⟨1500000000000000008, 18⟩ := by decide
example : mul Profile.dev .heven Dec.MAX ⟨2, 0⟩ = .panic .overflow ∧ checkedMul Profile.dev ⟨1, 10⟩ ⟨3, 9⟩ = .ok none := by decide

/-! ### translated kernels
The Lean definitions `Gen.K.*` are regenerated from the Rust source on every run by `tools/fpkernels.py` (expression-level
translation).  These theorems tie them to the hand-written model the property theorems above are about: a change of the Rust
kernel that changes its translation breaks them. -/
theorem kernel_i128_div_mod_floor (prof : Profile) (x y : Int) :
    Gen.K.i128_div_mod_floor prof x y = i128DivModFloor prof x y := Kernels.i128_div_mod_floor_eq prof x y
theorem kernel_round_quot (prof : Profile) (tm : Mode) (quot : Int) (rem divisor : Nat) (mode : Option Mode)
    (hq : fitsI128 quot = true) :
    Gen.K.round_quot prof tm quot rem divisor mode = .ok (roundQuot tm quot rem divisor mode) :=
  Kernels.round_quot_eq prof tm quot rem divisor mode hq
theorem kernel_u128_mul_u128 (prof : Profile) (x y : Nat) :
    Gen.K.u128_mul_u128 prof x y = u128MulU128 prof x y := Kernels.u128_mul_u128_eq prof x y

theorem kernel_ten_pow (prof : Profile) (n : Nat) : Gen.K.ten_pow prof n = tenPow n := Kernels.ten_pow_eq prof n
theorem kernel_mul_pow_ten (prof : Profile) (val : Int) (n : Nat) : Gen.K.mul_pow_ten prof val n = mulPowTen val n :=
  Kernels.mul_pow_ten_eq prof val n
theorem kernel_checked_mul_pow_ten (prof : Profile) (val : Int) (n : Nat) :
    Gen.K.checked_mul_pow_ten prof val n = .ok (checkedMulPowTen val n) := Kernels.checked_mul_pow_ten_eq prof val n
theorem kernel_i128_div_rounded (prof : Profile) (tm : Mode) (a b : Int) (mode : Option Mode) (ha : fitsI128 a = true) :
    Gen.K.i128_div_rounded prof tm a b mode = i128DivRounded prof tm a b mode :=
  Kernels.i128_div_rounded_eq prof tm a b mode ha
theorem kernel_i128_shifted_div_rounded (prof : Profile) (tm : Mode) (a : Int) (p : Nat) (b : Int) (mode : Option Mode) :
    Gen.K.i128_shifted_div_rounded prof tm a p b mode = i128ShiftedDivRounded prof tm a p b mode :=
  Kernels.i128_shifted_div_rounded_eq' prof tm a p b mode
theorem kernel_i128_mul_div_ten_pow_rounded (prof : Profile) (tm : Mode) (x y : Int) (p : Nat) (mode : Option Mode) :
    Gen.K.i128_mul_div_ten_pow_rounded prof tm x y p mode = i128MulDivTenPowRounded prof tm x y p mode :=
  Kernels.i128_mul_div_ten_pow_rounded_eq' prof tm x y p mode

theorem kernel_checked_mul_rounded (prof : Profile) (tm : Mode) (x y : Dec) (n : Nat) (hn : n < 256) :
    Gen.K.checked_mul_rounded prof tm x y n = checkedMulRounded prof tm x y n :=
  Kernels.checked_mul_rounded_eq prof tm x y n hn

/-- the Decimal-by-Decimal operator bodies of mul.rs, checked_mul.rs and mul_rounded.rs, as translated on this run -/
theorem kernel_decimal_mul (prof : Profile) (tm : Mode) (x y : Dec) : Gen.K.decimal_mul prof tm x y = mul prof tm x y :=
  Kernels.decimal_mul_eq prof tm x y
theorem kernel_decimal_checked_mul (prof : Profile) (x y : Dec) : Gen.K.decimal_checked_mul prof x y = checkedMul prof x y :=
  Kernels.decimal_checked_mul_eq prof x y
theorem kernel_decimal_mul_rounded (prof : Profile) (tm : Mode) (x y : Dec) (n : Nat) (hn : n < 256) :
    Gen.K.decimal_mul_rounded prof tm x y n = mulRounded prof tm x y n := Kernels.decimal_mul_rounded_eq prof tm x y n hn

/-- the integer forms of `*` and `checked_mul` (both operand orders), as translated on this run -/
theorem kernel_decimal_mul_int (prof : Profile) (d : Dec) (i : Int) : Gen.K.decimal_mul_int prof d i = mulInt d i :=
  Kernels.decimal_mul_int_eq prof d i
theorem kernel_int_mul_decimal (prof : Profile) (i : Int) (d : Dec) : Gen.K.int_mul_decimal prof i d = mulInt d i :=
  Kernels.int_mul_decimal_eq prof i d
theorem kernel_decimal_checked_mul_int (prof : Profile) (d : Dec) (i : Int) :
    Gen.K.decimal_checked_mul_int prof d i = .ok (checkedMulInt d i) := Kernels.decimal_checked_mul_int_eq prof d i
theorem kernel_int_checked_mul_decimal (prof : Profile) (i : Int) (d : Dec) :
    Gen.K.int_checked_mul_decimal prof i d = .ok (checkedMulInt d i) := Kernels.int_checked_mul_decimal_eq prof i d

/-! ### algebraic laws
Model-level corollaries: equalities of `Outcome` values, so the two sides also panic together (and with the same panic kind). -/

/-- the rounding core of `*` / `mul_rounded` does not depend on the operand order -/
theorem checkedMulRounded_comm (hw : WideMul) (prof : Profile) (tm : Mode) (x y : Dec) (n : Nat) (hx : Dom x) (hy : Dom y) :
    checkedMulRounded prof tm x y n = checkedMulRounded prof tm y x n := by
  obtain ⟨a, p⟩ := x
  obtain ⟨b, q⟩ := y
  obtain ⟨ha0, ha1, hp⟩ := hx
  obtain ⟨hb0, hb1, hq⟩ := hy
  simp only at ha0 ha1 hp hb0 hb1 hq
  unfold checkedMulRounded
  simp only []
  rw [Int.add_comm (q : Int) (p : Int), Int.mul_comm b a]
  rw [plainU8_ok prof (x := (p : Int) + (q : Int)) (by omega) (by omega)]
  simp only [Outcome.bind_ok]
  cases hh : fitsI128 (a * b)
  · rw [checkedI128_none hh]
    simp only []
    have hsh : ((p : Int) + (q : Int)).toNat - n ≤ 38 := by omega
    unfold i128MulDivTenPowRounded
    rw [tenPow_ok _ hsh]
    simp only [Outcome.bind_ok]
    have hpw := pow10_pos (((p : Int) + (q : Int)).toNat - n)
    have hpl := pow10_le_max' hsh
    rw [hw prof a b _ ⟨ha0, ha1⟩ ⟨hb0, hb1⟩ ⟨hpw, hpl⟩, hw prof b a _ ⟨hb0, hb1⟩ ⟨ha0, ha1⟩ ⟨hpw, hpl⟩, Int.mul_comm b a]
  · rw [checkedI128_some hh]

/-- `x * y = y * x`, as outcomes, unless BOTH operands are representations of one with different numbers of fractional digits
    (see `mul_ones`: the short cuts then return the LEFT operand, e.g. `1.0 * 1 = 1.0` but `1 * 1.0 = 1`) -/
theorem mul_commutes (hw : WideMul) (prof : Profile) (tm : Mode) (x y : Dec) (hx : Dom x) (hy : Dom y)
    (h11 : x.coeff = (10 : Int) ^ x.nfrac → y.coeff = (10 : Int) ^ y.nfrac → x.nfrac = y.nfrac) :
    mul prof tm x y = mul prof tm y x := by
  have hcore := checkedMulRounded_comm hw prof tm x y Gen.MAX_N_FRAC_DIGITS hx hy
  obtain ⟨a, p⟩ := x
  obtain ⟨b, q⟩ := y
  have hp : p ≤ 18 := hx.2.2
  have hq : q ≤ 18 := hy.2.2
  simp only at h11
  unfold mul
  simp only [eqZero]
  by_cases h0 : a = 0 ∨ b = 0
  · have h1 : (decide (a = 0) || decide (b = 0)) = true := by simpa using h0
    have h2 : (decide (b = 0) || decide (a = 0)) = true := by simpa using h0.symm
    simp [h1, h2]
  · have h1 : (decide (a = 0) || decide (b = 0)) = false := by simpa using h0
    have h2 : (decide (b = 0) || decide (a = 0)) = false := by (have : ¬ (b = 0 ∨ a = 0) := fun h => h0 h.symm; simpa using this)
    simp only [h1, h2, if_false, Bool.false_eq_true]
    rw [eqOne_eq ⟨b, q⟩ hq, eqOne_eq ⟨a, p⟩ hp]
    simp only [Outcome.bind_ok]
    by_cases hb : b = (10 : Int) ^ q <;> by_cases ha : a = (10 : Int) ^ p
    · have := h11 ha hb
      subst this
      simp [ha, hb]
    · simp [ha, hb]
    · simp [ha, hb]
    · simp only [ha, hb, decide_false, Bool.false_eq_true, if_false, hcore]

/-- both operands representations of one: the short cut returns the left operand, whatever the right one's digits -/
theorem mul_ones (prof : Profile) (tm : Mode) (p q : Nat) (hq : q ≤ 18) :
    mul prof tm ⟨(10 : Int) ^ p, p⟩ ⟨(10 : Int) ^ q, q⟩ = .ok ⟨(10 : Int) ^ p, p⟩ := by
  have hp0 : ¬ (10 : Int) ^ p = 0 := Int.ne_of_gt (pow10_pos p)
  have hq0 : ¬ (10 : Int) ^ q = 0 := Int.ne_of_gt (pow10_pos q)
  unfold mul
  simp only [eqZero]
  rw [eqOne_eq ⟨(10 : Int) ^ q, q⟩ hq]
  simp [hp0, hq0]

/-- `x * 1`: `x` itself — except that every zero is returned as `Decimal::ZERO` (the zero test comes first); every `x` -/
theorem mul_one_right (prof : Profile) (tm : Mode) (x : Dec) :
    mul prof tm x Dec.ONE = .ok (if x.coeff = 0 then Dec.ZERO else x) := by
  have h1 : eqOne Dec.ONE = .ok true := by decide
  unfold mul
  simp only [eqZero, h1]
  by_cases h0 : x.coeff = 0
  · simp [h0]
  · have : ¬ Dec.ONE.coeff = 0 := by decide
    simp [h0, this]

/-- `1 * x`: `x` itself — except that every zero is returned as `Decimal::ZERO` and every representation of one as
    `Decimal::ONE` (the test `eq_one(other)` precedes `eq_one(self)`: `1 * 1.00 = 1`, while `1.00 * 1 = 1.00`) -/
theorem mul_one_left (prof : Profile) (tm : Mode) (x : Dec) (hx : Dom x) :
    mul prof tm Dec.ONE x =
      .ok (if x.coeff = 0 then Dec.ZERO else if x.coeff = (10 : Int) ^ x.nfrac then Dec.ONE else x) := by
  have h1 : eqOne Dec.ONE = .ok true := by decide
  have hn : ¬ Dec.ONE.coeff = 0 := by decide
  unfold mul
  simp only [eqZero]
  rw [eqOne_eq x hx.2.2, h1]
  by_cases h0 : x.coeff = 0
  · simp [h0]
  · by_cases hone : x.coeff = (10 : Int) ^ x.nfrac
    · have hp0 : ¬ (10 : Int) ^ x.nfrac = 0 := Int.ne_of_gt (pow10_pos _)
      simp [hn, hone, hp0]
    · simp [h0, hn, hone]

/-- `x * 0 = 0 * x = Decimal::ZERO` for every `x` and every representation of zero (nothing else is evaluated) -/
theorem mul_zero_any (prof : Profile) (tm : Mode) (x z : Dec) (hz : z.coeff = 0) :
    mul prof tm x z = .ok Dec.ZERO ∧ mul prof tm z x = .ok Dec.ZERO := by
  unfold mul
  simp [eqZero, hz]

example : mul Profile.dev .heven ⟨-15, 1⟩ ⟨25, 2⟩ = .ok ⟨-375, 3⟩ ∧ mul Profile.dev .heven ⟨25, 2⟩ ⟨-15, 1⟩ = .ok ⟨-375, 3⟩ := by
  decide
example : mul Profile.release .heven ⟨1000000000000000005, 18⟩ ⟨15, 1⟩ = .ok ⟨1500000000000000008, 18⟩ ∧
    mul Profile.release .heven ⟨15, 1⟩ ⟨1000000000000000005, 18⟩ = .ok ⟨1500000000000000008, 18⟩ := by decide
-- the counter-example to unrestricted commutativity: both operands are ones
example : mul Profile.dev .heven ⟨10, 1⟩ ⟨1, 0⟩ = .ok ⟨10, 1⟩ ∧ mul Profile.dev .heven ⟨1, 0⟩ ⟨10, 1⟩ = .ok ⟨1, 0⟩ := by decide
example : mul Profile.dev .up ⟨-25, 1⟩ Dec.ONE = .ok ⟨-25, 1⟩ ∧ mul Profile.dev .up Dec.ONE ⟨-25, 1⟩ = .ok ⟨-25, 1⟩ ∧
    mul Profile.dev .up ⟨0, 3⟩ Dec.ONE = .ok ⟨0, 0⟩ ∧ mul Profile.dev .up Dec.ONE ⟨100, 2⟩ = .ok ⟨1, 0⟩ ∧
    mul Profile.dev .up ⟨100, 2⟩ Dec.ONE = .ok ⟨100, 2⟩ := by decide
example : mul Profile.release .down ⟨-25, 1⟩ ⟨0, 7⟩ = .ok Dec.ZERO ∧ mul Profile.release .down Dec.ZERO ⟨I128_MAX, 18⟩ = .ok Dec.ZERO := by
  decide

/-! ### algebraic laws: `checked_mul` against `*`
`checked_mul` never rounds: it returns `None` as soon as `p + q > 18` (after the zero / one short cuts), where `*` returns the
product rounded to 18 digits.  So the two agree — the operator is the checked variant with `None` turned into the overflow panic —
exactly on the operands for which nothing has to be rounded; in general only `Some(r)` carries over to the operator. -/

/-- the operands on which `*` is exact by construction: a zero, a one, or at most 18 digits in the product -/
def MulExact (x y : Dec) : Prop :=
  x.coeff = 0 ∨ y.coeff = 0 ∨ y.coeff = (10 : Int) ^ y.nfrac ∨ x.coeff = (10 : Int) ^ x.nfrac ∨ x.nfrac + y.nfrac ≤ 18

instance (x y : Dec) : Decidable (MulExact x y) := by unfold MulExact; infer_instance

/-- on those operands `x * y` is `x.checked_mul(y)` with `None` replaced by the overflow panic (every mode, every profile) -/
theorem mul_eq_checked (prof : Profile) (tm : Mode) (x y : Dec) (hp : x.nfrac ≤ 18) (hq : y.nfrac ≤ 18) (h : MulExact x y) :
    mul prof tm x y = panicOnNone (checkedMul prof x y) := by
  obtain ⟨a, p⟩ := x
  obtain ⟨b, q⟩ := y
  simp only [MulExact] at hp hq h
  unfold mul checkedMul
  simp only [eqZero]
  by_cases h0 : a = 0 ∨ b = 0
  · have h1 : (decide (a = 0) || decide (b = 0)) = true := by simpa using h0
    simp [h1, panicOnNone]
  · have h1 : (decide (a = 0) || decide (b = 0)) = false := by simpa using h0
    simp only [h1, if_false, Bool.false_eq_true]
    rw [eqOne_eq ⟨b, q⟩ hq, eqOne_eq ⟨a, p⟩ hp]
    simp only [Outcome.bind_ok]
    by_cases hb : b = (10 : Int) ^ q
    · simp [hb, panicOnNone]
    · by_cases ha : a = (10 : Int) ^ p
      · simp [ha, hb, panicOnNone]
      · have hpq : p + q ≤ 18 := by
          rcases h with h | h | h | h | h
          · exact absurd (Or.inl h) h0
          · exact absurd (Or.inr h) h0
          · exact absurd h hb
          · exact absurd h ha
          · exact h
        simp only [ha, hb, decide_false, Bool.false_eq_true, if_false]
        unfold checkedMulRounded
        simp only [max_nfrac]
        rw [plainU8_ok prof (x := (p : Int) + (q : Int)) (by omega) (by omega)]
        have e : ((p : Int) + (q : Int)).toNat = p + q := by omega
        have h18 : 18 ≥ p + q := hpq
        have h18' : ¬ p + q > 18 := by omega
        simp only [Outcome.bind_ok, e, h18, h18', if_true, if_false]
        cases checkedI128 (a * b) <;> rfl

/-- `checked_mul` never panics on operands of the domain -/
theorem checked_mul_no_panic (prof : Profile) (x y : Dec) (hx : Dom x) (hy : Dom y) : ∃ o, checkedMul prof x y = .ok o := by
  refine allowedChecked_no_panic _ _ (checked_mul_spec prof x y hx hy) ?_ ?_ <;>
    (unfold Spec.checkedMul Spec.valFitSharp; repeat' split) <;> simp

/-- beyond 18 digits in the product (no short cut): `None`, whatever the operands -/
theorem checked_mul_none_of_digits (prof : Profile) (x y : Dec) (hx : Dom x) (hy : Dom y) (h : ¬ MulExact x y) :
    checkedMul prof x y = .ok none := by
  have hs := checked_mul_spec prof x y hx hy
  simp only [MulExact, not_or] at h
  obtain ⟨h1, h2, h3, h4, h5⟩ := h
  have h0 : ¬ (x.coeff = 0 ∨ y.coeff = 0) := fun hh => hh.elim h1 h2
  have h6 : x.nfrac + y.nfrac > 18 := by omega
  unfold Spec.checkedMul at hs
  simp only [h0, isOne_eq, h3, h4, h6, decide_false, Bool.false_eq_true, if_false, if_true] at hs
  cases hc : checkedMul prof x y with
  | panic k => rw [hc] at hs; simp [Spec.allowedChecked] at hs
  | ok o =>
    cases o with
    | none => rfl
    | some r => rw [hc] at hs; simp [Spec.allowedChecked] at hs

/-- `Some(r)` always carries over: the operator then returns `r` (all operands of the domain, every mode) -/
theorem checked_mul_some_imp (prof : Profile) (tm : Mode) (x y r : Dec) (hx : Dom x) (hy : Dom y)
    (h : checkedMul prof x y = .ok (some r)) : mul prof tm x y = .ok r := by
  by_cases he : MulExact x y
  · rw [mul_eq_checked prof tm x y hx.2.2 hy.2.2 he, h]; rfl
  · rw [checked_mul_none_of_digits prof x y hx hy he] at h
    simp at h

/-- where nothing is rounded: `Some(r)` exactly when the operator returns `r` … -/
theorem checked_mul_some_iff (prof : Profile) (tm : Mode) (x y r : Dec) (hx : Dom x) (hy : Dom y) (he : MulExact x y) :
    checkedMul prof x y = .ok (some r) ↔ mul prof tm x y = .ok r := by
  rw [mul_eq_checked prof tm x y hx.2.2 hy.2.2 he, panicOnNone_eq_ok_iff]

/-- … and `None` exactly when the operator panics, the panic being the overflow panic -/
theorem checked_mul_none_iff (prof : Profile) (tm : Mode) (x y : Dec) (hx : Dom x) (hy : Dom y) (he : MulExact x y) :
    checkedMul prof x y = .ok none ↔ mul prof tm x y = .panic .overflow := by
  obtain ⟨o, ho⟩ := checked_mul_no_panic prof x y hx hy
  rw [mul_eq_checked prof tm x y hx.2.2 hy.2.2 he, panicOnNone_eq_panic_iff, ho]
  simp

theorem mul_exact_panic_kind (prof : Profile) (tm : Mode) (x y : Dec) (k : PanicKind) (hx : Dom x) (hy : Dom y) (he : MulExact x y)
    (h : mul prof tm x y = .panic k) : k = .overflow := by
  obtain ⟨o, ho⟩ := checked_mul_no_panic prof x y hx hy
  rw [mul_eq_checked prof tm x y hx.2.2 hy.2.2 he, panicOnNone_eq_panic_iff, ho] at h
  simp at h
  exact h.2

/-- the integer shapes (`Decimal * int`, `int * Decimal`): no condition at all -/
theorem mul_int_eq_checked (d : Dec) (i : Int) : mulInt d i = Outcome.ofOption .overflow (checkedMulInt d i) := by
  unfold mulInt checkedMulInt
  cases checkedI128 (d.coeff * i) <;> rfl

theorem checked_mul_int_some_iff (d r : Dec) (i : Int) : checkedMulInt d i = some r ↔ mulInt d i = .ok r := by
  rw [mul_int_eq_checked, ofOption_eq_ok_iff]

theorem checked_mul_int_none_iff (d : Dec) (i : Int) : checkedMulInt d i = none ↔ mulInt d i = .panic .overflow := by
  rw [mul_int_eq_checked, ofOption_eq_panic_iff]
  simp

example : checkedMul Profile.dev ⟨-15, 1⟩ ⟨25, 2⟩ = .ok (some ⟨-375, 3⟩) ∧ mul Profile.dev .heven ⟨-15, 1⟩ ⟨25, 2⟩ = .ok ⟨-375, 3⟩ ∧
    checkedMul Profile.dev Dec.MAX ⟨2, 0⟩ = .ok none ∧ mul Profile.dev .heven Dec.MAX ⟨2, 0⟩ = .panic .overflow ∧
    checkedMul Profile.release ⟨5, 18⟩ ⟨100, 2⟩ = .ok (some ⟨5, 18⟩) ∧ mul Profile.release .up ⟨5, 18⟩ ⟨100, 2⟩ = .ok ⟨5, 18⟩ := by decide
-- the counter-example to unrestricted agreement: 19 digits in the product — `None` against the rounded product
example : ¬ MulExact ⟨15, 10⟩ ⟨3, 9⟩ ∧ checkedMul Profile.dev ⟨15, 10⟩ ⟨3, 9⟩ = .ok none ∧
    mul Profile.dev .heven ⟨15, 10⟩ ⟨3, 9⟩ = .ok ⟨4, 18⟩ ∧ mul Profile.dev .up ⟨15, 10⟩ ⟨3, 9⟩ = .ok ⟨5, 18⟩ := by decide
example : checkedMulInt ⟨-15, 1⟩ 3 = some ⟨-45, 1⟩ ∧ mulInt ⟨-15, 1⟩ 3 = .ok ⟨-45, 1⟩ ∧
    checkedMulInt Dec.MAX 2 = none ∧ mulInt Dec.MAX 2 = .panic .overflow := by decide

/-! ### algebraic laws: `*` is exact up to 18 digits -/

/-- the four ways `x * y` produces a result when `p + q ≤ 18`: a zero, the other operand next to a one, or the exact product of the
    coefficients with `p + q` digits (nothing is ever rounded there) -/
theorem mul_exact_cases (prof : Profile) (tm : Mode) (x y r : Dec) (hp : x.nfrac ≤ 18) (hq : y.nfrac ≤ 18)
    (hpq : x.nfrac + y.nfrac ≤ 18) (h : mul prof tm x y = .ok r) :
    (r = Dec.ZERO ∧ (x.coeff = 0 ∨ y.coeff = 0)) ∨ (r = x ∧ y.coeff = (10 : Int) ^ y.nfrac) ∨
    (r = y ∧ x.coeff = (10 : Int) ^ x.nfrac) ∨
    (r = ⟨x.coeff * y.coeff, x.nfrac + y.nfrac⟩ ∧ fitsI128 (x.coeff * y.coeff) = true) := by
  obtain ⟨a, p⟩ := x
  obtain ⟨b, q⟩ := y
  simp only at hp hq hpq ⊢
  unfold mul at h
  simp only [eqZero] at h
  by_cases h0 : a = 0 ∨ b = 0
  · have h1 : (decide (a = 0) || decide (b = 0)) = true := by simpa using h0
    simp [h1] at h
    exact Or.inl ⟨h.symm, h0⟩
  · have h1 : (decide (a = 0) || decide (b = 0)) = false := by simpa using h0
    simp only [h1, if_false, Bool.false_eq_true] at h
    rw [eqOne_eq ⟨b, q⟩ hq, eqOne_eq ⟨a, p⟩ hp] at h
    simp only [Outcome.bind_ok] at h
    by_cases hb : b = (10 : Int) ^ q
    · simp [hb] at h
      exact Or.inr (Or.inl ⟨h.symm, hb⟩)
    · by_cases ha : a = (10 : Int) ^ p
      · simp [ha, hb] at h
        exact Or.inr (Or.inr (Or.inl ⟨by rw [← h], ha⟩))
      · simp only [ha, hb, decide_false, Bool.false_eq_true, if_false] at h
        unfold checkedMulRounded at h
        simp only [max_nfrac] at h
        rw [plainU8_ok prof (x := (p : Int) + (q : Int)) (by omega) (by omega)] at h
        have e : ((p : Int) + (q : Int)).toNat = p + q := by omega
        have h18 : 18 ≥ p + q := hpq
        simp only [Outcome.bind_ok, e, h18, if_true] at h
        cases hf : fitsI128 (a * b)
        · rw [checkedI128_none hf] at h
          simp at h
        · rw [checkedI128_some hf] at h
          simp at h
          exact Or.inr (Or.inr (Or.inr ⟨h.symm, rfl⟩))

/-- … so the result has exactly the value of the product: `r.coeff / 10^r.nfrac = (a / 10^p) · (b / 10^q)`, over the integers -/
theorem mul_exact_value (prof : Profile) (tm : Mode) (x y r : Dec) (hp : x.nfrac ≤ 18) (hq : y.nfrac ≤ 18)
    (hpq : x.nfrac + y.nfrac ≤ 18) (h : mul prof tm x y = .ok r) :
    r.coeff * (10 : Int) ^ (x.nfrac + y.nfrac) = x.coeff * y.coeff * (10 : Int) ^ r.nfrac := by
  rcases mul_exact_cases prof tm x y r hp hq hpq h with ⟨rfl, h0⟩ | ⟨rfl, h1⟩ | ⟨rfl, h1⟩ | ⟨rfl, -⟩
  · rcases h0 with h0 | h0 <;> simp [Dec.ZERO, h0]
  · rw [h1, Int.pow_add, Int.mul_assoc, Int.mul_comm ((10 : Int) ^ y.nfrac)]
  · rw [h1, Int.pow_add, Int.mul_comm, Int.mul_assoc, Int.mul_comm ((10 : Int) ^ r.nfrac) r.coeff]
    exact (Int.mul_assoc _ _ _).symm
  · rfl

example : mul Profile.dev .heven ⟨-15, 1⟩ ⟨25, 2⟩ = .ok ⟨-375, 3⟩ ∧ (-375 : Int) * 10 ^ (1 + 2) = -15 * 25 * 10 ^ 3 ∧
    mul Profile.dev .heven ⟨-15, 1⟩ ⟨100, 2⟩ = .ok ⟨-15, 1⟩ ∧ (-15 : Int) * 10 ^ (1 + 2) = -15 * 100 * 10 ^ 1 := by decide

end Fpdec.Props.C02
