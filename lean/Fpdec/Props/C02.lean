import Fpdec.Lemmas.Dom
import Fpdec.Props.C02_Sites

/-! # C02 — property theorems (under construction: see DESIGN.md section 6) -/

namespace Fpdec.Props.C02
open Fpdec Fpdec.Model

end Fpdec.Props.C02
