import Fpdec.Lemmas.Dom
import Fpdec.Props.C07_Sites

/-! # C07 — property theorems (under construction: see DESIGN.md section 6) -/

namespace Fpdec.Props.C07
open Fpdec Fpdec.Model

end Fpdec.Props.C07
