import Fpdec.Lemmas.Text
import Fpdec.Kernels.Format
import Fpdec.Kernels.Misc
import Fpdec.Model.Parser
import Fpdec.Lemmas.Parse
import Fpdec.Props.C07_Sites

/-!
# C07 — Display/ToString is canonical and round-trips through the parser

* `to_string_spec`, `string_from_spec`, `debug_spec`: `d.to_string()` (Display without flags), `String::from(d)` and the
  text inside `Debug`'s `Dec!(..)` are the same byte string `Spec.render d`: optional `-`, the integer part without leading
  zeros, and — iff `d` has `f > 0` fractional digits — a `.` followed by exactly `f` digits.  All profiles.
* `render_parses_back`: the reference grammar parser maps that text back to exactly `(coefficient, fractional digits)`;
  the text is made of bytes and is shorter than 64.
* `roundtrip_of_parser`: composing with the parser theorem of C06 (`FromStrSpec`, discharged in `Props/C06.lean`) gives
  `Decimal::from_str(d.to_string()) = Ok(d)` with identical coefficient and digit count.
* serde-as-str (`serde_glue`, `serde_roundtrip`): the attributes of `struct Decimal` are re-extracted on every run; they are the
  derive with `into = "String"` / `try_from = "String"` and nothing else, and no hand-written `Serialize`/`Deserialize` impl
  exists — so serialising is `serialize_str(String::from(d))` and deserialising `Decimal::try_from(String)`, whose *translated*
  bodies round-trip: `try_from(String::from(d)) = Ok(d)`.  serde's own code (the derive expansion, `serde_json`) is exercised by
  the correspondence run with the feature enabled, not modelled.
-/

namespace Fpdec.Props.C07
open Fpdec Fpdec.Model

theorem string_from_spec (prof : Profile) (d : Dec) (hd : Dom d) :
    toStringDec prof d = .ok (Spec.render d.coeff d.nfrac) := toStringDec_spec prof d hd

theorem to_string_spec (prof : Profile) (tm : Mode) (d : Dec) (hd : Dom d) :
    display prof tm {} d = .ok (Spec.render d.coeff d.nfrac) := display_default prof tm d hd

theorem debug_spec (prof : Profile) (d : Dec) (hd : Dom d) :
    debugDec prof d = .ok ([68, 101, 99, 33, 40] ++ Spec.render d.coeff d.nfrac ++ [41]) := debugDec_spec prof d hd

theorem render_parses_back (a : Int) (p : Nat) (ha : I128_MIN < a ∧ a ≤ I128_MAX) (hp : p ≤ 18) :
    Spec.parseSpec (Spec.render a p) = .ok a p ∧ (∀ c ∈ Spec.render a p, c < 256) ∧ (Spec.render a p).length < 64 :=
  render_parse a p ha hp

/-- the statement of the parser theorem (C06) that the round trip needs -/
def FromStrSpec : Prop :=
  ∀ (prof : Profile) (s : List Nat), (∀ c ∈ s, c < 256) → s.length < 2 ^ 56 →
    match Spec.parseSpec s, fromStr prof s with
    | .ok c p, .ok (.ok d) => d = ⟨c, p⟩
    | .empty, .ok (.error e) => e = ParseErr.empty
    | .bad, .ok (.error e) => e ≠ ParseErr.empty
    | _, _ => False

/-- parsing the canonical text gives back the identical Decimal -/
theorem roundtrip_of_parser (hparse : FromStrSpec) (prof : Profile) (d : Dec) (hd : Dom d) :
    fromStr prof (Spec.render d.coeff d.nfrac) = .ok (.ok d) := by
  obtain ⟨h1, h2, h3⟩ := render_parse d.coeff d.nfrac ⟨hd.1, hd.2.1⟩ hd.2.2
  have h := hparse prof (Spec.render d.coeff d.nfrac) h2 (by omega)
  rw [h1] at h
  cases hr : fromStr prof (Spec.render d.coeff d.nfrac) with
  | panic k => rw [hr] at h; exact absurd h (by simp)
  | ok e =>
    cases e with
    | error err => rw [hr] at h; exact absurd h (by simp)
    | ok v => rw [hr] at h; simp only at h; rw [h]

/-- `Decimal::from_str(d.to_string()) == Ok(d)`, identical coefficient and fractional digit count, every profile -/
theorem roundtrip (prof : Profile) (d : Dec) (hd : Dom d) :
    fromStr prof (Spec.render d.coeff d.nfrac) = .ok (.ok d) :=
  roundtrip_of_parser (fun prof s hb hl => fromStr_spec prof s hb hl) prof d hd

/-! ### non-vacuity -/
example : toStringDec Profile.dev ⟨-5, 3⟩ = .ok [45, 48, 46, 48, 48, 53] := by decide   -- "-0.005"

/-! ### translated kernels
The Lean definitions `Gen.K.*` are regenerated from the Rust source on every run by `tools/fpkernels.py` (expression-level
translation; `format!` / `write!` placeholder by placeholder).  These theorems tie them to the hand-written model the property
theorems above are about, and give the end-to-end statements about the *translated* functions. -/
theorem kernel_string_from_decimal (prof : Profile) (d : Dec) (hd : Dom d) :
    Gen.K.string_from_decimal prof d = toStringDec prof d := Kernels.string_from_decimal_eq prof d hd
theorem kernel_decimal_debug_fmt (prof : Profile) (d : Dec) (f : Std.FmtSpec) (hd : Dom d) :
    Gen.K.decimal_debug_fmt prof d f = debugDec prof d := Kernels.decimal_debug_fmt_eq prof d f hd
theorem kernel_decimal_display_fmt (prof : Profile) (tm : Mode) (d : Dec) (f : Std.FmtSpec) (hd : Dom d) :
    Gen.K.decimal_display_fmt prof tm d f = display prof tm f d := Kernels.decimal_display_fmt_eq prof tm d f hd
/-- end to end: the translated `String::from`, `to_string` (= `Display` with default flags) and `Debug` produce the canonical text -/
theorem kernel_string_from_spec (prof : Profile) (d : Dec) (hd : Dom d) :
    Gen.K.string_from_decimal prof d = .ok (Spec.render d.coeff d.nfrac) := by
  rw [Kernels.string_from_decimal_eq prof d hd]; exact string_from_spec prof d hd
theorem kernel_to_string_spec (prof : Profile) (tm : Mode) (d : Dec) (hd : Dom d) :
    Gen.K.decimal_display_fmt prof tm d {} = .ok (Spec.render d.coeff d.nfrac) := by
  rw [Kernels.decimal_display_fmt_eq prof tm d {} hd]; exact to_string_spec prof tm d hd
theorem kernel_debug_spec (prof : Profile) (d : Dec) (f : Std.FmtSpec) (hd : Dom d) :
    Gen.K.decimal_debug_fmt prof d f = .ok ([68, 101, 99, 33, 40] ++ Spec.render d.coeff d.nfrac ++ [41]) := by
  rw [Kernels.decimal_debug_fmt_eq prof d f hd]; exact debug_spec prof d hd

/-! ### feature serde-as-str -/
/-- the serde glue attached to `struct Decimal`, as extracted from src/lib.rs on this run -/
theorem serde_glue :
    Gen.SERDE_DERIVES = ["Serialize", "Deserialize"] ∧ Gen.SERDE_INTO = "String" ∧ Gen.SERDE_TRY_FROM = "String" ∧
    Gen.SERDE_OTHER_ATTRS = 0 ∧ Gen.SERDE_MANUAL_IMPLS = 0 ∧
    Gen.DECIMAL_FIELDS = [("coeff", "i128"), ("n_frac_digits", "u8")] := by decide
/-- `Decimal::try_from(String::from(d)) = Ok(d)` for the translated bodies of this run (what serialize ∘ deserialize computes) -/
theorem serde_roundtrip (prof : Profile) (d : Dec) (hd : Dom d) :
    (Gen.K.string_from_decimal prof d >>= Gen.K.decimal_try_from_string prof) = .ok (.ok d) := by
  rw [kernel_string_from_spec prof d hd, Kernels.bind_ok', Kernels.decimal_try_from_string_eq]
  exact roundtrip prof d hd

/-! ### algebraic laws -/

/-- canonicalisation: the text determines the representation — on the domain `Spec.render` is injective in the pair
    (coefficient, number of fractional digits), because the reference parser reads the pair back (`render_parses_back`) -/
theorem render_injective (a : Int) (p : Nat) (b : Int) (q : Nat) (ha : I128_MIN < a ∧ a ≤ I128_MAX) (hp : p ≤ 18)
    (hb : I128_MIN < b ∧ b ≤ I128_MAX) (hq : q ≤ 18) (h : Spec.render a p = Spec.render b q) : a = b ∧ p = q := by
  have h1 := (render_parses_back a p ha hp).1
  have h2 := (render_parses_back b q hb hq).1
  rw [h, h2] at h1
  injection h1 with e1 e2
  exact ⟨e1.symm, e2.symm⟩

/-- the same for Decimals: two Decimals of the domain with the same canonical text are identical (coefficient and digit count) … -/
theorem render_injective_dec (x y : Dec) (hx : Dom x) (hy : Dom y)
    (h : Spec.render x.coeff x.nfrac = Spec.render y.coeff y.nfrac) : x = y := by
  obtain ⟨e1, e2⟩ := render_injective x.coeff x.nfrac y.coeff y.nfrac ⟨hx.1, hx.2.1⟩ hx.2.2 ⟨hy.1, hy.2.1⟩ hy.2.2 h
  cases x; cases y; simp only at e1 e2; rw [e1, e2]

/-- … hence `to_string` / `String::from` are injective on the domain, in every profile: different (coefficient, digit count)
    pairs — also two representations of the same value, such as `1.0` and `1.00` — give different texts -/
theorem to_string_injective (prof : Profile) (x y : Dec) (hx : Dom x) (hy : Dom y)
    (h : toStringDec prof x = toStringDec prof y) : x = y := by
  rw [string_from_spec prof x hx, string_from_spec prof y hy] at h
  injection h with h
  exact render_injective_dec x y hx hy h

theorem to_string_ne_of_ne (prof : Profile) (x y : Dec) (hx : Dom x) (hy : Dom y) (h : x ≠ y) :
    toStringDec prof x ≠ toStringDec prof y := fun e => h (to_string_injective prof x y hx hy e)

example : toStringDec Profile.dev ⟨10, 1⟩ = .ok [49, 46, 48] ∧ toStringDec Profile.dev ⟨100, 2⟩ = .ok [49, 46, 48, 48] ∧
    toStringDec Profile.dev ⟨1, 0⟩ = .ok [49] ∧ Spec.render (-5) 3 ≠ Spec.render (-50) 4 ∧ Spec.render 0 0 ≠ Spec.render 0 1 := by decide

end Fpdec.Props.C07
