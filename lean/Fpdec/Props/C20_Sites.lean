import Fpdec.Gen.Sites
import Fpdec.Model.Pinned

/-! Site ties for C20 (written by tools/mksites.py): the flavour skeleton of every source file the property's operations
execute, as regenerated from /repo on this run, equals the skeleton the model was written against. -/

namespace Fpdec.Props.C20

theorem tie_sites_fpdec_core_src_lib : Gen.sites_fpdec_core_src_lib = Pinned.sites_fpdec_core_src_lib := by decide +kernel
theorem tie_sites_fpdec_core_src_powers_of_ten : Gen.sites_fpdec_core_src_powers_of_ten = Pinned.sites_fpdec_core_src_powers_of_ten := by decide +kernel
theorem tie_sites_fpdec_core_src_rounding : Gen.sites_fpdec_core_src_rounding = Pinned.sites_fpdec_core_src_rounding := by decide +kernel
theorem tie_sites_fpdec_core_src_parser : Gen.sites_fpdec_core_src_parser = Pinned.sites_fpdec_core_src_parser := by decide +kernel
theorem tie_sites_fpdec_macros_src_lib : Gen.sites_fpdec_macros_src_lib = Pinned.sites_fpdec_macros_src_lib := by decide +kernel
theorem tie_sites_src_lib : Gen.sites_src_lib = Pinned.sites_src_lib := by decide +kernel
theorem tie_sites_src_round : Gen.sites_src_round = Pinned.sites_src_round := by decide +kernel
theorem tie_sites_src_unops : Gen.sites_src_unops = Pinned.sites_src_unops := by decide +kernel
theorem tie_sites_src_quantize : Gen.sites_src_quantize = Pinned.sites_src_quantize := by decide +kernel
theorem tie_sites_src_format : Gen.sites_src_format = Pinned.sites_src_format := by decide +kernel
theorem tie_sites_src_from_str : Gen.sites_src_from_str = Pinned.sites_src_from_str := by decide +kernel
theorem tie_sites_src_from_int : Gen.sites_src_from_int = Pinned.sites_src_from_int := by decide +kernel
theorem tie_sites_src_into_int : Gen.sites_src_into_int = Pinned.sites_src_into_int := by decide +kernel
theorem tie_sites_src_from_float : Gen.sites_src_from_float = Pinned.sites_src_from_float := by decide +kernel
theorem tie_sites_src_into_float : Gen.sites_src_into_float = Pinned.sites_src_into_float := by decide +kernel
theorem tie_sites_src_as_integer_ratio : Gen.sites_src_as_integer_ratio = Pinned.sites_src_as_integer_ratio := by decide +kernel
theorem tie_sites_src_num_traits : Gen.sites_src_num_traits = Pinned.sites_src_num_traits := by decide +kernel
theorem tie_sites_src_binops_mod : Gen.sites_src_binops_mod = Pinned.sites_src_binops_mod := by decide +kernel
theorem tie_sites_src_binops_add_sub : Gen.sites_src_binops_add_sub = Pinned.sites_src_binops_add_sub := by decide +kernel
theorem tie_sites_src_binops_checked_add_sub : Gen.sites_src_binops_checked_add_sub = Pinned.sites_src_binops_checked_add_sub := by decide +kernel
theorem tie_sites_src_binops_mul : Gen.sites_src_binops_mul = Pinned.sites_src_binops_mul := by decide +kernel
theorem tie_sites_src_binops_checked_mul : Gen.sites_src_binops_checked_mul = Pinned.sites_src_binops_checked_mul := by decide +kernel
theorem tie_sites_src_binops_mul_rounded : Gen.sites_src_binops_mul_rounded = Pinned.sites_src_binops_mul_rounded := by decide +kernel
theorem tie_sites_src_binops_div : Gen.sites_src_binops_div = Pinned.sites_src_binops_div := by decide +kernel
theorem tie_sites_src_binops_checked_div : Gen.sites_src_binops_checked_div = Pinned.sites_src_binops_checked_div := by decide +kernel
theorem tie_sites_src_binops_div_rounded : Gen.sites_src_binops_div_rounded = Pinned.sites_src_binops_div_rounded := by decide +kernel
theorem tie_sites_src_binops_rem : Gen.sites_src_binops_rem = Pinned.sites_src_binops_rem := by decide +kernel
theorem tie_sites_src_binops_checked_rem : Gen.sites_src_binops_checked_rem = Pinned.sites_src_binops_checked_rem := by decide +kernel
theorem tie_sites_src_binops_cmp : Gen.sites_src_binops_cmp = Pinned.sites_src_binops_cmp := by decide +kernel

end Fpdec.Props.C20
