import Fpdec.Gen.Sites
import Fpdec.Model.Pinned

/-! Site ties for C20: the flavour skeleton of each anchor file, as regenerated from /repo on this run,
equals the skeleton the model was written against. -/

namespace Fpdec.Props.C20

theorem tie_sites_src_binops_add_sub : Gen.sites_src_binops_add_sub = Pinned.sites_src_binops_add_sub := by decide +kernel
theorem tie_sites_src_binops_mul : Gen.sites_src_binops_mul = Pinned.sites_src_binops_mul := by decide +kernel
theorem tie_sites_src_round : Gen.sites_src_round = Pinned.sites_src_round := by decide +kernel
theorem tie_sites_src_unops : Gen.sites_src_unops = Pinned.sites_src_unops := by decide +kernel
theorem tie_sites_fpdec_core_src_powers_of_ten : Gen.sites_fpdec_core_src_powers_of_ten = Pinned.sites_fpdec_core_src_powers_of_ten := by decide +kernel
theorem tie_sites_fpdec_core_src_rounding : Gen.sites_fpdec_core_src_rounding = Pinned.sites_fpdec_core_src_rounding := by decide +kernel
theorem tie_sites_src_lib : Gen.sites_src_lib = Pinned.sites_src_lib := by decide +kernel

end Fpdec.Props.C20
