import Fpdec.Lemmas.Dom
import Fpdec.Props.C11_Sites

/-! # C11 — property theorems (under construction: see DESIGN.md section 6) -/

namespace Fpdec.Props.C11
open Fpdec Fpdec.Model

end Fpdec.Props.C11
