import Fpdec.Lemmas.Text
import Fpdec.Kernels.Format
import Fpdec.Props.C05
import Fpdec.Props.C11_Sites

/-!
# C11 — Formatting with precision, width, fill, alignment and sign flags

`display_spec`: for every Decimal of the domain, every thread rounding mode, every combination of fill, alignment, `+`, `0`,
width and precision, and every build profile, `format!("{:…}", d)` is `Spec.displaySpec`: the canonical text of `d` rounded to
`min(P, 18)` fractional digits under the mode (zero-extended when `P` exceeds d's digits; exactly that many digits after the
point and no point for 0), sign taken from `d`, padded by std's rule.
`Std.padIntegral` is std's documented padding rule: it is shared by model and spec and validated by the correspondence run
(modelled, not verified).
-/

namespace Fpdec.Props.C11
open Fpdec Fpdec.Model

theorem display_spec (prof : Profile) (tm : Mode) (f : Std.FmtSpec) (d : Dec) (hd : Dom d) :
    display prof tm f d = .ok (Spec.displaySpec tm f d.coeff d.nfrac) :=
  Fpdec.display_spec prof tm f d hd

/-- the digits after the point are exactly `min(P, 18)` (none and no point for 0) — read off the spec -/
theorem displaySpec_unfold (tm : Mode) (f : Std.FmtSpec) (a : Int) (p : Nat) (P : Nat) (hP : f.prec = some P) :
    Spec.displaySpec tm f a p =
      Std.padIntegral f (decide (a ≥ 0))
        (Spec.render ((if min P 18 ≥ p then a * 10 ^ (min P 18 - p) else Spec.specRound tm a (10 ^ (p - min P 18))).natAbs)
          (min P 18)) := by
  unfold Spec.displaySpec
  simp [hP]

/-! ### non-vacuity -/
example : display Profile.dev .floor { prec := some 2 } ⟨-1234567, 3⟩ = .ok [45, 49, 50, 51, 52, 46, 53, 55] := by
  decide   -- "-1234.57"

/-! ### translated kernels
The Lean definitions `Gen.K.*` are regenerated from the Rust source on every run by `tools/fpkernels.py` (expression-level
translation; `format!` / `write!` placeholder by placeholder).  These theorems tie them to the hand-written model the property
theorems above are about, and give the end-to-end statements about the *translated* functions. -/
theorem kernel_decimal_display_fmt (prof : Profile) (tm : Mode) (d : Dec) (f : Std.FmtSpec) (hd : Dom d) :
    Gen.K.decimal_display_fmt prof tm d f = display prof tm f d := Kernels.decimal_display_fmt_eq prof tm d f hd
/-- end to end: the translated `Display::fmt` produces the specified text for all flags, widths, precisions and thread modes -/
theorem kernel_display_spec (prof : Profile) (tm : Mode) (f : Std.FmtSpec) (d : Dec) (hd : Dom d) :
    Gen.K.decimal_display_fmt prof tm d f = .ok (Spec.displaySpec tm f d.coeff d.nfrac) := by
  rw [Kernels.decimal_display_fmt_eq prof tm d f hd]; exact display_spec prof tm f d hd

/-! ### algebraic laws: a precision against scaling (`P ≥ p`) and against `round` (`P < p`)
`{ f with prec := … }` stands for "the same fill / alignment / `+` / `0` / width, that precision". -/

private theorem scaled_nonneg_iff (a : Int) (k : Nat) : a * (10 : Int) ^ k ≥ 0 ↔ a ≥ 0 :=
  Int.mul_nonneg_iff_of_pos_right (pow10_pos k)

/-- with no width and no `+` the padding rule only prepends the sign -/
private theorem pad_plain (P : Option Nat) (b : Bool) (buf : List Nat) :
    Std.padIntegral { prec := P } b buf = (if b then [] else [45]) ++ buf := by
  unfold Std.padIntegral
  cases b <;> simp

/-- Display without a precision: the own digits of the Decimal -/
private theorem displaySpec_no_prec (tm : Mode) (f : Std.FmtSpec) (a : Int) (P : Nat) :
    Spec.displaySpec tm { f with prec := none } a P =
      Std.padIntegral f (decide (a ≥ 0)) (Spec.render ((a.natAbs : Nat) : Int) P) := by
  unfold Spec.displaySpec
  simp only [ge_iff_le, Nat.le_refl, if_true, Nat.sub_self, Int.pow_zero, Int.mul_one]
  rfl

/-- a precision `P` with `p ≤ P ≤ 18`: the magnitude of the coefficient scaled to `P` digits, i.e. the digits of `x` followed by
    `P - p` zeros (any flags; whether or not the scaled coefficient fits an i128) -/
theorem display_prec_ge (prof : Profile) (tm : Mode) (f : Std.FmtSpec) (x : Dec) (P : Nat) (hx : Dom x) (hf : f.prec = some P)
    (hP : x.nfrac ≤ P) (hP18 : P ≤ 18) :
    display prof tm f x = .ok (Std.padIntegral f (decide (x.coeff ≥ 0))
      (Spec.render ((x.coeff * (10 : Int) ^ (P - x.nfrac)).natAbs) P)) := by
  rw [display_spec prof tm f x hx, displaySpec_unfold tm f _ _ P hf]
  have hm : min P 18 = P := Nat.min_eq_left hP18
  have hge : P ≥ x.nfrac := hP
  simp only [hm, hge, if_true]

/-- with default flags: exactly the canonical text of `x.coeff · 10^(P-p)` with `P` fractional digits — the text of `x` padded
    with zeros -/
theorem display_prec_ge_text (prof : Profile) (tm : Mode) (x : Dec) (P : Nat) (hx : Dom x) (hP : x.nfrac ≤ P) (hP18 : P ≤ 18) :
    display prof tm { prec := some P } x = .ok (Spec.render (x.coeff * (10 : Int) ^ (P - x.nfrac)) P) := by
  rw [display_prec_ge prof tm _ x P hx rfl hP hP18, pad_plain, render_natCast, render_eq]
  by_cases h : x.coeff ≥ 0
  · have h' : ¬ x.coeff * (10 : Int) ^ (P - x.nfrac) < 0 := by have := (scaled_nonneg_iff x.coeff (P - x.nfrac)).mpr h; omega
    simp [h, h']
  · have h' : x.coeff * (10 : Int) ^ (P - x.nfrac) < 0 := by
      have : ¬ x.coeff * (10 : Int) ^ (P - x.nfrac) ≥ 0 := fun hh => h ((scaled_nonneg_iff x.coeff (P - x.nfrac)).mp hh)
      omega
    simp [h, h']

/-- any flags: Display with precision `P ≥ p` is the precision-free Display of `x` re-expressed with `P` digits, when that is a
    Decimal of the domain -/
theorem display_prec_ge_scaled (prof : Profile) (tm : Mode) (f : Std.FmtSpec) (x : Dec) (P : Nat) (hx : Dom x) (hP : x.nfrac ≤ P)
    (hP18 : P ≤ 18) (hs : Dom ⟨x.coeff * (10 : Int) ^ (P - x.nfrac), P⟩) :
    display prof tm { f with prec := some P } x =
      display prof tm { f with prec := none } ⟨x.coeff * (10 : Int) ^ (P - x.nfrac), P⟩ := by
  have hd : decide (x.coeff * (10 : Int) ^ (P - x.nfrac) ≥ 0) = decide (x.coeff ≥ 0) := by
    rw [decide_eq_decide]; exact scaled_nonneg_iff _ _
  rw [display_prec_ge prof tm _ x P hx rfl hP hP18, display_spec prof tm _ _ hs, displaySpec_no_prec, hd, padIntegral_prec]

/-- a precision `P < p`: the magnitude of the coefficient ROUNDED to `P` digits under the thread mode, the sign taken from `x` -/
theorem display_prec_lt (prof : Profile) (tm : Mode) (f : Std.FmtSpec) (x : Dec) (P : Nat) (hx : Dom x) (hf : f.prec = some P)
    (hP : P < x.nfrac) :
    display prof tm f x = .ok (Std.padIntegral f (decide (x.coeff ≥ 0))
      (Spec.render ((Spec.specRound tm x.coeff ((10 : Int) ^ (x.nfrac - P))).natAbs) P)) := by
  rw [display_spec prof tm f x hx, displaySpec_unfold tm f _ _ P hf]
  have hm : min P 18 = P := Nat.min_eq_left (by have := hx.2.2; omega)
  have hge : ¬ P ≥ x.nfrac := by omega
  simp only [hm, hge, if_false]

/-- … which is the precision-free Display of `x.round(P)` (the rounding never fails: `C05.round_fewer_digits`) — unless a negative `x`
    rounds to zero: Display keeps the sign of `x` (`-0.00`), the rounded Decimal has none (`0.00`) -/
theorem display_prec_lt_round (prof : Profile) (tm : Mode) (f : Std.FmtSpec) (x r : Dec) (P : Nat) (hx : Dom x) (hP : P < x.nfrac)
    (hr : round prof tm x P = .ok r) (hs : ¬ (x.coeff < 0 ∧ r.coeff = 0)) :
    display prof tm { f with prec := some P } x = display prof tm { f with prec := none } r := by
  rw [C05.round_fewer_digits prof tm x P hx hP] at hr
  cases hr
  obtain ⟨⟨k1, k2⟩, s1, s2⟩ := C05.specRound_dom tm x.coeff ((10 : Int) ^ (x.nfrac - P)) ⟨hx.1, hx.2.1⟩ (pow10_pos _)
  have hd : Dom ⟨Spec.specRound tm x.coeff ((10 : Int) ^ (x.nfrac - P)), P⟩ := ⟨k1, k2, by have := hx.2.2; simp only; omega⟩
  simp only at hs
  have hsg : decide (Spec.specRound tm x.coeff ((10 : Int) ^ (x.nfrac - P)) ≥ 0) = decide (x.coeff ≥ 0) := by
    rw [decide_eq_decide]
    constructor
    · intro h
      by_cases hc : x.coeff ≥ 0
      · exact hc
      · have := s2 (by omega); exact absurd ⟨by omega, by omega⟩ hs
    · intro h; exact s1 h
  rw [display_prec_lt prof tm _ x P hx rfl hP, display_spec prof tm _ _ hd, displaySpec_no_prec, hsg, padIntegral_prec]

/-- the excluded case, default flags: a negative `x` that rounds to zero prints `-0.00…`, its rounded value `0.00…` -/
theorem display_prec_lt_neg_zero (prof : Profile) (tm : Mode) (x r : Dec) (P : Nat) (hx : Dom x) (hP : P < x.nfrac)
    (hr : round prof tm x P = .ok r) (hneg : x.coeff < 0) (h0 : r.coeff = 0) :
    display prof tm { prec := some P } x = .ok (45 :: Spec.render 0 P) ∧ display prof tm {} r = .ok (Spec.render 0 P) := by
  rw [C05.round_fewer_digits prof tm x P hx hP] at hr
  cases hr
  simp only at h0
  have hd : Dom ⟨0, P⟩ := by
    have := hx.2.2
    unfold Dom I128_MIN I128_MAX
    simp only
    omega
  have hn : ¬ x.coeff ≥ 0 := by omega
  constructor
  · rw [display_prec_lt prof tm _ x P hx rfl hP, pad_plain, h0]
    simp [hn]
  · rw [h0]
    exact display_default prof tm ⟨0, P⟩ hd

example : display Profile.dev .heven { prec := some 4 } ⟨-125, 2⟩ = .ok [45, 49, 46, 50, 53, 48, 48] ∧          -- "-1.2500"
    display Profile.dev .heven {} ⟨-12500, 4⟩ = .ok [45, 49, 46, 50, 53, 48, 48] := by decide
example : display Profile.dev .heven { prec := some 1 } ⟨-125, 2⟩ = .ok [45, 49, 46, 50] ∧                       -- "-1.2"
    round Profile.dev .heven ⟨-125, 2⟩ 1 = .ok ⟨-12, 1⟩ ∧ display Profile.dev .heven {} ⟨-12, 1⟩ = .ok [45, 49, 46, 50] := by decide
-- the sign subtlety: `-0.004` with precision 2 prints "-0.00", while `round(2)` is the Decimal `0.00`, printed "0.00"
example : display Profile.dev .heven { prec := some 2 } ⟨-4, 3⟩ = .ok [45, 48, 46, 48, 48] ∧
    round Profile.dev .heven ⟨-4, 3⟩ 2 = .ok ⟨0, 2⟩ ∧ display Profile.dev .heven {} ⟨0, 2⟩ = .ok [48, 46, 48, 48] := by decide
-- the scaled coefficient need not fit an i128: `Decimal::MAX` with 18 digits
example : display Profile.release .heven { prec := some 1 } Dec.MAX =
    .ok (Spec.render (I128_MAX * 10) 1) := by decide

end Fpdec.Props.C11
