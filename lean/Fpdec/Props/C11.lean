import Fpdec.Lemmas.Text
import Fpdec.Kernels.Format
import Fpdec.Props.C11_Sites

/-!
# C11 — Formatting with precision, width, fill, alignment and sign flags

`display_spec`: for every Decimal of the domain, every thread rounding mode, every combination of fill, alignment, `+`, `0`,
width and precision, and every build profile, `format!("{:…}", d)` is `Spec.displaySpec`: the canonical text of `d` rounded to
`min(P, 18)` fractional digits under the mode (zero-extended when `P` exceeds d's digits; exactly that many digits after the
point and no point for 0), sign taken from `d`, padded by std's rule.
`Std.padIntegral` is std's documented padding rule: it is shared by model and spec and validated by the correspondence run
(modelled, not verified).
-/

namespace Fpdec.Props.C11
open Fpdec Fpdec.Model

theorem display_spec (prof : Profile) (tm : Mode) (f : Std.FmtSpec) (d : Dec) (hd : Dom d) :
    display prof tm f d = .ok (Spec.displaySpec tm f d.coeff d.nfrac) :=
  Fpdec.display_spec prof tm f d hd

/-- the digits after the point are exactly `min(P, 18)` (none and no point for 0) — read off the spec -/
theorem displaySpec_unfold (tm : Mode) (f : Std.FmtSpec) (a : Int) (p : Nat) (P : Nat) (hP : f.prec = some P) :
    Spec.displaySpec tm f a p =
      Std.padIntegral f (decide (a ≥ 0))
        (Spec.render ((if min P 18 ≥ p then a * 10 ^ (min P 18 - p) else Spec.specRound tm a (10 ^ (p - min P 18))).natAbs)
          (min P 18)) := by
  unfold Spec.displaySpec
  simp [hP]

/-! ### non-vacuity -/
example : display Profile.dev .floor { prec := some 2 } ⟨-1234567, 3⟩ = .ok [45, 49, 50, 51, 52, 46, 53, 55] := by
  decide   -- "-1234.57"

/-! ### translated kernels
The Lean definitions `Gen.K.*` are regenerated from the Rust source on every run by `tools/fpkernels.py` (expression-level
translation; `format!` / `write!` placeholder by placeholder).  These theorems tie them to the hand-written model the property
theorems above are about, and give the end-to-end statements about the *translated* functions. -/
theorem kernel_decimal_display_fmt (prof : Profile) (tm : Mode) (d : Dec) (f : Std.FmtSpec) (hd : Dom d) :
    Gen.K.decimal_display_fmt prof tm d f = display prof tm f d := Kernels.decimal_display_fmt_eq prof tm d f hd
/-- end to end: the translated `Display::fmt` produces the specified text for all flags, widths, precisions and thread modes -/
theorem kernel_display_spec (prof : Profile) (tm : Mode) (f : Std.FmtSpec) (d : Dec) (hd : Dom d) :
    Gen.K.decimal_display_fmt prof tm d f = .ok (Spec.displaySpec tm f d.coeff d.nfrac) := by
  rw [Kernels.decimal_display_fmt_eq prof tm d f hd]; exact display_spec prof tm f d hd

end Fpdec.Props.C11
