import Fpdec.Kernels.FromStr
import Fpdec.Kernels.Parse
import Fpdec.Lemmas.Parse
import Fpdec.Lemmas.IntTy
import Fpdec.Props.C18_Sites

/-!
# C18 — The Dec! macro and runtime parsing agree on every literal

`macro_fold_eq`: the part of `Dec!` that follows `TokenStream::to_string` (strip the blank after a sign, `str_to_dec`, exponent
folding with `checked_mul(10^e)`) computes, for EVERY source string, exactly what `Decimal::from_str` computes on the same text:
the same `Decimal` (coefficient and fractional digits) when it is accepted and an error — i.e. a compile-time panic — exactly when
`from_str` fails, with the same error kind.  Both call the shared `str_to_dec`; the theorem is about the two separately
written tails.  Rust's lexer and `TokenStream::to_string` are not modelled: the check compiles generated `Dec!(<lit>)` programs
with rustc and compares with `from_str` on the literal text (partial: the token path is exercised, not proved).
-/

namespace Fpdec.Props.C18
open Fpdec Fpdec.Model

theorem max_exp_const : Gen.FROM_STR_MAX_EXP = 38 := by decide

theorem i128_cast_fits (x : Int) : fitsI128 (IntTy.i128.cast x) = true := by
  unfold IntTy.cast IntTy.wrap IntTy.i128
  simp only [if_true]
  have e1 : (2 : Int) ^ (128 - 1) = 170141183460469231731687303715884105728 := by decide
  have e2 : (2 : Int) ^ 128 = 340282366920938463463374607431768211456 := by decide
  rw [e1, e2, fitsI128_iff]
  unfold I128_MIN I128_MAX
  omega

theorem negI128_fits (prof : Profile) (x y : Int) (h : negI128 prof x = .ok y) : fitsI128 y = true := by
  unfold negI128 plainI128 at h
  by_cases hf : fitsI128 (-x) = true
  · simp [hf] at h; rw [← h]; exact hf
  · simp only [hf, if_false] at h
    cases prof with
    | mk oc da =>
      cases oc
      · simp at h
        rw [← h]
        unfold wrapI128; rw [fitsI128_iff]; unfold I128_MIN I128_MAX; omega
      · simp at h

open ParseAux in
theorem mTail_fits (prof : Profile) (isNeg : Bool) (D f : Nat) (ep : Outcome (Except ParseErr (Int × List Nat)))
    (c e : Int) (h : mTail prof isNeg D f ep = .ok (.ok (c, e))) : fitsI128 c = true := by
  unfold mTail at h
  split at h
  · simp at h
  · simp at h
  · split at h
    · simp at h
    · split at h
      · simp at h
      · split at h
        · simp at h
        · split at h
          · simp at h
          · simp only at h
            split at h
            · split at h
              · simp at h
              · rename_i cc hneg
                simp only [Outcome.ok.injEq, Except.ok.injEq, Prod.mk.injEq] at h
                rw [← h.1]; exact negI128_fits prof _ _ hneg
            · simp only [Outcome.ok.injEq, Except.ok.injEq, Prod.mk.injEq] at h
              rw [← h.1]; exact i128_cast_fits _

open ParseAux in
/-- the coefficient returned by `str_to_dec` is an `i128` -/
theorem strToDec_coeff_fits (prof : Profile) (s : List Nat) (c e : Int)
    (h : strToDec prof s = .ok (.ok (c, e))) : fitsI128 c = true := by
  rw [strToDec_eq'] at h
  split at h
  · simp at h
  · unfold mBody at h
    split at h
    · simp at h
    · simp only at h
      split at h
      · simp only [Outcome.ok.injEq, Except.ok.injEq, Prod.mk.injEq] at h
        rw [← h.1]; decide
      · split at h
        · simp at h
        · split at h
          · simp at h
          · exact mTail_fits prof _ _ _ _ c e h

/-- MAIN: the folding of `Dec!` equals `Decimal::from_str` on the same text — value, digit count and error kind -/
theorem macro_fold_eq (prof : Profile) (src : List Nat) :
    macroFold prof src = fromStr prof (macroStripBlank src) := by
  unfold macroFold fromStr
  cases hs : strToDec prof (macroStripBlank src) with
  | panic k => rfl
  | ok r =>
    cases r with
    | error err => rfl
    | ok ce =>
      obtain ⟨c, e⟩ := ce
      have hfit := strToDec_coeff_fits prof _ c e hs
      simp only [max_exp_const]
      cases hn : IntTy.isize.plain prof (-e) with
      | panic k => rfl
      | ok nexp =>
        simp only
        by_cases h18 : nexp > (Gen.MAX_N_FRAC_DIGITS : Int)
        · simp [h18]
        · simp only [h18, if_false]
          by_cases h38 : e > ((38 : Nat) : Int)
          · simp only [h38, if_true]
            by_cases hc0 : c = 0
            · subst hc0
              have : ¬ ((0 : Int) > 0) := by omega
              have hz : IntTy.isize.plain prof (0 : Int) = .ok 0 := by
                unfold IntTy.plain IntTy.fits IntTy.min IntTy.max IntTy.isize; simp
              simp [hz, Dec.ZERO, IntTy.cast, IntTy.wrap, IntTy.u8]
            · simp [hc0]
          · simp only [h38, if_false]
            by_cases hneg : e < 0
            · have hpos : ¬ e > 0 := by omega
              simp only [hneg, hpos, if_true, if_false, hn]
            · simp only [hneg, if_false]
              have he : 0 ≤ e ∧ e ≤ 38 := by omega
              rw [u8_cast_id (x := e) he.1 (by omega), checkedMulPowTen_eq c e.toNat (by omega)]
              by_cases hpos : e > 0
              · simp only [hpos, if_true]
              · have he0 : e = 0 := by omega
                subst he0
                simp only [hpos, if_false, hn]
                have hnz : nexp = 0 := by
                  unfold IntTy.plain IntTy.fits IntTy.min IntTy.max IntTy.isize at hn
                  simp at hn; omega
                subst hnz
                simp [checkedI128_some hfit, IntTy.cast, IntTy.wrap, IntTy.u8]

/-- the sign fix-up only touches white space directly after a leading sign (D15: a blank, a tab, or the line break that
    `TokenStream::to_string` puts in front of a long literal) -/
theorem strip_blank_spec (s : List Nat) :
    macroStripBlank s = (match s with
      | 45 :: r => 45 :: r.dropWhile isAsciiWs
      | 43 :: r => 43 :: r.dropWhile isAsciiWs
      | s => s) := by
  unfold macroStripBlank; rfl

/-- `Dec!(- lit)`, `Dec!(-<line break>lit)` and `Dec!(-lit)` fold to the same constant: the text between sign and number is irrelevant -/
theorem sign_separator_irrelevant (prof : Profile) (sign : Nat) (hs : sign = 45 ∨ sign = 43) (ws rest : List Nat)
    (hws : ∀ c ∈ ws, isAsciiWs c = true) (hr : ∀ c, rest.head? = some c → isAsciiWs c = false) :
    macroFold prof (sign :: (ws ++ rest)) = macroFold prof (sign :: rest) := by
  have key : (ws ++ rest).dropWhile isAsciiWs = rest.dropWhile isAsciiWs := by
    induction ws with
    | nil => rfl
    | cons c t ih =>
      have hc : isAsciiWs c = true := hws c (List.mem_cons_self ..)
      rw [List.cons_append, List.dropWhile_cons, if_pos hc]
      exact ih (fun d hd => hws d (List.mem_cons_of_mem _ hd))
  unfold macroFold
  rcases hs with h | h <;> subst h <;> simp only [macroStripBlank, key]

/-! ### non-vacuity -/
example : macroFold Profile.dev [45, 32, 49, 46, 53] = .ok (.ok ⟨-15, 1⟩) := by decide       -- "- 1.5"
example : macroFold Profile.dev [45, 10, 49, 46, 53] = .ok (.ok ⟨-15, 1⟩) := by decide       -- "-\n1.5" (D15)
example : macroFold Profile.dev [48, 101, 57, 57] = .ok (.ok ⟨0, 0⟩) := by decide           -- "0e99"
example : macroFold Profile.dev [49, 101, 51, 57] = .ok (.error .overflow) := by decide     -- "1e39": does not compile

/-! ### translated kernels
The Lean definitions `Gen.K.*` are regenerated from the Rust source on every run by `tools/fpkernels.py` (expression-level
translation).  These theorems tie them to the hand-written model the property theorems above are about: a change of the Rust
kernel that changes its translation breaks them. -/
/-- `impl FromStr for Decimal` (everything after the parser call), as translated on this run -/
theorem kernel_decimal_from_str (prof : Profile) (lit : List Nat) : Gen.K.decimal_from_str prof lit = fromStr prof lit :=
  Kernels.decimal_from_str_eq prof lit
/-- the `Dec!` proc macro as a function of the literal text (a panic of the macro = does not compile = `Err`), as translated on this
    run from fpdec-macros/src/lib.rs -/
theorem kernel_dec_fold (prof : Profile) (src : List Nat) :
    Gen.K.dec_fold prof (macroStripBlank src) =
      (fun r => r.map (fun d : Dec => (d.coeff, d.nfrac))) <$> macroFold prof src := Kernels.dec_fold_eq prof src

/-- the parser `Dec!` runs at compile time, as translated on this run -/
theorem kernel_str_to_dec (prof : Profile) (lit : List Nat) (h : lit.length < 2 ^ 63) :
    Gen.K.str_to_dec prof lit = strToDec prof lit := Kernels.str_to_dec_eq prof lit h

end Fpdec.Props.C18
