import Fpdec.Lemmas.Dom
import Fpdec.Props.C18_Sites

/-! # C18 — property theorems (under construction: see DESIGN.md section 6) -/

namespace Fpdec.Props.C18
open Fpdec Fpdec.Model

end Fpdec.Props.C18
