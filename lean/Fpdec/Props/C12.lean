import Fpdec.Lemmas.Dom
import Fpdec.Props.C12_Sites

/-! # C12 — property theorems (under construction: see DESIGN.md section 6) -/

namespace Fpdec.Props.C12
open Fpdec Fpdec.Model

end Fpdec.Props.C12
