import Fpdec.Kernels.Misc
import Fpdec.Kernels.IntoFloat
import Fpdec.Lemmas.IntoFloat
import Fpdec.Lemmas.IntoFloatNearest
import Fpdec.Props.C12_Sites

/-!
# C12 — Decimal to f64/f32 conversion is correctly rounded

* `into_float_spec`: for every Decimal of the domain, both formats and every profile the model of `f64::from(d)` / `f32::from(d)`
  returns the bit pattern `Spec.intoFloat` = sign bit + `Spec.rneBits |a| 10^p` (exponent from the definition
  `2^e ≤ v < 2^(e+1)`, significand by half-even rounding of the exact quotient, carry into the exponent); zero maps to `+0.0`.
* `rne_is_nearest`: that pattern decodes to a float that is nearest to the exact decimal value among ALL bit patterns of the
  format, with an even significand on ties — the spec itself is justified, not only matched.
Assumed (Rust reference, exercised by the correspondence run): `i128 as f64` / `as f32` rounds to nearest-even — the integer-valued
branch (`n_frac_digits == 0` or zero coefficient) is modelled by the spec function itself.
-/

namespace Fpdec.Props.C12
open Fpdec Fpdec.Model

theorem from_decimal_spec (prof : Profile) (f : Spec.FloatFmt) (hf : f = Spec.FloatFmt.f64 ∨ f = Spec.FloatFmt.f32)
    (d : Dec) (hd : Dom d) (hp : 0 < d.nfrac) (ha : d.coeff ≠ 0) :
    fromDecimal prof f d = .ok (Spec.intoFloat f d.coeff d.nfrac) :=
  fromDecimal_spec prof f hf d hd hp ha

theorem into_float_spec (prof : Profile) (f : Spec.FloatFmt) (hf : f = Spec.FloatFmt.f64 ∨ f = Spec.FloatFmt.f32)
    (d : Dec) (hd : Dom d) :
    intoFloat prof f d = .ok (Spec.intoFloat f d.coeff d.nfrac) :=
  intoFloat_spec prof f hf d hd

/-- the spec pattern is a finite normal float, nearest to the decimal value among all bit patterns `b` of the format
    (distances compared by cross-multiplication), and has an even last bit whenever another value is equally near -/
theorem rne_is_nearest (f : Spec.FloatFmt) (hf : f = Spec.FloatFmt.f64 ∨ f = Spec.FloatFmt.f32)
    (a : Int) (p : Nat) (ha : a ≠ 0) (ha0 : I128_MIN < a) (ha1 : a ≤ I128_MAX) (hp : p ≤ 18) :
    2 ^ f.fracBits ≤ Spec.rneBits f a.natAbs (10 ^ p) ∧
    Spec.rneBits f a.natAbs (10 ^ p) < (2 ^ f.expBits - 1) * 2 ^ f.fracBits ∧
    ∀ b : Nat,
      let r := Spec.decodeBits f (Spec.rneBits f a.natAbs (10 ^ p))
      let y := Spec.decodeBits f b
      ((a.natAbs * r.2 : Nat) - (r.1 * 10 ^ p : Nat) : Int).natAbs * y.2
          ≤ ((a.natAbs * y.2 : Nat) - (y.1 * 10 ^ p : Nat) : Int).natAbs * r.2 ∧
      (((a.natAbs * r.2 : Nat) - (r.1 * 10 ^ p : Nat) : Int).natAbs * y.2
          = ((a.natAbs * y.2 : Nat) - (y.1 * 10 ^ p : Nat) : Int).natAbs * r.2 →
        y.1 * r.2 ≠ r.1 * y.2 → Spec.rneBits f a.natAbs (10 ^ p) % 2 = 0) :=
  rneBits_nearest_dom f hf a p ha ha0 ha1 hp

/-! ### non-vacuity -/
example : intoFloat Profile.dev .f64 ⟨1, 1⟩ = .ok 4591870180066957722 := by decide   -- 0.1
example : intoFloat Profile.release .f32 ⟨99999999, 8⟩ = .ok 1065353216 := by decide   -- 0.99999999 → 1.0f32 (carry)

/-! ### translated kernels
The Lean definitions `Gen.K.*` are regenerated from the Rust source on every run by `tools/fpkernels.py` (expression-level
translation).  These theorems tie them to the hand-written model the property theorems above are about: a change of the Rust
kernel that changes its translation breaks them. -/
/-- `Float::from_decimal` (src/into_float.rs) instantiated for `f64` (`FRACTION_BITS = 52`, `EXP_BIAS = 1023`, `BITS = 64`) and `f32`
    (23, 127, 32, `from_bits(bits as u32)`), as translated on this run -/
theorem kernel_f64_from_decimal (prof : Profile) (d : Dec) :
    Gen.K.f64_from_decimal prof d = fromDecimal prof Spec.FloatFmt.f64 d := Kernels.f64_from_decimal_eq prof d
theorem kernel_f32_from_decimal (prof : Profile) (d : Dec) :
    Gen.K.f32_from_decimal prof d = fromDecimal prof Spec.FloatFmt.f32 d := Kernels.f32_from_decimal_eq prof d
theorem kernel_n_signif_bits (prof : Profile) (v : Nat) : Gen.K.n_signif_bits prof v = .ok (nSignifBits v) :=
  Kernels.n_signif_bits_eq prof v

/-- `impl From<Decimal> for f64 / f32`: the integral shortcut (`i128 as fN`, assumed RNE) or `Float::from_decimal` -/
theorem kernel_f64_from (prof : Profile) (d : Dec) : Gen.K.f64_from prof d = intoFloat prof Spec.FloatFmt.f64 d :=
  Kernels.f64_from_eq prof d
theorem kernel_f32_from (prof : Profile) (d : Dec) : Gen.K.f32_from prof d = intoFloat prof Spec.FloatFmt.f32 d :=
  Kernels.f32_from_eq prof d

end Fpdec.Props.C12
