import Fpdec.Kernels.Misc
import Fpdec.Kernels.IntoFloat
import Fpdec.Lemmas.IntoFloat
import Fpdec.Lemmas.IntoFloatNearest
import Fpdec.Lemmas.Cmp
import Fpdec.Lemmas.Unary
import Fpdec.Props.C12_Sites

/-!
# C12 — Decimal to f64/f32 conversion is correctly rounded

* `into_float_spec`: for every Decimal of the domain, both formats and every profile the model of `f64::from(d)` / `f32::from(d)`
  returns the bit pattern `Spec.intoFloat` = sign bit + `Spec.rneBits |a| 10^p` (exponent from the definition
  `2^e ≤ v < 2^(e+1)`, significand by half-even rounding of the exact quotient, carry into the exponent); zero maps to `+0.0`.
* `rne_is_nearest`: that pattern decodes to a float that is nearest to the exact decimal value among ALL bit patterns of the
  format, with an even significand on ties — the spec itself is justified, not only matched.
Assumed (Rust reference, exercised by the correspondence run): `i128 as f64` / `as f32` rounds to nearest-even — the integer-valued
branch (`n_frac_digits == 0` or zero coefficient) is modelled by the spec function itself.
-/

namespace Fpdec.Props.C12
open Fpdec Fpdec.Model

theorem from_decimal_spec (prof : Profile) (f : Spec.FloatFmt) (hf : f = Spec.FloatFmt.f64 ∨ f = Spec.FloatFmt.f32)
    (d : Dec) (hd : Dom d) (hp : 0 < d.nfrac) (ha : d.coeff ≠ 0) :
    fromDecimal prof f d = .ok (Spec.intoFloat f d.coeff d.nfrac) :=
  fromDecimal_spec prof f hf d hd hp ha

theorem into_float_spec (prof : Profile) (f : Spec.FloatFmt) (hf : f = Spec.FloatFmt.f64 ∨ f = Spec.FloatFmt.f32)
    (d : Dec) (hd : Dom d) :
    intoFloat prof f d = .ok (Spec.intoFloat f d.coeff d.nfrac) :=
  intoFloat_spec prof f hf d hd

/-- the spec pattern is a finite normal float, nearest to the decimal value among all bit patterns `b` of the format
    (distances compared by cross-multiplication), and has an even last bit whenever another value is equally near -/
theorem rne_is_nearest (f : Spec.FloatFmt) (hf : f = Spec.FloatFmt.f64 ∨ f = Spec.FloatFmt.f32)
    (a : Int) (p : Nat) (ha : a ≠ 0) (ha0 : I128_MIN < a) (ha1 : a ≤ I128_MAX) (hp : p ≤ 18) :
    2 ^ f.fracBits ≤ Spec.rneBits f a.natAbs (10 ^ p) ∧
    Spec.rneBits f a.natAbs (10 ^ p) < (2 ^ f.expBits - 1) * 2 ^ f.fracBits ∧
    ∀ b : Nat,
      let r := Spec.decodeBits f (Spec.rneBits f a.natAbs (10 ^ p))
      let y := Spec.decodeBits f b
      ((a.natAbs * r.2 : Nat) - (r.1 * 10 ^ p : Nat) : Int).natAbs * y.2
          ≤ ((a.natAbs * y.2 : Nat) - (y.1 * 10 ^ p : Nat) : Int).natAbs * r.2 ∧
      (((a.natAbs * r.2 : Nat) - (r.1 * 10 ^ p : Nat) : Int).natAbs * y.2
          = ((a.natAbs * y.2 : Nat) - (y.1 * 10 ^ p : Nat) : Int).natAbs * r.2 →
        y.1 * r.2 ≠ r.1 * y.2 → Spec.rneBits f a.natAbs (10 ^ p) % 2 = 0) :=
  rneBits_nearest_dom f hf a p ha ha0 ha1 hp

/-! ### non-vacuity -/
example : intoFloat Profile.dev .f64 ⟨1, 1⟩ = .ok 4591870180066957722 := by decide   -- 0.1
example : intoFloat Profile.release .f32 ⟨99999999, 8⟩ = .ok 1065353216 := by decide   -- 0.99999999 → 1.0f32 (carry)

/-! ### translated kernels
The Lean definitions `Gen.K.*` are regenerated from the Rust source on every run by `tools/fpkernels.py` (expression-level
translation).  These theorems tie them to the hand-written model the property theorems above are about: a change of the Rust
kernel that changes its translation breaks them. -/
/-- `Float::from_decimal` (src/into_float.rs) instantiated for `f64` (`FRACTION_BITS = 52`, `EXP_BIAS = 1023`, `BITS = 64`) and `f32`
    (23, 127, 32, `from_bits(bits as u32)`), as translated on this run -/
theorem kernel_f64_from_decimal (prof : Profile) (d : Dec) :
    Gen.K.f64_from_decimal prof d = fromDecimal prof Spec.FloatFmt.f64 d := Kernels.f64_from_decimal_eq prof d
theorem kernel_f32_from_decimal (prof : Profile) (d : Dec) :
    Gen.K.f32_from_decimal prof d = fromDecimal prof Spec.FloatFmt.f32 d := Kernels.f32_from_decimal_eq prof d
theorem kernel_n_signif_bits (prof : Profile) (v : Nat) : Gen.K.n_signif_bits prof v = .ok (nSignifBits v) :=
  Kernels.n_signif_bits_eq prof v

/-- `impl From<Decimal> for f64 / f32`: the integral shortcut (`i128 as fN`, assumed RNE) or `Float::from_decimal` -/
theorem kernel_f64_from (prof : Profile) (d : Dec) : Gen.K.f64_from prof d = intoFloat prof Spec.FloatFmt.f64 d :=
  Kernels.f64_from_eq prof d
theorem kernel_f32_from (prof : Profile) (d : Dec) : Gen.K.f32_from prof d = intoFloat prof Spec.FloatFmt.f32 d :=
  Kernels.f32_from_eq prof d

/-! ### algebraic laws
Representation independence and sign symmetry of the conversion, as corollaries of `into_float_spec`: the spec pattern depends only
on the quotient `|a| / 10^p` (a common factor cancels in the exponent and in the half-even rounding) and on the sign. -/

theorem log2_key (n d a b a' b' : Nat) (h1 : d * 2 ^ a ≤ n * 2 ^ b) (h2 : n * 2 ^ b' < d * 2 ^ (a' + 1)) :
    a + b' < a' + 1 + b := by
  apply Classical.byContradiction
  intro hc
  have hc : a' + 1 + b ≤ a + b' := by omega
  have e1 : d * 2 ^ (a' + 1) * 2 ^ b ≤ d * 2 ^ a * 2 ^ b' := by
    rw [Nat.mul_assoc, Nat.mul_assoc, ← Nat.pow_add, ← Nat.pow_add]
    exact Nat.mul_le_mul_left _ (Nat.pow_le_pow_right (by decide) hc)
  have e2 : d * 2 ^ a * 2 ^ b' ≤ n * 2 ^ b * 2 ^ b' := Nat.mul_le_mul_right _ h1
  have e3 : n * 2 ^ b' * 2 ^ b < d * 2 ^ (a' + 1) * 2 ^ b := Nat.mul_lt_mul_of_pos_right h2 (Nat.two_pow_pos b)
  have e4 : n * 2 ^ b * 2 ^ b' = n * 2 ^ b' * 2 ^ b := by ring
  omega

/-- the exponent of the spec depends only on the quotient -/
theorem floorLog2Ratio_scale (n d k : Nat) (hn : n ≠ 0) (hd : d ≠ 0) (hk : k ≠ 0) :
    Spec.floorLog2Ratio (n * k) (d * k) = Spec.floorLog2Ratio n d := by
  have hkp : 0 < k := Nat.pos_of_ne_zero hk
  generalize h1 : Spec.floorLog2Ratio (n * k) (d * k) = e1
  generalize h2 : Spec.floorLog2Ratio n d = e2
  have s1 := FloatArith.floorLog2Ratio_spec (n * k) (d * k) e1.toNat (-e1).toNat (Nat.mul_ne_zero hn hk) (Nat.mul_ne_zero hd hk)
    (by rw [h1]; omega)
  have s2 := FloatArith.floorLog2Ratio_spec n d e2.toNat (-e2).toNat hn hd (by rw [h2]; omega)
  have s1a : d * 2 ^ e1.toNat ≤ n * 2 ^ (-e1).toNat := by
    apply Nat.le_of_mul_le_mul_right _ hkp
    calc d * 2 ^ e1.toNat * k = d * k * 2 ^ e1.toNat := by ring
      _ ≤ n * k * 2 ^ (-e1).toNat := s1.1
      _ = n * 2 ^ (-e1).toNat * k := by ring
  have s1b : n * 2 ^ (-e1).toNat < d * 2 ^ (e1.toNat + 1) := by
    apply Nat.lt_of_mul_lt_mul_right (a := k)
    calc n * 2 ^ (-e1).toNat * k = n * k * 2 ^ (-e1).toNat := by ring
      _ < d * k * 2 ^ (e1.toNat + 1) := s1.2
      _ = d * 2 ^ (e1.toNat + 1) * k := by ring
  have k1 := log2_key n d _ _ _ _ s1a s2.2
  have k2 := log2_key n d _ _ _ _ s2.1 s1b
  omega

/-- the spec pattern depends only on the quotient: a common factor cancels -/
theorem rneBits_scale (f : Spec.FloatFmt) (n d k : Nat) (hn : n ≠ 0) (hd : d ≠ 0) (hk : k ≠ 0) :
    Spec.rneBits f (n * k) (d * k) = Spec.rneBits f n d := by
  have hkp : 0 < k := Nat.pos_of_ne_zero hk
  unfold Spec.rneBits
  simp only [floorLog2Ratio_scale n d k hn hd hk]
  have e1 : ∀ s, Spec.rhe (n * k) (d * k * 2 ^ s) = Spec.rhe n (d * 2 ^ s) := by
    intro s
    rw [show d * k * 2 ^ s = d * 2 ^ s * k by ring]
    exact FloatArith.rhe_mul_right _ _ _ hkp
  have e2 : ∀ s, Spec.rhe (n * k * 2 ^ s) (d * k) = Spec.rhe (n * 2 ^ s) d := by
    intro s
    rw [show n * k * 2 ^ s = n * 2 ^ s * k by ring]
    exact FloatArith.rhe_mul_right _ _ _ hkp
  simp only [e1, e2]

/-- … hence two fractions that are equal by cross-multiplication have the same pattern -/
theorem rneBits_congr (f : Spec.FloatFmt) (n d n' d' : Nat) (hn : n ≠ 0) (hd : d ≠ 0) (hn' : n' ≠ 0) (hd' : d' ≠ 0)
    (h : n * d' = n' * d) : Spec.rneBits f n d = Spec.rneBits f n' d' := by
  rw [← rneBits_scale f n d d' hn hd hd', ← rneBits_scale f n' d' d hn' hd' hd, h, Nat.mul_comm d d']

theorem cross_sign (a b P Q : Int) (hP : 0 < P) (hQ : 0 < Q) (h : a * Q = b * P) : (a < 0 → b < 0) ∧ (a = 0 → b = 0) := by
  constructor
  · intro ha
    apply Classical.byContradiction
    intro hb
    have h1 : a * Q < 0 := Int.mul_neg_of_neg_of_pos ha hQ
    have h2 : 0 ≤ b * P := Int.mul_nonneg (by omega) (Int.le_of_lt hP)
    omega
  · intro ha
    subst ha
    rw [Int.zero_mul] at h
    rcases Int.mul_eq_zero.1 h.symm with h | h
    · exact h
    · omega

/-- the specification of the conversion depends only on the value `a / 10^p`, not on the representation -/
theorem spec_into_float_of_equal_values (f : Spec.FloatFmt) (a : Int) (p : Nat) (b : Int) (q : Nat)
    (h : Spec.cmp a p b q = .eq) : Spec.intoFloat f a p = Spec.intoFloat f b q := by
  rw [spec_cmp_eq_iff] at h
  have hP : (0 : Int) < (10 : Int) ^ p := tenPow_pos p
  have hQ : (0 : Int) < (10 : Int) ^ q := tenPow_pos q
  obtain ⟨s1, z1⟩ := cross_sign a b _ _ hP hQ h
  obtain ⟨s2, z2⟩ := cross_sign b a _ _ hQ hP h.symm
  have hn : a.natAbs * 10 ^ q = b.natAbs * 10 ^ p := by
    have := congrArg Int.natAbs h
    simpa [Int.natAbs_mul, Int.natAbs_pow] using this
  unfold Spec.intoFloat
  by_cases ha : a = 0
  · rw [if_pos ha, if_pos (z1 ha)]
  · have hb : b ≠ 0 := fun e => ha (z2 e)
    rw [if_neg ha, if_neg hb]
    have hs : (a < 0) ↔ (b < 0) := ⟨s1, s2⟩
    rw [rneBits_congr f a.natAbs (10 ^ p) b.natAbs (10 ^ q) (by omega) (Nat.ne_of_gt (Nat.pow_pos (by decide)))
      (by omega) (Nat.ne_of_gt (Nat.pow_pos (by decide))) hn]
    simp only [hs]

/-- representation independence: two Decimals of the domain with the same value (e.g. `(a, p)` and `(a·10^k, p+k)`) convert to the
    same float, bit for bit, in both formats and every profile -/
theorem into_float_of_equal_values (prof : Profile) (f : Spec.FloatFmt) (hf : f = Spec.FloatFmt.f64 ∨ f = Spec.FloatFmt.f32)
    (x y : Dec) (hx : Dom x) (hy : Dom y) (h : Spec.cmp x.coeff x.nfrac y.coeff y.nfrac = .eq) :
    intoFloat prof f x = intoFloat prof f y := by
  rw [into_float_spec prof f hf x hx, into_float_spec prof f hf y hy, spec_into_float_of_equal_values f _ _ _ _ h]

example : intoFloat Profile.dev .f64 ⟨1, 1⟩ = intoFloat Profile.dev .f64 ⟨1000, 4⟩ ∧
    intoFloat Profile.dev .f32 ⟨-25, 1⟩ = intoFloat Profile.dev .f32 ⟨-2500, 3⟩ ∧
    intoFloat Profile.release .f64 ⟨7, 0⟩ = intoFloat Profile.release .f64 ⟨7000000000000000000, 18⟩ := by decide

/-! sign symmetry -/

theorem testBit_false_of_lt {r k : Nat} (h : r < 2 ^ k) : r.testBit k = false := Nat.testBit_lt_two_pow h

theorem or_xor_two_pow (r k : Nat) (h : r < 2 ^ k) : (r ||| 2 ^ k) = r ^^^ 2 ^ k := by
  apply Nat.eq_of_testBit_eq
  intro i
  have hr := testBit_false_of_lt h
  simp only [Nat.testBit_or, Nat.testBit_xor, Nat.testBit_two_pow]
  by_cases hi : k = i
  · subst hi; simp [hr]
  · simp [hi]

theorem xor_xor_two_pow (r k : Nat) : (r ^^^ 2 ^ k) ^^^ 2 ^ k = r := by
  rw [Nat.xor_assoc, Nat.xor_self, Nat.xor_zero]

/-- the magnitude pattern of a domain value does not reach the sign bit -/
theorem rneBits_lt_sign (f : Spec.FloatFmt) (hf : f = Spec.FloatFmt.f64 ∨ f = Spec.FloatFmt.f32)
    (a : Int) (p : Nat) (ha : a ≠ 0) (ha0 : I128_MIN < a) (ha1 : a ≤ I128_MAX) (hp : p ≤ 18) :
    Spec.rneBits f a.natAbs (10 ^ p) < 2 ^ (f.bits - 1) := by
  have h := (rne_is_nearest f hf a p ha ha0 ha1 hp).2.1
  refine Nat.lt_of_lt_of_le h ?_
  rcases hf with rfl | rfl <;> decide

/-- sign symmetry of the specification: for a non-zero coefficient of the domain, negating flips exactly the sign bit -/
theorem spec_into_float_neg (f : Spec.FloatFmt) (hf : f = Spec.FloatFmt.f64 ∨ f = Spec.FloatFmt.f32)
    (a : Int) (p : Nat) (ha : a ≠ 0) (ha0 : I128_MIN < a) (ha1 : a ≤ I128_MAX) (hp : p ≤ 18) :
    Spec.intoFloat f (-a) p = Spec.intoFloat f a p ^^^ 2 ^ (f.bits - 1) := by
  have hlt := rneBits_lt_sign f hf a p ha ha0 ha1 hp
  unfold Spec.intoFloat
  have hna : -a ≠ 0 := by omega
  rw [if_neg ha, if_neg hna, Int.natAbs_neg]
  generalize Spec.rneBits f a.natAbs (10 ^ p) = r at hlt
  by_cases hs : a < 0
  · have hs' : ¬ (-a < 0) := by omega
    rw [if_pos hs, if_neg hs']
    simp only [Nat.zero_shiftLeft, Nat.or_zero, Nat.one_shiftLeft]
    rw [or_xor_two_pow r _ hlt, xor_xor_two_pow]
  · have hs' : -a < 0 := by omega
    rw [if_neg hs, if_pos hs']
    simp only [Nat.zero_shiftLeft, Nat.or_zero, Nat.one_shiftLeft]
    exact or_xor_two_pow r _ hlt

theorem dom_neg {x : Dec} (hx : Dom x) : Dom ⟨-x.coeff, x.nfrac⟩ := by
  unfold Dom I128_MIN I128_MAX at *
  simp only
  omega

/-- sign symmetry: the bit pattern of `-d` is that of `d` with the sign bit (bit 63 / bit 31) flipped, for every Decimal of the
    domain with a non-zero coefficient, both formats, every profile -/
theorem into_float_neg (prof : Profile) (f : Spec.FloatFmt) (hf : f = Spec.FloatFmt.f64 ∨ f = Spec.FloatFmt.f32)
    (d : Dec) (hd : Dom d) (ha : d.coeff ≠ 0) :
    intoFloat prof f ⟨-d.coeff, d.nfrac⟩ = (fun b => b ^^^ 2 ^ (f.bits - 1)) <$> intoFloat prof f d := by
  rw [into_float_spec prof f hf d hd, into_float_spec prof f hf _ (dom_neg hd)]
  show Outcome.ok _ = Outcome.ok _
  rw [spec_into_float_neg f hf d.coeff d.nfrac ha hd.1 hd.2.1 hd.2.2]

/-- … and zero maps to `+0.0` whatever its representation: there is no negative zero among the results -/
theorem into_float_zero (prof : Profile) (f : Spec.FloatFmt) (p : Nat) : intoFloat prof f ⟨0, p⟩ = .ok 0 := by
  unfold intoFloat i128AsFloat
  simp

example : intoFloat Profile.dev .f64 ⟨-1, 1⟩ = .ok (4591870180066957722 ^^^ 2 ^ 63) ∧
    intoFloat Profile.dev .f64 ⟨1, 1⟩ = .ok 4591870180066957722 ∧
    intoFloat Profile.dev .f32 ⟨-99999999, 8⟩ = .ok (1065353216 + 2 ^ 31) ∧ intoFloat Profile.dev .f32 ⟨-0, 8⟩ = .ok 0 := by decide

/-- the same with the model's negation: `f64::from(-d)` is `f64::from(d)` with the sign bit flipped -/
theorem into_float_of_neg (prof : Profile) (f : Spec.FloatFmt) (hf : f = Spec.FloatFmt.f64 ∨ f = Spec.FloatFmt.f32)
    (d : Dec) (hd : Dom d) (ha : d.coeff ≠ 0) :
    (neg prof d >>= intoFloat prof f) = (fun b => b ^^^ 2 ^ (f.bits - 1)) <$> intoFloat prof f d := by
  rw [neg_spec prof d hd, Outcome.bind_ok]
  exact into_float_neg prof f hf d hd ha

end Fpdec.Props.C12
