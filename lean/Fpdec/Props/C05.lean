import Fpdec.Lemmas.Dom
import Fpdec.Props.C05_Sites

/-! # C05 — property theorems (under construction: see DESIGN.md section 6) -/

namespace Fpdec.Props.C05
open Fpdec Fpdec.Model

end Fpdec.Props.C05
