import Fpdec.Kernels.Consts
import Fpdec.Kernels.DecRound
import Fpdec.Kernels.WideFits
import Fpdec.Kernels.Round
import Fpdec.Lemmas.Rounding
import Fpdec.Lemmas.IntTy
import Fpdec.Props.C05_Sites

/-!
# C05 — round / checked_round implement all eight rounding modes exactly

* `kernel_spec`: the integer rounding kernel `i128_div_rounded(n, d, mode)` is `Spec.specRoundQ` for every
  mode, every in-range `n`, every non-zero in-range `d`, every build profile (re-export of
  `i128DivRounded_spec`; the core is `roundQuot_spec`).
* `spec_table`: `Spec.specRound` itself agrees with the documented behaviour of Python's `decimal` module on
  the complete class grid (sign × last digit 0–9 × remainder below/at/above half/zero × 8 modes).
* `round_spec`, `checked_round_spec`: `d.round(n)` / `d.checked_round(n)` for every `d` in the domain and every
  `n : i8` return `d` unchanged for `n ≥ p`, else the multiple of `10^-n` selected by the mode, panic / `None`
  exactly when that value does not fit; `checked_round` never panics.
-/

namespace Fpdec.Props.C05
open Fpdec Fpdec.Model

/-- the integer rounding kernel, all modes / operands / profiles -/
theorem kernel_spec (prof : Profile) (tm : Mode) (mode : Option Mode) (n d : Int)
    (hn : I128_MIN < n ∧ n ≤ I128_MAX) (hd : I128_MIN ≤ d ∧ d ≤ I128_MAX) (hd0 : d ≠ 0) :
    i128DivRounded prof tm n d mode = .ok (Spec.specRoundQ (mode.getD tm) n d) :=
  i128DivRounded_spec prof tm mode n d hn hd hd0

/-- the same for EVERY i128 dividend: all pairs except `(i128::MIN, -1)`, whose exact quotient `2^127` is not an i128 … -/
theorem kernel_spec_full (prof : Profile) (tm : Mode) (mode : Option Mode) (n d : Int)
    (hn : I128_MIN ≤ n ∧ n ≤ I128_MAX) (hd : I128_MIN ≤ d ∧ d ≤ I128_MAX) (hd0 : d ≠ 0) (hc : ¬ (n = I128_MIN ∧ d = -1)) :
    i128DivRounded prof tm n d mode = .ok (Spec.specRoundQ (mode.getD tm) n d) :=
  i128DivRounded_spec_full prof tm mode n d hn hd hd0 hc

/-- … and on that pair the plain `/` of `i128_div_mod_floor` panics, in every profile (Rust's `i128::MIN / -1`) -/
theorem kernel_min_neg_one (prof : Profile) (tm : Mode) (mode : Option Mode) :
    i128DivRounded prof tm I128_MIN (-1) mode = .panic .arith :=
  i128DivRounded_min_neg_one prof tm mode

/-- Python `decimal` reference outcomes for `(30+digit)·d + rem` over `d`, per mode: the increment (0/1)
    applied to the floor quotient; classes: rem = 0, below half, half, above half -/
def pyIncrement (m : Mode) (neg : Bool) (q : Int) (cls : Nat) : Int :=
  -- q is the floor quotient; for negative values "towards zero" is q+1
  if cls = 0 then 0 else
  match m with
  | .ceil => 1
  | .floor => 0
  | .down => if neg then 1 else 0
  | .up => if neg then 0 else 1
  | .r05up => let tz := if neg then q + 1 else q
              if tz % 5 = 0 then (if neg then 0 else 1) else (if neg then 1 else 0)
  | .hup => if cls = 3 then 1 else if cls = 1 then 0 else (if neg then 0 else 1)
  | .hdown => if cls = 3 then 1 else if cls = 1 then 0 else (if neg then 1 else 0)
  | .heven => if cls = 3 then 1 else if cls = 1 then 0 else (if q % 2 = 0 then 0 else 1)

/-- the class grid: divisor 10, remainders 0 / 3 / 5 / 7, every last digit, both signs, all modes -/
theorem spec_table :
    (Mode.all.all fun m => (List.range 20).all fun dg => [0, 3, 5, 7].all fun (r : Nat) =>
      let q : Int := (dg : Int) - 10          -- floor quotients -10 … 9: every last digit, both signs
      let n : Int := q * 10 + r
      let cls := if r = 0 then 0 else if r = 3 then 1 else if r = 5 then 2 else 3
      Spec.specRound m n 10 == q + pyIncrement m (decide (n < 0)) q cls) = true := by
  decide

private theorem ediv_small_pos {n d : Int} (h0 : 0 ≤ n) (h1 : n < d) : n / d = 0 ∧ n % d = n :=
  ⟨Int.ediv_eq_zero_of_lt h0 h1, Int.emod_eq_of_lt h0 h1⟩

private theorem ediv_small_neg {n d : Int} (h0 : n < 0) (h1 : -d < n) : n / d = -1 ∧ n % d = n + d := by
  have hd : 0 < d := by omega
  have h := Int.ediv_emod_unique (a := n) (b := d) (r := n + d) (q := -1) hd
  have := h.mpr ⟨by omega, by omega, by omega⟩
  exact this

/-- a value of magnitude below one half rounds to -1, 0 or 1 depending on sign and mode only -/
theorem specRound_small (m : Mode) (n d : Int) (hd : 0 < d) (h : 2 * n.natAbs < d) :
    Spec.specRound m n d = Spec.specRound m (Int.sign n) 3 := by
  rcases Int.lt_trichotomy n 0 with hn | hn | hn
  · have hs : Int.sign n = -1 := Int.sign_eq_neg_one_of_neg hn
    obtain ⟨e1, e2⟩ := ediv_small_neg (n := n) (d := d) hn (by omega)
    have e3 : (-1 : Int) / 3 = -1 := by decide
    have e4 : (-1 : Int) % 3 = 2 := by decide
    rw [hs]
    unfold Spec.specRound
    simp only [e1, e2, e3, e4]
    cases m <;> simp <;> omega
  · subst hn
    unfold Spec.specRound; simp
  · have hs : Int.sign n = 1 := Int.sign_eq_one_of_pos hn
    obtain ⟨e1, e2⟩ := ediv_small_pos (n := n) (d := d) (by omega) (by omega)
    have e3 : (1 : Int) / 3 = 0 := by decide
    have e4 : (1 : Int) % 3 = 1 := by decide
    rw [hs]
    unfold Spec.specRound
    simp only [e1, e2, e3, e4]
    cases m <;> simp <;> omega

theorem round_shift_const : Gen.ROUND_MAX_SHIFT = 38 ∧ Gen.ROUND_SIGNUM_DIVISOR = 3 := by decide

theorem pow10_gt_max {k : Nat} (h : 39 ≤ k) : 2 * I128_MAX < (10 : Int) ^ k := by
  have h39 : 2 * I128_MAX < (10 : Int) ^ 39 := by decide
  have : (10 : Int) ^ 39 ≤ (10 : Int) ^ k := pow10_mono h
  omega

theorem pow10_le_max {k : Nat} (h : k ≤ 38) : (10 : Int) ^ k ≤ I128_MAX := by
  have h38 : (10 : Int) ^ 38 ≤ I128_MAX := by decide
  have : (10 : Int) ^ k ≤ (10 : Int) ^ 38 := pow10_mono h
  omega

/-- `round` and `checked_round` share `roundCore`; its result is the spec's -/
theorem round_core_spec (prof : Profile) (tm : Mode) (d : Dec) (n : Int) (hd : Dom d)
    (hn : -128 ≤ n ∧ n ≤ 127) :
    Spec.allowedChecked (Spec.round tm d.coeff d.nfrac n) (outOptPair (roundCore prof tm d n)) = true := by
  obtain ⟨a, p⟩ := d
  obtain ⟨ha0, ha1, hp⟩ := hd
  simp only at ha0 ha1 hp
  obtain ⟨c38, c3⟩ := round_shift_const
  unfold roundCore Spec.round
  simp only [c38, c3]
  rw [i8_cast_id (x := (p : Int)) (by omega) (by omega)]
  by_cases h1 : n ≥ (p : Int)
  · simp [h1, Spec.allowedChecked]
  · simp only [h1, if_false]
    rw [i8_plain_ok prof (x := (p : Int) - (38 : Nat)) (by omega) (by omega)]
    simp only [Outcome.bind_ok]
    by_cases h2 : n < (p : Int) - (38 : Nat)
    · -- far shift: the value is below one half in magnitude
      simp only [h2, if_true]
      have hsg : I128_MIN < Int.sign a ∧ Int.sign a ≤ I128_MAX := by
        unfold I128_MIN I128_MAX
        rcases Int.lt_trichotomy a 0 with h | h | h
        · rw [Int.sign_eq_neg_one_of_neg h]; omega
        · subst h; simp
        · rw [Int.sign_eq_one_of_pos h]; omega
      rw [i128DivRounded_spec prof tm none (Int.sign a) ((3 : Nat) : Int) hsg (by unfold I128_MIN I128_MAX; omega) (by omega)]
      simp only [Outcome.bind_ok, Option.getD_none]
      have hsh : 39 ≤ ((p : Int) - n).toNat := by omega
      have hbig : 2 * a.natAbs < (10 : Int) ^ ((p : Int) - n).toNat := by
        have := pow10_gt_max hsh
        unfold I128_MIN I128_MAX at *
        omega
      have h3 : ¬ ((3 : Nat) : Int) < 0 := by omega
      have hq : Spec.specRoundQ tm a.sign ((3 : Nat) : Int) = Spec.specRound tm a ((10 : Int) ^ ((p : Int) - n).toNat) := by
        unfold Spec.specRoundQ
        simp only [h3, if_false]
        exact (specRound_small tm a _ (pow10_pos _) hbig).symm
      have hkr : Spec.specRoundQ tm a.sign ((3 : Nat) : Int) = -1 ∨ Spec.specRoundQ tm a.sign ((3 : Nat) : Int) = 0 ∨
          Spec.specRoundQ tm a.sign ((3 : Nat) : Int) = 1 := by
        unfold Spec.specRoundQ
        simp only [h3, if_false]
        rcases Int.lt_trichotomy a 0 with h | h | h
        · rw [Int.sign_eq_neg_one_of_neg h]; cases tm <;> decide
        · subst h; cases tm <;> decide
        · rw [Int.sign_eq_one_of_pos h]; cases tm <;> decide
      rw [← hq]
      generalize Spec.specRoundQ tm a.sign ((3 : Nat) : Int) = k at hkr
      have hn0 : ¬ n ≥ 0 := by omega
      simp only [hn0, if_false]
      by_cases hk0 : k = 0
      · simp [hk0, Spec.allowedChecked, Dec.ZERO]
      · simp only [hk0, if_false]
        have hnn : (-n).toNat = n.natAbs := by omega
        rw [hnn]
        by_cases hbig2 : n.natAbs ≤ 38
        · rw [checkedMulPowTen_eq k n.natAbs hbig2]
          have hle := pow10_le_max hbig2
          have hpos := pow10_pos n.natAbs
          have hf : fitsI128 (k * (10 : Int) ^ n.natAbs) = true := by
            rw [fitsI128_iff]; unfold I128_MIN I128_MAX at *
            rcases hkr with h | h | h <;> subst h <;> omega
          rw [checkedI128_some hf]
          exact valFit_some _ _ hf
        · have hgt := pow10_gt_max (k := n.natAbs) (by omega)
          unfold checkedMulPowTen
          rw [checkedTenPow_none n.natAbs (by omega)]
          have hnf : fitsI128 (k * (10 : Int) ^ n.natAbs) = false := by
            cases hh : fitsI128 (k * (10 : Int) ^ n.natAbs)
            · rfl
            · rw [fitsI128_iff] at hh; unfold I128_MIN I128_MAX at *
              rcases hkr with h | h | h <;> subst h <;> omega
          exact valFit_none _ _ hnf
    · -- regular shift 1 ..= 38
      simp only [h2, if_false]
      rw [i8_plain_ok prof (x := (p : Int) - n) (by omega) (by omega)]
      simp only [Outcome.bind_ok]
      rw [u8_cast_id (x := (p : Int) - n) (by omega) (by omega)]
      have hsh : ((p : Int) - n).toNat ≤ 38 := by omega
      rw [tenPow_ok _ hsh]
      simp only [Outcome.bind_ok]
      have hpw := pow10_pos ((p : Int) - n).toNat
      have hpl := pow10_le_max hsh
      rw [i128DivRounded_spec prof tm none a ((10 : Int) ^ ((p : Int) - n).toNat) ⟨ha0, ha1⟩
        ⟨by unfold I128_MIN; omega, hpl⟩ (by omega)]
      simp only [Outcome.bind_ok, Option.getD_none]
      have hq : Spec.specRoundQ tm a ((10 : Int) ^ ((p : Int) - n).toNat) =
          Spec.specRound tm a ((10 : Int) ^ ((p : Int) - n).toNat) := by
        unfold Spec.specRoundQ
        have : ¬ (10 : Int) ^ ((p : Int) - n).toNat < 0 := by omega
        simp only [this, if_false]
      rw [hq]
      have hkf := specRound_fits tm a ((10 : Int) ^ ((p : Int) - n).toNat) ⟨Int.le_of_lt ha0, ha1⟩ hpw
      generalize Spec.specRound tm a ((10 : Int) ^ ((p : Int) - n).toNat) = k at hkf
      by_cases hn0 : n ≥ 0
      · simp only [hn0, if_true]
        rw [u8_cast_id (x := n) (by omega) (by omega)]
        exact valFit_some _ _ hkf
      · simp only [hn0, if_false]
        rw [i8_plain_ok prof (x := -n) (by omega) (by omega)]
        simp only [Outcome.bind_ok]
        rw [u8_cast_id (x := -n) (by omega) (by omega)]
        rw [tenPow_ok _ (by omega)]
        simp only [Outcome.bind_ok]
        by_cases hk0 : k = 0
        · subst hk0
          simp [checkedI128_some hkf, Spec.allowedChecked]
        · simp only [hk0, if_false]
          cases hh : fitsI128 (k * (10 : Int) ^ (-n).toNat)
          · rw [checkedI128_none hh]; exact valFit_none _ _ hh
          · rw [checkedI128_some hh]; exact valFit_some _ _ hh

/-- `d.checked_round(n)` never panics and returns the spec's value or `None` -/
theorem checked_round_spec (prof : Profile) (tm : Mode) (d : Dec) (n : Int) (hd : Dom d) (hn : -128 ≤ n ∧ n ≤ 127) :
    Spec.allowedChecked (Spec.round tm d.coeff d.nfrac n) (outOptPair (checkedRound prof tm d n)) = true :=
  round_core_spec prof tm d n hd hn

theorem round_exp_shape (tm : Mode) (a : Int) (p : Nat) (n : Int) :
    Spec.round tm a p n ≠ .divzero ∧ Spec.round tm a p n ≠ .none ∧ Spec.round tm a p n ≠ .nfrac := by
  unfold Spec.round
  split
  · simp
  · simp only []
    split
    · exact valFit_shape _ _
    · split
      · simp
      · exact valFit_shape _ _

/-- `d.round(n)`: the same value, a panic with the overflow message instead of `None` -/
theorem round_spec (prof : Profile) (tm : Mode) (d : Dec) (n : Int) (hd : Dom d) (hn : -128 ≤ n ∧ n ≤ 127) :
    Spec.allowedOp (Spec.round tm d.coeff d.nfrac n) (outPair (round prof tm d n)) = true := by
  have h := round_core_spec prof tm d n hd hn
  obtain ⟨s1, s2, s3⟩ := round_exp_shape tm d.coeff d.nfrac n
  have := allowedOp_of_checked _ _ h s1 s2 s3
  have e : round prof tm d n = panicOnNone (roundCore prof tm d n) := by
    unfold round
    cases roundCore prof tm d n with
    | panic k => rfl
    | ok o => cases o <;> rfl
  rw [e]
  exact this

/-! ### non-vacuity -/
example : round Profile.dev .heven ⟨25, 1⟩ 0 = .ok ⟨2, 0⟩ ∧ round Profile.dev .hup ⟨25, 1⟩ 0 = .ok ⟨3, 0⟩ := by decide
example : round Profile.release .up ⟨1, 0⟩ (-39) = .panic .overflow ∧ checkedRound Profile.dev .up ⟨1, 0⟩ (-39) = .ok none := by
  decide
example : round Profile.dev .floor ⟨-29999, 3⟩ (-37) = .ok ⟨-(10 : Int) ^ 37, 0⟩ := by decide

/-! ### translated kernels
The Lean definitions `Gen.K.*` are regenerated from the Rust source on every run by `tools/fpkernels.py` (expression-level
translation).  These theorems tie them to the hand-written model the property theorems above are about: a change of the Rust
kernel that changes its translation breaks them. -/
theorem kernel_i128_div_mod_floor (prof : Profile) (x y : Int) :
    Gen.K.i128_div_mod_floor prof x y = i128DivModFloor prof x y := Kernels.i128_div_mod_floor_eq prof x y
theorem kernel_round_quot (prof : Profile) (tm : Mode) (quot : Int) (rem divisor : Nat) (mode : Option Mode)
    (hq : fitsI128 quot = true) :
    Gen.K.round_quot prof tm quot rem divisor mode = .ok (roundQuot tm quot rem divisor mode) :=
  Kernels.round_quot_eq prof tm quot rem divisor mode hq

theorem kernel_ten_pow (prof : Profile) (n : Nat) : Gen.K.ten_pow prof n = tenPow n := Kernels.ten_pow_eq prof n
theorem kernel_mul_pow_ten (prof : Profile) (val : Int) (n : Nat) : Gen.K.mul_pow_ten prof val n = mulPowTen val n :=
  Kernels.mul_pow_ten_eq prof val n
theorem kernel_checked_mul_pow_ten (prof : Profile) (val : Int) (n : Nat) :
    Gen.K.checked_mul_pow_ten prof val n = .ok (checkedMulPowTen val n) := Kernels.checked_mul_pow_ten_eq prof val n
theorem kernel_i128_div_rounded (prof : Profile) (tm : Mode) (a b : Int) (mode : Option Mode) (ha : fitsI128 a = true) :
    Gen.K.i128_div_rounded prof tm a b mode = i128DivRounded prof tm a b mode :=
  Kernels.i128_div_rounded_eq prof tm a b mode ha

/-- `impl Round for Decimal` (src/round.rs), both methods, as translated from the source on this run -/
theorem kernel_decimal_round (prof : Profile) (tm : Mode) (d : Dec) (n : Int) (hd : fitsI128 d.coeff = true) :
    Gen.K.decimal_round prof tm d n = round prof tm d n := Kernels.decimal_round_eq prof tm d n hd
theorem kernel_decimal_checked_round (prof : Profile) (tm : Mode) (d : Dec) (n : Int) (hd : fitsI128 d.coeff = true) :
    Gen.K.decimal_checked_round prof tm d n = checkedRound prof tm d n := Kernels.decimal_checked_round_eq prof tm d n hd

/-- the associated constants of `Decimal` as extracted from src/lib.rs on this run are the model's (`ZERO`/`ONE` are what the
    translated kernels return for `Self::ZERO` / `Self::ONE`; `MIN ..= MAX` with at most `DELTA`'s digits is the domain `Dom`) -/
theorem decimal_consts :
    Gen.DECIMAL_CONSTS =
      [("ZERO", Dec.ZERO.coeff, Dec.ZERO.nfrac), ("ONE", Dec.ONE.coeff, Dec.ONE.nfrac),
       ("NEG_ONE", Dec.NEG_ONE.coeff, Dec.NEG_ONE.nfrac), ("TWO", Dec.TWO.coeff, Dec.TWO.nfrac),
       ("TEN", Dec.TEN.coeff, Dec.TEN.nfrac), ("MAX", Dec.MAX.coeff, Dec.MAX.nfrac), ("MIN", Dec.MIN.coeff, Dec.MIN.nfrac),
       ("DELTA", Dec.DELTA.coeff, Dec.DELTA.nfrac)] := Kernels.decimal_consts_tie
theorem dom_is_min_max (d : Dec) :
    (Dec.MIN.coeff ≤ d.coeff ∧ d.coeff ≤ Dec.MAX.coeff ∧ d.nfrac ≤ Dec.DELTA.nfrac) ↔ Dom d := Kernels.dom_is_min_max d

/-! ### algebraic laws
Model-level corollaries about `round` itself. -/

private theorem ok_of_val {o : Outcome Dec} {c : Int} {q : Nat} (h : Spec.allowedOp (.val c q) (outPair o) = true) :
    o = .ok ⟨c, q⟩ := by
  cases o with
  | panic k => simp [Spec.allowedOp] at h
  | ok d =>
    obtain ⟨c', q'⟩ := d
    simp [Spec.allowedOp] at h
    rw [h.1, h.2]

private theorem of_valFit {c c' : Int} {q q' : Nat} (h : Spec.allowedOp (Spec.valFit c q) (.ok (c', q')) = true) :
    c' = c ∧ q' = q ∧ fitsI128 c = true := by
  rw [valFit_eq] at h
  by_cases hm : c = I128_MIN
  · simp [hm, Spec.allowedOp] at h
    refine ⟨by rw [h.1, hm], h.2, ?_⟩
    rw [hm]; decide
  · by_cases hf : fitsI128 c = true
    · simp [hm, hf, Spec.allowedOp] at h
      exact ⟨h.1, h.2, hf⟩
    · simp [hm, hf, Spec.allowedOp] at h

/-- an exact multiple of the divisor is its own rounding, in every mode -/
private theorem specRound_exact (tm : Mode) (k t : Int) (ht : 0 < t) : Spec.specRound tm (k * t) t = k := by
  unfold Spec.specRound
  simp [Int.mul_emod_left, Int.mul_ediv_cancel k (Int.ne_of_gt ht)]

/-- a non-zero multiple of ten is not `i128::MIN` -/
private theorem scaled_ne_min (k : Int) (m : Nat) (hm : 0 < m) : k * (10 : Int) ^ m ≠ I128_MIN := by
  obtain ⟨j, rfl⟩ : ∃ j, m = j + 1 := ⟨m - 1, by omega⟩
  have e : k * (10 : Int) ^ (j + 1) = 10 * (k * (10 : Int) ^ j) := by
    rw [Int.pow_succ, Int.mul_comm ((10 : Int) ^ j) 10, Int.mul_left_comm]
  rw [e]
  generalize k * (10 : Int) ^ j = z
  unfold I128_MIN; omega

/-- rounding is idempotent: a result of `round(n)` is returned unchanged by `round(n)` (every mode, profile, `n : i8`) -/
theorem round_idempotent (prof : Profile) (tm : Mode) (x r : Dec) (n : Int) (hx : Dom x) (hn : -128 ≤ n ∧ n ≤ 127)
    (h : round prof tm x n = .ok r) : round prof tm r n = .ok r := by
  have hs := round_spec prof tm x n hx hn
  rw [h] at hs
  simp only [outPair_ok] at hs
  unfold Spec.round at hs
  by_cases h1 : n ≥ (x.nfrac : Int)
  · -- nothing to round: `r = x`
    simp only [h1, if_true] at hs
    have : r = x := by
      obtain ⟨c, q⟩ := r
      obtain ⟨a, p⟩ := x
      simp [Spec.allowedOp] at hs
      rw [hs.1, hs.2]
    rw [this]; rw [this] at h; exact h
  · simp only [h1, if_false] at hs
    by_cases h2 : n ≥ 0
    · -- `r` has `n` fractional digits: the first test of `round` returns it
      simp only [h2, if_true] at hs
      obtain ⟨c, q⟩ := r
      obtain ⟨-, e2, -⟩ := of_valFit hs
      subst e2
      have hp := hx.2.2
      unfold round roundCore
      simp only []
      have e : ((n.toNat : Nat) : Int) = n := by omega
      simp only [e]
      rw [i8_cast_id (x := n) (by omega) (by omega)]
      simp
    · simp only [h2, if_false] at hs
      have hm : 0 < (-n).toNat := by omega
      have e0 : (((0 : Nat) : Int) - n).toNat = (-n).toNat := by simp
      have h10 : ¬ n ≥ ((0 : Nat) : Int) := by omega
      split at hs
      · -- rounded to zero
        have hr : r = ⟨0, 0⟩ := by
          obtain ⟨c, q⟩ := r
          simp [Spec.allowedOp] at hs
          rw [hs.1, hs.2]
        subst hr
        have hd0 : Dom ⟨0, 0⟩ := by decide
        have hs2 := round_spec prof tm ⟨0, 0⟩ n hd0 hn
        unfold Spec.round at hs2
        simp only [h10, h2, if_false, e0] at hs2
        have := specRound_exact tm 0 ((10 : Int) ^ (-n).toNat) (pow10_pos _)
        rw [Int.zero_mul] at this
        simp only [this, if_true] at hs2
        exact ok_of_val hs2
      · rename_i hk0
        obtain ⟨c, q⟩ := r
        obtain ⟨e1, e2, hf⟩ := of_valFit hs
        subst e1 e2
        generalize Spec.specRound tm x.coeff ((10 : Int) ^ ((x.nfrac : Int) - n).toNat) = k at hk0 hf ⊢
        have hne := scaled_ne_min k (-n).toNat hm
        have hd : Dom ⟨k * (10 : Int) ^ (-n).toNat, 0⟩ := by
          rw [fitsI128_iff] at hf
          refine ⟨?_, hf.2, by simp⟩
          simp only; omega
        have hs2 := round_spec prof tm _ n hd hn
        unfold Spec.round at hs2
        simp only [h10, if_false, e0, h2] at hs2
        rw [specRound_exact tm k _ (pow10_pos _)] at hs2
        simp only [hk0, if_false] at hs2
        rw [valFit_eq] at hs2
        simp only [hne, hf, if_false, if_true] at hs2
        exact ok_of_val hs2

/-- the same as an equality of outcomes: rounding twice is rounding once (both sides panic together) -/
theorem round_round (prof : Profile) (tm : Mode) (x : Dec) (n : Int) (hx : Dom x) (hn : -128 ≤ n ∧ n ≤ 127) :
    (round prof tm x n >>= fun r => round prof tm r n) = round prof tm x n := by
  cases h : round prof tm x n with
  | panic k => rfl
  | ok r => exact round_idempotent prof tm x r n hx hn h

example : round Profile.dev .heven ⟨-12345, 3⟩ 1 = .ok ⟨-123, 1⟩ ∧ round Profile.dev .heven ⟨-123, 1⟩ 1 = .ok ⟨-123, 1⟩ ∧
    round Profile.release .up ⟨12345, 1⟩ (-2) = .ok ⟨1300, 0⟩ ∧ round Profile.release .up ⟨1300, 0⟩ (-2) = .ok ⟨1300, 0⟩ ∧
    round Profile.dev .ceil ⟨1, 5⟩ (-36) = .ok ⟨(10 : Int) ^ 36, 0⟩ ∧
    round Profile.dev .ceil ⟨(10 : Int) ^ 36, 0⟩ (-36) = .ok ⟨(10 : Int) ^ 36, 0⟩ ∧
    round Profile.dev .floor ⟨1, 5⟩ (-50) = .ok ⟨0, 0⟩ ∧ round Profile.dev .floor ⟨0, 0⟩ (-50) = .ok ⟨0, 0⟩ := by decide

/-! ### algebraic laws: `checked_round` against `round` -/

/-- `d.round(n)` is `d.checked_round(n)` with `None` replaced by the overflow panic (all operands, modes, profiles) -/
theorem round_eq_checked (prof : Profile) (tm : Mode) (d : Dec) (n : Int) :
    round prof tm d n = panicOnNone (checkedRound prof tm d n) := by
  unfold round checkedRound
  cases roundCore prof tm d n with
  | panic k => rfl
  | ok o => cases o <;> rfl

/-- `checked_round` never panics on the domain (`n` any `i8`) -/
theorem checked_round_no_panic (prof : Profile) (tm : Mode) (d : Dec) (n : Int) (hd : Dom d) (hn : -128 ≤ n ∧ n ≤ 127) :
    ∃ o, checkedRound prof tm d n = .ok o := by
  have hany : Spec.round tm d.coeff d.nfrac n ≠ .any := by
    unfold Spec.round
    split
    · simp
    · simp only []
      split
      · exact valFit_ne_any _ _
      · split
        · simp
        · exact valFit_ne_any _ _
  exact allowedChecked_no_panic _ _ (checked_round_spec prof tm d n hd hn) (round_exp_shape tm d.coeff d.nfrac n).2.2 hany

/-- `Some(r)` exactly when `round` returns `r` (no hypothesis) -/
theorem checked_round_some_iff (prof : Profile) (tm : Mode) (d r : Dec) (n : Int) :
    checkedRound prof tm d n = .ok (some r) ↔ round prof tm d n = .ok r := by
  rw [round_eq_checked, panicOnNone_eq_ok_iff]

/-- `None` exactly when `round` panics, the panic being the overflow panic -/
theorem checked_round_none_iff (prof : Profile) (tm : Mode) (d : Dec) (n : Int) (hd : Dom d) (hn : -128 ≤ n ∧ n ≤ 127) :
    checkedRound prof tm d n = .ok none ↔ round prof tm d n = .panic .overflow := by
  obtain ⟨o, ho⟩ := checked_round_no_panic prof tm d n hd hn
  rw [round_eq_checked, panicOnNone_eq_panic_iff, ho]
  simp

theorem round_panic_kind (prof : Profile) (tm : Mode) (d : Dec) (n : Int) (k : PanicKind) (hd : Dom d) (hn : -128 ≤ n ∧ n ≤ 127)
    (h : round prof tm d n = .panic k) : k = .overflow := by
  obtain ⟨o, ho⟩ := checked_round_no_panic prof tm d n hd hn
  rw [round_eq_checked, panicOnNone_eq_panic_iff, ho] at h
  simp at h
  exact h.2

example : checkedRound Profile.dev .heven ⟨-12345, 3⟩ 1 = .ok (some ⟨-123, 1⟩) ∧ round Profile.dev .heven ⟨-12345, 3⟩ 1 = .ok ⟨-123, 1⟩ ∧
    checkedRound Profile.release .up ⟨1, 0⟩ (-39) = .ok none ∧ round Profile.release .up ⟨1, 0⟩ (-39) = .panic .overflow ∧
    checkedRound Profile.dev .ceil ⟨I128_MAX, 0⟩ (-1) = .ok none ∧ round Profile.dev .ceil ⟨I128_MAX, 0⟩ (-1) = .panic .overflow := by
  decide

/-! ### algebraic laws: rounding to fewer fractional digits always succeeds -/

/-- the rounded quotient of a coefficient of the domain by a positive divisor is again one, and it has the sign of the dividend
    (or is zero) -/
theorem specRound_dom (tm : Mode) (a d : Int) (ha : I128_MIN < a ∧ a ≤ I128_MAX) (hd : 0 < d) :
    (I128_MIN < Spec.specRound tm a d ∧ Spec.specRound tm a d ≤ I128_MAX) ∧
    (0 ≤ a → 0 ≤ Spec.specRound tm a d) ∧ (a < 0 → Spec.specRound tm a d ≤ 0) := by
  have hf := (fitsI128_iff _).mp (specRound_fits tm a d ⟨Int.le_of_lt ha.1, ha.2⟩ hd)
  have h1 : a / d ≤ Spec.specRound tm a d ∧ Spec.specRound tm a d ≤ a / d + 1 := by
    unfold Spec.specRound
    simp only []
    by_cases hr : a % d = 0
    · simp only [hr, if_true]; omega
    · simp only [hr, if_false]
      constructor <;> (cases tm <;> simp only [] <;> (repeat' split) <;> omega)
  refine ⟨⟨?_, hf.2⟩, ?_, ?_⟩
  · by_cases h0 : 0 ≤ a
    · have := Int.ediv_nonneg h0 (Int.le_of_lt hd); unfold I128_MIN; omega
    · have := ediv_ge_of_neg (x := a) (by omega) hd; omega
  · intro h0
    have := Int.ediv_nonneg h0 (Int.le_of_lt hd); omega
  · intro h0
    have := Int.ediv_neg_of_neg_of_pos h0 hd; omega

/-- `x.round(P)` with `0 ≤ P < p`: never a panic — the coefficient rounded under the mode, `P` fractional digits -/
theorem round_fewer_digits (prof : Profile) (tm : Mode) (x : Dec) (P : Nat) (hx : Dom x) (hP : P < x.nfrac) :
    round prof tm x P = .ok ⟨Spec.specRound tm x.coeff ((10 : Int) ^ (x.nfrac - P)), P⟩ := by
  have hp := hx.2.2
  have hs := round_spec prof tm x P hx (by omega)
  unfold Spec.round at hs
  have h1 : ¬ ((P : Nat) : Int) ≥ (x.nfrac : Int) := by omega
  have h2 : ((P : Nat) : Int) ≥ 0 := by omega
  have e1 : ((x.nfrac : Int) - ((P : Nat) : Int)).toNat = x.nfrac - P := by omega
  have e2 : (((P : Nat) : Int)).toNat = P := by omega
  simp only [h1, h2, if_false, if_true, e1, e2] at hs
  obtain ⟨⟨k1, k2⟩, -, -⟩ := specRound_dom tm x.coeff ((10 : Int) ^ (x.nfrac - P)) ⟨hx.1, hx.2.1⟩ (pow10_pos _)
  rw [valFit_of_fits P (Int.ne_of_gt k1) (by rw [fitsI128_iff]; omega)] at hs
  exact ok_of_allowed_val hs

example : round Profile.dev .heven ⟨-12345, 3⟩ 1 = .ok ⟨-123, 1⟩ ∧ Spec.specRound .heven (-12345) (10 ^ (3 - 1)) = -123 ∧
    round Profile.release .up ⟨I128_MAX, 18⟩ 0 = .ok ⟨170141183460469231732, 0⟩ := by decide

end Fpdec.Props.C05
