import Fpdec.Gen.Sites
import Fpdec.Model.Pinned

/-! Site ties for C06: the flavour skeleton of each anchor file, as regenerated from /repo on this run,
equals the skeleton the model was written against. -/

namespace Fpdec.Props.C06

theorem tie_sites_fpdec_core_src_parser : Gen.sites_fpdec_core_src_parser = Pinned.sites_fpdec_core_src_parser := by decide +kernel
theorem tie_sites_src_from_str : Gen.sites_src_from_str = Pinned.sites_src_from_str := by decide +kernel

end Fpdec.Props.C06
