import Fpdec.Kernels.TryFromFloat
import Fpdec.Kernels.Float
import Fpdec.Lemmas.FromFloat
import Fpdec.Props.C13_Sites

/-!
# C13 — f64/f32 to Decimal yields the nearest 18-digit Decimal or a precise error

* `try_from_float_spec`: for EVERY bit pattern of an f64 / f32 and every build profile the model of `Decimal::try_from(f)`
  returns what `Spec.fromFloat` prescribes: `InfiniteValue` / `NotANumber` for the non-finite patterns, otherwise the exact
  rational value of the pattern (`Spec.decodeBits`) rounded half-even to 18 fractional digits (`Spec.specRound .heven`) with
  trailing zeros removed (`Spec.normalizeSpec`), or `InternalOverflow` when that coefficient does not fit an i128.  At the single
  value `-2^127` the statement leaves value-or-overflow open.
* `try_from_float_total`: no bit pattern makes the conversion panic, in any profile.
* `heven_nearest`, `normalizeSpec_value`, `from_float_nearest`, `from_float_integral`: the spec itself is justified — a returned
  Decimal `c·10^-k` is within half a unit of the 18th digit of the float's exact value, an exact tie goes to the even 18-digit
  coefficient, the result has no trailing fractional zero, and a float with an integral value is converted exactly.
-/

namespace Fpdec.Props.C13
open Fpdec Fpdec.Model

theorem try_from_float_spec (prof : Profile) (f : Spec.FloatFmt) (hf : f = Spec.FloatFmt.f64 ∨ f = Spec.FloatFmt.f32)
    (bits : Nat) (hb : bits < 2 ^ f.bits) :
    fromFloatAllowed (Spec.fromFloat f bits) (fromFloatOut (tryFromFloat prof f bits)) :=
  tryFromFloat_spec prof f hf bits hb

/-- the conversion never panics -/
theorem try_from_float_total (prof : Profile) (f : Spec.FloatFmt) (hf : f = Spec.FloatFmt.f64 ∨ f = Spec.FloatFmt.f32)
    (bits : Nat) (hb : bits < 2 ^ f.bits) : ∃ r, tryFromFloat prof f bits = .ok r := by
  have h := tryFromFloat_spec prof f hf bits hb
  cases ht : tryFromFloat prof f bits with
  | ok r => exact ⟨r, rfl⟩
  | panic k =>
    rw [ht] at h
    unfold fromFloatAllowed fromFloatOut at h
    split at h
    · rcases h with h | h <;> cases h
    · cases h

/-- half-even rounding of `n/d` is a nearest integer, and the even one on an exact tie -/
theorem heven_nearest (n d : Int) (hd : 0 < d) :
    2 * ((Spec.specRound .heven n d * d - n).natAbs : Int) ≤ d ∧
    (2 * ((Spec.specRound .heven n d * d - n).natAbs : Int) = d → Spec.specRound .heven n d % 2 = 0) := by
  have h1 := Int.emod_nonneg n (Int.ne_of_gt hd)
  have h2 := Int.emod_lt_of_pos n hd
  have h3 : d * (n / d) + n % d = n := Int.mul_ediv_add_emod n d
  have c1 : (n / d) * d = d * (n / d) := Int.mul_comm _ _
  have c2 : (n / d + 1) * d = d * (n / d) + d := by rw [Int.add_mul, Int.one_mul, Int.mul_comm]
  have k1 : ∀ r : Int, 0 ≤ r → (d * (n / d) - (d * (n / d) + r)).natAbs = r := by intro r hr; omega
  have k2 : ∀ r : Int, r < d → (d * (n / d) + d - (d * (n / d) + r)).natAbs = d - r := by intro r hr; omega
  unfold Spec.specRound
  simp only []
  generalize hrr : n % d = r at *
  by_cases hr : r = 0
  · simp only [hr, if_true]; rw [c1]
    have := k1 r h1
    rw [h3, hr] at this; rw [this]; omega
  · simp only [hr, if_false]
    by_cases ha : 2 * r > d
    · simp only [ha, if_true]; rw [c2]
      have := k2 r h2
      rw [h3] at this; rw [this]; omega
    · simp only [ha, if_false]
      by_cases hb : 2 * r < d
      · simp only [hb, if_true]; rw [c1]
        have := k1 r h1
        rw [h3] at this; rw [this]; omega
      · simp only [hb, if_false]
        by_cases he : n / d % 2 = 0
        · simp only [he, if_true]; rw [c1]
          have := k1 r h1
          rw [h3] at this; rw [this]
          exact ⟨by omega, fun _ => trivial⟩
        · simp only [he, if_false]; rw [c2]
          have := k2 r h2
          rw [h3] at this; rw [this]; omega

/-- removing trailing zeros keeps the value, never raises the scale and leaves no trailing fractional zero
    (when the fuel covers the scale) -/
theorem normalizeSpec_value : ∀ (fuel : Nat) (c : Int) (p : Nat), p < fuel →
    (Spec.normalizeSpec fuel c p).2 ≤ p ∧
    (Spec.normalizeSpec fuel c p).1 * (10 : Int) ^ (p - (Spec.normalizeSpec fuel c p).2) = c ∧
    ((Spec.normalizeSpec fuel c p).2 > 0 → (Spec.normalizeSpec fuel c p).1 % 10 ≠ 0)
  | 0, c, p, h => absurd h (Nat.not_lt_zero _)
  | fuel + 1, c, p, h => by
    unfold Spec.normalizeSpec
    by_cases hc : c = 0
    · simp [hc]
    · simp only [hc, if_false]
      by_cases hz : p > 0 ∧ c % 10 = 0
      · simp only [hz, and_self, if_true]
        obtain ⟨i1, i2, i3⟩ := normalizeSpec_value fuel (c / 10) (p - 1) (by omega)
        refine ⟨by omega, ?_, i3⟩
        have e : p - (Spec.normalizeSpec fuel (c / 10) (p - 1)).2 = (p - 1 - (Spec.normalizeSpec fuel (c / 10) (p - 1)).2) + 1 := by
          omega
        rw [e, Int.pow_succ, ← Int.mul_assoc, i2]
        omega
      · simp only [hz, if_false]
        refine ⟨Nat.le_refl _, by simp, fun hp => ?_⟩
        intro h10; exact hz ⟨hp, h10⟩

/-- the sign / magnitude / exact value of a finite bit pattern, as used by `Spec.fromFloat` -/
def exactNum (f : Spec.FloatFmt) (bits : Nat) : Int :=
  if (bits >>> (f.bits - 1)) % 2 = 1 then -((Spec.decodeBits f (bits % 2 ^ (f.bits - 1))).1 : Int)
  else (Spec.decodeBits f (bits % 2 ^ (f.bits - 1))).1
def exactDen (f : Spec.FloatFmt) (bits : Nat) : Int := (Spec.decodeBits f (bits % 2 ^ (f.bits - 1))).2

/-- what a successful conversion of a finite pattern returns: `(c, k) = normalize(round_half_even(value · 10^18))` -/
theorem from_float_value (prof : Profile) (f : Spec.FloatFmt) (hf : f = Spec.FloatFmt.f64 ∨ f = Spec.FloatFmt.f32)
    (bits : Nat) (hb : bits < 2 ^ f.bits) (hfin : (bits >>> f.fracBits) % 2 ^ f.expBits ≠ 2 ^ f.expBits - 1)
    (d : Dec) (h : tryFromFloat prof f bits = .ok (.ok d)) :
    (d.coeff, d.nfrac) =
      Spec.normalizeSpec 19 (Spec.specRound .heven (exactNum f bits * 10 ^ 18) (exactDen f bits)) 18 := by
  have hs := tryFromFloat_spec prof f hf bits hb
  rw [h] at hs
  unfold fromFloatOut at hs
  simp only [] at hs
  unfold Spec.fromFloat at hs
  simp only [hfin, if_false] at hs
  unfold exactNum exactDen
  generalize Spec.normalizeSpec 19 _ 18 = ck at hs ⊢
  obtain ⟨c, k⟩ := ck
  simp only [] at hs
  by_cases hc : c = -(2 : Int) ^ 127
  · simp only [hc, if_true] at hs
    unfold fromFloatAllowed at hs
    simp only [] at hs
    rcases hs with hs | hs
    · injection hs with hs; injection hs with h1 h2; rw [h1, h2, hc]
    · injection hs with hs; cases hs
  · simp only [hc, if_false] at hs
    by_cases hfit : Spec.fits c = true
    · simp only [hfit, if_true] at hs
      unfold fromFloatAllowed at hs
      simp only [] at hs
      injection hs with hs; injection hs with h1 h2; rw [h1, h2]
    · simp only [hfit] at hs
      unfold fromFloatAllowed at hs
      injection hs with hs; cases hs

theorem exactDen_pos (f : Spec.FloatFmt) (bits : Nat) : 0 < exactDen f bits := by
  unfold exactDen Spec.decodeBits
  simp only []
  split
  · exact Int.natCast_pos.mpr (Nat.pow_pos (by decide))
  · split
    · simp
    · exact Int.natCast_pos.mpr (Nat.pow_pos (by decide))

/-- a returned Decimal `c·10^-k` is a nearest 18-digit decimal of the float's exact value `num/den`, the even one on a tie,
    and carries no trailing fractional zero -/
theorem from_float_nearest (prof : Profile) (f : Spec.FloatFmt) (hf : f = Spec.FloatFmt.f64 ∨ f = Spec.FloatFmt.f32)
    (bits : Nat) (hb : bits < 2 ^ f.bits) (hfin : (bits >>> f.fracBits) % 2 ^ f.expBits ≠ 2 ^ f.expBits - 1)
    (d : Dec) (h : tryFromFloat prof f bits = .ok (.ok d)) :
    d.nfrac ≤ 18 ∧
    2 * ((d.coeff * 10 ^ (18 - d.nfrac) * exactDen f bits - exactNum f bits * 10 ^ 18).natAbs : Int) ≤ exactDen f bits ∧
    (2 * ((d.coeff * 10 ^ (18 - d.nfrac) * exactDen f bits - exactNum f bits * 10 ^ 18).natAbs : Int) = exactDen f bits →
      (d.coeff * 10 ^ (18 - d.nfrac)) % 2 = 0) ∧
    (d.nfrac > 0 → d.coeff % 10 ≠ 0) := by
  have hv := from_float_value prof f hf bits hb hfin d h
  obtain ⟨n1, n2, n3⟩ := normalizeSpec_value 19 (Spec.specRound .heven (exactNum f bits * 10 ^ 18) (exactDen f bits)) 18 (by decide)
  rw [← hv] at n1 n2 n3
  simp only [] at n1 n2 n3
  obtain ⟨r1, r2⟩ := heven_nearest (exactNum f bits * 10 ^ 18) (exactDen f bits) (exactDen_pos f bits)
  rw [← n2] at r1 r2
  exact ⟨n1, r1, r2, n3⟩

/-- a float with an integral value (denominator one) is converted exactly -/
theorem from_float_integral (prof : Profile) (f : Spec.FloatFmt) (hf : f = Spec.FloatFmt.f64 ∨ f = Spec.FloatFmt.f32)
    (bits : Nat) (hb : bits < 2 ^ f.bits) (hfin : (bits >>> f.fracBits) % 2 ^ f.expBits ≠ 2 ^ f.expBits - 1)
    (hint : exactDen f bits = 1) (d : Dec) (h : tryFromFloat prof f bits = .ok (.ok d)) :
    d.coeff * 10 ^ (18 - d.nfrac) = exactNum f bits * 10 ^ 18 := by
  obtain ⟨_, h2, _, _⟩ := from_float_nearest prof f hf bits hb hfin d h
  rw [hint, Int.mul_one] at h2
  omega

/-! ### non-vacuity -/
-- 0.1f64 → 0.1000000000000000055511151231257827… rounded to 18 digits
example : tryFromFloat Profile.dev .f64 4591870180066957722 = .ok (.ok ⟨100000000000000006, 18⟩) := by decide
-- 2^127 as f64: InternalOverflow;  +inf: InfiniteValue
example : tryFromFloat Profile.release .f64 (1150 * 2 ^ 52) = .ok (.error .overflow) := by decide
example : tryFromFloat Profile.dev .f32 (255 * 2 ^ 23) = .ok (.error .infinite) := by decide

/-! ### translated kernels
The Lean definitions `Gen.K.*` are regenerated from the Rust source on every run by `tools/fpkernels.py` (expression-level
translation).  These theorems tie them to the hand-written model the property theorems above are about: a change of the Rust
kernel that changes its translation breaks them. -/
theorem kernel_normalize (prof : Profile) (c : Int) (n : Nat) (hn : n < 256) :
    Gen.K.normalize prof c n = .ok (normalize c n) := Kernels.normalize_eq prof c n hn
theorem kernel_approx_rational (prof : Profile) (a d : Int) :
    Gen.K.approx_rational prof a d = approxRational prof a d := Kernels.approx_rational_eq prof a d

theorem kernel_f64_decode (prof : Profile) (bits : Nat) (hb : bits < 18446744073709551616) :
    Gen.K.f64_decode prof bits = floatDecode Spec.FloatFmt.f64 bits := Kernels.f64_decode_eq prof bits hb
theorem kernel_f32_decode (prof : Profile) (bits : Nat) (hb : bits < 4294967296) :
    Gen.K.f32_decode prof bits = floatDecode Spec.FloatFmt.f32 bits := Kernels.f32_decode_eq prof bits hb
/-- the whole of `impl TryFrom<f64> for Decimal` / `impl TryFrom<f32> for Decimal`, as translated from the source on this run,
    is the model function the property theorems above are about -/
theorem kernel_try_from_f64 (prof : Profile) (bits : Nat) (hb : bits < 18446744073709551616) :
    Gen.K.try_from_f64 prof bits = Kernels.floatResult <$> tryFromFloat prof Spec.FloatFmt.f64 bits :=
  Kernels.try_from_f64_eq prof bits hb
theorem kernel_try_from_f32 (prof : Profile) (bits : Nat) (hb : bits < 4294967296) :
    Gen.K.try_from_f32 prof bits = Kernels.floatResult <$> tryFromFloat prof Spec.FloatFmt.f32 bits :=
  Kernels.try_from_f32_eq prof bits hb

/-! ### algebraic laws
Sign symmetry of the conversion (flipping the sign bit of the pattern negates the coefficient and keeps the digits), as a corollary
of `try_from_float_spec`: the spec rounds half-even, which is symmetric, and removes the same trailing zeros.  The one asymmetry is
the asymmetry of `i128`: `2^127` overflows while `-2^127` is `Decimal::MIN`. -/

/-- the pattern with the sign bit flipped -/
def flipSign (f : Spec.FloatFmt) (bits : Nat) : Nat := bits ^^^ 2 ^ (f.bits - 1)

theorem flipSign_eq (f : Spec.FloatFmt) (bits : Nat) (hb : bits < 2 ^ f.bits) :
    flipSign f bits = if bits < 2 ^ (f.bits - 1) then bits + 2 ^ (f.bits - 1) else bits - 2 ^ (f.bits - 1) := by
  have hS : 2 ^ f.bits = 2 * 2 ^ (f.bits - 1) := by
    have : f.bits = (f.bits - 1) + 1 := by unfold Spec.FloatFmt.bits; omega
    rw [this, Nat.pow_succ]; simp; omega
  unfold flipSign
  generalize f.bits - 1 = k at *
  have key : ∀ r, r < 2 ^ k → r ^^^ 2 ^ k = r + 2 ^ k := by
    intro r hr
    have hbit : r.testBit k = false := Nat.testBit_lt_two_pow hr
    have e : r ^^^ 2 ^ k = 2 ^ k ||| r := by
      apply Nat.eq_of_testBit_eq
      intro i
      simp only [Nat.testBit_or, Nat.testBit_xor, Nat.testBit_two_pow]
      by_cases hi : k = i
      · subst hi; simp [hbit]
      · simp [hi]
    have h1 := Nat.two_pow_add_eq_or_of_lt hr 1
    rw [Nat.mul_one] at h1
    rw [e, ← h1]; omega
  split
  · rename_i h; exact key bits h
  · rename_i h
    have h2 : bits - 2 ^ k < 2 ^ k := by omega
    have e : bits = (bits - 2 ^ k) + 2 ^ k := by omega
    conv => lhs; rw [e, ← key _ h2]
    rw [Nat.xor_assoc, Nat.xor_self, Nat.xor_zero]

theorem flip_fields (f : Spec.FloatFmt) (hf : f = Spec.FloatFmt.f64 ∨ f = Spec.FloatFmt.f32) (bits : Nat)
    (hb : bits < 2 ^ f.bits) :
    flipSign f bits < 2 ^ f.bits ∧
    (flipSign f bits >>> f.fracBits) % 2 ^ f.expBits = (bits >>> f.fracBits) % 2 ^ f.expBits ∧
    flipSign f bits % 2 ^ f.fracBits = bits % 2 ^ f.fracBits ∧
    flipSign f bits % 2 ^ (f.bits - 1) = bits % 2 ^ (f.bits - 1) ∧
    ((flipSign f bits >>> (f.bits - 1)) % 2 = 1 ↔ ¬ (bits >>> (f.bits - 1)) % 2 = 1) := by
  rw [flipSign_eq f bits hb]
  rcases hf with rfl | rfl
  · simp only [Spec.FloatFmt.f64, Spec.FloatFmt.bits, Nat.shiftRight_eq_div_pow] at hb ⊢
    norm_num at hb ⊢
    split <;> omega
  · simp only [Spec.FloatFmt.f32, Spec.FloatFmt.bits, Nat.shiftRight_eq_div_pow] at hb ⊢
    norm_num at hb ⊢
    split <;> omega

theorem normalizeSpec_neg : ∀ (fuel : Nat) (c : Int) (p : Nat),
    Spec.normalizeSpec fuel (-c) p = (-(Spec.normalizeSpec fuel c p).1, (Spec.normalizeSpec fuel c p).2)
  | 0, c, p => by simp [Spec.normalizeSpec]
  | fuel + 1, c, p => by
    unfold Spec.normalizeSpec
    by_cases hc : c = 0
    · simp [hc]
    · have hc' : -c ≠ 0 := by omega
      simp only [hc, hc', if_false]
      by_cases hz : p > 0 ∧ c % 10 = 0
      · have hz' : p > 0 ∧ (-c) % 10 = 0 := ⟨hz.1, by omega⟩
        have e : (-c) / 10 = -(c / 10) := by omega
        rw [if_pos hz, if_pos hz', e]
        exact normalizeSpec_neg fuel (c / 10) (p - 1)
      · have hz' : ¬ (p > 0 ∧ (-c) % 10 = 0) := by
          intro h; exact hz ⟨h.1, by omega⟩
        rw [if_neg hz, if_neg hz']

/-- the spec of a finite pattern, with its `let`s removed -/
theorem fromFloat_finite (f : Spec.FloatFmt) (bits : Nat)
    (hfin : (bits >>> f.fracBits) % 2 ^ f.expBits ≠ 2 ^ f.expBits - 1) :
    Spec.fromFloat f bits =
      (if (Spec.normalizeSpec 19 (Spec.specRound .heven (exactNum f bits * 10 ^ 18) (exactDen f bits)) 18).1 = -(2 : Int) ^ 127 then
        .valOrOvf (Spec.normalizeSpec 19 (Spec.specRound .heven (exactNum f bits * 10 ^ 18) (exactDen f bits)) 18).1
          (Spec.normalizeSpec 19 (Spec.specRound .heven (exactNum f bits * 10 ^ 18) (exactDen f bits)) 18).2
      else if Spec.fits (Spec.normalizeSpec 19 (Spec.specRound .heven (exactNum f bits * 10 ^ 18) (exactDen f bits)) 18).1 then
        .val (Spec.normalizeSpec 19 (Spec.specRound .heven (exactNum f bits * 10 ^ 18) (exactDen f bits)) 18).1
          (Spec.normalizeSpec 19 (Spec.specRound .heven (exactNum f bits * 10 ^ 18) (exactDen f bits)) 18).2
      else .overflow) := by
  unfold Spec.fromFloat exactNum exactDen
  simp only [hfin, if_false]

/-- flipping the sign bit negates the exact value and keeps the class of the pattern -/
theorem flip_exact (f : Spec.FloatFmt) (hf : f = Spec.FloatFmt.f64 ∨ f = Spec.FloatFmt.f32) (bits : Nat)
    (hb : bits < 2 ^ f.bits) :
    exactNum f (flipSign f bits) = -exactNum f bits ∧ exactDen f (flipSign f bits) = exactDen f bits := by
  obtain ⟨_, _, _, h4, h5⟩ := flip_fields f hf bits hb
  unfold exactNum exactDen
  rw [h4]
  refine ⟨?_, rfl⟩
  by_cases hs : (bits >>> (f.bits - 1)) % 2 = 1
  · rw [if_pos hs, if_neg (fun h => (h5.1 h) hs)]; omega
  · rw [if_neg hs, if_pos (h5.2 hs)]

/-- the non-finite patterns: the spec does not look at the sign -/
theorem fromFloat_flip_nonfinite (f : Spec.FloatFmt) (hf : f = Spec.FloatFmt.f64 ∨ f = Spec.FloatFmt.f32) (bits : Nat)
    (hb : bits < 2 ^ f.bits) (hinf : (bits >>> f.fracBits) % 2 ^ f.expBits = 2 ^ f.expBits - 1) :
    Spec.fromFloat f (flipSign f bits) = Spec.fromFloat f bits ∧
    (Spec.fromFloat f bits = .infinite ∨ Spec.fromFloat f bits = .nan) := by
  obtain ⟨_, h2, h3, _, _⟩ := flip_fields f hf bits hb
  unfold Spec.fromFloat
  simp only [h2, h3, hinf, if_true]
  refine ⟨trivial, ?_⟩
  split <;> simp

/-- what the spec prescribes for a normalised rounded coefficient -/
def expOf (c : Int) (k : Nat) : Spec.FromFloatExp :=
  if c = I128_MIN then .valOrOvf c k else if fitsI128 c = true then .val c k else .overflow

/-- the spec of a finite pattern and of the pattern with the sign bit flipped: same digits, opposite coefficients -/
theorem fromFloat_flip_finite (f : Spec.FloatFmt) (hf : f = Spec.FloatFmt.f64 ∨ f = Spec.FloatFmt.f32) (bits : Nat)
    (hb : bits < 2 ^ f.bits) (hfin : (bits >>> f.fracBits) % 2 ^ f.expBits ≠ 2 ^ f.expBits - 1) :
    ∃ (c : Int) (k : Nat), Spec.fromFloat f bits = expOf c k ∧ Spec.fromFloat f (flipSign f bits) = expOf (-c) k := by
  have hfin' : (flipSign f bits >>> f.fracBits) % 2 ^ f.expBits ≠ 2 ^ f.expBits - 1 := by
    rw [(flip_fields f hf bits hb).2.1]; exact hfin
  obtain ⟨e1, e2⟩ := flip_exact f hf bits hb
  have h127 : -(2 : Int) ^ 127 = I128_MIN := by decide
  refine ⟨(Spec.normalizeSpec 19 (Spec.specRound .heven (exactNum f bits * 10 ^ 18) (exactDen f bits)) 18).1,
    (Spec.normalizeSpec 19 (Spec.specRound .heven (exactNum f bits * 10 ^ 18) (exactDen f bits)) 18).2, ?_, ?_⟩
  · rw [fromFloat_finite f bits hfin]
    unfold expOf
    simp only [h127, spec_fits_eq]
  · rw [fromFloat_finite f _ hfin', e1, e2, Int.neg_mul, heven_neg _ _ (exactDen_pos f bits), normalizeSpec_neg]
    unfold expOf
    simp only [h127, spec_fits_eq]

theorem out_val_inv {r : Outcome (Except FloatErr Dec)} {c : Int} {k : Nat} (h : fromFloatOut r = some (.val c k)) :
    r = .ok (.ok ⟨c, k⟩) := by
  unfold fromFloatOut at h
  split at h <;> simp at h
  rename_i d
  obtain ⟨h1, h2⟩ := h
  cases d; simp only at h1 h2; rw [h1, h2]

theorem out_err_inv {r : Outcome (Except FloatErr Dec)} :
    (fromFloatOut r = some .infinite → r = .ok (.error .infinite)) ∧ (fromFloatOut r = some .nan → r = .ok (.error .nan)) ∧
    (fromFloatOut r = some .overflow → r = .ok (.error .overflow)) := by
  unfold fromFloatOut
  refine ⟨?_, ?_, ?_⟩ <;> intro h <;> split at h <;> simp at h <;> rfl

/-- sign symmetry, successful conversions: flipping the sign bit of a pattern that converts to `d` gives the Decimal with the
    opposite coefficient and the same number of fractional digits — in both directions (the flip is an involution); the only
    excluded result is `i128::MIN`, whose opposite is not an `i128` -/
theorem try_from_float_flip_ok (prof : Profile) (f : Spec.FloatFmt) (hf : f = Spec.FloatFmt.f64 ∨ f = Spec.FloatFmt.f32)
    (bits : Nat) (hb : bits < 2 ^ f.bits) (d : Dec) (h : tryFromFloat prof f bits = .ok (.ok d)) (hmin : d.coeff ≠ I128_MIN) :
    tryFromFloat prof f (flipSign f bits) = .ok (.ok ⟨-d.coeff, d.nfrac⟩) := by
  have hs := try_from_float_spec prof f hf bits hb
  have hs' := try_from_float_spec prof f hf _ (flip_fields f hf bits hb).1
  rw [h] at hs
  by_cases hfin : (bits >>> f.fracBits) % 2 ^ f.expBits = 2 ^ f.expBits - 1
  · rcases (fromFloat_flip_nonfinite f hf bits hb hfin).2 with e | e <;> rw [e] at hs <;>
      simp [fromFloatAllowed, fromFloatOut] at hs
  · obtain ⟨c, k, e1, e2⟩ := fromFloat_flip_finite f hf bits hb hfin
    rw [e1] at hs
    rw [e2] at hs'
    unfold expOf at hs hs'
    by_cases hc : c = I128_MIN
    · rw [if_pos hc] at hs
      simp [fromFloatAllowed, fromFloatOut] at hs
      exact absurd (hs.1.trans hc) hmin
    · rw [if_neg hc] at hs
      by_cases hfit : fitsI128 c = true
      · rw [if_pos hfit] at hs
        simp [fromFloatAllowed, fromFloatOut] at hs
        rw [fitsI128_iff] at hfit
        have hc' : ¬ (-c = I128_MIN) := by unfold I128_MIN I128_MAX at *; omega
        have hfit' : fitsI128 (-c) = true := by rw [fitsI128_iff]; unfold I128_MIN I128_MAX at *; omega
        rw [if_neg hc', if_pos hfit'] at hs'
        rw [hs.1, hs.2]
        exact out_val_inv hs'
      · rw [if_neg hfit] at hs
        simp [fromFloatAllowed, fromFloatOut] at hs

/-- sign symmetry, `InfiniteValue` / `NotANumber`: the error kind does not depend on the sign bit -/
theorem try_from_float_flip_nonfinite (prof : Profile) (f : Spec.FloatFmt) (hf : f = Spec.FloatFmt.f64 ∨ f = Spec.FloatFmt.f32)
    (bits : Nat) (hb : bits < 2 ^ f.bits) (e : FloatErr) (he : e ≠ .overflow) (h : tryFromFloat prof f bits = .ok (.error e)) :
    tryFromFloat prof f (flipSign f bits) = .ok (.error e) := by
  have hs := try_from_float_spec prof f hf bits hb
  have hs' := try_from_float_spec prof f hf _ (flip_fields f hf bits hb).1
  rw [h] at hs
  by_cases hfin : (bits >>> f.fracBits) % 2 ^ f.expBits = 2 ^ f.expBits - 1
  · obtain ⟨e1, e2⟩ := fromFloat_flip_nonfinite f hf bits hb hfin
    rw [e1] at hs'
    rcases e2 with e2 | e2 <;> rw [e2] at hs hs' <;> cases e <;>
      simp [fromFloatAllowed, fromFloatOut] at hs hs' he
    · exact out_err_inv.1 hs'
    · exact out_err_inv.2.1 hs'
  · obtain ⟨c, k, e1, _⟩ := fromFloat_flip_finite f hf bits hb hfin
    rw [e1] at hs
    unfold expOf at hs
    exfalso
    split at hs
    · cases e <;> simp [fromFloatAllowed, fromFloatOut] at hs he
    · split at hs <;> cases e <;> simp [fromFloatAllowed, fromFloatOut] at hs he

/-- sign symmetry, `InternalOverflow`: the flipped pattern overflows too — except that the opposite of an overflowing `2^127` is
    `i128::MIN`, which the conversion does return (see the example below: the law "the error kind is unchanged" is false there) -/
theorem try_from_float_flip_overflow (prof : Profile) (f : Spec.FloatFmt) (hf : f = Spec.FloatFmt.f64 ∨ f = Spec.FloatFmt.f32)
    (bits : Nat) (hb : bits < 2 ^ f.bits) (h : tryFromFloat prof f bits = .ok (.error .overflow)) :
    tryFromFloat prof f (flipSign f bits) = .ok (.error .overflow) ∨
    ∃ k, tryFromFloat prof f (flipSign f bits) = .ok (.ok ⟨I128_MIN, k⟩) := by
  have hs := try_from_float_spec prof f hf bits hb
  have hs' := try_from_float_spec prof f hf _ (flip_fields f hf bits hb).1
  rw [h] at hs
  by_cases hfin : (bits >>> f.fracBits) % 2 ^ f.expBits = 2 ^ f.expBits - 1
  · rcases (fromFloat_flip_nonfinite f hf bits hb hfin).2 with e | e <;> rw [e] at hs <;>
      simp [fromFloatAllowed, fromFloatOut] at hs
  · obtain ⟨c, k, e1, e2⟩ := fromFloat_flip_finite f hf bits hb hfin
    rw [e1] at hs
    rw [e2] at hs'
    unfold expOf at hs hs'
    have hov : ∀ c', c' ≠ I128_MIN → fitsI128 c' ≠ true →
        fromFloatAllowed (if c' = I128_MIN then .valOrOvf c' k else if fitsI128 c' = true then .val c' k else .overflow)
          (fromFloatOut (tryFromFloat prof f (flipSign f bits))) → tryFromFloat prof f (flipSign f bits) = .ok (.error .overflow) := by
      intro c' h1 h2 h3
      rw [if_neg h1, if_neg h2] at h3
      exact out_err_inv.2.2 h3
    by_cases hc : c = I128_MIN
    · left
      refine hov (-c) (by rw [hc]; decide) (by rw [hc]; decide) hs'
    · rw [if_neg hc] at hs
      by_cases hfit : fitsI128 c = true
      · rw [if_pos hfit] at hs
        simp [fromFloatAllowed, fromFloatOut] at hs
      · by_cases hc' : -c = I128_MIN
        · rw [if_pos hc'] at hs'
          rcases hs' with hs' | hs'
          · right; exact ⟨k, by rw [← hc']; exact out_val_inv hs'⟩
          · left; exact out_err_inv.2.2 hs'
        · left
          refine hov (-c) hc' (fun hh => hfit ?_) hs'
          rw [fitsI128_iff] at hh ⊢
          unfold I128_MIN I128_MAX at *; omega

/-- the flip is an involution on the patterns of the format -/
theorem flipSign_flipSign (f : Spec.FloatFmt) (bits : Nat) : flipSign f (flipSign f bits) = bits := by
  unfold flipSign
  rw [Nat.xor_assoc, Nat.xor_self, Nat.xor_zero]

-- 1.5 and -1.5; 0.1f32 and -0.1f32; +inf and -inf
example : tryFromFloat Profile.dev .f64 0x3FF8000000000000 = .ok (.ok ⟨15, 1⟩) ∧
    tryFromFloat Profile.dev .f64 (flipSign .f64 0x3FF8000000000000) = .ok (.ok ⟨-15, 1⟩) ∧
    flipSign .f64 0x3FF8000000000000 = 0xBFF8000000000000 ∧
    tryFromFloat Profile.dev .f32 (flipSign .f32 (255 * 2 ^ 23)) = .ok (.error .infinite) := by decide
-- COUNTER-EXAMPLE to "the error kind is unchanged": `2^127` overflows, `-2^127` is `Decimal::MIN` (both formats, both profiles)
example : tryFromFloat Profile.dev .f64 (1150 * 2 ^ 52) = .ok (.error .overflow) ∧
    tryFromFloat Profile.dev .f64 (flipSign .f64 (1150 * 2 ^ 52)) = .ok (.ok ⟨I128_MIN, 0⟩) ∧
    tryFromFloat Profile.release .f32 (254 * 2 ^ 23) = .ok (.error .overflow) ∧
    tryFromFloat Profile.release .f32 (flipSign .f32 (254 * 2 ^ 23)) = .ok (.ok ⟨I128_MIN, 0⟩) := by decide

/-- a float with an integral value converts to exactly that integer with NO fractional digits (`from_float_integral` gives the
    value; the absence of trailing zeros gives the representation) -/
theorem from_float_integral_exact (prof : Profile) (f : Spec.FloatFmt) (hf : f = Spec.FloatFmt.f64 ∨ f = Spec.FloatFmt.f32)
    (bits : Nat) (hb : bits < 2 ^ f.bits) (hfin : (bits >>> f.fracBits) % 2 ^ f.expBits ≠ 2 ^ f.expBits - 1)
    (hint : exactDen f bits = 1) (d : Dec) (h : tryFromFloat prof f bits = .ok (.ok d)) :
    d = ⟨exactNum f bits, 0⟩ := by
  have hv := from_float_integral prof f hf bits hb hfin hint d h
  obtain ⟨hk, _, _, hz⟩ := from_float_nearest prof f hf bits hb hfin d h
  obtain ⟨c, k⟩ := d
  simp only at hv hk hz
  have hk0 : k = 0 := by
    apply Classical.byContradiction
    intro hk0
    have hsplit : (10 : Int) ^ 18 = 10 ^ (k - 1) * 10 * 10 ^ (18 - k) := by
      rw [← Int.pow_succ, ← Int.pow_add]; congr 1; omega
    rw [hsplit, ← Int.mul_assoc] at hv
    have hc := Int.eq_of_mul_eq_mul_right (Int.ne_of_gt (Int.pow_pos (by decide))) hv
    apply hz (by omega)
    rw [hc, ← Int.mul_assoc]; exact Int.mul_emod_left _ _
  subst hk0
  simp only [Nat.sub_zero] at hv
  rw [Int.eq_of_mul_eq_mul_right (Int.ne_of_gt (Int.pow_pos (by decide))) hv]

-- the powers of two 2^0, 2^52, 2^53 (the limit of the contiguous integers of an f64), 2^53 + 2, -2^53 and 2^126
example : tryFromFloat Profile.dev .f64 (1023 * 2 ^ 52) = .ok (.ok ⟨1, 0⟩) ∧
    tryFromFloat Profile.dev .f64 (1075 * 2 ^ 52) = .ok (.ok ⟨2 ^ 52, 0⟩) ∧
    tryFromFloat Profile.dev .f64 (1076 * 2 ^ 52) = .ok (.ok ⟨2 ^ 53, 0⟩) ∧
    tryFromFloat Profile.dev .f64 (1076 * 2 ^ 52 + 1) = .ok (.ok ⟨2 ^ 53 + 2, 0⟩) ∧
    tryFromFloat Profile.release .f64 (flipSign .f64 (1076 * 2 ^ 52)) = .ok (.ok ⟨-2 ^ 53, 0⟩) ∧
    tryFromFloat Profile.release .f64 (1149 * 2 ^ 52) = .ok (.ok ⟨2 ^ 126, 0⟩) ∧
    exactDen .f64 (1076 * 2 ^ 52) = 1 ∧ exactNum .f64 (1076 * 2 ^ 52) = 2 ^ 53 := by decide

end Fpdec.Props.C13
