import Fpdec.Lemmas.Dom
import Fpdec.Props.C13_Sites

/-! # C13 — property theorems (under construction: see DESIGN.md section 6) -/

namespace Fpdec.Props.C13
open Fpdec Fpdec.Model

end Fpdec.Props.C13
