import Fpdec.Kernels.TryFromFloat
import Fpdec.Kernels.Float
import Fpdec.Lemmas.FromFloat
import Fpdec.Props.C13_Sites

/-!
# C13 — f64/f32 to Decimal yields the nearest 18-digit Decimal or a precise error

* `try_from_float_spec`: for EVERY bit pattern of an f64 / f32 and every build profile the model of `Decimal::try_from(f)`
  returns what `Spec.fromFloat` prescribes: `InfiniteValue` / `NotANumber` for the non-finite patterns, otherwise the exact
  rational value of the pattern (`Spec.decodeBits`) rounded half-even to 18 fractional digits (`Spec.specRound .heven`) with
  trailing zeros removed (`Spec.normalizeSpec`), or `InternalOverflow` when that coefficient does not fit an i128.  At the single
  value `-2^127` the statement leaves value-or-overflow open.
* `try_from_float_total`: no bit pattern makes the conversion panic, in any profile.
* `heven_nearest`, `normalizeSpec_value`, `from_float_nearest`, `from_float_integral`: the spec itself is justified — a returned
  Decimal `c·10^-k` is within half a unit of the 18th digit of the float's exact value, an exact tie goes to the even 18-digit
  coefficient, the result has no trailing fractional zero, and a float with an integral value is converted exactly.
-/

namespace Fpdec.Props.C13
open Fpdec Fpdec.Model

theorem try_from_float_spec (prof : Profile) (f : Spec.FloatFmt) (hf : f = Spec.FloatFmt.f64 ∨ f = Spec.FloatFmt.f32)
    (bits : Nat) (hb : bits < 2 ^ f.bits) :
    fromFloatAllowed (Spec.fromFloat f bits) (fromFloatOut (tryFromFloat prof f bits)) :=
  tryFromFloat_spec prof f hf bits hb

/-- the conversion never panics -/
theorem try_from_float_total (prof : Profile) (f : Spec.FloatFmt) (hf : f = Spec.FloatFmt.f64 ∨ f = Spec.FloatFmt.f32)
    (bits : Nat) (hb : bits < 2 ^ f.bits) : ∃ r, tryFromFloat prof f bits = .ok r := by
  have h := tryFromFloat_spec prof f hf bits hb
  cases ht : tryFromFloat prof f bits with
  | ok r => exact ⟨r, rfl⟩
  | panic k =>
    rw [ht] at h
    unfold fromFloatAllowed fromFloatOut at h
    split at h
    · rcases h with h | h <;> cases h
    · cases h

/-- half-even rounding of `n/d` is a nearest integer, and the even one on an exact tie -/
theorem heven_nearest (n d : Int) (hd : 0 < d) :
    2 * ((Spec.specRound .heven n d * d - n).natAbs : Int) ≤ d ∧
    (2 * ((Spec.specRound .heven n d * d - n).natAbs : Int) = d → Spec.specRound .heven n d % 2 = 0) := by
  have h1 := Int.emod_nonneg n (Int.ne_of_gt hd)
  have h2 := Int.emod_lt_of_pos n hd
  have h3 : d * (n / d) + n % d = n := Int.mul_ediv_add_emod n d
  have c1 : (n / d) * d = d * (n / d) := Int.mul_comm _ _
  have c2 : (n / d + 1) * d = d * (n / d) + d := by rw [Int.add_mul, Int.one_mul, Int.mul_comm]
  have k1 : ∀ r : Int, 0 ≤ r → (d * (n / d) - (d * (n / d) + r)).natAbs = r := by intro r hr; omega
  have k2 : ∀ r : Int, r < d → (d * (n / d) + d - (d * (n / d) + r)).natAbs = d - r := by intro r hr; omega
  unfold Spec.specRound
  simp only []
  generalize hrr : n % d = r at *
  by_cases hr : r = 0
  · simp only [hr, if_true]; rw [c1]
    have := k1 r h1
    rw [h3, hr] at this; rw [this]; omega
  · simp only [hr, if_false]
    by_cases ha : 2 * r > d
    · simp only [ha, if_true]; rw [c2]
      have := k2 r h2
      rw [h3] at this; rw [this]; omega
    · simp only [ha, if_false]
      by_cases hb : 2 * r < d
      · simp only [hb, if_true]; rw [c1]
        have := k1 r h1
        rw [h3] at this; rw [this]; omega
      · simp only [hb, if_false]
        by_cases he : n / d % 2 = 0
        · simp only [he, if_true]; rw [c1]
          have := k1 r h1
          rw [h3] at this; rw [this]
          exact ⟨by omega, fun _ => trivial⟩
        · simp only [he, if_false]; rw [c2]
          have := k2 r h2
          rw [h3] at this; rw [this]; omega

/-- removing trailing zeros keeps the value, never raises the scale and leaves no trailing fractional zero
    (when the fuel covers the scale) -/
theorem normalizeSpec_value : ∀ (fuel : Nat) (c : Int) (p : Nat), p < fuel →
    (Spec.normalizeSpec fuel c p).2 ≤ p ∧
    (Spec.normalizeSpec fuel c p).1 * (10 : Int) ^ (p - (Spec.normalizeSpec fuel c p).2) = c ∧
    ((Spec.normalizeSpec fuel c p).2 > 0 → (Spec.normalizeSpec fuel c p).1 % 10 ≠ 0)
  | 0, c, p, h => absurd h (Nat.not_lt_zero _)
  | fuel + 1, c, p, h => by
    unfold Spec.normalizeSpec
    by_cases hc : c = 0
    · simp [hc]
    · simp only [hc, if_false]
      by_cases hz : p > 0 ∧ c % 10 = 0
      · simp only [hz, and_self, if_true]
        obtain ⟨i1, i2, i3⟩ := normalizeSpec_value fuel (c / 10) (p - 1) (by omega)
        refine ⟨by omega, ?_, i3⟩
        have e : p - (Spec.normalizeSpec fuel (c / 10) (p - 1)).2 = (p - 1 - (Spec.normalizeSpec fuel (c / 10) (p - 1)).2) + 1 := by
          omega
        rw [e, Int.pow_succ, ← Int.mul_assoc, i2]
        omega
      · simp only [hz, if_false]
        refine ⟨Nat.le_refl _, by simp, fun hp => ?_⟩
        intro h10; exact hz ⟨hp, h10⟩

/-- the sign / magnitude / exact value of a finite bit pattern, as used by `Spec.fromFloat` -/
def exactNum (f : Spec.FloatFmt) (bits : Nat) : Int :=
  if (bits >>> (f.bits - 1)) % 2 = 1 then -((Spec.decodeBits f (bits % 2 ^ (f.bits - 1))).1 : Int)
  else (Spec.decodeBits f (bits % 2 ^ (f.bits - 1))).1
def exactDen (f : Spec.FloatFmt) (bits : Nat) : Int := (Spec.decodeBits f (bits % 2 ^ (f.bits - 1))).2

/-- what a successful conversion of a finite pattern returns: `(c, k) = normalize(round_half_even(value · 10^18))` -/
theorem from_float_value (prof : Profile) (f : Spec.FloatFmt) (hf : f = Spec.FloatFmt.f64 ∨ f = Spec.FloatFmt.f32)
    (bits : Nat) (hb : bits < 2 ^ f.bits) (hfin : (bits >>> f.fracBits) % 2 ^ f.expBits ≠ 2 ^ f.expBits - 1)
    (d : Dec) (h : tryFromFloat prof f bits = .ok (.ok d)) :
    (d.coeff, d.nfrac) =
      Spec.normalizeSpec 19 (Spec.specRound .heven (exactNum f bits * 10 ^ 18) (exactDen f bits)) 18 := by
  have hs := tryFromFloat_spec prof f hf bits hb
  rw [h] at hs
  unfold fromFloatOut at hs
  simp only [] at hs
  unfold Spec.fromFloat at hs
  simp only [hfin, if_false] at hs
  unfold exactNum exactDen
  generalize Spec.normalizeSpec 19 _ 18 = ck at hs ⊢
  obtain ⟨c, k⟩ := ck
  simp only [] at hs
  by_cases hc : c = -(2 : Int) ^ 127
  · simp only [hc, if_true] at hs
    unfold fromFloatAllowed at hs
    simp only [] at hs
    rcases hs with hs | hs
    · injection hs with hs; injection hs with h1 h2; rw [h1, h2, hc]
    · injection hs with hs; cases hs
  · simp only [hc, if_false] at hs
    by_cases hfit : Spec.fits c = true
    · simp only [hfit, if_true] at hs
      unfold fromFloatAllowed at hs
      simp only [] at hs
      injection hs with hs; injection hs with h1 h2; rw [h1, h2]
    · simp only [hfit] at hs
      unfold fromFloatAllowed at hs
      injection hs with hs; cases hs

theorem exactDen_pos (f : Spec.FloatFmt) (bits : Nat) : 0 < exactDen f bits := by
  unfold exactDen Spec.decodeBits
  simp only []
  split
  · exact Int.natCast_pos.mpr (Nat.pow_pos (by decide))
  · split
    · simp
    · exact Int.natCast_pos.mpr (Nat.pow_pos (by decide))

/-- a returned Decimal `c·10^-k` is a nearest 18-digit decimal of the float's exact value `num/den`, the even one on a tie,
    and carries no trailing fractional zero -/
theorem from_float_nearest (prof : Profile) (f : Spec.FloatFmt) (hf : f = Spec.FloatFmt.f64 ∨ f = Spec.FloatFmt.f32)
    (bits : Nat) (hb : bits < 2 ^ f.bits) (hfin : (bits >>> f.fracBits) % 2 ^ f.expBits ≠ 2 ^ f.expBits - 1)
    (d : Dec) (h : tryFromFloat prof f bits = .ok (.ok d)) :
    d.nfrac ≤ 18 ∧
    2 * ((d.coeff * 10 ^ (18 - d.nfrac) * exactDen f bits - exactNum f bits * 10 ^ 18).natAbs : Int) ≤ exactDen f bits ∧
    (2 * ((d.coeff * 10 ^ (18 - d.nfrac) * exactDen f bits - exactNum f bits * 10 ^ 18).natAbs : Int) = exactDen f bits →
      (d.coeff * 10 ^ (18 - d.nfrac)) % 2 = 0) ∧
    (d.nfrac > 0 → d.coeff % 10 ≠ 0) := by
  have hv := from_float_value prof f hf bits hb hfin d h
  obtain ⟨n1, n2, n3⟩ := normalizeSpec_value 19 (Spec.specRound .heven (exactNum f bits * 10 ^ 18) (exactDen f bits)) 18 (by decide)
  rw [← hv] at n1 n2 n3
  simp only [] at n1 n2 n3
  obtain ⟨r1, r2⟩ := heven_nearest (exactNum f bits * 10 ^ 18) (exactDen f bits) (exactDen_pos f bits)
  rw [← n2] at r1 r2
  exact ⟨n1, r1, r2, n3⟩

/-- a float with an integral value (denominator one) is converted exactly -/
theorem from_float_integral (prof : Profile) (f : Spec.FloatFmt) (hf : f = Spec.FloatFmt.f64 ∨ f = Spec.FloatFmt.f32)
    (bits : Nat) (hb : bits < 2 ^ f.bits) (hfin : (bits >>> f.fracBits) % 2 ^ f.expBits ≠ 2 ^ f.expBits - 1)
    (hint : exactDen f bits = 1) (d : Dec) (h : tryFromFloat prof f bits = .ok (.ok d)) :
    d.coeff * 10 ^ (18 - d.nfrac) = exactNum f bits * 10 ^ 18 := by
  obtain ⟨_, h2, _, _⟩ := from_float_nearest prof f hf bits hb hfin d h
  rw [hint, Int.mul_one] at h2
  omega

/-! ### non-vacuity -/
-- 0.1f64 → 0.1000000000000000055511151231257827… rounded to 18 digits
example : tryFromFloat Profile.dev .f64 4591870180066957722 = .ok (.ok ⟨100000000000000006, 18⟩) := by decide
-- 2^127 as f64: InternalOverflow;  +inf: InfiniteValue
example : tryFromFloat Profile.release .f64 (1150 * 2 ^ 52) = .ok (.error .overflow) := by decide
example : tryFromFloat Profile.dev .f32 (255 * 2 ^ 23) = .ok (.error .infinite) := by decide

/-! ### translated kernels
The Lean definitions `Gen.K.*` are regenerated from the Rust source on every run by `tools/fpkernels.py` (expression-level
translation).  These theorems tie them to the hand-written model the property theorems above are about: a change of the Rust
kernel that changes its translation breaks them. -/
theorem kernel_normalize (prof : Profile) (c : Int) (n : Nat) (hn : n < 256) :
    Gen.K.normalize prof c n = .ok (normalize c n) := Kernels.normalize_eq prof c n hn
theorem kernel_approx_rational (prof : Profile) (a d : Int) :
    Gen.K.approx_rational prof a d = approxRational prof a d := Kernels.approx_rational_eq prof a d

theorem kernel_f64_decode (prof : Profile) (bits : Nat) (hb : bits < 18446744073709551616) :
    Gen.K.f64_decode prof bits = floatDecode Spec.FloatFmt.f64 bits := Kernels.f64_decode_eq prof bits hb
theorem kernel_f32_decode (prof : Profile) (bits : Nat) (hb : bits < 4294967296) :
    Gen.K.f32_decode prof bits = floatDecode Spec.FloatFmt.f32 bits := Kernels.f32_decode_eq prof bits hb
/-- the whole of `impl TryFrom<f64> for Decimal` / `impl TryFrom<f32> for Decimal`, as translated from the source on this run,
    is the model function the property theorems above are about -/
theorem kernel_try_from_f64 (prof : Profile) (bits : Nat) (hb : bits < 18446744073709551616) :
    Gen.K.try_from_f64 prof bits = Kernels.floatResult <$> tryFromFloat prof Spec.FloatFmt.f64 bits :=
  Kernels.try_from_f64_eq prof bits hb
theorem kernel_try_from_f32 (prof : Profile) (bits : Nat) (hb : bits < 4294967296) :
    Gen.K.try_from_f32 prof bits = Kernels.floatResult <$> tryFromFloat prof Spec.FloatFmt.f32 bits :=
  Kernels.try_from_f32_eq prof bits hb

end Fpdec.Props.C13
