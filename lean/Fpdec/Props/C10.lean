import Fpdec.Kernels.DecRem
import Fpdec.Kernels.Rem
import Fpdec.Lemmas.Rem
import Fpdec.Props.C10_Sites

/-!
# C10 — Remainder satisfies the truncated-division identity exactly

* `rem_core_spec`: the shared function `rem(a, p, b, q)` — equal scales, scaled divisor (or dividend already the remainder when
  the divisor cannot be scaled), scaled dividend, and the digit loop used when the dividend cannot be re-expressed within i128 —
  returns `(A tmod B, max p q)` for the operands re-expressed with `max p q` digits; the only other outcome is the overflow
  signal, and only when `p < q` and the scaled dividend does not fit an i128.
* `rem_spec`, `checked_rem_spec`, `rem_dec_int_spec`, `rem_int_dec_spec`: `%`, `checked_rem` and the integer shapes with the
  zero-divisor (panic / `None`), zero-dividend and divisor-equals-one short cuts.
  The integer operand ranges over the **whole** `i128` range in both positions, `i128::MIN` included (after the repair D14:
  `i128::MIN % Dec!(-1)` used to panic because `%` on `(i128::MIN, -1)` does; `rem_min_by_minus_one`).
* `tmod_is_the_remainder`: `A tmod B` is the unique `r` with `A = B·t + r`, `|r| < |B|`, `r` zero or of the sign of `A`.
No function here takes a build-profile argument: every arithmetic site is `checked_*` or `%` (C20 for `%`).
-/

namespace Fpdec.Props.C10
open Fpdec Fpdec.Model

theorem rem_core_spec (a : Int) (p : Nat) (b : Int) (q : Nat)
    (ha : I128_MIN ≤ a ∧ a ≤ I128_MAX) (hb : I128_MIN ≤ b ∧ b ≤ I128_MAX) (hb0 : b ≠ 0) (hp : p ≤ 18) (hq : q ≤ 18) :
    Spec.allowedChecked
      (let m := max p q
       let A := a * (10 : Int) ^ (m - p)
       let B := b * (10 : Int) ^ (m - q)
       if p < q ∧ !Spec.fits A then Spec.Exp.valOrOvf (A.tmod B) m else Spec.Exp.val (A.tmod B) m)
      (outOptPair (remCore a p b q)) = true := remCore_spec a p b q ha hb hb0 hp hq

theorem rem_spec (x y : Dec) (hx : Dom x) (hy : Dom y) :
    Spec.allowedOp (Spec.rem x.coeff x.nfrac y.coeff y.nfrac)
      (outPair (opOfChecked (eqZero y) (if eqZero y then .ok none else remDecDec x y))) = true :=
  Fpdec.rem_spec x y hx hy

theorem checked_rem_spec (x y : Dec) (hx : Dom x) (hy : Dom y) :
    Spec.allowedChecked (Spec.rem x.coeff x.nfrac y.coeff y.nfrac)
      (outOptPair (checkedOfChecked (eqZero y) (if eqZero y then .ok none else remDecDec x y))) = true :=
  Fpdec.checked_rem_spec x y hx hy

theorem rem_dec_int_spec (x : Dec) (i : Int) (hx : Dom x) (hi : I128_MIN ≤ i ∧ i ≤ I128_MAX) (hi0 : i ≠ 0) :
    Spec.allowedChecked (Spec.rem x.coeff x.nfrac i 0) (outOptPair (remDecInt x i)) = true :=
  Fpdec.rem_dec_int_spec x i hx hi hi0

theorem rem_int_dec_spec (i : Int) (y : Dec) (hy : Dom y) (hi : I128_MIN ≤ i ∧ i ≤ I128_MAX) (hy0 : y.coeff ≠ 0) :
    Spec.allowedChecked (Spec.rem i 0 y.coeff y.nfrac) (outOptPair (remIntDec i y)) = true :=
  Fpdec.rem_int_dec_spec i y hy hi hy0

theorem tmod_is_the_remainder (A B r : Int) (hB : B ≠ 0) :
    r = A.tmod B ↔ (∃ t : Int, A = B * t + r) ∧ r.natAbs < B.natAbs ∧ (r = 0 ∨ (0 < r ∧ 0 < A) ∨ (r < 0 ∧ A < 0)) :=
  tmod_characterisation A B r hB

/-- D14 (repaired): the integer dividend `i128::MIN` with a divisor whose coefficient is `-1` — remainder zero, no panic, also
    when the dividend cannot be re-expressed with the divisor's fractional digits -/
theorem rem_min_by_minus_one (q : Nat) (hq : q ≤ 18) :
    remIntDec I128_MIN ⟨-1, q⟩ = .ok (some ⟨0, q⟩) := by
  have : ∀ q : Nat, q ≤ 18 → remIntDec I128_MIN ⟨-1, q⟩ = .ok (some ⟨0, q⟩) := by decide
  exact this q hq

/-! ### non-vacuity -/
example : remCore (-25) 1 7 0 = .ok (some ⟨-25, 1⟩) ∧ remCore I128_MAX 0 3 18 = .ok (some ⟨1, 18⟩) := by decide
example : remCore (I128_MAX / 3) 1 (I128_MAX / 5) 3 = .ok none := by decide   -- the permitted overflow (repo test test_rem_panic_ovfl)

/-! ### translated kernels
The Lean definitions `Gen.K.*` are regenerated from the Rust source on every run by `tools/fpkernels.py` (expression-level
translation).  These theorems tie them to the hand-written model the property theorems above are about: a change of the Rust
kernel that changes its translation breaks them. -/
/-- `fn rem` of src/binops/rem.rs (all three scale cases and the digit loop with its early `Err`) -/
theorem kernel_rem (prof : Profile) (a : Int) (p : Nat) (b : Int) (q : Nat) (hp : p < 256) (hq : q < 256) :
    Gen.K.rem prof a p b q = Kernels.remResult <$> remCore a p b q := Kernels.rem_eq prof a p b q hp hq
theorem kernel_checked_mul_pow_ten (prof : Profile) (val : Int) (n : Nat) :
    Gen.K.checked_mul_pow_ten prof val n = .ok (checkedMulPowTen val n) := Kernels.checked_mul_pow_ten_eq prof val n

/-- `impl Rem<Decimal> for Decimal` / `impl CheckedRem<Decimal> for Decimal`, as translated on this run -/
theorem kernel_decimal_rem (prof : Profile) (x y : Dec) (hp : x.nfrac < 256) (hq : y.nfrac < 256) :
    Gen.K.decimal_rem prof x y = opOfChecked (eqZero y) (remDecDec x y) := Kernels.decimal_rem_eq prof x y hp hq
theorem kernel_decimal_checked_rem (prof : Profile) (x y : Dec) (hp : x.nfrac < 256) (hq : y.nfrac < 256) :
    Gen.K.decimal_checked_rem prof x y = checkedOfChecked (eqZero y) (remDecDec x y) :=
  Kernels.decimal_checked_rem_eq prof x y hp hq

/-- the integer forms (`Decimal % int`, `int % Decimal`, and their `checked_rem`), macro bodies instantiated with `i64` -/
theorem kernel_decimal_rem_int (prof : Profile) (x : Dec) (i : Int) (hp : x.nfrac < 256) :
    Gen.K.decimal_rem_int prof x i = opOfChecked (decide (i = 0)) (remDecInt x i) := Kernels.decimal_rem_int_eq prof x i hp
theorem kernel_decimal_checked_rem_int (prof : Profile) (x : Dec) (i : Int) (hp : x.nfrac < 256) :
    Gen.K.decimal_checked_rem_int prof x i = checkedOfChecked (decide (i = 0)) (remDecInt x i) :=
  Kernels.decimal_checked_rem_int_eq prof x i hp
theorem kernel_int_rem_decimal (prof : Profile) (i : Int) (y : Dec) (hq : y.nfrac < 256) :
    Gen.K.int_rem_decimal prof i y = opOfChecked (eqZero y) (remIntDec i y) := Kernels.int_rem_decimal_eq prof i y hq
theorem kernel_int_checked_rem_decimal (prof : Profile) (i : Int) (y : Dec) (hq : y.nfrac < 256) :
    Gen.K.int_checked_rem_decimal prof i y = checkedOfChecked (eqZero y) (remIntDec i y) :=
  Kernels.int_checked_rem_decimal_eq prof i y hq

/-! ### algebraic laws: `checked_rem` against `%`
Operator and checked variant share one body (`remDecDec`, `remDecInt`, `remIntDec`) behind the zero-divisor test: the operator is
`opOfChecked z body`, the checked variant `checkedOfChecked z body` (`kernel_decimal_rem` … tie both to the Rust source). -/

private theorem spec_rem_ne_any (a : Int) (p : Nat) (b : Int) (q : Nat) : Spec.rem a p b q ≠ .any := by
  unfold Spec.rem
  simp only []
  (repeat' split) <;> simp

/-- the shared body does not panic on the domain (non-zero divisor) -/
theorem rem_body_no_panic (x y : Dec) (hx : Dom x) (hy : Dom y) (hy0 : eqZero y = false) : ∃ o, remDecDec x y = .ok o := by
  have hy0' : y.coeff ≠ 0 := by simpa [eqZero] using hy0
  exact allowedChecked_no_panic _ _ (remDecDec_spec x y hx hy hy0') (spec_rem_shape _ _ _ _ hy0').2.2 (spec_rem_ne_any _ _ _ _)

/-- `x.checked_rem(y)` never panics on the domain -/
theorem checked_rem_no_panic (x y : Dec) (hx : Dom x) (hy : Dom y) :
    ∃ o, checkedOfChecked (eqZero y) (remDecDec x y) = .ok o :=
  checked_form_no_panic _ _ (rem_body_no_panic x y hx hy)

/-- `Some(r)` exactly when `x % y` returns `r` (no hypothesis) -/
theorem checked_rem_some_iff (x y r : Dec) :
    checkedOfChecked (eqZero y) (remDecDec x y) = .ok (some r) ↔ opOfChecked (eqZero y) (remDecDec x y) = .ok r :=
  checked_some_iff_op_ok _ _ _

/-- `None` exactly when `x % y` panics — division-by-zero panic or overflow panic, nothing else -/
theorem checked_rem_none_iff (x y : Dec) (hx : Dom x) (hy : Dom y) :
    checkedOfChecked (eqZero y) (remDecDec x y) = .ok none ↔
      (opOfChecked (eqZero y) (remDecDec x y) = .panic .divzero ∨ opOfChecked (eqZero y) (remDecDec x y) = .panic .overflow) :=
  checked_none_iff_op_panic _ _ (rem_body_no_panic x y hx hy)

/-- the division-by-zero panic exactly for a zero divisor -/
theorem rem_divzero_iff (x y : Dec) (hx : Dom x) (hy : Dom y) :
    opOfChecked (eqZero y) (remDecDec x y) = .panic .divzero ↔ y.coeff = 0 := by
  rw [op_divzero_iff _ _ (rem_body_no_panic x y hx hy)]
  simp [eqZero]

theorem rem_panic_kind (x y : Dec) (k : PanicKind) (hx : Dom x) (hy : Dom y)
    (h : opOfChecked (eqZero y) (remDecDec x y) = .panic k) : k = .divzero ∨ k = .overflow :=
  op_panic_kind _ _ k (rem_body_no_panic x y hx hy) h

/-- the integer shapes: `Decimal % int` (`i` any i128 value) … -/
theorem rem_dec_int_body_no_panic (x : Dec) (i : Int) (hx : Dom x) (hi : I128_MIN ≤ i ∧ i ≤ I128_MAX)
    (hi0 : decide (i = 0) = false) : ∃ o, remDecInt x i = .ok o := by
  have hi0' : i ≠ 0 := by simpa using hi0
  exact allowedChecked_no_panic _ _ (rem_dec_int_spec x i hx hi hi0') (spec_rem_shape _ _ _ _ hi0').2.2 (spec_rem_ne_any _ _ _ _)

theorem checked_rem_dec_int_none_iff (x : Dec) (i : Int) (hx : Dom x) (hi : I128_MIN ≤ i ∧ i ≤ I128_MAX) :
    checkedOfChecked (decide (i = 0)) (remDecInt x i) = .ok none ↔
      (opOfChecked (decide (i = 0)) (remDecInt x i) = .panic .divzero ∨
        opOfChecked (decide (i = 0)) (remDecInt x i) = .panic .overflow) :=
  checked_none_iff_op_panic _ _ (rem_dec_int_body_no_panic x i hx hi)

/-- … and `int % Decimal` -/
theorem rem_int_dec_body_no_panic (i : Int) (y : Dec) (hy : Dom y) (hi : I128_MIN ≤ i ∧ i ≤ I128_MAX)
    (hy0 : eqZero y = false) : ∃ o, remIntDec i y = .ok o := by
  have hy0' : y.coeff ≠ 0 := by simpa [eqZero] using hy0
  exact allowedChecked_no_panic _ _ (rem_int_dec_spec i y hy hi hy0') (spec_rem_shape _ _ _ _ hy0').2.2 (spec_rem_ne_any _ _ _ _)

theorem checked_rem_int_dec_none_iff (i : Int) (y : Dec) (hy : Dom y) (hi : I128_MIN ≤ i ∧ i ≤ I128_MAX) :
    checkedOfChecked (eqZero y) (remIntDec i y) = .ok none ↔
      (opOfChecked (eqZero y) (remIntDec i y) = .panic .divzero ∨ opOfChecked (eqZero y) (remIntDec i y) = .panic .overflow) :=
  checked_none_iff_op_panic _ _ (rem_int_dec_body_no_panic i y hy hi)

example : checkedOfChecked (eqZero ⟨7, 0⟩) (remDecDec ⟨-25, 1⟩ ⟨7, 0⟩) = .ok (some ⟨-25, 1⟩) ∧
    opOfChecked (eqZero ⟨7, 0⟩) (remDecDec ⟨-25, 1⟩ ⟨7, 0⟩) = .ok ⟨-25, 1⟩ ∧
    checkedOfChecked (eqZero ⟨0, 3⟩) (remDecDec ⟨-25, 1⟩ ⟨0, 3⟩) = .ok none ∧
    opOfChecked (eqZero ⟨0, 3⟩) (remDecDec ⟨-25, 1⟩ ⟨0, 3⟩) = .panic .divzero ∧
    checkedOfChecked (eqZero ⟨I128_MAX / 5, 3⟩) (remDecDec ⟨I128_MAX / 3, 1⟩ ⟨I128_MAX / 5, 3⟩) = .ok none ∧
    opOfChecked (eqZero ⟨I128_MAX / 5, 3⟩) (remDecDec ⟨I128_MAX / 3, 1⟩ ⟨I128_MAX / 5, 3⟩) = .panic .overflow := by decide

end Fpdec.Props.C10
