import Fpdec.Lemmas.Dom
import Fpdec.Props.C10_Sites

/-! # C10 — property theorems (under construction: see DESIGN.md section 6) -/

namespace Fpdec.Props.C10
open Fpdec Fpdec.Model

end Fpdec.Props.C10
