import Fpdec.Kernels.Misc
import Fpdec.Kernels.Cmp
import Fpdec.Lemmas.Cmp
import Fpdec.Props.C08_Sites

/-!
# C08 — Equality and ordering are by numeric value and form a total order

* `partial_cmp_spec`, `cmp_spec`, `eq_spec`: on two Decimals `partial_cmp` is never `None`, `cmp` never panics, and both — as
  well as `==` — are the comparison of the exact values `a/10^p` vs `b/10^q` (`Spec.cmp` = compare `a·10^q` with `b·10^p`),
  also when aligning the scales overflows the i128 range (then the code decides by sign, proved right).
* `eq_int_spec`, `cmp_dec_int_spec`, `cmp_int_dec_spec`: comparisons with the 9 integer types, both operand orders.
* `value_order_*`: the value comparison is reflexive, antisymmetric (swap) and transitive; equality under it is equality of the
  rationals — so `<, <=, >, >=, min, max` (std's default methods on top of `partial_cmp`/`cmp`) inherit a total order.
rkyv: `ArchivedDecimal` uses the same macro bodies (`impl_partial_eq!`, `impl_partial_ord!`) over the same two fields; archiving,
byte validation and deserialisation are rkyv's code and are exercised by the correspondence run with the `rkyv` (and `rkyv,packed`)
feature, not modelled (partial).
-/

namespace Fpdec.Props.C08
open Fpdec Fpdec.Model

theorem partial_cmp_spec (x y : Dec) (hx : Dom x) (hy : Dom y) :
    partialCmp x y = some (Spec.cmp x.coeff x.nfrac y.coeff y.nfrac) := partialCmp_spec x y hx hy

theorem cmp_spec (x y : Dec) (hx : Dom x) (hy : Dom y) :
    Model.cmp x y = .ok (Spec.cmp x.coeff x.nfrac y.coeff y.nfrac) := Fpdec.cmp_spec x y hx hy

theorem eq_spec (x y : Dec) (hx : Dom x) (hy : Dom y) :
    decimalEq x y = (Spec.cmp x.coeff x.nfrac y.coeff y.nfrac == .eq) := decimalEq_spec x y hx hy

theorem eq_int_spec (signed : Bool) (d : Dec) (i : Int) (hd : Dom d) (hi : IntOperand signed i) :
    decEqInt signed d i = (Spec.cmp d.coeff d.nfrac i 0 == .eq) := decEqInt_spec signed d i hd hi

theorem cmp_dec_int_spec (signed : Bool) (d : Dec) (i : Int) (hd : Dom d) (hi : IntOperand signed i) :
    partialCmpDecInt signed d i = some (Spec.cmp d.coeff d.nfrac i 0) := partialCmpDecInt_spec signed d i hd hi

theorem cmp_int_dec_spec (signed : Bool) (i : Int) (d : Dec) (hd : Dom d) (hi : IntOperand signed i) :
    partialCmpIntDec signed i d = some (Spec.cmp i 0 d.coeff d.nfrac) := partialCmpIntDec_spec signed i d hd hi

theorem value_order_refl (a : Int) (p : Nat) : Spec.cmp a p a p = .eq := spec_cmp_refl a p

theorem value_order_antisymm (a : Int) (p : Nat) (b : Int) (q : Nat) :
    Spec.cmp b q a p = (Spec.cmp a p b q).swap := spec_cmp_swap a p b q

theorem value_order_trans (a : Int) (p : Nat) (b : Int) (q : Nat) (c : Int) (r : Nat)
    (h1 : Spec.cmp a p b q ≠ .gt) (h2 : Spec.cmp b q c r ≠ .gt) : Spec.cmp a p c r ≠ .gt :=
  spec_cmp_trans a p b q c r h1 h2

theorem value_order_eq_iff (a : Int) (p : Nat) (b : Int) (q : Nat) :
    Spec.cmp a p b q = .eq ↔ a * (10 : Int) ^ q = b * (10 : Int) ^ p := spec_cmp_eq_iff a p b q

/-! ### non-vacuity -/
example : partialCmp ⟨1, 0⟩ ⟨10, 1⟩ = some .eq ∧ partialCmp Dec.MAX ⟨I128_MAX, 1⟩ = some .gt := by decide

/-! ### translated kernels
The Lean definitions `Gen.K.*` are regenerated from the Rust source on every run by `tools/fpkernels.py` (expression-level
translation).  These theorems tie them to the hand-written model the property theorems above are about: a change of the Rust
kernel that changes its translation breaks them. -/
/-- `impl PartialEq<Decimal> for Decimal` / `impl PartialOrd<Decimal> for Decimal`, as translated on this run -/
theorem kernel_decimal_eq (prof : Profile) (x y : Dec) (hp : x.nfrac < 256) (hq : y.nfrac < 256) :
    Gen.K.decimal_eq prof x y = .ok (decimalEq x y) := Kernels.decimal_eq_eq prof x y hp hq
theorem kernel_decimal_partial_cmp (prof : Profile) (x y : Dec) (hp : x.nfrac < 256) (hq : y.nfrac < 256) :
    Gen.K.decimal_partial_cmp prof x y = .ok (partialCmp x y) := Kernels.decimal_partial_cmp_eq prof x y hp hq
theorem kernel_checked_adjust_coeffs (prof : Profile) (x : Int) (p : Nat) (y : Int) (q : Nat) (hp : p < 256) (hq : q < 256) :
    Gen.K.checked_adjust_coeffs prof x p y q = .ok (checkedAdjustCoeffs x p y q) :=
  Kernels.checked_adjust_coeffs_eq prof x p y q hp hq

/-- the integer forms of `==` and `partial_cmp` (cmp.rs macro bodies instantiated with `u64` / `i64`), as translated on this run -/
theorem kernel_decimal_eq_uint (prof : Profile) (d : Dec) (i : Nat) :
    Gen.K.decimal_eq_uint prof d i = .ok (decEqInt false d i) := Kernels.decimal_eq_uint_eq prof d i
theorem kernel_decimal_eq_sint (prof : Profile) (d : Dec) (i : Int) :
    Gen.K.decimal_eq_sint prof d i = .ok (decEqInt true d i) := Kernels.decimal_eq_sint_eq prof d i
theorem kernel_decimal_cmp_sint (prof : Profile) (d : Dec) (i : Int) :
    Gen.K.decimal_cmp_sint prof d i = .ok (partialCmpDecInt true d i) := Kernels.decimal_cmp_sint_eq prof d i
theorem kernel_sint_cmp_decimal (prof : Profile) (i : Int) (d : Dec) :
    Gen.K.sint_cmp_decimal prof i d = .ok (partialCmpIntDec true i d) := Kernels.sint_cmp_decimal_eq prof i d
theorem kernel_decimal_cmp_uint (prof : Profile) (d : Dec) (i : Nat) :
    Gen.K.decimal_cmp_uint prof d i = .ok (partialCmpDecInt false d i) := Kernels.decimal_cmp_uint_eq prof d i
theorem kernel_uint_cmp_decimal (prof : Profile) (i : Nat) (d : Dec) :
    Gen.K.uint_cmp_decimal prof i d = .ok (partialCmpIntDec false i d) := Kernels.uint_cmp_decimal_eq prof i d

/-- `impl Ord for Decimal`: `partial_cmp(..).unwrap()`, as translated on this run -/
theorem kernel_decimal_cmp (prof : Profile) (x y : Dec) (hp : x.nfrac < 256) (hq : y.nfrac < 256) :
    Gen.K.decimal_cmp prof x y = Model.cmp x y := Kernels.decimal_cmp_eq prof x y hp hq

end Fpdec.Props.C08
