import Fpdec.Lemmas.Dom
import Fpdec.Props.C08_Sites

/-! # C08 — property theorems (under construction: see DESIGN.md section 6) -/

namespace Fpdec.Props.C08
open Fpdec Fpdec.Model

end Fpdec.Props.C08
