import Fpdec.Kernels.Misc
import Fpdec.Kernels.Cmp
import Fpdec.Kernels.Rkyv
import Fpdec.Lemmas.Cmp
import Fpdec.Props.C08_Sites

/-!
# C08 — Equality and ordering are by numeric value and form a total order

* `partial_cmp_spec`, `cmp_spec`, `eq_spec`: on two Decimals `partial_cmp` is never `None`, `cmp` never panics, and both — as
  well as `==` — are the comparison of the exact values `a/10^p` vs `b/10^q` (`Spec.cmp` = compare `a·10^q` with `b·10^p`),
  also when aligning the scales overflows the i128 range (then the code decides by sign, proved right).
* `eq_int_spec`, `cmp_dec_int_spec`, `cmp_int_dec_spec`: comparisons with the 9 integer types, both operand orders.
* `value_order_*`: the value comparison is reflexive, antisymmetric (swap) and transitive; equality under it is equality of the
  rationals — so `<, <=, >, >=, min, max` (std's default methods on top of `partial_cmp`/`cmp`) inherit a total order.
* rkyv (`rkyv_*`): an `ArchivedDecimal` is the pair of its two fields.  The *translated* impls of this run — the macro bodies
  `impl_partial_eq!` / `impl_partial_ord!` instantiated for `(ArchivedDecimal, ArchivedDecimal)` and `(Decimal, ArchivedDecimal)`,
  the two forwarding impls `Decimal == ArchivedDecimal` / `Decimal.partial_cmp(&ArchivedDecimal)`, `Ord for ArchivedDecimal`,
  `Archive::resolve` and `Deserialize` of the hand-written packed layout — are proved to make archive ∘ deserialise the identity
  and every archived comparison the comparison of the exact values (`rkyv_roundtrip`, `rkyv_eq_spec`, `rkyv_cmp_spec`,
  `rkyv_mixed_spec`, `rkyv_ord_never_panics`).  rkyv's own code (byte layout of the derived impl, `check_bytes`, alignment) is
  exercised by the correspondence run with the `rkyv` and `rkyv,packed` features, not modelled.
-/

namespace Fpdec.Props.C08
open Fpdec Fpdec.Model

theorem partial_cmp_spec (x y : Dec) (hx : Dom x) (hy : Dom y) :
    partialCmp x y = some (Spec.cmp x.coeff x.nfrac y.coeff y.nfrac) := partialCmp_spec x y hx hy

theorem cmp_spec (x y : Dec) (hx : Dom x) (hy : Dom y) :
    Model.cmp x y = .ok (Spec.cmp x.coeff x.nfrac y.coeff y.nfrac) := Fpdec.cmp_spec x y hx hy

theorem eq_spec (x y : Dec) (hx : Dom x) (hy : Dom y) :
    decimalEq x y = (Spec.cmp x.coeff x.nfrac y.coeff y.nfrac == .eq) := decimalEq_spec x y hx hy

theorem eq_int_spec (signed : Bool) (d : Dec) (i : Int) (hd : Dom d) (hi : IntOperand signed i) :
    decEqInt signed d i = (Spec.cmp d.coeff d.nfrac i 0 == .eq) := decEqInt_spec signed d i hd hi

theorem cmp_dec_int_spec (signed : Bool) (d : Dec) (i : Int) (hd : Dom d) (hi : IntOperand signed i) :
    partialCmpDecInt signed d i = some (Spec.cmp d.coeff d.nfrac i 0) := partialCmpDecInt_spec signed d i hd hi

theorem cmp_int_dec_spec (signed : Bool) (i : Int) (d : Dec) (hd : Dom d) (hi : IntOperand signed i) :
    partialCmpIntDec signed i d = some (Spec.cmp i 0 d.coeff d.nfrac) := partialCmpIntDec_spec signed i d hd hi

theorem value_order_refl (a : Int) (p : Nat) : Spec.cmp a p a p = .eq := spec_cmp_refl a p

theorem value_order_antisymm (a : Int) (p : Nat) (b : Int) (q : Nat) :
    Spec.cmp b q a p = (Spec.cmp a p b q).swap := spec_cmp_swap a p b q

theorem value_order_trans (a : Int) (p : Nat) (b : Int) (q : Nat) (c : Int) (r : Nat)
    (h1 : Spec.cmp a p b q ≠ .gt) (h2 : Spec.cmp b q c r ≠ .gt) : Spec.cmp a p c r ≠ .gt :=
  spec_cmp_trans a p b q c r h1 h2

theorem value_order_eq_iff (a : Int) (p : Nat) (b : Int) (q : Nat) :
    Spec.cmp a p b q = .eq ↔ a * (10 : Int) ^ q = b * (10 : Int) ^ p := spec_cmp_eq_iff a p b q

/-! ### non-vacuity -/
example : partialCmp ⟨1, 0⟩ ⟨10, 1⟩ = some .eq ∧ partialCmp Dec.MAX ⟨I128_MAX, 1⟩ = some .gt := by decide

/-! ### translated kernels
The Lean definitions `Gen.K.*` are regenerated from the Rust source on every run by `tools/fpkernels.py` (expression-level
translation).  These theorems tie them to the hand-written model the property theorems above are about: a change of the Rust
kernel that changes its translation breaks them. -/
/-- `impl PartialEq<Decimal> for Decimal` / `impl PartialOrd<Decimal> for Decimal`, as translated on this run -/
theorem kernel_decimal_eq (prof : Profile) (x y : Dec) (hp : x.nfrac < 256) (hq : y.nfrac < 256) :
    Gen.K.decimal_eq prof x y = .ok (decimalEq x y) := Kernels.decimal_eq_eq prof x y hp hq
theorem kernel_decimal_partial_cmp (prof : Profile) (x y : Dec) (hp : x.nfrac < 256) (hq : y.nfrac < 256) :
    Gen.K.decimal_partial_cmp prof x y = .ok (partialCmp x y) := Kernels.decimal_partial_cmp_eq prof x y hp hq
theorem kernel_checked_adjust_coeffs (prof : Profile) (x : Int) (p : Nat) (y : Int) (q : Nat) (hp : p < 256) (hq : q < 256) :
    Gen.K.checked_adjust_coeffs prof x p y q = .ok (checkedAdjustCoeffs x p y q) :=
  Kernels.checked_adjust_coeffs_eq prof x p y q hp hq

/-- the integer forms of `==` and `partial_cmp` (cmp.rs macro bodies instantiated with `u64` / `i64`), as translated on this run -/
theorem kernel_decimal_eq_uint (prof : Profile) (d : Dec) (i : Nat) :
    Gen.K.decimal_eq_uint prof d i = .ok (decEqInt false d i) := Kernels.decimal_eq_uint_eq prof d i
theorem kernel_decimal_eq_sint (prof : Profile) (d : Dec) (i : Int) :
    Gen.K.decimal_eq_sint prof d i = .ok (decEqInt true d i) := Kernels.decimal_eq_sint_eq prof d i
theorem kernel_decimal_cmp_sint (prof : Profile) (d : Dec) (i : Int) :
    Gen.K.decimal_cmp_sint prof d i = .ok (partialCmpDecInt true d i) := Kernels.decimal_cmp_sint_eq prof d i
theorem kernel_sint_cmp_decimal (prof : Profile) (i : Int) (d : Dec) :
    Gen.K.sint_cmp_decimal prof i d = .ok (partialCmpIntDec true i d) := Kernels.sint_cmp_decimal_eq prof i d
theorem kernel_decimal_cmp_uint (prof : Profile) (d : Dec) (i : Nat) :
    Gen.K.decimal_cmp_uint prof d i = .ok (partialCmpDecInt false d i) := Kernels.decimal_cmp_uint_eq prof d i
theorem kernel_uint_cmp_decimal (prof : Profile) (i : Nat) (d : Dec) :
    Gen.K.uint_cmp_decimal prof i d = .ok (partialCmpIntDec false i d) := Kernels.uint_cmp_decimal_eq prof i d

/-- `impl Ord for Decimal`: `partial_cmp(..).unwrap()`, as translated on this run -/
theorem kernel_decimal_cmp (prof : Profile) (x y : Dec) (hp : x.nfrac < 256) (hq : y.nfrac < 256) :
    Gen.K.decimal_cmp prof x y = Model.cmp x y := Kernels.decimal_cmp_eq prof x y hp hq

/-! ### feature rkyv: the translated `ArchivedDecimal` impls -/
theorem kernel_archived_eq_archived (prof : Profile) (x y : Dec) (hp : x.nfrac < 256) (hq : y.nfrac < 256) :
    Gen.K.archived_eq_archived prof x y = .ok (decimalEq x y) := Kernels.archived_eq_archived_eq prof x y hp hq
theorem kernel_archived_eq_decimal (prof : Profile) (x y : Dec) (hp : x.nfrac < 256) (hq : y.nfrac < 256) :
    Gen.K.archived_eq_decimal prof x y = .ok (decimalEq x y) := Kernels.archived_eq_decimal_eq prof x y hp hq
theorem kernel_decimal_eq_archived (prof : Profile) (x y : Dec) (hp : x.nfrac < 256) (hq : y.nfrac < 256) :
    Gen.K.decimal_eq_archived prof x y = .ok (decimalEq y x) := Kernels.decimal_eq_archived_eq prof x y hp hq
theorem kernel_archived_cmp_archived (prof : Profile) (x y : Dec) (hp : x.nfrac < 256) (hq : y.nfrac < 256) :
    Gen.K.archived_cmp_archived prof x y = .ok (partialCmp x y) := Kernels.archived_cmp_archived_eq prof x y hp hq
theorem kernel_archived_cmp_decimal (prof : Profile) (x y : Dec) (hp : x.nfrac < 256) (hq : y.nfrac < 256) :
    Gen.K.archived_cmp_decimal prof x y = .ok (partialCmp x y) := Kernels.archived_cmp_decimal_eq prof x y hp hq
theorem kernel_decimal_cmp_archived (prof : Profile) (x y : Dec) (hp : x.nfrac < 256) (hq : y.nfrac < 256) :
    Gen.K.decimal_cmp_archived prof x y = .ok ((partialCmp y x).map Ordering.swap) :=
  Kernels.decimal_cmp_archived_eq prof x y hp hq
theorem kernel_archived_basics (prof : Profile) (d : Dec) :
    Gen.K.archived_eq_zero prof d = .ok (eqZero d) ∧ Gen.K.archived_is_negative prof d = .ok (isNegative d) ∧
    Gen.K.archived_is_positive prof d = .ok (isPositive d) ∧ Gen.K.archived_eq_one prof d = Gen.K.decimal_eq_one prof d ∧
    Gen.K.archived_coefficient prof d = .ok d.coeff ∧ Gen.K.archived_n_frac_digits prof d = .ok d.nfrac ∧
    Gen.K.decimal_coefficient prof d = .ok d.coeff ∧ Gen.K.decimal_n_frac_digits prof d = .ok d.nfrac :=
  ⟨rfl, rfl, rfl, rfl, rfl, rfl, rfl, rfl⟩

/-- the two layouts of an archived Decimal, as extracted from src/lib.rs on this run: the derived one (features rkyv without
    packed: rkyv's derive mirrors the fields of `Decimal`) and the hand-written `#[repr(C, packed)]` mirror -/
theorem rkyv_layout :
    Gen.DECIMAL_FIELDS = [("coeff", "i128"), ("n_frac_digits", "u8")] ∧ Gen.ARCHIVED_FIELDS = Gen.DECIMAL_FIELDS ∧
    Gen.RKYV_DERIVES = ["Archive", "Serialize", "Deserialize"] := by decide

/-- archiving (what `Archive::resolve` writes, after `Serialize` succeeded) followed by `Deserialize` is the identity -/
theorem rkyv_roundtrip (prof : Profile) (d : Dec) :
    Gen.K.decimal_serialize prof d = .ok (.ok ()) ∧
    (Gen.K.decimal_resolve prof d >>= Gen.K.archived_deserialize prof) = .ok (.ok d) := by
  refine ⟨rfl, ?_⟩
  rw [Kernels.decimal_resolve_eq]; rfl

/-- archived values compare with each other exactly like the values they were archived from: by exact value -/
theorem rkyv_eq_spec (prof : Profile) (x y : Dec) (hx : Dom x) (hy : Dom y) :
    (do let ax ← Gen.K.decimal_resolve prof x; let ay ← Gen.K.decimal_resolve prof y; Gen.K.archived_eq_archived prof ax ay)
      = .ok (Spec.cmp x.coeff x.nfrac y.coeff y.nfrac == .eq) := by
  simp only [Kernels.decimal_resolve_eq, Kernels.bind_ok']
  rw [Kernels.archived_eq_archived_eq prof x y (by have := hx.2.2; omega) (by have := hy.2.2; omega)]
  rw [decimalEq_spec x y hx hy]

theorem rkyv_cmp_spec (prof : Profile) (x y : Dec) (hx : Dom x) (hy : Dom y) :
    (do let ax ← Gen.K.decimal_resolve prof x; let ay ← Gen.K.decimal_resolve prof y; Gen.K.archived_cmp_archived prof ax ay)
      = .ok (some (Spec.cmp x.coeff x.nfrac y.coeff y.nfrac)) := by
  simp only [Kernels.decimal_resolve_eq, Kernels.bind_ok']
  rw [Kernels.archived_cmp_archived_eq prof x y (by have := hx.2.2; omega) (by have := hy.2.2; omega)]
  rw [partialCmp_spec x y hx hy]

/-- mixed comparisons, both operand orders: `archived(x) ⋈ y` and `x ⋈ archived(y)` are the comparison of the exact values -/
theorem rkyv_mixed_spec (prof : Profile) (x y : Dec) (hx : Dom x) (hy : Dom y) :
    (do let ax ← Gen.K.decimal_resolve prof x; Gen.K.archived_cmp_decimal prof ax y)
      = .ok (some (Spec.cmp x.coeff x.nfrac y.coeff y.nfrac)) ∧
    (do let ay ← Gen.K.decimal_resolve prof y; Gen.K.decimal_cmp_archived prof x ay)
      = .ok (some (Spec.cmp x.coeff x.nfrac y.coeff y.nfrac)) ∧
    (do let ax ← Gen.K.decimal_resolve prof x; Gen.K.archived_eq_decimal prof ax y)
      = .ok (Spec.cmp x.coeff x.nfrac y.coeff y.nfrac == .eq) ∧
    (do let ay ← Gen.K.decimal_resolve prof y; Gen.K.decimal_eq_archived prof x ay)
      = .ok (Spec.cmp x.coeff x.nfrac y.coeff y.nfrac == .eq) := by
  have hp : x.nfrac < 256 := by have := hx.2.2; omega
  have hq : y.nfrac < 256 := by have := hy.2.2; omega
  simp only [Kernels.decimal_resolve_eq, Kernels.bind_ok']
  refine ⟨?_, ?_, ?_, ?_⟩
  · rw [Kernels.archived_cmp_decimal_eq prof x y hp hq, partialCmp_spec x y hx hy]
  · rw [Kernels.decimal_cmp_archived_eq prof x y hp hq, partialCmp_spec y x hy hx]
    simp only [Option.map_some]
    rw [← value_order_antisymm]
  · rw [Kernels.archived_eq_decimal_eq prof x y hp hq, decimalEq_spec x y hx hy]
  · rw [Kernels.decimal_eq_archived_eq prof x y hp hq, decimalEq_spec y x hy hx]
    congr 1
    rw [value_order_antisymm x.coeff x.nfrac y.coeff y.nfrac]
    generalize Spec.cmp x.coeff x.nfrac y.coeff y.nfrac = o
    cases o <;> rfl

/-- `Ord for ArchivedDecimal` never panics (its `unwrap` is of a `Some`) -/
theorem rkyv_ord_never_panics (prof : Profile) (x y : Dec) (hx : Dom x) (hy : Dom y) :
    Gen.K.archived_ord_cmp prof x y = .ok (Spec.cmp x.coeff x.nfrac y.coeff y.nfrac) := by
  rw [Kernels.archived_ord_cmp_eq prof x y (by have := hx.2.2; omega) (by have := hy.2.2; omega), partialCmp_spec x y hx hy]

example : (Gen.K.decimal_resolve Profile.dev ⟨-50, 2⟩ >>= fun a => Gen.K.archived_cmp_decimal Profile.dev a ⟨-5, 1⟩) = .ok (some .eq) := by
  decide

/-! ### algebraic laws
Model-level corollaries about `partialCmp` / `decimalEq` themselves. -/

/-- swapping the operands swaps the result of `partial_cmp` -/
theorem partial_cmp_swap (x y : Dec) (hx : Dom x) (hy : Dom y) :
    partialCmp y x = (partialCmp x y).map Ordering.swap := by
  rw [partial_cmp_spec x y hx hy, partial_cmp_spec y x hy hx, value_order_antisymm]
  rfl

/-- `x < y ↔ y > x` -/
theorem lt_iff_gt (x y : Dec) (hx : Dom x) (hy : Dom y) :
    partialCmp x y = some .lt ↔ partialCmp y x = some .gt := by
  rw [partial_cmp_swap x y hx hy, partial_cmp_spec x y hx hy]
  generalize Spec.cmp x.coeff x.nfrac y.coeff y.nfrac = o
  cases o <;> simp [Ordering.swap]

/-- `==` is `partial_cmp(..) == Some(Equal)` -/
theorem eq_iff_cmp_eq (x y : Dec) (hx : Dom x) (hy : Dom y) :
    decimalEq x y = true ↔ partialCmp x y = some .eq := by
  rw [eq_spec x y hx hy, partial_cmp_spec x y hx hy]
  generalize Spec.cmp x.coeff x.nfrac y.coeff y.nfrac = o
  cases o <;> simp

/-- `==` is symmetric and reflexive -/
theorem decimal_eq_symm (x y : Dec) (hx : Dom x) (hy : Dom y) : decimalEq x y = decimalEq y x := by
  rw [eq_spec x y hx hy, eq_spec y x hy hx, value_order_antisymm x.coeff x.nfrac y.coeff y.nfrac]
  generalize Spec.cmp x.coeff x.nfrac y.coeff y.nfrac = o
  cases o <;> rfl

theorem decimal_eq_refl (x : Dec) (hx : Dom x) : decimalEq x x = true ∧ partialCmp x x = some .eq := by
  rw [eq_spec x x hx hx, partial_cmp_spec x x hx hx, value_order_refl]
  exact ⟨rfl, rfl⟩

example : partialCmp ⟨-25, 1⟩ ⟨-2499, 3⟩ = some .lt ∧ partialCmp ⟨-2499, 3⟩ ⟨-25, 1⟩ = some .gt := by decide
example : decimalEq ⟨-25, 1⟩ ⟨-2500, 3⟩ = true ∧ partialCmp ⟨-25, 1⟩ ⟨-2500, 3⟩ = some .eq ∧
    decimalEq ⟨I128_MAX, 0⟩ ⟨I128_MAX, 18⟩ = false ∧ partialCmp ⟨I128_MAX, 0⟩ ⟨I128_MAX, 18⟩ = some .gt := by decide

end Fpdec.Props.C08
