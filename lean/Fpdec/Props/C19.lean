import Fpdec.Model.Threads
import Fpdec.Gen.KTls
import Fpdec.Kernels.Round
import Fpdec.Props.C19_Sites

/-!
# C19 — The default rounding mode is per thread and starts as HalfEven

State-machine model (`Model/Threads.lean`): a world maps storage cells to modes; which cell a thread uses (`cellOf`) and the initial
value (`dfltInit`) are read from the source on every run (`Gen.DFLT_MODE_THREAD_LOCAL`, `Gen.DFLT_MODE_INIT`): with `thread_local!`
every thread has its own cell, with a process-wide `static` all threads would share cell 0 — and `isolation` below would be false.

* `storage_is_thread_local`, `initial_mode`: what the source says now.
* `isolation`: after ANY schedule (any interleaving of `set_default` / `default()` / rounding operations of any number of threads)
  the mode seen by thread `t` — by `default()` and by every rounding operation executed on `t` — is the one `t` set last, else the
  initial mode; operations of other threads never change it.
* `new_thread_starts_half_even`: a thread that never called `set_default` sees `RoundHalfEven` whatever the others did.
The run-time behaviour of `thread_local!` itself (OS threads, TLS) has no counterpart in the model: it is exercised by the
correspondence run, which replays schedules on real OS threads, each schedule in a fresh process (partial).
-/

namespace Fpdec.Props.C19
open Fpdec Fpdec.Model

theorem storage_is_thread_local : Gen.DFLT_MODE_THREAD_LOCAL = true := by decide

theorem initial_mode : dfltInit = Mode.heven := by decide

theorem cellOf_eq (t : Nat) : cellOf t = t := by
  unfold cellOf; rw [storage_is_thread_local]; rfl

/-- the world after a schedule -/
def after (prof : Profile) (w : World) : List ThreadOp → World
  | [] => w
  | op :: ops => after prof (threadStep prof w op).1 ops

/-- the mode thread `t` set last in a schedule, if any -/
def lastSet (t : Nat) : List ThreadOp → Option Mode
  | [] => none
  | .set t' m :: ops => match lastSet t ops with
    | some m' => some m'
    | none => if t' = t then some m else none
  | _ :: ops => lastSet t ops

theorem read_set (w : World) (c c' : Nat) (m : Mode) :
    World.read ((c, m) :: w.filter (fun e => e.1 ≠ c)) c' = if c' = c then m else World.read w c' := by
  unfold World.read
  by_cases h : c' = c
  · subst h; simp
  · have h' : ¬ c = c' := fun e => h e.symm
    simp only [List.find?_cons, h', decide_false, h, if_false]
    rw [List.find?_filter]
    have hfun : (fun a : Nat × Mode => decide (decide (a.fst ≠ c) = true ∧ decide (a.fst = c') = true)) =
        (fun e => decide (e.fst = c')) := by
      funext a
      by_cases ha : a.1 = c'
      · have : ¬ a.1 = c := by rw [ha]; exact h
        simp [ha, h]
      · simp [ha]
    rw [hfun]

theorem default_setDefault (w : World) (t t' : Nat) (m : Mode) :
    (w.setDefault t m).default t' = if t' = t then m else w.default t' := by
  unfold World.default World.setDefault
  rw [cellOf_eq, cellOf_eq, read_set]

theorem step_default (prof : Profile) (w : World) (op : ThreadOp) (t : Nat) :
    (threadStep prof w op).1.default t =
      match op with
      | .set t' m => if t = t' then m else w.default t
      | _ => w.default t := by
  cases op with
  | set t' m => simp [threadStep, default_setDefault]
  | get t' => simp [threadStep]
  | round t' c p n => simp [threadStep]
  | probe t' => simp [threadStep]

/-- ISOLATION: the default mode of thread `t` after any schedule is the mode `t` itself set last, else what it was before -/
theorem isolation (prof : Profile) (ops : List ThreadOp) (w : World) (t : Nat) :
    (after prof w ops).default t = (lastSet t ops).getD (w.default t) := by
  induction ops generalizing w with
  | nil => simp [after, lastSet]
  | cons op ops ih =>
    unfold after
    rw [ih, step_default]
    cases op with
    | set t' m =>
      simp only [lastSet]
      cases h : lastSet t ops with
      | some m' => simp
      | none =>
        by_cases ht : t = t'
        · subst ht; simp
        · have : ¬ t' = t := fun e => ht e.symm
          simp [ht, this]
    | get t' => simp [lastSet]
    | round t' c p n => simp [lastSet]
    | probe t' => simp [lastSet]

/-- a thread that never set a mode sees `RoundHalfEven`, whatever other threads did -/
theorem new_thread_starts_half_even (prof : Profile) (ops : List ThreadOp) (t : Nat) (h : lastSet t ops = none) :
    (after prof [] ops).default t = Mode.heven := by
  rw [isolation, h]
  simp [World.default, World.read, initial_mode]

/-- every observation of the schedule runner is made with the world produced by the preceding operations: a rounding operation on
    thread `t` rounds under `t`'s own mode -/
theorem runSchedule_cons (prof : Profile) (w : World) (op : ThreadOp) (ops : List ThreadOp) :
    runSchedule prof w (op :: ops) = (threadStep prof w op).2 :: runSchedule prof (threadStep prof w op).1 ops := rfl

theorem round_uses_own_mode (prof : Profile) (w : World) (t : Nat) (c : Int) (p : Nat) (n : Int) :
    (threadStep prof w (.round t c p n)).2 = .dec (round prof (w.default t) ⟨c, p⟩ n) := rfl

/-! ### non-vacuity: two threads, interleaved -/
example : runSchedule Profile.dev [] [.set 1 .up, .get 1, .get 2, .round 1 15 1 0, .round 2 15 1 0] =
    [.none, .mode .up, .mode .heven, .dec (.ok ⟨2, 0⟩), .dec (.ok ⟨2, 0⟩)] := by decide
example : runSchedule Profile.dev [] [.set 1 .down, .set 2 .up, .round 1 15 1 0, .round 2 15 1 0] =
    [.none, .none, .dec (.ok ⟨1, 0⟩), .dec (.ok ⟨2, 0⟩)] := by decide

/-! ### translated kernels
`RoundingMode::default()` and `RoundingMode::set_default(mode)` as re-translated from rounding.rs on this run by
`tools/fpkernels.py`: the access pattern `DFLT_ROUNDING_MODE.with(|m| *m.borrow())` reads the calling thread's cell (the explicit
parameter `cell`), `… .with(|m| *m.borrow_mut() = mode)` replaces its contents (returned).  With the storage class read from the
source (`storage_is_thread_local`) the cell of thread `t` is `cellOf t`; these ties say that the two functions are exactly the
`default` / `setDefault` of the world the schedule theorems are about, and that `round_quot` consults the mode through them. -/
theorem kernel_rounding_mode_default (prof : Profile) (w : World) (t : Nat) :
    Gen.K.rounding_mode_default prof (w.read (cellOf t)) = .ok (w.default t) := rfl
theorem kernel_rounding_mode_set_default (prof : Profile) (w : World) (t : Nat) (m : Mode) :
    Gen.K.rounding_mode_set_default prof (w.read (cellOf t)) m = .ok ((w.setDefault t m).default t) := by
  rw [default_setDefault, if_pos rfl]; rfl
/-- writing thread `t`'s cell leaves the cell every other thread reads unchanged -/
theorem kernel_set_default_other (w : World) (t t' : Nat) (m : Mode) (h : t' ≠ t) :
    (w.setDefault t m).default t' = w.default t' := by
  rw [default_setDefault, if_neg h]
/-- the rounding kernel with `mode = None` uses the value `default()` returns on the calling thread -/
theorem kernel_round_quot_uses_default (prof : Profile) (w : World) (t : Nat) (quot : Int) (rem divisor : Nat)
    (hq : fitsI128 quot = true) :
    Gen.K.round_quot prof (w.default t) quot rem divisor none = .ok (roundQuot (w.default t) quot rem divisor none) :=
  Kernels.round_quot_eq prof (w.default t) quot rem divisor none hq

end Fpdec.Props.C19
