import Fpdec.Lemmas.Dom
import Fpdec.Props.C19_Sites

/-! # C19 — property theorems (under construction: see DESIGN.md section 6) -/

namespace Fpdec.Props.C19
open Fpdec Fpdec.Model

end Fpdec.Props.C19
