import Fpdec.Gen.Sites
import Fpdec.Model.Pinned

/-! Site ties for C11 (written by tools/mksites.py): the flavour skeleton of every source file the property's operations
execute, as regenerated from /repo on this run, equals the skeleton the model was written against. -/

namespace Fpdec.Props.C11

theorem tie_sites_fpdec_core_src_lib : Gen.sites_fpdec_core_src_lib = Pinned.sites_fpdec_core_src_lib := by decide +kernel
theorem tie_sites_fpdec_core_src_powers_of_ten : Gen.sites_fpdec_core_src_powers_of_ten = Pinned.sites_fpdec_core_src_powers_of_ten := by decide +kernel
theorem tie_sites_fpdec_core_src_rounding : Gen.sites_fpdec_core_src_rounding = Pinned.sites_fpdec_core_src_rounding := by decide +kernel
theorem tie_sites_src_lib : Gen.sites_src_lib = Pinned.sites_src_lib := by decide +kernel
theorem tie_sites_src_format : Gen.sites_src_format = Pinned.sites_src_format := by decide +kernel

end Fpdec.Props.C11
