import Fpdec.Spec.Text
import Fpdec.Model.Parser

/-! # SWAR lemmas of the parser (helper file for `Fpdec.Lemmas.Parse`) -/

namespace Fpdec.ParseAux
open Fpdec Fpdec.Model

/-! ## bit operations split at a power of two -/

theorem and_split (k a b : Nat) :
    a &&& b = (a % 2 ^ k &&& b % 2 ^ k) + 2 ^ k * (a / 2 ^ k &&& b / 2 ^ k) := by
  have h := Nat.div_add_mod (a &&& b) (2 ^ k)
  rw [Nat.and_mod_two_pow, ← Nat.shiftRight_eq_div_pow, Nat.shiftRight_and_distrib,
    Nat.shiftRight_eq_div_pow, Nat.shiftRight_eq_div_pow] at h
  omega

theorem or_split (k a b : Nat) :
    a ||| b = (a % 2 ^ k ||| b % 2 ^ k) + 2 ^ k * (a / 2 ^ k ||| b / 2 ^ k) := by
  have h := Nat.div_add_mod (a ||| b) (2 ^ k)
  rw [Nat.or_mod_two_pow, ← Nat.shiftRight_eq_div_pow, Nat.shiftRight_or_distrib,
    Nat.shiftRight_eq_div_pow, Nat.shiftRight_eq_div_pow] at h
  omega

/-- the test `(x ||| y) &&& h = 0` splits at byte 0 -/
theorem test_split (x y h : Nat) :
    ((x ||| y) &&& h = 0) ↔
      (((x % 256 ||| y % 256) &&& h % 256 = 0) ∧ ((x / 256 ||| y / 256) &&& h / 256 = 0)) := by
  have e : (256 : Nat) = 2 ^ 8 := by decide
  have h1 := and_split 8 (x ||| y) h
  have h2 : (x ||| y) % 2 ^ 8 = x % 2 ^ 8 ||| y % 2 ^ 8 := Nat.or_mod_two_pow
  have h3 : (x ||| y) / 2 ^ 8 = x / 2 ^ 8 ||| y / 2 ^ 8 := by
    rw [← Nat.shiftRight_eq_div_pow, Nat.shiftRight_or_distrib, Nat.shiftRight_eq_div_pow,
      Nat.shiftRight_eq_div_pow]
  rw [h2, h3] at h1
  rw [e]
  constructor
  · intro h0; rw [h0] at h1; omega
  · intro ⟨ha, hb⟩; rw [ha, hb] at h1; omega

/-! ## `chunk_contains_8_digits` -/

def rep (n b : Nat) : Nat := leBytes (List.replicate n b)

theorem rep_succ (n b : Nat) : rep (n + 1) b = b + 256 * rep n b := rfl

theorem rep_lt (n b : Nat) (hb : b < 256) : rep n b < 256 ^ n := by
  induction n with
  | zero => simp [rep, leBytes]
  | succ n ih => rw [rep_succ, Nat.pow_succ]; omega

theorem leBytes_lt (bs : List Nat) (hb : ∀ c ∈ bs, c < 256) : leBytes bs < 256 ^ bs.length := by
  induction bs with
  | nil => decide
  | cons b bs ih =>
    have h1 := hb b (by simp)
    have h2 := ih (fun c hc => hb c (by simp [hc]))
    simp only [leBytes, List.length_cons, Nat.pow_succ]; omega

theorem byte_test : ∀ b, b < 256 →
    ((((b + 256 - 48) % 256 ||| (b + 70) % 256) &&& 128 = 0) ↔ Spec.isDig b = true) := by
  decide +kernel

/-- n-byte version of the digit test -/
def test (n V : Nat) : Nat :=
  ((V + 256 ^ n - rep n 48) % 256 ^ n ||| (V + rep n 70) % 256 ^ n) &&& rep n 128

theorem test_iff (bs : List Nat) (hb : ∀ c ∈ bs, c < 256) :
    test bs.length (leBytes bs) = 0 ↔ ∀ c ∈ bs, Spec.isDig c = true := by
  induction bs with
  | nil => simp [test, rep, leBytes]
  | cons b bs ih =>
    have hb0 : b < 256 := hb b (by simp)
    have hbs : ∀ c ∈ bs, c < 256 := fun c hc => hb c (by simp [hc])
    have ih := ih hbs
    have hV := leBytes_lt bs hbs
    have hS := rep_lt bs.length 48 (by decide)
    have hA := rep_lt bs.length 70 (by decide)
    have hbt := byte_test b hb0
    unfold test at ih ⊢
    simp only [List.length_cons, leBytes, rep_succ, Nat.pow_succ]
    generalize leBytes bs = V at *
    generalize rep bs.length 48 = S at *
    generalize rep bs.length 70 = A at *
    generalize rep bs.length 128 = H at *
    generalize 256 ^ bs.length = P at *
    rw [test_split]
    have x0 : (b + 256 * V + P * 256 - (48 + 256 * S)) % (P * 256) % 256 = (b + 256 - 48) % 256 := by
      rw [Nat.mod_mul_left_mod]; omega
    have y0 : (b + 256 * V + (70 + 256 * A)) % (P * 256) % 256 = (b + 70) % 256 := by
      rw [Nat.mod_mul_left_mod]; omega
    have h0 : (128 + 256 * H) % 256 = 128 := by omega
    have h1 : (128 + 256 * H) / 256 = H := by omega
    rw [x0, y0, h0, h1, hbt]
    simp only [List.mem_cons, forall_eq_or_imp]
    constructor
    · intro ⟨hd, ht⟩
      refine ⟨hd, ?_⟩
      have hd' : 48 ≤ b ∧ b ≤ 57 := by simpa [Spec.isDig] using hd
      have x1 : (b + 256 * V + P * 256 - (48 + 256 * S)) % (P * 256) / 256 = (V + P - S) % P := by
        rw [Nat.mul_comm P 256, Nat.mod_mul_right_div_self]
        congr 1; omega
      have y1 : (b + 256 * V + (70 + 256 * A)) % (P * 256) / 256 = (V + A) % P := by
        rw [Nat.mul_comm P 256, Nat.mod_mul_right_div_self]
        congr 1; omega
      rw [x1, y1] at ht
      exact ih.mp ht
    · intro ⟨hd, ht⟩
      refine ⟨hd, ?_⟩
      have hd' : 48 ≤ b ∧ b ≤ 57 := by simpa [Spec.isDig] using hd
      have x1 : (b + 256 * V + P * 256 - (48 + 256 * S)) % (P * 256) / 256 = (V + P - S) % P := by
        rw [Nat.mul_comm P 256, Nat.mod_mul_right_div_self]
        congr 1; omega
      have y1 : (b + 256 * V + (70 + 256 * A)) % (P * 256) / 256 = (V + A) % P := by
        rw [Nat.mul_comm P 256, Nat.mod_mul_right_div_self]
        congr 1; omega
      rw [x1, y1]
      exact ih.mpr ht

theorem contains8_iff (bs : List Nat) (hlen : bs.length = 8) (hb : ∀ c ∈ bs, c < 256) :
    chunkContains8Digits (leBytes bs) = true ↔ ∀ c ∈ bs, Spec.isDig c = true := by
  rw [← test_iff bs hb, hlen]
  have e1 : rep 8 48 = Gen.SWAR_SUB := by decide
  have e2 : rep 8 70 = Gen.SWAR_ADD := by decide
  have e3 : rep 8 128 = Gen.SWAR_HI := by decide
  have e4 : (256 : Nat) ^ 8 = U64M := by decide
  have e5 : Gen.SWAR_SUB % U64M = Gen.SWAR_SUB := by decide
  unfold chunkContains8Digits test wsub64 wadd64
  rw [e1, e2, e3, e4, e5]
  simp

/-! ## `chunk_to_u64` -/

def fields (K : Nat) : List Nat → Nat
  | [] => 0
  | f :: fs => f + K * fields K fs

theorem fields_and (w : Nat) : ∀ fs ms : List Nat, fs.length = ms.length →
    (∀ f ∈ fs, f < 2 ^ w) → (∀ m ∈ ms, m < 2 ^ w) →
    fields (2 ^ w) fs &&& fields (2 ^ w) ms = fields (2 ^ w) (List.zipWith (· &&& ·) fs ms) := by
  intro fs
  induction fs with
  | nil => intro ms _ _ _; simp [fields]
  | cons f fs ih =>
    intro ms hl hf hm
    cases ms with
    | nil => simp at hl
    | cons m ms =>
      have hf0 : f < 2 ^ w := hf f (by simp)
      have hm0 : m < 2 ^ w := hm m (by simp)
      have ih := ih ms (by simpa using hl) (fun x hx => hf x (by simp [hx])) (fun x hx => hm x (by simp [hx]))
      have hp : 0 < 2 ^ w := Nat.pos_of_ne_zero (by simp)
      simp only [fields, List.zipWith_cons_cons]
      rw [and_split w, Nat.add_mul_mod_self_left, Nat.add_mul_mod_self_left,
        Nat.mod_eq_of_lt hf0, Nat.mod_eq_of_lt hm0, Nat.add_mul_div_left _ _ hp,
        Nat.add_mul_div_left _ _ hp, Nat.div_eq_of_lt hf0, Nat.div_eq_of_lt hm0, Nat.zero_add,
        Nat.zero_add, ih]

theorem leBytes_eq_fields (bs : List Nat) : leBytes bs = fields (2 ^ 8) bs := by
  induction bs with
  | nil => rfl
  | cons b bs ih => simp only [leBytes, fields, ih]

theorem dig_and15 : ∀ b, b < 256 → Spec.isDig b = true → b &&& 15 = b - 48 := by decide +kernel

theorem and_low (x n : Nat) (h : x < 2 ^ n) : x &&& (2 ^ n - 1) = x := by
  rw [Nat.and_two_pow_sub_one_eq_mod, Nat.mod_eq_of_lt h]

theorem and15 (x : Nat) (h : x < 16) : x &&& 15 = x := and_low x 4 h
theorem and127 (x : Nat) (h : x < 128) : x &&& 127 = x := and_low x 7 h
theorem and16383 (x : Nat) (h : x < 16384) : x &&& 16383 = x := and_low x 14 h

theorem toU64_core (d0 d1 d2 d3 d4 d5 d6 d7 : Nat)
    (h0 : d0 ≤ 9) (h1 : d1 ≤ 9) (h2 : d2 ≤ 9) (h3 : d3 ≤ 9) (h4 : d4 ≤ 9) (h5 : d5 ≤ 9)
    (h6 : d6 ≤ 9) (h7 : d7 ≤ 9) (c1 : Nat) (hc1 : c1 = fields (2 ^ 8) [d0, d1, d2, d3, d4, d5, d6, d7]) :
    let c2 := wadd64 (wmul64 (c1 &&& Gen.SWAR_M2) 10) ((c1 >>> 8) &&& Gen.SWAR_M2)
    let c3 := wadd64 (wmul64 (c2 &&& Gen.SWAR_M3) 100) ((c2 >>> 16) &&& Gen.SWAR_M3)
    wadd64 (wmul64 (c3 &&& Gen.SWAR_M4) 10000) ((c3 >>> 32) &&& Gen.SWAR_M4) =
      ((((((d0 * 10 + d1) * 10 + d2) * 10 + d3) * 10 + d4) * 10 + d5) * 10 + d6) * 10 + d7 := by
  intro c2 c3
  -- step 1
  have hm2 : Gen.SWAR_M2 = fields (2 ^ 8) [15, 0, 15, 0, 15, 0, 15, 0] := by decide
  have a1 : c1 &&& Gen.SWAR_M2 = fields (2 ^ 8) [d0, 0, d2, 0, d4, 0, d6, 0] := by
    rw [hc1, hm2, fields_and 8]
    · simp only [List.zipWith_cons_cons, List.zipWith_nil_right, Nat.and_zero]
      rw [and15 d0 (by omega), and15 d2 (by omega), and15 d4 (by omega), and15 d6 (by omega)]
    · rfl
    · intro f hf; simp at hf; omega
    · intro f hf; simp at hf; omega
  have sh1 : c1 >>> 8 = fields (2 ^ 8) [d1, d2, d3, d4, d5, d6, d7, 0] := by
    rw [hc1, Nat.shiftRight_eq_div_pow]; simp only [fields]; omega
  have b1 : (c1 >>> 8) &&& Gen.SWAR_M2 = fields (2 ^ 8) [d1, 0, d3, 0, d5, 0, d7, 0] := by
    rw [sh1, hm2, fields_and 8]
    · simp only [List.zipWith_cons_cons, List.zipWith_nil_right, Nat.and_zero]
      rw [and15 d1 (by omega), and15 d3 (by omega), and15 d5 (by omega), and15 d7 (by omega)]
    · rfl
    · intro f hf; simp at hf; omega
    · intro f hf; simp at hf; omega
  have e2 : c2 = fields (2 ^ 16) [d0 * 10 + d1, d2 * 10 + d3, d4 * 10 + d5, d6 * 10 + d7] := by
    show wadd64 (wmul64 (c1 &&& Gen.SWAR_M2) 10) ((c1 >>> 8) &&& Gen.SWAR_M2) = _
    rw [a1, b1]; unfold wadd64 wmul64 U64M; simp only [fields]; omega
  -- step 2
  have hm3 : Gen.SWAR_M3 = fields (2 ^ 16) [127, 0, 127, 0] := by decide
  have a2 : c2 &&& Gen.SWAR_M3 = fields (2 ^ 16) [d0 * 10 + d1, 0, d4 * 10 + d5, 0] := by
    rw [e2, hm3, fields_and 16]
    · simp only [List.zipWith_cons_cons, List.zipWith_nil_right, Nat.and_zero]
      rw [and127 (d0 * 10 + d1) (by omega), and127 (d4 * 10 + d5) (by omega)]
    · rfl
    · intro f hf; simp at hf; omega
    · intro f hf; simp at hf; omega
  have sh2 : c2 >>> 16 = fields (2 ^ 16) [d2 * 10 + d3, d4 * 10 + d5, d6 * 10 + d7, 0] := by
    rw [e2, Nat.shiftRight_eq_div_pow]; simp only [fields]; omega
  have b2 : (c2 >>> 16) &&& Gen.SWAR_M3 = fields (2 ^ 16) [d2 * 10 + d3, 0, d6 * 10 + d7, 0] := by
    rw [sh2, hm3, fields_and 16]
    · simp only [List.zipWith_cons_cons, List.zipWith_nil_right, Nat.and_zero]
      rw [and127 (d2 * 10 + d3) (by omega), and127 (d6 * 10 + d7) (by omega)]
    · rfl
    · intro f hf; simp at hf; omega
    · intro f hf; simp at hf; omega
  have e3 : c3 = fields (2 ^ 32) [(d0 * 10 + d1) * 100 + (d2 * 10 + d3), (d4 * 10 + d5) * 100 + (d6 * 10 + d7)] := by
    show wadd64 (wmul64 (c2 &&& Gen.SWAR_M3) 100) ((c2 >>> 16) &&& Gen.SWAR_M3) = _
    rw [a2, b2]; unfold wadd64 wmul64 U64M; simp only [fields]; omega
  -- step 3
  have hm4 : Gen.SWAR_M4 = fields (2 ^ 32) [16383, 0] := by decide
  have a3 : c3 &&& Gen.SWAR_M4 = fields (2 ^ 32) [(d0 * 10 + d1) * 100 + (d2 * 10 + d3), 0] := by
    rw [e3, hm4, fields_and 32]
    · simp only [List.zipWith_cons_cons, List.zipWith_nil_right, Nat.and_zero]
      rw [and16383 _ (by omega)]
    · rfl
    · intro f hf; simp at hf; omega
    · intro f hf; simp at hf; omega
  have sh3 : c3 >>> 32 = fields (2 ^ 32) [(d4 * 10 + d5) * 100 + (d6 * 10 + d7), 0] := by
    rw [e3, Nat.shiftRight_eq_div_pow]; simp only [fields]; omega
  have b3 : (c3 >>> 32) &&& Gen.SWAR_M4 = fields (2 ^ 32) [(d4 * 10 + d5) * 100 + (d6 * 10 + d7), 0] := by
    rw [sh3, hm4, fields_and 32]
    · simp only [List.zipWith_cons_cons, List.zipWith_nil_right, Nat.and_zero]
      rw [and16383 _ (by omega)]
    · rfl
    · intro f hf; simp at hf; omega
    · intro f hf; simp at hf; omega
  rw [a3, b3]; unfold wadd64 wmul64 U64M; simp only [fields]; omega

theorem toU64_8 (b0 b1 b2 b3 b4 b5 b6 b7 : Nat)
    (h0 : Spec.isDig b0 = true) (h1 : Spec.isDig b1 = true) (h2 : Spec.isDig b2 = true)
    (h3 : Spec.isDig b3 = true) (h4 : Spec.isDig b4 = true) (h5 : Spec.isDig b5 = true)
    (h6 : Spec.isDig b6 = true) (h7 : Spec.isDig b7 = true) :
    chunkToU64 (leBytes [b0, b1, b2, b3, b4, b5, b6, b7]) =
      Spec.digitsVal [b0, b1, b2, b3, b4, b5, b6, b7] := by
  have r0 : 48 ≤ b0 ∧ b0 ≤ 57 := by simpa [Spec.isDig] using h0
  have r1 : 48 ≤ b1 ∧ b1 ≤ 57 := by simpa [Spec.isDig] using h1
  have r2 : 48 ≤ b2 ∧ b2 ≤ 57 := by simpa [Spec.isDig] using h2
  have r3 : 48 ≤ b3 ∧ b3 ≤ 57 := by simpa [Spec.isDig] using h3
  have r4 : 48 ≤ b4 ∧ b4 ≤ 57 := by simpa [Spec.isDig] using h4
  have r5 : 48 ≤ b5 ∧ b5 ≤ 57 := by simpa [Spec.isDig] using h5
  have r6 : 48 ≤ b6 ∧ b6 ≤ 57 := by simpa [Spec.isDig] using h6
  have r7 : 48 ≤ b7 ∧ b7 ≤ 57 := by simpa [Spec.isDig] using h7
  -- step 0: mask the low nibbles
  have s0 : leBytes [b0, b1, b2, b3, b4, b5, b6, b7] &&& Gen.SWAR_M1 =
      fields (2 ^ 8) [b0 - 48, b1 - 48, b2 - 48, b3 - 48, b4 - 48, b5 - 48, b6 - 48, b7 - 48] := by
    have hm : Gen.SWAR_M1 = fields (2 ^ 8) [15, 15, 15, 15, 15, 15, 15, 15] := by decide
    rw [leBytes_eq_fields, hm, fields_and 8]
    · simp only [List.zipWith_cons_cons, List.zipWith_nil_right]
      rw [dig_and15 b0 (by omega) h0, dig_and15 b1 (by omega) h1, dig_and15 b2 (by omega) h2,
        dig_and15 b3 (by omega) h3, dig_and15 b4 (by omega) h4, dig_and15 b5 (by omega) h5,
        dig_and15 b6 (by omega) h6, dig_and15 b7 (by omega) h7]
    · rfl
    · intro f hf; simp at hf; omega
    · intro f hf; simp at hf; omega
  have hcore := toU64_core (b0 - 48) (b1 - 48) (b2 - 48) (b3 - 48) (b4 - 48) (b5 - 48) (b6 - 48) (b7 - 48)
    (by omega) (by omega) (by omega) (by omega) (by omega) (by omega) (by omega) (by omega) _ s0
  unfold chunkToU64
  simp only at hcore ⊢
  rw [hcore]
  simp [Spec.digitsVal]

theorem toU64_val (bs : List Nat) (hlen : bs.length = 8) (hd : ∀ c ∈ bs, Spec.isDig c = true) :
    chunkToU64 (leBytes bs) = Spec.digitsVal bs := by
  match bs, hlen with
  | [b0, b1, b2, b3, b4, b5, b6, b7], _ =>
    exact toU64_8 b0 b1 b2 b3 b4 b5 b6 b7 (hd _ (by simp)) (hd _ (by simp)) (hd _ (by simp))
      (hd _ (by simp)) (hd _ (by simp)) (hd _ (by simp)) (hd _ (by simp)) (hd _ (by simp))

end Fpdec.ParseAux
