import Fpdec.Prim

/-! # Small-width integer helpers (`i8`, `u8`, `isize`, casts) -/

namespace Fpdec

theorem i8_cast_id {x : Int} (h0 : -128 ≤ x) (h1 : x ≤ 127) : IntTy.i8.cast x = x := by
  unfold IntTy.cast IntTy.wrap IntTy.i8
  simp only [if_true]
  have e1 : (2 : Int) ^ (8 - 1) = 128 := by decide
  have e2 : (2 : Int) ^ 8 = 256 := by decide
  rw [e1, e2]; omega

theorem u8_cast_id {x : Int} (h0 : 0 ≤ x) (h1 : x ≤ 255) : IntTy.u8.cast x = x := by
  unfold IntTy.cast IntTy.wrap IntTy.u8
  simp only [Bool.false_eq_true, if_false]
  have e2 : (2 : Int) ^ 8 = 256 := by decide
  rw [e2]; omega

theorem i8_fits {x : Int} (h0 : -128 ≤ x) (h1 : x ≤ 127) : IntTy.i8.fits x = true := by
  unfold IntTy.fits IntTy.min IntTy.max IntTy.i8
  have e1 : (2 : Int) ^ (8 - 1) = 128 := by decide
  simp only [if_true, e1]
  simp; omega

theorem i8_plain_ok (prof : Profile) {x : Int} (h0 : -128 ≤ x) (h1 : x ≤ 127) :
    IntTy.i8.plain prof x = .ok x := by
  unfold IntTy.plain; rw [i8_fits h0 h1]; rfl

theorem plainU8_ok (prof : Profile) {x : Int} (h0 : 0 ≤ x) (h1 : x ≤ 255) : plainU8 prof x = .ok x.toNat := by
  unfold plainU8
  have : 0 ≤ x ∧ x < 256 := by omega
  simp [this]

end Fpdec
