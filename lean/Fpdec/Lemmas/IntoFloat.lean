import Fpdec.Lemmas.Dom
import Fpdec.Lemmas.IntoFloatArith
import Fpdec.Lemmas.IntoFloatNearest
import Fpdec.Spec.Float
import Fpdec.Model.Float

/-!
# C12 — Decimal → f64 / f32 is correctly rounded

Model: `fromDecimal`, `intoFloat`, `shlU128`, `nSignifBits` in Fpdec/Model/Float.lean mirroring /repo/src/into_float.rs
(`Float::from_decimal`): shift numerator/denominator so that the integer quotient has `add_bits` or `add_bits + 1`
(= fraction bits + 3 extra, +1) significant bits, take 2 or 3 guard bits plus a sticky bit from the remainder, compare with TIE,
add the increment to the assembled bits (a carry may ripple into the exponent field).
Spec: `Spec.rneBits` / `Spec.intoFloat` in Fpdec/Spec/Float.lean: exponent from the definition, significand by half-even rounding
of the exact quotient.  `leadingZeros` is in Prim.lean (`128 - log2 - 1`).  The integer-valued branch (`d.coeff as f64`) is
*assumed* round-to-nearest-even and modelled by the spec function itself, so it is trivial.

The pure arithmetic (quotient range, guard/sticky lemma, exponent lemma, carry assembly) is in `Fpdec.Lemmas.IntoFloatArith`.
Note that *either* the numerator *or* the denominator is shifted (the denominator when `|coeff|` has more than
`add_bits` bits more than `10^p`); the proof treats both uniformly through `num.log2 + s = den.log2 + t + add_bits`.
-/

namespace Fpdec
open Fpdec.Model Fpdec.FloatArith

/-! ## the fixed-width steps do not overflow -/

theorem plainU128_ok (prof : Profile) {x : Int} (h0 : 0 ≤ x) (h1 : x < 340282366920938463463374607431768211456) :
    plainU128 prof x = .ok x.toNat := by
  unfold plainU128
  rw [if_pos ⟨h0, h1⟩]

theorem shlU128_ok (prof : Profile) (x s : Nat) (hs : s < 128)
    (hx : x * 2 ^ s < 340282366920938463463374607431768211456) :
    shlU128 prof x s = .ok (x * 2 ^ s) := by
  unfold shlU128 wrapU128
  rw [if_neg (by omega), Nat.shiftLeft_eq, Nat.mod_eq_of_lt hx]

theorem i32_plain_ok (prof : Profile) {x : Int} (h0 : -2147483648 ≤ x) (h1 : x ≤ 2147483647) :
    IntTy.i32.plain prof x = .ok x := by
  have hf : IntTy.i32.fits x = true := by
    unfold IntTy.fits IntTy.min IntTy.max IntTy.i32
    have e1 : (2 : Int) ^ (32 - 1) = 2147483648 := by decide
    simp only [if_true, e1]
    simp; omega
  unfold IntTy.plain; rw [hf]; rfl

theorem u64_plain_ok (prof : Profile) {x : Int} (h0 : 0 ≤ x) (h1 : x < 18446744073709551616) :
    IntTy.u64.plain prof x = .ok x := by
  have hf : IntTy.u64.fits x = true := by
    unfold IntTy.fits IntTy.min IntTy.max IntTy.u64
    have e1 : (2 : Int) ^ 64 = 18446744073709551616 := by decide
    simp only [Bool.false_eq_true, if_false, e1]
    simp; omega
  unfold IntTy.plain; rw [hf]; rfl

theorem u64_cast_id {x : Int} (h0 : 0 ≤ x) (h1 : x < 18446744073709551616) : IntTy.u64.cast x = x := by
  unfold IntTy.cast IntTy.wrap IntTy.u64
  simp only [Bool.false_eq_true, if_false]
  have e2 : (2 : Int) ^ 64 = 18446744073709551616 := by decide
  rw [e2]; omega

theorem lz_eq {v : Nat} (h0 : v ≠ 0) (h : v.log2 ≤ 127) : leadingZeros 128 v = 127 - v.log2 := by
  unfold leadingZeros
  rw [if_neg h0]; omega

theorem nSignifBits_eq {q : Nat} (h0 : q ≠ 0) (h : q.log2 ≤ 127) : nSignifBits q = q.log2 + 1 := by
  unfold nSignifBits
  rw [lz_eq h0 h]; omega

/-! ## the generic theorem: any format whose fields are wide enough -/

theorem mask_lookup : ∀ adj, adj ≤ 1 → Gen.FLT_MASK_EXTRA_BITS[adj]? = some (2 ^ (3 - adj) - 1) := by
  intro adj h
  have : adj = 0 ∨ adj = 1 := by omega
  rcases this with rfl | rfl <;> rfl

/-- `Float::from_decimal` for a format with at most 60 fraction bits, a bias in `62 ..= 100000`, at most 64 bits, and whose
    exponent field holds `bias + 123` (all of which `f64` and `f32` satisfy) -/
theorem fromDecimal_gen (prof : Profile) (f : Spec.FloatFmt) (d : Dec) (hd : Dom d) (hp : 0 < d.nfrac) (ha : d.coeff ≠ 0)
   (hfb : f.fracBits ≤ 60) (hb0 : 62 ≤ f.bias) (hb1 : f.bias ≤ 100000) (hbits : f.bits ≤ 64)
   (hrange : 2^(f.fracBits+1) + (f.bias + 122).toNat * 2^f.fracBits < 2^(f.bits - 1)) :
   fromDecimal prof f d = .ok (Spec.intoFloat f d.coeff d.nfrac) := by
  obtain ⟨c, p⟩ := d
  unfold Dom I128_MIN I128_MAX at hd
  simp only at hd hp ha ⊢
  have hnum0 : c.natAbs ≠ 0 := by omega
  have hnum1 : c.natAbs < 2 ^ 127 := by
    have : (2:Nat) ^ 127 = 170141183460469231731687303715884105728 := by decide
    omega
  have hden0 : (10:Nat) ^ 1 ≤ 10 ^ p := Nat.pow_le_pow_right (by decide) hp
  have hden1 : (10:Nat) ^ p ≤ 10 ^ 18 := Nat.pow_le_pow_right (by decide) hd.2.2
  have hdenI : ((10 : Int) ^ p) = (((10:Nat) ^ p : Nat) : Int) := by norm_cast
  generalize hnum : c.natAbs = num at *
  generalize hden : (10:Nat) ^ p = den at *
  have hden0' : den ≠ 0 := by omega
  have hln : num.log2 ≤ 126 := by
    have := (Nat.log2_lt (k := 127) hnum0).2 hnum1; omega
  have hld0 : 3 ≤ den.log2 := (Nat.le_log2 hden0').2 (by omega)
  have hld1 : den.log2 ≤ 59 := by
    have := (Nat.log2_lt (k := 60) hden0').2 (by omega); omega
  unfold fromDecimal
  dsimp only
  rw [hnum, hdenI, plainU128_ok prof (by omega) (by omega)]
  simp only [Outcome.bind_ok, Int.toNat_natCast]
  rw [lz_eq hnum0 (by omega), lz_eq hden0' (by omega)]
  have hE : Gen.FLT_EXTRA_BITS = 3 := rfl
  have hT : Gen.FLT_TIE = 4 := rfl
  rw [hE, hT]
  generalize hfbd : f.fracBits = fb at *
  generalize hs : 127 - num.log2 + (fb + 3) - (127 - den.log2) = s
  generalize ht : 127 - den.log2 - (127 - num.log2) - (fb + 3) = t
  have hst : num.log2 + s = den.log2 + t + (fb + 3) := by omega
  have hNlog : (num * 2 ^ s).log2 = num.log2 + s := log2_mul_two_pow hnum0 s
  have hDlog : (den * 2 ^ t).log2 = den.log2 + t := log2_mul_two_pow hden0' t
  have hN0 : num * 2 ^ s ≠ 0 := Nat.mul_ne_zero hnum0 (Nat.ne_of_gt (Nat.two_pow_pos s))
  have hD0 : den * 2 ^ t ≠ 0 := Nat.mul_ne_zero hden0' (Nat.ne_of_gt (Nat.two_pow_pos t))
  have h128 : (2:Nat) ^ 128 = 340282366920938463463374607431768211456 := by decide
  have hN1 : num * 2 ^ s < 340282366920938463463374607431768211456 := by
    rw [← h128, ← Nat.log2_lt hN0, hNlog]; omega
  have hD1 : den * 2 ^ t < 340282366920938463463374607431768211456 := by
    rw [← h128, ← Nat.log2_lt hD0, hDlog]; omega
  rw [shlU128_ok prof num s (by omega) hN1]
  simp only [Outcome.bind_ok]
  rw [shlU128_ok prof den t (by omega) hD1]
  simp only [Outcome.bind_ok]
  rw [if_neg hD0]
  -- facts about the shifted operands
  obtain ⟨hq0, hq1⟩ := quot_range (add := fb + 3) hN0 hD0 (by omega) (by rw [hNlog, hDlog]; omega)
  have hfl := floorLog2Ratio_eq num den s t (fb + 3) hden0' hst
  have hrs : ∀ k : Nat, Spec.rhe (num * 2 ^ s) (den * 2 ^ t * 2 ^ k) =
      if ((t + k : Nat) : Int) - s ≥ 0 then Spec.rhe num (den * 2 ^ (((t + k : Nat) : Int) - s).toNat)
      else Spec.rhe (num * 2 ^ (-(((t + k : Nat) : Int) - s)).toNat) den := fun k => by
    rw [Nat.mul_assoc, ← Nat.pow_add]; exact rhe_shift num den s (t + k)
  have hg := fun adj h => guard_ex (num * 2 ^ s) (den * 2 ^ t) adj (Nat.pos_of_ne_zero hD0) h
  generalize num * 2 ^ s = N at *
  generalize den * 2 ^ t = D at *
  have hqn0 : N / D ≠ 0 := by have := Nat.two_pow_pos (fb + 3 - 1); omega
  have h64 : N / D < 2 ^ 64 := Nat.lt_of_lt_of_le hq1 (Nat.pow_le_pow_right (by decide) (by omega))
  have hqlog : (N / D).log2 ≤ 127 := by have := (Nat.log2_lt hqn0).2 h64; omega
  have hadj_iff : ((N / D).log2 + 1 = fb + 3) ↔ N / D < 2 ^ (fb + 3) := by
    constructor
    · intro h; exact (Nat.log2_lt hqn0).1 (by omega)
    · intro h; have h1 := (Nat.log2_lt hqn0).2 h; have h2 := (Nat.le_log2 hqn0).2 hq0; omega
  simp only [nSignifBits_eq hqn0 hqlog, hadj_iff]
  have hq_adj : 2 ^ (fb + 3 - (if N / D < 2 ^ (fb + 3) then 1 else 0)) ≤ N / D ∧
      N / D < 2 ^ (fb + 4 - (if N / D < 2 ^ (fb + 3) then 1 else 0)) := by
    split
    · exact ⟨hq0, by assumption⟩
    · rename_i h
      exact ⟨by rw [Nat.sub_zero]; omega, hq1⟩
  generalize hadj : (if N / D < 2 ^ (fb + 3) then 1 else 0) = adj at *
  have hadj1 : adj ≤ 1 := by rw [← hadj]; split <;> omega
  rw [mask_lookup adj hadj1]
  dsimp only
  have he0 : ((127 - den.log2 : Nat) : Int) - ((127 - num.log2 : Nat) : Int) = (num.log2 : Int) - den.log2 := by omega
  rw [he0, i32_plain_ok prof (by omega) (by omega)]
  simp only [Outcome.bind_ok]
  rw [i32_plain_ok prof (by omega) (by omega)]
  simp only [Outcome.bind_ok]
  rw [i32_plain_ok prof (by omega) (by omega)]
  simp only [Outcome.bind_ok]
  rw [i32_plain_ok prof (by omega) (by omega)]
  simp only [Outcome.bind_ok]
  generalize hE1 : f.bias + ((num.log2 : Int) - den.log2 - adj) - 1 = E1
  have hE1a : 1 ≤ E1 := by omega
  have hE1b : E1 ≤ f.bias + 122 := by omega
  rw [u64_cast_id (by omega) (by omega)]
  have hsig : (N / D) >>> (3 - adj) % 2 ^ 64 = N / D / 2 ^ (3 - adj) := by
    rw [Nat.shiftRight_eq_div_pow]
    exact Nat.mod_eq_of_lt (Nat.lt_of_le_of_lt (Nat.div_le_self _ _) h64)
  simp only [hsig]
  obtain ⟨inc, hinc1, hinc, hgg⟩ := hg adj hadj1
  rw [hinc]
  have hsg0 : 2 ^ fb ≤ N / D / 2 ^ (3 - adj) := by
    rw [Nat.le_div_iff_mul_le (Nat.two_pow_pos _), ← Nat.pow_add]
    have : fb + (3 - adj) = fb + 3 - adj := by omega
    rw [this]; exact hq_adj.1
  have hsg1 : N / D / 2 ^ (3 - adj) < 2 ^ (fb + 1) := by
    rw [Nat.div_lt_iff_lt_mul (Nat.two_pow_pos _), ← Nat.pow_add]
    have : fb + 1 + (3 - adj) = fb + 4 - adj := by omega
    rw [this]; exact hq_adj.2
  clear hsig hinc
  generalize N / D / 2 ^ (3 - adj) = signif at *
  have hEle : E1.toNat * 2 ^ fb ≤ (f.bias + 122).toNat * 2 ^ fb := Nat.mul_le_mul_right _ (by omega)
  have h63 : 2 ^ (f.bits - 1) ≤ 2 ^ 63 := Nat.pow_le_pow_right (by decide) (by omega)
  have hP : 2 ^ (fb + 1) = 2 * 2 ^ fb := by rw [Nat.pow_succ]; omega
  have hhi : E1.toNat <<< fb % 2 ^ 64 = E1.toNat * 2 ^ fb := by
    rw [Nat.shiftLeft_eq]; exact Nat.mod_eq_of_lt (by omega)
  rw [hhi]
  have hHb : 2 * 2 ^ fb + E1.toNat * 2 ^ fb < 2 ^ (f.bits - 1) := by omega
  generalize hH : E1.toNat * 2 ^ fb = H at *
  rw [u64_plain_ok prof (by omega) (by omega)]
  simp only [Outcome.bind_ok]
  rw [u64_plain_ok prof (by omega) (by omega)]
  simp only [Outcome.bind_ok, Outcome.pure_eq]
  have hB : ((signif : Int) + H + inc).toNat = signif + inc + H := by omega
  rw [hB]
  subst hfbd
  have hr : Spec.rneBits f num den = signif + inc + H := by
    have hm := hrs (3 - adj)
    have hsh : (((t + (3 - adj) : Nat) : Int) - s) =
        ((num.log2 : Int) - den.log2 - adj) - (f.fracBits : Int) := by omega
    rw [hsh, ← hgg] at hm
    rw [rneBits_eq f num den _ _ hfl hm.symm]
    have hasm := assemble f.fracBits ((num.log2 : Int) - den.log2 - adj + f.bias) (signif + inc)
      (by omega) (by omega) (by omega)
    have hE1' : (num.log2 : Int) - den.log2 - adj + f.bias - 1 = E1 := by omega
    rw [hE1', Nat.shiftLeft_eq E1.toNat, hH] at hasm
    exact hasm
  unfold Spec.intoFloat
  rw [if_neg ha, hnum, hden, hr]
  congr 1
  apply Nat.mod_eq_of_lt
  have hb : f.bits - 1 + 1 = f.bits := by unfold Spec.FloatFmt.bits; omega
  rw [← hb]
  apply Nat.or_lt_two_pow
  · rw [Nat.pow_succ]; omega
  · split
    · rw [Nat.one_shiftLeft]; exact Nat.pow_lt_pow_right (by decide) (by omega)
    · rw [Nat.zero_shiftLeft]; exact Nat.two_pow_pos _

/-! ## the two formats -/

/-- `Float::from_decimal` for a non-zero coefficient with at least one fractional digit: the nearest float, ties to even -/
theorem fromDecimal_spec (prof : Profile) (f : Spec.FloatFmt) (hf : f = Spec.FloatFmt.f64 ∨ f = Spec.FloatFmt.f32)
    (d : Dec) (hd : Dom d) (hp : 0 < d.nfrac) (ha : d.coeff ≠ 0) :
    fromDecimal prof f d = .ok (Spec.intoFloat f d.coeff d.nfrac) := by
  rcases hf with rfl | rfl
  · exact fromDecimal_gen prof _ d hd hp ha (by decide) (by decide) (by decide) (by decide) (by decide)
  · exact fromDecimal_gen prof _ d hd hp ha (by decide) (by decide) (by decide) (by decide) (by decide)

/-- `f64::from(d)` / `f32::from(d)` for every Decimal of the domain, every profile -/
theorem intoFloat_spec (prof : Profile) (f : Spec.FloatFmt) (hf : f = Spec.FloatFmt.f64 ∨ f = Spec.FloatFmt.f32)
    (d : Dec) (hd : Dom d) :
    intoFloat prof f d = .ok (Spec.intoFloat f d.coeff d.nfrac) := by
  unfold intoFloat
  by_cases h : d.nfrac = 0 ∨ d.coeff = 0
  · rw [if_pos h]
    unfold i128AsFloat Spec.intoFloat
    by_cases hc : d.coeff = 0
    · rw [if_pos hc, if_pos hc]
    · rw [if_neg hc, if_neg hc]
      have hn : d.nfrac = 0 := by rcases h with h | h; exact h; exact absurd h hc
      rw [hn, Nat.pow_zero]
  · rw [if_neg h]
    exact fromDecimal_spec prof f hf d hd (by omega) (by omega)

/- SECONDARY goal (justification of the spec itself): proved in `Fpdec.Lemmas.IntoFloatNearest` as
   `Fpdec.rneBits_nearest` (any format with ≥ 1 fraction bit and ≥ 2 exponent bits, normal range
   `2^(1 - bias) ≤ num/den < 2^(bias+1)·(1 - 2^-(fracBits+2))`, cross-multiplied naturals) and
   `Fpdec.rneBits_nearest_dom` (its hypotheses hold for every non-zero coefficient of the domain over `10^p`, `p ≤ 18`,
   for f64 and f32). -/

end Fpdec
