import Fpdec.Lemmas.ParseFinal

/-! # `from_str` against `parseSpec`: assembling the pieces (helper file for `Fpdec.Lemmas.Parse`) -/

namespace Fpdec.ParseAux
open Fpdec Fpdec.Model

def sBody (neg : Bool) (t : List Nat) : Spec.ParseRes :=
  let ip := Spec.spanDigits t
  let fp := sFrac ip.2
  if ip.1.isEmpty ∧ fp.1.isEmpty then .bad else
  match sExp fp.2.1 with
  | none => .bad
  | some (e, rest) =>
    if !rest.isEmpty then .bad else sFinal neg (Spec.digitsVal (ip.1 ++ fp.1)) fp.1.length e

def mBody (prof : Profile) (isNeg : Bool) (s : List Nat) : Outcome (Except ParseErr (Int × Int)) :=
  if s.isEmpty then .ok (.error .invalid) else
  let s' := skipLeadingZeroes s
  if s'.isEmpty then .ok (.ok (0, 0)) else
  let r1 := accumCoeff 0 s'
  let r2 := mFrac r1.1 r1.2.1
  if r1.2.2 + r2.2.2 = 0 ∧ !decide (s'.length < s.length) then .ok (.error .invalid) else
  if (r2.1 : Int) > I128_MAX then .ok (.error .overflow) else
  mTail prof isNeg r2.1 r2.2.2 (mExp prof r2.2.1)

theorem parseSpec_eq' (s : List Nat) :
    Spec.parseSpec s = if s.isEmpty then .empty else sBody (Spec.optSign s).1 (Spec.optSign s).2 :=
  parseSpec_eq s

theorem strToDec_eq' (prof : Profile) (lit : List Nat) :
    strToDec prof lit =
      match takeSign lit with
      | none => .ok (.error .empty)
      | some (isNeg, s) => mBody prof isNeg s :=
  strToDec_eq prof lit

theorem sFinal_big (neg : Bool) (D : Nat) (f e : Int) (h : (D : Int) > I128_MAX) : sFinal neg D f e = .bad := by
  unfold I128_MAX at h
  unfold sFinal
  simp only [pow127]
  have h0 : D ≠ 0 := by omega
  have h1 : ¬ ((D : Int) ≤ 170141183460469231731687303715884105728 - 1) := by omega
  have h2 : ¬ (((D * 10 ^ (e - f).toNat : Nat) : Int) ≤ 170141183460469231731687303715884105728 - 1) := by
    have : 1 ≤ 10 ^ (e - f).toNat := Nat.one_le_pow _ _ (by decide)
    have : D ≤ D * 10 ^ (e - f).toNat := Nat.le_mul_of_pos_right _ this
    omega
  simp only [h0, h1, h2, if_false]
  split <;> split <;> rfl

theorem fTail_err (prof : Profile) (e : ParseErr) : fTail prof (.ok (.error e)) = .ok (.error e) := rfl

theorem mTail_err (prof : Profile) (isNeg : Bool) (D f : Nat) (e : ParseErr) :
    mTail prof isNeg D f (.ok (.error e)) = .ok (.error e) := rfl

theorem mTail_rest (prof : Profile) (isNeg : Bool) (D f : Nat) (E : Int) (rest : List Nat) (h : rest ≠ []) :
    mTail prof isNeg D f (.ok (.ok (E, rest))) = .ok (.error .invalid) := by
  unfold mTail
  cases rest with
  | nil => exact absurd rfl h
  | cons a b => simp

theorem fTail_zero (prof : Profile) : fTail prof (.ok (.ok (0, 0))) = .ok (.ok ⟨0, 0⟩) := by
  have hl := expLimit_eq
  have h := final_agree prof false 0 0 0 0 (by decide) (by decide)
    (by unfold expRel; rw [hl]; omega)
  rw [mTail_ok prof false 0 0 0 (by rw [hl]; omega) (by rw [hl]; omega) (by decide) (by decide) (by decide)] at h
  have e1 : sFinal false 0 ((0 : Nat) : Int) 0 = .ok 0 0 := by simp [sFinal]
  rw [e1] at h
  simp only [Bool.false_eq_true, if_false, Int.natCast_zero, Int.sub_zero] at h
  generalize fTail prof (.ok (.ok (0, 0))) = o at h ⊢
  match o, h with
  | .ok (.ok d), h => have : d = ⟨0, 0⟩ := h; rw [this]

theorem body_agree (prof : Profile) (neg : Bool) (t : List Nat) (hb : ∀ x ∈ t, x < 256)
    (hlen : t.length < 2 ^ 56) : agree (sBody neg t) (fTail prof (mBody prof neg t)) := by
  unfold sBody mBody
  by_cases ht : t.isEmpty = true
  · rw [List.isEmpty_iff] at ht; subst ht
    simp only [span_nil, sFrac, List.isEmpty_nil, and_self, if_true]
    exact agree_bad _ (by decide)
  · simp only [ht, Bool.false_eq_true, if_false]
    obtain ⟨n, hz, hzl⟩ := skip_spec t
    generalize hst : skipLeadingZeroes t = t' at *
    have hbt' : ∀ x ∈ t', x < 256 := fun x hx => hb x (by rw [hz]; simp [hx])
    have hsp : Spec.spanDigits t = (List.replicate n 48 ++ (Spec.spanDigits t').1, (Spec.spanDigits t').2) := by
      rw [hz]; exact span_prefix _ _ (zeros_digits n)
    rw [hsp]
    simp only
    by_cases ht' : t'.isEmpty = true
    · rw [List.isEmpty_iff] at ht'; subst ht'
      have hn : n ≠ 0 := by
        intro h0; subst h0; apply ht; rw [hz]; rfl
      have : ¬ ((List.replicate n 48).isEmpty = true) := by
        simp [hn]
      simp only [span_nil, sFrac, List.isEmpty_nil, this, false_and, if_false, if_true, sExp,
        Bool.not_true, Bool.false_eq_true, List.append_nil, digitsVal_zeros]
      rw [fTail_zero]
      have e1 : sFinal neg 0 (([] : List Nat).length : Int) 0 = .ok 0 0 := by simp [sFinal]
      rw [e1]; exact agree_ok 0 0
    · simp only [ht', Bool.false_eq_true, if_false]
      have hc1 := accumCoeff_gen 0 t' hbt'
      have hmin0 : Nat.min 0 M128 = 0 := by simp
      rw [hmin0] at hc1
      simp only [Nat.zero_mul, Nat.zero_add] at hc1
      rw [hc1]
      simp only
      have hbr1 : ∀ x ∈ (Spec.spanDigits t').2, x < 256 := by
        intro x hx; apply hbt'; rw [← span_append t']; simp [hx]
      rw [frac_spec _ _ hbr1]
      simp only
      have hl1 := span_length t'
      have hl2 := sFrac_length (Spec.spanDigits t').2
      generalize hip : (Spec.spanDigits t').1 = ip' at *
      generalize hr1 : (Spec.spanDigits t').2 = r1 at *
      generalize hfr : sFrac r1 = fr at *
      obtain ⟨fp, r2, hp⟩ := fr
      simp only at hl2 ⊢
      have hbr2 : ∀ x ∈ r2, x < 256 := by
        intro x hx
        have := sFrac_mem r1 x (by rw [hfr]; exact hx)
        exact hbr1 x this
      have hD : Spec.digitsVal (List.replicate n 48 ++ ip' ++ fp) =
          Spec.digitsVal ip' * 10 ^ fp.length + Spec.digitsVal fp := by
        rw [digitsVal_append, digitsVal_append, digitsVal_zeros]; simp
      rw [hD]
      generalize hDv : Spec.digitsVal ip' * 10 ^ fp.length + Spec.digitsVal fp = D
      have hfl : fp.length < 2 ^ 56 := by omega
      -- the "no digits" test
      by_cases hnd : (List.replicate n 48 ++ ip').isEmpty = true ∧ fp.isEmpty = true
      · have h1 : ip'.length + fp.length = 0 ∧ (!decide (t'.length < t.length)) = true := by
          obtain ⟨ha, hb'⟩ := hnd
          rw [List.isEmpty_iff] at ha hb'
          have hla := congrArg List.length ha
          have hlb := congrArg List.length hb'
          simp only [List.length_append, List.length_replicate, List.length_nil] at hla hlb
          refine ⟨by omega, ?_⟩
          have : ¬ t'.length < t.length := by omega
          simp [this]
        simp only [hnd, h1, and_self, if_true]
        exact agree_bad _ (by decide)
      · have h1 : ¬ (ip'.length + fp.length = 0 ∧ (!decide (t'.length < t.length)) = true) := by
          intro ⟨ha, hb'⟩
          apply hnd
          have hn0 : n = 0 := by
            simp at hb'; omega
          rw [List.isEmpty_iff, List.isEmpty_iff]
          constructor
          · apply List.length_eq_zero_iff.mp
            simp only [List.length_append, List.length_replicate]; omega
          · apply List.length_eq_zero_iff.mp; omega
        simp only [hnd, h1, if_false]
        by_cases hbig : (D : Int) > I128_MAX
        · have hmin : ((Nat.min D M128 : Nat) : Int) > I128_MAX := by
            unfold I128_MAX at hbig ⊢
            have : Nat.min D M128 = min D M128 := rfl
            rw [this]; unfold M128 U128_MOD
            omega
          simp only [hmin, if_true]
          rw [fTail_err]
          have hbad : (match sExp r2 with
              | none => Spec.ParseRes.bad
              | some (e, rest) => if (!rest.isEmpty) = true then Spec.ParseRes.bad
                  else sFinal neg D (fp.length : Int) e) = .bad := by
            split
            · rfl
            · rw [sFinal_big neg D _ _ hbig]; simp
          rw [hbad]
          exact agree_bad _ (by decide)
        · have hmin : Nat.min D M128 = D := by
            unfold I128_MAX at hbig
            have : Nat.min D M128 = min D M128 := rfl
            rw [this]; unfold M128 U128_MOD
            omega
          rw [hmin]
          simp only [hbig, if_false]
          have hex := mExp_spec prof r2 hbr2
          generalize hse : sExp r2 = se at hex ⊢
          cases se with
          | none =>
            simp only at hex ⊢
            rw [hex, mTail_err, fTail_err]
            exact agree_bad _ (by decide)
          | some p =>
            obtain ⟨e, rest⟩ := p
            simp only at hex ⊢
            rcases hex with ⟨hne, hm⟩ | ⟨E, hm, hrel⟩
            · have : (!rest.isEmpty) = true := by
                cases rest with
                | nil => exact absurd rfl hne
                | cons a b => rfl
              simp only [this, if_true]
              rw [hm, mTail_err, fTail_err]
              exact agree_bad _ (by decide)
            · rw [hm]
              cases rest with
              | nil =>
                simp only [List.isEmpty_nil, Bool.not_true, Bool.false_eq_true, if_false]
                exact final_agree prof neg D fp.length E e (by omega) hfl hrel
              | cons a b =>
                simp only [List.isEmpty_cons, Bool.not_false, if_true]
                rw [mTail_rest _ _ _ _ _ _ (by simp), fTail_err]
                exact agree_bad _ (by decide)

theorem fromStr_agree (prof : Profile) (s : List Nat) (hb : ∀ c ∈ s, c < 256) (hlen : s.length < 2 ^ 56) :
    agree (Spec.parseSpec s) (fromStr prof s) := by
  rw [fromStr_eq, parseSpec_eq', strToDec_eq']
  cases s with
  | nil => simp only [takeSign_nil, List.isEmpty_nil, if_true]; rfl
  | cons c cs =>
    rw [takeSign_cons]
    simp only [List.isEmpty_cons, Bool.false_eq_true, if_false]
    have h1 := optSign_length (c :: cs)
    have h2 := optSign_mem (c :: cs)
    exact body_agree prof _ _ (fun x hx => hb x (h2 x hx)) (by omega)

end Fpdec.ParseAux
