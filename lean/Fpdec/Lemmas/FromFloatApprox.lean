import Fpdec.Lemmas.FromFloatNorm
import Fpdec.Lemmas.FromFloatLog
import Fpdec.Lemmas.IntTy

/-!
# `approx_rational`: the digit loop and the final half-even step
-/

namespace Fpdec
open Fpdec.Model

theorem pow10_17 : (10 : Int) ^ 17 = 100000000000000000 := by decide
theorem pow10_18 : (10 : Int) ^ 18 = 1000000000000000000 := by decide

/-- `a·10^j < 2^53·10^17` for `j ≤ 17` -/
theorem scaled_lt (a : Int) (j : Nat) (ha : 0 < a) (ha2 : a < 9007199254740992) (hj : j ≤ 17) :
    0 < a * 10 ^ j ∧ a * 10 ^ j < 900719925474099200000000000000000 := by
  have h1 := pow10_mono hj
  have h0 := pow10_pos j
  rw [pow10_17] at h1
  have h2 : a * 10 ^ j ≤ a * 100000000000000000 := Int.mul_le_mul_of_nonneg_left h1 (Int.le_of_lt ha)
  have h3 : 0 < a * 10 ^ j := Int.mul_pos ha h0
  omega

/-- one more digit: quotient and remainder of `X·10` from those of `X` -/
theorem digit_step (X d : Int) (hd : 0 < d) :
    X / d * 10 + (X % d * 10) / d = X * 10 / d ∧ (X % d * 10) % d = X * 10 % d := by
  have h : X * 10 = X % d * 10 + d * (X / d * 10) := by
    have := Int.mul_ediv_add_emod X d
    calc X * 10 = (d * (X / d) + X % d) * 10 := by rw [this]
      _ = X % d * 10 + d * (X / d * 10) := by ring
  rw [h, Int.add_mul_ediv_left _ _ (Int.ne_of_gt hd), Int.add_mul_emod_self_left]
  constructor <;> omega

theorem emod_le_of_nonneg (X d : Int) (hX : 0 ≤ X) (hd : 0 < d) : X % d ≤ X := by
  have h1 := Int.mul_ediv_add_emod X d
  have h2 : 0 ≤ d * (X / d) := Int.mul_nonneg (Int.le_of_lt hd) (Int.ediv_nonneg hX (Int.le_of_lt hd))
  omega

/-- the loop of `approx_rational`: it runs until the remainder vanishes or 18 digits are produced,
    never overflows and never panics -/
theorem approxLoop_spec (prof : Profile) (d a : Int) (hd : 2 ≤ d) (ha : 0 < a) (ha2 : a < 9007199254740992) :
    ∀ (k j magn : Nat), j + k = 18 → magn + k ≤ 37 →
    ∃ j', j ≤ j' ∧ j' ≤ 18 ∧ (j' = 18 ∨ a * 10 ^ j' % d = 0) ∧
      approxLoop prof d k (a * 10 ^ j / d) (a * 10 ^ j % d) j magn
        = .ok (a * 10 ^ j' / d, a * 10 ^ j' % d, j') := by
  intro k
  induction k with
  | zero =>
    intro j magn hj _
    have : j = 18 := by omega
    subst this
    exact ⟨18, Nat.le_refl _, Nat.le_refl _, Or.inl rfl, by unfold approxLoop; rfl⟩
  | succ k ih =>
    intro j magn hj hm
    by_cases hr : a * 10 ^ j % d = 0
    · refine ⟨j, Nat.le_refl _, by omega, Or.inr hr, ?_⟩
      unfold approxLoop
      simp [hr]
    · obtain ⟨j', h1, h2, h3, h4⟩ := ih (j + 1) (magn + 1) (by omega) (by omega)
      refine ⟨j', by omega, h2, h3, ?_⟩
      rw [← h4]
      have hd0 : 0 < d := by omega
      obtain ⟨hX0, hX1⟩ := scaled_lt a j ha ha2 (by omega)
      have hstep := digit_step (a * 10 ^ j) d hd0
      have hpow : a * 10 ^ (j + 1) = a * 10 ^ j * 10 := by rw [Int.pow_succ, Int.mul_assoc]
      rw [hpow]
      generalize a * 10 ^ j = X at *
      have hr0 := Int.emod_nonneg X (Int.ne_of_gt hd0)
      have hr1 := emod_le_of_nonneg X d (Int.le_of_lt hX0) hd0
      have hq0 : 0 ≤ X / d := Int.ediv_nonneg (Int.le_of_lt hX0) (Int.le_of_lt hd0)
      have hq1 : X / d ≤ X := Int.ediv_le_self d (Int.le_of_lt hX0)
      have hQ0 : 0 ≤ X * 10 / d := Int.ediv_nonneg (by omega) (Int.le_of_lt hd0)
      have hQ1 : X * 10 / d ≤ X * 10 := Int.ediv_le_self d (by omega)
      have f1 : fitsI128 (X % d * 10) = true := by rw [fitsI128_iff]; unfold I128_MIN I128_MAX; omega
      have f2 : fitsI128 (X / d * 10) = true := by rw [fitsI128_iff]; unfold I128_MIN I128_MAX; omega
      have f3 : fitsI128 (X / d * 10 + (X % d * 10) / d) = true := by
        rw [hstep.1, fitsI128_iff]; unfold I128_MIN I128_MAX; omega
      have hne : d ≠ 0 := by omega
      have hm1 : ¬ (X % d * 10 = I128_MIN ∧ d = -1) := by omega
      have hcond : X % d ≠ 0 ∧ magn < Gen.FROM_FLT_MAGN_I128_MAX - 1 := by
        refine ⟨hr, ?_⟩
        have : Gen.FROM_FLT_MAGN_I128_MAX = 38 := rfl
        omega
      have hu8 : plainU8 prof ((magn : Int) + 1) = .ok (magn + 1) := by
        rw [plainU8_ok prof (by omega) (by omega)]
        congr 1
      conv => lhs; unfold approxLoop
      simp only [hcond, plainI128_ok prof f1, Outcome.bind_ok, divI128, remI128, hne, if_false,
        hm1, hu8, plainI128_ok prof f2, Int.tdiv_eq_ediv_of_nonneg (show 0 ≤ X % d * 10 by omega),
        Int.tmod_eq_emod_of_nonneg (show 0 ≤ X % d * 10 by omega), plainI128_ok prof f3]
      rw [hstep.1, hstep.2, if_pos ⟨hr, trivial⟩]

/-! ## half-even rounding: sign symmetry, exact quotients, tiny values -/

theorem heven_nonneg (X d : Int) (hd : 0 < d) :
    Spec.specRound .heven X d =
      if 2 * (X % d) > d ∨ (2 * (X % d) = d ∧ (X / d) % 2 = 1) then X / d + 1 else X / d := by
  have h1 := Int.emod_nonneg X (Int.ne_of_gt hd)
  have h2 := Int.emod_lt_of_pos X hd
  unfold Spec.specRound
  simp only []
  (repeat' split) <;> omega

theorem heven_neg (X d : Int) (hd : 0 < d) :
    Spec.specRound .heven (-X) d = - Spec.specRound .heven X d := by
  have h1 := Int.emod_nonneg X (Int.ne_of_gt hd)
  have h2 := Int.emod_lt_of_pos X hd
  have h3 := Int.mul_ediv_add_emod X d
  by_cases hr : X % d = 0
  · have e : (-X) / d = -(X / d) ∧ (-X) % d = 0 := by
      rw [Int.ediv_emod_unique hd]
      refine ⟨?_, Int.le_refl _, hd⟩
      rw [Int.mul_neg]; omega
    unfold Spec.specRound
    simp only [hr, e.2, if_true, e.1]
  · have e : (-X) / d = -(X / d) - 1 ∧ (-X) % d = d - X % d := by
      rw [Int.ediv_emod_unique hd]
      refine ⟨?_, by omega, by omega⟩
      have : d * (-(X / d) - 1) = -(d * (X / d)) - d := by ring
      rw [this]; omega
    have hr' : ¬ (d - X % d = 0) := by omega
    unfold Spec.specRound
    simp only [hr, e.2, e.1, hr', if_false]
    (repeat' split) <;> omega

theorem specRound_exact (m : Mode) (N d : Int) (h : N % d = 0) : Spec.specRound m N d = N / d := by
  unfold Spec.specRound
  simp [h]

/-- a magnitude below half a unit rounds to zero -/
theorem heven_tiny (N d : Int) (h1 : 2 * N < d) (h2 : -d < 2 * N) : Spec.specRound .heven N d = 0 := by
  have hd : 0 < d := by omega
  by_cases hN : 0 ≤ N
  · have e : N / d = 0 ∧ N % d = N := by
      rw [Int.ediv_emod_unique hd]; refine ⟨by simp, hN, by omega⟩
    unfold Spec.specRound
    simp only [e.1, e.2]
    (repeat' split) <;> omega
  · have e : N / d = -1 ∧ N % d = d + N := by
      rw [Int.ediv_emod_unique hd]; refine ⟨by omega, by omega, by omega⟩
    unfold Spec.specRound
    simp only [e.1, e.2]
    (repeat' split) <;> omega

end Fpdec
