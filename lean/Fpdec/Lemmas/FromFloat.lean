import Fpdec.Lemmas.Dom
import Fpdec.Spec.Float
import Fpdec.Model.Float
import Fpdec.Lemmas.FromFloatDecode

/-!
# C13 — f64 / f32 → Decimal

Model: `floatDecode`, `approxLoop`, `approxRational`, `tryFromFloat` in Fpdec/Model/Float.lean mirroring /repo/src/from_float.rs;
`normalize` (Model/Decimal.lean), `i128Magnitude` (Model/Core.lean).  The constants of the decode functions come from
`Gen.F64_DECODE` / `Gen.F32_DECODE` (generated).  Spec: `Spec.fromFloat` (Fpdec/Spec/Float.lean): exact value of the bit pattern
(`Spec.decodeBits`), rounded half-even to 18 fractional digits (`Spec.specRound .heven`), trailing zeros stripped (`Spec.normalizeSpec`).
Things to establish: zero/subnormals and every exponent `< -126` have magnitude `< ½·10^-18` (spec gives 0); the digit loop
invariant (`coeff_k = ⌊|n|·10^k / d⌋`, `rem_k = |n|·10^k mod d`), it stops only on `rem = 0` or after 18 digits (the magnitude guard
never binds: `coeff < 2^53`, at most 18 more digits), `rem * 10` and `coeff * 10 + quot` never overflow an i128, the final half-even
step, `normalize = normalizeSpec`; integral floats are exact; the three error kinds; no panic for any bit pattern and any profile.
-/

namespace Fpdec
open Fpdec.Model

/-- what the model returns, seen through the spec's type -/
def fromFloatOut : Outcome (Except FloatErr Dec) → Option Spec.FromFloatExp
  | .ok (.ok d) => some (.val d.coeff d.nfrac)
  | .ok (.error .infinite) => some .infinite
  | .ok (.error .nan) => some .nan
  | .ok (.error .overflow) => some .overflow
  | .panic _ => none

/-- agreement up to the one boundary value `-2^127` where the statement leaves value-or-overflow open -/
def fromFloatAllowed (e : Spec.FromFloatExp) (o : Option Spec.FromFloatExp) : Prop :=
  match e with
  | .valOrOvf c p => o = some (.val c p) ∨ o = some .overflow
  | e => o = some e

/-! ## assembling the branches (helper files: FromFloatNorm, FromFloatLog, FromFloatApprox, FromFloatRational,
    FromFloatTail, FromFloatDecode) -/

theorem tail_allowed (prof : Profile) (is64 : Prop) [Decidable is64] (S : Nat) (e : Int) (s : Nat)
    (hs : s < 2) (hS0 : 2 ≤ S) (hS : S < 9007199254740992) (h32 : ¬ is64 → e < 128)
    (nd : Nat × Nat) (hnd : nd = if e ≥ 0 then (S * 2 ^ e.toNat, 1) else (S, 2 ^ (-e).toNat)) :
    fromFloatAllowed (specOf (if s % 2 = 1 then -(nd.1 : Int) else (nd.1 : Int)) (nd.2 : Int))
      (fromFloatOut (fromFloatTail prof is64 S e (1 - 2 * (s : Int)))) := by
  have hsg : (1 - 2 * (s : Int)) = 1 ∨ (1 - 2 * (s : Int)) = -1 := by omega
  have hn : (if s % 2 = 1 then -(nd.1 : Int) else (nd.1 : Int)) = (1 - 2 * (s : Int)) * (nd.1 : Int) := by
    have : s = 0 ∨ s = 1 := by omega
    rcases this with rfl | rfl <;> simp
  rw [hn]
  by_cases he : e ≥ 0
  · rw [if_pos he] at hnd
    subst hnd
    have e1 : (1 - 2 * (s : Int)) * ((S * 2 ^ e.toNat : Nat) : Int) = (1 - 2 * (s : Int)) * (S : Int) * (2 : Int) ^ e.toNat := by
      rw [Int.natCast_mul, Int.natCast_pow, Int.mul_assoc]; rfl
    simp only [e1]
    have e2 : ((1 : Nat) : Int) = 1 := rfl
    rw [e2]
    rcases tail_int prof is64 S e (1 - 2 * (s : Int)) hS0 hS hsg he h32 with ⟨ht, hv⟩ | ⟨c, ht, hv | hv⟩
    · rw [ht, hv]; rfl
    · rw [ht, hv]; rfl
    · rw [ht, hv]; left; rfl
  · rw [if_neg he] at hnd
    subst hnd
    have e1 : (((2 : Nat) ^ (-e).toNat : Nat) : Int) = (2 : Int) ^ (-e).toNat := by
      rw [Int.natCast_pow]; rfl
    simp only [e1]
    by_cases htiny : e < -126
    · have hb : -9007199254740992 < (1 - 2 * (s : Int)) * (S : Int) ∧ (1 - 2 * (s : Int)) * (S : Int) < 9007199254740992 := by
        rcases hsg with h | h <;> rw [h] <;> omega
      rw [tail_tiny prof is64 S e _ htiny, specOf_tiny_pow _ _ hb.1 hb.2 (by omega)]
      rfl
    · obtain ⟨c, k, ht, hv⟩ := tail_frac prof is64 S e (1 - 2 * (s : Int)) (by omega) hS hsg (by omega) (by omega)
      rw [ht, hv]; rfl

theorem allowed_zero (prof : Profile) (is64 : Prop) [Decidable is64] (s frac m : Nat) (hfrac : frac < 4503599627370496)
    (hm : 127 ≤ m) :
    fromFloatAllowed (specOf (if s % 2 = 1 then -(((frac, 2 ^ m) : Nat × Nat).1 : Int) else (((frac, 2 ^ m) : Nat × Nat).1 : Int))
        ((((frac, 2 ^ m) : Nat × Nat).2 : Nat) : Int))
      (fromFloatOut (fromFloatTail prof is64 ((0, 0, 0) : Nat × Int × Int).1 ((0, 0, 0) : Nat × Int × Int).2.1
        ((0, 0, 0) : Nat × Int × Int).2.2)) := by
  simp only []
  have e1 : (((2 : Nat) ^ m : Nat) : Int) = (2 : Int) ^ m := by rw [Int.natCast_pow]; rfl
  rw [e1, tail_zero, specOf_tiny_pow _ _ (by split <;> omega) (by split <;> omega) hm]
  rfl

theorem tryFromFloat_f64 (prof : Profile) (bits : Nat) (hb : bits < 18446744073709551616) :
    fromFloatAllowed (Spec.fromFloat Spec.FloatFmt.f64 bits) (fromFloatOut (tryFromFloat prof Spec.FloatFmt.f64 bits)) := by
  rw [fromFloat_eq, tryFromFloat_eq, decodeBits_f64]
  have hfb : Spec.FloatFmt.f64.fracBits = 52 := rfl
  have heb : Spec.FloatFmt.f64.expBits = 11 := rfl
  have hbits : Spec.FloatFmt.f64.bits - 1 = 63 := rfl
  rw [hfb, heb, hbits]
  simp only [Nat.and_two_pow_sub_one_eq_mod, Nat.shiftRight_eq_div_pow]
  have e52 : (2 : Nat) ^ 52 = 4503599627370496 := by decide
  have e11 : (2 : Nat) ^ 11 = 2048 := by decide
  have e63 : (2 : Nat) ^ 63 = 9223372036854775808 := by decide
  have r3 : (2048 - 1 : Nat) = 2047 := rfl
  rw [e52, e11, e63, r3]
  have r1 : bits % 9223372036854775808 / 4503599627370496 % 2048 = bits / 4503599627370496 % 2048 := by omega
  have r2 : bits % 9223372036854775808 % 4503599627370496 = bits % 4503599627370496 := by omega
  rw [r1, r2]
  have hbe : bits / 4503599627370496 % 2048 < 2048 := Nat.mod_lt _ (by decide)
  have hfrac : bits % 4503599627370496 < 4503599627370496 := Nat.mod_lt _ (by decide)
  have hs : bits / 9223372036854775808 < 2 := by omega
  by_cases hnan : bits / 4503599627370496 % 2048 = 2047
  · by_cases hfr : bits % 4503599627370496 = 0
    · simp only [hnan, hfr, and_self, if_true]; rfl
    · simp only [hnan, hfr, and_false, if_true, if_false]; rfl
  · rw [floatDecode_f64 bits hb hnan]
    simp only [hnan, false_and, if_false, Outcome.bind_ok]
    by_cases h0 : bits / 4503599627370496 % 2048 = 0
    · simp only [h0, if_true]
      exact allowed_zero prof _ _ _ 1074 hfrac (by omega)
    · simp only [h0, if_false]
      exact tail_allowed prof _ _ _ _ hs (by omega) (by omega) (fun h => absurd trivial h) _ rfl


theorem tryFromFloat_f32 (prof : Profile) (bits : Nat) (hb : bits < 4294967296) :
    fromFloatAllowed (Spec.fromFloat Spec.FloatFmt.f32 bits) (fromFloatOut (tryFromFloat prof Spec.FloatFmt.f32 bits)) := by
  rw [fromFloat_eq, tryFromFloat_eq, decodeBits_f32]
  have hfb : Spec.FloatFmt.f32.fracBits = 23 := rfl
  have heb : Spec.FloatFmt.f32.expBits = 8 := rfl
  have hbits : Spec.FloatFmt.f32.bits - 1 = 31 := rfl
  rw [hfb, heb, hbits]
  simp only [Nat.and_two_pow_sub_one_eq_mod, Nat.shiftRight_eq_div_pow]
  have e23 : (2 : Nat) ^ 23 = 8388608 := by decide
  have e8 : (2 : Nat) ^ 8 = 256 := by decide
  have e31 : (2 : Nat) ^ 31 = 2147483648 := by decide
  have r3 : (256 - 1 : Nat) = 255 := rfl
  rw [e23, e8, e31, r3]
  have r1 : bits % 2147483648 / 8388608 % 256 = bits / 8388608 % 256 := by omega
  have r2 : bits % 2147483648 % 8388608 = bits % 8388608 := by omega
  rw [r1, r2]
  have hbe : bits / 8388608 % 256 < 256 := Nat.mod_lt _ (by decide)
  have hfrac : bits % 8388608 < 8388608 := Nat.mod_lt _ (by decide)
  have hs : bits / 2147483648 < 2 := by omega
  by_cases hnan : bits / 8388608 % 256 = 255
  · by_cases hfr : bits % 8388608 = 0
    · simp only [hnan, hfr, and_self, if_true]; rfl
    · simp only [hnan, hfr, and_false, if_true, if_false]; rfl
  · rw [floatDecode_f32 bits hb hnan]
    simp only [hnan, false_and, if_false, Outcome.bind_ok]
    by_cases h0 : bits / 8388608 % 256 = 0
    · simp only [h0, if_true]
      exact allowed_zero prof _ _ _ 149 (by omega) (by omega)
    · simp only [h0, if_false]
      exact tail_allowed prof _ _ _ _ hs (by omega) (by omega) (fun _ => by omega) _ rfl

/-- MAIN THEOREM: `Decimal::try_from(f)` for EVERY bit pattern of f64 / f32 and every profile -/
theorem tryFromFloat_spec (prof : Profile) (f : Spec.FloatFmt) (hf : f = Spec.FloatFmt.f64 ∨ f = Spec.FloatFmt.f32)
    (bits : Nat) (hb : bits < 2 ^ f.bits) :
    fromFloatAllowed (Spec.fromFloat f bits) (fromFloatOut (tryFromFloat prof f bits)) := by
  rcases hf with rfl | rfl
  · exact tryFromFloat_f64 prof bits hb
  · exact tryFromFloat_f32 prof bits hb

end Fpdec
