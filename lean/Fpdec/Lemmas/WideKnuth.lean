import Fpdec.Lemmas.Rounding
import Mathlib.Tactic.Linarith
import Mathlib.Tactic.Ring
import Mathlib.Tactic.Positivity
import Mathlib.Tactic.NormNum

/-!
# Knuth algorithm D, one quotient digit, pure version over `Nat` with a generic base (helper for C16)

`corr` is the quotient-digit correction loop of `u256_idiv_u128_special`
(`while q >= B || q*y0 > rhat*B + x1 { q -= 1; rhat += y1; if rhat >= B { break } }`).
`corr_spec`/`digit_spec`: started from the estimate `x32 / y1`, it ends with the exact digit
`(x32*B + x1) / (y1*B + y0)` — so no add-back step is needed.  No normalisation hypothesis is used.
-/

namespace Fpdec.Wide
open Fpdec Fpdec.Model

/-- the correction loop, pure, generic base, recursion on q -/
def corr (B y1 y0 x1 : Nat) (q rhat : Nat) : Nat × Nat :=
  if q ≥ B ∨ q * y0 > rhat * B + x1 then
    if q = 0 then (q, rhat) else
    let q' := q - 1
    let r' := rhat + y1
    if r' ≥ B then (q', r') else corr B y1 y0 x1 q' r'
  else (q, rhat)
termination_by q
decreasing_by omega

theorem corr_spec (B y1 y0 x1 x32 : Nat) (hB : 0 < B)
    (hy1 : 0 < y1) (hy0 : y0 < B) (hx1 : x1 < B)
    (hx : x32 < y1 * B + y0) :
    ∀ (q rhat : Nat), q * y1 + rhat = x32 → (x32 * B + x1) / (y1 * B + y0) ≤ q →
      (rhat < B) →
      (corr B y1 y0 x1 q rhat).1 = (x32 * B + x1) / (y1 * B + y0) := by
  intro q
  induction q using Nat.strong_induction_on with
  | _ q ih =>
    intro rhat hinv hge hr
    have hypos : 0 < y1 * B + y0 := by positivity
    generalize hy : y1 * B + y0 = y at *
    generalize hu : x32 * B + x1 = u at *
    have hqt : u / y < B := by
      rw [Nat.div_lt_iff_lt_mul hypos]
      have h1 : x32 + 1 ≤ y := hx
      have h2 : (x32 + 1) * B ≤ y * B := Nat.mul_le_mul_right B h1
      rw [← hu]; nlinarith
    have hd0 := Nat.zero_le (u / y)
    unfold corr
    split
    next hc =>
      have hgt : u / y < q := by
        rcases hc with h | h
        · omega
        · have h3 : u < q * y := by
            have e1 : q * y = (q * y1) * B + q * y0 := by rw [← hy]; ring
            have e2 : u = (q * y1 + rhat) * B + x1 := by rw [← hu, hinv]
            rw [e1, e2]; nlinarith
          exact (Nat.div_lt_iff_lt_mul hypos).mpr h3
      have hq0 : q ≠ 0 := by omega
      simp only [hq0, if_false]
      split
      next hb =>
        show q - 1 = u / y
        have hle : q - 1 ≤ u / y := by
          rw [Nat.le_div_iff_mul_le hypos]
          have hqB : q - 1 < B := by
            by_contra hcon
            have hq2 : B + 1 ≤ q := by omega
            have : (B + 1) * y1 ≤ q * y1 := Nat.mul_le_mul_right y1 hq2
            rw [← hy] at hx
            nlinarith
          have e1 : (q - 1) * y = ((q - 1) * y1) * B + (q - 1) * y0 := by rw [← hy]; ring
          have e3 : (q - 1) * y1 + (rhat + y1) = x32 := by
            have : q = (q - 1) + 1 := by omega
            rw [this] at hinv; nlinarith
          have e2 : u = ((q - 1) * y1 + (rhat + y1)) * B + x1 := by rw [← hu, e3]
          have h5 : (q - 1) * y0 ≤ B * B := by
            have := Nat.mul_le_mul (Nat.le_of_lt hqB) (Nat.le_of_lt hy0); exact this
          have h6 : B * B ≤ (rhat + y1) * B := Nat.mul_le_mul_right B hb
          rw [e1, e2]; nlinarith
        omega
      next hnb =>
        have hnb' : rhat + y1 < B := by omega
        apply ih (q - 1) (by omega) (rhat + y1)
        · have : q = (q - 1) + 1 := by omega
          rw [this] at hinv
          nlinarith
        · omega
        · exact hnb'
    next hc =>
      show q = u / y
      have hc' := not_or.mp hc
      have h1 : q < B := by omega
      have h2 : q * y0 ≤ rhat * B + x1 := by omega
      have hle : q ≤ u / y := by
        rw [Nat.le_div_iff_mul_le hypos]
        have e1 : q * y = (q * y1) * B + q * y0 := by rw [← hy]; ring
        have e2 : u = (q * y1 + rhat) * B + x1 := by rw [← hu, hinv]
        rw [e1, e2]; nlinarith
      omega

/-- the first estimate `x32 / y1` is never below the true quotient digit -/
theorem quot_le_estimate (B y1 y0 x1 x32 : Nat) (hy1 : 0 < y1) (hx1 : x1 < B) :
    (x32 * B + x1) / (y1 * B + y0) ≤ x32 / y1 := by
  have hB : 0 < B := by omega
  have hypos : 0 < y1 * B + y0 := by positivity
  have h : (x32 * B + x1) / (y1 * B + y0) < x32 / y1 + 1 := by
    rw [Nat.div_lt_iff_lt_mul hypos]
    have h1 : x32 < y1 * (x32 / y1 + 1) := Nat.lt_mul_div_succ x32 hy1
    generalize x32 / y1 = q at *
    have h2 : (x32 + 1) * B ≤ (y1 * (q + 1)) * B := Nat.mul_le_mul_right B h1
    nlinarith
  omega

/-- one exact quotient digit -/
theorem digit_spec (B y1 y0 x1 x32 : Nat) (hy1 : 0 < y1) (hy1B : y1 < B) (hy0 : y0 < B) (hx1 : x1 < B)
    (hx : x32 < y1 * B + y0) :
    (corr B y1 y0 x1 (x32 / y1) (x32 % y1)).1 = (x32 * B + x1) / (y1 * B + y0) := by
  apply corr_spec B y1 y0 x1 x32 (by omega) hy1 hy0 hx1 hx
  · have := Nat.div_add_mod x32 y1
    rw [Nat.mul_comm] at this; exact this
  · exact quot_le_estimate B y1 y0 x1 x32 hy1 hx1
  · have := Nat.mod_lt x32 hy1; omega

theorem digit_lt_base (B y x32 x1 : Nat) (hx : x32 < y) (hx1 : x1 < B) : (x32 * B + x1) / y < B := by
  have hypos : 0 < y := by omega
  rw [Nat.div_lt_iff_lt_mul hypos]
  have h2 : (x32 + 1) * B ≤ y * B := Nat.mul_le_mul_right B hx
  nlinarith

/-- the two digits assemble to the full quotient and remainder -/
theorem two_digit (B y x32 x1 x0 : Nat) (hy : 0 < y) :
    ((x32 * B + x1) / y) * B + (((x32 * B + x1) % y) * B + x0) / y = (x32 * (B * B) + x1 * B + x0) / y ∧
    (((x32 * B + x1) % y) * B + x0) % y = (x32 * (B * B) + x1 * B + x0) % y := by
  have hd := Nat.div_add_mod (x32 * B + x1) y
  generalize (x32 * B + x1) / y = q1 at *
  generalize (x32 * B + x1) % y = t at *
  have e : x32 * (B * B) + x1 * B + x0 = (t * B + x0) + y * (q1 * B) := by
    have : x32 * (B * B) + x1 * B = (x32 * B + x1) * B := by ring
    rw [this, ← hd]; ring
  rw [e, Nat.add_mul_div_left _ _ hy, Nat.add_mul_mod_self_left]
  exact ⟨by omega, rfl⟩

/-- the three wrapping operations compute the true difference when it fits -/
theorem wrap_sub (a b c t : Nat) (h : a + b = c + t) (ht : t < U128_MOD) :
    wrapU128 (wrapU128 (wrapU128 a + b) + U128_MOD - wrapU128 c) = t := by
  unfold wrapU128 U128_MOD at *
  omega
end Fpdec.Wide
