import Fpdec.Lemmas.Basic
import Fpdec.Spec.Allowed

/-! # The input domain of the properties and glue between model values and spec pairs -/

namespace Fpdec
open Fpdec.Model

/-- `Decimal::MIN ..= Decimal::MAX` with 0..=18 fractional digits, any representation -/
def Dom (d : Dec) : Prop := I128_MIN < d.coeff ∧ d.coeff ≤ I128_MAX ∧ d.nfrac ≤ 18

instance (d : Dec) : Decidable (Dom d) := by unfold Dom; infer_instance

def Dec.pair (d : Dec) : Int × Nat := (d.coeff, d.nfrac)

/-- view of a model outcome as the spec sees it -/
def outPair (r : Outcome Dec) : Outcome (Int × Nat) := Dec.pair <$> r
def outOptPair (r : Outcome (Option Dec)) : Outcome (Option (Int × Nat)) := (Option.map Dec.pair) <$> r

@[simp] theorem outPair_ok (d : Dec) : outPair (.ok d) = .ok (d.coeff, d.nfrac) := rfl
@[simp] theorem outPair_panic (k : PanicKind) : outPair (.panic k) = .panic k := rfl
@[simp] theorem outOptPair_some (d : Dec) : outOptPair (.ok (some d)) = .ok (some (d.coeff, d.nfrac)) := rfl
@[simp] theorem outOptPair_none : outOptPair (.ok none) = .ok none := rfl
@[simp] theorem outOptPair_panic (k : PanicKind) : outOptPair (.panic k) = .panic k := rfl

theorem Dom.fits {d : Dec} (h : Dom d) : fitsI128 d.coeff = true := by
  unfold Dom at h; rw [fitsI128_iff]; omega

end Fpdec
