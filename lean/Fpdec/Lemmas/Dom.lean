import Fpdec.Lemmas.Basic
import Fpdec.Spec.Allowed

/-! # The input domain of the properties and glue between model values and spec pairs -/

namespace Fpdec
open Fpdec.Model

/-- `Decimal::MIN ..= Decimal::MAX` with 0..=18 fractional digits, any representation -/
def Dom (d : Dec) : Prop := I128_MIN < d.coeff ∧ d.coeff ≤ I128_MAX ∧ d.nfrac ≤ 18

instance (d : Dec) : Decidable (Dom d) := by unfold Dom; infer_instance

def Dec.pair (d : Dec) : Int × Nat := (d.coeff, d.nfrac)

/-- view of a model outcome as the spec sees it -/
def outPair (r : Outcome Dec) : Outcome (Int × Nat) := Dec.pair <$> r
def outOptPair (r : Outcome (Option Dec)) : Outcome (Option (Int × Nat)) := (Option.map Dec.pair) <$> r

@[simp] theorem outPair_ok (d : Dec) : outPair (.ok d) = .ok (d.coeff, d.nfrac) := rfl
@[simp] theorem outPair_panic (k : PanicKind) : outPair (.panic k) = .panic k := rfl
@[simp] theorem outOptPair_some (d : Dec) : outOptPair (.ok (some d)) = .ok (some (d.coeff, d.nfrac)) := rfl
@[simp] theorem outOptPair_none : outOptPair (.ok none) = .ok none := rfl
@[simp] theorem outOptPair_panic (k : PanicKind) : outOptPair (.panic k) = .panic k := rfl

theorem Dom.fits {d : Dec} (h : Dom d) : fitsI128 d.coeff = true := by
  unfold Dom at h; rw [fitsI128_iff]; omega

/-! ### `Spec.valFit` against the outcomes of a final `checked_*` step -/

theorem valFit_eq (c : Int) (p : Nat) :
    Spec.valFit c p = if c = I128_MIN then Spec.Exp.valOrOvf c p
      else if fitsI128 c = true then Spec.Exp.val c p else Spec.Exp.ovf := by
  have h : (2 : Int) ^ 127 = 170141183460469231731687303715884105728 := by decide
  unfold Spec.valFit I128_MIN
  rw [h, spec_fits_eq]

theorem valFit_some (c : Int) (p : Nat) (h : fitsI128 c = true) :
    Spec.allowedChecked (Spec.valFit c p) (.ok (some (c, p))) = true := by
  rw [valFit_eq]
  by_cases hm : c = I128_MIN <;> simp [hm, h, Spec.allowedChecked]

theorem valFit_none (c : Int) (p : Nat) (h : fitsI128 c = false) :
    Spec.allowedChecked (Spec.valFit c p) (.ok none) = true := by
  rw [valFit_eq]
  by_cases hm : c = I128_MIN <;> simp [hm, h, Spec.allowedChecked]

theorem valFit_some_op (c : Int) (p : Nat) (h : fitsI128 c = true) :
    Spec.allowedOp (Spec.valFit c p) (.ok (c, p)) = true := by
  rw [valFit_eq]
  by_cases hm : c = I128_MIN <;> simp [hm, h, Spec.allowedOp]

theorem valFit_ovf_op (c : Int) (p : Nat) (h : fitsI128 c = false) :
    Spec.allowedOp (Spec.valFit c p) (.panic .overflow) = true := by
  rw [valFit_eq]
  by_cases hm : c = I128_MIN <;> simp [hm, h, Spec.allowedOp, Spec.isOvfPanic]

/-- the operator idiom `if let Some(r) = checked(..) { r } else { panic!("{}", InternalOverflow) }` -/
def panicOnNone : Outcome (Option Dec) → Outcome Dec
  | .ok (some d) => .ok d
  | .ok none => .panic .overflow
  | .panic k => .panic k

theorem bind_panicOnNone (r : Outcome (Option Dec)) :
    (r >>= fun o => match o with
      | some d => (pure d : Outcome Dec)
      | none => Outcome.panic PanicKind.overflow) = panicOnNone r := by
  cases r with
  | panic k => rfl
  | ok o => cases o <;> rfl

/-- from a checked result to the operator that panics on `None` -/
theorem allowedOp_of_checked (e : Spec.Exp) (r : Outcome (Option Dec))
    (h : Spec.allowedChecked e (outOptPair r) = true) (hn : e ≠ .divzero) (hnn : e ≠ .none) (hnf : e ≠ .nfrac) :
    Spec.allowedOp e (outPair (panicOnNone r)) = true := by
  cases r with
  | panic k => cases e <;> simp [Spec.allowedChecked, Spec.allowedOp, panicOnNone] at h hn hnn hnf ⊢
  | ok o =>
    cases o with
    | none => cases e <;> simp [Spec.allowedChecked, Spec.allowedOp, Spec.isOvfPanic, panicOnNone] at h hn hnn hnf ⊢
    | some v => cases e <;> simp [Spec.allowedChecked, Spec.allowedOp, panicOnNone] at h hn hnn hnf ⊢ <;> exact h

theorem valFit_shape (c : Int) (p : Nat) :
    Spec.valFit c p ≠ .divzero ∧ Spec.valFit c p ≠ .none ∧ Spec.valFit c p ≠ .nfrac := by
  rw [valFit_eq]
  by_cases h1 : c = I128_MIN
  · simp [h1]
  · by_cases h2 : fitsI128 c = true <;> simp [h1, h2]

end Fpdec
