import Fpdec.Lemmas.Basic
import Fpdec.Spec.Allowed

/-! # The input domain of the properties and glue between model values and spec pairs -/

namespace Fpdec
open Fpdec.Model

/-- `Decimal::MIN ..= Decimal::MAX` with 0..=18 fractional digits, any representation -/
def Dom (d : Dec) : Prop := I128_MIN < d.coeff ∧ d.coeff ≤ I128_MAX ∧ d.nfrac ≤ 18

instance (d : Dec) : Decidable (Dom d) := by unfold Dom; infer_instance

def Dec.pair (d : Dec) : Int × Nat := (d.coeff, d.nfrac)

/-- view of a model outcome as the spec sees it -/
def outPair (r : Outcome Dec) : Outcome (Int × Nat) := Dec.pair <$> r
def outOptPair (r : Outcome (Option Dec)) : Outcome (Option (Int × Nat)) := (Option.map Dec.pair) <$> r

@[simp] theorem outPair_ok (d : Dec) : outPair (.ok d) = .ok (d.coeff, d.nfrac) := rfl
@[simp] theorem outPair_panic (k : PanicKind) : outPair (.panic k) = .panic k := rfl
@[simp] theorem outOptPair_some (d : Dec) : outOptPair (.ok (some d)) = .ok (some (d.coeff, d.nfrac)) := rfl
@[simp] theorem outOptPair_none : outOptPair (.ok none) = .ok none := rfl
@[simp] theorem outOptPair_panic (k : PanicKind) : outOptPair (.panic k) = .panic k := rfl

theorem Dom.fits {d : Dec} (h : Dom d) : fitsI128 d.coeff = true := by
  unfold Dom at h; rw [fitsI128_iff]; omega

/-! ### `Spec.valFit` against the outcomes of a final `checked_*` step -/

theorem valFit_eq (c : Int) (p : Nat) :
    Spec.valFit c p = if c = I128_MIN then Spec.Exp.valOrOvf c p
      else if fitsI128 c = true then Spec.Exp.val c p else Spec.Exp.ovf := by
  have h : (2 : Int) ^ 127 = 170141183460469231731687303715884105728 := by decide
  unfold Spec.valFit I128_MIN
  rw [h, spec_fits_eq]

theorem valFit_some (c : Int) (p : Nat) (h : fitsI128 c = true) :
    Spec.allowedChecked (Spec.valFit c p) (.ok (some (c, p))) = true := by
  rw [valFit_eq]
  by_cases hm : c = I128_MIN <;> simp [hm, h, Spec.allowedChecked]

theorem valFit_none (c : Int) (p : Nat) (h : fitsI128 c = false) :
    Spec.allowedChecked (Spec.valFit c p) (.ok none) = true := by
  rw [valFit_eq]
  by_cases hm : c = I128_MIN <;> simp [hm, h, Spec.allowedChecked]

theorem valFit_some_op (c : Int) (p : Nat) (h : fitsI128 c = true) :
    Spec.allowedOp (Spec.valFit c p) (.ok (c, p)) = true := by
  rw [valFit_eq]
  by_cases hm : c = I128_MIN <;> simp [hm, h, Spec.allowedOp]

theorem valFit_ovf_op (c : Int) (p : Nat) (h : fitsI128 c = false) :
    Spec.allowedOp (Spec.valFit c p) (.panic .overflow) = true := by
  rw [valFit_eq]
  by_cases hm : c = I128_MIN <;> simp [hm, h, Spec.allowedOp, Spec.isOvfPanic]

/-- the operator idiom `if let Some(r) = checked(..) { r } else { panic!("{}", InternalOverflow) }` -/
def panicOnNone : Outcome (Option Dec) → Outcome Dec
  | .ok (some d) => .ok d
  | .ok none => .panic .overflow
  | .panic k => .panic k

theorem bind_panicOnNone (r : Outcome (Option Dec)) :
    (r >>= fun o => match o with
      | some d => (pure d : Outcome Dec)
      | none => Outcome.panic PanicKind.overflow) = panicOnNone r := by
  cases r with
  | panic k => rfl
  | ok o => cases o <;> rfl

/-- from a checked result to the operator that panics on `None` -/
theorem allowedOp_of_checked (e : Spec.Exp) (r : Outcome (Option Dec))
    (h : Spec.allowedChecked e (outOptPair r) = true) (hn : e ≠ .divzero) (hnn : e ≠ .none) (hnf : e ≠ .nfrac) :
    Spec.allowedOp e (outPair (panicOnNone r)) = true := by
  cases r with
  | panic k => cases e <;> simp [Spec.allowedChecked, Spec.allowedOp, panicOnNone] at h hn hnn hnf ⊢
  | ok o =>
    cases o with
    | none => cases e <;> simp [Spec.allowedChecked, Spec.allowedOp, Spec.isOvfPanic, panicOnNone] at h hn hnn hnf ⊢
    | some v => cases e <;> simp [Spec.allowedChecked, Spec.allowedOp, panicOnNone] at h hn hnn hnf ⊢ <;> exact h

theorem valFit_shape (c : Int) (p : Nat) :
    Spec.valFit c p ≠ .divzero ∧ Spec.valFit c p ≠ .none ∧ Spec.valFit c p ≠ .nfrac := by
  rw [valFit_eq]
  by_cases h1 : c = I128_MIN
  · simp [h1]
  · by_cases h2 : fitsI128 c = true <;> simp [h1, h2]

theorem valFit_ne_any (c : Int) (p : Nat) : Spec.valFit c p ≠ .any := by
  rw [valFit_eq]
  by_cases h1 : c = I128_MIN
  · simp [h1]
  · by_cases h2 : fitsI128 c = true <;> simp [h1, h2]

/-! ### operator / checked-variant agreement: the generic part
An operator is its checked variant with `None` turned into the overflow panic (`Outcome.ofOption .overflow` for a checked variant
that cannot panic, `panicOnNone` for one that is itself an `Outcome`, `opOfChecked` / `checkedOfChecked` when a zero-divisor test
comes first); these lemmas read such an equation in both directions. -/

theorem ofOption_eq_ok_iff {α} (k : PanicKind) (o : Option α) (a : α) : Outcome.ofOption k o = .ok a ↔ o = some a := by
  cases o <;> simp [Outcome.ofOption]

theorem ofOption_eq_panic_iff {α} (k k' : PanicKind) (o : Option α) :
    Outcome.ofOption k o = .panic k' ↔ (o = none ∧ k' = k) := by
  cases o <;> simp [Outcome.ofOption, eq_comm]

theorem panicOnNone_ok (o : Option Dec) : panicOnNone (.ok o) = Outcome.ofOption .overflow o := by
  cases o <;> rfl

theorem panicOnNone_eq_ok_iff (r : Outcome (Option Dec)) (d : Dec) : panicOnNone r = .ok d ↔ r = .ok (some d) := by
  cases r with
  | panic k => simp [panicOnNone]
  | ok o => cases o <;> simp [panicOnNone]

theorem panicOnNone_eq_panic_iff (r : Outcome (Option Dec)) (k : PanicKind) :
    panicOnNone r = .panic k ↔ ((r = .ok none ∧ k = .overflow) ∨ r = .panic k) := by
  cases r with
  | panic k' => simp [panicOnNone]
  | ok o => cases o <;> simp [panicOnNone, eq_comm]

/-- a checked outcome that the spec allows is not a panic (the two expectations that allow a panic excluded) -/
theorem allowedChecked_no_panic (e : Spec.Exp) (r : Outcome (Option Dec))
    (h : Spec.allowedChecked e (outOptPair r) = true) (h1 : e ≠ .nfrac) (h2 : e ≠ .any) : ∃ o, r = .ok o := by
  cases r with
  | ok o => exact ⟨o, rfl⟩
  | panic k => cases e <;> simp [Spec.allowedChecked] at h h1 h2

theorem opOfChecked_eq_ok_iff (z : Bool) (r : Outcome (Option Dec)) (d : Dec) :
    opOfChecked z r = .ok d ↔ (z = false ∧ r = .ok (some d)) := by
  cases z
  · cases r with
    | panic k => simp [opOfChecked]
    | ok o => cases o <;> simp [opOfChecked]
  · simp [opOfChecked]

theorem opOfChecked_eq_panic_iff (z : Bool) (r : Outcome (Option Dec)) (k : PanicKind) :
    opOfChecked z r = .panic k ↔
      ((z = true ∧ k = .divzero) ∨ (z = false ∧ r = .ok none ∧ k = .overflow) ∨ (z = false ∧ r = .panic k)) := by
  cases z
  · cases r with
    | panic k' => simp [opOfChecked]
    | ok o => cases o <;> simp [opOfChecked, eq_comm]
  · simp [opOfChecked, eq_comm]

theorem checkedOfChecked_eq_some_iff (z : Bool) (r : Outcome (Option Dec)) (d : Dec) :
    checkedOfChecked z r = .ok (some d) ↔ (z = false ∧ r = .ok (some d)) := by
  cases z <;> simp [checkedOfChecked]

theorem checkedOfChecked_eq_none_iff (z : Bool) (r : Outcome (Option Dec)) :
    checkedOfChecked z r = .ok none ↔ (z = true ∨ r = .ok none) := by
  cases z <;> simp [checkedOfChecked]

theorem checkedOfChecked_eq_panic_iff (z : Bool) (r : Outcome (Option Dec)) (k : PanicKind) :
    checkedOfChecked z r = .panic k ↔ (z = false ∧ r = .panic k) := by
  cases z <;> simp [checkedOfChecked]

/-! the operator form `opOfChecked z r` against the checked form `checkedOfChecked z r` of one shared body `r` (`z`: the zero-divisor
    test): `/`, `%` with integer operands and `%` on Decimals are modelled this way -/

/-- `Some(d)` exactly when the operator returns `d` -/
theorem checked_some_iff_op_ok (z : Bool) (r : Outcome (Option Dec)) (d : Dec) :
    checkedOfChecked z r = .ok (some d) ↔ opOfChecked z r = .ok d := by
  rw [checkedOfChecked_eq_some_iff, opOfChecked_eq_ok_iff]

/-- the checked form does not panic when the shared body does not -/
theorem checked_form_no_panic (z : Bool) (r : Outcome (Option Dec)) (h : z = false → ∃ o, r = .ok o) :
    ∃ o, checkedOfChecked z r = .ok o := by
  cases z
  · obtain ⟨o, ho⟩ := h rfl
    exact ⟨o, by simp [checkedOfChecked, ho]⟩
  · exact ⟨none, rfl⟩

/-- `None` exactly when the operator panics — with the division-by-zero panic or the overflow panic -/
theorem checked_none_iff_op_panic (z : Bool) (r : Outcome (Option Dec)) (h : z = false → ∃ o, r = .ok o) :
    checkedOfChecked z r = .ok none ↔ (opOfChecked z r = .panic .divzero ∨ opOfChecked z r = .panic .overflow) := by
  cases z
  · obtain ⟨o, ho⟩ := h rfl
    subst ho
    cases o <;> simp [checkedOfChecked, opOfChecked]
  · simp [checkedOfChecked, opOfChecked]

/-- the division-by-zero panic exactly for a zero divisor, the overflow panic exactly for `None` with a non-zero divisor -/
theorem op_divzero_iff (z : Bool) (r : Outcome (Option Dec)) (h : z = false → ∃ o, r = .ok o) :
    opOfChecked z r = .panic .divzero ↔ z = true := by
  cases z
  · obtain ⟨o, ho⟩ := h rfl
    subst ho
    cases o <;> simp [opOfChecked]
  · simp [opOfChecked]

theorem op_overflow_iff (z : Bool) (r : Outcome (Option Dec)) :
    opOfChecked z r = .panic .overflow ↔ (z = false ∧ (r = .ok none ∨ r = .panic .overflow)) := by
  cases z
  · cases r with
    | panic k => simp [opOfChecked]
    | ok o => cases o <;> simp [opOfChecked]
  · simp [opOfChecked]

theorem op_panic_kind (z : Bool) (r : Outcome (Option Dec)) (k : PanicKind) (h : z = false → ∃ o, r = .ok o)
    (hk : opOfChecked z r = .panic k) : k = .divzero ∨ k = .overflow := by
  cases z
  · obtain ⟨o, ho⟩ := h rfl
    subst ho
    cases o <;> simp [opOfChecked] at hk
    exact Or.inr hk.symm
  · simp [opOfChecked] at hk
    exact Or.inl hk.symm

/-- an operator outcome allowed by an exact expectation is that value -/
theorem ok_of_allowed_val {o : Outcome Dec} {c : Int} {q : Nat} (h : Spec.allowedOp (.val c q) (outPair o) = true) :
    o = .ok ⟨c, q⟩ := by
  cases o with
  | panic k => simp [Spec.allowedOp] at h
  | ok d =>
    obtain ⟨c', q'⟩ := d
    simp [Spec.allowedOp] at h
    rw [h.1, h.2]

/-- an exact multiple of the divisor is its own rounding, in every mode … -/
theorem specRound_exact_mul (tm : Mode) (k t : Int) (ht : 0 < t) : Spec.specRound tm (k * t) t = k := by
  unfold Spec.specRound
  simp [Int.mul_emod_left, Int.mul_ediv_cancel k (Int.ne_of_gt ht)]

/-- … for a divisor of either sign -/
theorem specRoundQ_exact_mul (tm : Mode) (k d : Int) (hd : d ≠ 0) : Spec.specRoundQ tm (k * d) d = k := by
  unfold Spec.specRoundQ
  by_cases h : d < 0
  · simp only [h, if_true]
    rw [← Int.mul_neg]
    exact specRound_exact_mul tm k (-d) (by omega)
  · simp only [h, if_false]
    exact specRound_exact_mul tm k d (by omega)

/-- `2^127` is not a multiple of ten: a coefficient scaled by at least one digit is never `i128::MIN` -/
theorem mul_pow10_ne_min (k : Int) (m : Nat) (hm : 0 < m) : k * (10 : Int) ^ m ≠ I128_MIN := by
  obtain ⟨j, rfl⟩ : ∃ j, m = j + 1 := ⟨m - 1, by omega⟩
  have e : k * (10 : Int) ^ (j + 1) = 10 * (k * (10 : Int) ^ j) := by
    rw [Int.pow_succ, Int.mul_comm ((10 : Int) ^ j) 10, Int.mul_left_comm]
  rw [e]
  generalize k * (10 : Int) ^ j = z
  unfold I128_MIN; omega

/-- a value returned against a `valFit` expectation is the expected one, and it fits -/
theorem of_valFit_ok {c c' : Int} {q q' : Nat} (h : Spec.allowedOp (Spec.valFit c q) (.ok (c', q')) = true) :
    c' = c ∧ q' = q ∧ fitsI128 c = true := by
  rw [valFit_eq] at h
  by_cases hm : c = I128_MIN
  · simp [hm, Spec.allowedOp] at h
    refine ⟨by rw [h.1, hm], h.2, ?_⟩
    rw [hm]; decide
  · by_cases hf : fitsI128 c = true
    · simp [hm, hf, Spec.allowedOp] at h
      exact ⟨h.1, h.2, hf⟩
    · simp [hm, hf, Spec.allowedOp] at h

/-- away from `i128::MIN` the expectation `valFit` is sharp -/
theorem valFit_of_fits {c : Int} (p : Nat) (hm : c ≠ I128_MIN) (hf : fitsI128 c = true) : Spec.valFit c p = .val c p := by
  rw [valFit_eq]; simp [hm, hf]

theorem valFit_of_unfit {c : Int} (p : Nat) (hf : fitsI128 c = false) : Spec.valFit c p = .ovf := by
  have hm : c ≠ I128_MIN := by intro h; rw [h] at hf; exact absurd hf (by decide)
  rw [valFit_eq]; simp [hm, hf]

end Fpdec
