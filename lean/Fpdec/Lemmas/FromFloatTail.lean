import Fpdec.Lemmas.FromFloatRational

/-!
# `TryFrom<f64/f32>`: everything after the decode step, against the spec's rounding of `n/den`
-/

namespace Fpdec
open Fpdec.Model

/-- the part of `tryFromFloat` after the decode step (same code, `f.expBits = 11` abstracted) -/
def fromFloatTail (prof : Profile) (is64 : Prop) [Decidable is64] (significand : Nat) (exponent sign : Int) :
    Outcome (Except FloatErr Dec) := do
  if exponent < Gen.FROM_FLT_MIN_EXP then return .ok Dec.ZERO
  if exponent < 0 then do
    let numer ← plainI128 prof (sign * significand)
    let denom := IntTy.i128.cast ((2 : Int) ^ (-exponent).toNat)
    let (c, n) ← approxRational prof numer denom
    return .ok ⟨c, n⟩
  if is64 ∧ exponent ≥ 128 then return .error .overflow
  let numer ← plainI128 prof (sign * significand)
  if exponent.toNat ≥ 128 then (if prof.oc then .panic .arith else pure ()) else pure ()
  let shift := IntTy.i128.cast ((2 : Int) ^ (exponent.toNat % 128))
  match checkedI128 (numer * shift) with
  | some c => return .ok ⟨c, 0⟩
  | none => return .error .overflow

theorem tryFromFloat_eq (prof : Profile) (f : Spec.FloatFmt) (bits : Nat) :
    tryFromFloat prof f bits =
      if (bits >>> f.fracBits) &&& (2 ^ f.expBits - 1) = 2 ^ f.expBits - 1 ∧ bits &&& (2 ^ f.fracBits - 1) = 0 then
        .ok (.error .infinite)
      else if (bits >>> f.fracBits) &&& (2 ^ f.expBits - 1) = 2 ^ f.expBits - 1 then .ok (.error .nan)
      else floatDecode f bits >>= fun x => fromFloatTail prof (f.expBits = 11) x.1 x.2.1 x.2.2 := by
  rfl

/-- the spec's answer for the exact value `n/den` -/
def specOf (n den : Int) : Spec.FromFloatExp :=
  let r := Spec.specRound .heven (n * 10 ^ 18) den
  let (c, k) := Spec.normalizeSpec 19 r 18
  if c = -(2 : Int) ^ 127 then .valOrOvf c k
  else if Spec.fits c then .val c k
  else .overflow

theorem specOf_eq (n den : Int) :
    specOf n den =
      let ck := Spec.normalizeSpec 19 (Spec.specRound .heven (n * 10 ^ 18) den) 18
      if ck.1 = I128_MIN then .valOrOvf ck.1 ck.2 else if fitsI128 ck.1 = true then .val ck.1 ck.2 else .overflow := by
  unfold specOf I128_MIN
  simp only [pow2_127, spec_fits_eq]

theorem pow2_pos (n : Nat) : (0 : Int) < (2 : Int) ^ n := Int.pow_pos (by decide)

theorem pow2_mono {j k : Nat} (h : j ≤ k) : (2 : Int) ^ j ≤ (2 : Int) ^ k := by
  rcases Nat.lt_or_eq_of_le h with h | h
  · exact Int.le_of_lt (Int.pow_lt_pow_of_lt (by decide) h)
  · subst h; exact Int.le_refl _

theorem pow2_126 : (2 : Int) ^ 126 = 85070591730234615865843651857942052864 := by decide

/-- values below half a unit of the 18th digit -/
theorem specOf_tiny (n den : Int) (h1 : 2 * (n * 10 ^ 18) < den) (h2 : -den < 2 * (n * 10 ^ 18)) :
    specOf n den = .val 0 0 := by
  unfold specOf
  rw [heven_tiny _ _ h1 h2]
  decide

/-- a numerator below `2^53` over a power of two `≥ 2^127` is tiny -/
theorem specOf_tiny_pow (n : Int) (m : Nat) (hn1 : -9007199254740992 < n) (hn2 : n < 9007199254740992)
    (hm : 127 ≤ m) : specOf n ((2 : Int) ^ m) = .val 0 0 := by
  have hp := pow2_mono hm
  rw [pow2_127] at hp
  apply specOf_tiny <;> rw [pow10_18] <;> omega

/-- crude bound on the rounded quotient -/
theorem heven_bound (N d B : Int) (hd : 0 < d) (h1 : -B ≤ N) (h2 : N ≤ B) :
    -(B + 1) ≤ Spec.specRound .heven N d ∧ Spec.specRound .heven N d ≤ B + 1 := by
  have hr0 := Int.emod_nonneg N (Int.ne_of_gt hd)
  by_cases hN : 0 ≤ N
  · have hq0 : 0 ≤ N / d := Int.ediv_nonneg hN (Int.le_of_lt hd)
    have hq1 : N / d ≤ N := Int.ediv_le_self d hN
    rw [heven_nonneg N d hd]
    split <;> omega
  · have hq0 := ediv_ge_of_neg (x := N) (by omega) hd
    have hq1 : N / d < 0 := Int.ediv_neg_of_neg_of_pos (by omega) hd
    rw [heven_nonneg N d hd]
    split <;> omega

/-! ## the branches of the tail -/

theorem min_exp : Gen.FROM_FLT_MIN_EXP = -126 := rfl

/-- zero and subnormals: decode gives `(0, 0, 0)` -/
theorem tail_zero (prof : Profile) (is64 : Prop) [Decidable is64] :
    fromFloatTail prof is64 0 0 0 = .ok (.ok ⟨0, 0⟩) := by
  unfold fromFloatTail
  have f0 : fitsI128 0 = true := by decide
  have c0 : checkedI128 0 = some 0 := checkedI128_some f0
  simp [min_exp, plainI128_ok prof f0, c0]

/-- exponent below `-126`: zero -/
theorem tail_tiny (prof : Profile) (is64 : Prop) [Decidable is64] (S : Nat) (e sg : Int) (he : e < -126) :
    fromFloatTail prof is64 S e sg = .ok (.ok ⟨0, 0⟩) := by
  unfold fromFloatTail
  simp only [min_exp, he, if_true, Outcome.pure_eq]
  rfl

/-- `-126 ≤ exponent < 0`: the spec value, always representable -/
theorem tail_frac (prof : Profile) (is64 : Prop) [Decidable is64] (S : Nat) (e sg : Int)
    (hS0 : 0 < S) (hS : S < 9007199254740992) (hsg : sg = 1 ∨ sg = -1) (he1 : -126 ≤ e) (he2 : e < 0) :
    ∃ c k, fromFloatTail prof is64 S e sg = .ok (.ok ⟨c, k⟩) ∧
      specOf (sg * S) ((2 : Int) ^ (-e).toNat) = .val c k := by
  obtain ⟨m, hm, hm1, hm2⟩ : ∃ m : Nat, (-e).toNat = m ∧ 1 ≤ m ∧ m ≤ 126 := ⟨_, rfl, by omega, by omega⟩
  rw [hm]
  have hp1 := pow2_mono hm1
  have hp2 := pow2_mono hm2
  rw [pow2_126] at hp2
  rw [Int.pow_one] at hp1
  have hn0 : sg * (S : Int) ≠ 0 := by rcases hsg with h | h <;> rw [h] <;> simp only [Int.one_mul, Int.neg_mul] <;> omega
  have hn1 : -9007199254740992 < sg * (S : Int) := by rcases hsg with h | h <;> rw [h] <;> simp only [Int.one_mul, Int.neg_mul] <;> omega
  have hn2 : sg * (S : Int) < 9007199254740992 := by rcases hsg with h | h <;> rw [h] <;> simp only [Int.one_mul, Int.neg_mul] <;> omega
  have fn : fitsI128 (sg * (S : Int)) = true := by rw [fitsI128_iff]; unfold I128_MIN I128_MAX; omega
  have hcast : IntTy.i128.cast ((2 : Int) ^ m) = (2 : Int) ^ m :=
    i128_cast_id (by unfold I128_MIN; have := pow2_pos m; omega) (by unfold I128_MAX; omega)
  have hspec := approxRational_spec prof (sg * S) ((2 : Int) ^ m) hp1 hp2 hn0 hn1 hn2
  refine ⟨(Spec.normalizeSpec 19 (Spec.specRound .heven (sg * S * 10 ^ 18) ((2 : Int) ^ m)) 18).1,
    (Spec.normalizeSpec 19 (Spec.specRound .heven (sg * S * 10 ^ 18) ((2 : Int) ^ m)) 18).2, ?_, ?_⟩
  · unfold fromFloatTail
    have h1 : ¬ e < -126 := by omega
    simp only [min_exp, h1, if_false, he2, if_true, plainI128_ok prof fn, Outcome.bind_ok, hm, hcast, hspec,
      Outcome.pure_eq]
  · rw [specOf_eq]
    simp only []
    -- the coefficient is far inside the i128 range
    have hN1 : -9007199254740992000000000000000000 ≤ sg * (S : Int) * 10 ^ 18 := by rw [pow10_18]; omega
    have hN2 : sg * (S : Int) * 10 ^ 18 ≤ 9007199254740992000000000000000000 := by rw [pow10_18]; omega
    have hb := heven_bound _ _ _ (pow2_pos m) hN1 hN2
    have hle := normalizeSpec_natAbs_le 19 (Spec.specRound .heven (sg * S * 10 ^ 18) ((2 : Int) ^ m)) 18
    generalize Spec.specRound .heven (sg * S * 10 ^ 18) ((2 : Int) ^ m) = r at *
    generalize Spec.normalizeSpec 19 r 18 = ck at *
    have hne : ¬ ck.1 = I128_MIN := by unfold I128_MIN; omega
    have hfit : fitsI128 ck.1 = true := by rw [fitsI128_iff]; unfold I128_MIN I128_MAX; omega
    simp only [hne, if_false, hfit, if_true]

/-- integral values: nothing to round, nothing to strip -/
theorem specOf_int (N : Int) (hN : N ≠ 0) :
    specOf N 1 = if N = I128_MIN then .valOrOvf N 0 else if fitsI128 N = true then .val N 0 else .overflow := by
  rw [specOf_eq]
  have h1 : Spec.specRound .heven (N * 10 ^ 18) 1 = N * 10 ^ 18 := by
    rw [specRound_exact _ _ _ (Int.emod_one _), Int.ediv_one]
  have h2 : Spec.normalizeSpec 19 (N * 10 ^ 18) 18 = Spec.normalizeSpec 1 N 0 := normalizeSpec_strip N hN 18 1 0
  have h3 : Spec.normalizeSpec 1 N 0 = (N, 0) := by
    unfold Spec.normalizeSpec; simp [hN]
  rw [h1, h2, h3]

theorem pow2_128' : (2 : Int) ^ 128 = 340282366920938463463374607431768211456 := by decide


/-- the integral branch of the tail, unfolded -/
theorem tail_int_eq (prof : Profile) (is64 : Prop) [Decidable is64] (S : Nat) (e sg : Int)
    (h1 : ¬ e < Gen.FROM_FLT_MIN_EXP) (h2 : ¬ e < 0) (hc : ¬ (is64 ∧ e ≥ 128)) (hk : ¬ e.toNat ≥ 128)
    (fn : plainI128 prof (sg * S) = .ok (sg * S)) :
    fromFloatTail prof is64 S e sg =
      match checkedI128 (sg * S * IntTy.i128.cast ((2 : Int) ^ (e.toNat % 128))) with
      | some c => .ok (.ok ⟨c, 0⟩)
      | none => .ok (.error .overflow) := by
  unfold fromFloatTail
  rw [if_neg h1, if_neg h2, if_neg hc, fn, Outcome.bind_ok]
  simp only []
  rw [if_neg hk]
  rfl

/-- `exponent ≥ 0`: exact value or overflow, decided by `checked_mul`; `-2^127` itself is returned as a value -/
theorem tail_int (prof : Profile) (is64 : Prop) [Decidable is64] (S : Nat) (e sg : Int)
    (hS0 : 2 ≤ S) (hS : S < 9007199254740992) (hsg : sg = 1 ∨ sg = -1) (he : 0 ≤ e) (h32 : ¬ is64 → e < 128) :
    (fromFloatTail prof is64 S e sg = .ok (.error .overflow) ∧ specOf (sg * S * (2 : Int) ^ e.toNat) 1 = .overflow) ∨
    ∃ c, fromFloatTail prof is64 S e sg = .ok (.ok ⟨c, 0⟩) ∧
      (specOf (sg * S * (2 : Int) ^ e.toNat) 1 = .val c 0 ∨ specOf (sg * S * (2 : Int) ^ e.toNat) 1 = .valOrOvf c 0) := by
  have hP0 := pow2_pos e.toNat
  have hNne : sg * (S : Int) * (2 : Int) ^ e.toNat ≠ 0 := by
    apply Int.mul_ne_zero _ (Int.ne_of_gt hP0)
    rcases hsg with h | h <;> rw [h] <;> simp only [Int.one_mul, Int.neg_mul] <;> omega
  have fn : fitsI128 (sg * (S : Int)) = true := by
    rw [fitsI128_iff]; unfold I128_MIN I128_MAX; rcases hsg with h | h <;> rw [h] <;> simp only [Int.one_mul, Int.neg_mul] <;> omega
  have h1 : ¬ e < -126 := by omega
  have h2 : ¬ e < 0 := by omega
  rw [specOf_int _ hNne]
  by_cases hbig : 128 ≤ e
  · -- f64 only
    have h64 : is64 := by
      apply Decidable.byContradiction; intro h; have := h32 h; omega
    left
    constructor
    · unfold fromFloatTail
      have hc : is64 ∧ e ≥ 128 := ⟨h64, hbig⟩
      simp only [min_exp, h1, h2, if_false, hc, and_self, if_true, Outcome.pure_eq]
    · have hP := pow2_mono (show 128 ≤ e.toNat by omega)
      rw [pow2_128'] at hP
      generalize (2 : Int) ^ e.toNat = P at *
      have hSP : 2 * P ≤ (S : Int) * P := Int.mul_le_mul_of_nonneg_right (by omega) (by omega)
      have hne : ¬ sg * (S : Int) * P = I128_MIN := by
        unfold I128_MIN; rcases hsg with h | h <;> rw [h] <;> simp only [Int.one_mul, Int.neg_mul] <;> omega
      have hnf : ¬ fitsI128 (sg * (S : Int) * P) = true := by
        rw [fitsI128_iff]; unfold I128_MIN I128_MAX; rcases hsg with h | h <;> rw [h] <;> simp only [Int.one_mul, Int.neg_mul] <;> omega
      simp only [hne, hnf, if_false, Bool.false_eq_true]
  · have hc : ¬ (is64 ∧ e ≥ 128) := by intro h; omega
    have hk : ¬ e.toNat ≥ 128 := by omega
    have hmod : e.toNat % 128 = e.toNat := Nat.mod_eq_of_lt (by omega)
    by_cases h127 : e.toNat = 127
    · left
      have hcast : IntTy.i128.cast ((2 : Int) ^ 127) = -170141183460469231731687303715884105728 := by
        unfold IntTy.cast IntTy.wrap IntTy.i128
        simp only [if_true]
        have e1 : (2 : Int) ^ (128 - 1) = 170141183460469231731687303715884105728 := by decide
        rw [e1, pow2_128']; omega
      have hnf1 : fitsI128 (sg * (S : Int) * -170141183460469231731687303715884105728) = false := by
        rw [Bool.eq_false_iff, Ne, fitsI128_iff]; unfold I128_MIN I128_MAX
        rcases hsg with h | h <;> rw [h] <;> simp only [Int.one_mul, Int.neg_mul] <;> omega
      constructor
      · rw [tail_int_eq prof is64 S e sg (by rw [min_exp]; omega) h2 hc hk (plainI128_ok prof fn), hmod, h127, hcast,
          checkedI128_none hnf1]
      · rw [h127, pow2_127]
        have hne : ¬ sg * (S : Int) * 170141183460469231731687303715884105728 = I128_MIN := by
          unfold I128_MIN; rcases hsg with h | h <;> rw [h] <;> simp only [Int.one_mul, Int.neg_mul] <;> omega
        have hnf : ¬ fitsI128 (sg * (S : Int) * 170141183460469231731687303715884105728) = true := by
          rw [fitsI128_iff]; unfold I128_MIN I128_MAX; rcases hsg with h | h <;> rw [h] <;> simp only [Int.one_mul, Int.neg_mul] <;> omega
        simp only [hne, hnf, if_false, Bool.false_eq_true]
    · have hP := pow2_mono (show e.toNat ≤ 126 by omega)
      rw [pow2_126] at hP
      have hcast : IntTy.i128.cast ((2 : Int) ^ e.toNat) = (2 : Int) ^ e.toNat :=
        i128_cast_id (by unfold I128_MIN; omega) (by unfold I128_MAX; omega)
      by_cases hfit : fitsI128 (sg * (S : Int) * (2 : Int) ^ e.toNat) = true
      · right
        refine ⟨sg * (S : Int) * (2 : Int) ^ e.toNat, ?_, ?_⟩
        · rw [tail_int_eq prof is64 S e sg (by rw [min_exp]; omega) h2 hc hk (plainI128_ok prof fn), hmod, hcast,
            checkedI128_some hfit]
        · by_cases hmin : sg * (S : Int) * (2 : Int) ^ e.toNat = I128_MIN
          · right; simp only [hmin, if_true]
          · left; simp only [hmin, if_false, hfit, if_true]
      · left
        have hfit' : fitsI128 (sg * (S : Int) * (2 : Int) ^ e.toNat) = false := by simpa using hfit
        constructor
        · rw [tail_int_eq prof is64 S e sg (by rw [min_exp]; omega) h2 hc hk (plainI128_ok prof fn), hmod, hcast,
            checkedI128_none hfit']
        · have hmin : ¬ sg * (S : Int) * (2 : Int) ^ e.toNat = I128_MIN := by
            intro h; rw [h] at hfit; exact hfit (by decide)
          simp only [hmin, if_false, hfit, Bool.false_eq_true]

end Fpdec
