import Fpdec.Lemmas.Rounding
import Mathlib.Tactic.Linarith
import Mathlib.Tactic.Ring
import Mathlib.Tactic.Positivity
import Mathlib.Tactic.NormNum
import Mathlib.Tactic.IntervalCases

/-!
# `u128_msb` returns the index of the most significant bit (helper for C16)
-/

namespace Fpdec.Wide
open Fpdec Fpdec.Model

theorem and_shl_mask (v k : Nat) (hv : v < 2 ^ k * 2 ^ k) :
    v &&& ((2 ^ k - 1) <<< k) = (v / 2 ^ k) * 2 ^ k := by
  have h1 : v &&& ((2 ^ k - 1) <<< k) = ((v >>> k) &&& (2 ^ k - 1)) <<< k := by
    apply Nat.eq_of_testBit_eq
    intro i
    simp only [Nat.testBit_and, Nat.testBit_shiftLeft, Nat.testBit_shiftRight]
    by_cases h : k ≤ i
    · simp [h]
    · simp [h]
  rw [h1, Nat.and_two_pow_sub_one_eq_mod, Nat.shiftLeft_eq, Nat.shiftRight_eq_div_pow]
  have : v / 2 ^ k < 2 ^ k := by
    rw [Nat.div_lt_iff_lt_mul (Nat.two_pow_pos k)]; exact hv
  rw [Nat.mod_eq_of_lt this]

theorem msbStep_eq (v n k : Nat) (hv : v < 2 ^ k * 2 ^ k) :
    msbStep ((2 ^ k - 1) <<< k) k (n, v) = if 2 ^ k ≤ v then (n + k, v / 2 ^ k) else (n, v) := by
  unfold msbStep
  simp only [and_shl_mask v k hv, Nat.shiftRight_eq_div_pow]
  have hp := Nat.two_pow_pos k
  by_cases h : 2 ^ k ≤ v
  · have : 0 < v / 2 ^ k := Nat.div_pos h hp
    have : v / 2 ^ k * 2 ^ k ≠ 0 := by positivity
    simp [h, this]
  · have : v / 2 ^ k = 0 := Nat.div_eq_of_lt (by omega)
    simp [h, this]

theorem msbStep_inv (i k : Nat) (st : Nat × Nat) (hv : st.2 < 2 ^ k * 2 ^ k) (hpos : 0 < st.2)
    (hinv : st.2 * 2 ^ st.1 ≤ i ∧ i < (st.2 + 1) * 2 ^ st.1) :
    (msbStep ((2 ^ k - 1) <<< k) k st).2 < 2 ^ k ∧ 0 < (msbStep ((2 ^ k - 1) <<< k) k st).2 ∧
    ((msbStep ((2 ^ k - 1) <<< k) k st).2 * 2 ^ (msbStep ((2 ^ k - 1) <<< k) k st).1 ≤ i ∧
      i < ((msbStep ((2 ^ k - 1) <<< k) k st).2 + 1) * 2 ^ (msbStep ((2 ^ k - 1) <<< k) k st).1) ∧
    (msbStep ((2 ^ k - 1) <<< k) k st).1 ≤ st.1 + k := by
  obtain ⟨n, v⟩ := st
  simp only at hv hpos hinv
  rw [msbStep_eq v n k hv]
  have hK := Nat.two_pow_pos k
  split
  next h =>
    simp only
    have hd := Nat.div_add_mod v (2 ^ k)
    have hm := Nat.mod_lt v hK
    have hdp : 0 < v / 2 ^ k := Nat.div_pos h hK
    have hdl : v / 2 ^ k < 2 ^ k := by
      rw [Nat.div_lt_iff_lt_mul hK]; exact hv
    rw [Nat.pow_add]
    generalize 2 ^ k = K at *
    generalize 2 ^ n = P at *
    generalize v / K = d at *
    generalize v % K = r at *
    obtain ⟨h1, h2⟩ := hinv
    refine ⟨hdl, hdp, ⟨?_, ?_⟩, le_refl _⟩
    · have : d * (P * K) ≤ v * P := by subst hd; nlinarith
      omega
    · have : (v + 1) * P ≤ (d + 1) * (P * K) := by subst hd; nlinarith
      omega
  next h =>
    simp only
    exact ⟨by omega, hpos, hinv, by omega⟩

theorem msb_idx_map : ∀ v : Nat, v < 16 → 0 < v → ∃ m : Nat, 1 ≤ m ∧ m ≤ 4 ∧ 2 ^ (m - 1) ≤ v ∧ v + 1 ≤ 2 ^ m ∧
    Gen.MSB_IDX_MAP[v]? = some m := by
  intro v hv h0
  interval_cases v
  · exact ⟨1, by decide⟩
  · exact ⟨2, by decide⟩
  · exact ⟨2, by decide⟩
  · exact ⟨3, by decide⟩
  · exact ⟨3, by decide⟩
  · exact ⟨3, by decide⟩
  · exact ⟨3, by decide⟩
  · exact ⟨4, by decide⟩
  · exact ⟨4, by decide⟩
  · exact ⟨4, by decide⟩
  · exact ⟨4, by decide⟩
  · exact ⟨4, by decide⟩
  · exact ⟨4, by decide⟩
  · exact ⟨4, by decide⟩
  · exact ⟨4, by decide⟩

theorem u128Msb_spec (prof : Profile) (i : Nat) (h0 : 0 < i) (h1 : i < 2 ^ 128) :
    ∃ m, u128Msb prof i = .ok m ∧ 2 ^ m ≤ i ∧ i < 2 ^ (m + 1) := by
  unfold u128Msb
  have hda : debugAssert prof (i != 0) = .ok () := by
    have : i ≠ 0 := by omega
    simp [debugAssert, this]
  rw [hda]
  simp only
  have s1 := msbStep_inv i 64 (0, i) (by simpa using h1) h0 (by simp)
  rw [show (2 ^ 64 - 1 : Nat) = 0xffffffffffffffff from by norm_num] at s1
  generalize msbStep (0xffffffffffffffff <<< 64) 64 (0, i) = st1 at *
  obtain ⟨a1, b1, c1, d1⟩ := s1
  have s2 := msbStep_inv i 32 st1 (by simpa using a1) b1 c1
  rw [show (2 ^ 32 - 1 : Nat) = 0xffffffff from by norm_num] at s2
  generalize msbStep (0xffffffff <<< 32) 32 st1 = st2 at *
  obtain ⟨a2, b2, c2, d2⟩ := s2
  have s3 := msbStep_inv i 16 st2 (by simpa using a2) b2 c2
  rw [show (2 ^ 16 - 1 : Nat) = 0xffff from by norm_num] at s3
  generalize msbStep (0xffff <<< 16) 16 st2 = st3 at *
  obtain ⟨a3, b3, c3, d3⟩ := s3
  have s4 := msbStep_inv i 8 st3 (by simpa using a3) b3 c3
  rw [show (2 ^ 8 - 1 : Nat) = 0xff from by norm_num] at s4
  generalize msbStep (0xff <<< 8) 8 st3 = st4 at *
  obtain ⟨a4, b4, c4, d4⟩ := s4
  have s5 := msbStep_inv i 4 st4 (by simpa using a4) b4 c4
  rw [show ((2 ^ 4 - 1) <<< 4 : Nat) = 0xf0 from by decide] at s5
  generalize msbStep 0xf0 4 st4 = st5 at *
  obtain ⟨a5, b5, c5, d5⟩ := s5
  obtain ⟨n, v⟩ := st5
  simp only at a5 b5 c5 d5 ⊢
  have hn : n ≤ 124 := by simp only at d1; omega
  obtain ⟨m, hm1, hm4, hlo, hhi, hmap⟩ := msb_idx_map v a5 b5
  rw [hmap]
  simp only
  have e1 : plainU8 prof ((n : Int) + (m : Int)) = .ok (n + m) := by
    unfold plainU8
    rw [if_pos (by omega)]
    congr 1
  rw [e1]
  simp only
  have e2 : plainU8 prof (((n + m : Nat) : Int) - 1) = .ok (n + m - 1) := by
    unfold plainU8
    rw [if_pos (by omega)]
    have : (((n + m : Nat) : Int) - 1).toNat = n + m - 1 := by omega
    rw [this]
  refine ⟨n + m - 1, e2, ?_, ?_⟩
  · have : n + m - 1 = (m - 1) + n := by omega
    rw [this, Nat.pow_add]
    have := Nat.mul_le_mul_right (2 ^ n) hlo
    omega
  · have : n + m - 1 + 1 = m + n := by omega
    rw [this, Nat.pow_add]
    have := Nat.mul_le_mul_right (2 ^ n) hhi
    omega

end Fpdec.Wide
