import Fpdec.Lemmas.Rounding
import Fpdec.Lemmas.IntTy
import Fpdec.Lemmas.UnaryDiv
import Fpdec.Lemmas.UnaryLog
import Mathlib.Tactic.Linarith

/-!
# C15 / C14 — floor, ceil, trunc, fract, neg, abs, magnitude, predicates; integer conversions

Model: Fpdec/Model/Decimal.lean (`neg`, `abs`, `divFloorI128`, `divCeilI128`, `floor`, `ceil`, `trunc`, `fract`, `magnitude`,
`eqZero`, `eqOne`, `isNegative`, `isPositive`, `fromInt`, `tryFromU128`, `intoI128`, `intoInt`), Fpdec/Model/Core.lean (`log10U8`,
`lessThan5`, `log10U16/U32/U64/U128`, `i128Magnitude`) — mirrors of /repo/src/unops.rs, /repo/src/lib.rs (`magnitude`),
/repo/fpdec-core/src/lib.rs (the int_log10 copy), /repo/src/from_int.rs, /repo/src/into_int.rs.  The constants of the log10 bit
trick are `Gen.LOG_*` (generated from the source; reduce by `decide`/`rfl`).  Spec: `Spec.floor/ceil/trunc/fract/magnitude/ilog10/intoInt`
in Spec/Arith.lean.  `tenPow_ok`, `i128DivModFloor_pos`-style facts and `Int.tdiv_eq_ediv`/`Int.tmod_eq_emod` are available.
A prototype of the table lemma for `lessThan5` is /verif/notes/lean-prototypes/Log.lean (`decide +kernel` over 100000 values, ~90 s:
acceptable once; put it in its own file so that it is compiled once).
-/

namespace Fpdec
open Fpdec.Model

theorem floor_spec (prof : Profile) (d : Dec) (hd : Dom d) :
    floor prof d = .ok ⟨(Spec.floor d.coeff d.nfrac).1, 0⟩ := by
  obtain ⟨c, n⟩ := d
  have hf := hd.fits
  obtain ⟨h1, h2, h3⟩ := hd
  simp only at h1 h2 h3 hf
  unfold floor Spec.floor
  simp only
  split
  · simp
  · rw [tenPow_ok n (by omega)]
    simp only [Outcome.bind_ok]
    rw [divFloorI128_pos prof c _ hf (pow10_pos n)]
    rfl

theorem ceil_spec (prof : Profile) (d : Dec) (hd : Dom d) :
    ceil prof d = .ok ⟨(Spec.ceil d.coeff d.nfrac).1, 0⟩ := by
  obtain ⟨c, n⟩ := d
  have hf := hd.fits
  obtain ⟨h1, h2, h3⟩ := hd
  simp only at h1 h2 h3 hf
  unfold ceil Spec.ceil
  simp only
  split
  · simp
  · rw [tenPow_ok n (by omega)]
    simp only [Outcome.bind_ok]
    rw [divCeilI128_pos prof c _ hf h1 (pow10_pos n)]
    rfl

theorem trunc_spec (d : Dec) (hd : Dom d) : trunc d = .ok ⟨(Spec.trunc d.coeff d.nfrac).1, 0⟩ := by
  obtain ⟨c, n⟩ := d
  obtain ⟨h1, h2, h3⟩ := hd
  simp only at h1 h2 h3
  unfold trunc Spec.trunc
  simp only
  split
  · simp
  · rw [tenPow_ok n (by omega)]
    simp only [Outcome.bind_ok]
    rw [divI128_pos c _ (pow10_pos n)]
    rfl

theorem fract_spec (d : Dec) (hd : Dom d) :
    fract d = .ok ⟨(Spec.fract d.coeff d.nfrac).1, (Spec.fract d.coeff d.nfrac).2⟩ := by
  obtain ⟨c, n⟩ := d
  obtain ⟨h1, h2, h3⟩ := hd
  simp only at h1 h2 h3
  unfold fract Spec.fract
  simp only
  split
  · simp [Dec.ZERO]
  · rename_i hn
    have hn0 : n ≠ 0 := fun h => hn h
    rw [tenPow_ok n (by omega)]
    simp only [Outcome.bind_ok]
    rw [remI128_pos c _ (pow10_pos n)]
    simp [hn0]

theorem neg_spec (prof : Profile) (d : Dec) (hd : Dom d) : neg prof d = .ok ⟨-d.coeff, d.nfrac⟩ := by
  obtain ⟨h1, h2, h3⟩ := hd
  have f : fitsI128 (-d.coeff) = true := by rw [fitsI128_iff]; unfold I128_MIN I128_MAX at *; omega
  unfold neg negI128
  rw [plainI128_ok prof f]
  rfl

theorem abs_spec (prof : Profile) (d : Dec) (hd : Dom d) : abs prof d = .ok ⟨d.coeff.natAbs, d.nfrac⟩ := by
  obtain ⟨h1, h2, h3⟩ := hd
  have f : fitsI128 (if d.coeff < 0 then -d.coeff else d.coeff) = true := by
    rw [fitsI128_iff]; unfold I128_MIN I128_MAX at *; split <;> omega
  unfold Model.abs
  rw [plainI128_ok prof f]
  simp only [Outcome.bind_ok, Outcome.pure_eq]
  congr 2
  split <;> omega

/-- the statement's inequalities, without fractions: `floor(d) ≤ d < floor(d)+1`, `ceil(d)-1 < d ≤ ceil(d)`,
    `trunc` towards zero, `trunc + fract = d` with `fract` carrying d's sign and scale -/
theorem floor_ceil_trunc_props (a : Int) (p : Nat) :
    (Spec.floor a p).1 * (10 : Int) ^ p ≤ a ∧ a < ((Spec.floor a p).1 + 1) * (10 : Int) ^ p ∧
    ((Spec.ceil a p).1 - 1) * (10 : Int) ^ p < a ∧ a ≤ (Spec.ceil a p).1 * (10 : Int) ^ p ∧
    (Spec.trunc a p).1 * (10 : Int) ^ p + a.tmod ((10 : Int) ^ p) = a ∧
    ((Spec.trunc a p).1.natAbs * 10 ^ p ≤ a.natAbs) ∧
    (a.tmod ((10 : Int) ^ p) = 0 ∨ (0 < a.tmod ((10 : Int) ^ p) ∧ 0 < a) ∨ (a.tmod ((10 : Int) ^ p) < 0 ∧ a < 0)) := by
  unfold Spec.floor Spec.ceil Spec.trunc
  simp only
  have ht : (0 : Int) < (10 : Int) ^ p := pow10_pos p
  have hnat : (a.tdiv ((10 : Int) ^ p)).natAbs * 10 ^ p ≤ a.natAbs := by
    rw [Int.natAbs_tdiv, Int.natAbs_pow]
    exact Nat.div_mul_le_self _ _
  revert hnat
  generalize (10 : Nat) ^ p = tn
  generalize (10 : Int) ^ p = t at ht
  intro hnat
  have e1 := Int.ediv_mul_add_emod a t
  have e2 := Int.emod_nonneg a (Int.ne_of_gt ht)
  have e3 := Int.emod_lt_of_pos a ht
  have f1 := Int.ediv_mul_add_emod (-a) t
  have f2 := Int.emod_nonneg (-a) (Int.ne_of_gt ht)
  have f3 := Int.emod_lt_of_pos (-a) ht
  refine ⟨by linarith, by linarith, by linarith, by linarith, ?_, ?_, ?_⟩
  · have := Int.tmod_add_tdiv_mul a t; omega
  · exact hnat
  · rcases Int.lt_trichotomy a 0 with h | h | h
    · have h' := Int.tmod_nonneg t (show 0 ≤ -a by omega)
      rw [Int.neg_tmod] at h'
      omega
    · subst h; simp
    · have h' := Int.tmod_nonneg t (show 0 ≤ a by omega)
      omega

/-- `⌊log10 n⌋` characterised -/
theorem ilog10_spec (n : Nat) (h0 : 0 < n) (h : n < 10 ^ 39) :
    10 ^ (Spec.ilog10 64 n) ≤ n ∧ n < 10 ^ (Spec.ilog10 64 n + 1) := by
  have h64 : n < 10 ^ 64 := by
    have : (10 : Nat) ^ 39 ≤ 10 ^ 64 := by decide
    omega
  exact ilog10_isLog 64 n h0 h64

/-- the int_log10 copy: `i128_magnitude(i) = ⌊log10 |i|⌋` for every non-zero i128 (and 0 for 0) -/
theorem i128Magnitude_spec (i : Int) (hi : I128_MIN ≤ i ∧ i ≤ I128_MAX) :
    i128Magnitude i = if i = 0 then 0 else Spec.ilog10 64 i.natAbs := by
  unfold i128Magnitude
  by_cases h0 : i = 0
  · subst h0; simp [log10U128_zero]
  · simp only [h0, if_false]
    have hpos : 0 < i.natAbs := by omega
    have hlt : i.natAbs < 340282366920938463463374607431768211456 := by
      unfold I128_MIN I128_MAX at hi; omega
    have h39 : i.natAbs < 10 ^ 39 := by
      have : (340282366920938463463374607431768211456 : Nat) ≤ 10 ^ 39 := by decide
      omega
    have hm := log10U128_isLog i.natAbs hpos hlt
    have hs := ilog10_spec i.natAbs hpos h39
    have := IsLog10.unique hm hs
    have hk := IsLog10.lt_of_lt hm h39
    rw [← this]; omega

/-- `magnitude()`: position of the most significant digit, 0 for every zero value -/
theorem magnitude_spec (prof : Profile) (d : Dec) (hd : Dom d) :
    magnitude prof d = .ok (Spec.magnitude d.coeff d.nfrac) := by
  obtain ⟨h1, h2, h3⟩ := hd
  unfold magnitude Spec.magnitude
  by_cases h0 : d.coeff = 0
  · simp [h0]
  · simp only [h0, if_false]
    rw [i128Magnitude_spec d.coeff ⟨by omega, h2⟩]
    simp only [h0, if_false]
    have hpos : 0 < d.coeff.natAbs := by omega
    have h39 : d.coeff.natAbs < 10 ^ 39 := by
      have : (340282366920938463463374607431768211456 : Nat) ≤ 10 ^ 39 := by decide
      unfold I128_MIN I128_MAX at *; omega
    have hk := IsLog10.lt_of_lt (ilog10_spec d.coeff.natAbs hpos h39) h39
    rw [i8_cast_id (by omega) (by omega), i8_cast_id (by omega) (by omega)]
    rw [i8_plain_ok prof (by omega) (by omega)]

/-- predicates reflect the value irrespective of the representation -/
theorem predicates_spec (d : Dec) (hd : Dom d) :
    eqZero d = decide (d.coeff = 0) ∧ eqOne d = .ok (decide (d.coeff = (10 : Int) ^ d.nfrac)) ∧
    isNegative d = decide (d.coeff < 0) ∧ isPositive d = decide (d.coeff > 0) := by
  obtain ⟨h1, h2, h3⟩ := hd
  refine ⟨rfl, ?_, rfl, rfl⟩
  unfold eqOne
  rw [tenPow_ok d.nfrac (by omega)]
  rfl

/-! ### C14 -/

/-- the ten target types -/
def IsTargetTy (t : IntTy) : Prop :=
  t = IntTy.u8 ∨ t = IntTy.i8 ∨ t = IntTy.u16 ∨ t = IntTy.i16 ∨ t = IntTy.u32 ∨ t = IntTy.i32 ∨ t = IntTy.u64 ∨ t = IntTy.i64 ∨
  t = IntTy.u128 ∨ t = IntTy.i128

/-- `T::try_from(d)`: `Ok v` iff the value is the integer `v ∈ T`; `NotAnIntValue` iff not integral (whatever its range);
    `ValueOutOfRange` otherwise -/
theorem intoInt_spec (t : IntTy) (ht : IsTargetTy t) (d : Dec) (hd : Dom d) :
    intoInt t d = .ok (match Spec.intoInt t d.coeff d.nfrac with
      | .ok v => .ok v
      | .error false => .error .notAnInt
      | .error true => .error .outOfRange) := by
  obtain ⟨c, n⟩ := d
  obtain ⟨h1, h2, h3⟩ := hd
  simp only at h1 h2 h3
  unfold intoInt intoI128 Spec.intoInt
  simp only
  by_cases hn : n = 0
  · subst hn
    simp only [true_or, if_true, Outcome.bind_ok]
    simp only [Int.pow_zero, Int.emod_one, Int.ediv_one, ne_eq, not_true_eq_false, if_false]
    split <;> rfl
  · by_cases hc : c = 0
    · subst hc
      simp only [or_true, if_true, Outcome.bind_ok]
      simp only [Int.zero_emod, Int.zero_ediv, ne_eq, not_true_eq_false, if_false]
      split <;> rfl
    · have hcond : ¬ (n = 0 ∨ c = 0) := by omega
      simp only [hcond, if_false]
      rw [tenPow_ok n (by omega)]
      simp only [Outcome.bind_ok]
      rw [remI128_pos c _ (pow10_pos n), divI128_pos c _ (pow10_pos n)]
      simp only [Outcome.bind_ok]
      have hz := tmod_zero_iff c ((10 : Int) ^ n)
      by_cases hr : c % (10 : Int) ^ n = 0
      · have hr' := hz.mpr hr
        have hq : c.tdiv ((10 : Int) ^ n) = c / (10 : Int) ^ n :=
          Int.tdiv_eq_ediv_of_dvd (Int.dvd_of_emod_eq_zero hr)
        simp only [hr', hr, hq, if_true, Outcome.bind_ok, Outcome.pure_eq, ne_eq, not_true_eq_false, if_false]
        split <;> rfl
      · have hr' : ¬ c.tmod ((10 : Int) ^ n) = 0 := fun h => hr (hz.mp h)
        simp only [hr', hr, if_false, Outcome.bind_ok, Outcome.pure_eq, ne_eq, not_false_eq_true, if_true]

/-- what `Spec.intoInt` means -/
theorem spec_intoInt_meaning (t : IntTy) (a : Int) (p : Nat) :
    (∀ v, Spec.intoInt t a p = .ok v ↔ (a = v * (10 : Int) ^ p ∧ t.fits v = true)) ∧
    (Spec.intoInt t a p = .error false ↔ ¬ ∃ v : Int, a = v * (10 : Int) ^ p) := by
  have ht : (0 : Int) < (10 : Int) ^ p := pow10_pos p
  unfold Spec.intoInt
  simp only
  generalize (10 : Int) ^ p = d at ht
  have hne : d ≠ 0 := Int.ne_of_gt ht
  constructor
  · intro v
    by_cases hr : a % d = 0
    · have hmul : a / d * d = a := Int.ediv_mul_cancel_of_emod_eq_zero hr
      simp only [hr, ne_eq, not_true_eq_false, if_false]
      constructor
      · intro h
        split at h
        · rename_i hfit
          injection h with h
          subst h
          exact ⟨hmul.symm, hfit⟩
        · cases h
      · rintro ⟨h1, h2⟩
        have : a / d = v := by rw [h1]; exact Int.mul_ediv_cancel v hne
        rw [this, if_pos h2]
    · simp only [hr, ne_eq, not_false_eq_true, if_true]
      constructor
      · intro h; cases h
      · rintro ⟨h1, _⟩
        exfalso; apply hr; rw [h1]; exact Int.mul_emod_left v d
  · by_cases hr : a % d = 0
    · have hmul : a / d * d = a := Int.ediv_mul_cancel_of_emod_eq_zero hr
      simp only [hr, ne_eq, not_true_eq_false, if_false]
      constructor
      · intro h
        split at h <;> cases h
      · intro h; exact absurd ⟨a / d, hmul.symm⟩ h
    · simp only [hr, ne_eq, not_false_eq_true, if_true, true_iff]
      rintro ⟨v, h1⟩
      apply hr; rw [h1]; exact Int.mul_emod_left v d

theorem fromInt_spec (i : Int) : fromInt i = ⟨i, 0⟩ := rfl

theorem tryFromU128_spec (i : Nat) :
    tryFromU128 i = if (i : Int) ≤ I128_MAX then some ⟨i, 0⟩ else none := by
  rfl

end Fpdec
