import Fpdec.Lemmas.FromFloatApprox

/-!
# `approx_rational(n, d)` is the half-even rounding of `n/d` to 18 digits, normalized
-/

namespace Fpdec
open Fpdec.Model

theorem i128_cast_id {x : Int} (h0 : I128_MIN ≤ x) (h1 : x ≤ I128_MAX) : IntTy.i128.cast x = x := by
  unfold IntTy.cast IntTy.wrap IntTy.i128
  simp only [if_true]
  have e1 : (2 : Int) ^ (128 - 1) = 170141183460469231731687303715884105728 := by decide
  have e2 : (2 : Int) ^ 128 = 340282366920938463463374607431768211456 := by decide
  rw [e1, e2]; unfold I128_MIN I128_MAX at *; omega

theorem scaled_le18 (a : Int) (j : Nat) (ha : 0 < a) (ha2 : a < 9007199254740992) (hj : j ≤ 18) :
    0 < a * 10 ^ j ∧ a * 10 ^ j < 9007199254740992000000000000000000 := by
  have h1 := pow10_mono hj
  have h0 := pow10_pos j
  rw [pow10_18] at h1
  have h2 : a * 10 ^ j ≤ a * 1000000000000000000 := Int.mul_le_mul_of_nonneg_left h1 (Int.le_of_lt ha)
  have h3 : 0 < a * 10 ^ j := Int.mul_pos ha h0
  omega

/-- the final rounding step with the sign restored is the signed half-even rounding -/
theorem heven_signed (n a X d : Int) (hd : 0 < d) (ha : 0 < a) (hn : n = a ∨ n = -a) (N : Int) (hN : N = X * Int.sign n) :
    (if 2 * (X % d) > d ∨ (2 * (X % d) = d ∧ (X / d) % 2 = 1) then X / d + 1 else X / d) * Int.sign n
      = Spec.specRound .heven N d := by
  rcases hn with rfl | rfl
  · rw [Int.sign_eq_one_of_pos ha] at hN ⊢
    rw [Int.mul_one] at hN ⊢
    rw [hN, heven_nonneg X d hd]
  · have hs : Int.sign (-a) = -1 := Int.sign_eq_neg_one_of_neg (by omega)
    rw [hs] at hN ⊢
    have : N = -X := by rw [hN]; ring
    rw [this, heven_neg X d hd, heven_nonneg X d hd]
    ring

/-- early termination (`rem = 0` after `j < 18` digits) gives the same normalized decimal -/
theorem normalize_early (N d : Int) (j : Nat) (hd : 0 < d) (hN : N ≠ 0) (hj : j ≤ 18)
    (hstop : j = 18 ∨ N % d = 0) :
    normalize (Spec.specRound .heven N d) j
      = Spec.normalizeSpec 19 (Spec.specRound .heven (N * 10 ^ (18 - j)) d) 18 := by
  by_cases h18 : j = 18
  · subst h18
    simp only [Nat.sub_self, Int.pow_zero, Int.mul_one]
    exact normalize_eq_normalizeSpec _ 18 19 (by omega)
  · have hmod : N % d = 0 := by rcases hstop with h | h; exact absurd h h18; exact h
    have hdiv := Int.mul_ediv_add_emod N d
    rw [hmod, Int.add_zero] at hdiv
    have hQ : N / d ≠ 0 := by
      intro h; rw [h, Int.mul_zero] at hdiv; exact hN hdiv.symm
    have hmod2 : N * 10 ^ (18 - j) % d = 0 := by
      rw [← hdiv, Int.mul_assoc]; exact Int.mul_emod_right _ _
    have hdiv2 : N * 10 ^ (18 - j) / d = N / d * 10 ^ (18 - j) := by
      conv => lhs; rw [← hdiv, Int.mul_assoc]
      exact Int.mul_ediv_cancel_left _ (Int.ne_of_gt hd)
    rw [specRound_exact _ _ _ hmod, specRound_exact _ _ _ hmod2, hdiv2]
    rw [normalize_eq_normalizeSpec (N / d) j (j + 1) (by omega)]
    have := normalizeSpec_strip (N / d) hQ (18 - j) (j + 1) j
    have e1 : j + 1 + (18 - j) = 19 := by omega
    have e2 : j + (18 - j) = 18 := by omega
    rw [e1, e2] at this
    exact this.symm

/-- `approx_rational(n, d)` for `0 < |n| < 2^53`, `2 ≤ d ≤ 2^126`: no panic in any profile, and the result is
    `n/d` rounded half-even to 18 fractional digits with trailing zeros removed -/
theorem approxRational_spec (prof : Profile) (n d : Int) (hd : 2 ≤ d)
    (hd2 : d ≤ 85070591730234615865843651857942052864)
    (hn0 : n ≠ 0) (hn1 : -9007199254740992 < n) (hn2 : n < 9007199254740992) :
    approxRational prof n d = .ok (Spec.normalizeSpec 19 (Spec.specRound .heven (n * 10 ^ 18) d) 18) := by
  have hd0 : 0 < d := by omega
  obtain ⟨a, haDef, ha, ha2, hna⟩ : ∃ a : Int, a = (if n < 0 then -n else n) ∧ 0 < a ∧ a < 9007199254740992 ∧
      (n = a ∨ n = -a) := by
    refine ⟨_, rfl, ?_, ?_, ?_⟩ <;> split <;> omega
  have hq0 : 0 ≤ a / d := Int.ediv_nonneg (Int.le_of_lt ha) (Int.le_of_lt hd0)
  have hq1 : a / d ≤ a := Int.ediv_le_self d (Int.le_of_lt ha)
  have hmag := i128Magnitude_le (a / d) hq0 (by omega)
  obtain ⟨j, _, hj, hstop, hloop⟩ := approxLoop_spec prof d a hd ha ha2 18 0 (i128Magnitude (a / d)) (by omega) (by omega)
  simp only [Int.pow_zero, Int.mul_one] at hloop
  have fa : fitsI128 a = true := by rw [fitsI128_iff]; unfold I128_MIN I128_MAX; omega
  have hne : d ≠ 0 := by omega
  have hne1 : d ≠ 1 := by omega
  have hm1 : ¬ (a = I128_MIN ∧ d = -1) := by omega
  have hdpos : decide (d > 0) = true := by simp; omega
  unfold approxRational
  simp only [assert, hdpos, if_true, Outcome.bind_ok, hne1, if_false, hn0, ← haDef, plainI128_ok prof fa,
    divI128, remI128, hne, hm1, Int.tdiv_eq_ediv_of_nonneg (Int.le_of_lt ha),
    Int.tmod_eq_emod_of_nonneg (Int.le_of_lt ha), max_nfrac, hloop]
  -- the final step
  obtain ⟨hX0, hX1⟩ := scaled_le18 a j ha ha2 hj
  have hNdef : n * 10 ^ j = a * 10 ^ j * Int.sign n := by
    rcases hna with h | h
    · rw [h, Int.sign_eq_one_of_pos ha]; ring
    · rw [h, Int.sign_eq_neg_one_of_neg (by omega)]; ring
  have hsig := heven_signed n a (a * 10 ^ j) d hd0 ha hna (n * 10 ^ j) hNdef
  have hNne : n * 10 ^ j ≠ 0 := Int.mul_ne_zero hn0 (Int.ne_of_gt (pow10_pos j))
  have hstop' : j = 18 ∨ n * 10 ^ j % d = 0 := by
    rcases hstop with h | h
    · exact Or.inl h
    · right
      have hdvd : d ∣ a * 10 ^ j := Int.dvd_of_emod_eq_zero h
      apply Int.emod_eq_zero_of_dvd
      rw [hNdef]; exact Dvd.dvd.mul_right hdvd _
  have hnorm := normalize_early (n * 10 ^ j) d j hd0 hNne hj hstop'
  have hpow : n * 10 ^ j * 10 ^ (18 - j) = n * 10 ^ 18 := by
    rw [Int.mul_assoc, ← Int.pow_add]; congr 2; omega
  rw [hpow] at hnorm
  rw [← hnorm, ← hsig]
  have hsgn : Int.sign n = 1 ∨ Int.sign n = -1 := by
    rcases hna with h | h
    · left; rw [h]; exact Int.sign_eq_one_of_pos ha
    · right; rw [h]; exact Int.sign_eq_neg_one_of_neg (by omega)
  generalize a * 10 ^ j = X at *
  have hr0 := Int.emod_nonneg X hne
  have hr1 := Int.emod_lt_of_pos X hd0
  have hr2 := emod_le_of_nonneg X d (Int.le_of_lt hX0) hd0
  have hQ0 : 0 ≤ X / d := Int.ediv_nonneg (Int.le_of_lt hX0) (Int.le_of_lt hd0)
  have hQ1 : X / d ≤ X := Int.ediv_le_self d (Int.le_of_lt hX0)
  have hcast : IntTy.i128.cast (X % d * 2) = 2 * (X % d) := by
    rw [i128_cast_id (by unfold I128_MIN; omega) (by unfold I128_MAX; omega)]; omega
  rw [hcast]
  have f1 : fitsI128 (X / d + 1) = true := by rw [fitsI128_iff]; unfold I128_MIN I128_MAX; omega
  by_cases hc : 2 * (X % d) > d ∨ (2 * (X % d) = d ∧ X / d % 2 = 1)
  · have f2 : fitsI128 ((X / d + 1) * Int.sign n) = true := by
      rw [fitsI128_iff]; unfold I128_MIN I128_MAX; rcases hsgn with h | h <;> rw [h] <;> omega
    simp only [hc, if_true, plainI128_ok prof f1, Outcome.bind_ok, plainI128_ok prof f2, Outcome.pure_eq]
  · have f2 : fitsI128 (X / d * Int.sign n) = true := by
      rw [fitsI128_iff]; unfold I128_MIN I128_MAX; rcases hsgn with h | h <;> rw [h] <;> omega
    simp only [hc, if_false, Outcome.bind_ok, plainI128_ok prof f2, Outcome.pure_eq]

end Fpdec
