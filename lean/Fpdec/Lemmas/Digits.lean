import Fpdec.Spec.Text
import Fpdec.Model.Format

/-! # Decimal digit lists: `Spec.digitsOf` (core's `Nat.toDigits 10`) and the model's `decDigits` -/

namespace Fpdec
open Fpdec.Model

theorem digitsOf_lt {n : Nat} (h : n < 10) : Spec.digitsOf n = [48 + n] := by
  unfold Spec.digitsOf
  rw [Nat.toDigits_of_lt_base h]
  simp [Nat.toNat_digitChar_of_lt_ten h]

theorem digitsOf_ge {n : Nat} (h : 10 ≤ n) : Spec.digitsOf n = Spec.digitsOf (n / 10) ++ [48 + n % 10] := by
  unfold Spec.digitsOf
  rw [Nat.toDigits_of_base_le (by decide) h]
  simp [Nat.toNat_digitChar_of_lt_ten (Nat.mod_lt n (by decide : 0 < 10))]

theorem decDigitsAux_eq (fuel : Nat) : ∀ (n : Nat) (acc : List Nat), n < fuel →
    decDigitsAux fuel n acc = Spec.digitsOf n ++ acc := by
  induction fuel with
  | zero => intro n acc h; omega
  | succ fuel ih =>
    intro n acc h
    unfold decDigitsAux
    simp only []
    by_cases h0 : n / 10 = 0
    · have : n < 10 := by omega
      simp [h0, digitsOf_lt this, Nat.mod_eq_of_lt this]
    · have h10 : 10 ≤ n := by omega
      simp only [h0, if_false]
      rw [ih (n / 10) _ (by omega), digitsOf_ge h10]
      simp

/-- the model's digit loop agrees with core's `Nat.toDigits` -/
theorem decDigits_eq (n : Nat) : decDigits n = Spec.digitsOf n := by
  unfold decDigits
  rw [decDigitsAux_eq (n + 1) n [] (by omega)]
  simp


/-! ## facts about `digitsOf` -/

theorem digitsOf_isDig (n : Nat) : ∀ c ∈ Spec.digitsOf n, Spec.isDig c = true := by
  induction n using Nat.strongRecOn with
  | _ n ih =>
    by_cases h : n < 10
    · rw [digitsOf_lt h]
      intro c hc
      simp at hc
      subst hc
      simp [Spec.isDig]; omega
    · have h10 : 10 ≤ n := by omega
      rw [digitsOf_ge h10]
      intro c hc
      rw [List.mem_append] at hc
      rcases hc with hc | hc
      · exact ih (n / 10) (by omega) c hc
      · simp at hc
        subst hc
        simp [Spec.isDig]; omega

theorem digitsOf_ne_nil (n : Nat) : Spec.digitsOf n ≠ [] := by
  unfold Spec.digitsOf
  simp

theorem digitsOf_length_pos (n : Nat) : 0 < (Spec.digitsOf n).length := by
  unfold Spec.digitsOf
  simpa using Nat.length_toDigits_pos

theorem digitsOf_length_le {n k : Nat} (hk : 0 < k) : (Spec.digitsOf n).length ≤ k ↔ n < 10 ^ k := by
  unfold Spec.digitsOf
  rw [List.length_map]
  exact Nat.length_toDigits_le_iff (by decide) hk

theorem digitsOf_zero : Spec.digitsOf 0 = [48] := digitsOf_lt (by decide)

/-! ## `digitsVal` -/

theorem foldl_digits_append (xs : List Nat) (i : Nat) :
    xs.foldl (fun acc c => acc * 10 + (c - 48)) i = i * 10 ^ xs.length + Spec.digitsVal xs := by
  unfold Spec.digitsVal
  induction xs generalizing i with
  | nil => simp
  | cons x xs ih =>
    simp only [List.foldl_cons, List.length_cons]
    rw [ih (i * 10 + (x - 48)), ih (0 * 10 + (x - 48))]
    rw [Nat.pow_succ, Nat.add_mul, Nat.add_mul]
    simp [Nat.mul_assoc, Nat.mul_comm, Nat.add_assoc]

theorem digitsVal_append (xs ys : List Nat) :
    Spec.digitsVal (xs ++ ys) = Spec.digitsVal xs * 10 ^ ys.length + Spec.digitsVal ys := by
  show (xs ++ ys).foldl _ 0 = _
  rw [List.foldl_append, foldl_digits_append ys]
  rfl

theorem digitsVal_replicate_zero (k : Nat) : Spec.digitsVal (List.replicate k 48) = 0 := by
  induction k with
  | zero => rfl
  | succ k ih =>
    rw [List.replicate_succ']
    rw [digitsVal_append, ih]
    simp [Spec.digitsVal]

theorem digitsVal_digitsOf (n : Nat) : Spec.digitsVal (Spec.digitsOf n) = n := by
  induction n using Nat.strongRecOn with
  | _ n ih =>
    by_cases h : n < 10
    · rw [digitsOf_lt h]; simp [Spec.digitsVal]
    · have h10 : 10 ≤ n := by omega
      rw [digitsOf_ge h10, digitsVal_append, ih (n / 10) (by omega)]
      simp [Spec.digitsVal]
      omega

/-! ## `spanDigits` -/

theorem spanDigits_run (ds rest : List Nat) (hds : ∀ c ∈ ds, Spec.isDig c = true)
    (hrest : rest = [] ∨ ∃ c r, rest = c :: r ∧ Spec.isDig c = false) :
    Spec.spanDigits (ds ++ rest) = (ds, rest) := by
  induction ds with
  | nil =>
    rcases hrest with h | ⟨c, r, h, hc⟩
    · subst h; rfl
    · subst h; simp [Spec.spanDigits, hc]
  | cons d ds ih =>
    have hd : Spec.isDig d = true := hds d (by simp)
    have := ih (fun c hc => hds c (by simp [hc]))
    simp [Spec.spanDigits, hd, this]

end Fpdec
