import Fpdec.Lemmas.Rounding
import Fpdec.Spec.Text
import Fpdec.Model.Format
import Fpdec.Lemmas.Digits
import Fpdec.Lemmas.TextBody

/-!
# C07 / C11 — canonical text of a Decimal, Display with precision/width/flags, and text → parser spec round trip

Model: Fpdec/Model/Format.lean (`decDigits`, `fmtInt`, `fmtZeroPad`, `toStringDec`, `debugDec`, `display`) mirroring /repo/src/format.rs;
`Std.padIntegral` (Fpdec/Std.lean) is std's padding rule and is shared by model and spec (assumed, not verified).
Spec: `Spec.render`, `Spec.displaySpec`, `Spec.parseSpec` in Fpdec/Spec/Text.lean.  `Dom d` is the input domain (Lemmas/Dom.lean).
`i128DivRounded_spec`, `i128DivModFloor_pos`, `tenPow_ok`, `plainI128_ok` … are available in Lemmas/Rounding.lean / Basic.lean.
`decDigits_eq` is proved in Lemmas/Digits.lean.
-/

namespace Fpdec
open Fpdec.Model

theorem abs_fits {a : Int} (h : I128_MIN < a ∧ a ≤ I128_MAX) : fitsI128 (if a < 0 then -a else a) = true := by
  rw [fitsI128_iff]; unfold I128_MIN I128_MAX at *
  split <;> omega

theorem abs_eq_natAbs (a : Int) : (if a < 0 then -a else a) = (a.natAbs : Int) := by
  split <;> omega

/-- `String::from(d)`: the canonical text, for every d in the domain and every profile -/
theorem toStringDec_spec (prof : Profile) (d : Dec) (hd : Dom d) :
    toStringDec prof d = .ok (Spec.render d.coeff d.nfrac) := by
  obtain ⟨h1, h2, h3⟩ := hd
  unfold toStringDec
  rw [render_eq]
  by_cases h0 : d.nfrac = 0
  · simp only [h0, if_true, bodyN_zero]
    by_cases hn : d.coeff < 0
    · simp [hn, fmtInt_neg hn]
    · simp [hn, fmtInt_nonneg (Int.not_lt.mp hn)]
  · simp only [h0, if_false]
    rw [plainI128_ok prof (abs_fits ⟨h1, h2⟩), tenPow_ok _ (by omega)]
    simp only [Outcome.bind_ok]
    have hfit : fitsI128 (if d.coeff < 0 then -d.coeff else d.coeff) = true := abs_fits ⟨h1, h2⟩
    rw [i128DivModFloor_pos prof _ _ hfit (pow10_pos _) (pow10_le_max (by omega))]
    simp only [Outcome.bind_ok, Outcome.pure_eq]
    rw [abs_eq_natAbs]
    have hp := pieces_eq (x := (d.coeff.natAbs : Int)) (Int.natCast_nonneg _) (p := d.nfrac) (by omega)
    simp only [List.append_assoc, Int.natAbs_natCast] at hp ⊢
    rw [hp]
    by_cases hn : d.coeff < 0
    · have : ¬ d.coeff ≥ 0 := by omega
      simp [hn, this]
    · have : d.coeff ≥ 0 := by omega
      simp [hn, this]

/-- the text inside `Debug` is the same string: `Dec!(` ++ text ++ `)` -/
theorem debugDec_spec (prof : Profile) (d : Dec) (hd : Dom d) :
    debugDec prof d = .ok ([68, 101, 99, 33, 40] ++ Spec.render d.coeff d.nfrac ++ [41]) := by
  unfold debugDec
  rw [toStringDec_spec prof d hd]
  rfl

theorem bodyN_scale (A p prec : Nat) (h : p ≤ prec) (hp : 0 < prec) :
    bodyN (A * 10 ^ (prec - p)) prec =
      Spec.digitsOf (A / 10 ^ p) ++ [46] ++ fmtZeroPad ((A % 10 ^ p) * 10 ^ (prec - p)) prec := by
  have e : 10 ^ prec = 10 ^ p * 10 ^ (prec - p) := by rw [← Nat.pow_add]; congr 1; omega
  have hk : 0 < 10 ^ (prec - p) := Nat.pow_pos (by decide)
  unfold bodyN
  rw [e, Nat.mul_div_mul_right _ _ hk, Nat.mul_mod_mul_right, fmtZeroPad_eq]
  simp [hp]

theorem specRound_ge_floor (m : Mode) (n d : Int) : n / d ≤ Spec.specRound m n d := by
  unfold Spec.specRound
  simp only []
  cases m <;> simp only [] <;> (repeat' split) <;> omega

theorem int_only {x : Int} (h : 0 ≤ x) : fmtInt (x / (10 : Int) ^ 0) = bodyN x.natAbs 0 := by
  rw [fmtInt_nonneg (ediv_pow_nonneg h 0), natAbs_ediv_pow h, bodyN]
  simp

/-- `display` when the precision is given explicitly -/
theorem display_some (prof : Profile) (tm : Mode) (f : Std.FmtSpec) (d : Dec) (hd : Dom d) (pr : Nat)
    (hf : f.prec = some pr) :
    display prof tm f d = .ok (Spec.displaySpec tm f d.coeff d.nfrac) := by
  obtain ⟨h1, h2, h3⟩ := hd
  unfold display Spec.displaySpec
  simp only [hf]
  have e : min pr 18 = pr.min Gen.MAX_N_FRAC_DIGITS := rfl
  rw [e]
  have hprec : pr.min Gen.MAX_N_FRAC_DIGITS ≤ 18 := by rw [← e]; omega
  generalize pr.min Gen.MAX_N_FRAC_DIGITS = prec at hprec ⊢
  have hfit : fitsI128 (if d.coeff < 0 then -d.coeff else d.coeff) = true := abs_fits ⟨h1, h2⟩
  rw [plainI128_ok prof hfit]
  simp only [Outcome.bind_ok]
  rw [abs_eq_natAbs] at hfit ⊢
  rw [render_natCast]
  have hA0 : (0 : Int) ≤ (d.coeff.natAbs : Int) := Int.natCast_nonneg _
  by_cases h0 : d.nfrac = 0
  · simp only [h0, if_true, ge_iff_le, Nat.zero_le, Nat.sub_zero]
    by_cases hp0 : prec > 0
    · simp only [hp0, if_true, Outcome.pure_eq, Outcome.bind_ok]
      rw [Int.natAbs_mul, Int.natAbs_pow]
      have := bodyN_scale d.coeff.natAbs 0 prec (by omega) hp0
      simp only [Nat.sub_zero, Nat.pow_zero, Nat.div_one, Nat.mod_one, Nat.zero_mul] at this
      rw [show Int.natAbs 10 = 10 from rfl, this, fmtInt_nonneg hA0]
      simp
    · have hp : prec = 0 := by omega
      subst hp
      simp only [Nat.lt_irrefl, gt_iff_lt, if_false, Outcome.pure_eq, Outcome.bind_ok]
      rw [fmtInt_nonneg hA0, bodyN_zero]
      simp
  · simp only [h0, if_false]
    rcases Nat.lt_trichotomy prec d.nfrac with hlt | heq | hgt
    · have hc : compare prec d.nfrac = .lt := Nat.compare_eq_lt.mpr hlt
      have hge : ¬ prec ≥ d.nfrac := by omega
      simp only [hc, hge, if_false]
      rw [tenPow_ok _ (by omega)]
      simp only [Outcome.bind_ok]
      have hpm := pow10_le_max (k := d.nfrac - prec) (by omega)
      have hpp := pow10_pos (d.nfrac - prec)
      rw [i128DivRounded_spec prof tm none d.coeff _ ⟨h1, h2⟩
        ⟨by unfold I128_MIN; omega, hpm⟩ (by omega)]
      simp only [Outcome.bind_ok, Option.getD_none]
      have hq : Spec.specRoundQ tm d.coeff (10 ^ (d.nfrac - prec)) = Spec.specRound tm d.coeff (10 ^ (d.nfrac - prec)) := by
        unfold Spec.specRoundQ
        have : ¬ (10 : Int) ^ (d.nfrac - prec) < 0 := by omega
        simp only [this, if_false]
      rw [hq]
      generalize hcdef : Spec.specRound tm d.coeff (10 ^ (d.nfrac - prec)) = c
      have hcf : I128_MIN < c ∧ c ≤ I128_MAX := by
        have f1 := specRound_fits tm d.coeff _ ⟨Int.le_of_lt h1, h2⟩ hpp
        have f2 := specRound_ge_floor tm d.coeff ((10 : Int) ^ (d.nfrac - prec))
        rw [hcdef] at f1 f2
        rw [fitsI128_iff] at f1
        refine ⟨?_, f1.2⟩
        by_cases hn : 0 ≤ d.coeff
        · have := Int.ediv_nonneg hn (Int.le_of_lt hpp)
          unfold I128_MIN; omega
        · have := ediv_ge_of_neg (x := d.coeff) (by omega) hpp
          omega
      have hcfit := abs_fits hcf
      rw [plainI128_ok prof hcfit, tenPow_ok _ (by omega)]
      simp only [Outcome.bind_ok]
      rw [abs_eq_natAbs] at hcfit ⊢
      rw [i128DivModFloor_pos prof _ _ hcfit (pow10_pos _) (pow10_le_max (by omega))]
      simp only [Outcome.bind_ok]
      have hC0 : (0 : Int) ≤ (c.natAbs : Int) := Int.natCast_nonneg _
      by_cases hp0 : prec > 0
      · simp only [hp0, if_true, Outcome.pure_eq, Outcome.bind_ok]
        rw [pieces_eq hC0 hp0]
        simp
      · have hp : prec = 0 := by omega
        subst hp
        simp only [Nat.lt_irrefl, gt_iff_lt, if_false, Outcome.pure_eq, Outcome.bind_ok]
        rw [int_only hC0]
        simp
    · subst heq
      have hc : compare d.nfrac d.nfrac = .eq := Nat.compare_eq_eq.mpr rfl
      have hp0 : d.nfrac > 0 := by omega
      simp only [hc, ge_iff_le, Nat.le_refl, if_true, Nat.sub_self, Int.pow_zero, Int.mul_one]
      rw [tenPow_ok _ (by omega)]
      simp only [Outcome.bind_ok]
      rw [i128DivModFloor_pos prof _ _ hfit (pow10_pos _) (pow10_le_max (by omega))]
      simp only [Outcome.bind_ok, hp0, if_true, Outcome.pure_eq]
      rw [pieces_eq hA0 hp0]
      simp
    · have hc : compare prec d.nfrac = .gt := Nat.compare_eq_gt.mpr hgt
      have hge : prec ≥ d.nfrac := by omega
      have hp0 : prec > 0 := by omega
      simp only [hc, hge, if_true]
      rw [tenPow_ok _ (by omega)]
      simp only [Outcome.bind_ok]
      rw [i128DivModFloor_pos prof _ _ hfit (pow10_pos _) (pow10_le_max (by omega))]
      simp only [Outcome.bind_ok]
      rw [tenPow_ok _ (by omega)]
      simp only [Outcome.bind_ok]
      have hcast : ((d.coeff.natAbs : Int) % (10 : Int) ^ d.nfrac * (10 : Int) ^ (prec - d.nfrac)) =
          ((d.coeff.natAbs % 10 ^ d.nfrac * 10 ^ (prec - d.nfrac) : Nat) : Int) := by
        push_cast; rfl
      have hlt : d.coeff.natAbs % 10 ^ d.nfrac * 10 ^ (prec - d.nfrac) < 10 ^ 18 := by
        have a1 : d.coeff.natAbs % 10 ^ d.nfrac < 10 ^ d.nfrac := Nat.mod_lt _ (Nat.pow_pos (by decide))
        have a2 : d.coeff.natAbs % 10 ^ d.nfrac * 10 ^ (prec - d.nfrac) < 10 ^ d.nfrac * 10 ^ (prec - d.nfrac) :=
          Nat.mul_lt_mul_of_pos_right a1 (Nat.pow_pos (by decide))
        rw [← Nat.pow_add] at a2
        have a3 : 10 ^ (d.nfrac + (prec - d.nfrac)) ≤ 10 ^ 18 := Nat.pow_le_pow_right (by decide) (by omega)
        omega
      rw [hcast]
      have hff : fitsI128 ((d.coeff.natAbs % 10 ^ d.nfrac * 10 ^ (prec - d.nfrac) : Nat) : Int) = true := by
        rw [fitsI128_iff]; unfold I128_MIN I128_MAX
        have : (10 : Nat) ^ 18 = 1000000000000000000 := by decide
        omega
      rw [plainI128_ok prof hff]
      simp only [Outcome.bind_ok, Outcome.pure_eq, hp0, if_true, Int.toNat_natCast]
      rw [Int.natAbs_mul, Int.natAbs_pow, show Int.natAbs 10 = 10 from rfl,
        bodyN_scale _ _ _ (Nat.le_of_lt hgt) hp0, fmtInt_nonneg (ediv_pow_nonneg hA0 _), natAbs_ediv_pow hA0]
      simp

theorem padIntegral_prec (f : Std.FmtSpec) (x : Option Nat) (b : Bool) (buf : List Nat) :
    Std.padIntegral { f with prec := x } b buf = Std.padIntegral f b buf := rfl

theorem display_none_eq (prof : Profile) (tm : Mode) (f : Std.FmtSpec) (d : Dec) (h : d.nfrac ≤ 18)
    (hf : f.prec = none) : display prof tm f d = display prof tm { f with prec := some d.nfrac } d := by
  have : Nat.min d.nfrac Gen.MAX_N_FRAC_DIGITS = d.nfrac := by rw [max_nfrac]; exact Nat.min_eq_left h
  unfold display
  simp only [hf, this, padIntegral_prec]

theorem displaySpec_none_eq (tm : Mode) (f : Std.FmtSpec) (a : Int) (p : Nat) (h : p ≤ 18)
    (hf : f.prec = none) : Spec.displaySpec tm f a p = Spec.displaySpec tm { f with prec := some p } a p := by
  have : min p 18 = p := Nat.min_eq_left h
  unfold Spec.displaySpec
  simp only [hf, this, padIntegral_prec]

/-- `format!("{:…}", d)` with any flags / width / precision, every mode, every profile (C11); with default flags it is the
    canonical text (C07: `to_string()`) -/
theorem display_spec (prof : Profile) (tm : Mode) (f : Std.FmtSpec) (d : Dec) (hd : Dom d) :
    display prof tm f d = .ok (Spec.displaySpec tm f d.coeff d.nfrac) := by
  cases hf : f.prec with
  | some pr => exact display_some prof tm f d hd pr hf
  | none =>
    rw [display_none_eq prof tm f d hd.2.2 hf, displaySpec_none_eq tm f _ _ hd.2.2 hf]
    exact display_some prof tm _ d hd d.nfrac rfl

theorem display_default (prof : Profile) (tm : Mode) (d : Dec) (hd : Dom d) :
    display prof tm {} d = .ok (Spec.render d.coeff d.nfrac) := by
  rw [display_spec prof tm {} d hd]
  unfold Spec.displaySpec Std.padIntegral
  simp only [ge_iff_le, Nat.le_refl, if_true, Nat.sub_self, Int.pow_zero, Int.mul_one]
  rw [render_natCast, render_eq]
  by_cases hn : d.coeff < 0
  · have : ¬ 0 ≤ d.coeff := by omega
    simp [hn, this]
  · have : 0 ≤ d.coeff := by omega
    simp [hn, this]

/-! ## the canonical text against the reference parser -/

theorem optSign_dig {c : Nat} (cs : List Nat) (h : Spec.isDig c = true) : Spec.optSign (c :: cs) = (false, c :: cs) := by
  have h45 : c ≠ 45 := by intro e; subst e; simp [Spec.isDig] at h
  have h43 : c ≠ 43 := by intro e; subst e; simp [Spec.isDig] at h
  unfold Spec.optSign
  split
  · simp_all
  · simp_all
  · rfl

theorem optSign_run (neg : Bool) (ip rest : List Nat) (hne : ip ≠ []) (hip : ∀ c ∈ ip, Spec.isDig c = true) :
    Spec.optSign ((if neg then [45] else []) ++ ip ++ rest) = (neg, ip ++ rest) := by
  cases neg with
  | true => rfl
  | false =>
    cases ip with
    | nil => exact absurd rfl hne
    | cons c cs => exact optSign_dig _ (hip c (by simp))

theorem parse_int (neg : Bool) (ip : List Nat) (hne : ip ≠ []) (hip : ∀ c ∈ ip, Spec.isDig c = true)
    (hD : (Spec.digitsVal ip : Int) ≤ 2 ^ 127 - 1) :
    Spec.parseSpec ((if neg then [45] else []) ++ ip) =
      if Spec.digitsVal ip = 0 then .ok 0 0 else .ok (if neg then -(Spec.digitsVal ip : Int) else Spec.digitsVal ip) 0 := by
  have hs := optSign_run neg ip [] hne hip
  have hsp := spanDigits_run ip [] hip (Or.inl rfl)
  simp only [List.append_nil] at hs hsp
  have hnz : ((if neg then [45] else []) ++ ip).isEmpty = false := by
    cases neg <;> cases ip <;> simp_all
  have hie : ip.isEmpty = false := by cases ip <;> simp_all
  unfold Spec.parseSpec
  simp only [hnz, hs, hsp, hie]
  have hD' : (Spec.digitsVal ip : Int) ≤ 170141183460469231731687303715884105727 := by
    rw [pow2_127] at hD; omega
  simp [hD']

theorem parse_frac (neg : Bool) (ip fz : List Nat) (hne : ip ≠ []) (hip : ∀ c ∈ ip, Spec.isDig c = true)
    (hfz : ∀ c ∈ fz, Spec.isDig c = true) (hl0 : 0 < fz.length) (hl : fz.length ≤ 18)
    (hD : (Spec.digitsVal (ip ++ fz) : Int) ≤ 2 ^ 127 - 1) :
    Spec.parseSpec ((if neg then [45] else []) ++ ip ++ 46 :: fz) =
      .ok (if neg then -(Spec.digitsVal (ip ++ fz) : Int) else Spec.digitsVal (ip ++ fz)) fz.length := by
  have hs := optSign_run neg ip (46 :: fz) hne hip
  have hsp := spanDigits_run ip (46 :: fz) hip (Or.inr ⟨46, fz, rfl, by decide⟩)
  have hsp2 := spanDigits_run fz [] hfz (Or.inl rfl)
  simp only [List.append_nil] at hsp2
  have hnz : ((if neg then [45] else []) ++ ip ++ 46 :: fz).isEmpty = false := by
    cases neg <;> cases ip <;> simp_all
  have hie : ip.isEmpty = false := by cases ip <;> simp_all
  unfold Spec.parseSpec
  simp only [hnz, hs, hsp, hsp2, hie]
  have c1 : ¬ ((0 : Int) ≥ (fz.length : Int)) := by omega
  have c2 : ¬ ((fz.length : Int) - 0 > 18) := by omega
  have c3 : ((fz.length : Int) - 0).toNat = fz.length := by omega
  simp only [c1, c2, c3, hD, if_false, if_true, Bool.false_eq_true, false_and, List.isEmpty_nil, Bool.not_true]

theorem isDig_48 : Spec.isDig 48 = true := by decide

theorem fracPad_props (r p : Nat) (hp : 0 < p) (hr : r < 10 ^ p) :
    (∀ c ∈ List.replicate (p - (Spec.digitsOf r).length) 48 ++ Spec.digitsOf r, Spec.isDig c = true) ∧
    (List.replicate (p - (Spec.digitsOf r).length) 48 ++ Spec.digitsOf r).length = p ∧
    Spec.digitsVal (List.replicate (p - (Spec.digitsOf r).length) 48 ++ Spec.digitsOf r) = r := by
  have hl := (digitsOf_length_le (n := r) hp).mpr hr
  refine ⟨?_, ?_, ?_⟩
  · intro c hc
    rw [List.mem_append] at hc
    rcases hc with hc | hc
    · rw [List.mem_replicate] at hc; rw [hc.2]; exact isDig_48
    · exact digitsOf_isDig r c hc
  · rw [List.length_append, List.length_replicate]; omega
  · rw [digitsVal_append, digitsVal_replicate_zero, digitsVal_digitsOf]; simp

theorem isDig_lt {c : Nat} (h : Spec.isDig c = true) : c < 256 := by
  simp [Spec.isDig] at h; omega

/-- the canonical text consists of bytes, is short, and parses (reference grammar) to exactly `(a, p)` -/
theorem render_parse (a : Int) (p : Nat) (ha : I128_MIN < a ∧ a ≤ I128_MAX) (hp : p ≤ 18) :
    Spec.parseSpec (Spec.render a p) = .ok a p ∧ (∀ c ∈ Spec.render a p, c < 256) ∧ (Spec.render a p).length < 64 := by
  have hm : (a.natAbs : Int) ≤ 2 ^ 127 - 1 := by
    rw [pow2_127]; unfold I128_MIN I128_MAX at ha; omega
  have hsgn : (if a < 0 then -(a.natAbs : Int) else (a.natAbs : Int)) = a := by split <;> omega
  have hipd := digitsOf_isDig (a.natAbs / 10 ^ p)
  have hipn := digitsOf_ne_nil (a.natAbs / 10 ^ p)
  have hiplen : (Spec.digitsOf (a.natAbs / 10 ^ p)).length ≤ 39 := by
    rw [digitsOf_length_le (by decide)]
    have h1 : a.natAbs / 10 ^ p ≤ a.natAbs := Nat.div_le_self _ _
    have h2 : (10 : Nat) ^ 39 = 1000000000000000000000000000000000000000 := by decide
    rw [pow2_127] at hm
    omega
  have hsign : (if a < 0 then [45] else ([] : List Nat)) = (if decide (a < 0) = true then [45] else []) := by simp
  rw [render_eq, hsign]
  by_cases h0 : p = 0
  · subst h0
    rw [bodyN_zero]
    have hq : a.natAbs / 10 ^ 0 = a.natAbs := by simp
    rw [hq] at hipd hipn hiplen
    refine ⟨?_, ?_, ?_⟩
    · rw [parse_int _ _ hipn hipd (by rw [digitsVal_digitsOf]; exact hm), digitsVal_digitsOf]
      by_cases hz : a.natAbs = 0
      · have : a = 0 := by omega
        simp [this]
      · simp only [hz, if_false, decide_eq_true_eq, hsgn]
    · intro c hc
      rw [List.mem_append] at hc
      rcases hc with hc | hc
      · split at hc <;> simp at hc; omega
      · exact isDig_lt (hipd c hc)
    · rw [List.length_append]
      have : (if decide (a < 0) = true then [45] else ([] : List Nat)).length ≤ 1 := by split <;> simp
      omega
  · have hp0 : 0 < p := by omega
    have hr : a.natAbs % 10 ^ p < 10 ^ p := Nat.mod_lt _ (Nat.pow_pos (by decide))
    obtain ⟨f1, f2, f3⟩ := fracPad_props (a.natAbs % 10 ^ p) p hp0 hr
    have hb : bodyN a.natAbs p = Spec.digitsOf (a.natAbs / 10 ^ p) ++
        46 :: (List.replicate (p - (Spec.digitsOf (a.natAbs % 10 ^ p)).length) 48 ++ Spec.digitsOf (a.natAbs % 10 ^ p)) := by
      unfold bodyN; simp [hp0]
    rw [hb, ← List.append_assoc]
    generalize hfz : List.replicate (p - (Spec.digitsOf (a.natAbs % 10 ^ p)).length) 48 ++ Spec.digitsOf (a.natAbs % 10 ^ p) = fz at f1 f2 f3
    have hD : Spec.digitsVal (Spec.digitsOf (a.natAbs / 10 ^ p) ++ fz) = a.natAbs := by
      rw [digitsVal_append, digitsVal_digitsOf, f2, f3]
      exact Nat.div_add_mod' _ _
    refine ⟨?_, ?_, ?_⟩
    · rw [parse_frac _ _ _ hipn hipd f1 (by omega) (by omega) (by rw [hD]; exact hm), hD, f2]
      simp only [decide_eq_true_eq, hsgn]
    · intro c hc
      rw [List.mem_append, List.mem_append, List.mem_cons] at hc
      rcases hc with (hc | hc) | hc | hc
      · split at hc <;> simp at hc; omega
      · exact isDig_lt (hipd c hc)
      · omega
      · exact isDig_lt (f1 c hc)
    · rw [List.length_append, List.length_append, List.length_cons, f2]
      have : (if decide (a < 0) = true then [45] else ([] : List Nat)).length ≤ 1 := by split <;> simp
      omega

end Fpdec
