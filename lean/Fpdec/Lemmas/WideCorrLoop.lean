import Fpdec.Lemmas.WideKnuth

/-!
# The monadic correction loop `corrLoop` equals the pure loop `corr` (helper for C16)

Lean cannot generate the equation lemmas of `corrLoop` (evaluating `plainU128`'s `Int` comparison against the
literal 2^128 by `whnf` recurses 2^128 deep), so the unfolding lemmas `corrLoop_zero` / `corrLoop_succ` are proved
by hand from `Nat.brecOn`, keeping `q` a variable and generalising `corrCond …` / `plainU128 …` before any
definitional reduction.  `corrLoop_eq`: in every profile, with `rhat, yn1, yn0, xn < 2^64`, no plain operation
overflows, `q -= 1` never underflows and `corrLoop = .ok (corr 2^64 …)`.
-/

namespace Fpdec.Wide
open Fpdec Fpdec.Model

theorem plainU128_nat (prof : Profile) (n : Nat) (h : n < U128_MOD) :
    plainU128 prof (n : Int) = .ok n := by
  unfold plainU128
  unfold U128_MOD at h
  rw [if_pos (by omega)]
  rfl

theorem corrCond_eq (prof : Profile) (yn0 xn q rhat : Nat) (h0 : yn0 < U64_MOD) (hx : xn < U64_MOD)
    (hr : rhat < U64_MOD) :
    corrCond prof yn0 xn q rhat = .ok (decide (q ≥ U64_MOD ∨ q * yn0 > rhat * U64_MOD + xn)) := by
  unfold corrCond
  by_cases hq : q ≥ U64_MOD
  · rw [if_pos hq]; simp only [hq, true_or, decide_true]
  · rw [if_neg hq]
    have hq' : q < U64_MOD := by omega
    have hl : q * yn0 < U128_MOD := by
      have := Nat.mul_lt_mul'' hq' h0
      unfold U64_MOD U128_MOD at *; omega
    have hr2 : rhat * U64_MOD + xn < U128_MOD := by
      unfold U64_MOD U128_MOD at *; omega
    have hr1 : rhat * U64_MOD < U128_MOD := lt_of_le_of_lt (Nat.le_add_right _ _) hr2
    have e1 : ((q : Int) * (yn0 : Int)) = ((q * yn0 : Nat) : Int) := (Int.natCast_mul _ _).symm
    have e2 : ((rhat : Int) * (U64_MOD : Int)) = ((rhat * U64_MOD : Nat) : Int) := (Int.natCast_mul _ _).symm
    have e3 : (((rhat * U64_MOD : Nat) : Int) + (xn : Int)) = ((rhat * U64_MOD + xn : Nat) : Int) :=
      (Int.natCast_add _ _).symm
    rw [e1, plainU128_nat prof _ hl, Outcome.bind_ok, e2, plainU128_nat prof _ hr1, Outcome.bind_ok, e3,
      plainU128_nat prof _ hr2, Outcome.bind_ok, Outcome.pure_eq]
    simp only [hq, false_or]

theorem nat_brecOn_eq {motive : Nat → Sort _} (F : (t : Nat) → Nat.below (motive := motive) t → motive t) (t : Nat) :
    Nat.brecOn (motive := motive) t F = F t (Nat.rec (motive := fun t => motive t ×' Nat.below (motive := motive) t)
      ⟨F 0 PUnit.unit, PUnit.unit⟩ (fun n ih => ⟨F (n+1) ih, ih⟩) t).2 := by
  cases t <;> rfl

theorem nat_below_succ {motive : Nat → Sort _} (F : (t : Nat) → Nat.below (motive := motive) t → motive t) (n : Nat) :
    (Nat.rec (motive := fun t => motive t ×' Nat.below (motive := motive) t)
      ⟨F 0 PUnit.unit, PUnit.unit⟩ (fun n ih => ⟨F (n+1) ih, ih⟩) (n + 1)).2.1 = Nat.brecOn (motive := motive) n F := rfl

theorem corrLoop_brec (prof : Profile) (yn1 yn0 xn q rhat : Nat) :
    corrLoop prof yn1 yn0 xn q rhat = Nat.brecOn (motive := fun _ => Nat → Outcome (Nat × Nat)) q (corrLoop._f prof yn1 yn0 xn) rhat := by
  delta corrLoop
  exact Eq.refl _

theorem corrLoop_brec_fun (prof : Profile) (yn1 yn0 xn q : Nat) :
    corrLoop prof yn1 yn0 xn q = Nat.brecOn (motive := fun _ => Nat → Outcome (Nat × Nat)) q (corrLoop._f prof yn1 yn0 xn) := by
  funext rhat
  exact corrLoop_brec prof yn1 yn0 xn q rhat

theorem corrLoop_zero (prof : Profile) (yn1 yn0 xn rhat q : Nat) (hq : q = 0) :
    corrLoop prof yn1 yn0 xn q rhat =
      match corrCond prof yn0 xn q rhat with
      | .panic k => .panic k
      | .ok false => .ok (q, rhat)
      | .ok true => if prof.oc then .panic .arith else .ok (U128_MOD - 1, rhat) := by
  rw [corrLoop_brec, nat_brecOn_eq]
  delta corrLoop._f
  generalize corrCond prof yn0 xn q rhat = c
  generalize (Nat.rec (motive := fun t => (Nat → Outcome (Nat × Nat)) ×' Nat.below (motive := fun _ => Nat → Outcome (Nat × Nat)) t)
      ⟨corrLoop._f prof yn1 yn0 xn 0 PUnit.unit, PUnit.unit⟩ (fun n ih => ⟨corrLoop._f prof yn1 yn0 xn (n+1) ih, ih⟩) q).2 = Bq
  subst hq
  rcases c with (_ | _) | k
  · rfl
  · rfl
  · rfl

theorem corrLoop_succ (prof : Profile) (yn1 yn0 xn q q' rhat : Nat) (hq : q = q' + 1) :
    corrLoop prof yn1 yn0 xn q rhat =
      match corrCond prof yn0 xn q rhat with
      | .panic k => .panic k
      | .ok false => .ok (q, rhat)
      | .ok true =>
        match plainU128 prof (rhat + yn1) with
        | .panic k => .panic k
        | .ok rhat' =>
          if rhat' ≥ U64_MOD then .ok (q', rhat')
          else corrLoop prof yn1 yn0 xn q' rhat' := by
  rw [corrLoop_brec_fun prof yn1 yn0 xn q', corrLoop_brec prof yn1 yn0 xn q, nat_brecOn_eq (corrLoop._f prof yn1 yn0 xn) q]
  subst hq
  generalize hF : corrLoop._f prof yn1 yn0 xn = F
  have hB' := nat_below_succ F q'
  generalize (Nat.rec (motive := fun t => (Nat → Outcome (Nat × Nat)) ×' Nat.below (motive := fun _ => Nat → Outcome (Nat × Nat)) t)
      ⟨F 0 PUnit.unit, PUnit.unit⟩ (fun n ih => ⟨F (n+1) ih, ih⟩) (q' + 1)).2 = Bq at hB' ⊢
  rw [← hB']
  clear hB'
  subst hF
  delta corrLoop._f
  generalize corrCond prof yn0 xn (q' + 1) rhat = c
  generalize plainU128 prof (↑rhat + ↑yn1) = p
  rcases c with (_ | _) | k
  · rfl
  · cases p
    · rfl
    · rfl
  · rfl

theorem corrLoop_eq (prof : Profile) (yn1 yn0 xn : Nat) (h0 : yn0 < U64_MOD) (h1 : yn1 < U64_MOD)
    (hx : xn < U64_MOD) : ∀ q rhat, rhat < U64_MOD →
    corrLoop prof yn1 yn0 xn q rhat = .ok (corr U64_MOD yn1 yn0 xn q rhat) := by
  intro q
  induction q using Nat.strong_induction_on with
  | _ q ih =>
    intro rhat hr
    by_cases hq : q = 0
    · rw [corrLoop_zero prof yn1 yn0 xn rhat q hq, corrCond_eq prof yn0 xn q rhat h0 hx hr]
      have hc : ¬ (q ≥ U64_MOD ∨ q * yn0 > rhat * U64_MOD + xn) := by
        rw [hq, Nat.zero_mul]; unfold U64_MOD; omega
      unfold corr
      rw [decide_eq_false hc, if_neg hc]
    · obtain ⟨q', hq'⟩ : ∃ q', q = q' + 1 := ⟨q - 1, by omega⟩
      rw [corrLoop_succ prof yn1 yn0 xn q q' rhat hq', corrCond_eq prof yn0 xn q rhat h0 hx hr]
      unfold corr
      by_cases hc : (q ≥ U64_MOD ∨ q * yn0 > rhat * U64_MOD + xn)
      · have hs : rhat + yn1 < U128_MOD := by
          unfold U64_MOD U128_MOD at *; omega
        have e : ((rhat : Int) + (yn1 : Int)) = ((rhat + yn1 : Nat) : Int) := (Int.natCast_add _ _).symm
        have hq1 : q - 1 = q' := by omega
        rw [decide_eq_true hc, if_pos hc, if_neg hq, e, plainU128_nat prof _ hs]
        simp only [hq1]
        by_cases hb : rhat + yn1 ≥ U64_MOD
        · rw [if_pos hb, if_pos hb]
        · rw [if_neg hb, if_neg hb]
          exact ih q' (by omega) (rhat + yn1) (by omega)
      · rw [decide_eq_false hc, if_neg hc]
end Fpdec.Wide
