import Fpdec.Lemmas.Rounding
import Fpdec.Lemmas.Digits

/-! # The unpadded body text: model pieces (`fmtInt`, `fmtZeroPad`) against `Spec.render` -/

namespace Fpdec
open Fpdec.Model

/-- magnitude text of `m · 10^-p` -/
def bodyN (m p : Nat) : List Nat :=
  Spec.digitsOf (m / 10 ^ p) ++
    (if p > 0 then [46] ++ List.replicate (p - (Spec.digitsOf (m % 10 ^ p)).length) 48 ++ Spec.digitsOf (m % 10 ^ p) else [])

theorem render_eq (a : Int) (p : Nat) :
    Spec.render a p = (if a < 0 then [45] else []) ++ bodyN a.natAbs p := by
  unfold Spec.render bodyN
  simp only [List.append_assoc]

theorem render_natCast (m p : Nat) : Spec.render (m : Int) p = bodyN m p := by
  rw [render_eq]
  have : ¬ ((m : Int) < 0) := by omega
  simp [this]

theorem fmtInt_nonneg {x : Int} (h : 0 ≤ x) : fmtInt x = Spec.digitsOf x.natAbs := by
  unfold fmtInt
  have : ¬ x < 0 := by omega
  simp [this, decDigits_eq]

theorem fmtInt_neg {x : Int} (h : x < 0) : fmtInt x = 45 :: Spec.digitsOf x.natAbs := by
  unfold fmtInt
  simp [h, decDigits_eq]

theorem fmtZeroPad_eq (n w : Nat) :
    fmtZeroPad n w = List.replicate (w - (Spec.digitsOf n).length) 48 ++ Spec.digitsOf n := by
  unfold fmtZeroPad
  simp [decDigits_eq]

theorem natAbs_ediv_pow {x : Int} (h : 0 ≤ x) (k : Nat) : (x / (10 : Int) ^ k).natAbs = x.natAbs / 10 ^ k := by
  obtain ⟨n, rfl⟩ := Int.eq_ofNat_of_zero_le h
  have e : (10 : Int) ^ k = ((10 ^ k : Nat) : Int) := by simp
  rw [e, ← Int.natCast_ediv]
  simp only [Int.natAbs_natCast]

theorem toNat_emod_pow {x : Int} (h : 0 ≤ x) (k : Nat) : (x % (10 : Int) ^ k).toNat = x.natAbs % 10 ^ k := by
  obtain ⟨n, rfl⟩ := Int.eq_ofNat_of_zero_le h
  have e : (10 : Int) ^ k = ((10 ^ k : Nat) : Int) := by simp
  rw [e, ← Int.natCast_emod]
  simp only [Int.natAbs_natCast, Int.toNat_natCast]

theorem ediv_pow_nonneg {x : Int} (h : 0 ≤ x) (k : Nat) : 0 ≤ x / (10 : Int) ^ k :=
  Int.ediv_nonneg h (Int.le_of_lt (pow10_pos k))

/-- integer part, point, zero-padded fraction: the model's pieces are the body text -/
theorem pieces_eq {x : Int} (h : 0 ≤ x) {p : Nat} (hp : 0 < p) :
    fmtInt (x / (10 : Int) ^ p) ++ [46] ++ fmtZeroPad (x % (10 : Int) ^ p).toNat p = bodyN x.natAbs p := by
  rw [fmtInt_nonneg (ediv_pow_nonneg h p), natAbs_ediv_pow h, toNat_emod_pow h, fmtZeroPad_eq]
  unfold bodyN
  simp [hp]

theorem bodyN_zero (m : Nat) : bodyN m 0 = Spec.digitsOf m := by
  unfold bodyN; simp

theorem pow10_le_max {k : Nat} (h : k ≤ 38) : (10 : Int) ^ k ≤ I128_MAX := by
  have := pow10_mono h
  have e : (10 : Int) ^ 38 = 100000000000000000000000000000000000000 := by decide
  unfold I128_MAX; omega

end Fpdec
