import Fpdec.Lemmas.WideMsb
import Fpdec.Lemmas.WideCorrLoop

/-!
# C16 — `u256_idiv_u128_special`: Knuth's algorithm D for a 4-digit by 2-digit division (base 2^64) WITHOUT add-back

Model: `corrCond`, `corrLoop`, `u256IdivU128Special`, `u128Msb` in Fpdec/Model/Core.lean (mirror of fpdec-core/src/lib.rs).
Proved: normalisation loses no bits, each of the two quotient digits is exact after the correction loop (so no add-back is
needed), the wrapping subtractions equal the true partial remainders, the de-normalised remainder is the true remainder, and no
plain operation (`plainU128 prof`, `plainU8 prof`, `debugAssert prof`) overflows/fails — for every profile.

Structure
  * `WideMsb.lean`      `u128Msb_spec`: `u128Msb prof i = .ok m` with `2^m ≤ i < 2^(m+1)`
  * `WideKnuth.lean`    pure correction loop `corr` over a generic base: `corr_spec`, `digit_spec`, `two_digit`, `wrap_sub`
  * `WideCorrLoop.lean` `corrLoop prof … = .ok (corr 2^64 …)` (no overflow / underflow in the loop, any profile)
  * this file           `norm_shifts`/`norm_arith` (normalisation), `specialTail_spec` (the two digits, write back, remainder),
                        `u256IdivU128Special_spec`
-/

namespace Fpdec.Wide
open Fpdec Fpdec.Model

/-- the part of `u256IdivU128Special` after normalisation, with the normalised operands as parameters -/
def specialTail (prof : Profile) (y xn32 xn10 nBits : Nat) : Outcome (Nat × Nat × Nat) := do
  let B := U64_MOD
  let yn1 := u128Hi y
  let yn0 := u128Lo y
  let xn1 := u128Hi xn10
  let xn0 := u128Lo xn10
  if yn1 = 0 then .panic .rdivzero else
  let q1 := xn32 / yn1
  let rhat := xn32 % yn1
  let (q1, _) ← corrLoop prof yn1 yn0 xn1 q1 rhat
  let t := wrapU128 (wrapU128 (wrapU128 (xn32 * B) + xn1) + U128_MOD - wrapU128 (q1 * y))
  let q0 := t / yn1
  let rhat := t % yn1
  let (q0, _) ← corrLoop prof yn1 yn0 xn0 q0 rhat
  let xl1 ← plainU128 prof (q1 * B)
  let xl' ← plainU128 prof (xl1 + q0)
  let r := wrapU128 (wrapU128 (wrapU128 (t * B) + xn0) + U128_MOD - wrapU128 (q0 * y))
  pure (0, xl', r >>> nBits)

theorem special_eq_tail (prof : Profile) (xh xl y : Nat) :
    u256IdivU128Special prof xh xl y =
      (debugAssert prof (decide (xh < y)) >>= fun _ =>
        u128Msb prof y >>= fun msb =>
        plainU8 prof (127 - (msb : Int)) >>= fun nBits =>
        specialTail prof (wrapU128 (y <<< nBits))
          (wrapU128 (xh <<< nBits) ||| (if nBits = 0 then 0 else xl >>> (128 - nBits)))
          (wrapU128 (xl <<< nBits)) nBits) := by
  unfold u256IdivU128Special specialTail
  rfl

theorem u128Hi_eq (u : Nat) : u128Hi u = u / U64_MOD := by
  unfold u128Hi U64_MOD
  rw [Nat.shiftRight_eq_div_pow, show (2:Nat) ^ 64 = 18446744073709551616 from by norm_num]

theorem u128Lo_eq (u : Nat) : u128Lo u = u % U64_MOD := by
  unfold u128Lo U64_MOD
  rw [show (0xffffffffffffffff : Nat) = 2 ^ 64 - 1 from by norm_num, Nat.and_two_pow_sub_one_eq_mod,
    show (2:Nat) ^ 64 = 18446744073709551616 from by norm_num]

theorem U64_MOD_pos : 0 < U64_MOD := by decide
theorem U128_eq : U128_MOD = U64_MOD * U64_MOD := by decide

theorem lt_base2 (a b : Nat) (ha : a < U64_MOD) (hb : b < U64_MOD) : a * U64_MOD + b < U128_MOD := by
  unfold U64_MOD U128_MOD at *; omega

theorem specialTail_spec (prof : Profile) (y xn32 xn10 n : Nat) (hy1 : U64_MOD ≤ y) (hy2 : y < U128_MOD)
    (hx32 : xn32 < y) (hx10 : xn10 < U128_MOD) :
    specialTail prof y xn32 xn10 n =
      .ok (0, (xn32 * U128_MOD + xn10) / y, ((xn32 * U128_MOD + xn10) % y) >>> n) := by
  unfold specialTail
  simp only [u128Hi_eq, u128Lo_eq]
  have hyd := Nat.div_add_mod y U64_MOD
  have hy0 := Nat.mod_lt y U64_MOD_pos
  have hxd := Nat.div_add_mod xn10 U64_MOD
  have hx0 := Nat.mod_lt xn10 U64_MOD_pos
  have hyn1 : 0 < y / U64_MOD := Nat.div_pos hy1 U64_MOD_pos
  have hyn1B : y / U64_MOD < U64_MOD := by
    rw [Nat.div_lt_iff_lt_mul U64_MOD_pos, ← U128_eq]; exact hy2
  have hxn1B : xn10 / U64_MOD < U64_MOD := by
    rw [Nat.div_lt_iff_lt_mul U64_MOD_pos, ← U128_eq]; exact hx10
  generalize y / U64_MOD = yn1 at *
  generalize y % U64_MOD = yn0 at *
  generalize xn10 / U64_MOD = xn1 at *
  generalize xn10 % U64_MOD = xn0 at *
  rw [if_neg (by omega : ¬ yn1 = 0)]
  have hr1 : xn32 % yn1 < U64_MOD := lt_trans (Nat.mod_lt _ hyn1) hyn1B
  rw [corrLoop_eq prof yn1 yn0 xn1 hy0 hyn1B hxn1B _ _ hr1]
  rw [Outcome.bind_ok]
  have hy : yn1 * U64_MOD + yn0 = y := by rw [Nat.mul_comm]; exact hyd
  -- first digit
  have hd1 := digit_spec U64_MOD yn1 yn0 xn1 xn32 hyn1 hyn1B hy0 hxn1B (by rw [hy]; exact hx32)
  rw [hy] at hd1
  rw [hd1]
  have hypos : 0 < y := by omega
  have hQ1 := digit_lt_base U64_MOD y xn32 xn1 hx32 hxn1B
  have hT1 := Nat.mod_lt (xn32 * U64_MOD + xn1) hypos
  have hdm1 := Nat.div_add_mod (xn32 * U64_MOD + xn1) y
  have h2 := two_digit U64_MOD y xn32 xn1 xn0 hypos
  generalize (xn32 * U64_MOD + xn1) / y = Q1 at *
  generalize (xn32 * U64_MOD + xn1) % y = T1 at *
  rw [wrap_sub (xn32 * U64_MOD) xn1 (Q1 * y) T1 (by rw [Nat.mul_comm Q1 y]; exact hdm1.symm) (lt_trans hT1 hy2)]
  -- second digit
  have hr2 : T1 % yn1 < U64_MOD := lt_trans (Nat.mod_lt _ hyn1) hyn1B
  rw [corrLoop_eq prof yn1 yn0 xn0 hy0 hyn1B hx0 _ _ hr2]
  rw [Outcome.bind_ok]
  have hd2 := digit_spec U64_MOD yn1 yn0 xn0 T1 hyn1 hyn1B hy0 hx0 (by rw [hy]; exact hT1)
  rw [hy] at hd2
  rw [hd2]
  have hQ0 := digit_lt_base U64_MOD y T1 xn0 hT1 hx0
  have hR0 := Nat.mod_lt (T1 * U64_MOD + xn0) hypos
  have hdm0 := Nat.div_add_mod (T1 * U64_MOD + xn0) y
  generalize (T1 * U64_MOD + xn0) / y = Q0 at *
  generalize (T1 * U64_MOD + xn0) % y = R0 at *
  -- write back: `q1 * B + q0` does not overflow
  have hql : Q1 * U64_MOD + Q0 < U128_MOD := lt_base2 Q1 Q0 hQ1 hQ0
  have hq1b : Q1 * U64_MOD < U128_MOD := lt_of_le_of_lt (Nat.le_add_right _ _) hql
  have e1 : ((Q1 : Int) * (U64_MOD : Int)) = ((Q1 * U64_MOD : Nat) : Int) := (Int.natCast_mul _ _).symm
  have e2 : (((Q1 * U64_MOD : Nat) : Int) + (Q0 : Int)) = ((Q1 * U64_MOD + Q0 : Nat) : Int) :=
    (Int.natCast_add _ _).symm
  rw [e1, plainU128_nat prof _ hq1b, Outcome.bind_ok, e2, plainU128_nat prof _ hql, Outcome.bind_ok,
    Outcome.pure_eq]
  -- remainder
  rw [wrap_sub (T1 * U64_MOD) xn0 (Q0 * y) R0 (by rw [Nat.mul_comm Q0 y]; exact hdm0.symm) (lt_trans hR0 hy2)]
  have hX : xn32 * U128_MOD + xn10 = xn32 * (U64_MOD * U64_MOD) + xn1 * U64_MOD + xn0 := by
    rw [U128_eq, ← hxd]; ring
  rw [hX, ← h2.1, ← h2.2]
theorem U128_pow : U128_MOD = 2 ^ 128 := by decide

/-- arithmetic of the normalisation shift, `P = 2^n`, `Q = 2^(128-n)`, `M = 2^128` generic -/
theorem norm_arith (P Q M xh xl y : Nat) (hP : 0 < P) (hQ : 0 < Q) (hM : P * Q = M) (hxh : xh < y) (hxl : xl < M) :
    xl / Q < P ∧ xh * P + xl / Q < y * P ∧ (xl % Q) * P < M ∧
    (xh * P + xl / Q) * M + (xl % Q) * P = (xh * M + xl) * P := by
  have hd := Nat.div_add_mod xl Q
  have hm := Nat.mod_lt xl hQ
  have h1 : xl / Q < P := by
    rw [Nat.div_lt_iff_lt_mul hQ, hM]; exact hxl
  generalize xl / Q = d at *
  generalize xl % Q = r at *
  refine ⟨h1, ?_, ?_, ?_⟩
  · have : (xh + 1) * P ≤ y * P := Nat.mul_le_mul_right P hxh
    nlinarith
  · have : r * P < Q * P := Nat.mul_lt_mul_of_pos_right hm hP
    rw [← hM, Nat.mul_comm P Q]; exact this
  · subst hM; subst hd; ring

theorem norm_shifts (xh xl y n : Nat) (hn : n ≤ 127) (hyP : y * 2 ^ n < U128_MOD) (hxh : xh < y)
    (hxl : xl < U128_MOD) :
    wrapU128 (y <<< n) = y * 2 ^ n ∧
    (wrapU128 (xh <<< n) ||| (if n = 0 then 0 else xl >>> (128 - n))) = xh * 2 ^ n + xl / 2 ^ (128 - n) ∧
    wrapU128 (xl <<< n) = (xl % 2 ^ (128 - n)) * 2 ^ n := by
  have hP : 0 < 2 ^ n := Nat.two_pow_pos n
  have hQ : 0 < 2 ^ (128 - n) := Nat.two_pow_pos _
  have hM : 2 ^ n * 2 ^ (128 - n) = U128_MOD := by
    rw [← Nat.pow_add, U128_pow]; congr 1; omega
  obtain ⟨a1, a2, a3, a4⟩ := norm_arith (2 ^ n) (2 ^ (128 - n)) U128_MOD xh xl y hP hQ hM hxh hxl
  have hw : ∀ v, wrapU128 v = v % U128_MOD := fun v => rfl
  refine ⟨?_, ?_, ?_⟩
  · rw [hw, Nat.shiftLeft_eq, Nat.mod_eq_of_lt hyP]
  · have hsh : (if n = 0 then 0 else xl >>> (128 - n)) = xl / 2 ^ (128 - n) := by
      split
      next h0 =>
        subst h0
        rw [Nat.div_eq_of_lt]
        rw [← U128_pow]; exact hxl
      next h0 => rw [Nat.shiftRight_eq_div_pow]
    have hxP : xh * 2 ^ n < U128_MOD := lt_trans (Nat.mul_lt_mul_of_pos_right hxh hP) hyP
    rw [hsh, hw, Nat.shiftLeft_eq, Nat.mod_eq_of_lt hxP, ← Nat.shiftLeft_eq,
      ← Nat.shiftLeft_add_eq_or_of_lt a1]
  · rw [hw, Nat.shiftLeft_eq, ← hM, Nat.mul_comm (2 ^ n) (2 ^ (128 - n)), Nat.mul_mod_mul_right]

/-- with `n = 127 - msb` the shifted divisor has its top bit set -/
theorem norm_top_bit (y msb : Nat) (hm : msb ≤ 127) (hlo : 2 ^ msb ≤ y) : 2 ^ 127 ≤ y * 2 ^ (127 - msb) := by
  have h1 : 2 ^ msb * 2 ^ (127 - msb) ≤ y * 2 ^ (127 - msb) := Nat.mul_le_mul_right _ hlo
  have h2 : 2 ^ msb * 2 ^ (127 - msb) = 2 ^ 127 := by
    rw [← Nat.pow_add]; congr 1; omega
  rw [h2] at h1; exact h1

/-- one quotient digit computed by the monadic loop: exact, `< 2^64`, no panic in any profile -/
theorem corrLoop_digit (prof : Profile) (yn1 yn0 xn x32 : Nat) (hyn1 : 0 < yn1) (hyn1B : yn1 < U64_MOD)
    (hy0 : yn0 < U64_MOD) (hx : xn < U64_MOD) (hx32 : x32 < yn1 * U64_MOD + yn0) :
    ∃ r', corrLoop prof yn1 yn0 xn (x32 / yn1) (x32 % yn1) =
        .ok ((x32 * U64_MOD + xn) / (yn1 * U64_MOD + yn0), r') ∧
      (x32 * U64_MOD + xn) / (yn1 * U64_MOD + yn0) < U64_MOD := by
  have hr : x32 % yn1 < U64_MOD := lt_trans (Nat.mod_lt _ hyn1) hyn1B
  have hd := digit_spec U64_MOD yn1 yn0 xn x32 hyn1 hyn1B hy0 hx hx32
  refine ⟨(corr U64_MOD yn1 yn0 xn (x32 / yn1) (x32 % yn1)).2, ?_, digit_lt_base U64_MOD _ x32 xn hx32 hx⟩
  rw [corrLoop_eq prof yn1 yn0 xn hy0 hyn1B hx _ _ hr, ← hd]

end Fpdec.Wide

namespace Fpdec
open Fpdec.Model Fpdec.Wide

theorem u256IdivU128Special_spec (prof : Profile) (xh xl y : Nat) (hy : U64_MOD ≤ y) (hy2 : y < U128_MOD)
    (hxh : xh < y) (hxl : xl < U128_MOD) :
    ∃ ql r, u256IdivU128Special prof xh xl y = .ok (0, ql, r) ∧
      ql = (xh * U128_MOD + xl) / y ∧ r = (xh * U128_MOD + xl) % y ∧ ql < U128_MOD := by
  have hypos : 0 < y := lt_of_lt_of_le U64_MOD_pos hy
  -- debug assertion
  have hda : debugAssert prof (decide (xh < y)) = .ok () := by
    unfold debugAssert
    rw [decide_eq_true hxh]
    cases prof.da <;> rfl
  -- most significant bit
  obtain ⟨msb, hmsb, hlo, hhi⟩ := u128Msb_spec prof y hypos (by rw [← U128_pow]; exact hy2)
  have hmsb127 : msb ≤ 127 := by
    by_contra hcon
    have : 2 ^ 128 ≤ 2 ^ msb := Nat.pow_le_pow_right (by decide) (by omega)
    rw [← U128_pow] at this
    omega
  have hn : plainU8 prof (127 - (msb : Int)) = .ok (127 - msb) := by
    unfold plainU8
    rw [if_pos (by omega)]
    have : (127 - (msb : Int)).toNat = 127 - msb := by omega
    rw [this]
  rw [special_eq_tail, hda, Outcome.bind_ok, hmsb, Outcome.bind_ok, hn, Outcome.bind_ok]
  -- normalisation
  have hn127 : 127 - msb ≤ 127 := by omega
  have hP : 0 < 2 ^ (127 - msb) := Nat.two_pow_pos _
  have hyP : y * 2 ^ (127 - msb) < U128_MOD := by
    have h1 : y * 2 ^ (127 - msb) < 2 ^ (msb + 1) * 2 ^ (127 - msb) := Nat.mul_lt_mul_of_pos_right hhi hP
    have h2 : 2 ^ (msb + 1) * 2 ^ (127 - msb) = U128_MOD := by
      rw [← Nat.pow_add, U128_pow]; congr 1; omega
    rw [h2] at h1; exact h1
  generalize 127 - msb = n at *
  obtain ⟨s1, s2, s3⟩ := norm_shifts xh xl y n hn127 hyP hxh hxl
  have hQ : 0 < 2 ^ (128 - n) := Nat.two_pow_pos _
  have hM : 2 ^ n * 2 ^ (128 - n) = U128_MOD := by
    rw [← Nat.pow_add, U128_pow]; congr 1; omega
  obtain ⟨a1, a2, a3, a4⟩ := norm_arith (2 ^ n) (2 ^ (128 - n)) U128_MOD xh xl y hP hQ hM hxh hxl
  rw [s1, s2, s3]
  have hyP1 : U64_MOD ≤ y * 2 ^ n := le_trans hy (Nat.le_mul_of_pos_right y hP)
  rw [specialTail_spec prof (y * 2 ^ n) _ _ n hyP1 hyP a2 a3, a4,
    Nat.mul_div_mul_right _ _ hP, Nat.mul_mod_mul_right, Nat.shiftRight_eq_div_pow,
    Nat.mul_div_cancel _ hP]
  refine ⟨_, _, rfl, rfl, rfl, ?_⟩
  rw [Nat.div_lt_iff_lt_mul hypos]
  have : (xh + 1) * U128_MOD ≤ y * U128_MOD := Nat.mul_le_mul_right _ hxh
  generalize U128_MOD = M at *
  nlinarith


end Fpdec
