import Fpdec.Model.Core

/-!
# The `less_than_5` table of the int_log10 bit trick

`lessThan5 v = ⌊log10 v⌋` for every `v < 100000` (0 for `v = 0`), checked by kernel evaluation of all 100000 cases.
-/

namespace Fpdec
open Fpdec.Model

/-- `⌊log10 v⌋` for `v < 100000` by thresholds -/
def log10Small (v : Nat) : Nat :=
  if v < 10 then 0 else if v < 100 then 1 else if v < 1000 then 2 else if v < 10000 then 3 else 4

theorem lessThan5_table : (List.range 100000).all (fun v => lessThan5 v == log10Small v) = true := by
  decide +kernel

theorem lessThan5_spec (v : Nat) (h : v < 100000) : lessThan5 v = log10Small v := by
  have := lessThan5_table
  rw [List.all_eq_true] at this
  have := this v (List.mem_range.mpr h)
  simpa using this

end Fpdec
