import Fpdec.Spec.Float
import Mathlib.Tactic.Linarith
import Mathlib.Tactic.IntervalCases
import Mathlib.Tactic.Ring

/-!
# Pure arithmetic behind `Float::from_decimal` (no model terms here)
-/

namespace Fpdec.FloatArith
open Fpdec Fpdec.Spec

/-! ### log2 -/

theorem log2_mul_two_pow {n : Nat} (h : n ≠ 0) (s : Nat) : (n * 2 ^ s).log2 = n.log2 + s := by
  have hp : 0 < 2 ^ s := Nat.two_pow_pos s
  rw [Nat.log2_eq_iff (Nat.mul_ne_zero h (Nat.ne_of_gt hp))]
  have h1 := Nat.log2_self_le h
  have h2 := @Nat.lt_log2_self n
  constructor
  · rw [Nat.pow_add]; exact Nat.mul_le_mul_right _ h1
  · rw [show n.log2 + s + 1 = n.log2 + 1 + s by omega, Nat.pow_add]
    exact Nat.mul_lt_mul_of_pos_right h2 hp

/-- if the bit lengths of `N` and `D` differ by `add`, the quotient has `add` or `add+1` bits -/
theorem quot_range {N D add : Nat} (hN : N ≠ 0) (hD : D ≠ 0) (ha : 1 ≤ add)
    (h : N.log2 = D.log2 + add) : 2 ^ (add - 1) ≤ N / D ∧ N / D < 2 ^ (add + 1) := by
  have hDpos : 0 < D := Nat.pos_of_ne_zero hD
  have h1 := Nat.log2_self_le hN
  have h2 := @Nat.lt_log2_self N
  have h3 := Nat.log2_self_le hD
  have h4 := @Nat.lt_log2_self D
  rw [h] at h1 h2
  constructor
  · rw [Nat.le_div_iff_mul_le hDpos]
    calc 2 ^ (add - 1) * D ≤ 2 ^ (add - 1) * 2 ^ (D.log2 + 1) := Nat.mul_le_mul_left _ (Nat.le_of_lt h4)
      _ = 2 ^ (D.log2 + add) := by rw [← Nat.pow_add]; congr 1; omega
      _ ≤ N := h1
  · rw [Nat.div_lt_iff_lt_mul hDpos]
    calc N < 2 ^ (D.log2 + add + 1) := h2
      _ = 2 ^ (add + 1) * 2 ^ D.log2 := by rw [← Nat.pow_add]; congr 1; omega
      _ ≤ 2 ^ (add + 1) * D := Nat.mul_le_mul_left _ h3

/-! ### half-even rounding -/

theorem rhe_floor (n d : Nat) : rhe n d = n / d ∨ rhe n d = n / d + 1 := by
  unfold rhe
  simp only
  repeat' split
  all_goals simp

theorem rhe_mul_right (n d k : Nat) (hk : 0 < k) : rhe (n * k) (d * k) = rhe n d := by
  unfold rhe
  have e1 : n * k / (d * k) = n / d := Nat.mul_div_mul_right n d hk
  have e2 : n * k % (d * k) = n % d * k := Nat.mul_mod_mul_right k n d
  have e3 : (2 * (n % d * k) > d * k) ↔ (2 * (n % d) > d) := by
    rw [← Nat.mul_assoc]; exact Nat.mul_lt_mul_right hk
  have e4 : (2 * (n % d * k) < d * k) ↔ (2 * (n % d) < d) := by
    rw [← Nat.mul_assoc]; exact Nat.mul_lt_mul_right hk
  simp only [e1, e2, e3, e4]

/-- the spec's two-sided scaling against a quotient of two shifted operands -/
theorem rhe_shift (num den s u : Nat) :
    rhe (num * 2 ^ s) (den * 2 ^ u) =
      if (u : Int) - s ≥ 0 then rhe num (den * 2 ^ ((u : Int) - s).toNat)
      else rhe (num * 2 ^ (-((u : Int) - s)).toNat) den := by
  by_cases h : s ≤ u
  · have h1 : (u : Int) - s ≥ 0 := by omega
    have h2 : ((u : Int) - s).toNat = u - s := by omega
    rw [if_pos h1, h2]
    have : den * 2 ^ u = den * 2 ^ (u - s) * 2 ^ s := by
      rw [Nat.mul_assoc, ← Nat.pow_add]; congr 2; omega
    rw [this, rhe_mul_right _ _ _ (Nat.two_pow_pos s)]
  · have h1 : ¬ ((u : Int) - s ≥ 0) := by omega
    have h2 : (-((u : Int) - s)).toNat = s - u := by omega
    rw [if_neg h1, h2]
    have : num * 2 ^ s = num * 2 ^ (s - u) * 2 ^ u := by
      rw [Nat.mul_assoc, ← Nat.pow_add]; congr 2; omega
    rw [this, rhe_mul_right _ _ _ (Nat.two_pow_pos u)]

/-- three extra bits: guard bits `q % 8`, sticky bit from the remainder -/
theorem guard3 (N D : Nat) (hD : 0 < D) :
    N / D / 8 + (if (N / D % 8 ||| (if N % D ≠ 0 then 1 else 0)) > 4 ∨
        ((N / D % 8 ||| (if N % D ≠ 0 then 1 else 0)) = 4 ∧ N / D / 8 % 2 = 1) then 1 else 0)
      = rhe N (D * 8) := by
  have h1 : N / (D * 8) = N / D / 8 := by rw [Nat.div_div_eq_div_mul]
  have h2 : N % (D * 8) = (N / D % 8) * D + N % D := by
    rw [Nat.mod_mul]; ring
  have hr : N % D < D := Nat.mod_lt _ hD
  unfold rhe
  simp only [h1, h2]
  generalize N / D / 8 = sg
  generalize N % D = rem at *
  have hl : N / D % 8 < 8 := Nat.mod_lt _ (by decide)
  generalize N / D % 8 = low at *
  interval_cases low <;> by_cases hz : rem = 0 <;> simp [hz] <;> (repeat' split) <;> omega

/-- two extra bits: guard bits `(q % 4) * 2`, sticky bit from the remainder -/
theorem guard2 (N D : Nat) (hD : 0 < D) :
    N / D / 4 + (if (N / D % 4 * 2 ||| (if N % D ≠ 0 then 1 else 0)) > 4 ∨
        ((N / D % 4 * 2 ||| (if N % D ≠ 0 then 1 else 0)) = 4 ∧ N / D / 4 % 2 = 1) then 1 else 0)
      = rhe N (D * 4) := by
  have h1 : N / (D * 4) = N / D / 4 := by rw [Nat.div_div_eq_div_mul]
  have h2 : N % (D * 4) = (N / D % 4) * D + N % D := by
    rw [Nat.mod_mul]; ring
  have hr : N % D < D := Nat.mod_lt _ hD
  unfold rhe
  simp only [h1, h2]
  generalize N / D / 4 = sg
  generalize N % D = rem at *
  have hl : N / D % 4 < 4 := Nat.mod_lt _ (by decide)
  generalize N / D % 4 = low at *
  interval_cases low <;> by_cases hz : rem = 0 <;> simp [hz] <;> (repeat' split) <;> omega

/-- both cases in the shape the implementation uses: mask, shift by `adj`, sticky bit -/
theorem guard (N D adj : Nat) (hD : 0 < D) (hadj : adj ≤ 1) :
    N / D / 2 ^ (3 - adj) +
      (if ((((N / D &&& (2 ^ (3 - adj) - 1)) % 2 ^ 32) <<< adj) ||| (if N % D ≠ 0 then 1 else 0)) > 4 ∨
        (((((N / D &&& (2 ^ (3 - adj) - 1)) % 2 ^ 32) <<< adj) ||| (if N % D ≠ 0 then 1 else 0)) = 4 ∧
          N / D / 2 ^ (3 - adj) % 2 = 1) then 1 else 0)
      = rhe N (D * 2 ^ (3 - adj)) := by
  interval_cases adj
  · have e : ((N / D &&& (2 ^ (3 - 0) - 1)) % 2 ^ 32) <<< 0 = N / D % 8 := by
      rw [Nat.and_two_pow_sub_one_eq_mod, Nat.shiftLeft_zero]
      exact Nat.mod_eq_of_lt (Nat.lt_of_lt_of_le (Nat.mod_lt _ (by decide)) (by decide))
    rw [e]
    exact guard3 N D hD
  · have e : ((N / D &&& (2 ^ (3 - 1) - 1)) % 2 ^ 32) <<< 1 = N / D % 4 * 2 := by
      rw [Nat.and_two_pow_sub_one_eq_mod, Nat.shiftLeft_eq]
      congr 1
      exact Nat.mod_eq_of_lt (Nat.lt_of_lt_of_le (Nat.mod_lt _ (by decide)) (show 2 ^ (3 - 1) ≤ 2 ^ 32 by decide))
    rw [e]
    exact guard2 N D hD

theorem ite_le_one (p : Prop) [Decidable p] : (if p then 1 else 0 : Nat) ≤ 1 := by
  split <;> omega

theorem guard_ex (N D adj : Nat) (hD : 0 < D) (hadj : adj ≤ 1) :
    ∃ inc : Nat, inc ≤ 1 ∧
      (if ((((N / D &&& (2 ^ (3 - adj) - 1)) % 2 ^ 32) <<< adj) ||| (if N % D ≠ 0 then 1 else 0)) > 4 ∨
        (((((N / D &&& (2 ^ (3 - adj) - 1)) % 2 ^ 32) <<< adj) ||| (if N % D ≠ 0 then 1 else 0)) = 4 ∧
          N / D / 2 ^ (3 - adj) % 2 = 1) then 1 else 0) = inc ∧
      N / D / 2 ^ (3 - adj) + inc = rhe N (D * 2 ^ (3 - adj)) :=
  ⟨_, ite_le_one _, rfl, guard N D adj hD hadj⟩

/-! ### the exponent -/

/-- `den_lz - num_lz - adj` is `⌊log2 (num/den)⌋`, where `adj = 1` iff the shifted quotient has only `add` bits -/
theorem floorLog2Ratio_eq (num den s t add : Nat) (hden : den ≠ 0)
    (hst : num.log2 + s = den.log2 + t + add) :
    floorLog2Ratio num den =
      (num.log2 : Int) - den.log2 - ((if num * 2 ^ s / (den * 2 ^ t) < 2 ^ add then 1 else 0 : Nat) : Int) := by
  have hDpos : 0 < den * 2 ^ t := Nat.mul_pos (Nat.pos_of_ne_zero hden) (Nat.two_pow_pos t)
  unfold floorLog2Ratio
  simp only
  by_cases h0 : (num.log2 : Int) - den.log2 ≥ 0
  · have hk : ((num.log2 : Int) - den.log2).toNat = num.log2 - den.log2 := by omega
    have e : 2 ^ add * (den * 2 ^ t) = den * 2 ^ (num.log2 - den.log2) * 2 ^ s := by
      rw [Nat.mul_assoc, ← Nat.pow_add, Nat.mul_comm (2 ^ add), Nat.mul_assoc, ← Nat.pow_add]
      congr 2; omega
    have hiff : num * 2 ^ s / (den * 2 ^ t) < 2 ^ add ↔ num < den * 2 ^ (num.log2 - den.log2) := by
      rw [Nat.div_lt_iff_lt_mul hDpos, e, Nat.mul_lt_mul_right (Nat.two_pow_pos s)]
    rw [if_pos h0, hk]
    by_cases hc : den * 2 ^ (num.log2 - den.log2) ≤ num
    · have : ¬ num * 2 ^ s / (den * 2 ^ t) < 2 ^ add := by rw [hiff]; omega
      simp [hc, this]
    · have : num * 2 ^ s / (den * 2 ^ t) < 2 ^ add := by rw [hiff]; omega
      simp [hc, this]
  · have hk : (-((num.log2 : Int) - den.log2)).toNat = den.log2 - num.log2 := by omega
    have e1 : num * 2 ^ s = num * 2 ^ (den.log2 - num.log2) * 2 ^ (t + add) := by
      rw [Nat.mul_assoc, ← Nat.pow_add]; congr 2; omega
    have e2 : 2 ^ add * (den * 2 ^ t) = den * 2 ^ (t + add) := by
      rw [Nat.mul_comm (2 ^ add), Nat.mul_assoc, ← Nat.pow_add]
    have hiff : num * 2 ^ s / (den * 2 ^ t) < 2 ^ add ↔ num * 2 ^ (den.log2 - num.log2) < den := by
      rw [Nat.div_lt_iff_lt_mul hDpos, e1, e2, Nat.mul_lt_mul_right (Nat.two_pow_pos _)]
    rw [if_neg h0, hk]
    by_cases hc : den ≤ num * 2 ^ (den.log2 - num.log2)
    · have : ¬ num * 2 ^ s / (den * 2 ^ t) < 2 ^ add := by rw [hiff]; omega
      simp [hc, this]
    · have : num * 2 ^ s / (den * 2 ^ t) < 2 ^ add := by rw [hiff]; omega
      simp [hc, this]

/-! ### the spec function with its `let`s removed -/

theorem rneBits_eq (f : FloatFmt) (num den : Nat) (e : Int) (m : Nat)
    (he : floorLog2Ratio num den = e)
    (hm : (if e - f.fracBits ≥ 0 then rhe num (den * 2 ^ (e - f.fracBits).toNat)
            else rhe (num * 2 ^ (-(e - (f.fracBits : Int))).toNat) den) = m) :
    rneBits f num den =
      if m = 2 ^ (f.fracBits + 1) then ((e + f.bias + 1).toNat <<< f.fracBits)
      else ((e + f.bias).toNat <<< f.fracBits) + (m - 2 ^ f.fracBits) := by
  unfold rneBits
  simp only [he, hm]
  have : e + 1 + f.bias = e + f.bias + 1 := by omega
  split <;> simp [this]

/-- assembling `signif + ((bias + exp - 1) << fracBits) + inc`, including the carry into the exponent field -/
theorem assemble (fb : Nat) (E : Int) (m : Nat) (hE : 1 ≤ E) (h1 : 2 ^ fb ≤ m) (_h2 : m ≤ 2 ^ (fb + 1)) :
    (if m = 2 ^ (fb + 1) then ((E + 1).toNat <<< fb) else (E.toNat <<< fb) + (m - 2 ^ fb))
      = m + ((E - 1).toNat <<< fb) := by
  obtain ⟨Y, rfl⟩ : ∃ Y : Nat, E = (Y : Int) + 1 := ⟨(E - 1).toNat, by omega⟩
  have a1 : ((Y : Int) + 1 + 1).toNat = Y + 2 := by omega
  have a2 : ((Y : Int) + 1).toNat = Y + 1 := by omega
  have a3 : ((Y : Int) + 1 - 1).toNat = Y := by omega
  rw [a1, a2, a3]
  simp only [Nat.shiftLeft_eq]
  rw [Nat.pow_succ] at *
  generalize 2 ^ fb = P at *
  have : (Y + 2) * P = Y * P + 2 * P := by ring
  have : (Y + 1) * P = Y * P + P := by ring
  split <;> omega

end Fpdec.FloatArith
