import Fpdec.Lemmas.Dom
import Fpdec.Model.Ratio
import Mathlib.Data.Int.GCD
import Mathlib.Data.Nat.GCD.Basic
import Mathlib.Tactic.Ring
import Mathlib.Tactic.Linarith
import Mathlib.Tactic.LinearCombination

/-!
# C09 — as_integer_ratio is the reduced fraction; Hash feeds the reduced pair

Model: `gcdLoop`, `gcdSpecial`, `asIntegerRatio`, `numerator`, `denominator`, `hashFeed` in Fpdec/Model/Ratio.lean mirroring
/repo/src/as_integer_ratio.rs (Stein's binary gcd specialised to a denominator `10^e`: `v = 10^e >> e = 5^e` is odd) and
`impl Hash for Decimal` in /repo/src/lib.rs.  `trailingZeros` is in Prim.lean.  Spec: `Spec.ratio`, `Spec.cmp` (Spec/Arith.lean).

Fuel: with `u` odd, every iteration that starts with an even `v` at least halves the product `u * v`
(`v >>= tz` halves `v`, and `min·(max - min) ≤ min·max`); only the first iteration can start with an odd `v`.
Hence `u * v < 2^f` implies that `f + 2` units of fuel suffice; `u, v < 2^128` gives `f = 256 ≤ 598`.
-/

namespace Fpdec
open Fpdec.Model

theorem tzGo_spec : ∀ (fuel v acc : Nat), 0 < v → v < 2 ^ fuel →
    ∃ k, trailingZeros.go fuel v acc = acc + k ∧ 2 ^ k ∣ v ∧ (v / 2 ^ k) % 2 = 1 := by
  intro fuel
  induction fuel with
  | zero => intro v acc h0 h1; simp at h1; omega
  | succ n ih =>
    intro v acc h0 h1
    unfold trailingZeros.go
    by_cases hv : v % 2 = 1
    · refine ⟨0, ?_, ?_, ?_⟩ <;> simp [hv]
    · simp only [hv, if_false]
      have h2 : 0 < v / 2 := by omega
      have h3 : v / 2 < 2 ^ n := by rw [Nat.pow_succ] at h1; omega
      obtain ⟨k, e1, e2, e3⟩ := ih (v / 2) (acc + 1) h2 h3
      refine ⟨k + 1, by rw [e1]; omega, ?_, ?_⟩
      · have : v = 2 * (v / 2) := by omega
        rw [this, Nat.pow_succ, Nat.mul_comm]
        exact Nat.mul_dvd_mul (Nat.dvd_refl 2) e2
      · rw [Nat.pow_succ, Nat.mul_comm, ← Nat.div_div_eq_div_mul]; exact e3

/-- `trailing_zeros` on a non-zero 128-bit value: the 2-adic valuation -/
theorem trailingZeros_spec (v : Nat) (h0 : 0 < v) (h1 : v < 2 ^ 128) :
    2 ^ trailingZeros 128 v ∣ v ∧ (v >>> trailingZeros 128 v) % 2 = 1 := by
  unfold trailingZeros
  have hv : v ≠ 0 := by omega
  simp only [hv, if_false]
  obtain ⟨k, e1, e2, e3⟩ := tzGo_spec 128 v 0 h0 h1
  rw [e1, Nat.zero_add, Nat.shiftRight_eq_div_pow]
  exact ⟨e2, e3⟩
theorem coprime_two_of_odd (u : Nat) (h : u % 2 = 1) : Nat.Coprime 2 u := by
  unfold Nat.Coprime; rw [Nat.gcd_rec, h]; rfl

theorem gcd_odd_div_two_pow (u v k : Nat) (hu : u % 2 = 1) (hd : 2 ^ k ∣ v) :
    Nat.gcd u (v / 2 ^ k) = Nat.gcd u v := by
  obtain ⟨w, rfl⟩ := hd
  rw [Nat.mul_div_cancel_left _ (Nat.pow_pos (by decide))]
  exact (Nat.Coprime.gcd_mul_left_cancel_right w ((coprime_two_of_odd u hu).pow_left k)).symm

/-- Stein loop, `u` odd and `v` even: `u * v < 2^fuel` units of halving suffice -/
theorem gcdLoop_even : ∀ (fuel u v : Nat), u % 2 = 1 → v % 2 = 0 → u < 2 ^ 128 → v < 2 ^ 128 → u * v < 2 ^ fuel →
    gcdLoop (fuel + 1) u v = some (Nat.gcd u v) := by
  intro fuel
  induction fuel with
  | zero =>
    intro u v hu hv _ _ hm
    have : v = 0 := by
      rcases Nat.eq_zero_or_pos v with h | h
      · exact h
      · have : 1 * 1 ≤ u * v := Nat.mul_le_mul (by omega) h
        omega
    subst this
    simp [gcdLoop]
  | succ n ih =>
    intro u v hu hv hub hvb hm
    rw [gcdLoop]
    by_cases hv0 : v = 0
    · subst hv0; simp
    · simp only [hv0, if_false]
      obtain ⟨hd, hodd⟩ := trailingZeros_spec v (by omega) hvb
      have hg := gcd_odd_div_two_pow u v _ hu hd
      rw [Nat.shiftRight_eq_div_pow] at hodd
      rw [Nat.shiftRight_eq_div_pow]
      generalize trailingZeros 128 v = tz at *
      have htz : tz ≠ 0 := by
        intro h; subst h; simp at hodd; omega
      have h2 : 2 * (v / 2 ^ tz) ≤ v := by
        obtain ⟨w, rfl⟩ := hd
        rw [Nat.mul_div_cancel_left _ (Nat.pow_pos (by decide))]
        obtain ⟨t, rfl⟩ := Nat.exists_eq_succ_of_ne_zero htz
        rw [Nat.pow_succ]
        have : 1 ≤ 2 ^ t := Nat.pow_pos (by decide)
        calc 2 * w = 1 * 2 * w := by omega
          _ ≤ 2 ^ t * 2 * w := Nat.mul_le_mul_right _ (Nat.mul_le_mul_right _ this)
      generalize v / 2 ^ tz = v' at *
      have h3 : 2 * (u * v') ≤ u * v := by
        calc 2 * (u * v') = u * (2 * v') := by ring
          _ ≤ u * v := Nat.mul_le_mul_left _ h2
      rw [Nat.pow_succ] at hm
      by_cases hgt : u > v'
      · simp only [hgt, if_true]
        have h4 : v' * (u - v') ≤ u * v' := by
          rw [Nat.mul_comm u v']; exact Nat.mul_le_mul_left _ (Nat.sub_le _ _)
        rw [ih v' (u - v') hodd (by omega) (by omega) (by omega) (by omega)]
        rw [Nat.gcd_sub_self_right (by omega), Nat.gcd_comm, hg]
      · simp only [hgt, if_false]
        have h4 : u * (v' - u) ≤ u * v' := Nat.mul_le_mul_left _ (Nat.sub_le _ _)
        rw [ih u (v' - u) hu (by omega) (by omega) (by omega) (by omega)]
        rw [Nat.gcd_sub_self_right (by omega), hg]

/-- Stein loop, `u` odd, any `v`: one extra iteration for a possibly odd first `v` -/
theorem gcdLoop_spec (fuel u v : Nat) (hu : u % 2 = 1) (hub : u < 2 ^ 128) (hvb : v < 2 ^ 128) (hm : u * v < 2 ^ fuel) :
    gcdLoop (fuel + 2) u v = some (Nat.gcd u v) := by
  rw [gcdLoop]
  by_cases hv0 : v = 0
  · subst hv0; simp
  · simp only [hv0, if_false]
    obtain ⟨hd, hodd⟩ := trailingZeros_spec v (by omega) hvb
    have hg := gcd_odd_div_two_pow u v _ hu hd
    rw [Nat.shiftRight_eq_div_pow] at hodd
    rw [Nat.shiftRight_eq_div_pow]
    generalize trailingZeros 128 v = tz at *
    have h2 : v / 2 ^ tz ≤ v := Nat.div_le_self _ _
    generalize v / 2 ^ tz = v' at *
    have h3 : u * v' ≤ u * v := Nat.mul_le_mul_left _ h2
    by_cases hgt : u > v'
    · simp only [hgt, if_true]
      have h4 : v' * (u - v') ≤ u * v' := by
        rw [Nat.mul_comm u v']; exact Nat.mul_le_mul_left _ (Nat.sub_le _ _)
      rw [gcdLoop_even fuel v' (u - v') hodd (by omega) (by omega) (by omega) (by omega)]
      rw [Nat.gcd_sub_self_right (by omega), Nat.gcd_comm, hg]
    · simp only [hgt, if_false]
      have h4 : u * (v' - u) ≤ u * v' := Nat.mul_le_mul_left _ (Nat.sub_le _ _)
      rw [gcdLoop_even fuel u (v' - u) hu (by omega) (by omega) (by omega) (by omega)]
      rw [Nat.gcd_sub_self_right (by omega), hg]
/-- for 128-bit operands any fuel ≥ 258 suffices (the model uses 600) -/
theorem gcdLoop_spec' (fuel u v : Nat) (hu : u % 2 = 1) (hub : u < 2 ^ 128) (hvb : v < 2 ^ 128) (hf : 256 ≤ fuel) :
    gcdLoop (fuel + 2) u v = some (Nat.gcd u v) := by
  apply gcdLoop_spec fuel u v hu hub hvb
  have := Nat.mul_lt_mul'' hub hvb
  have h2 : (2 : Nat) ^ 128 * 2 ^ 128 ≤ 2 ^ fuel := by
    rw [← Nat.pow_add]; exact Nat.pow_le_pow_right (by decide) hf
  exact Nat.lt_of_lt_of_le this h2

theorem gcd_two_pow_split (a e u' : Nat) (hu : u' % 2 = 1) :
    Nat.gcd (2 ^ a * u') (10 ^ e) = 2 ^ (Nat.min a e) * Nat.gcd u' (5 ^ e) := by
  have h10 : (10 : Nat) ^ e = 2 ^ e * 5 ^ e := by rw [← Nat.mul_pow]
  rw [h10]
  rcases Nat.le_total a e with h | h
  · have hm : Nat.min a e = a := Nat.min_eq_left h
    rw [hm]
    have : (2 : Nat) ^ e = 2 ^ a * 2 ^ (e - a) := by rw [← Nat.pow_add]; congr 1; omega
    rw [this, Nat.mul_assoc, Nat.gcd_mul_left]
    congr 1
    exact Nat.Coprime.gcd_mul_left_cancel_right _ ((coprime_two_of_odd u' hu).pow_left _)
  · have hm : Nat.min a e = e := Nat.min_eq_right h
    rw [hm]
    have : (2 : Nat) ^ a = 2 ^ e * 2 ^ (a - e) := by rw [← Nat.pow_add]; congr 1; omega
    rw [this, Nat.mul_assoc, Nat.gcd_mul_left]
    congr 1
    exact Nat.Coprime.gcd_mul_left_cancel _ (Nat.Coprime.pow _ _ (by decide))

theorem i128_cast_id {x : Int} (h0 : I128_MIN ≤ x) (h1 : x ≤ I128_MAX) : IntTy.i128.cast x = x := by
  unfold IntTy.cast IntTy.wrap IntTy.i128
  simp only [if_true]
  have e1 : (2 : Int) ^ (128 - 1) = 170141183460469231731687303715884105728 := by decide
  have e2 : (2 : Int) ^ 128 = 340282366920938463463374607431768211456 := by decide
  unfold I128_MIN at h0; unfold I128_MAX at h1
  rw [e1, e2]; omega

/-- `gcd_special(numer, e)` = gcd(|numer|, 10^e), for every non-zero numerator of the domain and `e ≤ 18`, every profile -/
theorem gcdSpecial_spec (prof : Profile) (numer : Int) (e : Nat) (hn : I128_MIN < numer ∧ numer ≤ I128_MAX) (hn0 : numer ≠ 0)
    (he : e ≤ 18) : gcdSpecial prof numer e = .ok (Int.gcd numer ((10 : Int) ^ e) : Int) := by
  obtain ⟨hn1, hn2⟩ := hn
  unfold I128_MIN at hn1; unfold I128_MAX at hn2
  have habs : (if numer < 0 then -numer else numer) = (numer.natAbs : Int) := by
    split <;> omega
  have hfit : fitsI128 (numer.natAbs : Int) = true := by
    rw [fitsI128_iff]; unfold I128_MIN I128_MAX; omega
  have hupos : 0 < numer.natAbs := by omega
  have hult : numer.natAbs < 2 ^ 128 := by
    have : (2 : Nat) ^ 128 = 340282366920938463463374607431768211456 := by decide
    omega
  have hten : ((10 : Int) ^ e).toNat = 10 ^ e := by
    have : ((10 : Int) ^ e) = ((10 ^ e : Nat) : Int) := by push_cast; rfl
    rw [this, Int.toNat_natCast]
  have hgcd : Int.gcd numer ((10 : Int) ^ e) = Nat.gcd numer.natAbs (10 ^ e) := by
    show Nat.gcd numer.natAbs ((10 : Int) ^ e).natAbs = _
    rw [Int.natAbs_pow]; rfl
  unfold gcdSpecial
  have a1 : assert (decide (numer ≠ 0)) = .ok () := by simp [assert, hn0]
  have a2 : assert (decide (e ≤ 38)) = .ok () := by
    have : e ≤ 38 := by omega
    simp [assert, this]
  rw [a1, a2, habs, plainI128_ok prof hfit]
  have he256 : e % 256 = e := by omega
  simp only [Outcome.bind_ok, he256]
  rw [tenPow_ok e (by omega)]
  simp only [Outcome.bind_ok, Int.toNat_natCast, hten]
  obtain ⟨hd, hodd⟩ := trailingZeros_spec numer.natAbs hupos hult
  generalize numer.natAbs = u at *
  generalize trailingZeros 128 u = tz at *
  rw [Nat.shiftRight_eq_div_pow] at hodd ⊢
  have hu : u = 2 ^ tz * (u / 2 ^ tz) := (Nat.mul_div_cancel' hd).symm
  have hu'lt : u / 2 ^ tz < 2 ^ 128 := Nat.lt_of_le_of_lt (Nat.div_le_self _ _) hult
  generalize u / 2 ^ tz = u' at *
  have hv : (10 : Nat) ^ e >>> e = 5 ^ e := by
    rw [Nat.shiftRight_eq_div_pow]
    have : (10 : Nat) ^ e = 2 ^ e * 5 ^ e := by rw [← Nat.mul_pow]
    rw [this, Nat.mul_div_cancel_left _ (Nat.pow_pos (by decide))]
  rw [hv]
  have h5 : (5 : Nat) ^ e < 2 ^ 128 :=
    Nat.lt_of_le_of_lt (Nat.pow_le_pow_right (by decide) he) (by decide)
  have hloop : gcdLoop 600 u' (5 ^ e) = some (Nat.gcd u' (5 ^ e)) := gcdLoop_spec' 598 u' (5 ^ e) hodd hu'lt h5 (by decide)
  rw [hloop]
  simp only [Outcome.pure_eq]
  have hsplit := gcd_two_pow_split tz e u' hodd
  rw [← hu] at hsplit
  rw [hgcd, hsplit, Nat.shiftLeft_eq, Nat.mul_comm]
  rw [i128_cast_id]
  · unfold I128_MIN; omega
  · have hle : Nat.gcd u (10 ^ e) ≤ u := Nat.gcd_le_left _ hupos
    rw [hsplit] at hle
    unfold I128_MAX; omega

/-! ## the reduced fraction -/

/-- the pair is THE reduced fraction of the value: positive denominator, coprime, same value -/
theorem ratio_reduced (a : Int) (p : Nat) :
    0 < (Spec.ratio a p).2 ∧ Int.gcd (Spec.ratio a p).1 (Spec.ratio a p).2 = 1 ∧
    (Spec.ratio a p).1 * (10 : Int) ^ p = a * (Spec.ratio a p).2 := by
  have hd : (0 : Int) < (10 : Int) ^ p := pow10_pos p
  have hg : 0 < Int.gcd a ((10 : Int) ^ p) := Int.gcd_pos_of_ne_zero_right _ (by omega)
  have hg1 : ((Int.gcd a ((10 : Int) ^ p) : Nat) : Int) ∣ a := Int.gcd_dvd_left _ _
  have hg2 : ((Int.gcd a ((10 : Int) ^ p) : Nat) : Int) ∣ (10 : Int) ^ p := Int.gcd_dvd_right _ _
  show 0 < (10 : Int) ^ p / _ ∧ Int.gcd (a / _) ((10 : Int) ^ p / _) = 1 ∧ a / _ * (10 : Int) ^ p = a * ((10 : Int) ^ p / _)
  refine ⟨?_, Int.gcd_div_gcd_div_gcd hg, ?_⟩
  · exact Int.ediv_pos_of_pos_of_dvd hd (by omega) hg2
  · have hgpos : (0 : Int) < (Int.gcd a ((10 : Int) ^ p) : Int) := by omega
    generalize (Int.gcd a ((10 : Int) ^ p) : Int) = g at *
    obtain ⟨x, hx⟩ := hg1
    obtain ⟨y, hy⟩ := hg2
    have hgne : g ≠ 0 := by omega
    rw [hy, hx, Int.mul_ediv_cancel_left _ hgne, Int.mul_ediv_cancel_left _ hgne]
    ring

/-- a fraction in lowest terms with positive denominator is determined by its value -/
theorem reduced_unique (n1 d1 n2 d2 : Int) (h1 : 0 < d1) (h2 : 0 < d2)
    (c1 : Int.gcd n1 d1 = 1) (c2 : Int.gcd n2 d2 = 1) (h : n1 * d2 = n2 * d1) : n1 = n2 ∧ d1 = d2 := by
  have e1 : d1 ∣ d2 := by
    have : d1 ∣ n1 * d2 := ⟨n2, by rw [h]; ring⟩
    exact Int.dvd_of_dvd_mul_right_of_gcd_one this (by rw [Int.gcd_comm]; exact c1)
  have e2 : d2 ∣ d1 := by
    have : d2 ∣ n2 * d1 := ⟨n1, by rw [← h]; ring⟩
    exact Int.dvd_of_dvd_mul_right_of_gcd_one this (by rw [Int.gcd_comm]; exact c2)
  have hd : d1 = d2 := Int.dvd_antisymm (by omega) (by omega) e1 e2
  subst hd
  exact ⟨Int.eq_of_mul_eq_mul_right (by omega) h, rfl⟩

/-- equal values (in any two representations) have the same reduced fraction … -/
theorem ratio_congr (a : Int) (p : Nat) (b : Int) (q : Nat) (h : Spec.cmp a p b q = .eq) :
    Spec.ratio a p = Spec.ratio b q := by
  unfold Spec.cmp at h
  rw [Int.compare_eq_eq] at h
  obtain ⟨p1, c1, v1⟩ := ratio_reduced a p
  obtain ⟨p2, c2, v2⟩ := ratio_reduced b q
  have hP : (0 : Int) < (10 : Int) ^ p := pow10_pos p
  have hQ : (0 : Int) < (10 : Int) ^ q := pow10_pos q
  generalize Spec.ratio a p = r1 at *
  generalize Spec.ratio b q = r2 at *
  obtain ⟨n1, d1⟩ := r1
  obtain ⟨n2, d2⟩ := r2
  simp only at p1 c1 v1 p2 c2 v2
  generalize (10 : Int) ^ p = P at *
  generalize (10 : Int) ^ q = Q at *
  have hPQ : P * Q ≠ 0 := Int.mul_ne_zero (by omega) (by omega)
  have key : n1 * d2 = n2 * d1 := by
    apply Int.eq_of_mul_eq_mul_right hPQ
    linear_combination (d2 * Q) * v1 + (d1 * d2) * h - (d1 * P) * v2
  obtain ⟨e1, e2⟩ := reduced_unique n1 d1 n2 d2 p1 p2 c1 c2 key
  rw [e1, e2]

/-! ## the model functions -/

theorem divI128_exact (x g : Int) (hg : 0 < g) (hd : g ∣ x) : divI128 x g = .ok (x / g) := by
  unfold divI128
  have h1 : g ≠ 0 := by omega
  have h2 : ¬ (x = I128_MIN ∧ g = -1) := by omega
  simp only [h1, h2, if_false]
  rw [Int.tdiv_eq_ediv_of_dvd hd]

theorem ratio_nfrac_zero (a : Int) : Spec.ratio a 0 = (a, 1) := by
  show (a / ((Int.gcd a ((10 : Int) ^ 0) : Nat) : Int), (10 : Int) ^ 0 / ((Int.gcd a ((10 : Int) ^ 0) : Nat) : Int)) = (a, 1)
  simp

theorem ratio_coeff_zero (p : Nat) : Spec.ratio 0 p = (0, 1) := by
  show ((0 : Int) / ((Int.gcd 0 ((10 : Int) ^ p) : Nat) : Int), (10 : Int) ^ p / ((Int.gcd 0 ((10 : Int) ^ p) : Nat) : Int)) = (0, 1)
  have hP : (0 : Int) < (10 : Int) ^ p := pow10_pos p
  rw [Int.gcd_zero_left, Int.natCast_natAbs, abs_of_pos hP, Int.ediv_self (by omega)]
  simp

/-- `as_integer_ratio`, `numerator`, `denominator` -/
theorem asIntegerRatio_spec (prof : Profile) (d : Dec) (hd : Dom d) :
    asIntegerRatio prof d = .ok (Spec.ratio d.coeff d.nfrac) ∧
    numerator prof d = .ok (Spec.ratio d.coeff d.nfrac).1 ∧ denominator prof d = .ok (Spec.ratio d.coeff d.nfrac).2 := by
  obtain ⟨a, p⟩ := d
  obtain ⟨h1, h2, h3⟩ := hd
  simp only at h1 h2 h3
  unfold asIntegerRatio numerator denominator
  simp only
  by_cases hc : p = 0 ∨ a = 0
  · simp only [hc, if_true]
    rcases hc with rfl | rfl
    · rw [ratio_nfrac_zero]; exact ⟨rfl, rfl, rfl⟩
    · rw [ratio_coeff_zero]; exact ⟨rfl, rfl, rfl⟩
  · simp only [hc, if_false]
    have ha : a ≠ 0 := fun h => hc (Or.inr h)
    rw [gcdSpecial_spec prof a p ⟨h1, h2⟩ ha h3, tenPow_ok p (by omega)]
    simp only [Outcome.bind_ok]
    have hg : 0 < Int.gcd a ((10 : Int) ^ p) := Int.gcd_pos_of_ne_zero_left _ ha
    have hgpos : (0 : Int) < (Int.gcd a ((10 : Int) ^ p) : Int) := by omega
    rw [divI128_exact a _ hgpos (Int.gcd_dvd_left _ _), divI128_exact _ _ hgpos (Int.gcd_dvd_right _ _)]
    exact ⟨rfl, rfl, rfl⟩

/-- … hence feed the same words to the hasher (C09: equal Decimals hash identically, and identically to their ratio pair) -/
theorem hash_congr (prof : Profile) (x y : Dec) (hx : Dom x) (hy : Dom y)
    (h : Spec.cmp x.coeff x.nfrac y.coeff y.nfrac = .eq) :
    hashFeed prof x = hashFeed prof y ∧ hashFeed prof x = .ok [(Spec.ratio x.coeff x.nfrac).1, (Spec.ratio x.coeff x.nfrac).2] := by
  have ex := (asIntegerRatio_spec prof x hx).1
  have ey := (asIntegerRatio_spec prof y hy).1
  have hr := ratio_congr _ _ _ _ h
  unfold hashFeed
  rw [ex, ey, hr]
  exact ⟨rfl, rfl⟩

end Fpdec
