import Fpdec.Lemmas.ParseAccum
import Fpdec.Lemmas.Dom
import Fpdec.Lemmas.IntTy
import Mathlib.Tactic.Ring
import Mathlib.Tactic.NormNum

/-! # Structure of `str_to_dec` / `parseSpec` (helper file for `Fpdec.Lemmas.Parse`) -/

namespace Fpdec.ParseAux
open Fpdec Fpdec.Model

/-! ## the spec, cut into pieces -/

def sFrac (r1 : List Nat) : List Nat × List Nat × Bool :=
  match r1 with
  | 46 :: r => let (f, r') := Spec.spanDigits r; (f, r', true)
  | _ => ([], r1, false)

def sExp (s : List Nat) : Option (Int × List Nat) :=
  match s with
  | c :: r =>
    if c = 101 ∨ c = 69 then
      let sg := Spec.optSign r
      let sp := Spec.spanDigits sg.2
      if sp.1.isEmpty then none else some ((if sg.1 then -(Spec.digitsVal sp.1 : Int) else Spec.digitsVal sp.1), sp.2)
    else some (0, c :: r)
  | [] => some (0, [])

def sFinal (neg : Bool) (D : Nat) (f e : Int) : Spec.ParseRes :=
  let sgn (c : Nat) : Int := if neg then -(c : Int) else c
  if e ≥ f then
    if D = 0 then .ok 0 0
    else if e - f > 38 then .bad
    else
      let C := D * 10 ^ (e - f).toNat
      if (C : Int) ≤ (2 : Int) ^ 127 - 1 then .ok (sgn C) 0 else .bad
  else
    let nf := f - e
    if nf > 18 then .bad
    else if (D : Int) ≤ (2 : Int) ^ 127 - 1 then .ok (sgn D) nf.toNat else .bad

theorem parseSpec_eq (s : List Nat) :
    Spec.parseSpec s =
      if s.isEmpty then .empty else
      let sg := Spec.optSign s
      let ip := Spec.spanDigits sg.2
      let fp := sFrac ip.2
      if ip.1.isEmpty ∧ fp.1.isEmpty then .bad else
      match sExp fp.2.1 with
      | none => .bad
      | some (e, rest) =>
        if !rest.isEmpty then .bad else sFinal sg.1 (Spec.digitsVal (ip.1 ++ fp.1)) fp.1.length e := by
  unfold Spec.parseSpec sFrac sExp sFinal
  rfl

/-! ## the model, cut into pieces -/

def mFrac (coeff : Nat) (s1 : List Nat) : Nat × List Nat × Nat :=
  match s1 with
  | 46 :: rest => accumCoeff coeff rest
  | _ => (coeff, s1, 0)

def mExp (prof : Profile) (s2 : List Nat) : Outcome (Except ParseErr (Int × List Nat)) :=
  match s2 with
  | [] => .ok (.ok (0, []))
  | c :: rest =>
    if c = 101 ∨ c = 69 then
      match takeSign rest with
      | none => .ok (.error .invalid)
      | some (expNeg, s3) =>
        let r := accumExp 0 s3
        let nExp := s3.length - r.2.length
        match (if expNeg then IntTy.isize.plain prof (-r.1) else .ok r.1) with
        | .panic k => .panic k
        | .ok exp => if nExp = 0 then .ok (.error .invalid) else .ok (.ok (exp, r.2))
    else .ok (.error .invalid)

def mTail (prof : Profile) (isNeg : Bool) (coeff nFrac : Nat)
    (expPart : Outcome (Except ParseErr (Int × List Nat))) : Outcome (Except ParseErr (Int × Int)) :=
    match expPart with
    | .panic k => .panic k
    | .ok (.error e) => .ok (.error e)
    | .ok (.ok (exp, s5)) =>
      if !s5.isEmpty then .ok (.error .invalid) else
      match IntTy.isize.plain prof (exp - nFrac) with
      | .panic k => .panic k
      | .ok exp =>
        match IntTy.isize.plain prof (-exp) with
        | .panic k => .panic k
        | .ok nexp =>
          if nexp > Gen.MAX_N_FRAC_DIGITS then .ok (.error .fracLimit) else
          let c : Int := IntTy.i128.cast coeff
          if isNeg then
            match negI128 prof c with
            | .panic k => .panic k
            | .ok c => .ok (.ok (c, exp))
          else .ok (.ok (c, exp))

theorem strToDec_eq (prof : Profile) (lit : List Nat) :
    strToDec prof lit =
      match takeSign lit with
      | none => .ok (.error .empty)
      | some (isNeg, s) =>
        if s.isEmpty then .ok (.error .invalid) else
        let s' := skipLeadingZeroes s
        if s'.isEmpty then .ok (.ok (0, 0)) else
        let r1 := accumCoeff 0 s'
        let r2 := mFrac r1.1 r1.2.1
        if r1.2.2 + r2.2.2 = 0 ∧ !decide (s'.length < s.length) then .ok (.error .invalid) else
        if (r2.1 : Int) > I128_MAX then .ok (.error .overflow) else
        mTail prof isNeg r2.1 r2.2.2 (mExp prof r2.2.1) := by
  unfold strToDec mFrac mExp mTail
  generalize IntTy.isize.plain prof = F
  generalize negI128 prof = G
  generalize IntTy.i128.cast = H
  generalize accumExp 0 = A
  generalize accumCoeff = B
  generalize takeSign = T
  generalize skipLeadingZeroes = S
  rfl

/-! ## sign, leading zeroes -/

theorem takeSign_nil : takeSign [] = none := rfl

theorem takeSign_cons (c : Nat) (cs : List Nat) : takeSign (c :: cs) = some (Spec.optSign (c :: cs)) := by
  unfold takeSign Spec.optSign
  by_cases h1 : c = 45
  · subst h1; rfl
  · by_cases h2 : c = 43
    · subst h2; rfl
    · simp only [h1, h2, if_false]
      split <;> simp_all

theorem optSign_length (s : List Nat) : (Spec.optSign s).2.length ≤ s.length := by
  unfold Spec.optSign
  split <;> simp

theorem optSign_mem (s : List Nat) : ∀ x ∈ (Spec.optSign s).2, x ∈ s := by
  unfold Spec.optSign
  split <;> simp_all

theorem skip_spec (s : List Nat) :
    ∃ n, s = List.replicate n 48 ++ skipLeadingZeroes s ∧
      (skipLeadingZeroes s).length + n = s.length := by
  induction s with
  | nil => exact ⟨0, rfl, rfl⟩
  | cons c cs ih =>
    unfold skipLeadingZeroes
    by_cases h : c = 48
    · subst h
      obtain ⟨n, h1, h2⟩ := ih
      refine ⟨n + 1, ?_, ?_⟩
      · simp only [if_true, List.replicate_succ, List.cons_append]; rw [← h1]
      · simp only [if_true, List.length_cons]; omega
    · simp only [h, if_false]; exact ⟨0, rfl, rfl⟩

theorem zeros_digits (n : Nat) : ∀ c ∈ List.replicate n 48, Spec.isDig c = true := by
  intro c hc
  rw [List.mem_replicate] at hc
  rw [hc.2]; rfl

theorem digitsVal_zeros (n : Nat) : Spec.digitsVal (List.replicate n 48) = 0 := by
  induction n with
  | zero => rfl
  | succ n ih => rw [List.replicate_succ, digitsVal_cons, ih]; simp

/-! ## `isize` -/

theorem isize_fits {x : Int} (h0 : -9223372036854775808 ≤ x) (h1 : x ≤ 9223372036854775807) :
    IntTy.isize.fits x = true := by
  unfold IntTy.fits IntTy.min IntTy.max IntTy.isize
  have e1 : (2 : Int) ^ (64 - 1) = 9223372036854775808 := by decide
  simp only [if_true, e1]
  simp; omega

theorem isize_plain_ok (prof : Profile) {x : Int} (h0 : -9223372036854775808 ≤ x)
    (h1 : x ≤ 9223372036854775807) : IntTy.isize.plain prof x = .ok x := by
  unfold IntTy.plain; rw [isize_fits h0 h1]; rfl

theorem isize_wrap_id {x : Int} (h0 : -9223372036854775808 ≤ x) (h1 : x ≤ 9223372036854775807) :
    IntTy.isize.wrap x = x := by
  unfold IntTy.wrap IntTy.isize
  have e1 : (2 : Int) ^ (64 - 1) = 9223372036854775808 := by decide
  have e2 : (2 : Int) ^ 64 = 18446744073709551616 := by decide
  simp only [if_true, e1, e2]
  omega

theorem i128_cast_id {x : Int} (h0 : 0 ≤ x) (h1 : x ≤ I128_MAX) : IntTy.i128.cast x = x := by
  unfold IntTy.cast IntTy.wrap IntTy.i128
  unfold I128_MAX at h1
  have e1 : (2 : Int) ^ (128 - 1) = 170141183460469231731687303715884105728 := by decide
  have e2 : (2 : Int) ^ 128 = 340282366920938463463374607431768211456 := by decide
  simp only [if_true, e1, e2]
  omega

theorem u8_cast_toNat {x : Int} (h0 : 0 ≤ x) (h1 : x ≤ 255) : (IntTy.u8.cast x).toNat = x.toNat := by
  rw [u8_cast_id h0 h1]

/-! ## `accum_exp` -/

theorem expLimit_eq : EXP_LIMIT = 92233720368547758 := by decide

theorem accumExp_sat (e : Int) (s : List Nat) (hb : ∀ x ∈ s, x < 256) (he : EXP_LIMIT ≤ e) :
    accumExp e s = (e, (Spec.spanDigits s).2) := by
  induction s with
  | nil => rfl
  | cons c cs ih =>
    have hc : c < 256 := hb c (by simp)
    have ih := ih (fun x hx => hb x (by simp [hx]))
    unfold accumExp
    cases h : Spec.isDig c
    · have : ¬ digitVal c < 10 := by rw [digitVal_lt_iff c hc, h]; simp
      simp only [this, if_false]
      rw [span_cons_nondig c cs h]
    · have : digitVal c < 10 := by rw [digitVal_lt_iff c hc, h]
      have h2 : ¬ e < EXP_LIMIT := by omega
      simp only [this, if_true, h2, if_false]
      rw [ih, span_cons_dig c cs h]

/-- result of `accum_exp`: the true value, or (saturated) something `≥ EXP_LIMIT` when the true value is `≥ EXP_LIMIT` -/
theorem accumExp_spec (s : List Nat) (hb : ∀ x ∈ s, x < 256) : ∀ (e : Nat), (e : Int) ≤ 10 * EXP_LIMIT + 9 →
    ∃ E : Int, accumExp e s = (E, (Spec.spanDigits s).2) ∧ 0 ≤ E ∧ E ≤ 10 * EXP_LIMIT + 9 ∧
      (E = ((e * 10 ^ (Spec.spanDigits s).1.length + Spec.digitsVal (Spec.spanDigits s).1 : Nat) : Int) ∨
       (EXP_LIMIT ≤ E ∧
        EXP_LIMIT ≤ ((e * 10 ^ (Spec.spanDigits s).1.length + Spec.digitsVal (Spec.spanDigits s).1 : Nat) : Int))) := by
  induction s with
  | nil =>
    intro e he
    refine ⟨e, rfl, by omega, he, Or.inl ?_⟩
    simp [span_nil, digitsVal_nil]
  | cons c cs ih =>
    intro e he
    have hc : c < 256 := hb c (by simp)
    have ih := ih (fun x hx => hb x (by simp [hx]))
    cases h : Spec.isDig c
    · have : ¬ digitVal c < 10 := by rw [digitVal_lt_iff c hc, h]; simp
      unfold accumExp
      simp only [this, if_false]
      rw [span_cons_nondig c cs h]
      refine ⟨e, rfl, by omega, he, Or.inl ?_⟩
      simp [digitsVal_nil]
    · have hd : digitVal c < 10 := by rw [digitVal_lt_iff c hc, h]
      by_cases hlim : (e : Int) < EXP_LIMIT
      · -- not yet saturated: one exact step
        have hstep : accumExp e (c :: cs) = accumExp ((e * 10 + digitVal c : Nat) : Int) cs := by
          conv => lhs; unfold accumExp
          simp only [hd, if_true, hlim]
          have hl := expLimit_eq
          have w1 : IntTy.isize.wrap ((e : Int) * 10) = (e : Int) * 10 := isize_wrap_id (by omega) (by omega)
          rw [w1]
          have w2 : IntTy.isize.wrap ((e : Int) * 10 + (digitVal c : Int)) = (e : Int) * 10 + (digitVal c : Int) :=
            isize_wrap_id (by omega) (by omega)
          rw [w2]
          congr 1
        have hl := expLimit_eq
        obtain ⟨E, h1, h2, h3, h4⟩ := ih (e * 10 + digitVal c) (by push_cast; omega)
        refine ⟨E, ?_, h2, h3, ?_⟩
        · rw [hstep, h1, span_cons_dig c cs h]
        · rw [span_cons_dig c cs h]
          simp only [List.length_cons, digitsVal_cons]
          rw [digitVal_eq c h] at h4
          have : (e * 10 + (c - 48)) * 10 ^ (Spec.spanDigits cs).1.length + Spec.digitsVal (Spec.spanDigits cs).1
              = e * 10 ^ ((Spec.spanDigits cs).1.length + 1) +
                ((c - 48) * 10 ^ (Spec.spanDigits cs).1.length + Spec.digitsVal (Spec.spanDigits cs).1) := by ring
          rw [← this]; exact h4
      · have hsat : EXP_LIMIT ≤ (e : Int) := by omega
        refine ⟨e, accumExp_sat e _ hb hsat, by omega, he, Or.inr ⟨hsat, ?_⟩⟩
        have h1 : 1 ≤ 10 ^ (Spec.spanDigits (c :: cs)).1.length := Nat.one_le_pow _ _ (by decide)
        have h2 : e ≤ e * 10 ^ (Spec.spanDigits (c :: cs)).1.length := Nat.le_mul_of_pos_right _ h1
        have h3 : (e : Int) ≤ ((e * 10 ^ (Spec.spanDigits (c :: cs)).1.length +
            Spec.digitsVal (Spec.spanDigits (c :: cs)).1 : Nat) : Int) := by
          exact_mod_cast Nat.le_trans h2 (Nat.le_add_right _ _)
        omega

end Fpdec.ParseAux
