import Fpdec.Model.Core

/-!
# A crude bound on `i128_magnitude` for values below `2^53`

`from_float.rs` only needs `magn_coeff + 18 < 38`; we show `i128Magnitude c ≤ 17` for `|c| < 2^53`.
-/

namespace Fpdec
open Fpdec.Model

theorem lessThan5_le7 (v : Nat) (h : v < 100000) : lessThan5 v ≤ 7 := by
  unfold lessThan5 Gen.LOG_LT5_C1 Gen.LOG_LT5_C2 Gen.LOG_LT5_C3 Gen.LOG_LT5_C4
  have e20 : (2 : Nat) ^ 20 = 1048576 := by decide
  have h1 : (v + 393206) &&& (v + 524188) < 2 ^ 20 := Nat.and_lt_two_pow _ (by omega)
  have h2 : (v + 916504) &&& (v + 514288) < 2 ^ 20 := Nat.and_lt_two_pow _ (by omega)
  have h3 := Nat.xor_lt_two_pow h1 h2
  rw [Nat.shiftRight_eq_div_pow]
  have e17 : (2 : Nat) ^ 17 = 131072 := by decide
  rw [e17]; rw [e20] at h3
  omega

theorem lessThan5_small : ∀ v, v < 10 → lessThan5 v = 0 := by decide

theorem log10U128_le (v : Nat) (h : v < 9007199254740992) : log10U128 v ≤ 17 := by
  unfold log10U128 Gen.LOG_U128_T1 Gen.LOG_U128_T2
  have c1 : ¬ v ≥ 100000000000000000000000000000000 := by omega
  have c2 : ¬ v ≥ 10000000000000000 := by omega
  simp only [c1, c2, if_false]
  have e64 : v % 2 ^ 64 = v := Nat.mod_eq_of_lt (by
    have : (2 : Nat) ^ 64 = 18446744073709551616 := by decide
    omega)
  rw [e64]
  unfold log10U64 Gen.LOG_U64_T1 Gen.LOG_U64_T2
  have e32 : (2 : Nat) ^ 32 = 4294967296 := by decide
  by_cases a1 : v ≥ 10000000000
  · simp only [a1, if_true]
    by_cases a2 : v / 10000000000 ≥ 100000
    · simp only [a2, if_true]
      have hlt : v / 10000000000 / 100000 < 10 := by omega
      have e : v / 10000000000 / 100000 % 2 ^ 32 = v / 10000000000 / 100000 := Nat.mod_eq_of_lt (by omega)
      rw [e]
      have := lessThan5_small _ hlt
      omega
    · simp only [a2, if_false]
      have e : v / 10000000000 % 2 ^ 32 = v / 10000000000 := Nat.mod_eq_of_lt (by omega)
      rw [e]
      have := lessThan5_le7 (v / 10000000000) (by omega)
      omega
  · simp only [a1, if_false]
    by_cases a2 : v ≥ 100000
    · simp only [a2, if_true]
      have e : v / 100000 % 2 ^ 32 = v / 100000 := Nat.mod_eq_of_lt (by omega)
      rw [e]
      have := lessThan5_le7 (v / 100000) (by omega)
      omega
    · simp only [a2, if_false]
      have e : v % 2 ^ 32 = v := Nat.mod_eq_of_lt (by omega)
      rw [e]
      have := lessThan5_le7 v (by omega)
      omega

theorem i128Magnitude_le (c : Int) (h0 : 0 ≤ c) (h : c < 9007199254740992) : i128Magnitude c ≤ 17 := by
  unfold i128Magnitude
  have := log10U128_le c.natAbs (by omega)
  omega

end Fpdec
