import Fpdec.Lemmas.Rounding
import Fpdec.Spec.Float
import Fpdec.Model.Float
import Mathlib.Tactic.Ring
import Mathlib.Tactic.Linarith

/-!
# `normalize` (model) against `Spec.normalizeSpec`
-/

namespace Fpdec
open Fpdec.Model

/-- the model's loop and the spec's recursion agree as soon as both have enough fuel -/
theorem normalize_go_eq : ∀ (fuel1 : Nat) (c : Int) (p fuel2 : Nat), c ≠ 0 → p ≤ fuel1 → p ≤ fuel2 →
    normalize.go fuel1 c p = Spec.normalizeSpec fuel2 c p := by
  intro fuel1
  induction fuel1 with
  | zero =>
    intro c p fuel2 hc h1 h2
    have hp : p = 0 := by omega
    subst hp
    unfold normalize.go
    cases fuel2 with
    | zero => rfl
    | succ f2 => unfold Spec.normalizeSpec; simp [hc]
  | succ f1 ih =>
    intro c p fuel2 hc h1 h2
    unfold normalize.go
    by_cases hcond : c.tmod 10 = 0 ∧ p > 0
    · have hmod : c % 10 = 0 := (tmod_zero_iff c 10).mp hcond.1
      have hdvd : (10 : Int) ∣ c := Int.dvd_of_emod_eq_zero hmod
      obtain ⟨f2, rfl⟩ : ∃ f2, fuel2 = f2 + 1 := ⟨fuel2 - 1, by omega⟩
      have hc' : c / 10 ≠ 0 := by omega
      simp only [hcond, and_self, if_true]
      unfold Spec.normalizeSpec
      have hcond2 : p > 0 ∧ c % 10 = 0 := ⟨hcond.2, hmod⟩
      simp only [hc, if_false, hcond2, and_self, if_true]
      rw [Int.tdiv_eq_ediv_of_dvd hdvd]
      exact ih (c / 10) (p - 1) f2 hc' (by omega) (by omega)
    · simp only [hcond, if_false]
      have hcond2 : ¬ (p > 0 ∧ c % 10 = 0) := by
        intro h; exact hcond ⟨(tmod_zero_iff c 10).mpr h.2, h.1⟩
      cases fuel2 with
      | zero => rfl
      | succ f2 => unfold Spec.normalizeSpec; simp only [hc, if_false, hcond2]

/-- `normalize` is `normalizeSpec` with any fuel `> p` -/
theorem normalize_eq_normalizeSpec (c : Int) (p fuel : Nat) (h : p < fuel) :
    normalize c p = Spec.normalizeSpec fuel c p := by
  unfold normalize
  by_cases hc : c = 0
  · subst hc
    obtain ⟨f2, rfl⟩ : ∃ f2, fuel = f2 + 1 := ⟨fuel - 1, by omega⟩
    simp [Spec.normalizeSpec]
  · simp only [hc, if_false]
    exact normalize_go_eq p c p fuel hc (Nat.le_refl _) (by omega)

/-- stripping `m` explicit trailing zeros -/
theorem normalizeSpec_strip (c : Int) (hc : c ≠ 0) : ∀ (m fuel p : Nat),
    Spec.normalizeSpec (fuel + m) (c * 10 ^ m) (p + m) = Spec.normalizeSpec fuel c p := by
  intro m
  induction m with
  | zero => intro fuel p; simp
  | succ m ih =>
    intro fuel p
    have e1 : fuel + (m + 1) = (fuel + m) + 1 := by omega
    have hne : c * 10 ^ (m + 1) ≠ 0 := Int.mul_ne_zero hc (Int.ne_of_gt (pow10_pos _))
    have hmod : c * 10 ^ (m + 1) % 10 = 0 := by
      rw [Int.pow_succ, ← Int.mul_assoc]; exact Int.mul_emod_left _ _
    have hdiv : c * 10 ^ (m + 1) / 10 = c * 10 ^ m := by
      rw [Int.pow_succ, ← Int.mul_assoc]; exact Int.mul_ediv_cancel _ (by decide)
    rw [e1]
    conv => lhs; unfold Spec.normalizeSpec
    have hcond : p + (m + 1) > 0 ∧ c * 10 ^ (m + 1) % 10 = 0 := ⟨by omega, hmod⟩
    simp only [hne, if_false, hcond, and_self, if_true, hdiv]
    have e2 : p + (m + 1) - 1 = p + m := by omega
    rw [e2]
    exact ih fuel p

/-- the coefficient never grows -/
theorem normalizeSpec_natAbs_le : ∀ (fuel : Nat) (c : Int) (p : Nat),
    (Spec.normalizeSpec fuel c p).1.natAbs ≤ c.natAbs := by
  intro fuel
  induction fuel with
  | zero => intro c p; unfold Spec.normalizeSpec; exact Nat.le_refl _
  | succ f ih =>
    intro c p
    unfold Spec.normalizeSpec
    by_cases hc : c = 0
    · simp [hc]
    · simp only [hc, if_false]
      by_cases hcond : p > 0 ∧ c % 10 = 0
      · simp only [hcond, and_self, if_true]
        have := ih (c / 10) (p - 1)
        omega
      · simp only [hcond, if_false]; exact Nat.le_refl _

end Fpdec
